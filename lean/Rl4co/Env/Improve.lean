/-
Models of the improvement environments for ONE instance (one batch row).  No Mathlib.

  * `rl4co/envs/routing/tsp/env.py:TSPkoptEnv`       `_local_operator` (2-opt and NeuOpt k-opt),
    `get_mask`, the action builder of `_random_action` (= the internal masks of `NeuOptPolicy`),
    `_step`, `check_solution_validity`
  * `rl4co/envs/routing/pdp/env.py:PDPRuinRepairEnv`  `_local_operator`, `get_mask`, `_step`,
    `check_solution_validity`

A solution is a successor array `rec : Nat → Nat` over nodes `0 .. n-1` ("linked list": `rec j` is
the node visited after `j`).  Scatter of one entry is `upd`; a Python `for` loop is a structural
recursion on its trip count.  `rec.argsort()` is modelled as what it is — the indices `0..n-1` sorted by
their value (`argsort`, an insertion sort; ties are irrelevant because the code only applies it to
permutations) — and `Proofs/ImproveCycle.lean` PROVES that on a permutation it is the inverse permutation
(the predecessor array).

Decision-critical tokens of the source (comparison operators, thresholds, loop trip counts, stamp offsets,
the order of the PDP re-insertion, checker comparisons) are PARAMETERS of the `…C` / `…P` definitions; the
section `Code` at the end instantiates them with `Rl4co.Params.improve…`, which `harness/extract.py`
regenerates from the Python AST on every run.  The un-suffixed definitions are the instances at the values the
theorems need; `Props/C09/ImproveCode.lean` proves (by `decide`) that the extracted values are those.
-/
import Rl4co.Core.Basic
import Rl4co.Core.Sort
import Rl4co.Generated.Params

namespace Rl4co.Improve

abbrev Rec := Nat → Nat

/-- insertion into a list of indices sorted by `key` -/
def insertBy (key : Nat → Nat) (x : Nat) : List Nat → List Nat
  | [] => [x]
  | y :: ys => if key x ≤ key y then x :: y :: ys else y :: insertBy key x ys

def isortBy (key : Nat → Nat) : List Nat → List Nat
  | [] => []
  | x :: xs => insertBy key x (isortBy key xs)

/-- `rec.argsort()`: the indices `0..n-1` sorted by the value `rec` holds there -/
def argsortL (n : Nat) (rec : Rec) : List Nat := isortBy rec (List.range n)

/-- `rec.argsort()[j]` -/
def argsort (n : Nat) (rec : Rec) (j : Nat) : Nat := (argsortL n rec).getD j 0

/-! ### 2-opt (`two_opt_mode`) -/

/-- the "reverse loop": `cur` walks along the OLD solution from `first`; until `cur = second` the
link `cur → sol cur` is turned around. `k` = remaining trip count (`num_loc` in total). -/
def revLoop (sol : Rec) (second : Nat) : Nat → Nat → Rec → Rec
  | 0, _, rec => rec
  | k + 1, cur, rec =>
    let curNext := sol cur
    let rec' := upd rec curNext (if cur ≠ second then cur else rec curNext)
    revLoop sol second k (if cur ≠ second then curNext else cur) rec'

/-- `_local_operator` in `two_opt_mode` with action `(first, second)`; the reverse loop runs
`num_loc - sub` times (`sub = 0` in the source). -/
def localOp2C (sub n : Nat) (sol : Rec) (first second : Nat) : Rec :=
  let preFirst := argsort n sol first
  let preFirst := if preFirst ≠ second then preFirst else first
  let r := upd sol preFirst second
  let postSecond := sol second
  let postSecond := if postSecond ≠ first then postSecond else second
  let r := upd r first postSecond
  revLoop sol second (n - sub) first r

def localOp2 (n : Nat) (sol : Rec) (first second : Nat) : Rec := localOp2C 0 n sol first second

/-- `get_mask` in `two_opt_mode`: everything but the diagonal. -/
def mask2 (first second : Nat) : Bool := first != second

/-! ### k-opt (NeuOpt) -/

/-- `rec.scatter_(1, left, right)` entry by entry (later entries win; the code only ever repeats an
index together with the same value). -/
def scatterL (rec : Rec) : List Nat → List Nat → Rec
  | l :: ls, r :: rs => scatterL (upd rec l r) ls rs
  | _, _ => rec

/-- the relinking walk of the k-opt branch; `k` = remaining trip count (`num_loc - 2` in total). -/
def koptLoop (prd : Rec) (rightNodes : List Nat) : Nat → Nat → Rec → Rec
  | 0, _, rec => rec
  | k + 1, cur, rec =>
    let nextCur := rec cur
    let preOld := prd nextCur
    let cond := (cur != preOld) && !(rightNodes.contains nextCur)
    let nextNext := rec nextCur
    koptLoop prd rightNodes k nextCur (upd rec nextCur (if cond then preOld else nextNext))

/-- `_local_operator` with `k_max > 2`; the action is `(selected_index, left, right)`, `K` entries each;
the relinking walk runs `num_loc - sub` times (`sub = 2` in the source). -/
def localOpKC (sub n : Nat) (sol : Rec) (sel left right : List Nat) : Rec :=
  let rightNodes := sel.map sol
  let prdL := argsortL n sol          -- `argsort = rec.argsort()`, computed once
  let prd : Rec := fun j => prdL.getD j 0
  let r := scatterL sol left right
  koptLoop prd rightNodes (n - sub) (left.headD 0) r

def localOpK (n : Nat) (sol : Rec) (sel left right : List Nat) : Rec := localOpKC 2 n sol sel left right

/-- state of the sequential action builder shared by `TSPkoptEnv._random_action` (k_max > 2) and
`NeuOptPolicy.forward` -/
structure GenState where
  actionIndex : List Nat := []      -- `action_index[:, :i]`
  kLeft       : Nat → Nat := fun _ => 0   -- `k_action_left` (K+1 columns)
  kRight      : Nat → Nat := fun _ => 0   -- `k_action_right` (K columns)
  nextOfLast  : Option Nat := none  -- `next_of_last_action`, `none` = -1
  mask        : Nat → Bool := fun _ => false  -- True = node may NOT be chosen
  stopped     : Bool := true
  tag         : Nat → Nat := fun _ => 0   -- `visited_time_tag`
  admitted    : Bool := true        -- every effective choice so far was outside the mask
  masks       : List (List Bool) := []  -- mask offered at each sub-step (for the correspondence)

/-- one iteration `i` of the builder loop with sampled node `c`. -/
def genStep (n K : Nat) (rec : Rec) (vt : Nat → Nat) (i : Nat) (g : GenState) (c : Nat) : GenState :=
  let a0 := g.actionIndex.headD 0
  -- `torch.where(stopped, action_index[:, :1], action)` for i > 0
  let forced := decide (i > 0) && g.stopped
  let action := if forced then a0 else c
  let admitted := g.admitted && (forced || !(g.mask c)) && decide (c < n)
  let nextNew := rec action
  let actionIndex := g.actionIndex ++ [action]
  let a0 := actionIndex.headD 0
  let kLeft := if g.stopped then upd g.kLeft i action else g.kLeft
  -- `k_action_right[~stopped, i - 1]` (index -1 = last column when i = 0)
  let kRight := if g.stopped then g.kRight else upd g.kRight (if i = 0 then K - 1 else i - 1) action
  let kLeft := upd kLeft (i + 1) nextNew
  let hit := g.nextOfLast == some action
  let stopped := if i > 0 then g.stopped || hit else hit
  let kLeft := if stopped then upd kLeft i (kLeft (if i = 0 then K else i - 1)) else kLeft
  let kRight := if stopped then upd kRight i (kRight (if i = 0 then K - 1 else i - 1)) else kRight
  let tag := if i = 0 then (fun j => (vt j + n - vt action % n) % n) else g.tag
  let mask : Nat → Bool := fun j => decide (tag j ≤ tag action)
  let mask : Nat → Bool := if i = 0 then (fun j => mask j || decide (tag j > n - 2)) else mask
  let mask := if stopped then upd mask action false else mask
  let mask := if !stopped && nextNew == a0 then upd mask a0 false else mask
  { actionIndex := actionIndex, kLeft := kLeft, kRight := kRight,
    nextOfLast := if stopped then none else some nextNew,
    mask := mask, stopped := stopped, tag := tag, admitted := admitted,
    masks := g.masks ++ [(List.range n).map g.mask] }

def genLoop (n K : Nat) (rec : Rec) (vt : Nat → Nat) : Nat → GenState → List Nat → GenState
  | _, g, [] => g
  | i, g, c :: cs => genLoop n K rec vt (i + 1) (genStep n K rec vt i g c) cs

/-- The complete builder: sampled nodes `choices` (K of them) ↦ final state; `mask0` is the mask
before the first choice (all-free for `_random_action`, the previous first node for NeuOpt). -/
def genRun (n K : Nat) (rec : Rec) (vt : Nat → Nat) (mask0 : Nat → Bool) (choices : List Nat) : GenState :=
  genLoop n K rec vt 0 { mask := mask0 } choices

/-- "Form final action": `(action_index, k_action_left[:, :K], k_action_right)`. -/
def genAction (K : Nat) (g : GenState) : List Nat × List Nat × List Nat :=
  let kRight := if g.stopped then g.kRight else upd g.kRight (K - 1) (g.kLeft K)
  (g.actionIndex, (List.range K).map g.kLeft, (List.range K).map kRight)

/-! ### PDP ruin and repair -/

/-- `PDPRuinRepairEnv._local_operator` with action `(pairIdx, first, second)`; `gs = num_loc + 1`. -/
def pdpLocalOp (gs : Nat) (sol : Rec) (pairIdx first second : Nat) : Rec :=
  let p := pairIdx + 1
  let d := p + gs / 2
  -- remove the pickup
  let prePick := argsort gs sol p
  let postPick := sol p
  let r := upd sol prePick postPick
  let r := upd r p p
  -- remove the delivery (fresh argsort)
  let preDel := argsort gs r d
  let postDel := r d
  let r := upd r preDel postDel
  -- delivery after `second`
  let postSecond := r second
  let r := upd r second d
  let r := upd r d postSecond
  -- pickup after `first`
  let postFirst := r first
  let r := upd r first p
  upd r p postFirst

/-- the same with the source's tokens as parameters: `off` = the `+ 1` of `pair_index`, `deliveryFirst` =
the splice at `second` is executed before the splice at `first`, `secondGetsDelivery` = the node spliced in
after `second` is the delivery (and the pickup goes after `first`). -/
def pdpLocalOpC (off : Nat) (deliveryFirst secondGetsDelivery : Bool) (gs : Nat) (sol : Rec)
    (pairIdx first second : Nat) : Rec :=
  let p := pairIdx + off
  let d := p + gs / 2
  let prePick := argsort gs sol p
  let postPick := sol p
  let r := upd sol prePick postPick
  let r := upd r p p
  let preDel := argsort gs r d
  let postDel := r d
  let r := upd r preDel postDel
  let nodeS := if secondGetsDelivery then d else p
  let nodeF := if secondGetsDelivery then p else d
  let spliceAfter (r : Rec) (at' node : Nat) : Rec :=
    let post := r at'
    upd (upd r at' node) node post
  if deliveryFirst then spliceAfter (spliceAfter r second nodeS) first nodeF
  else spliceAfter (spliceAfter r first nodeF) second nodeS

/-- the `visited_time` walk of `_reset`/`_step`: `n` hops from node 0, hop `i` stamps `i+1`. -/
def vtLoop (rec : Rec) : Nat → Nat → Nat → (Nat → Nat) → (Nat → Nat)
  | 0, _, _, vt => vt
  | k + 1, i, pre, vt =>
    let cur := rec pre
    vtLoop rec k (i + 1) cur (upd vt cur (i + 1))

def visitedTime (n : Nat) (rec : Rec) : Nat → Nat := vtLoop rec n 0 0 (fun _ => 0)

/-- the walk with the source's tokens as parameters: `p.1` = the `+ 1` of the stamp `i + 1`, `p.2` = the
deficit `c` of the trip count `range(gs - c)` -/
def vtLoopC (stamp : Nat) (rec : Rec) : Nat → Nat → Nat → (Nat → Nat) → (Nat → Nat)
  | 0, _, _, vt => vt
  | k + 1, i, pre, vt =>
    let cur := rec pre
    vtLoopC stamp rec k (i + 1) cur (upd vt cur (i + stamp))

def visitedTimeC (p : Nat × Nat) (n : Nat) (rec : Rec) : Nat → Nat :=
  vtLoopC p.1 rec (n - p.2) 0 0 (fun _ => 0)

/-- `PDPRuinRepairEnv.get_mask(selected_node = p, td)[first, second]` (True = admitted);
`p` is the 1-based pickup node. -/
def pdpMask (gs : Nat) (vt : Nat → Nat) (p first second : Nat) : Bool :=
  let d := p + gs / 2
  !(decide (vt first % gs > vt second % gs) || first == p || first == d || second == p || second == d)

/-- the same with the operator of `visited_time.view(bs, gs, 1) > visited_time.view(bs, 1, gs)` as a parameter -/
def pdpMaskC (cmp : Cmp) (gs : Nat) (vt : Nat → Nat) (p first second : Nat) : Bool :=
  let d := p + gs / 2
  !(cmp.evalNat (vt first % gs) (vt second % gs) || first == p || first == d || second == p || second == d)

/-! ### `_random_action` as a relation (every action it can emit)

`logits[~mask] = -1e20; softmax; multinomial(1)`: in float32 the masked entries get probability exactly 0,
so the sampled FLAT index `k` is one whose mask entry is true; the action is `(k // gs, k % gs)`. -/

/-- 2-opt: all actions `_random_action` can emit -/
def randomActions2 (n : Nat) : List (Nat × Nat) :=
  ((List.range (n * n)).filter (fun k => mask2 (k / n) (k % n))).map (fun k => (k / n, k % n))

/-- PDP: `selected_node = ((rand * gs) // 2) % (gs // 2)` is some index below `gs / 2`; then a flat index of
`get_mask(selected_node + 1, td)` whose entry is true -/
def randomActionsPdp (gs : Nat) (vt : Nat → Nat) : List (Nat × Nat × Nat) :=
  (List.range (gs / 2)).flatMap (fun pi =>
    ((List.range (gs * gs)).filter (fun k => pdpMask gs vt (pi + 1) (k / gs) (k % gs))).map
      (fun k => (pi, k / gs, k % gs)))

/-! ### `_step`: cost, best-so-far bookkeeping (identical in both environments) -/

/-- `get_costs`: Σ_j D j (rec j) -/
def cost (n : Nat) (D : Nat → Nat → Int) (rec : Rec) : Int :=
  ((List.range n).map (fun j => D j (rec j))).sum

structure State where
  recCur  : Rec
  recBest : Rec
  costCur : Int
  costBsf : Int
  reward  : Int
  vt      : Nat → Nat

/-- `_reset` from a given initial solution -/
def reset (n : Nat) (D : Nat → Nat → Int) (rec0 : Rec) : State :=
  let obj := cost n D rec0
  { recCur := rec0, recBest := rec0, costCur := obj, costBsf := obj, reward := 0,
    vt := visitedTime n rec0 }

/-- `_step` for an arbitrary move operator `op` (the `solution_to is None` branch). -/
def step {A : Type} (n : Nat) (D : Nat → Nat → Int) (op : Rec → A → Rec) (s : State) (a : A) : State :=
  let next := op s.recCur a
  let newObj := cost n D next
  let nowBsf := if newObj < s.costBsf then newObj else s.costBsf
  let reward := s.costBsf - nowBsf
  { recCur := next
    recBest := if reward > 0 then next else s.recBest   -- `solution_best[index] = next_rec[index]`
    costCur := newObj, costBsf := nowBsf, reward := reward
    vt := visitedTime n next }

/-- the source tokens of `_reset` / `_step` (one set per environment class) -/
structure StepParams where
  bsfCmp : Cmp              -- `torch.where(new_obj < cost_bsf, …)`
  whereNewFirst : Bool      -- `torch.where(cond, new_obj, cost_bsf)`
  rewardOldMinusNew : Bool  -- `reward = cost_bsf - now_bsf`
  bestCmp : Cmp             -- `index = reward > 0.0`
  bestThr : Int × Nat       -- the `0.0`, as an exact rational
  vtStep : Nat × Nat        -- `visited_time` walk of `_step`
  vtReset : Nat × Nat       -- `visited_time` walk of `_reset`
  deriving DecidableEq

/-- the values the theorems need (= the pinned source) -/
def StepParams.std : StepParams :=
  { bsfCmp := .lt, whereNewFirst := true, rewardOldMinusNew := true, bestCmp := .gt, bestThr := (0, 1),
    vtStep := (1, 0), vtReset := (1, 0) }

/-- ticks per unit length (`rl.SCALE`), only needed to compare a reward with a NON-zero threshold -/
def ticksPerUnit : Int := 1048576

def resetP (P : StepParams) (n : Nat) (D : Nat → Nat → Int) (rec0 : Rec) : State :=
  let obj := cost n D rec0
  { recCur := rec0, recBest := rec0, costCur := obj, costBsf := obj, reward := 0,
    vt := visitedTimeC P.vtReset n rec0 }

def stepP {A : Type} (P : StepParams) (n : Nat) (D : Nat → Nat → Int) (op : Rec → A → Rec) (s : State) (a : A) :
    State :=
  let next := op s.recCur a
  let newObj := cost n D next
  let c := P.bsfCmp.eval newObj s.costBsf
  let nowBsf := if c then (if P.whereNewFirst then newObj else s.costBsf)
    else (if P.whereNewFirst then s.costBsf else newObj)
  let reward := if P.rewardOldMinusNew then s.costBsf - nowBsf else nowBsf - s.costBsf
  let index := P.bestCmp.eval (reward * (P.bestThr.2 : Int)) (P.bestThr.1 * ticksPerUnit)
  { recCur := next
    recBest := if index then next else s.recBest
    costCur := newObj, costBsf := nowBsf, reward := reward
    vt := visitedTimeC P.vtStep n next }

/-! ### the batched `_step` as written (column by column) -/

/-- `solution_best[index] = next_rec[index].clone()`: the rows selected by the boolean mask are overwritten in
the tensor `td["rec_best"]` itself, all other rows keep their content -/
def maskedAssign : List Rec → List Bool → List Rec → List Rec
  | b :: bs, i :: is, x :: xs => (if i then x else b) :: maskedAssign bs is xs
  | _, _, _ => []

/-- `td.update({...})`: the columns put back together row by row -/
def assemble : List Rec → List Rec → List Int → List Int → List Int → List (Nat → Nat) → List State
  | a :: as, b :: bs, c :: cs, d :: ds, e :: es, f :: fs =>
    { recCur := a, recBest := b, costCur := c, costBsf := d, reward := e, vt := f } :: assemble as bs cs ds es fs
  | _, _, _, _, _, _ => []

/-- `_step` on a batch: every line of the source acts on whole columns (`Ds` = the rows' distance matrices,
`as` = the rows' actions) -/
def batchStepP {A : Type} (P : StepParams) (n : Nat) (Ds : List (Nat → Nat → Int)) (op : Rec → A → Rec)
    (ss : List State) (as : List A) : List State :=
  let solution := ss.map (·.recCur)
  let solutionBest := ss.map (·.recBest)
  let costBsf := ss.map (·.costBsf)
  let nextRec := List.zipWith op solution as
  let newObj := List.zipWith (fun D r => cost n D r) Ds nextRec
  let nowBsf := List.zipWith (fun o b => if P.bsfCmp.eval o b then (if P.whereNewFirst then o else b)
    else (if P.whereNewFirst then b else o)) newObj costBsf
  let reward := List.zipWith (fun b nb => if P.rewardOldMinusNew then b - nb else nb - b) costBsf nowBsf
  let index := reward.map (fun rw => P.bestCmp.eval (rw * (P.bestThr.2 : Int)) (P.bestThr.1 * ticksPerUnit))
  let solutionBest := maskedAssign solutionBest index nextRec
  let visitedTime := nextRec.map (visitedTimeC P.vtStep n)
  assemble nextRec solutionBest newObj nowBsf reward visitedTime

/-! ### checkers -/

/-- `arange <cmp> sort(rec_best)` elementwise, `.all()` -/
def checkKoptC (cmp : Cmp) (n : Nat) (rec : Rec) : Bool :=
  (List.zipWith (fun a b => cmp.evalNat a b) (List.range n) (sortNat ((List.range n).map rec))).all id

/-- the PDP checker with its tokens as parameters -/
def checkPdpC (cmpPerm cmpPrec : Cmp) (vtp : Nat × Nat) (gs : Nat) (rec : Rec) : Bool :=
  let vt := visitedTimeC vtp gs rec
  checkKoptC cmpPerm gs rec &&
  decide (gs / 2 = gs - (gs / 2 + 1)) &&
  (List.range (gs / 2)).all (fun k => cmpPrec.evalNat (vt (k + 1)) (vt (k + 1 + gs / 2)))



/-- `TSPkoptEnv.check_solution_validity`: `sort(rec_best) == arange` -/
def checkKopt (n : Nat) (rec : Rec) : Bool :=
  sortedIsRange n ((List.range n).map rec)

/-- `PDPRuinRepairEnv.check_solution_validity`: permutation test, then the `visited_time` walk and
`visited_time[1 : gs/2+1] < visited_time[gs/2+1 :]` (elementwise). -/
def checkPdp (gs : Nat) (rec : Rec) : Bool :=
  let vt := visitedTime gs rec
  checkKopt gs rec &&
  decide (gs / 2 = gs - (gs / 2 + 1)) &&   -- the two slices must have equal length (else torch raises)
  (List.range (gs / 2)).all (fun k => decide (vt (k + 1) < vt (k + 1 + gs / 2)))

/-! ### action decoding of the bundled improvement policies

The networks are uninterpreted: only the flat index the decoding strategy SELECTS enters (C10 proves that a
selected index has a true mask entry).  What is modelled is how that index becomes a move. -/

/-- flat index → pair; `divFirst` = `torch.cat((k // L, k % L))` in this order -/
def decodePair (divFirst : Bool) (L k : Nat) : Nat × Nat := if divFirst then (k / L, k % L) else (k % L, k / L)

/-- `DACTPolicy.forward`: the mask handed to the strategy is `env.get_mask(td)` with the previous action removed
in both orientations (`last` = `td["action"]` when present); entry `[a, b]` sits at flat index `a * n + b` -/
def dactMask (last : Option (Nat × Nat)) (a b : Nat) : Bool :=
  mask2 a b && !(last == some (a, b) || last == some (b, a))

def dactMaskFlat (n : Nat) (last : Option (Nat × Nat)) (k : Nat) : Bool := dactMask last (k / n) (k % n)

def dactMove (divFirst : Bool) (n k : Nat) : Nat × Nat := decodePair divFirst n k

/-- `N2SPolicy.forward`, removal stage: all pairs but the previously removed one -/
def n2sRemovalMask (last : Option Nat) (pi : Nat) : Bool := !(last == some pi)

/-- reinsertion stage: `env.get_mask(action_removal + off, td).view(batch, -1)` at flat index `k` -/
def n2sReinsertMaskFlat (cmp : Cmp) (off gs : Nat) (vt : Nat → Nat) (pi k : Nat) : Bool :=
  pdpMaskC cmp gs vt (pi + off) (k / gs) (k % gs)

def n2sMove (divFirst : Bool) (gs pi k : Nat) : Nat × Nat × Nat := (pi, decodePair divFirst gs k)

/-! ### the model instantiated with the tokens extracted from the current source -/

namespace Code

def localOp2 := localOp2C Params.improveKopt2LoopSub
def localOpK := localOpKC Params.improveKoptKLoopSub
def pdpLocalOp :=
  pdpLocalOpC Params.improvePdpPairOffset Params.improvePdpDeliveryFirst Params.improvePdpSecondGetsDelivery
def pdpMask := pdpMaskC Params.improvePdpMaskCmp

def koptParams : StepParams :=
  { bsfCmp := Params.improveKoptBsfCmp, whereNewFirst := Params.improveKoptBsfWhereNewFirst,
    rewardOldMinusNew := Params.improveKoptRewardOldMinusNew, bestCmp := Params.improveKoptBestCmp,
    bestThr := Params.improveKoptBestThr, vtStep := Params.improveKoptStepVt, vtReset := Params.improveKoptResetVt }

def pdpParams : StepParams :=
  { bsfCmp := Params.improvePdpBsfCmp, whereNewFirst := Params.improvePdpBsfWhereNewFirst,
    rewardOldMinusNew := Params.improvePdpRewardOldMinusNew, bestCmp := Params.improvePdpBestCmp,
    bestThr := Params.improvePdpBestThr, vtStep := Params.improvePdpStepVt, vtReset := Params.improvePdpResetVt }

def dactMove := Improve.dactMove Params.improveDactDecodeDivFirst
def n2sMove := Improve.n2sMove Params.improveN2sDecodeDivFirst
def n2sReinsertMaskFlat := Improve.n2sReinsertMaskFlat Params.improvePdpMaskCmp Params.improveN2sMaskPairOffset

def checkKopt := checkKoptC Params.improveKoptCheckCmp
def checkPdp := checkPdpC Params.improvePdpCheckCmp Params.improvePdpCheckPrecCmp Params.improvePdpCheckVt

end Code

end Rl4co.Improve
