/-
Model of `rl4co/envs/eda/dpp/env.py:DPPEnv` and `rl4co/envs/eda/mdpp/env.py:MDPPEnv` for ONE
instance: `_reset`, `_step`, the mask.  The impedance simulator behind `_get_reward` is not modelled.

`avail` is the instance's `td["action_mask"]` (the generator clears keep-out cells and the probing
port(s) in it), `probe` the probing port(s) as a bit-vector (DPP: the single index `td["probe"]`),
`quota` is `env.max_decaps` (a property of the environment object, equal for all rows of a batch).
`multi = true` is `MDPPEnv`, whose `_reset` additionally clears the probe cells from the mask;
`DPPEnv._reset` takes the instance's mask as it is.  No Mathlib.
-/
import Rl4co.Core.Basic
import Rl4co.Generated.Params

namespace Rl4co.Dpp

structure Inst where
  n     : Nat                 -- number of cells (`size²`)
  quota : Int                 -- `self.max_decaps`
  avail : Nat → Bool          -- `td["action_mask"]` of the instance
  probe : Nat → Bool          -- probing port(s)
  multi : Bool                -- MDPPEnv

structure State where
  am      : Nat → Bool        -- `action_mask`
  i       : Int
  done    : Bool
  keepout : Nat → Bool        -- `keepout` feature (`~td["action_mask"]` of the instance)

/-- `_reset` (DPPEnv; MDPPEnv: `logical_and(action_mask, ~probe)`) -/
def reset (i : Inst) : State :=
  { am := fun j => if i.multi then (i.avail j && (if Params.mdppResetProbeNegated then !(i.probe j) else i.probe j))
      else i.avail j
    i := 0
    done := false
    keepout := fun j => if Params.dppKeepoutNegated then !(i.avail j) else i.avail j }

def mask (_ : Inst) (s : State) (a : Nat) : Bool := s.am a

/-- `_step`: `available = action_mask.scatter(-1, a, 0)`; `done = i >= max_decaps - 1` -/
def step (i : Inst) (s : State) (a : Nat) : State :=
  { am := upd s.am a Params.dppScatterValue
    done := Params.dppDoneCmp.eval s.i (i.quota - Params.dppDoneOffset)
    i := s.i + 1
    keepout := s.keepout }

def done (_ : Inst) (s : State) : Bool := s.done

def env : Env Inst State where
  reset := reset
  nAct i := i.n
  mask := mask
  step := step
  done := done

/-- `MDPPEnv.__init__`: `super().__init__(**kwargs)` builds a *default* `DPPGenerator` and copies its
`max_decaps` (`dflt`) into the environment; after `self.generator = generator` the constructor
re-assigns `self.max_decaps = self.generator.max_decaps` (`given`) — upstream fix 5c8314b; before it
the default value stayed in place. -/
def mdppEnvQuota (_dflt given : Int) : Int := given

/-- `DPPEnv.__init__`: `self.max_decaps = self.generator.max_decaps` with the generator it was given. -/
def dppEnvQuota (_dflt given : Int) : Int := given

end Rl4co.Dpp
