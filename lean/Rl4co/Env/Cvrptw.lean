/-
Model of `rl4co/envs/routing/cvrptw/env.py:CVRPTWEnv` for ONE instance (one batch row).
`CVRPTWEnv` extends `CVRPEnv`: `get_action_mask` is CVRP's mask `&` the time-window test, `_step`
updates the clock and then calls `super()._step`; `done`, `_get_reward` are CVRP's.  The model mirrors
this by embedding the CVRP model (`base`).  Times, durations, distances are `Int` ticks.  Node-indexed
functions include the depot at index 0 (`time_windows[..., 0, :]`, `durations[..., 0]`).  No Mathlib.
-/
import Rl4co.Env.Cvrp

namespace Rl4co.Cvrptw

structure Inst where
  base : Cvrp.Inst            -- n, cap, demand, D of the parent class
  twS  : Nat → Int            -- `time_windows[..., j, 0]`, j = 0..n
  twE  : Nat → Int            -- `time_windows[..., j, 1]`
  dur  : Nat → Int            -- `durations[..., j]`

structure State where
  base : Cvrp.State           -- current_node, used_capacity, visited
  time : Int                  -- `current_time`
  dist : Nat → Int            -- `td["distances"]`: row cached by the last `get_action_mask`

/-- `get_action_mask` also writes `distances = get_distance(locs[current_node], locs)` into `td`. -/
def refresh (i : Inst) (b : Cvrp.State) (t : Int) : State :=
  { base := b, time := t, dist := fun j => i.base.D b.cur j }

/-- `_reset` (its last statement is `get_action_mask`, which caches the distance row of the depot). -/
def reset (i : Inst) : State := refresh i (Cvrp.reset i.base) 0

/-- `can_reach_in_time = current_time + dist <= time_windows[..., 1]` (for every node incl. the depot) -/
def canReach (i : Inst) (s : State) (a : Nat) : Bool :=
  Params.cvrptwMaskTwCmp.eval (s.time + i.base.D s.base.cur a) (i.twE a)

/-- `get_action_mask = CVRPEnv.get_action_mask(td) & can_reach_in_time` -/
def mask (i : Inst) (s : State) (a : Nat) : Bool :=
  Cvrp.mask i.base s.base a && canReach i s a

/-- `_step`: the clock is advanced with the *cached* distance row, then `super()._step(td)`, whose last
statement recomputes the mask (and the cache) from the new current node. -/
def step (i : Inst) (s : State) (a : Nat) : State :=
  -- `(action != 0) * (max(current_time + distance, tw_start) + duration)`; the comparison with 0 and the
  -- place of `+ duration` (after the max) are extracted from the source
  let served :=
    if Params.cvrptwStepDurAfterMax then max (s.time + s.dist a) (i.twS a) + i.dur a
    else max (s.time + s.dist a + i.dur a) (i.twS a)
  let t' := if Params.cvrptwStepDepotCmp.evalNat a 0 then served else 0
  refresh i (Cvrp.step i.base s.base a) t'

def done (i : Inst) (s : State) : Bool := Cvrp.done i.base s.base

def env : Env Inst State where
  reset := reset
  nAct i := i.base.n + 1
  mask := mask
  step := step
  done := done

/-- `_get_reward = super()._get_reward` -/
def reward (i : Inst) (as : List Nat) : Int := Cvrp.reward i.base as

/-- `x.int()` of a float tensor: truncation toward zero to a whole number; `unit` = ticks per 1.0. -/
def truncInt (unit : Int) (x : Int) : Int := (x.tdiv unit) * unit

/-- the static assertions of `check_solution_validity`; `e0` is `time_windows[..., 0, 1][0]`, the depot
deadline of BATCH ROW 0 (for a solo instance `e0 = twE 0`).  `distances >= 0` is about depot distances. -/
def checkStatic (i : Inst) (e0 : Int) : Bool :=
  (List.range (i.base.n + 1)).all (fun j =>
    decide (0 ≤ i.base.D 0 j) && decide (0 ≤ i.twS j) && decide (0 ≤ i.twE j) &&
    Params.cvrptwCheckStaticCmp.eval (i.twS j + i.base.D 0 j + i.dur j) e0 && decide (0 ≤ i.dur j) &&
    Params.cvrptwCheckOrderCmp.eval (i.twS j) (i.twE j))

/-- the clock simulation of the checker: `curr_time = max((curr_time + dist).int(), tw_start)`,
assert `curr_time <= tw_end`, `curr_time += duration`, `curr_time[node == 0] = 0`. -/
def checkClock (i : Inst) (unit : Int) : Int → Nat → List Nat → Bool
  | _, _, [] => true
  | t, cur, a :: as =>
    let arr := t + i.base.D cur a
    let t1 := max (if Params.cvrptwCheckTruncates then truncInt unit arr else arr) (i.twS a)
    Params.cvrptwCheckTwCmp.eval t1 (i.twE a) &&
      checkClock i unit (if a = 0 then 0 else t1 + i.dur a) a as

/-- `check_solution_validity` (True = no assertion raised). -/
def check (i : Inst) (tol unit e0 : Int) (as : List Nat) : Bool :=
  -- the static assertion reads the depot deadline of batch row 0 (`e0`) iff the source indexes `[0]`
  Cvrp.check i.base tol as && checkStatic i (if Params.cvrptwCheckRow0 then e0 else i.twE 0) &&
    checkClock i unit 0 0 as

/-! ### the checker with its two questionable clauses as explicit switches

`checkG trunc row0` is `check_solution_validity` with `.int()` on the arrival time iff `trunc` and the static
assertion reading batch row 0's depot deadline iff `row0`; the code as it is corresponds to
`checkG Params.cvrptwCheckTruncates Params.cvrptwCheckRow0` (`check_eq_checkG`), the repaired checker to
`checkG false false`. -/

def checkClockG (trunc : Bool) (i : Inst) (unit : Int) : Int → Nat → List Nat → Bool
  | _, _, [] => true
  | t, cur, a :: as =>
    let arr := t + i.base.D cur a
    let t1 := max (if trunc then truncInt unit arr else arr) (i.twS a)
    Params.cvrptwCheckTwCmp.eval t1 (i.twE a) &&
      checkClockG trunc i unit (if a = 0 then 0 else t1 + i.dur a) a as

def checkG (trunc row0 : Bool) (i : Inst) (tol unit e0 : Int) (as : List Nat) : Bool :=
  Cvrp.check i.base tol as && checkStatic i (if row0 then e0 else i.twE 0) && checkClockG trunc i unit 0 0 as

/-- raw Solomon-format instance as `extract_from_solomon` receives it -/
structure Solomon where
  n        : Nat
  capacity : Int
  demand   : Nat → Int        -- raw demands
  twS      : Nat → Int
  twE      : Nat → Int
  service  : Nat → Int
  D        : Nat → Nat → Int

/-- `extract_from_solomon`: coordinates, RAW demands, service times and windows are copied; the vehicle
capacity of the reset state is NOT the instance's (`self.vehicle_capacity = instance["capacity"]` is never
read) but the generator's (`genCap`, 1.0 by default) -/
def ofSolomon (raw : Solomon) (genCap : Int) : Inst :=
  { base := { n := raw.n, cap := genCap, demand := raw.demand, D := raw.D }
    twS := raw.twS, twE := raw.twE, dur := raw.service }

end Rl4co.Cvrptw
