/-
The CVRP environment built ONLY from the per-row functions that `harness/rowtrans.py` regenerates from
`CVRPEnv.get_action_mask` / `CVRPEnv._step` (`Rl4co/Generated/CvrpRow.lean`), over the list
representation of a row's tensors.  No Mathlib (the driver runs it).
Bridging lemmas and the lifted C01/C02/C05 theorems: `Rl4co/Props/C01/CvrpGenerated.lean`.
-/
import Rl4co.Env.Cvrp
import Rl4co.Generated.CvrpRow

namespace Rl4co.Cvrp.Gen

/-- the row's `demand` tensor: entry `k` is the demand of node `k+1` -/
def demandL (i : Inst) : List Int := (List.range i.n).map (fun k => i.demand (k + 1))
/-- the row's `visited` tensor (depot first) -/
def visL (i : Inst) (s : State) : List Bool := (List.range (i.n + 1)).map s.vis

/-- state of a row as the tensors hold it -/
structure GState where
  cur  : Nat
  used : Int
  vis  : List Bool

/-- the row after `_reset`: at the depot, empty vehicle, nothing visited -/
def greset (i : Inst) : GState := ⟨0, 0, List.replicate (i.n + 1) false⟩

def gmask (i : Inst) (g : GState) (a : Nat) : Bool :=
  (GenRow.cvrpMaskRow (demandL i) g.used i.cap g.vis g.cur).getD a false

def gstep (i : Inst) (g : GState) (a : Nat) : GState :=
  let r := GenRow.cvrpStepRow (demandL i) g.used g.vis a
  ⟨r.1, r.2.1, r.2.2.1⟩

def gdone (_ : Inst) (g : GState) : Bool := decide (List.count true g.vis = g.vis.length)

/-- the CVRP environment as regenerated from the source -/
def GenEnv : Env Inst GState where
  reset := greset
  nAct i := i.n + 1
  mask := gmask
  step := gstep
  done := gdone

/-- abstraction: the tensors of a row for a model state -/
def absS (i : Inst) (s : State) : GState := ⟨s.cur, s.used, visL i s⟩

end Rl4co.Cvrp.Gen
