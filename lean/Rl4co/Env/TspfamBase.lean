/-
Shared list idioms of the equal-length family models (TSP, ATSP, PDP, SMTWTP), parametric in the tokens
that `harness/probes/tspfam.py` extracts from the source.  No Mathlib.
-/
import Rl4co.Core.Basic
import Rl4co.Core.Tour
import Rl4co.Core.Sort
import Rl4co.Core.Cmp

namespace Rl4co.Tspfam

/-- `torch.roll(xs, k)` along the step dimension: element `j` moves to `(j + k) mod len`; `k = -1` moves
the first element to the end. -/
def rollInt {α : Type} (k : Int) (xs : List α) : List α :=
  xs.rotateLeft ((-k) % (xs.length : Int)).toNat

/-- `(torch.arange(L).expand_as(actions) <cmp> actions.sort(1)[0]).all()` on one row of width `L` -/
def permTest (c : Cmp) (L : Nat) (acts : List Nat) : Bool :=
  (List.zipWith (fun a b => c.evalNat a b) (List.range L) (sortNat acts)).all id

/-- torch broadcasting of `xs <cmp> ys` over the last dimension followed by `.all()`:
sizes must be equal or one of them 1; otherwise the call raises (modelled as rejection). -/
def bcastCmp (c : Cmp) (xs ys : List Nat) : Bool :=
  if xs.length = ys.length then (List.zipWith (fun x y => c.evalNat x y) xs ys).all id
  else if ys.length = 1 then xs.all (fun x => c.evalNat x (ys.getD 0 0))
  else if xs.length = 1 then ys.all (fun y => c.evalNat (xs.getD 0 0) y)
  else false

end Rl4co.Tspfam
