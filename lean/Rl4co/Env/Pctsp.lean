/-
Model of `rl4co/envs/routing/pctsp/env.py:PCTSPEnv` and of its subclass
`rl4co/envs/routing/spctsp/env.py:SPCTSPEnv` (which only flips `_stochastic`) for ONE instance.
Mirrors `_reset`, `_step`, `get_action_mask`, `_get_reward`, `check_solution_validity` statement by
statement.  Quantities are `Int` ticks; node 0 is the depot; prizes and penalties are node-indexed
(`1..n`), `_reset` pads a 0 for the depot.  `req` is the tick value of the literal `1.0` the mask
compares the collected prize with.  No Mathlib.
-/
import Rl4co.Core.Basic
import Rl4co.Core.Tour
import Rl4co.Generated.Params
import Rl4co.Env.OpShared

namespace Rl4co.Pctsp
open Rl4co.Prize

structure Inst where
  n          : Nat                -- number of customers
  req        : Int                -- the literal `1.0` of `cur_total_prize < 1.0` (and `1` of the checker)
  D          : Nat → Nat → Int    -- distances between nodes (0 = depot)
  detPrize   : Nat → Int          -- `td["deterministic_prize"]` (= the expected prize shown to the policy)
  stoPrize   : Nat → Int          -- `td["stochastic_prize"]`
  stochastic : Bool               -- `self.stochastic` (False: PCTSPEnv, True: SPCTSPEnv)
  pen        : Nat → Int          -- `td["penalty"]`

/-- `real_prize = td["stochastic_prize"] if self.stochastic else td["deterministic_prize"]` (which key each
branch reads is extracted from the source) -/
def realPrize (i : Inst) : Nat → Int :=
  if i.stochastic then (if Params.pctspStoBranchReadsSto then i.stoPrize else i.detPrize)
  else (if Params.pctspDetBranchReadsDet then i.detPrize else i.stoPrize)

/-- the prize row `_step` accumulates into `cur_total_prize`: `td["real_prize"]` (extracted; the alternative
would be the expected prize shown to the policy, `td["expected_prize"] = td["deterministic_prize"]`) -/
def stepPrize (i : Inst) : Nat → Int := if Params.pctspStepGathersReal then realPrize i else i.detPrize

/-- the prize row the checker sums: `td["real_prize"]` (extracted) -/
def checkPrize (i : Inst) : Nat → Int := if Params.pctspCheckGathersReal then realPrize i else i.detPrize

structure State where
  cur    : Nat                  -- `current_node`
  tot    : Int                  -- `cur_total_prize`
  penTot : Int                  -- `cur_total_penalty` (observation only; never read by mask / reward)
  vis    : Nat → Bool           -- `visited` (n+1 entries)
  i      : Nat                  -- step counter `i`
  done   : Bool                 -- `done` written by the last `_step` (False after reset)

/-- `_reset` -/
def reset (i : Inst) : State :=
  { cur := 0, tot := 0, penTot := sumTo i.n (fun k => i.pen (k + 1)), vis := fun _ => false,
    i := 0, done := false }

/-- `td["visited"][..., 1:].int().sum(-1)` -/
def visitedCustomers (i : Inst) (s : State) : Nat := cnt i.n (fun k => s.vis (k + 1))

/-- the literal of `cur_total_prize < 1.0`, in ticks (`req` = tick value of 1.0) -/
def maskReq (i : Inst) : Int := i.req * Params.pctspMaskPrizeConst.1 / Params.pctspMaskPrizeConst.2

/-- `get_action_mask` (True = feasible): customers `~(visited | visited[0])`; the depot is masked
while `cur_total_prize < 1.0` and some customer is unvisited. -/
def mask (i : Inst) (s : State) (a : Nat) : Bool :=
  if a = 0 then
    !(Params.pctspMaskPrizeCmp.eval s.tot (maskReq i) &&
      Params.pctspMaskCountCmp.evalNat (visitedCustomers i s) i.n)
  else !(s.vis a || s.vis 0)

/-- `_step` -/
def step (i : Inst) (s : State) (a : Nat) : State :=
  { cur := a
    tot := s.tot + padded (stepPrize i) a
    penTot := s.penTot + padded i.pen a
    vis := upd s.vis a true
    i := s.i + 1
    done := Params.pctspDoneCmp.evalNat s.i 0 && (a == 0) }

def done (_ : Inst) (s : State) : Bool := s.done

def env : Env Inst State where
  reset := reset
  nAct i := i.n + 1
  mask := mask
  step := step
  done := done

/-- the single-column test `actions.size(-1) == 1` at the top of `_get_reward` -/
def rewardSpecial (as : List Nat) : Bool :=
  Params.pctspRewardSpecialCmp.evalNat as.length Params.pctspRewardSpecialWidth

/-- `td["penalty"][..., 1:].sum(-1)` over the depot-padded penalty row (`n+1` entries): first index and
number of trailing entries cut off are the extracted slice bounds -/
def totalPenalty (i : Inst) : Int :=
  sumTo (i.n + 1 - Params.pctspPenaltySlice.1 - Params.pctspPenaltySlice.2)
    (fun k => padded i.pen (k + Params.pctspPenaltySlice.1))

/-- `_get_reward`: `saved_penalty.sum − (length([depot] ++ locs[actions]) + penalty[1:].sum)`; a
batch whose action tensor has a single column returns 0. -/
def reward (i : Inst) (as : List Nat) : Int :=
  if rewardSpecial as then 0
  else gatherSum i.pen as - (rollLen i.D (0 :: as) + totalPenalty i)

/-- the assertion `(actions == 0).all()` inside the single-column special case of `_get_reward` -/
def rewardAssert (as : List Nat) : Bool := !(rewardSpecial as) || as.all (· == 0)

/-- the literal `1` of the checker's `p.sum(-1) >= 1 - 1e-5`, in ticks -/
def checkReq (i : Inst) : Int := i.req * Params.pctspCheckPrizeBase.1 / Params.pctspCheckPrizeBase.2

/-- `check_solution_validity` (True = no assertion raised, no gather out of range); `tol` is the tick
value of `1e-5`. -/
def check (i : Inst) (tol : Int) (as : List Nat) : Bool :=
  as.all (fun a => decide (a ≤ i.n)) &&
  adjOk (sortNat as) &&
  (Params.pctspCheckPrizeCmp.eval (gatherSum (checkPrize i) as) (checkReq i - tol) ||
    decide (as.length - as.count 0 = i.n))

end Rl4co.Pctsp
