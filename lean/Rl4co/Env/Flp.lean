/-
Model of `rl4co/envs/graph/flp/env.py:FLPEnv` for ONE instance (one batch row).
Mirrors `_reset`, `_step`, `_get_reward` statement by statement.  Distances are `Int` ticks.
`D c j` is `orig_distances[c][j]` (row = the chosen facility, column = the location served; the code
gathers *rows* of the matrix).  `quota` is the row's `td["to_choose"]`.  No Mathlib.

The code keeps `action_mask = ~chosen` in every state it produces (`ones`/`zeros` at reset), so the
model reads the mask off `chosen`.
-/
import Rl4co.Core.Basic
import Rl4co.Generated.Params

namespace Rl4co

/-- `min` over a list (the code's `.min(dim=1)` over the gathered rows); `0` for the empty list,
which the code never evaluates (it would raise). -/
def minList : List Int → Int
  | [] => 0
  | x :: xs => xs.foldl min x

/-- `Σ_{j<n} f j` (the code's `.sum(-1)`). -/
def sumRange (n : Nat) (f : Nat → Int) : Int := ((List.range n).map f).sum

namespace Flp

structure Inst where
  n     : Nat                 -- number of locations
  quota : Int                 -- `td["to_choose"]` of this row
  D     : Nat → Nat → Int     -- `orig_distances`
  d0    : Nat → Int           -- `td["distances"]` handed to reset (generator: constant √2·span)

/-- `get_distance_matrix(locs)[a][b]` for coordinates on an integer grid (`x`, `y` in grid units):
`(locs[a] - locs[b]).norm(p, dim=-1)` with the order `p` extracted from the source (2: Euclidean, the
integer square root of `dx² + dy²`, which is the exact distance on integral point sets; 1: `|dx| + |dy|`).
This is how the generator fills the instance field `orig_distances`. -/
def distOf (x y : Nat → Int) (a b : Nat) : Int :=
  let dx := (x a - x b).natAbs
  let dy := (y a - y b).natAbs
  if Params.flpDistNormP = 2 then ((Nat.sqrt (dx * dx + dy * dy) : Nat) : Int) else ((dx + dy : Nat) : Int)

/-- an instance given by grid coordinates, as `FLPGenerator._generate` builds it from `locs` -/
def geomInst (n : Nat) (quota : Int) (x y : Nat → Int) (d0 : Nat → Int) : Inst := ⟨n, quota, distOf x y, d0⟩

structure State where
  chosen : Nat → Bool         -- `chosen`
  i      : Int                -- `i`, the step counter
  dist   : Nat → Int          -- `distances`, the feature shown to the policy
  done   : Bool               -- `done`

/-- `_reset` -/
def reset (i : Inst) : State :=
  { chosen := fun _ => false, i := 0, dist := i.d0, done := false }

/-- indices of the chosen locations in increasing order: `chosen.nonzero(as_tuple=True)[1]` -/
def chosenIdx (n : Nat) (chosen : Nat → Bool) : List Nat := (List.range n).filter chosen

/-- `gather_by_index(orig_distances, idx, dim)`: `dim = 1` (the default) gathers the ROWS `D c ·` of the
chosen facilities `c`; `dim = 2` would gather columns `D · c`. -/
def gathered (gdim : Nat) (i : Inst) (c j : Nat) : Int := if gdim = 1 then i.D c j else i.D j c

/-- `gather_by_index(orig_distances, idx, gdim).view(B, -1, n).min(mdim).values` at position `j`:
`mdim = 1` reduces over the gathered facilities (one value per location `j`); another axis would
reduce over the locations (one value per chosen facility, the `j`-th). -/
def minOver (gdim mdim : Nat) (i : Inst) (chosen : Nat → Bool) (j : Nat) : Int :=
  if mdim = 1 then minList ((chosenIdx i.n chosen).map (fun c => gathered gdim i c j))
  else minList ((List.range i.n).map (fun l => gathered gdim i ((chosenIdx i.n chosen).getD j 0) l))

/-- the expression of `_step` (axes extracted from the source) -/
def curMinDist (i : Inst) (chosen : Nat → Bool) (j : Nat) : Int :=
  minOver Params.flpStepGatherDim Params.flpStepMinDim i chosen j

/-- the expression of `_get_reward` (axes extracted from the source) -/
def rewardMinDist (i : Inst) (chosen : Nat → Bool) (j : Nat) : Int :=
  minOver Params.flpRewardGatherDim Params.flpRewardMinDim i chosen j

/-- `action_mask = ~chosen` -/
def mask (_ : Inst) (s : State) (a : Nat) : Bool := !(s.chosen a)

/-- `_step` -/
def step (i : Inst) (s : State) (a : Nat) : State :=
  let chosen := upd s.chosen a true
  { chosen := chosen
    done := Params.flpDoneCmp.eval s.i (i.quota - Params.flpDoneOffset)
    dist := curMinDist i chosen
    i := s.i + 1 }

def done (_ : Inst) (s : State) : Bool := s.done

def env : Env Inst State where
  reset := reset
  nAct i := i.n
  mask := mask
  step := step
  done := done

/-- `_get_reward`: computed from `td["chosen"]` of the final state (not from the action tensor). -/
def reward (i : Inst) (s : State) : Int := - sumRange i.n (rewardMinDist i s.chosen)

end Flp
end Rl4co
