/-
Small executable helpers shared by the prize-collecting routing models (`Env/Op.lean`,
`Env/Pctsp.lean`): depot-padded rows, sums over the customers, the model of `actions.sort(1)[0]`
and of the "sorted neighbours" duplicate test.  No Mathlib.
-/
import Rl4co.Core.Basic

namespace Rl4co.Prize

/-- `Σ_{k<n} g k` (structural in `n`, so that sums over the customers `k+1 = 1..n` are easy to reason
about). -/
def sumTo : Nat → (Nat → Int) → Int
  | 0, _ => 0
  | n + 1, g => sumTo n g + g n

/-- `F.pad(x, (1, 0), value=0)` / `cat([zeros, x])`: a customer row (node-indexed `1..n`) with a 0
entry for the depot. -/
def padded (f : Nat → Int) (a : Nat) : Int := if a = 0 then 0 else f a

/-- `row_with_depot.gather(1, actions).sum(-1)` -/
def gatherSum (f : Nat → Int) (as : List Nat) : Int := (as.map (padded f)).sum

/-- `actions.sort(1)[0]` (values only, so stability / tie-breaking is irrelevant). -/
def sortNat (as : List Nat) : List Nat := as.mergeSort (fun a b => decide (a ≤ b))

/-- `((s[1:] == 0) | (s[1:] > s[:-1])).all()` on the sorted actions: every entry is the depot or
strictly larger than its predecessor. -/
def adjOk : List Nat → Bool
  | [] => true
  | [_] => true
  | x :: y :: r => (y == 0 || decide (y > x)) && adjOk (y :: r)

/-- number of customers `1..n` that occur in `as` -/
def visitedCount (n : Nat) (as : List Nat) : Nat := cnt n (fun k => decide (k + 1 ∈ as))

end Rl4co.Prize
