/-
Model of `rl4co/envs/routing/svrp/env.py:SVRPEnv` (skill VRP) for ONE instance (one batch row).
Mirrors `_reset`, `_step`, `get_action_mask`, `_get_reward` (cost row built by the Python loop over
`nonzero(actions == 0)`, then `roll`/`get_distance`/`sum`) and `check_solution_validity`.
`techs k` = `td["techs"][k]` (k = 0..T-1), `skills j` = `td["skills"][j-1]` (node-indexed, j = 1..n),
`costs k` = `env.tech_costs[k]`.  The code indexes `techs[current_tech]` / `tech_costs[tech]` and raises
when the index reaches `T`; the model's functions are total and `techOverflow` reports that event.
No Mathlib.
-/
import Rl4co.Core.Basic
import Rl4co.Core.Tour
import Rl4co.Core.Sort
import Rl4co.Generated.Params

namespace Rl4co.Svrp

structure Inst where
  n      : Nat
  T      : Nat                -- number of technicians (`techs.size(-2)`, `len(tech_costs)`)
  techs  : Nat → Int          -- skill level of technician k
  skills : Nat → Int          -- required skill of node j (1..n)
  costs  : Nat → Int          -- travel cost factor of technician k
  D      : Nat → Nat → Int

structure State where
  cur  : Nat                  -- `current_node`
  tech : Nat                  -- `current_tech`
  vis  : Nat → Bool           -- `visited` (n+1 entries)

def reset (_ : Inst) : State := { cur := 0, tech := 0, vis := fun _ => false }

/-- negation of `mask_loc = visited[1:] | ~(skills <= techs[current_tech])` -/
def locOk (i : Inst) (s : State) (j : Nat) : Bool :=
  !(s.vis j) && Params.svrpMaskSkillCmp.eval (i.skills j) (i.techs s.tech)

/-- `(mask_loc == 0).int().sum(-2) > 0` -/
def anyLoc (i : Inst) (s : State) : Bool := (List.range i.n).any (fun k => locOk i s (k + 1))

/-- `get_action_mask`: depot masked iff `(current_node == 0 | current_tech == T - 1) & any loc free` -/
def mask (i : Inst) (s : State) (a : Nat) : Bool :=
  -- the comparison `current_tech == techs.size(-2) - 1` (operator and the constant 1) is extracted from the source
  if a = 0 then
    !((s.cur == 0 || Params.svrpMaskLastCmp.evalNat s.tech (i.T - Params.svrpMaskLastOffset)) && anyLoc i s)
  else locOk i s a

/-- `_step`: `current_tech += (action == 0)` (also on padding steps), mark visited -/
def step (_ : Inst) (s : State) (a : Nat) : State :=
  { cur := a
    tech := s.tech + (if Params.svrpStepDepotCmp.evalNat a 0 then 1 else 0)   -- `+= (current_node == 0)`
    vis := upd s.vis a true }

/-- `done = visited.sum(-2) == visited.size(-2)` -/
def done (i : Inst) (s : State) : Bool :=
  Params.svrpDoneCmp.evalNat (cnt (i.n + 1) s.vis) (i.n + 1)

def env : Env Inst State where
  reset := reset
  nAct i := i.n + 1
  mask := mask
  step := step
  done := done

/-- the mask computation of this state indexes `techs` out of range (the real code raises) -/
def techOverflow (i : Inst) (s : State) : Bool := decide (i.T ≤ s.tech)

/-- the `costs` row of `_get_reward`: entry `p` (position `p` of `[depot] ++ actions`) is
`tech_costs[number of depot visits among the first p actions]` — what the loop over the zero
positions writes (`costs[start:end] = tech_costs[tech]; tech += 1`, final `costs[start:] = …`). -/
def costRow (i : Inst) : Nat → List Nat → List Int
  | tech, [] => [i.costs tech]
  | tech, a :: as => i.costs tech :: costRow i (if a = 0 then tech + 1 else tech) as

/-- `_get_reward`: `-(get_distance(locs_ordered, roll(locs_ordered, -1)) * costs).sum(-1)` -/
def weightedLen (i : Inst) (as : List Nat) : Int :=
  (List.zipWith (· * ·) (List.zipWith (fun a b => i.D a b) (0 :: as) (roll1 (0 :: as))) (costRow i 0 as)).sum

def reward (i : Inst) (as : List Nat) : Int := - weightedLen i as

/-! ### the batched cost table of `_get_reward`

`costs = zeros(B, L+1)`; `indices = nonzero(actions == 0)` (row-major); the loop
```
start = tech = 0; batch = 0
for each in indices:
    if each[0] > batch:
        costs[batch, start:] = tech_costs[tech]      # (*) flush the previous row
        start = tech = 0; batch = each[0]
    end = each[-1] + 1
    costs[batch, start:end] = tech_costs[tech]; tech += 1; start = end
costs[batch, start:] = tech_costs[tech]              # (**) flush the last row
```
is modelled on a table `Nat → Nat → Int` (row, position).  Whether the two flush statements (*) and (**) are
present is extracted from the source (`Params.svrpRewardFlushOnRowChange`, `Params.svrpRewardFlushAtEnd`). -/

/-- `costs[b, lo:hi] = v` -/
def fillRow (c : Nat → Nat → Int) (b lo hi : Nat) (v : Int) : Nat → Nat → Int :=
  fun r p => if r = b ∧ lo ≤ p ∧ p < hi then v else c r p

structure LoopState where
  costs : Nat → Nat → Int
  start : Nat
  tech  : Nat
  batch : Nat

/-- the state the `if each[0] > batch:` block produces -/
def rowChange (i : Inst) (len : Nat) (st : LoopState) (b : Nat) : LoopState :=
  { costs := if Params.svrpRewardFlushOnRowChange then fillRow st.costs st.batch st.start len (i.costs st.tech)
             else st.costs
    start := 0, tech := 0, batch := b }

/-- loop body for `each = (b, c)`; `len` = number of columns of `costs` -/
def loopBody (i : Inst) (len : Nat) (st : LoopState) (bc : Nat × Nat) : LoopState :=
  let st1 := if bc.1 > st.batch then rowChange i len st bc.1 else st
  { costs := fillRow st1.costs st1.batch st1.start (bc.2 + 1) (i.costs st1.tech)
    start := bc.2 + 1, tech := st1.tech + 1, batch := st1.batch }

/-- columns of the depot visits of one row (`c` = column of the first listed action) -/
def zeroCols : Nat → List Nat → List Nat
  | _, [] => []
  | c, a :: as => if a = 0 then c :: zeroCols (c + 1) as else zeroCols (c + 1) as

/-- `torch.nonzero(actions == 0)` for the rows `b, b+1, …` -/
def zeroIndices : Nat → List (List Nat) → List (Nat × Nat)
  | _, [] => []
  | b, r :: rs => (zeroCols 0 r).map (fun c => (b, c)) ++ zeroIndices (b + 1) rs

def loopInit : LoopState := { costs := fun _ _ => 0, start := 0, tech := 0, batch := 0 }

/-- the cost table `_get_reward` builds for a batch of action rows -/
def costsBatch (i : Inst) (len : Nat) (rows : List (List Nat)) : Nat → Nat → Int :=
  let st := (zeroIndices 0 rows).foldl (loopBody i len) loopInit
  if Params.svrpRewardFlushAtEnd then fillRow st.costs st.batch st.start len (i.costs st.tech) else st.costs

/-- number of depot visits in an action list (`tech_costs` is indexed up to this number) -/
def zeros (as : List Nat) : Nat := as.count 0

/-- skill loop of the checker: `seg` collects the customers since the last depot visit; a segment is
tested against `techs[tech]` only when a depot visit closes it (the trailing segment never is);
`techs[batch, tech]` with `tech ≥ T` raises an IndexError (counted as a rejection). -/
def checkSkills (i : Inst) : Nat → List Nat → List Nat → Bool
  | _, _, [] => true
  | tech, seg, a :: as =>
    if a = 0 then
      decide (tech < i.T) &&
      seg.all (fun j => Params.svrpCheckSkillCmp.eval (i.skills j) (i.techs tech)) &&
      checkSkills i (tech + 1) [] as
    else checkSkills i tech (seg ++ [a]) as

/-- `check_solution_validity` (True = no exception raised). -/
def check (i : Inst) (as : List Nat) : Bool :=
  sortedTest i.n as && checkSkills i 0 [] as

end Rl4co.Svrp
