/-
Model of `rl4co/envs/routing/mtsp/env.py:MTSPEnv` for ONE instance (one batch row).
Mirrors `_reset`, `_step` and `_get_reward` statement by statement.  Node 0 is the depot, nodes
`1..n` are the customers (`num_loc = n + 1`), `m = num_agents`.  Lengths are `Int` ticks.
The geometry enters as a distance matrix `D` (`get_distance` is symmetric by construction, so the
orientation of its two arguments is immaterial; the model writes `D prev new`).  No Mathlib.
-/
import Rl4co.Core.Basic
import Rl4co.Core.Tour
import Rl4co.Generated.Params

namespace Rl4co.Mtsp

structure Inst where
  n : Nat                  -- number of customers (`num_loc - 1`)
  m : Nat                  -- `num_agents`
  D : Nat → Nat → Int      -- distances between nodes (0 = depot)

structure State where
  cur    : Nat             -- `current_node`
  agent  : Nat             -- `agent_idx`
  curLen : Int             -- `current_length`
  maxLen : Int             -- `max_subtour_length`  (`reward = -max_subtour_length`)
  avail  : Nat → Bool      -- `action_mask` / `available`
  i      : Nat             -- step counter `i`
  first  : Nat             -- `first_node` (written, never read by mask / done / reward)
  done   : Bool            -- `done`

/-- `_reset`: every customer available, depot closed, all counters zero (`done = False` comes from
the base class). -/
def reset (_ : Inst) : State :=
  { cur := 0, agent := 0, curLen := 0, maxLen := 0, avail := fun j => decide (j ≠ 0),
    i := 0, first := 0, done := false }

/-- `torch.count_nonzero(available[..., 1:], dim=-1) == 0` negated: some customer is available. -/
def anyCust (n : Nat) (av : Nat → Bool) : Bool := (List.range n).any (fun k => av (k + 1))

/-- `td["agent_idx"] < td["num_agents"] - 1` (operator extracted from the source): an agent is left -/
def agentLeft (i : Inst) (s : State) : Bool := Params.mtspAgentCmp.evalNat (s.agent + 1) i.m

/-- `(current_node == 0).long()` added to `agent_idx` (operator extracted from the source) -/
def agentInc (a : Nat) : Nat := if Params.mtspAgentIncCmp.evalNat a 0 then 1 else 0
/-- `current_node != 0` of the depot-availability test (operator extracted from the source) -/
def depotNe (a : Nat) : Bool := Params.mtspDepotNeCmp.evalNat a 0
/-- `torch.count_nonzero(available[..., 1:], dim=-1) == 0` (operator extracted from the source) -/
def doneTest (n : Nat) (av : Nat → Bool) : Bool := Params.mtspDoneCmp.evalNat (cnt n (fun k => av (k + 1))) 0
/-- `cur_agent_idx == td["agent_idx"]` of the length reset (operator extracted from the source) -/
def sameAgent (x y : Nat) : Bool := Params.mtspResetCmp.evalNat x y

/-- `_step` with `isFirst` = the (batch-global) flag `batch_to_scalar(td["i"]) == 0`. -/
def stepWith (isFirst : Bool) (i : Inst) (s : State) (a : Nat) : State :=
  -- cur_agent_idx = agent_idx + (current_node == 0)
  let agent' := s.agent + agentInc a
  -- available = action_mask.scatter(-1, current_node, 0)
  let av1 := upd s.avail a false
  -- available[..., 0] = (current_node != 0) & (agent_idx < num_agents - 1)
  let depotOpen := depotNe a && agentLeft i s
  let av2 := upd av1 0 depotOpen
  -- done = count_nonzero(available[..., 1:]) == 0
  let done := doneTest i.n av2
  -- available[..., 0] = done | available[..., 0]
  let av3 := upd av2 0 (done || depotOpen)
  -- current_length = current_length + dist(cur, prev)
  let len1 := s.curLen + i.D s.cur a
  -- closed_length = where(done, current_length + dist(cur, depot), current_length)
  let closed := if done then len1 + i.D a 0 else len1
  -- max_subtour_length = where(closed_length > max_subtour_length, closed_length, max_subtour_length)
  let mx := if closed > s.maxLen then closed else s.maxLen
  -- current_length *= (cur_agent_idx == agent_idx)     (the closing leg is NOT stored)
  let len3 := if sameAgent agent' s.agent then len1 else 0
  { cur := a, agent := agent', curLen := len3, maxLen := mx, avail := av3, i := s.i + 1,
    first := if isFirst then a else s.first, done := done }

/-- `_step` of a row stepped on its own (`batch_to_scalar(td["i"])` is the row's own counter). -/
def step (i : Inst) (s : State) (a : Nat) : State := stepWith (s.i == 0) i s a

def mask (_ : Inst) (s : State) (a : Nat) : Bool := s.avail a

def env : Env Inst State where
  reset := reset
  nAct i := i.n + 1
  mask := mask
  step := step
  done _ s := s.done

/-- `_get_reward`, `cost_type = "minmax"`: `td["reward"] = -max_subtour_length` of the final state. -/
def rewardMinmax (s : State) : Int := - s.maxLen

/-- `_get_reward`, `cost_type = "sum"`: the depot is prepended to the actions, then the usual
gather / roll / sum (`get_tour_length`) — defined for action lists of any length. -/
def rewardSum (i : Inst) (as : List Nat) : Int := - rollLen i.D (0 :: as)

/-- The batched `_step` as written: the first-step flag is read from row 0 only. -/
def batchStep (rows : List (Inst × State)) (acts : List Nat) : List (Inst × State) :=
  let isFirst := match rows with
    | [] => true
    | r :: _ => r.2.i == 0
  List.zipWith (fun (r : Inst × State) a => (r.1, stepWith isFirst r.1 r.2 a)) rows acts

end Rl4co.Mtsp
