/-
Model of `rl4co/envs/routing/atsp/env.py:ATSPEnv` for ONE instance (one batch row), plus the batched
`_step` as written (first-step test `batch_to_scalar(td["i"]) == 0`, which reads ROW 0 of the batch).
The instance is the cost matrix itself (`Int` ticks, not necessarily symmetric).  No Mathlib.
-/
import Rl4co.Core.Basic
import Rl4co.Core.Tour
import Rl4co.Core.Sort
import Rl4co.Generated.Params
import Rl4co.Env.TspfamBase

namespace Rl4co.Atsp

structure Inst where
  n : Nat                    -- `generator.num_loc` (= `cost_matrix.shape[-1]`)
  M : Nat → Nat → Int        -- `cost_matrix[src, tgt]`

structure State where
  first : Nat
  cur   : Nat
  i     : Nat
  avail : Nat → Bool         -- `action_mask`
  done  : Bool

/-- `_reset` -/
def reset (_ : Inst) : State :=
  { first := 0, cur := 0, i := 0, avail := fun _ => true, done := false }

def mask (_ : Inst) (s : State) (a : Nat) : Bool := s.avail a

/-- `_step` of one row given the first-step flag; `done = count_nonzero(available) <= 0`. -/
def stepWith (flag : Bool) (i : Inst) (s : State) (a : Nat) : State :=
  let avail := upd s.avail a false
  { first := if flag then a else s.first
    cur := a
    i := s.i + 1
    avail := avail
    done := Params.atspDoneCmp.evalNat (cnt i.n avail) 0 }

/-- `batch_to_scalar(td["i"]) == 0`: `td["i"][0].item() == 0` — the counter of the FIRST row. -/
def firstFlag : List State → Bool
  | [] => false
  | s :: _ => Params.atspFirstStepCmp.evalNat s.i 0

def step (i : Inst) (s : State) (a : Nat) : State := stepWith (firstFlag [s]) i s a

/-- the batched `_step` as written -/
def batchStep (rows : List (Inst × State)) (acts : List Nat) : List (Inst × State) :=
  let flag := firstFlag (rows.map (·.2))
  List.zipWith (fun r a => (r.1, stepWith flag r.1 r.2 a)) rows acts

def env : Env Inst State where
  reset := reset
  nAct i := i.n
  mask := mask
  step := step
  done _ s := s.done

/-- `nodes_tgt = torch.roll(actions, k, dims=1)` with the extracted shift; without `dims=1` the roll would
run over the flattened batch (not a per-row operation; modelled as no roll). -/
def tourNext (as : List Nat) : List Nat :=
  if Params.atspRollAlongSteps then Tspfam.rollInt Params.atspRollShift as else as

/-- `_get_reward`: `-cost_matrix[b, actions, roll(actions, -1)].sum(-1)` -/
def reward (i : Inst) (as : List Nat) : Int :=
  if Params.atspGatherSrcFirst then
    - (List.zipWith (fun src tgt => i.M src tgt) as (tourNext as)).sum       -- `M[b, nodes_src, nodes_tgt]`
  else
    - (List.zipWith (fun src tgt => i.M tgt src) as (tourNext as)).sum       -- (indices swapped)

/-- `check_solution_validity` (same idiom as TSP) -/
def checkWith (fromInst : Bool) (i : Inst) (as : List Nat) : Bool :=
  if fromInst then
    -- repaired clause: `arange(num_loc)` from the instance; a width mismatch makes the comparison raise
    decide (as.length = i.n) && Tspfam.permTest Params.atspCheckCmp i.n as
  else Tspfam.permTest Params.atspCheckCmp as.length as

/-- the checker as written: the width source is an extracted token (`false` = width of the action tensor) -/
def check (i : Inst) (as : List Nat) : Bool := checkWith Params.atspCheckWidthFromInst i as

end Rl4co.Atsp
