/-
Model of `rl4co/envs/scheduling/fjsp/env.py:FJSPEnv` and of its subclass
`rl4co/envs/scheduling/jssp/env.py:JSSPEnv` for ONE instance (one batch row), plus (at the end) the
model of the *batched* `_step` with its batch-global constructs (`if no_op.any()`, the release part of
`_transit_to_next_time` that is applied to every row, `while step_complete.any()`).

Mirrors `_reset`, `_get_job_machine_availability`, `get_action_mask`, `_translate_action`, `_step`,
`_check_step_complete`, `_make_step`, `_transit_to_next_time`, `_get_reward` statement by statement.
Times are `Int` (the harness uses integral processing times, so float32 arithmetic is exact).
Operations are indexed `0..N-1` (`N = n_ops_max`, padded), jobs `0..J-1`, machines `0..M-1`;
`proc m o` is `td["proc_times"][m][o]` (0 = machine `m` not eligible for operation `o`).
The comparison operators of the mask, the time advance and the job release are taken from
`Generated/Params.lean` (extracted from the source on every run, `harness/probes/jobshop.py`).
The feature tensors (`lbs`, `is_ready`, `ops_sequence_order`, `num_eligible`, adjacency …) do not
influence mask / done / time / schedule / reward and are not modelled.  No Mathlib.
-/
import Rl4co.Core.Basic
import Rl4co.Generated.Params

namespace Rl4co.Fjsp

/-- `∃ j < n, p j` as a Bool (`tensor.any(dim)`) -/
def anyUpTo : Nat → (Nat → Bool) → Bool
  | 0, _ => false
  | n + 1, p => anyUpTo n p || p n

/-- `∀ j < n, p j` as a Bool (`tensor.all(dim)`) -/
def allUpTo : Nat → (Nat → Bool) → Bool
  | 0, _ => true
  | n + 1, p => allUpTo n p && p n

theorem anyUpTo_iff {n : Nat} {p : Nat → Bool} : anyUpTo n p = true ↔ ∃ j, j < n ∧ p j = true := by
  induction n with
  | zero => simp [anyUpTo]
  | succ n ih =>
    simp only [anyUpTo, Bool.or_eq_true, ih]
    constructor
    · rintro (⟨j, hj, hp⟩ | hp)
      · exact ⟨j, by omega, hp⟩
      · exact ⟨n, by omega, hp⟩
    · rintro ⟨j, hj, hp⟩
      by_cases h : j = n
      · subst h; exact Or.inr hp
      · exact Or.inl ⟨j, by omega, hp⟩

theorem allUpTo_iff {n : Nat} {p : Nat → Bool} : allUpTo n p = true ↔ ∀ j, j < n → p j = true := by
  induction n with
  | zero => simp [allUpTo]
  | succ n ih =>
    simp only [allUpTo, Bool.and_eq_true, ih]
    constructor
    · rintro ⟨h1, h2⟩ j hj
      by_cases h : j = n
      · subst h; exact h2
      · exact h1 j (by omega)
    · intro h
      exact ⟨fun j hj => h j (by omega), h n (by omega)⟩

theorem anyUpTo_eq_false {n : Nat} {p : Nat → Bool} :
    anyUpTo n p = false ↔ ∀ j, j < n → p j = false := by
  constructor
  · intro h j hj
    cases hp : p j with
    | false => rfl
    | true => have := anyUpTo_iff.mpr ⟨j, hj, hp⟩; simp [h] at this
  · intro h
    cases ha : anyUpTo n p with
    | false => rfl
    | true =>
      obtain ⟨j, hj, hp⟩ := anyUpTo_iff.mp ha
      simp [h j hj] at hp

/-- Instance data of one row + the two environment-level switches. -/
structure Inst where
  J : Nat                      -- `num_jobs`     = `start_op_per_job.size(1)`
  M : Nat                      -- `num_mas`      = `proc_times.size(1)`
  N : Nat                      -- `n_ops_max`    = `proc_times.size(2)`
  startOp : Nat → Nat          -- `start_op_per_job`
  endOp   : Nat → Nat          -- `end_op_per_job`
  proc    : Nat → Nat → Int    -- `proc_times[m][o]`
  pad     : Nat → Bool         -- `pad_mask[o]`
  maskNoOps : Bool             -- `FJSPEnv(mask_no_ops=…)`
  jssp      : Bool             -- `JSSPEnv` (action = job) instead of `FJSPEnv` (action = job × machine)

structure State where
  time    : Int                -- `time`
  nextOp  : Nat → Nat          -- `next_op`
  inProc  : Nat → Bool         -- `job_in_process`
  jobDone : Nat → Bool         -- `job_done`
  busy    : Nat → Int          -- `busy_until`
  proc    : Nat → Nat → Int    -- `proc_times` (column of a scheduled op is zeroed)
  start   : Nat → Int          -- `start_times`
  finish  : Nat → Int          -- `finish_times` (`INIT_FINISH` until scheduled)
  assign  : Nat → Nat → Bool   -- `ma_assignment[m][o]`
  sched   : Nat → Bool         -- `op_scheduled`
  done    : Bool               -- `done`
  err     : Bool               -- an `assert` of the code would have fired (`available_time` infinite / busy machine)

/-- `INIT_FINISH` (extracted from `fjsp/__init__.py`) -/
def initFinish : Int := Params.fjspInitFinish

/-- `action.eq(NO_OP_ID)` after `td["action"].subtract_(1)`: the action means "wait" -/
def isNoOp (a : Nat) : Bool := ((a : Int) - Params.fjspActionShift == Params.fjspNoOpId)

/-- the shifted action `action - 1` as an index into the (job × machine) / job range -/
def shifted (a : Nat) : Nat := ((a : Int) - Params.fjspActionShift).toNat

/-- `_reset` -/
def reset (i : Inst) : State :=
  { time := 0, nextOp := i.startOp, inProc := fun _ => false, jobDone := fun _ => false,
    busy := fun _ => 0, proc := i.proc, start := fun _ => 0, finish := fun _ => initFinish,
    assign := fun _ _ => false, sched := fun _ => false, done := false, err := false }

/-- `~_get_job_machine_availability[j][m]`: job `j` may be put on machine `m` now. -/
def avail (_ : Inst) (s : State) (j m : Nat) : Bool :=
  !s.jobDone j && !s.inProc j && !Params.fjspBusyCmp.eval (s.busy m) s.time &&
  !Params.fjspEligCmp.eval (s.proc m (s.nextOp j)) 0

/-- `no_op_mask` of `get_action_mask` -/
def noOpMask (i : Inst) (s : State) : Bool :=
  if i.maskNoOps then s.done
  else (anyUpTo i.J s.inProc && !s.done) ||
       ((if i.jssp then Params.jsspNoOpKeepsDone else Params.fjspNoOpKeepsDone) && s.done)   -- `… | td["done"]`

/-- number of actions: `1 + J·M` (FJSP) or `1 + J` (JSSP) -/
def nAct (i : Inst) : Nat := if i.jssp then 1 + i.J else 1 + i.J * i.M

/-- `get_action_mask` (True = feasible); FJSP flattens `(j m)`, JSSP reduces over machines. -/
def mask (i : Inst) (s : State) (a : Nat) : Bool :=
  if a = 0 then noOpMask i s
  else if i.jssp then anyUpTo i.M (fun m => avail i s (a - 1) m)
  else avail i s ((a - 1) / i.M) ((a - 1) % i.M)

/-- `reduce(action_mask, "bs ... -> bs", "any")` -/
def anyMask (i : Inst) (s : State) : Bool := anyUpTo (nAct i) (mask i s)

/-- `_check_step_complete` -/
def stepComplete (i : Inst) (s : State) : Bool := !anyMask i s && !s.done

/-- first machine `m < M` with `p m > 0` (JSSP `_translate_action`: `ops_ma_adj[:, op].nonzero()`) -/
def findMa : Nat → (Nat → Int) → Nat
  | 0, _ => 0
  | m + 1, p => if anyUpTo m (fun k => decide (p k > 0)) then findMa m p else m

/-- `_translate_action` on the shifted action `a' = action - 1`: (job, op, machine) -/
def translate (i : Inst) (s : State) (a' : Nat) : Nat × Nat × Nat :=
  if i.jssp then
    let j := a'
    let o := s.nextOp j
    (j, o, findMa i.M (fun m => s.proc m o))
  else
    let j := if Params.fjspJobIsDiv then a' / i.M else a' % i.M          -- `action // num_mas`
    (j, s.nextOp j, if Params.fjspMachineIsMod then a' % i.M else a' / i.M)  -- `action % num_mas`

/-- `_make_step` for the translated action (job `j`, its next operation `o`, machine `m`) -/
def makeStepAt (s : State) (j o m : Nat) : State :=
  let p := s.proc m o
  { s with
    inProc := upd s.inProc j true
    sched := upd s.sched o true
    err := s.err || decide (s.busy m > s.time)      -- `assert busy_until[m] <= time`
    start := upd s.start o s.time
    finish := upd s.finish o (s.time + p)
    assign := fun m' o' => if m' = m ∧ o' = o then true else s.assign m' o'
    busy := upd s.busy m (s.time + p)
    proc := fun m' o' => if o' = o then 0 else s.proc m' o' }

/-- `_make_step` -/
def makeStep (i : Inst) (s : State) (a' : Nat) : State :=
  let t := translate i s a'
  makeStepAt s t.1 t.2.1 t.2.2

/-- `where(busy > time, busy, inf).min(1)`; `none` = `inf` -/
def nextTime : Nat → (Nat → Int) → Int → Option Int
  | 0, _, _ => none
  | m + 1, busy, t =>
    let r := nextTime m busy t
    if Params.fjspNextTimeCmp.eval (busy m) t then
      some (match r with
        | none => busy m
        | some x =>
          if Params.fjspNextEventIsMin then (if x ≤ busy m then x else busy m)   -- `.min(1)`
          else (if x ≤ busy m then busy m else x))
    else r

/-- first half of `_transit_to_next_time` for a *selected* row: `time := available_time`
(the code asserts that it is finite). -/
def advance (i : Inst) (s : State) : State :=
  match nextTime i.M s.busy s.time with
  | some t => { s with time := t }
  | none => { s with err := true }

/-- second half of `_transit_to_next_time`, applied by the code to EVERY row of the batch:
release jobs whose current operation has finished, advance `next_op`, recompute `job_done`, `done`. -/
def release (i : Inst) (s : State) : State :=
  let opFin : Nat → Bool := fun j =>
    (if Params.fjspReleaseGuardsInProcess then s.inProc j else true) &&       -- `td["job_in_process"] &`
    Params.fjspReleaseCmp.eval (s.finish (s.nextOp j)) s.time
  let jobFin : Nat → Bool := fun j => opFin j && Params.fjspJobFinCmp.evalNat (s.nextOp j) (i.endOp j)
  let jobDone' : Nat → Bool := fun j => s.jobDone j || jobFin j
  { s with
    nextOp := fun j => if opFin j && !jobFin j then s.nextOp j + 1 else s.nextOp j
    inProc := fun j => if opFin j then false else s.inProc j
    jobDone := jobDone'
    done := allUpTo i.J jobDone' }

/-- `_transit_to_next_time` as seen by a selected row -/
def transit (i : Inst) (s : State) : State := release i (advance i s)

/-- `while step_complete: transit` for one row, with fuel (see `Props/C02/Fjsp.lean` for the proof
that `fuel i` iterations always suffice on well-formed instances). -/
def autoTransit (i : Inst) : Nat → State → State
  | 0, s => s
  | f + 1, s => if stepComplete i s then autoTransit i f (transit i s) else s

/-- every iteration makes at least one busy machine idle, so `M` iterations suffice -/
def fuel (i : Inst) : Nat := i.M + 1

/-- `_step` as seen by a row that is stepped alone (batch size 1). -/
def step (i : Inst) (s : State) (a : Nat) : State :=
  if s.done then s                                       -- neither `no_op` nor `req_op`
  else if isNoOp a then autoTransit i (fuel i) (transit i s)    -- wait
  else autoTransit i (fuel i) (makeStep i s (shifted a))        -- scheduling action

def env : Env Inst State where
  reset := reset
  nAct := nAct
  mask := mask
  step := step
  done := fun _ s => s.done

/-- `max` of `f` over `o < n` with `keep o`; `none` = `-inf` -/
def maxOver : Nat → (Nat → Bool) → (Nat → Int) → Option Int
  | 0, _, _ => none
  | n + 1, keep, f =>
    let r := maxOver n keep f
    if keep n then
      some (match r with
        | none => f n
        | some x => if f n ≤ x then x else f n)
    else r

/-- `min` counterpart of `maxOver` (only reachable if the extracted reduction of `_get_reward` is not `max`) -/
def minOver : Nat → (Nat → Bool) → (Nat → Int) → Option Int
  | 0, _, _ => none
  | n + 1, keep, f =>
    let r := minOver n keep f
    if keep n then
      some (match r with
        | none => f n
        | some x => if x ≤ f n then x else f n)
    else r

/-- `_get_reward`: `-finish_times.masked_fill(pad_mask, -inf).max(1)` (0 stands for the `+inf` the
code would return on an instance without any real operation); the reduction and the use of
`pad_mask` are extracted from the source. -/
def reward (i : Inst) (s : State) : Int :=
  let keep : Nat → Bool := fun o => !(Params.fjspRewardMasksPadding && i.pad o)
  match (if Params.fjspRewardIsMax then maxOver i.N keep s.finish else minOver i.N keep s.finish) with
  | some x => -x
  | none => 0

/-! ### `op_is_ready` (fjsp/utils.py), recomputed by `_get_features` at reset and after every step -/

/-- row `o` of `ops_adj[..., 0] @ finish_times`: the completion time of the job predecessor, 0 for the first
operation of a job and for padded columns (the predecessor matrix is masked by `ops_sequence_order > 0`) -/
def predFinish (i : Inst) (s : State) (o : Nat) : Int :=
  if anyUpTo i.J (fun j => decide (i.startOp j < o) && decide (o ≤ i.endOp j)) then s.finish (o - 1) else 0

/-- `is_ready[o] = (pred_finish <= time) & ~ma_assignment[:, o].sum().bool()` -/
def isReady (i : Inst) (s : State) (o : Nat) : Bool :=
  decide (predFinish i s o ≤ s.time) && !anyUpTo i.M (fun m => s.assign m o)

/-! ### The batched `_step` -/

/-- one row of a batch: its instance data and its state -/
abbrev Row := Inst × State

/-- `_transit_to_next_time(sel, td)` on a batch: time advances in the selected rows only, the release
part runs on every row. -/
def transitBatch (sel : Row → Bool) (rows : List Row) : List Row :=
  rows.map (fun r => (r.1, release r.1 (if sel r then advance r.1 r.2 else r.2)))

/-- `while step_complete.any(): …` with fuel -/
def autoTransitBatch : Nat → List Row → List Row
  | 0, rows => rows
  | f + 1, rows =>
    if rows.any (fun r => stepComplete r.1 r.2) then
      autoTransitBatch f (transitBatch (fun r => stepComplete r.1 r.2) rows)
    else rows

/-- `no_op = action.eq(NO_OP_ID) & ~dones` for a (row, action) pair -/
def noOpSel (x : Row × Nat) : Bool := isNoOp x.2 && !x.1.2.done
/-- `req_op = ~no_op & ~dones` -/
def reqSel (x : Row × Nat) : Bool := !isNoOp x.2 && !x.1.2.done

/-- batched `_step` on (row, action) pairs. -/
def stepBatch (fuel : Nat) (ra : List (Row × Nat)) : List Row :=
  -- `no_op`, `req_op` are computed once, up front, from the incoming `done` column
  -- `if no_op.any(): td, dones = self._transit_to_next_time(no_op, td)`
  let ra1 : List (Row × Nat × Bool) :=
    if ra.any noOpSel then
      ra.map (fun x => ((x.1.1, release x.1.1 (if noOpSel x then advance x.1.1 x.1.2 else x.1.2)), x.2, reqSel x))
    else ra.map (fun x => (x.1, x.2, reqSel x))
  -- `td[req_op] = self._make_step(td.masked_select(req_op))`
  let rows2 : List Row := ra1.map (fun x => if x.2.2 then (x.1.1, makeStep x.1.1 x.1.2 (shifted x.2.1)) else x.1)
  -- `while step_complete.any(): …`
  autoTransitBatch fuel rows2

end Rl4co.Fjsp
