/-
Model of `rl4co/envs/scheduling/ffsp/env.py:FFSPEnv` (+ `IndexTables`) for ONE batch row.
Mirrors `_reset`, `_step`, `_move_to_next_machine`, `_update_step_state` statement by statement.

* times / durations / wait counters are natural numbers (the code's `long` tensors; the clamp
  `x -= 1; x[x < 0] = 0` is truncated subtraction); the schedule holds `Int` start times with the
  code's sentinel `-999999` for "not scheduled";
* machines are numbered globally `0 .. M*S-1`, stage `k` owns `k*M .. k*M+M-1`;
* jobs `0 .. J-1`, the dummy job `J` is the *wait* action (its durations are 0);
* `perm` is the row of `IndexTables.machine_table` this batch row uses (selected by
  `pomo_idx = row // bs`), given as the permutation of `0..M-1` it repeats in every stage;
* the action mask is *stored state* (`td["action_mask"]`): it is written by `_update_step_state` only,
  which `_step` skips when the whole batch is finished;
* the only batch-global construct of `_step`, `td["done"].all()`, enters the per-row step as the
  flag `g` of `stepG` (`g = true` ⇒ every row, in particular this one, is finished).
No Mathlib.
-/
import Rl4co.Core.Basic
import Rl4co.Generated.Params

namespace Rl4co.Ffsp

/-- `fill_value=-999999` of `schedule` in `_reset` (extracted from the source on every run) -/
def UNSET : Int := Params.ffspSentinel

structure Inst where
  S    : Nat               -- `num_stage`
  M    : Nat               -- `num_machine` (per stage)
  J    : Nat               -- `num_job`
  dur  : Nat → Nat → Nat   -- `run_time[j][m]`, m global machine index
  perm : Nat → Nat         -- `permutations[pomo_idx]` (entries 0..M-1)
  flat : Bool              -- `flatten_stages` (only affects the policy-facing `stage_machine_idx`)

/-- `num_machine_total` -/
def MT (i : Inst) : Nat := i.M * i.S

/-- `IndexTables.get_stage_index`: `arange(S).repeat_interleave(M)[sub]` -/
def stageOf (i : Inst) (sub : Nat) : Nat := sub / i.M

/-- `IndexTables.get_machine_index`: `(permutations.repeat(1, S) + start_sub_ids)[pomo_idx, sub]` -/
def machineOf (i : Inst) (sub : Nat) : Nat := i.perm (sub % i.M) + i.M * (sub / i.M)

/-- `IndexTables.get_stage_machine_index`: `stage_machine_table` is `machine_table` when
`flatten_stages`, else the bare permutation (no stage offset) -/
def stageMachineOf (i : Inst) (sub : Nat) : Nat :=
  if i.flat then machineOf i sub else i.perm (sub % i.M)

/-- `job_duration[j][m]`: rows `0..J-1` are `run_time`, row `J` (dummy / wait) is 0 -/
def jobDur (i : Inst) (j m : Nat) : Nat := if j < i.J then i.dur j m else 0

structure State where
  time   : Nat                -- `time_idx`
  sub    : Nat                -- `sub_time_idx`
  midx   : Nat                -- `machine_idx`
  stage  : Nat                -- `stage_idx` (policy input; refreshed by `_update_step_state`)
  smidx  : Nat                -- `stage_machine_idx` (policy input; refreshed by `_update_step_state`)
  sched  : Nat → Nat → Int    -- `schedule[m][j]`
  mwait  : Nat → Nat          -- `machine_wait_step[m]`
  jloc   : Nat → Nat          -- `job_location[j]` (J+1 entries)
  jwait  : Nat → Nat          -- `job_wait_step[j]` (J+1 entries)
  done   : Bool               -- `done`
  mask   : Nat → Bool         -- `action_mask[a]` (J+1 entries, last = wait)
  reward : Option Int         -- `reward` (`-inf` until written)

/-- `_reset` -/
def reset (i : Inst) : State :=
  { time := 0, sub := 0, midx := machineOf i 0
    stage := stageOf i 0, smidx := stageMachineOf i 0
    sched := fun _ _ => UNSET
    mwait := fun _ => 0, jloc := fun _ => 0, jwait := fun _ => 0
    done := false
    mask := fun a => decide (a < i.J) || (a == i.J && !Params.ffspInitWaitMasked)
    reward := none }

/-- `(job_location[:, :J] == num_stage).all(-1)` -/
def allAtEnd (i : Inst) (jloc : Nat → Nat) : Bool := (List.range i.J).all (fun j => jloc j == i.S)

/-- the machine index `_step` books the operation on: `td["machine_idx"]` (which key the source reads is
extracted on every run; `td["stage_machine_idx"]` would differ when `flatten_stages = False`) -/
def bookMachine (s : State) : Nat :=
  match Params.ffspStepUsesMachineIdx with
  | true => s.midx
  | false => s.smidx

/-- first half of `_step`: bookkeeping of the chosen action `a` (a job or the wait action `J`) -/
def apply (i : Inst) (s : State) (a : Nat) : State :=
  let mi := bookMachine s
  let d := jobDur i a mi
  let jloc' := upd s.jloc a (s.jloc a + 1)
  { s with
    jloc := jloc'
    sched := upd s.sched mi (upd (s.sched mi) a (s.time : Int))
    mwait := upd s.mwait mi d
    jwait := upd s.jwait a d
    done := allAtEnd i jloc' }

/-- one iteration of the `while` body of `_move_to_next_machine` -/
def advance (i : Inst) (s : State) : State :=
  let wrap : Bool := s.sub + 1 == MT i
  let sub' := if wrap then 0 else s.sub + 1
  { s with
    time := if wrap then s.time + 1 else s.time
    sub := sub'
    midx := machineOf i sub'
    mwait := if wrap then (fun m => s.mwait m - 1) else s.mwait
    jwait := if wrap then (fun j => s.jwait j - 1) else s.jwait }

/-- `(job_ready_1 & job_ready_2)[j]` -/
def jobReady (i : Inst) (s : State) (j : Nat) : Bool :=
  s.jloc j == stageOf i s.sub && s.jwait j == 0

/-- `ready = machine_ready & job_ready` at the end of the loop body -/
def ready (i : Inst) (s : State) : Bool :=
  s.mwait s.midx == 0 && (List.range i.J).any (jobReady i s)

/-- the `while ~ready.all()` loop for a row that entered it (body runs at least once); the Python
loop has no bound, the model has fuel (`Props/C02/Ffsp.lean`: `moveFuel` always suffices) -/
def moveLoop (i : Inst) : Nat → State → State
  | 0, s => s
  | f + 1, s => let s' := advance i s; if ready i s' then s' else moveLoop i f s'

def maxL : List Nat → Nat
  | [] => 0
  | x :: xs => max x (maxL xs)

/-- largest wait counter of the row -/
def maxWait (i : Inst) (s : State) : Nat :=
  max (maxL ((List.range (MT i)).map s.mwait)) (maxL ((List.range i.J).map s.jwait))

def moveFuel (i : Inst) (s : State) : Nat := (maxWait i s + 2) * MT i

/-- `_move_to_next_machine` for one row: rows with `done` are not selected (`idx = idx[~ready]` with
`ready` initialised to `done`) -/
def moveNext (i : Inst) (s : State) : State :=
  if s.done then s else moveLoop i (moveFuel i s) s

/-- `_update_step_state`: the new action mask -/
def updateMask (i : Inst) (s : State) : State :=
  let st := stageOf i s.sub
  let inPrev := (List.range i.J).any (fun j => decide (s.jloc j < st))
  let waiting := (List.range i.J).any (fun j => s.jloc j == st && decide (s.jwait j > 0))
  let waitAllowed := inPrev || waiting || s.done
  { s with
    stage := st
    smidx := stageMachineOf i s.sub
    mask := fun a =>
      if a < i.J then (s.jloc a == st && s.jwait a == 0)
      else if a = i.J then waitAllowed else false }

/-- `Int` maximum of a list (`max(dim=-1)`); the code raises on an empty dimension, the model
returns 0 there (excluded by `WF`: `J ≥ 1`, `M*S ≥ 1`) -/
def maxI : List Int → Int
  | [] => 0
  | [x] => x
  | x :: y :: xs => max x (maxI (y :: xs))

/-- number of job columns entering the makespan: `end_schedule[:, :, : self.num_job]` excludes the
dummy column (the slice bound is extracted from the source) -/
def rewardCols (i : Inst) : Nat :=
  match Params.ffspRewardExcludesDummy with
  | true => i.J
  | false => i.J + 1

/-- `end_schedule[:, :, :J].max(-1).max(-1)` -/
def endMax (i : Inst) (s : State) : Int :=
  maxI ((List.range (MT i)).map (fun m =>
    maxI ((List.range (rewardCols i)).map (fun j => s.sched m j + (jobDur i j m : Int)))))

/-- value written to `td["reward"]` -/
def rewardVal (i : Inst) (s : State) : Int := - endMax i s

/-- second half of `_step`; `g` is the batch-global `td["done"].all()` -/
def finish (i : Inst) (s : State) (g : Bool) : State :=
  if g then { s with reward := some (rewardVal i s) }
  else updateMask i (moveNext i s)

/-- `_step` of one row inside a batch whose `done.all()` evaluates to `g` -/
def stepG (i : Inst) (s : State) (a : Nat) (g : Bool) : State := finish i (apply i s a) g

/-- `_step` of a batch of one row: `done.all()` is the row's own `done` -/
def step (i : Inst) (s : State) (a : Nat) : State := stepG i s a (apply i s a).done

/-- `_step` of a row while at least one batch-mate is unfinished: `done.all()` is false -/
def stepM (i : Inst) (s : State) (a : Nat) : State := stepG i s a false

/-- the instance stepped alone -/
def env : Env Inst State where
  reset := reset
  nAct i := i.J + 1
  mask _ s a := s.mask a
  step := step
  done _ s := s.done

/-- the instance as a row of a batch in which some other row keeps running -/
def envM : Env Inst State where
  reset := reset
  nAct i := i.J + 1
  mask _ s a := s.mask a
  step := stepM
  done _ s := s.done

/-- `_step` of a whole batch (rows may have different instances of the same shape): per-row
bookkeeping, then the batch-global test, then per-row `finish` with the common flag. -/
def batchStep (rows : List (Inst × State)) (acts : List Nat) : List (Inst × State) :=
  let rows1 := List.zipWith (fun (r : Inst × State) a => (r.1, apply r.1 r.2 a)) rows acts
  let g := rows1.all (fun r => r.2.done)
  rows1.map (fun r => (r.1, finish r.1 r.2 g))

/-- `IndexTables.get_machine_index`'s `pomo_idx = idx // self.bs` (operator extracted from the source) -/
def pomoIdx (bs row : Nat) : Nat :=
  match Params.ffspPomoFloorDiv with
  | true => row / bs
  | false => row % bs

/-! ### `IndexTables`: the machine permutations and the row → permutation map -/

/-- `itertools.permutations(l)` for a list of length `n` (lexicographic in positions) -/
def permsAux : Nat → List Nat → List (List Nat)
  | 0, _ => [[]]
  | n + 1, l => l.flatMap (fun x => (permsAux n (l.erase x)).map (x :: ·))

/-- `list(itertools.permutations(range(M)))` -/
def permsOf (M : Nat) : List (List Nat) := permsAux M (List.range M)

/-- `IndexTables` of an env with `M` machines per stage after `set_bs(bs)` -/
structure Tables where
  M  : Nat
  bs : Nat

/-- the permutation row `row` of a batch uses: `permutations[pomo_idx]` -/
def Tables.perm (tb : Tables) (row : Nat) : Nat → Nat :=
  fun p => ((permsOf tb.M).getD (pomoIdx tb.bs row) []).getD p 0

/-- the instance a batch row is stepped as: shape, durations and `flatten_stages` of the env, machine
permutation from the tables -/
def rowInst (tb : Tables) (S J : Nat) (flat : Bool) (dur : Nat → Nat → Nat) (row : Nat) : Inst :=
  { S := S, M := tb.M, J := J, dur := dur, perm := tb.perm row, flat := flat }

/-! ### `FFSPGenerator._generate`: `run_time = randint(low=min_time, high=max_time)` as a function of raw
draws `u j m ∈ [0, max_time - min_time)` -/
def genDur (minT : Nat) (u : Nat → Nat → Nat) : Nat → Nat → Nat := fun j m => minT + u j m

/-! Step bound of the family (used by `Props/C02/Ffsp.lean`, printed by the driver). -/

def sumN : Nat → (Nat → Nat) → Nat
  | 0, _ => 0
  | n + 1, f => sumN n f + f n

/-- longest duration of job `j` over the machines of stage `k` -/
def maxDur (i : Inst) (j k : Nat) : Nat := maxL ((List.range i.M).map (fun p => i.dur j (k * i.M + p)))

/-- `D`: total work at the longest durations (an operation of duration 0 counts as 1) -/
def totalWork (i : Inst) : Nat := sumN i.J (fun j => sumN i.S (fun k => max 1 (maxDur i j k)))

/-- step bound: `(D + 1) · M·S` -/
def stepBound (i : Inst) : Nat := (totalWork i + 1) * MT i

end Rl4co.Ffsp
