/-
Model of `rl4co/envs/routing/mdcpdp/env.py:MDCPDPEnv` for ONE batch row, mirroring `_reset`, `_step`
and `_get_reward` statement by statement.  start_mode "random" only differs in the initial value of
`current_depot`, which is instance data here (`Inst.start`, read back from the reset state).  No Mathlib.

Node layout as the *step function* sees it: `K := capacity.shape[-1]` depots `0..K-1`,
`h := (N - K) // 2` pickups `K..K+h-1`, the rest deliveries; `N := locs.shape[-2]` (depots ++ customers).
`_reset` sizes its tensors from the *generator* (`KG := generator.num_depot`,
`split0 := generator.num_loc // 2 + generator.num_depot` leading ones of `to_deliver`); with
hand-supplied per-depot capacities `KG = K` and `split0 = h + K`, with the bundled generator
(`capacity` of shape `[B, 1]`) `K = 1 ≠ KG`.  The model keeps the two apart so that it is faithful in
both situations.

Every statement of `_step` is row-wise (since upstream fix 476fa34 the step length and the `done`
flag are `[B, 1]` tensors like everything they are combined with), so the batched step is the map of
`step` over the rows (`batchStep`).
-/
import Rl4co.Core.Basic
import Rl4co.Core.Tour
import Rl4co.Generated.Params

namespace Rl4co.Mdcpdp

inductive Mode where
  | minmax | minsum | lateness
  deriving DecidableEq, Repr

structure Inst where
  N      : Nat               -- `td["locs"].shape[-2]` (after `_reset` concatenated depots and customers)
  K      : Nat               -- `td["capacity"].shape[-1]`, the env's `num_depot`
  split0 : Nat               -- `_reset`: number of leading ones of `to_deliver`
  KG     : Nat               -- `_reset`: length of `current_length` (`generator.num_depot`)
  cap    : Nat → Int         -- `td["capacity"]` entries
  D      : Nat → Nat → Int   -- distances (L2 or L1, whichever `dist_mode` selects), ticks
  openMode : Bool            -- `problem_mode == "open"`
  wNum   : Int               -- `lateness_weight = wNum / wDen`
  wDen   : Int
  start  : Nat := 0          -- `_reset`: initial `current_depot` (0 for start_mode "order", a random depot for "random")

/-- `num_loc // 2` of `_step` -/
def Inst.h (i : Inst) : Nat := (i.N - i.K) / Params.mdcpdpPdDiv
/-- `pd_split_idx` -/
def Inst.pd (i : Inst) : Nat := i.h + i.K

structure State where
  cur       : Nat            -- `current_node`
  depot     : Nat            -- `current_depot`
  carry     : Int            -- `current_carry`
  len       : Nat → Int      -- `current_length` (KG entries)
  arrive    : Nat → Int      -- `arrivetime_record` (N entries)
  toDeliver : Nat → Bool     -- `to_deliver`
  avail     : Nat → Bool     -- `available`
  mask      : Nat → Bool     -- `action_mask`
  done      : Bool

/-- `_reset`: only node 0 is offered (whatever `current_depot` starts with). -/
def reset (i : Inst) : State :=
  { cur := 0, depot := i.start, carry := 0, len := fun _ => 0, arrive := fun _ => 0,
    toDeliver := fun j => decide (j < i.split0), avail := fun _ => true,
    mask := fun j => decide (j = 0), done := false }

def anyIn (n : Nat) (f : Nat → Bool) : Bool := (List.range n).any f

/-- `back_flag = (current_node < num_depot) & (available.gather(-1, current_node) == 0)` (both operators
extracted from the source) -/
def backFlag (i : Inst) (s : State) (a : Nat) : Bool :=
  Params.mdcpdpBackDepotCmp.evalNat a i.K && Params.mdcpdpBackAvailCmp.evalNat (if s.avail a then 1 else 0) 0
/-- `last_depot_flag = sum(available[..., :num_depot]) == 0` (operator extracted from the source) -/
def lastDepotOf (i : Inst) (av : Nat → Bool) : Bool := Params.mdcpdpLastDepotCmp.evalNat (cnt i.K av) 0
/-- `done = count_nonzero(available) == 0` (operator extracted from the source) -/
def doneOf (i : Inst) (av : Nat → Bool) : Bool := Params.mdcpdpDoneCmp.evalNat (cnt i.N av) 0
/-- `num_loc // 2` of `new_to_deliver` (divisor extracted from the source) -/
def Inst.pairOff (i : Inst) : Nat := (i.N - i.K) / Params.mdcpdpPairDiv
/-- open mode: `(current_node < num_depot) & (td["current_node"] >= num_depot)` — the way back is not charged
(both operators extracted from the source) -/
def openZero (i : Inst) (cur a : Nat) : Bool :=
  i.openMode && Params.mdcpdpOpenToCmp.evalNat a i.K && Params.mdcpdpOpenFromCmp.evalNat cur i.K
/-- length of the last dimension of the `capacity` tensor `MDCPDPGenerator._generate` emits for `numDepot` depots
(extracted from the source: `1`, or `num_depot` once the generator is fixed) -/
def genCapLen (numDepot : Nat) : Nat := if Params.mdcpdpGenCapPerDepot then numDepot else 1


/-- `capacity_flag = current_carry >= current_capacity` (operator extracted from the source) -/
def capFlagOf (i : Inst) (carry : Int) (depot : Nat) : Bool := Params.mdcpdpCapCmp.eval carry (i.cap depot)
/-- `carry_flag = current_carry > 0` (operator extracted from the source) -/
def carryFlagOf (carry : Int) : Bool := Params.mdcpdpCarryCmp.eval carry 0

/-- `(current_node < pd_split_idx) & (current_node >= num_depot)`: a pickup (operators extracted from the source) -/
def pickTest (i : Inst) (a : Nat) : Bool := Params.mdcpdpPickLtCmp.evalNat a i.pd && Params.mdcpdpPickGeCmp.evalNat a i.K
/-- `current_node >= pd_split_idx`: a delivery (operator extracted from the source) -/
def delivTest (i : Inst) (a : Nat) : Bool := Params.mdcpdpDelivGeCmp.evalNat a i.pd
/-- `(current_node < num_depot) & (td["current_node"] < num_depot)`: a move between two depots costs nothing
(operators extracted from the source) -/
def depotLeg (i : Inst) (cur a : Nat) : Bool := Params.mdcpdpLegToCmp.evalNat a i.K && Params.mdcpdpLegFromCmp.evalNat cur i.K

/-- the mask assembled at the end of `_step` from the updated bookkeeping -/
def maskOf (i : Inst) (back : Bool) (avail td : Nat → Bool) (carry : Int) (depot : Nat)
    (doneL : Bool) : Nat → Bool :=
  let capFlag := capFlagOf i carry depot
  let lastDepot := lastDepotOf i avail
  let carryFlag := carryFlagOf carry
  fun j =>
    if j < i.K then
      -- &= back_flag ; scatter(current_depot, ~back_flag) ; &= ~last_depot_flag ; &= ~carry_flag
      let m1 := if j = depot then !back else (avail j && td j && back)
      let m2 := m1 && !lastDepot && !carryFlag
      -- scatter(current_depot, gather(current_depot) | done[..., None])
      if j = depot then m2 || doneL else m2
    else
      -- available & to_deliver ; pickups &= ~capacity_flag ; &= ~back_flag
      let m0 := avail j && td j
      let m1 := if j < i.pd then m0 && !capFlag else m0
      m1 && !back

/-- which visits update `current_depot`: as coded `torch.where(back_flag, current_node, current_depot)` (only a return to
an already visited depot), or — the intended semantics, `tok = true` — every visit of a depot
(`torch.where(current_node < num_depot, …)`).  The token is extracted from the source. -/
def depotSel (tok : Bool) (i : Inst) (back : Bool) (a : Nat) : Bool := if tok then decide (a < i.K) else back

/-- `_step`, parametric in the `current_depot` update rule -/
def stepF (tok : Bool) (i : Inst) (s : State) (a : Nat) : State :=
  -- new_to_deliver = (current_node + num_loc // 2) % (num_loc + num_depot)
  let newTD := (a + i.pairOff) % i.N
  let back := backFlag i s a
  let avail' := upd s.avail a false
  let td' := upd s.toDeliver newTD true
  -- current_carry += pickup ; current_carry -= delivery
  let carry' := s.carry + (if pickTest i a then 1 else 0) - (if delivTest i a then 1 else 0)
  -- current_depot = where(back_flag, current_node, current_depot)        (tok = false, the code as it is)
  -- current_depot = where(current_node < num_depot, current_node, …)     (tok = true, the intended semantics)
  let depot' := if depotSel tok i back a then a else s.depot
  -- step length: 0 between two depots; 0 for the way back in open mode
  let sl1 := if depotLeg i s.cur a then 0 else i.D s.cur a
  let sl2 := if openZero i s.cur a then 0 else sl1
  -- current_length.scatter_add_(-1, current_depot, current_step_length)
  let len' := upd s.len depot' (s.len depot' + sl2)
  -- arrivetime_record.scatter_(-1, current_node, current_length.gather(-1, current_depot))
  let arrive' := upd s.arrive a (len' depot')
  { cur := a, depot := depot', carry := carry', len := len', arrive := arrive',
    toDeliver := td', avail := avail', mask := maskOf i back avail' td' carry' depot' (doneOf i avail'),
    done := doneOf i avail' }

/-- `_step` as the source has it (the update rule is the extracted token) -/
def step (i : Inst) (s : State) (a : Nat) : State := stepF Params.mdcpdpDepotOnVisit i s a

def env : Env Inst State where
  reset := reset
  nAct i := i.N
  mask _ s a := s.mask a
  step := step
  done _ s := s.done

/-- the environment with the intended `current_depot` rule (what a maintainer's one-line fix gives) -/
def envFixed : Env Inst State where
  reset := reset
  nAct i := i.N
  mask _ s a := s.mask a
  step := stepF true
  done _ s := s.done

def sumList (xs : List Int) : Int := xs.sum
def maxList1 : List Int → Int
  | [] => 0
  | [x] => x
  | x :: xs => max x (maxList1 xs)

/-- `current_length` as a list -/
def lens (i : Inst) (s : State) : List Int := (List.range i.KG).map s.len
/-- `arrivetime_record[..., num_depot + num_loc // 2 :]` summed -/
def lateSum (i : Inst) (s : State) : Int :=
  ((List.range (i.N - i.pd)).map (fun k => s.arrive (i.pd + k))).sum

/-- `_get_reward`, scaled by `wDen` in lateness mode (the weight is `wNum / wDen`). -/
def reward (m : Mode) (i : Inst) (s : State) : Int :=
  match m with
  | .minmax => - maxList1 (lens i s)
  | .minsum => - (lens i s).sum
  | .lateness => - ((lens i s).sum * (i.wDen - i.wNum) + lateSum i s * i.wNum)

/-- The batched `_step`: no statement reads another row. -/
def batchStep (rows : List (Inst × State)) (acts : List Nat) : List (Inst × State) :=
  List.zipWith (fun (r : Inst × State) a => (r.1, step r.1 r.2 a)) rows acts

end Rl4co.Mdcpdp
