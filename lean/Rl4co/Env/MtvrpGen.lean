/-
The MTVRP environment assembled from the statement-level translation of `get_action_mask` / `_step`
(`Rl4co/Generated/MtvrpEnv.lean`); the depot rule and the termination test come from the token-probe-parametric
model.  `Rl4co/Proofs/MtvrpGenerated.lean` proves `envGen = env`.  The driver op `mtvrp.episodegen` runs it against the
real code.  No Mathlib.
-/
import Rl4co.Generated.MtvrpEnv
namespace Rl4co.Mtvrp

def envGen : Env Inst State where
  reset := reset
  nAct i := i.n + 1
  mask i s a := if a = 0 then depotRule i s else Generated.canVisitGen i s a
  step := Generated.stepGen
  done := done

end Rl4co.Mtvrp
