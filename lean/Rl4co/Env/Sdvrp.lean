/-
Model of `rl4co/envs/routing/sdvrp/env.py:SDVRPEnv` (split delivery) for ONE instance (one batch row).
Mirrors `_reset`, `_step`, `get_action_mask`, `_get_reward` (inherited from CVRPEnv) and
`check_solution_validity`.  `rem j` is `td["demand_with_depot"][j]` (index 0 = depot, always 0 in the
environment; `-capacity` initially in the checker).  Quantities are `Int` ticks.  No Mathlib.
-/
import Rl4co.Core.Basic
import Rl4co.Core.Tour
import Rl4co.Generated.Params

namespace Rl4co.Sdvrp

structure Inst where
  n      : Nat
  cap    : Int                -- `vehicle_capacity`
  demand : Nat → Int          -- node-indexed (1..n)
  D      : Nat → Nat → Int

structure State where
  cur  : Nat                  -- `current_node`
  used : Int                  -- `used_capacity`
  rem  : Nat → Int            -- `demand_with_depot` (n+1 entries)
  done : Bool                 -- `done` as written by the last `_step` (False after reset)

/-- `_reset`: `demand_with_depot = cat(0, demand)` -/
def reset (i : Inst) : State :=
  { cur := 0, used := 0, rem := fun j => if j = 0 then 0 else i.demand j, done := false }

/-- negation of `mask_loc = (demand_with_depot[1:] == 0) | (used_capacity >= vehicle_capacity)` -/
def locOk (i : Inst) (s : State) (j : Nat) : Bool :=
  !(Params.sdvrpMaskRemCmp.eval (s.rem j) 0 || Params.sdvrpMaskCapCmp.eval s.used i.cap)

/-- `(mask_loc == 0).int().sum(-1) > 0` -/
def anyLoc (i : Inst) (s : State) : Bool := (List.range i.n).any (fun k => locOk i s (k + 1))

/-- `get_action_mask` (True = feasible). -/
def mask (i : Inst) (s : State) (a : Nat) : Bool :=
  if a = 0 then !(s.cur == 0 && anyLoc i s) else locOk i s a

/-- amount handed over when `a` is visited: `min(selected_demand, vehicle_capacity - used_capacity)` -/
def delivered (i : Inst) (s : State) (a : Nat) : Int :=
  -- callee (`torch.min`) and second operand (`vehicle_capacity - used_capacity`) are extracted from the source;
  -- any other shape is modelled as "hand over the whole remaining demand"
  if Params.sdvrpStepDeliverIsMin && Params.sdvrpStepFreeIsCapMinusUsed then min (s.rem a) (i.cap - s.used)
  else s.rem a

/-- `(demand_with_depot > 0).any(-1)` over all n+1 entries -/
def anyRem (n : Nat) (rem : Nat → Int) : Bool :=
  (List.range (n + 1)).any (fun j => Params.sdvrpDoneCmp.eval (rem j) 0)

/-- `_step` -/
def step (i : Inst) (s : State) (a : Nat) : State :=
  let del := delivered i s a
  let rem' := upd s.rem a (s.rem a - del)            -- `scatter_add(-1, current_node, -delivered)`
  { cur := a
    used := if Params.sdvrpStepDepotCmp.evalNat a 0 then s.used + del else 0   -- `(…) * (current_node != 0)`
    rem := rem'
    done := !(anyRem i.n rem') }

def done (_ : Inst) (s : State) : Bool := s.done

def env : Env Inst State where
  reset := reset
  nAct i := i.n + 1
  mask := mask
  step := step
  done := done

/-- `_get_reward` (CVRPEnv's): `-get_tour_length([depot] ++ locs[actions])`. -/
def reward (i : Inst) (as : List Nat) : Int := - rollLen i.D (0 :: as)

/-- `(demands == 0).all()` over the n+1 columns -/
def allZero (n : Nat) (dem : Nat → Int) : Bool := (List.range (n + 1)).all (fun j => dem j == 0)

/-- the loop of `check_solution_validity`: `dem` = `demands` (column 0 starts at `-capacity`),
`used` = `used_cap`, `prev` = `a_prev`. -/
def checkGo (i : Inst) : (Nat → Int) → Int → Option Nat → List Nat → Bool
  | dem, _, _, [] => allZero i.n dem
  | dem, used, prev, a :: as =>
    -- assert a_prev is None or (demands[(a_prev == 0) & (a == 0), :] == 0).all()
    (!(prev == some 0 && a == 0) || allZero i.n dem) &&
    (let d := min (dem a) (i.cap - used)
     checkGo i (upd dem a (dem a - d)) (if a = 0 then 0 else used + d) (some a) as)

/-- `check_solution_validity` (True = no assertion raised; an out-of-range action raises an IndexError,
which the harness counts as a rejection). -/
def check (i : Inst) (as : List Nat) : Bool :=
  as.all (fun a => decide (a ≤ i.n)) &&
  checkGo i (fun j => if j = 0 then - i.cap else i.demand j) 0 none as

end Rl4co.Sdvrp
