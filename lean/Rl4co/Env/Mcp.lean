/-
Model of `rl4co/envs/graph/mcp/env.py:MCPEnv` for ONE instance (one batch row).
Mirrors `_reset`, `_step`, `_get_reward`.  `mem j k` is `membership[j][k]`: the (1-based) id of the
`k`-th item of set `j`, `0` = padding.  `w x` is the weight of the item with 0-based index `x`
(id `x+1`; the code drops column 0 of its `n_items+1` wide scatter target).  `quota` is the row's
`td["n_sets_to_choose"]`.  Weights are integers (ticks).  No Mathlib.
-/
import Rl4co.Core.Basic
import Rl4co.Env.Flp
import Rl4co.Generated.Params

namespace Rl4co.Mcp

structure Inst where
  nSets   : Nat
  nItems  : Nat
  maxSize : Nat                -- width of the membership tensor
  quota   : Int
  mem     : Nat → Nat → Nat    -- `orig_membership`
  w       : Nat → Int          -- `orig_weights`

structure State where
  chosen  : Nat → Bool         -- `chosen`
  i       : Int
  mem     : Nat → Nat → Nat    -- `membership` (rows of chosen sets zeroed)
  weights : Nat → Int          -- `weights` (covered items zeroed), shown to the policy
  done    : Bool

/-- `_reset` -/
def reset (i : Inst) : State :=
  { chosen := fun _ => false, i := 0, mem := i.mem, weights := i.w, done := false }

/-- `(chosen.unsqueeze(-1) * membership)`, scattered with `+= 1` into `n_items+1` columns, first
column dropped (`[:, off:]`, `off = 1` in the source), `> 0`: item `x` (0-based) occurs in a row of
`membership` selected by `chosen`. -/
def coveredBy (off nSets maxSize : Nat) (mem : Nat → Nat → Nat) (chosen : Nat → Bool) (x : Nat) : Bool :=
  (List.range nSets).any (fun j => (List.range maxSize).any (fun k =>
    (if chosen j then mem j k else 0) == x + off))

/-- `action_mask = ~chosen` -/
def mask (_ : Inst) (s : State) (a : Nat) : Bool := !(s.chosen a)

/-- `_step`.  Note that the covered items are computed from the *current* `membership`, whose rows of
previously chosen sets are already zero, and are multiplied into the *current* `weights`. -/
def step (i : Inst) (s : State) (a : Nat) : State :=
  let chosen := upd s.chosen a true
  { chosen := chosen
    done := Params.mcpDoneCmp.eval s.i (i.quota - Params.mcpDoneOffset)
    mem := fun j k => if (if Params.mcpKeepRemainingRows then !chosen j else chosen j) then s.mem j k else 0
    weights := fun x => s.weights x * (if coveredBy Params.mcpStepItemOffset i.nSets i.maxSize s.mem chosen x then 0 else 1)
    i := s.i + 1 }

def done (_ : Inst) (s : State) : Bool := s.done

def env : Env Inst State where
  reset := reset
  nAct i := i.nSets
  mask := mask
  step := step
  done := done

/-- `_get_reward`: from `orig_membership`, `orig_weights` and the final `chosen`. -/
def reward (i : Inst) (s : State) : Int :=
  sumRange i.nItems (fun x => (if coveredBy Params.mcpRewardItemOffset i.nSets i.maxSize i.mem s.chosen x then 1 else 0) * i.w x)

end Rl4co.Mcp
