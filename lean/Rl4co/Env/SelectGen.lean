/-
What the bundled generators of the selection family hand to the environments, as far as the
well-formedness predicates of the C02 / C05 / C08 theorems are concerned.  No Mathlib.

* `FLPGenerator._generate`: `to_choose = ones(B) * self.to_choose`, `num_loc` locations.
* `MCPGenerator._generate` (after upstream fix 202be23 of the cut-off width): membership rows
  `Gen.mcpRow items size`, `n_sets_to_choose = ones(B,1) * self.n_sets_to_choose`.
* `DPPGenerator._generate`: all cells available, the probe cell cleared (`available.scatter_(1, probe,
  False)`), then `k ∈ [num_keepout_min, num_keepout_max)` keep-out cells cleared.
* `MDPPGenerator._generate`: one legacy probe cell cleared, then `p ∈ [num_probes_min, num_probes_max)`
  probe cells cleared and recorded in `probes`, then the keep-out cells.
-/
import Rl4co.Env.Flp
import Rl4co.Env.Mcp
import Rl4co.Env.Dpp
import Rl4co.Gen.Routing

namespace Rl4co

namespace Flp
/-- one row of `FLPGenerator._generate` (distances and the filler are data) -/
def genInst (numLoc toChoose : Nat) (D : Nat → Nat → Int) (d0 : Nat → Int) : Inst :=
  ⟨numLoc, toChoose, D, d0⟩
end Flp

namespace Mcp
/-- one row of `MCPGenerator._generate`: `items j` is the `randint(1, num_items+1)` draw of set `j`
(width = batch maximum of the clamped sizes), `sizes j` its clamped size -/
def genInst (numItems numSets nChoose maxSize : Nat) (items : Nat → List Nat) (sizes : Nat → Nat)
    (w : Nat → Int) : Inst :=
  { nSets := numSets, nItems := numItems, maxSize := maxSize, quota := nChoose
    mem := fun j k => (Gen.mcpRow (items j) (sizes j)).getD k 0, w := w }
end Mcp

namespace Dpp

/-- `mask.scatter(…, cells, False)` -/
def clearCells (m : Nat → Bool) : List Nat → Nat → Bool
  | [] => m
  | c :: cs => clearCells (upd m c false) cs

/-- one row of `DPPGenerator._generate` with `env.max_decaps = quota` -/
def genDpp (n quota probe : Nat) (keepouts : List Nat) : Inst :=
  { n := n, quota := quota, avail := clearCells (fun _ => true) (probe :: keepouts)
    probe := fun j => j == probe, multi := false }

/-- one row of `MDPPGenerator._generate` -/
def genMdpp (n quota p0 : Nat) (probes keepouts : List Nat) : Inst :=
  { n := n, quota := quota, avail := clearCells (fun _ => true) (p0 :: (probes ++ keepouts))
    probe := fun j => probes.contains j, multi := true }

end Dpp
end Rl4co
