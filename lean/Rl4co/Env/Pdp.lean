/-
Model of `rl4co/envs/routing/pdp/env.py:PDPEnv` for ONE instance (one batch row), both values of
`force_start_at_depot`.  Node 0 is the depot, `1..h` are pickups, `h+1..2h` the deliveries
(`num_loc = n = 2h`; delivery of pickup `p` is `p + h`).  Distances are `Int` ticks.  No Mathlib.
-/
import Rl4co.Core.Basic
import Rl4co.Core.Tour
import Rl4co.Core.Sort
import Rl4co.Generated.Params

namespace Rl4co.Pdp

structure Inst where
  h     : Nat                -- number of pickup/delivery pairs (`num_loc // 2`)
  force : Bool               -- `force_start_at_depot`
  D     : Nat → Nat → Int    -- distances between nodes (0 = depot)

/-- `num_loc` (the reset code needs it even: it concatenates `n//2 + 1` ones and `n//2` zeros) -/
def Inst.n (i : Inst) : Nat := 2 * i.h

structure State where
  cur       : Nat            -- `current_node`
  i         : Nat            -- `i`
  avail     : Nat → Bool     -- `available`
  toDeliver : Nat → Bool     -- `to_deliver`
  amask     : Nat → Bool     -- `action_mask`
  done      : Bool

/-- `to_deliver` at reset: `[1]*(n//2+1) ++ [0]*(n//2)` -/
def toDeliver0 (i : Inst) : Nat → Bool := fun j => decide (j < i.n / 2 + 1)

/-- `_reset` -/
def reset (i : Inst) : State :=
  if i.force then
    -- `action_mask[..., 1:] = False`; `available` stays all ones
    { cur := 0, i := 0, avail := fun _ => true, toDeliver := toDeliver0 i,
      amask := fun j => decide (j = 0), done := false }
  else
    -- `action_mask = ones & to_deliver; available[..., 0] = False; action_mask[..., 0] = False`
    { cur := 0, i := 0, avail := fun j => decide (j ≠ 0), toDeliver := toDeliver0 i,
      amask := fun j => if j = 0 then false else toDeliver0 i j, done := false }

def mask (_ : Inst) (s : State) (a : Nat) : Bool := s.amask a

/-- `_step`: `new_to_deliver = (a + n // 2) % (n + 1)`; `available[a] = 0`;
`to_deliver[new_to_deliver] = 1`; `action_mask = available & to_deliver`;
`done = count_nonzero(available) == 0`. -/
def step (i : Inst) (s : State) (a : Nat) : State :=
  let nt := (a + i.n / 2) % (i.n + 1)
  let avail := upd s.avail a false
  let toDel := upd s.toDeliver nt true
  { cur := a
    i := s.i + 1
    avail := avail
    toDeliver := toDel
    amask := fun j => avail j && toDel j
    done := Params.pdpDoneCmp.evalNat (cnt (i.n + 1) avail) 0 }

def env : Env Inst State where
  reset := reset
  nAct i := i.n + 1
  mask := mask
  step := step
  done _ s := s.done

/-- the batched `_step` has no batch-global construct: it is the row-wise map -/
def batchStep (rows : List (Inst × State)) (acts : List Nat) : List (Inst × State) :=
  List.zipWith (fun r a => (r.1, step r.1 r.2 a)) rows acts

/-- `_get_reward`: `-get_tour_length([depot] ++ locs[actions])` (also when the actions already start
with the depot). -/
def reward (i : Inst) (as : List Nat) : Int :=
  - (List.zipWith (fun nxt c => i.D nxt c) (roll1 (0 :: as)) (0 :: as)).sum

/-- torch broadcasting of `xs < ys` over the last dimension followed by `.all()`:
sizes must be equal or one of them 1; otherwise the call raises (modelled as rejection). -/
def bcastLt (xs ys : List Nat) : Bool :=
  if xs.length = ys.length then (List.zipWith (fun x y => decide (x < y)) xs ys).all id
  else if ys.length = 1 then xs.all (fun x => decide (x < ys.getD 0 0))
  else if xs.length = 1 then ys.all (fun y => decide (xs.getD 0 0 < y))
  else false

/-- `check_solution_validity` (True = nothing raised).  `argsort` of a permutation of `0..L-1` is its
inverse permutation, i.e. `visited_time[v] = index of v`; the first assertion guarantees a permutation
before `argsort` is looked at.  All sizes derive from the WIDTH `L` OF THE ACTION TENSOR. -/
def check (i : Inst) (as : List Nat) : Bool :=
  let acts := if i.force then as else 0 :: as
  let L := acts.length
  let vt := fun v => acts.idxOf v
  let k := L / 2 + 1
  sortedIsRange L acts &&
  ((acts.drop 1).dropLast).all (fun a => a != 0) &&
  bcastLt ((List.range (k - 1)).map (fun t => vt (1 + t))) ((List.range (L - k)).map (fun t => vt (k + t)))

end Rl4co.Pdp
