/-
Model of `rl4co/envs/routing/pdp/env.py:PDPEnv` for ONE instance (one batch row), both values of
`force_start_at_depot`.  Node 0 is the depot, `1..h` are pickups, `h+1..2h` the deliveries
(`num_loc = n = 2h`; delivery of pickup `p` is `p + h`).  Distances are `Int` ticks.  No Mathlib.
-/
import Rl4co.Core.Basic
import Rl4co.Core.Tour
import Rl4co.Core.Sort
import Rl4co.Generated.Params
import Rl4co.Env.TspfamBase

namespace Rl4co.Pdp

structure Inst where
  h     : Nat                -- number of pickup/delivery pairs (`num_loc // 2`)
  force : Bool               -- `force_start_at_depot`
  D     : Nat → Nat → Int    -- distances between nodes (0 = depot)

/-- `num_loc` (the reset code needs it even: it concatenates `n//2 + 1` ones and `n//2` zeros) -/
def Inst.n (i : Inst) : Nat := 2 * i.h

structure State where
  cur       : Nat            -- `current_node`
  i         : Nat            -- `i`
  avail     : Nat → Bool     -- `available`
  toDeliver : Nat → Bool     -- `to_deliver`
  amask     : Nat → Bool     -- `action_mask`
  done      : Bool

/-- `to_deliver` at reset: `[1]*(n//2+1) ++ [0]*(n//2)` -/
def toDeliver0 (i : Inst) : Nat → Bool :=
  fun j => decide (j < i.n / Params.pdpResetOnes.1 + Params.pdpResetOnes.2)

/-- `_reset` -/
def reset (i : Inst) : State :=
  if i.force then
    -- `action_mask[..., 1:] = False`; `available` stays all ones
    { cur := 0, i := 0, avail := fun _ => true, toDeliver := toDeliver0 i,
      amask := fun j => decide (j = 0), done := false }
  else
    -- `action_mask = ones & to_deliver; available[..., 0] = False; action_mask[..., 0] = False`
    { cur := 0, i := 0, avail := fun j => decide (j ≠ 0), toDeliver := toDeliver0 i,
      amask := fun j => if j = 0 then false else toDeliver0 i j, done := false }

def mask (_ : Inst) (s : State) (a : Nat) : Bool := s.amask a

/-- `new_to_deliver = (current_node + num_loc // 2) % (num_loc + 1)`, the three constants extracted -/
def pairIdx (i : Inst) (a : Nat) : Nat :=
  (a + i.n / Params.pdpPairOffset.1 + Params.pdpPairOffset.2.1) % (i.n + Params.pdpPairOffset.2.2)

/-- `_step`: `new_to_deliver = (a + n // 2) % (n + 1)`; `available[a] = 0`;
`to_deliver[new_to_deliver] = 1`; `action_mask = available & to_deliver`;
`done = count_nonzero(available) == 0`. -/
def step (i : Inst) (s : State) (a : Nat) : State :=
  let nt := pairIdx i a
  let avail := upd s.avail a false
  let toDel := upd s.toDeliver nt true
  { cur := a
    i := s.i + 1
    avail := avail
    toDeliver := toDel
    amask := fun j => avail j && toDel j
    done := Params.pdpDoneCmp.evalNat (cnt (i.n + 1) avail) 0 }

def env : Env Inst State where
  reset := reset
  nAct i := i.n + 1
  mask := mask
  step := step
  done _ s := s.done

/-- the batched `_step` has no batch-global construct: it is the row-wise map -/
def batchStep (rows : List (Inst × State)) (acts : List Nat) : List (Inst × State) :=
  List.zipWith (fun r a => (r.1, step r.1 r.2 a)) rows acts

/-- `_get_reward`: `-get_tour_length([depot] ++ locs[actions])` (also when the actions already start
with the depot). -/
def reward (i : Inst) (as : List Nat) : Int :=
  - (List.zipWith (fun nxt c => i.D nxt c) (roll1 (0 :: as)) (0 :: as)).sum

/-- `xs < ys` broadcast and reduced with `.all()` (see `Tspfam.bcastCmp`) -/
def bcastLt (xs ys : List Nat) : Bool := Tspfam.bcastCmp .lt xs ys

/-- `check_solution_validity` (True = nothing raised).  `argsort` of a permutation of `0..L-1` is its
inverse permutation, i.e. `visited_time[v] = index of v`; the first assertion guarantees a permutation
before `argsort` is looked at.  All sizes derive from the WIDTH `L` OF THE ACTION TENSOR. -/
def checkWith (fromInst : Bool) (i : Inst) (as : List Nat) : Bool :=
  let acts := if i.force == Params.pdpCheckPrependWhenNotForced then as else 0 :: as
  -- `fromInst`: repaired clause, all sizes from the instance (`num_loc + 1` nodes); a width mismatch raises
  let L := if fromInst then i.n + 1 else acts.length
  let vt := fun v => acts.idxOf v
  let k := L / 2 + 1
  (!fromInst || decide (acts.length = L)) &&
  Tspfam.permTest Params.pdpCheckPermCmp L acts &&
  ((acts.drop 1).dropLast).all (fun a => Params.pdpCheckDepotCmp.evalNat a 0) &&
  Tspfam.bcastCmp Params.pdpCheckPrecCmp ((List.range (k - 1)).map (fun t => vt (1 + t)))
    ((List.range (L - k)).map (fun t => vt (k + t)))

/-- the checker as written: the width source is an extracted token (`false` = width of the action tensor) -/
def check (i : Inst) (as : List Nat) : Bool := checkWith Params.pdpCheckWidthFromInst i as

/-- `get_num_starts`: `(locs.shape[-2] - 1) // 2` (locs include the depot: `n + 1` rows) -/
def numStarts (i : Inst) : Nat := (i.n + 1 - Params.pdpStartRule.2.1) / Params.pdpStartRule.2.2

/-- `select_start_nodes` for a batch of `B` instances of this size and `k` starts:
`arange(k).repeat_interleave(B) % num_possible_starts + 1` (row `r` belongs to copy `r / B`). -/
def selectStartNodes (i : Inst) (B k : Nat) : List Nat :=
  (List.range (k * B)).map (fun r => (r / B) % numStarts i + Params.pdpStartRule.1)

end Rl4co.Pdp
