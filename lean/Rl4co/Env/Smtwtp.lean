/-
Model of `rl4co/envs/scheduling/smtwtp/env.py:SMTWTPEnv` for ONE instance (one batch row).
Jobs are `1..n`, index 0 is the dummy start node (masked at reset).  Processing times, due times and
weights are `Int` (the harness uses small integers, exact in float32).  No Mathlib.
-/
import Rl4co.Core.Basic
import Rl4co.Generated.Params

namespace Rl4co.Smtwtp

structure Inst where
  n : Nat                    -- `generator.num_job`
  p : Nat → Int              -- `job_process_time[j]`  (index 0 = dummy)
  d : Nat → Int              -- `job_due_time[j]`
  w : Nat → Int              -- `job_weight[j]`

structure State where
  cur   : Nat                -- `current_job`
  time  : Int                -- `current_time`
  avail : Nat → Bool         -- `action_mask`
  done  : Bool

/-- `_reset`: `available = ones(num_job + 1); available[:, 0] = 0` -/
def reset (_ : Inst) : State :=
  { cur := 0, time := 0, avail := fun j => decide (j ≠ 0), done := false }

def mask (_ : Inst) (s : State) (a : Nat) : Bool := s.avail a

/-- `_step` -/
def step (i : Inst) (s : State) (a : Nat) : State :=
  let avail := upd s.avail a false
  { cur := a
    time := s.time + i.p a
    avail := avail
    done := Params.smtwtpDoneCmp.evalNat (cnt (i.n + 1) avail) 0 }

def env : Env Inst State where
  reset := reset
  nAct i := i.n + 1
  mask := mask
  step := step
  done _ s := s.done

/-- the batched `_step` has no batch-global construct: it is the row-wise map -/
def batchStep (rows : List (Inst × State)) (acts : List Nat) : List (Inst × State) :=
  List.zipWith (fun r a => (r.1, step r.1 r.2 a)) rows acts

/-- `torch.cumsum` -/
def cumsum : Int → List Int → List Int
  | _, [] => []
  | acc, x :: xs => (acc + x) :: cumsum (acc + x) xs

/-- the positive part of `_get_reward`: gather p/d/w in action order, `cumsum`, tardiness clamped at 0
(`job_tardiness[job_tardiness < 0] = 0`), weighted, summed. -/
def weightedTardiness (i : Inst) (as : List Nat) : Int :=
  let pt := as.map i.p
  let dt := as.map i.d
  let wt := as.map i.w
  let pre := if Params.smtwtpRewardShape.1 then cumsum 0 pt else pt          -- `torch.cumsum(ordered_process_time, dim=1)`
  let raw := if Params.smtwtpRewardShape.2 then List.zipWith (fun c d => c - d) pre dt   -- `presum - due`
             else List.zipWith (fun c d => d - c) pre dt
  let tard := raw.map (fun x => if Params.smtwtpClampCmp.eval x 0 then 0 else x)  -- `t[t < 0] = 0`
  (List.zipWith (fun w t => w * t) wt tard).sum

/-- `_get_reward` -/
def reward (i : Inst) (as : List Nat) : Int := - weightedTardiness i as

end Rl4co.Smtwtp
