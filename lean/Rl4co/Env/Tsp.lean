/-
Model of `rl4co/envs/routing/tsp/env.py:TSPEnv` for ONE instance (one batch row), plus the batched
`_step` as written (with its batch-global first-step test `td["i"].all() == 0`).
Mirrors `_reset`, `_step`, `_get_reward`, `check_solution_validity` statement by statement.
Distances are `Int` ticks; nodes are `0..n-1`.  No Mathlib.
-/
import Rl4co.Core.Basic
import Rl4co.Core.Tour
import Rl4co.Core.Sort
import Rl4co.Generated.Params
import Rl4co.Env.TspfamBase

namespace Rl4co.Tsp

structure Inst where
  n : Nat                    -- `td["locs"].shape[-2]`
  D : Nat → Nat → Int        -- Euclidean distances between the nodes (glue: `get_distance`)

structure State where
  first : Nat                -- `first_node`
  cur   : Nat                -- `current_node`
  i     : Nat                -- `i` (step counter)
  avail : Nat → Bool         -- `action_mask` (1 = not visited)
  done  : Bool               -- `done` (set by torchrl's reset to False, then by `_step`)

/-- `_reset`'s `num_loc` as a function of the shape of `td["locs"]` (= batch dims ++ [n, 2]): the extracted
expression either counts from the END (`shape[-2]`) or from the front (`size(1)`). -/
def numLocOf (fromEnd : Bool) (shape : List Nat) : Nat :=
  if fromEnd then shape.getD (shape.length - 2) 0 else shape.getD 1 0

/-- mask width that `_reset` allocates for an instance of `n` cities inside a batch of shape `bs` -/
def resetWidth (bs : List Nat) (i : Inst) : Nat := numLocOf Params.tspResetNumLocFromEnd (bs ++ [i.n, 2])

/-- `_reset` -/
def reset (_ : Inst) : State :=
  { first := 0, cur := 0, i := 0, avail := fun _ => true, done := false }

/-- the mask is the stored `action_mask` -/
def mask (_ : Inst) (s : State) (a : Nat) : Bool := s.avail a

/-- `_step` of one row, given the value `flag` of the first-step test (which the code computes over
the whole batch): `first_node = current_node if flag else td["first_node"]`;
`available = action_mask.scatter(-1, a, 0)`; `done = sum(available) == 0`; `i + 1`. -/
def stepWith (flag : Bool) (i : Inst) (s : State) (a : Nat) : State :=
  let avail := upd s.avail a false
  { first := if flag then a else s.first
    cur := a
    i := s.i + 1
    avail := avail
    done := Params.tspDoneCmp.evalNat (cnt i.n avail) 0 }

/-- `td["i"].all() == 0` over the rows of a batch (`.all()` read as 0/1, compared with the extracted
operator): true iff NOT every row has `i ≠ 0`. -/
def firstFlag (rows : List State) : Bool :=
  Params.tspFirstStepCmp.evalNat (if rows.all (fun s => s.i != 0) then 1 else 0) 0

/-- solo step = the batched code on a batch of one row -/
def step (i : Inst) (s : State) (a : Nat) : State := stepWith (firstFlag [s]) i s a

/-- the batched `_step` as written: ONE flag for the whole batch, then row-wise updates -/
def batchStep (rows : List (Inst × State)) (acts : List Nat) : List (Inst × State) :=
  let flag := firstFlag (rows.map (·.2))
  List.zipWith (fun r a => (r.1, stepWith flag r.1 r.2 a)) rows acts

def env : Env Inst State where
  reset := reset
  nAct i := i.n
  mask := mask
  step := step
  done _ s := s.done

/-- `torch.roll(ordered_locs, k, dims=-2)` of `get_tour_length` with the extracted shift `k`.  If the
roll did not name the step dimension it would not be a per-row operation at all (it would run across batch
rows); the per-instance model then has nothing sensible to say and leaves the list unrolled. -/
def tourNext (as : List Nat) : List Nat :=
  if Params.tourRollAlongSteps then Tspfam.rollInt Params.tourRollShift as else as

/-- `_get_reward`: `-get_tour_length(locs[actions])`, i.e. `-Σ_k |x[roll(a,-1)[k]] - x[a[k]]|`
(`get_distance(ordered_locs_next, ordered_locs)`). -/
def reward (i : Inst) (as : List Nat) : Int :=
  - (List.zipWith (fun nxt c => i.D nxt c) (tourNext as) as).sum

/-- `check_solution_validity`: `arange(actions.size(1)) == actions.sort(1)[0]` (True = no assertion
raised).  The expected node set is derived from the WIDTH OF THE ACTION TENSOR, not from the instance. -/
def checkWith (fromInst : Bool) (i : Inst) (as : List Nat) : Bool :=
  if fromInst then
    -- repaired clause: `arange(num_loc)` from the instance; a width mismatch makes the comparison raise
    decide (as.length = i.n) && Tspfam.permTest Params.tspCheckCmp i.n as
  else Tspfam.permTest Params.tspCheckCmp as.length as

/-- the checker as written: the width source is an extracted token (`false` = width of the action tensor) -/
def check (i : Inst) (as : List Nat) : Bool := checkWith Params.tspCheckWidthFromInst i as

end Rl4co.Tsp
