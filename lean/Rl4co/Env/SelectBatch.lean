/-
Batched form of the selection environments and the decoding loop that drives them.  No Mathlib.

A batch is `B` rows; row-indexed tensors are functions of the row index (as everywhere in these
models).  `stepRows` is the row-wise map of the per-instance `step`; `Flp.batchStep` and
`Mcp.batchDone` mirror the two places where the real batched `_step` is NOT written row by row:

* `FLPEnv._step`: `chosen.nonzero(as_tuple=True)[1].view(batch_size, -1)` flattens the column indices
  of the chosen entries of ALL rows (row-major) and cuts the flat list into `B` equal pieces; row `r`
  reads the `r`-th piece.  That is row `r`'s own index list only if all rows hold equally many chosen
  locations.
* `MCPEnv._step`: `td["i"] >= td["n_sets_to_choose"] - 1` compares `i` of shape `[B]` with a quota of
  shape `[B, 1]` (the bundled generator's): the result is a `[B, B]` matrix, entry `[r][c]` comparing
  the counter of row `c` with the quota of row `r`; the decoding loop reduces it with `.all()`.

`Loop` is `while not td["done"].all(): td = env.step(policy(td))` with mask-confined actions.
-/
import Rl4co.Env.Flp
import Rl4co.Env.Mcp

namespace Rl4co

/-- a batch of `B` rows: instance and state per row -/
structure Bat (I S : Type) where
  B    : Nat
  inst : Nat → I
  st   : Nat → S

namespace Bat
variable {I S : Type}

/-- `env.reset(td)` -/
def reset (e : Env I S) (B : Nat) (inst : Nat → I) : Bat I S := ⟨B, inst, fun r => e.reset (inst r)⟩

/-- `td["done"].all()` -/
def allDone (e : Env I S) (b : Bat I S) : Bool := (List.range b.B).all (fun r => e.done (b.inst r) (b.st r))

/-- row-wise map of the per-instance step -/
def stepRows (e : Env I S) (b : Bat I S) (acts : Nat → Nat) : Bat I S :=
  { b with st := fun r => e.step (b.inst r) (b.st r) (acts r) }

/-- every row's action is in range and offered by that row's mask -/
def Admitted (e : Env I S) (b : Bat I S) (acts : Nat → Nat) : Prop :=
  ∀ r, r < b.B → acts r < e.nAct (b.inst r) ∧ e.mask (b.inst r) (b.st r) (acts r) = true

/-- the decoding loop: all rows are stepped (finished ones too) while some row is unfinished -/
inductive Loop (e : Env I S) : Bat I S → List (Nat → Nat) → Bat I S → Prop
  | stop {b : Bat I S} : allDone e b = true → Loop e b [] b
  | step {b b' : Bat I S} {acts : Nat → Nat} {steps : List (Nat → Nat)} :
      allDone e b = false → Admitted e b acts → Loop e (stepRows e b acts) steps b' →
      Loop e b (acts :: steps) b'

/-- the actions row `r` executed -/
def rowActs (steps : List (Nat → Nat)) (r : Nat) : List Nat := steps.map (fun a => a r)

end Bat

namespace Flp

/-- `chosen.nonzero(as_tuple=True)[1]` over the whole batch (row-major) -/
def flatIdx (B : Nat) (n : Nat → Nat) (chosen : Nat → Nat → Bool) : List Nat :=
  (List.range B).flatMap (fun r => chosenIdx (n r) (chosen r))

/-- `.view(batch_size, -1)[r]` -/
def viewRow (B : Nat) (flat : List Nat) (r : Nat) : List Nat :=
  (flat.drop (r * (flat.length / B))).take (flat.length / B)

/-- the batched `_step` as written: `distances` of row `r` is the minimum over the `r`-th piece of the
flattened index list (all other entries are row-local) -/
def batchStep (b : Bat Inst State) (acts : Nat → Nat) : Bat Inst State :=
  let chosen := fun r => upd (b.st r).chosen (acts r) true
  let flat := flatIdx b.B (fun r => (b.inst r).n) chosen
  { b with st := fun r =>
      { chosen := chosen r
        done := Params.flpDoneCmp.eval (b.st r).i ((b.inst r).quota - Params.flpDoneOffset)
        dist := fun j => minList ((viewRow b.B flat r).map
                  (fun c => gathered Params.flpStepGatherDim (b.inst r) c j))
        i := (b.st r).i + 1 } }

end Flp

namespace Mcp

/-- `done = td["i"] >= td["n_sets_to_choose"] - 1` with shapes `[B]` and `[B,1]`: entry `[r][c]` -/
def batchDone (b : Bat Inst State) (r c : Nat) : Bool :=
  Params.mcpDoneCmp.eval (b.st c).i ((b.inst r).quota - Params.mcpDoneOffset)

/-- the loop guard `td["done"].all()` over the `[B,B]` matrix produced by stepping `b` -/
def batchAllDone (b : Bat Inst State) : Bool :=
  (List.range b.B).all (fun r => (List.range b.B).all (fun c => batchDone b r c))

end Mcp
end Rl4co
