/-
Model of `rl4co/envs/routing/cvrp/env.py:CVRPEnv` for ONE instance (one batch row).
Mirrors `_reset`, `_step`, `get_action_mask`, `_get_reward`, `check_solution_validity`
statement by statement.  Quantities are `Int` ticks; node 0 is the depot; `demand j` is the
demand of node `j ≥ 1` (the code's `td["demand"][j-1]`).  No Mathlib.
-/
import Rl4co.Core.Basic
import Rl4co.Core.Tour
import Rl4co.Core.Sort
import Rl4co.Generated.Params

namespace Rl4co.Cvrp

structure Inst where
  n      : Nat                -- number of customers (`td["demand"].size(-1)`)
  cap    : Int                -- `vehicle_capacity` (1.0 after normalisation)
  demand : Nat → Int          -- node-indexed (1..n)
  D      : Nat → Nat → Int    -- distances between nodes (0 = depot)

structure State where
  cur  : Nat                  -- `current_node`
  used : Int                  -- `used_capacity`
  vis  : Nat → Bool           -- `visited` (n+1 entries)

/-- `_reset` -/
def reset (_ : Inst) : State := { cur := 0, used := 0, vis := fun _ => false }

/-- `exceeds_cap | visited[1:]` negated: customer `j` is advertised. -/
def locOk (i : Inst) (s : State) (j : Nat) : Bool :=
  !(s.vis j) && !(Params.cvrpMaskCapCmp.eval (i.demand j + s.used) i.cap)

/-- `(mask_loc == 0).int().sum(-1) > 0` -/
def anyLoc (i : Inst) (s : State) : Bool := (List.range i.n).any (fun k => locOk i s (k + 1))

/-- `get_action_mask` (True = feasible). -/
def mask (i : Inst) (s : State) (a : Nat) : Bool :=
  if a = 0 then !(s.cur == 0 && anyLoc i s) else locOk i s a

/-- `_step`: `clamp(a-1, 0, n-1)` selects the demand, which is multiplied by `[a ≠ 0]`. -/
def step (i : Inst) (s : State) (a : Nat) : State :=
  let sel := i.demand (min (a - 1) (i.n - 1) + 1)
  { cur := a
    used := if a ≠ 0 then s.used + sel else 0
    vis := upd s.vis a true }

/-- `done = visited.sum(-1) == visited.size(-1)` -/
def done (i : Inst) (s : State) : Bool :=
  Params.cvrpDoneCmp.evalNat (cnt (i.n + 1) s.vis) (i.n + 1)

def env : Env Inst State where
  reset := reset
  nAct i := i.n + 1
  mask := mask
  step := step
  done := done

/-- `_get_reward`: `-get_tour_length([depot] ++ locs[actions])`. -/
def reward (i : Inst) (as : List Nat) : Int := - rollLen i.D (0 :: as)

/-- running load of the checker: depot carries `-cap`, clamp at 0, compare with `cap + tol`. -/
def checkLoads (i : Inst) (tol : Int) : Int → List Nat → Bool
  | _, [] => true
  | used, a :: as =>
    let d := if a = 0 then - i.cap else i.demand a
    let u := used + d
    let u := if u < 0 then 0 else u
    Params.cvrpCheckCapCmp.eval u (i.cap + tol) && checkLoads i tol u as

/-- `check_solution_validity` (True = no assertion raised). `tol` is the tick value of `1e-5`. -/
def check (i : Inst) (tol : Int) (as : List Nat) : Bool :=
  sortedTest i.n as && checkLoads i tol 0 as

end Rl4co.Cvrp
