/-
Model of `rl4co/envs/routing/mtvrp/env.py:MTVRPEnv` for ONE instance (one batch row), mirroring
`_reset`, `_step`, `get_action_mask`, `_get_reward`, `check_solution_validity` statement by statement.
One model covers all 16 variants: the variant is the valuation of the instance's feature data
(`openR`, `limit = none | some l`, `late j = none | some l`, backhaul demands zero or not).

Conventions
* quantities are `Int` ticks; node 0 is the depot; all node-indexed data (`dL`, `dB`, `early`, `late`,
  `service`) include the depot at index 0, exactly like the code's `[B, n+1]` tensors;
* `float("inf")` (absent distance limit / absent time window) is `none : Option Int`; comparisons
  against it follow IEEE (`x < inf`, `x <= inf` true; `x > inf`, `x >= inf` false for finite `x`);
* `D a b` is the Euclidean distance the code computes from coordinates, `T a b` the travel time
  `D a b / speed` (the harness supplies both exactly; `speed = 1` iff `T = D`).  Lengths use `D`, clocks
  (mask, `_step`, and the checker's replay and static assert) use `T`.
No Mathlib.
-/
import Rl4co.Core.Basic
import Rl4co.Core.Tour
import Rl4co.Core.Sort
import Rl4co.Generated.Params

namespace Rl4co.Mtvrp

/-- comparison of a finite value with a possibly infinite bound (`none` = `+inf`) -/
def cmpInf (c : Cmp) (x : Int) : Option Int → Bool
  | some y => c.eval x y
  | none => match c with
    | .lt | .le | .ne => true
    | _ => false

structure Inst where
  n       : Nat                 -- number of customers
  cap     : Int                 -- `vehicle_capacity`
  dL      : Nat → Int           -- `demand_linehaul` (index 0 = depot)
  dB      : Nat → Int           -- `demand_backhaul`
  openR   : Bool                -- `open_route`
  limit   : Option Int          -- `distance_limit` (`none` = inf)
  early   : Nat → Int           -- `time_windows[..., 0]`
  late    : Nat → Option Int    -- `time_windows[..., 1]` (`none` = inf)
  service : Nat → Int           -- `service_time`
  D       : Nat → Nat → Int     -- distances
  T       : Nat → Nat → Int     -- travel times `D / speed`

structure State where
  cur   : Nat                   -- `current_node`
  len   : Int                   -- `current_route_length`
  time  : Int                   -- `current_time`
  usedL : Int                   -- `used_capacity_linehaul`
  usedB : Int                   -- `used_capacity_backhaul`
  vis   : Nat → Bool            -- `visited` (n+1 entries)

/-- `_reset` -/
def reset (_ : Inst) : State :=
  { cur := 0, len := 0, time := 0, usedL := 0, usedB := 0, vis := fun _ => false }

/-- `arrival_time = current_time + d_ij / speed` -/
def arrival (i : Inst) (s : State) (j : Nat) : Int := s.time + i.T s.cur j

/-- `max(arrival_time, early_tw) + service_time + d_j0 / speed` (before `* ~open_route`) -/
def retTime (i : Inst) (s : State) (j : Nat) : Int :=
  max (arrival i s j) (i.early j) + i.service j + i.T j 0

/-- `current_route_length + d_ij + d_j0 * ~open_route` -/
def lenVia (i : Inst) (s : State) (j : Nat) : Int :=
  s.len + i.D s.cur j + (if i.openR then 0 else i.D j 0)

/-- `(demand_linehaul * ~visited).sum(-1) > 0` (sum over all n+1 nodes) -/
def lhMissing (i : Inst) (s : State) : Bool :=
  decide (0 < ((List.range (i.n + 1)).map (fun k => if s.vis k then 0 else i.dL k)).sum)

/-- `meets_demand_constraint[j]` -/
def meetsDemand (i : Inst) (s : State) (j : Nat) : Bool :=
  (lhMissing i s
    && !(Params.mtvrpMaskCapLCmp.eval (i.dL j + s.usedL) i.cap)
    && !(decide (0 < i.dB s.cur))
    && decide (0 < i.dL j))
  || (!(Params.mtvrpMaskCapBCmp.eval (i.dB j + s.usedB) i.cap) && decide (0 < i.dB j))

/-- `can_visit[j]` before the depot entry is overwritten -/
def canVisit (i : Inst) (s : State) (j : Nat) : Bool :=
  cmpInf Params.mtvrpMaskTwCmp (arrival i s j) (i.late j)
  && cmpInf Params.mtvrpMaskDepotCmp (if i.openR then 0 else retTime i s j) (i.late 0)
  && meetsDemand i s j
  && !(cmpInf Params.mtvrpMaskLimitCmp (lenVia i s j) i.limit)
  && !(s.vis j)

/-- "some customer is offered" (used by the theorems; `depotRule_eq` ties it to the code's count) -/
def anyCust (i : Inst) (s : State) : Bool := (List.range i.n).any (fun k => canVisit i s (k + 1))

/-- `can_visit[:, 1:].sum(-1)`: number of customers offered -/
def numCust (i : Inst) (s : State) : Nat := ((List.range i.n).filter (fun k => canVisit i s (k + 1))).length

/-- the depot entry `can_visit[:, 0] = ~((curr_node == 0) & (can_visit[:, 1:].sum(-1) > 0))`; negation and
both comparison operators are extracted from the source -/
def depotRule (i : Inst) (s : State) : Bool :=
  let b := Params.mtvrpDepotRuleCurCmp.evalNat s.cur 0 && Params.mtvrpDepotRuleAnyCmp.evalNat (numCust i s) 0
  if Params.mtvrpDepotRuleNegated then !b else b

/-- `get_action_mask` (True = feasible) -/
def mask (i : Inst) (s : State) (a : Nat) : Bool :=
  if a = 0 then depotRule i s else canVisit i s a

/-- the multiplier `(curr_node[:, None] != 0)` that resets the per-route bookkeeping at the depot -/
def moved (a : Nat) : Bool := Params.mtvrpStepGuardCmp.evalNat a 0

/-- the leg's contribution to the clock in `_step`: `distance / speed` -/
def legTime (i : Inst) (a b : Nat) : Int := if Params.mtvrpStepClockDivSpeed then i.T a b else i.D a b

/-- `_step` -/
def step (i : Inst) (s : State) (a : Nat) : State :=
  { cur := a
    len := if moved a then s.len + i.D s.cur a else 0
    time := if moved a then max (s.time + legTime i s.cur a) (i.early a) + i.service a else 0
    usedL := if moved a then s.usedL + i.dL a else 0
    usedB := if moved a then s.usedB + i.dB a else 0
    vis := upd s.vis a true }

/-- `done = visited.sum(-1) == visited.size(-1)` -/
def done (i : Inst) (s : State) : Bool :=
  Params.mtvrpDoneCmp.evalNat (cnt (i.n + 1) s.vis) (i.n + 1)

def env : Env Inst State where
  reset := reset
  nAct i := i.n + 1
  mask := mask
  step := step
  done := done

/-- `distances * ~((go_to == 0) & open_route)`: the leg `a → b` as charged by `_get_reward`; which end of the
leg is compared with the depot is extracted from the source -/
def charged (i : Inst) : Nat → Nat → Int := fun a b =>
  if (if Params.mtvrpRewardFreeLegIsTo then b = 0 else a = 0) ∧ i.openR = true then 0 else i.D a b

/-- `torch.roll(xs, shift, dims=1)`: negative shifts rotate to the left -/
def rollBy (shift : Int) (xs : List Nat) : List Nat :=
  if shift ≤ 0 then xs.rotateLeft (-shift).toNat else xs.rotateRight shift.toNat

/-- `_get_reward`: `go_from = [0] ++ actions`, `go_to = roll(go_from, shift)` (shift extracted), masked sum,
negated -/
def reward (i : Inst) (as : List Nat) : Int :=
  - (List.zipWith (charged i) (0 :: as) (rollBy Params.mtvrpRewardRollShift (0 :: as))).sum

/-! ### `check_solution_validity` -/

/-- `x >= 0` for a possibly infinite `x` -/
def geZeroInf : Option Int → Bool
  | none => true
  | some l => decide (0 ≤ l)

/-- the static asserts on the instance data (distance limit, time windows, service times) -/
def checkStatic (i : Inst) : Bool :=
  geZeroInf i.limit &&
  (List.range (i.n + 1)).all (fun k =>
    decide (0 ≤ i.early k) && geZeroInf (i.late k) && decide (0 ≤ i.service k)
    && cmpInf .lt (i.early k) (i.late k)
    && cmpInf .le (i.early k + i.T k 0 + i.service k) (i.late 0))

/-- the replay loop over the actions: route length (reset at the depot, the leg into the depot not
counted for open routes) and clock (`dist / speed`; the depot deadline is tested for open routes as well) -/
def checkReplay (i : Inst) : Nat → Int → Int → List Nat → Bool
  | _, _, _, [] => true
  | cur, t, len, a :: as =>
    let dist := i.D cur a
    let len1 := len + (if i.openR && Params.mtvrpCheckFreeLegCmp.evalNat a 0 then 0 else dist)
    let t1 := max (t + (if Params.mtvrpCheckClockDivSpeed then i.T cur a else dist)) (i.early a)
    cmpInf Params.mtvrpCheckLimitCmp len1 i.limit
    && cmpInf Params.mtvrpCheckTwCmp t1 (i.late a)
    && checkReplay i a (if a = 0 then 0 else t1 + i.service a) (if a = 0 then 0 else len1) as

/-- `_check_c1(feature)` on one row: running load (reset at the depot) against the row's own capacity
(`used_cap : [B]` vs `vehicle_capacity.squeeze(-1) : [B]`, element-wise) -/
def checkC1 (cap : Int) (dem : Nat → Int) : Int → List Nat → Bool
  | _, [] => true
  | used, a :: as =>
    let u := (if Params.mtvrpCheckC1GuardCmp.evalNat a 0 then used else 0) + dem a
    Params.mtvrpCheckCapCmp.eval u cap && checkC1 cap dem u as

/-- the checker on one row, the running loads being compared with the capacity `cap` -/
def checkWith (cap : Int) (i : Inst) (as : List Nat) : Bool :=
  sortedTest i.n as && checkStatic i && checkReplay i 0 0 0 as
  && checkC1 cap i.dL 0 as && checkC1 cap i.dB 0 as

/-- `check_solution_validity` on a batch of one row (True = no assertion raised) -/
def check (i : Inst) (as : List Nat) : Bool := checkWith i.cap i as

/-- `check_solution_validity` on a batch (every assert is `.all()` over the batch): row `r` is paired
with entry `r` of the capacity column -/
def checkBatch (rows : List (Inst × List Nat)) : Bool :=
  (List.zipWith (fun r c => checkWith c r.1 r.2) rows (rows.map (fun r' => r'.1.cap))).all id

end Rl4co.Mtvrp

/-! ### well-formedness predicates used by the theorems (decidable; also evaluated by the harness on
every instance it uses) -/
namespace Rl4co.Mtvrp

/-- customer `j` can be served on its own by a fresh vehicle standing at the depot (deadlines may be met
with equality, as in the problem statement) -/
def servable (i : Inst) (j : Nat) : Bool :=
  cmpInf .le (i.T 0 j) (i.late j)
  && cmpInf .le (if i.openR then 0 else max (i.T 0 j) (i.early j) + i.service j + i.T j 0) (i.late 0)
  && ((decide (0 < i.dL j) && decide (i.dL j ≤ i.cap)) || (decide (0 < i.dB j) && decide (i.dB j ≤ i.cap)))
  && cmpInf .le (i.D 0 j + (if i.openR then 0 else i.D j 0)) i.limit

/-- demands are non-negative, the depot has none, no customer is both linehaul and backhaul -/
def demandsOk (i : Inst) : Bool :=
  decide (i.dL 0 = 0) && decide (i.dB 0 = 0) &&
  (List.range (i.n + 1)).all (fun k =>
    decide (0 ≤ i.dL k) && decide (0 ≤ i.dB k) && (decide (i.dL k = 0) || decide (i.dB k = 0)))

/-- well-formed instance -/
def wf (i : Inst) : Bool :=
  decide (0 ≤ i.cap) && demandsOk i && (List.range i.n).all (fun k => servable i (k + 1))

end Rl4co.Mtvrp

/-! ### `select_start_nodes` (multi-start decoding) and `load_data` -/
namespace Rl4co.Mtvrp

/-- `MTVRPEnv.select_start_nodes`: `arange(num_starts).repeat_interleave(B) % num_loc + 1`, entry `idx` of the
result (the expanded batch is k-major: copy `s` of instance `b` sits at row `s * B + b`).  `n` = number of
customers, `B` = batch size. -/
def startNode (n B idx : Nat) : Nat :=
  (idx / B) % (if Params.mtvrpStartModIsNumLoc then n else n + 1) + Params.mtvrpStartOffset

/-- all `num_starts * B` entries -/
def startNodes (n B k : Nat) : List Nat := (List.range (k * B)).map (startNode n B)

/-- `load_data(scale)`: a demand as the fraction `numerator / denominator` it is stored as after loading:
`demand / capacity_original` with `scale=True`, unchanged otherwise -/
def loadDemand (scale : Bool) (capOrig d : Int) : Int × Int := if scale then (d, capOrig) else (d, 1)

/-- the instance with both demand kinds and the capacity multiplied by `c` (a change of the demand unit) -/
def scaleDem (c : Int) (i : Inst) : Inst :=
  { i with dL := fun j => c * i.dL j, dB := fun j => c * i.dB j, cap := c * i.cap }

end Rl4co.Mtvrp

/-! ### the checker with its three known omissions repaired (each repair can be switched on separately) -/
namespace Rl4co.Mtvrp

/-- repair 2: for open routes the depot deadline does not bind (the vehicle never drives back) -/
def relaxDepot (i : Inst) : Inst :=
  if i.openR then { i with late := fun j => if j = 0 then none else i.late j } else i

/-- repair 1: the test "no linehaul customer after a backhaul customer", per route -/
def orderTest (i : Inst) (as : List Nat) : Bool :=
  (routes as).all (fun r => decide (r.Pairwise (fun a b => ¬ (0 < i.dB a ∧ 0 < i.dL b))))

structure Repairs where
  order     : Bool   -- test the linehaul / backhaul order
  openDepot : Bool   -- do not apply the depot deadline to open routes
  finalLeg  : Bool   -- replay the way back of the trailing route as well (append a depot visit)

/-- `check_solution_validity` with the selected repairs; `checkR ⟨false, false, false⟩ = check` -/
def checkR (fx : Repairs) (i : Inst) (as : List Nat) : Bool :=
  (if fx.order then orderTest i as else true)
  && check (if fx.openDepot then relaxDepot i else i) (if fx.finalLeg then as ++ [0] else as)

end Rl4co.Mtvrp

namespace Rl4co.Mtvrp

/-- the stored instance whose `load_data(scale=True)` image is `loaded`: `load_data` divides both demand kinds by
`capacity_original = k` and leaves everything else — `vehicle_capacity` included — as stored -/
def storedOf (k : Int) (loaded : Inst) : Inst := { scaleDem k loaded with cap := loaded.cap }

end Rl4co.Mtvrp
