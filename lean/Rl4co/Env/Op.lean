/-
Model of `rl4co/envs/routing/op/env.py:OPEnv` (orienteering) for ONE instance (one batch row).
Mirrors `_reset`, `_step`, `get_action_mask`, `_get_reward`, `check_solution_validity` statement by
statement.  Quantities are `Int` ticks; node 0 is the depot; `prize j` is the prize of customer
`j ≥ 1` (`td["prize"][j-1]`; `_reset` pads a 0 for the depot).

`_reset` pre-computes `max_length[j] = L − ‖depot − loc_j‖ − 1e-6` in float32 with a non-dyadic
constant; that row is read back from the real reset state and enters the model as the data `budget`
(DESIGN §3.2).  The checker re-adds the distance, `1e-6` and `1e-5` in float32; its per-node bound
enters as the data `cbound`.  No Mathlib.
-/
import Rl4co.Core.Basic
import Rl4co.Core.Tour
import Rl4co.Generated.Params
import Rl4co.Env.OpShared

namespace Rl4co.Op
open Rl4co.Prize

structure Inst where
  n      : Nat                -- number of customers
  L      : Int                -- `td["max_length"]` as supplied: the length budget of the problem
  D      : Nat → Nat → Int    -- distances between nodes (0 = depot)
  prize  : Nat → Int          -- node-indexed (1..n)
  budget : Nat → Int          -- reset state's `max_length[j]`, j = 0..n  (≈ L − D j 0 − 1e-6)
  cbound : Nat → Int          -- checker's `max_length[j] + D 0 j + 1e-6 + 1e-5`, j = 0..n  (≈ L + 1e-5: the checker re-adds distance and 1e-6)

structure State where
  cur  : Nat                  -- `current_node`
  len  : Int                  -- `tour_length`
  tot  : Int                  -- `current_total_prize`
  vis  : Nat → Bool           -- `visited` (n+1 entries)
  i    : Nat                  -- step counter `i`
  done : Bool                 -- `done` written by the last `_step` (False after reset)

/-- `_reset` -/
def reset (_ : Inst) : State :=
  { cur := 0, len := 0, tot := 0, vis := fun _ => false, i := 0, done := false }

/-- `exceeds_length = tour_length + ‖locs − current_loc‖ > max_length` -/
def exceeds (i : Inst) (s : State) (j : Nat) : Bool :=
  Params.opMaskLenCmp.eval (s.len + i.D s.cur j) (i.budget j)

/-- `~(visited | visited[..., 0:1] | exceeds_length)` -/
def baseMask (i : Inst) (s : State) (j : Nat) : Bool :=
  !(s.vis j || s.vis 0 || exceeds i s j)

/-- `get_action_mask` (True = feasible); `action_mask[..., 0] = 1` forces the depot open. -/
def mask (i : Inst) (s : State) (a : Nat) : Bool :=
  if a = 0 then (Params.opDepotForcedOpen || baseMask i s 0) else baseMask i s a

/-- `_step` -/
def step (i : Inst) (s : State) (a : Nat) : State :=
  { cur := a
    len := s.len + i.D s.cur a
    tot := s.tot + padded i.prize a
    vis := upd s.vis a true
    i := s.i + 1
    done := (a == 0) && Params.opDoneCmp.evalNat s.i 0 }

def done (_ : Inst) (s : State) : Bool := s.done

def env : Env Inst State where
  reset := reset
  nAct i := i.n + 1
  mask := mask
  step := step
  done := done

/-- the single-column test `actions.size(-1) == 1` at the top of `_get_reward` -/
def rewardSpecial (as : List Nat) : Bool :=
  Params.opRewardSpecialCmp.evalNat as.length Params.opRewardSpecialWidth

/-- `_get_reward`: collected prize; a batch whose action tensor has a single column returns 0 (after
asserting that the column is all depot). -/
def reward (i : Inst) (as : List Nat) : Int :=
  if rewardSpecial as then 0 else gatherSum i.prize as

/-- the assertion `(actions == 0).all()` inside the single-column special case of `_get_reward` -/
def rewardAssert (as : List Nat) : Bool := !(rewardSpecial as) || as.all (· == 0)

/-- `_reset`'s pre-computation `max_length − ‖depot − loc_j‖ − 1e-6` BEFORE float32 rounding, scaled by the
denominator of the extracted constant: `den · (L − D j 0) + num · U`, where `U` is the integer value of
`1.0` in the instance's unit and `(num, den) = Params.opResetMargin` (= −1e-6). -/
def budgetSpecScaled (i : Inst) (U : Int) (j : Nat) : Int :=
  Params.opResetMargin.2 * (i.L - i.D j 0) + Params.opResetMargin.1 * U

/-- the read-back budgets are the pre-computation up to a rounding error of `rho` units -/
def Precomp (i : Inst) (U rho : Int) : Prop :=
  ∀ j, 1 ≤ j → j ≤ i.n →
    budgetSpecScaled i U j - Params.opResetMargin.2 * rho ≤ Params.opResetMargin.2 * i.budget j ∧
    Params.opResetMargin.2 * i.budget j ≤ budgetSpecScaled i U j + Params.opResetMargin.2 * rho

/-- executable version (the harness evaluates it on every read-back instance) -/
def precomp (i : Inst) (U rho : Int) : Bool :=
  (List.range i.n).all (fun k =>
    decide (budgetSpecScaled i U (k + 1) - Params.opResetMargin.2 * rho ≤ Params.opResetMargin.2 * i.budget (k + 1)) &&
    decide (Params.opResetMargin.2 * i.budget (k + 1) ≤ budgetSpecScaled i U (k + 1) + Params.opResetMargin.2 * rho))

/-- `check_solution_validity` (True = no assertion raised, no gather out of range). -/
def check (i : Inst) (as : List Nat) : Bool :=
  as.all (fun a => decide (a ≤ i.n)) &&
  adjOk (sortNat as) &&
  (List.range (i.n + 1)).all (fun j => Params.opCheckLenCmp.eval (rollLen i.D as) (i.cbound j))

end Rl4co.Op

namespace Rl4co.Op
open Rl4co.Prize

/-- `check_solution_validity` on a BATCH whose action tensor has a single column (`actions.size(-1) == 1`).
Since upstream fix 9be001b the locations are gathered with `squeeze=False`, so the step dimension of
size one is kept and `get_tour_length` rolls over it: the length every row is tested with is the
distance of its selected node to itself.  (Before the fix `gather_by_index` squeezed the step
dimension and the roll ran over the BATCH: every row was tested with the perimeter of the polygon
through the rows' nodes.)  `rows` = (instance, selected node) per row.  The duplicate test is vacuous
for one column. -/
def checkSingleColumnBatch (rows : List (Inst × Nat)) : Bool :=
  rows.all (fun ia => decide (ia.2 ≤ ia.1.n)) &&
  rows.all (fun ia => (List.range (ia.1.n + 1)).all (fun j =>
    Params.opCheckLenCmp.eval (ia.1.D ia.2 ia.2) (ia.1.cbound j)))

end Rl4co.Op

namespace Rl4co.Op

/-- the checker's bound `max_length + dist + 1e-6 + 1e-5` re-derived from the reset state is `L + 1e-5`
(extracted constant `Params.opCheckTol`) up to a rounding error of `rho` units; `U` = value of 1.0 -/
def CheckPrecomp (i : Inst) (U rho : Int) : Prop :=
  ∀ j, j ≤ i.n →
    Params.opCheckTol.2 * i.L + Params.opCheckTol.1 * U - Params.opCheckTol.2 * rho ≤ Params.opCheckTol.2 * i.cbound j ∧
    Params.opCheckTol.2 * i.cbound j ≤ Params.opCheckTol.2 * i.L + Params.opCheckTol.1 * U + Params.opCheckTol.2 * rho

/-- executable version (evaluated by the harness on every read-back instance) -/
def checkPrecomp (i : Inst) (U rho : Int) : Bool :=
  (List.range (i.n + 1)).all (fun j =>
    decide (Params.opCheckTol.2 * i.L + Params.opCheckTol.1 * U - Params.opCheckTol.2 * rho ≤ Params.opCheckTol.2 * i.cbound j) &&
    decide (Params.opCheckTol.2 * i.cbound j ≤ Params.opCheckTol.2 * i.L + Params.opCheckTol.1 * U + Params.opCheckTol.2 * rho))

end Rl4co.Op
