/-
C01 for MDCPDP (row stepped on its own, well-formed hand-supplied instance).

What is proved for every instance and every mask-confined finished episode (`core_of_run`): only
nodes of the instance are visited, every customer exactly once, every delivery after its pickup,
the number of orders on board stays within `[0, capacity of depot 0]` after every prefix, and every
depot is entered with an empty vehicle (so an order is delivered by the vehicle that picked it up).

The full problem statement (`Spec.Mdcpdp.Feasible`: each vehicle limited by the capacity of its OWN
depot and returning to its OWN depot) is false of the code, because `current_depot` is never updated
when a new depot's vehicle starts: `feasible_of_run_counterexample` (capacity of depot 0 applied to the
vehicle of depot 1) and `feasible_of_run_uniform_counterexample` (with equal capacities: the vehicle of
depot 1 ends its tour at node 0).
-/
import Rl4co.Proofs.Mdcpdp
import Rl4co.Spec.Mdcpdp

namespace Rl4co.Mdcpdp
open Rl4co.Spec.Mdcpdp

/-- the problem instance the environment instance stands for -/
def problemOf (i : Inst) : Problem :=
  { K := i.K, h := i.h, cap := i.cap, D := i.D, openMode := i.openMode, wNum := i.wNum, wDen := i.wDen }

theorem carryOf_snoc (p : Problem) (hist : List Nat) (a : Nat) :
    carryOf p (hist ++ [a]) =
      carryOf p hist + (if p.isPickup a then 1 else 0) - (if p.isDelivery a then 1 else 0) := by
  simp only [carryOf, List.filter_append, List.length_append]
  cases h1 : p.isPickup a <;> cases h2 : p.isDelivery a <;>
    simp [h1, h2] <;> omega

/-- history invariant -/
structure HInv (i : Inst) (s : State) (hist : List Nat) : Prop where
  inv   : Inv i s
  range : ∀ a ∈ hist, a < i.N
  vis   : ∀ j, i.K ≤ j → j < i.N → (s.avail j = false ↔ j ∈ hist)
  nodup : ∀ j, i.K ≤ j → hist.count j ≤ 1
  carry : s.carry = carryOf (problemOf i) hist
  prec  : ∀ k a, hist[k]? = some a → (problemOf i).isDelivery a = true → (a - i.h) ∈ hist.take k
  load  : ∀ k, 0 ≤ carryOf (problemOf i) (hist.take k) ∧ carryOf (problemOf i) (hist.take k) ≤ i.cap 0
  empty : ∀ k d, hist[k]? = some d → d < i.K → carryOf (problemOf i) (hist.take k) = 0

theorem hinv_reset (i : Inst) (hwf : WF i) : HInv i (reset i) [] := by
  have hc := hwf.cap0
  refine ⟨inv_reset i hwf, by simp, ?_, by simp, by simp [reset, carryOf], by simp, ?_, by simp⟩
  · intro j _ _; simp [reset]
  · intro k; simp [carryOf]; omega

theorem take_snoc_le {α : Type} (l : List α) (a : α) (k : Nat) (h : k ≤ l.length) :
    (l ++ [a]).take k = l.take k := List.take_append_of_le_length h

theorem take_snoc_gt {α : Type} (l : List α) (a : α) (k : Nat) (h : l.length < k) :
    (l ++ [a]).take k = l ++ [a] := List.take_of_length_le (by simp; omega)

theorem getElem?_snoc {α : Type} (l : List α) (a x : α) (k : Nat) (h : (l ++ [a])[k]? = some x) :
    (k < l.length ∧ l[k]? = some x) ∨ (k = l.length ∧ x = a) := by
  by_cases hk : k < l.length
  · rw [List.getElem?_append_left hk] at h; exact Or.inl ⟨hk, h⟩
  · rw [List.getElem?_append_right (by omega)] at h
    by_cases hk2 : k - l.length = 0
    · rw [hk2] at h; simp at h; exact Or.inr ⟨by omega, h.symm⟩
    · have : ([a] : List α)[k - l.length]? = none := by
        apply List.getElem?_eq_none; simp; omega
      rw [this] at h; cases h

theorem hinv_step {i : Inst} (hwf : WF i) {s : State} {hist : List Nat} {a : Nat}
    (hh : HInv i s hist) (ha : a < i.N) (hm : s.mask a = true) :
    HInv i (step i s a) (hist ++ [a]) := by
  have hev := hwf.even
  have hk := hwf.kpos
  have hpd : i.pd = i.h + i.K := rfl
  have hi := hh.inv
  have hi' := inv_step hwf hi ha hm
  have hpick : (problemOf i).isPickup a = decide (i.K ≤ a ∧ a < i.pd) := by
    unfold Problem.isPickup problemOf Inst.pd
    apply decide_eq_decide.mpr
    simp only; omega
  have hdel : (problemOf i).isDelivery a = decide (i.pd ≤ a) := by
    unfold Problem.isDelivery Problem.N problemOf Inst.pd
    apply decide_eq_decide.mpr
    simp only; omega
  have hcarry : (step i s a).carry = carryOf (problemOf i) (hist ++ [a]) := by
    rw [carryOf_snoc, step_carry, hh.carry, hpick, hdel]
    by_cases h1 : i.K ≤ a ∧ a < i.pd <;> by_cases h2 : i.pd ≤ a <;> simp [h1, h2]
  refine ⟨hi', ?_, ?_, ?_, hcarry, ?_, ?_, ?_⟩
  · intro b hb
    rcases List.mem_append.mp hb with hb | hb
    · exact hh.range b hb
    · simp at hb; subst hb; exact ha
  · intro j h1 h2
    rw [step_avail, upd_apply, List.mem_append]
    by_cases hja : j = a
    · subst hja; simp
    · simp only [hja, if_false, List.mem_singleton, or_false]
      exact hh.vis j h1 h2
  · intro j hj
    rw [List.count_append]
    by_cases hja : a = j
    · subst hja
      have hav := (mask_customer hwf hi hj hm).1
      have hnot : a ∉ hist := by
        intro hmem
        have := (hh.vis a hj ha).mpr hmem
        rw [hav] at this; cases this
      simp [List.count_eq_zero_of_not_mem hnot]
    · have := hh.nodup j hj
      simp [hja]; omega
  · intro k x hkx hxd
    rcases getElem?_snoc hist a x k hkx with ⟨hk1, hk2⟩ | ⟨hk1, hk2⟩
    · rw [take_snoc_le hist a k (by omega)]
      exact hh.prec k x hk2 hxd
    · subst hk2 hk1
      rw [take_snoc_le hist x _ (Nat.le_refl _), List.take_length]
      -- the delivery was deliverable, so its pickup is no longer available, so it was visited
      rw [hdel] at hxd
      have hxpd : i.pd ≤ x := by simpa using hxd
      obtain ⟨_, htd, _⟩ := mask_customer hwf hi (by omega : i.K ≤ x) hm
      have := hi.tdDel (x - i.h) (by omega) (by omega)
      have e : x - i.h + i.h = x := by omega
      rw [e, htd] at this
      have hpk : s.avail (x - i.h) = false := by simpa using this.symm
      exact (hh.vis (x - i.h) (by omega) (by omega)).mp hpk
  · intro k
    by_cases hk1 : k ≤ hist.length
    · rw [take_snoc_le hist a k hk1]; exact hh.load k
    · rw [take_snoc_gt hist a k (by omega), ← hcarry]
      exact ⟨by rw [hi'.carryEq]; omega, hi'.carryCap⟩
  · intro k d hkd hdK
    rcases getElem?_snoc hist a d k hkd with ⟨hk1, hk2⟩ | ⟨hk1, hk2⟩
    · rw [take_snoc_le hist a k (by omega)]
      exact hh.empty k d hk2 hdK
    · subst hk2 hk1
      rw [take_snoc_le hist d _ (Nat.le_refl _), List.take_length, ← hh.carry]
      exact mask_depot_carry hwf hi hdK hm

/-- **C01 (MDCPDP), what holds.** -/
theorem core_of_run (i : Inst) (hwf : WF i) {as : List Nat} {s : State}
    (h : Run env i (env.reset i) as s) (hd : env.done i s = true) :
    CoreFeasible (problemOf i) (i.cap 0) as := by
  have hev := hwf.even
  have hh : HInv i s as :=
    Rl4co.inv_of_run (e := env) (i := i) (Inv := HInv i) (hinv_reset i hwf)
      (fun s hist a hi ha hm => hinv_step hwf hi ha hm) h
  have hN : (problemOf i).N = i.N := by simp [Problem.N, problemOf]; omega
  refine ⟨fun a ha => by rw [hN]; exact hh.range a ha, ?_, hh.prec, hh.load, hh.empty⟩
  intro j h1 h2
  rw [hN] at h2
  have h1' : i.K ≤ j := h1
  have hall := avail_of_done hh.inv hd j h2
  have hmem := (hh.vis j h1' h2).mp hall
  have := List.count_pos_iff.mpr hmem
  have := hh.nodup j h1'
  omega

/-- The statement one would like: finished mask-confined episodes satisfy the problem as stated. -/
def feasible_of_run_statement : Prop :=
  ∀ (i : Inst) (as : List Nat) (s : State), WF i → (∀ d, d < i.K → 1 ≤ i.cap d) →
    Run env i (env.reset i) as s → env.done i s = true → Feasible (problemOf i) as

/-- 2 depots with capacities 2 and 1, two orders -/
def cexCap : Inst :=
  { N := 6, K := 2, split0 := 4, KG := 2, cap := fun d => if d = 0 then 2 else 1,
    D := fun _ _ => 1, openMode := false, wNum := 0, wDen := 1 }

/-- The vehicle of depot 1 (capacity 1) picks up both orders: the mask applies depot 0's capacity. -/
theorem feasible_of_run_counterexample : ¬ feasible_of_run_statement := by
  intro h
  have := h cexCap [0, 0, 1, 2, 3, 4, 5] (exec env cexCap (env.reset cexCap) [0, 0, 1, 2, 3, 4, 5])
    ⟨by decide, by decide, by decide, by decide, by decide, by decide⟩
    (by intro d _; simp only [cexCap]; split <;> omega)
    ((run_iff_admitted _ _ _ _ _).2 ⟨by decide, rfl⟩) (by decide)
  revert this; unfold Feasible; decide

/-- 3 depots with equal capacities, one order -/
def cexHome : Inst :=
  { N := 5, K := 3, split0 := 4, KG := 3, cap := fun _ => 1,
    D := fun _ _ => 1, openMode := false, wNum := 0, wDen := 1 }

/-- Even with equal capacities: the vehicle started at depot 1 ends its tour at node 0. -/
theorem feasible_of_run_uniform_counterexample :
    ¬ (∀ (i : Inst) (as : List Nat) (s : State), WF i → (∀ d, d < i.K → i.cap d = i.cap 0) →
        Run env i (env.reset i) as s → env.done i s = true → Feasible (problemOf i) as) := by
  intro h
  have := h cexHome [0, 0, 1, 3, 4, 0, 2] (exec env cexHome (env.reset cexHome) [0, 0, 1, 3, 4, 0, 2])
    ⟨by decide, by decide, by decide, by decide, by decide, by decide⟩ (by intro d _; rfl)
    ((run_iff_admitted _ _ _ _ _).2 ⟨by decide, rfl⟩) (by decide)
  revert this; unfold Feasible; decide

/-- 2 depots, one order, start_mode "random" having drawn depot 1 -/
def cexStart : Inst :=
  { N := 4, K := 2, split0 := 3, KG := 2, cap := fun _ => 1,
    D := fun _ _ => 1, openMode := false, wNum := 0, wDen := 1, start := 1 }

/-- start_mode "random" (outside `WF`, which fixes `start = 0`): `_reset` sets `current_depot = 1` but forces
the first action to node 0; the finished episode `[0,2,3,1]` starts depot 1's vehicle while the vehicle of
depot 0 is still out. -/
theorem feasible_of_run_random_start_counterexample :
    ∃ s, Run env cexStart (env.reset cexStart) [0, 2, 3, 1] s ∧ env.done cexStart s = true ∧
      ¬ Feasible (problemOf cexStart) [0, 2, 3, 1] :=
  ⟨_, (run_iff_admitted _ _ _ _ _).2 ⟨by decide, rfl⟩, by decide, by unfold Feasible; decide⟩

/-- The bundled generator emits a capacity tensor whose last dimension (`genCapLen`, extracted from the
source) is not the number of depots as soon as there is more than one depot — and `_step` takes its
`num_depot` from that dimension. -/
theorem generator_shape_mismatch (G : Nat) (hG : 1 < G) : genCapLen G ≠ G := by
  rw [genCapLen_eq]; omega

/-- the reset state the real code builds from the bundled generator with `num_loc = 4`, `num_depot = 2`:
6 nodes, `to_deliver`/`current_length` sized for 2 depots, but `_step` sees `genCapLen 2 = 1` depot -/
def cexGen : Inst :=
  { N := 6, K := genCapLen 2, split0 := 4, KG := 2, cap := fun _ => 2,
    D := fun _ _ => 1, openMode := false, wNum := 0, wDen := 1 }

/-- the problem that instance stands for: 2 depots, 2 orders, vehicles of capacity 2 -/
def cexGenProblem : Problem :=
  { K := 2, h := 2, cap := fun _ => 2, D := fun _ _ => 1, openMode := false, wNum := 0, wDen := 1 }

/-- With the bundled generator (outside `WF`, which demands one capacity entry per depot) depot 1 is
treated as a pickup: the finished mask-confined episode `[0,1,2,3,5,4]` enters depot 1 while the vehicle
of depot 0 is out, and the pairing is shifted. -/
theorem feasible_of_run_generator_counterexample :
    ∃ s, Run env cexGen (env.reset cexGen) [0, 1, 2, 3, 5, 4] s ∧ env.done cexGen s = true ∧
      ¬ Feasible cexGenProblem [0, 1, 2, 3, 5, 4] :=
  ⟨_, (run_iff_admitted _ _ _ _ _).2 ⟨by decide, rfl⟩, by decide, by unfold Feasible; decide⟩

/-- Non-vacuity: the Spec accepts the corresponding solution in which the vehicle returns home. -/
example : Feasible (problemOf cexHome) [0, 0, 1, 3, 4, 1, 2] := by unfold Feasible; decide

end Rl4co.Mdcpdp
