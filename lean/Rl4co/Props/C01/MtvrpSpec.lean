/-
Spec-level sanity for the MTVRP family: lemmas that pin `Spec.Mtvrp.Feasible` / `objective` down independently of the
environment model, so that a vacuous or mis-stated Spec would be noticed: every well-formed instance HAS a feasible
solution (each customer on its own route), that solution is canonical (hence mask-reachable, C05), the objective is
non-negative and invariant under trailing depot padding.
-/
import Rl4co.Proofs.MtvrpCanon
import Rl4co.Props.C05.Mtvrp
import Rl4co.Props.C06.MtvrpRepaired

namespace Rl4co.Mtvrp
open Rl4co.Spec.Mtvrp

/-- every customer on a route of its own: `[1, 0, 2, 0, …, n, 0]` -/
def singles (n : Nat) : List Nat := join ((List.range n).map (fun k => [k + 1]))

theorem routes_singles (n : Nat) : routes (singles n) = (List.range n).map (fun k => [k + 1]) ++ [[]] := by
  apply routes_join
  intro r hr
  obtain ⟨k, _, rfl⟩ := List.mem_map.mp hr
  simp

theorem sum_indicator (j : Nat) : ∀ n : Nat,
    (((List.range n).map (fun k => [k + 1])).map (List.count j)).sum = if 1 ≤ j ∧ j ≤ n then 1 else 0
  | 0 => by simp; omega
  | n + 1 => by
    rw [List.range_succ, List.map_append, List.map_append, List.sum_append, sum_indicator j n]
    by_cases h : j = n + 1
    · subst h; simp
    · have : ¬ (n + 1 = j) := fun e => h e.symm
      simp [this]
      split <;> split <;> omega

/-- **the Spec is not vacuous: every well-formed instance has a feasible solution** (each customer served on its own
route), for every feature valuation -/
theorem exists_feasible_of_wf (i : Inst) (hwf : wf i = true) : Feasible i (singles i.n) := by
  refine ⟨?_, ?_, ?_⟩
  · intro a ha
    rcases mem_join _ a ha with h | ⟨r, hr, har⟩
    · omega
    · obtain ⟨k, hk, rfl⟩ := List.mem_map.mp hr
      simp at har; subst har
      have := List.mem_range.mp hk; omega
  · intro j h1 h2
    have hj : j ≠ 0 := by omega
    rw [singles, count_join j hj, sum_indicator]
    simp [h1, h2]
  · intro r hr hne
    rw [routes_singles] at hr
    rcases List.mem_append.mp hr with h | h
    · obtain ⟨k, hk, rfl⟩ := List.mem_map.mp h
      have hkn := List.mem_range.mp hk
      have hs := wf_servable hwf (k + 1) (by omega) (by omega)
      simp only [servable, Bool.and_eq_true, Bool.or_eq_true, decide_eq_true_eq] at hs
      obtain ⟨⟨⟨s1, s2⟩, s3⟩, s4⟩ := hs
      obtain ⟨d1, d2, d3⟩ := wf_dem hwf (k + 1) (by omega)
      have hcap := wf_cap hwf
      refine ⟨?_, ?_, by simp [Ordered], ?_, ?_⟩
      · simp only [List.map_cons, List.map_nil, List.sum_cons, List.sum_nil, Int.add_zero]
        rcases s3 with ⟨_, q⟩ | ⟨p, _⟩
        · exact q
        · rcases d3 with e | e <;> omega
      · simp only [List.map_cons, List.map_nil, List.sum_cons, List.sum_nil, Int.add_zero]
        rcases s3 with ⟨p, _⟩ | ⟨_, q⟩
        · rcases d3 with e | e <;> omega
        · exact q
      · cases ho : i.openR
        · simpa [within, routeDist, ho, pathLen] using s4
        · simpa [within, routeDist, ho, pathLen] using s4
      · cases ho : i.openR
        · simpa [timeOk, within, ho] using And.intro s1 s2
        · simpa [timeOk, within, ho] using s1
    · simp at h; exact absurd h hne

/-- … and it is canonical, so (C05) the mask generates it -/
theorem canonical_singles (n : Nat) (hn : 0 < n) : Canonical (singles n) := by
  refine ⟨canon_join _ (fun r hr => ?_), ?_⟩
  · obtain ⟨k, _, rfl⟩ := List.mem_map.mp hr
    simp
  · unfold singles
    cases n with
    | zero => omega
    | succ m =>
      rw [List.range_succ_eq_map]
      simp [join]

theorem int_list_sum_nonneg : ∀ l : List Int, (∀ x ∈ l, 0 ≤ x) → 0 ≤ l.sum
  | [], _ => by simp
  | x :: l, h => by
    have := h x (by simp)
    have := int_list_sum_nonneg l (fun y hy => h y (List.mem_cons_of_mem _ hy))
    simp only [List.sum_cons]; omega

/-- the objective is non-negative whenever distances are -/
theorem objective_nonneg (i : Inst) (hD : ∀ a b, 0 ≤ i.D a b) (as : List Nat) : 0 ≤ objective i as := by
  unfold objective
  apply int_list_sum_nonneg
  intro x hx
  obtain ⟨r, _, rfl⟩ := List.mem_map.mp hx
  unfold routeCost
  split
  · omega
  · exact pathLen_nonneg' hD _

/-- trailing depot padding changes neither the objective nor feasibility -/
theorem objective_snoc_zero (i : Inst) (as : List Nat) : objective i (as ++ [0]) = objective i as := by
  simp [objective, routes_snoc_zero, routeCost]

/-- hence every well-formed metric instance is solved through the mask: a finished mask-confined run exists -/
theorem wf_solvable (i : Inst) (hwf : wf i = true) (hm : Metric i) (hn : 0 < i.n) :
    ∃ s, Run env i (env.reset i) (singles i.n) s ∧ env.done i s = true :=
  run_of_feasible i hwf hm (singles i.n) (exists_feasible_of_wf i hwf) (canonical_singles i.n hn)

example : singles 3 = [1, 0, 2, 0, 3, 0] := by decide

end Rl4co.Mtvrp
