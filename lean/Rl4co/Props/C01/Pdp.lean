/-
C01 for PDP (both values of `force_start_at_depot`): every mask-confined episode that the environment
declares finished visits every pickup and every delivery exactly once, never the depot in between,
and every pickup before its delivery (`Spec.Pdp.Feasible`); with the forced start the action list is
the depot followed by such a sequence (`Spec.Pdp.FeasibleF`).  Any number of pairs, any distances.
-/
import Rl4co.Proofs.TspfamPdp
import Rl4co.Spec.Pdp

namespace Rl4co.Pdp
open Rl4co.Tspfam

/-- precedence along a run: a pickup that is still open at the start is visited before its delivery -/
theorem prec_of_run (i : Inst) {s s' : State} {as : List Nat} (h : Run env i s as s')
    (hm : Main i s) :
    ∀ p, 1 ≤ p → p ≤ i.h → s.avail p = true → (p + i.h) ∈ as →
      as.idxOf p < as.idxOf (p + i.h) := by
  induction h with
  | nil s => intro p _ _ _ hmem; cases hmem
  | @cons s s' a as ha hmask _ ih =>
    intro p hp1 hp2 hav hmem
    have hmask' : s.amask a = true := hmask
    have hmain' := main_step i s a hm ha hmask'
    rw [hm.am a] at hmask'
    simp only [Bool.and_eq_true] at hmask'
    by_cases hap : a = p
    · subst hap
      have : (a == a + i.h) = false := by simp; omega
      simp [List.idxOf_cons, this]
    · have had : a ≠ p + i.h := by
        intro hh
        have := hm.tdd p hp1 hp2
        rw [← hh, hmask'.2, hav] at this
        cases this
      have hmem' : (p + i.h) ∈ as := by
        rcases List.mem_cons.mp hmem with hh | hh
        · exact absurd hh.symm had
        · exact hh
      have hav' : (step i s a).avail p = true := by
        simp only [step, upd_apply]
        have : p ≠ a := fun hh => hap hh.symm
        simp [this, hav]
      have := ih hmain' p hp1 hp2 hav' hmem'
      have e1 : (a == p) = false := by simpa using hap
      have e2 : (a == p + i.h) = false := by simpa using had
      simp only [List.idxOf_cons, e1, e2, cond_false]
      omega

/-- core of C01: from a state in which every customer is still available, a run that ends with
nothing available is a feasible customer sequence -/
theorem feasible_of_run_from (i : Inst) {s s' : State} {cs : List Nat} (h : Run env i s cs s')
    (hm : Main i s) (hfresh : ∀ j, 1 ≤ j → j ≤ i.n → s.avail j = true)
    (hend : ∀ j, j < i.n + 1 → s'.avail j = false) : Spec.Pdp.Feasible i.h cs := by
  obtain ⟨h1, h2, hnd, h4⟩ := availEnv.visits_of_run h (Or.inr hm)
  have hmemall : ∀ j, 1 ≤ j → j ≤ i.n → j ∈ cs := by
    intro j hj1 hj2
    have := hend j (by omega)
    have e := h4 j
    simp only [availEnv] at e
    rw [e, hfresh j hj1 hj2] at this
    simpa using this
  refine ⟨?_, ?_, ?_⟩
  · intro a ha
    have hlt := h1 a ha
    have hav := h2 a ha
    simp only [availEnv, env] at hav hlt
    have : a ≠ 0 := by intro h0; rw [h0, hm.av0] at hav; cases hav
    simp only [Inst.n] at hlt; omega
  · intro j hj1 hj2
    rw [hnd.count]
    simp [hmemall j hj1 (by simp only [Inst.n]; omega)]
  · intro p hp1 hp2
    exact prec_of_run i h hm p hp1 hp2 (hfresh p hp1 (by simp only [Inst.n]; omega))
      (hmemall (p + i.h) (by omega) (by simp only [Inst.n]; omega))

/-- **C01 (PDP, `force_start_at_depot = False`).** -/
theorem feasible_of_run (i : Inst) (hf : i.force = false) {as : List Nat} {s : State}
    (h : Run env i (env.reset i) as s) (hd : env.done i s = true) : Spec.Pdp.Feasible i.h as := by
  by_cases hpos : 0 < i.h
  · have hpos' : 0 < availEnv.todo i := by simp only [availEnv, hf, Inst.n]; simp; omega
    apply feasible_of_run_from i h (main_reset i hf)
    · intro j hj1 _; simp only [env, reset, hf, Bool.false_eq_true, if_false, decide_eq_true_eq]; omega
    · exact availEnv.none_avail_of_done hpos' ⟨as, h⟩ hd
  · -- no customer: the only action (the depot) is masked, the only run is empty, and reset is not done
    cases h with
    | nil => rw [show env.done i (env.reset i) = (reset i).done from rfl, reset_done] at hd; cases hd
    | @cons _ _ a cs ha hm _ =>
      simp only [env, Inst.n] at ha
      have h0 : i.h = 0 := by omega
      have : a = 0 := by omega
      subst this
      simp [env, mask, reset, hf] at hm

/-- **C01 (PDP, `force_start_at_depot = True`).** -/
theorem feasible_of_run_force (i : Inst) (hf : i.force = true) {as : List Nat} {s : State}
    (h : Run env i (env.reset i) as s) (hd : env.done i s = true) : Spec.Pdp.FeasibleF i.h as := by
  have hpos' : 0 < availEnv.todo i := by simp [availEnv, hf]
  have hend := availEnv.none_avail_of_done hpos' ⟨as, h⟩ hd
  cases h with
  | nil => rw [show env.done i (env.reset i) = (reset i).done from rfl, reset_done] at hd; cases hd
  | @cons _ _ a cs ha hm hrest =>
    have ha0 : a = 0 := by
      have := forced_mask i hf a
      simp only [env, mask] at hm
      rw [hm] at this
      simpa using this.symm
    subst ha0
    refine ⟨cs, rfl, ?_⟩
    apply feasible_of_run_from i hrest (main_forced_first i hf)
    · intro j hj1 _
      simp only [env, reset, hf, if_true, step, upd_apply]
      have : j ≠ 0 := by omega
      simp [this]
    · exact hend

/-- Non-vacuity: two pairs (1→3, 2→4), episodes `1,3,2,4` and `0,1,2,4,3`. -/
example : ∃ s, Run env ⟨2, false, fun _ _ => 1⟩ (env.reset ⟨2, false, fun _ _ => 1⟩) [1, 3, 2, 4] s ∧
    env.done ⟨2, false, fun _ _ => 1⟩ s = true :=
  ⟨_, (run_iff_admitted _ _ _ _ _).2 ⟨by decide, rfl⟩, by decide⟩
example : ∃ s, Run env ⟨2, true, fun _ _ => 1⟩ (env.reset ⟨2, true, fun _ _ => 1⟩) [0, 1, 2, 4, 3] s ∧
    env.done ⟨2, true, fun _ _ => 1⟩ s = true :=
  ⟨_, (run_iff_admitted _ _ _ _ _).2 ⟨by decide, rfl⟩, by decide⟩

end Rl4co.Pdp
