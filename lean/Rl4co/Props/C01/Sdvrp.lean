/-
C01 for SDVRP: every mask-confined episode that the environment declares finished is a feasible
split-delivery solution by the independent definition `Spec.Sdvrp.Feasible`: there are amounts handed
over at the visits (non-negative, none at the depot) with every vehicle load within the capacity and
every customer receiving exactly its demand.  The witness is the greedy split that the environment
itself performs (`greedyFeasible_of_run`); it holds for every instance with capacity ≥ 0 and demands
≥ 0 (demands above the capacity included) and every admitted action sequence.
-/
import Rl4co.Env.Sdvrp
import Rl4co.Spec.Sdvrp
import Rl4co.Proofs.SdvrpGreedy

namespace Rl4co.Sdvrp
open Rl4co.Spec.Sdvrp

structure WF (i : Inst) : Prop where
  cap    : 0 ≤ i.cap
  demand : ∀ j, 0 ≤ i.demand j

/-- the delivered amount in the shape the proofs use; holds because the extracted source shape is
`torch.min(selected_demand, vehicle_capacity - used_capacity)` (`Params.sdvrpStepDeliverIsMin`,
`Params.sdvrpStepFreeIsCapMinusUsed`): a source edit of either operand breaks this proof. -/
theorem delivered_eq (i : Inst) (s : State) (a : Nat) : delivered i s a = min (s.rem a) (i.cap - s.used) := by
  simp [delivered, Params.sdvrpStepDeliverIsMin, Params.sdvrpStepFreeIsCapMinusUsed]

/-- the load update `(used + delivered) * (current_node != 0)` (`Params.sdvrpStepDepotCmp = ne`) -/
theorem step_used (i : Inst) (s : State) (a : Nat) :
    (env.step i s a).used = (if a ≠ 0 then s.used + delivered i s a else 0) := by
  simp [env, step, Params.sdvrpStepDepotCmp, Cmp.evalNat]

/-- bookkeeping invariant of the environment (preserved by every step, admitted or not) -/
structure EInv (i : Inst) (s : State) : Prop where
  used0 : 0 ≤ s.used
  usedC : s.used ≤ i.cap
  rem0  : s.rem 0 = 0
  remNN : ∀ j, 1 ≤ j → 0 ≤ s.rem j
  flag  : s.done = true → ∀ j, j ≤ i.n → s.rem j ≤ 0

theorem einv_reset (i : Inst) (hw : WF i) : EInv i (env.reset i) :=
  ⟨Int.le_refl 0, hw.cap, rfl, fun j hj => by
    have : j ≠ 0 := by omega
    simp only [env, reset, this, if_false]; exact hw.demand j, fun h => by simp [env, reset] at h⟩

theorem anyRem_false {n : Nat} {rem : Nat → Int} (h : anyRem n rem = false) (j : Nat) (hj : j ≤ n) :
    rem j ≤ 0 := by
  simp only [anyRem, List.any_eq_false, List.mem_range, Params.sdvrpDoneCmp, Cmp.eval,
    decide_eq_true_eq] at h
  have := h j (by omega)
  omega

theorem einv_step (i : Inst) (s : State) (a : Nat) (hi : EInv i s) : EInv i (env.step i s a) := by
  have h1 := hi.used0
  have h2 := hi.usedC
  by_cases ha : a = 0
  · subst ha
    have hd : delivered i s 0 = 0 := by
      simp only [delivered_eq, hi.rem0]; omega
    refine ⟨by simp [step_used], by rw [step_used]; simp; omega, ?_, ?_, ?_⟩
    · simp [env, step, hd, hi.rem0]
    · intro j hj
      have : j ≠ 0 := by omega
      simp only [env, step, upd_apply, this, if_false]; exact hi.remNN j hj
    · intro hdn j hj
      simp only [env, step, Bool.not_eq_true'] at hdn
      exact anyRem_false hdn j hj
  · have hr := hi.remNN a (by omega)
    have hd0 : 0 ≤ delivered i s a := by simp only [delivered_eq]; omega
    have hdr : delivered i s a ≤ s.rem a := by simp only [delivered_eq]; omega
    have hdc : s.used + delivered i s a ≤ i.cap := by simp only [delivered_eq]; omega
    refine ⟨?_, ?_, ?_, ?_, ?_⟩
    · rw [step_used]; simp only [ne_eq, ha, not_false_eq_true, if_true]; omega
    · rw [step_used]; simp only [ne_eq, ha, not_false_eq_true, if_true]; exact hdc
    · have : (0 : Nat) ≠ a := fun h => ha h.symm
      simp only [env, step, upd_apply, this, if_false]; exact hi.rem0
    · intro j hj
      simp only [env, step, upd_apply]
      split
      · omega
      · exact hi.remNN j hj
    · intro hdn j hj
      simp only [env, step, Bool.not_eq_true'] at hdn
      exact anyRem_false hdn j hj

/-- the environment's remaining demands are those of the greedy replay -/
theorem rem_eq_greedyRem (i : Inst) {s s' : State} {as : List Nat} (h : Run env i s as s')
    (hi : EInv i s) : EInv i s' ∧ ∀ j, 1 ≤ j → s'.rem j = greedyRem i s.rem s.used as j := by
  induction h with
  | nil s => exact ⟨hi, fun j _ => rfl⟩
  | @cons s s' a as _ _ _ ih =>
    have hi' := einv_step i s a hi
    obtain ⟨h1, h2⟩ := ih hi'
    refine ⟨h1, fun j hj => ?_⟩
    rw [h2 j hj]
    by_cases ha : a = 0
    · subst ha
      have hd : delivered i s 0 = 0 := by
        have := hi.usedC
        simp only [delivered_eq, hi.rem0]; omega
      have hu : (env.step i s 0).used = 0 := by simp [step_used]
      rw [hu]
      simp only [greedyRem, if_true]
      apply greedyRem_congr
      · intro k hk
        have : k ≠ 0 := by omega
        simp [env, step, this]
      · exact hj
    · simp only [greedyRem, ha, if_false]
      have hu : (env.step i s a).used = s.used + min (s.rem a) (i.cap - s.used) := by
        simp [step_used, ha, delivered_eq]
      have hr : (env.step i s a).rem = upd s.rem a (s.rem a - min (s.rem a) (i.cap - s.used)) := by
        simp [env, step, delivered_eq]
      rw [hu, hr]

/-- **C01 (SDVRP)**, strong form: the greedy replay of a finished mask-confined episode is a valid split. -/
theorem greedyFeasible_of_run (i : Inst) (hw : WF i) {as : List Nat} {s : State}
    (h : Run env i (env.reset i) as s) (hd : env.done i s = true) : greedyFeasible i as = true := by
  obtain ⟨hi, hrem⟩ := rem_eq_greedyRem i h (einv_reset i hw)
  have hrange : ∀ a ∈ as, a ≤ i.n := by
    have : ∀ {s s' : State} {as : List Nat}, Run env i s as s' → ∀ a ∈ as, a ≤ i.n := by
      intro s s' as h
      induction h with
      | nil s => intro a ha; simp at ha
      | cons ha _ _ ih =>
        intro b hb
        rcases List.mem_cons.mp hb with hh | hh
        · subst hh; simp only [env] at ha; omega
        · exact ih b hh
    exact this h
  have F := greedy_facts i hw.cap as i.demand 0 (fun j _ => hw.demand j) (Int.le_refl 0) hw.cap
  have hcongr : ∀ j, 1 ≤ j → (env.reset i).rem j = i.demand j := by
    intro j hj
    have : j ≠ 0 := by omega
    simp [env, reset, this]
  apply (validSplit_iff i _).2
  refine ⟨?_, F.nonneg, F.depot, ?_, ?_⟩
  · intro z hz
    have := List.of_mem_zip hz
    exact hrange z.1 this.1
  · intro l hl
    obtain ⟨l1, ls1, h1⟩ := loads_cons_exists (greedySplit i as)
    have := F.load l1 ls1 h1
    rw [h1] at hl
    rcases List.mem_cons.mp hl with hh | hh
    · subst hh; omega
    · exact this.2 l hh
  · intro j hj1 hj2
    have hs := F.served j hj1
    have hfin : greedyRem i i.demand 0 as j = 0 := by
      have e := greedyRem_congr i as (env.reset i).rem i.demand 0 hcongr j hj1
      have hsr := hrem j hj1
      have hu : (env.reset i).used = 0 := rfl
      rw [hu, e] at hsr
      have h1 := hi.flag hd j hj2
      have h2 := hi.remNN j hj1
      omega
    simp only [greedySplit]
    omega

/-- **C01 (SDVRP).** -/
theorem feasible_of_run (i : Inst) (hw : WF i) {as : List Nat} {s : State}
    (h : Run env i (env.reset i) as s) (hd : env.done i s = true) : Feasible i as :=
  feasible_of_greedy i as (greedyFeasible_of_run i hw h hd)

/-- Non-vacuity: capacity 8, demands 4 and 12 (> capacity): customer 2 is served in two visits, the
first one filling the vehicle exactly (remaining capacity 4 = part of the demand). -/
def exInst : Inst := ⟨2, 8, fun j => if j = 1 then 4 else 12, fun a b => if a = b then 0 else (a + b : Int)⟩

example : WF exInst := ⟨by decide, by intro j; simp only [exInst]; split <;> omega⟩

example : ∃ s, Run env exInst (env.reset exInst) [1, 2, 0, 2] s ∧ env.done exInst s = true := by
  refine ⟨_, (run_iff_admitted _ _ _ _ _).2 ⟨by decide, rfl⟩, by decide⟩

end Rl4co.Sdvrp
