/-
CVRP: the per-row functions that `harness/rowtrans.py` REGENERATES from `CVRPEnv.get_action_mask` and
`CVRPEnv._step` on every run (`Rl4co/Generated/CvrpRow.lean`) are the hand-written model `Rl4co.Cvrp`
under the list representation of its state, so every C01–C05 theorem about the model is a theorem about
the regenerated code:

* `mask_gen_eq`, `step_gen_eq` : bridging lemmas (generated = model);
* `GenEnv`                      : the environment built from the generated functions alone;
* `gen_run_sim`                 : every mask-confined run of the generated environment is a mask-confined
                                  run of the model (simulation through `absS`);
* `gen_feasible_of_run`         : C01 for the generated environment;
* `gen_mask_nonempty`           : C02 (no dead end) for the generated environment.
-/
import Rl4co.Env.CvrpGen
import Rl4co.Props.C01.Cvrp
import Rl4co.Props.C02.Cvrp
import Rl4co.Props.C05.CvrpOpt

namespace Rl4co.Cvrp.Gen
open Rl4co.Spec.Cvrp

@[simp] theorem demandL_length (i : Inst) : (demandL i).length = i.n := by simp [demandL]
@[simp] theorem visL_length (i : Inst) (s : State) : (visL i s).length = i.n + 1 := by simp [visL]

theorem drop_one_visL (i : Inst) (s : State) :
    List.drop 1 (visL i s) = (List.range i.n).map (fun k => s.vis (k + 1)) := by
  simp [visL, List.range_succ_eq_map, List.map_map, Function.comp_def]

theorem zipWith_map_same {α β γ δ : Type} (f : β → γ → δ) (g : α → β) (h : α → γ) (l : List α) :
    List.zipWith f (l.map g) (l.map h) = l.map (fun x => f (g x) (h x)) := by
  induction l with
  | nil => rfl
  | cons x xs ih => simp [ih]

theorem count_true_map_pos {α : Type} (p : α → Bool) (l : List α) :
    decide (List.count true (l.map p) > 0) = l.any p := by
  induction l with
  | nil => rfl
  | cons x xs ih =>
    cases hp : p x with
    | true => simp [hp]
    | false =>
      simp only [List.map_cons, hp, List.any_cons, Bool.false_or]
      rw [← ih]
      simp

/-- **bridging lemma, mask**: the regenerated `get_action_mask` of the row is the model's mask, action by action -/
theorem mask_gen_eq (i : Inst) (s : State) :
    GenRow.cvrpMaskRow (demandL i) s.used i.cap (visL i s) s.cur = (List.range (i.n + 1)).map (mask i s) := by
  have hloc : ∀ k, (!(s.vis (k + 1) || decide (i.demand (k + 1) + s.used > i.cap))) = locOk i s (k + 1) := by
    intro k
    simp only [locOk, Params.cvrpMaskCapCmp, Cmp.eval, Bool.not_or]
  have hany : decide (List.count true
        (List.map (fun x => !x) ((List.range i.n).map (fun k => s.vis (k + 1) || decide (i.demand (k + 1) + s.used > i.cap)))) > 0)
      = anyLoc i s := by
    rw [List.map_map, count_true_map_pos]
    simp only [anyLoc, Function.comp_def, hloc]
  unfold GenRow.cvrpMaskRow
  have hex : List.map (fun x2 => decide (x2 > i.cap)) (List.map (fun x1 => x1 + s.used) (demandL i))
      = (List.range i.n).map (fun k => decide (i.demand (k + 1) + s.used > i.cap)) := by
    simp only [demandL, List.map_map, Function.comp_def]
  have hml : List.zipWith (fun a b => a || b) (List.drop 1 (visL i s))
        ((List.range i.n).map (fun k => decide (i.demand (k + 1) + s.used > i.cap)))
      = (List.range i.n).map (fun k => s.vis (k + 1) || decide (i.demand (k + 1) + s.used > i.cap)) := by
    rw [drop_one_visL, zipWith_map_same]
  simp only [hex, hml, hany]
  rw [List.range_succ_eq_map]
  simp only [List.map_cons, List.map_map, Function.comp_def]
  have hhead : (!(anyLoc i s && decide (s.cur = 0))) = mask i s 0 := by
    have hc : decide (s.cur = 0) = (s.cur == 0) := by
      by_cases h : s.cur = 0 <;> simp [h]
    simp only [mask, if_true, hc, Bool.and_comm]
  have htail : ∀ k, (!(s.vis (k + 1) || decide (i.demand (k + 1) + s.used > i.cap))) = mask i s (Nat.succ k) := by
    intro k
    simp only [mask, Nat.succ_ne_zero, if_false, Nat.succ_eq_add_one, hloc]
  simp only [hhead, htail]

theorem getD_demandL (i : Inst) (k : Nat) (hk : k < i.n) : (demandL i).getD k 0 = i.demand (k + 1) := by
  simp [demandL, List.getD_eq_getElem?_getD, hk]

theorem set_visL (i : Inst) (s : State) (a : Nat) :
    (visL i s).set a true = (List.range (i.n + 1)).map (upd s.vis a true) := by
  apply List.ext_getElem
  · simp [visL]
  · intro k h1 h2
    simp only [visL, List.length_set, List.length_map, List.length_range] at h1
    simp only [visL, List.getElem_set, List.getElem_map, List.getElem_range, upd]
    by_cases hka : a = k
    · subst hka; simp
    · have : ¬ k = a := fun h => hka h.symm
      simp [hka, this]

theorem count_true_map (p : Nat → Bool) (n : Nat) : List.count true ((List.range n).map p) = cnt n p := by
  unfold cnt
  rw [List.count_eq_countP, List.countP_map, List.countP_eq_length_filter]
  congr 1
  apply List.filter_congr
  intro x _
  cases h : p x <;> simp [h]

/-- **bridging lemma, step**: the regenerated `_step` of the row is the model's step (for an action in range) -/
theorem step_gen_eq (i : Inst) (s : State) (a : Nat) (ha : a < i.n + 1) :
    GenRow.cvrpStepRow (demandL i) s.used (visL i s) a
      = ((step i s a).cur, (step i s a).used, visL i (step i s a), done i (step i s a)) := by
  unfold GenRow.cvrpStepRow
  simp only [demandL_length]
  have hvis : (visL i s).set a true = visL i (step i s a) := by
    rw [set_visL]; rfl
  have hdone : decide (List.count true (visL i (step i s a)) = (visL i (step i s a)).length)
      = done i (step i s a) := by
    simp only [visL_length]
    simp only [visL, count_true_map, done, Params.cvrpDoneCmp, Cmp.evalNat]
  have hused : (if decide (a ≠ 0) = true then
        (demandL i).getD (Int.toNat (max 0 (min (((a : Nat) : Int) - 1) (((i.n : Nat) : Int) - 1)))) 0 + s.used else 0)
      = (step i s a).used := by
    simp only [step]
    by_cases h0 : a = 0
    · simp [h0]
    · have hidx : Int.toNat (max 0 (min (((a : Nat) : Int) - 1) (((i.n : Nat) : Int) - 1))) = a - 1 := by omega
      have hmin : min (a - 1) (i.n - 1) + 1 = a := by omega
      rw [hidx, getD_demandL i (a - 1) (by omega)]
      have : a - 1 + 1 = a := by omega
      simp [h0, hmin, this, Int.add_comm]
  simp only [hused, hvis, hdone]
  rfl

/-! ### The environment built from the regenerated functions alone -/

theorem absS_reset (i : Inst) : absS i (reset i) = greset i := by
  simp only [absS, reset, greset, visL, GState.mk.injEq, true_and]
  apply List.ext_getElem <;> simp

theorem gmask_abs (i : Inst) (s : State) (a : Nat) (ha : a < i.n + 1) :
    gmask i (absS i s) a = mask i s a := by
  simp only [gmask, absS, mask_gen_eq]
  simp [List.getD_eq_getElem?_getD, ha]

theorem gstep_abs (i : Inst) (s : State) (a : Nat) (ha : a < i.n + 1) :
    gstep i (absS i s) a = absS i (step i s a) := by
  simp only [gstep, absS, step_gen_eq i s a ha]

theorem gdone_abs (i : Inst) (s : State) : gdone i (absS i s) = done i s := by
  simp only [gdone, absS, visL, count_true_map, List.length_map, List.length_range, done, Params.cvrpDoneCmp,
    Cmp.evalNat]

/-- **simulation**: a mask-confined run of the regenerated environment from the tensors of a model state is
a mask-confined run of the model, and ends in the tensors of the model's end state -/
theorem gen_run_sim (i : Inst) {as : List Nat} {s : State} {g' : GState}
    (h : Run GenEnv i (absS i s) as g') : ∃ s', Run env i s as s' ∧ g' = absS i s' := by
  induction as generalizing s with
  | nil => cases h; exact ⟨s, Run.nil s, rfl⟩
  | cons a as ih =>
    cases h with
    | cons ha hm hr =>
      have ha' : a < i.n + 1 := ha
      have hm' : mask i s a = true := by rw [← gmask_abs i s a ha']; exact hm
      have hr' : Run GenEnv i (absS i (step i s a)) as g' := by
        have : GenEnv.step i (absS i s) a = absS i (step i s a) := gstep_abs i s a ha'
        rw [this] at hr; exact hr
      obtain ⟨s', hrun, hg⟩ := ih hr'
      exact ⟨s', Run.cons ha' hm' hrun, hg⟩

/-- **C01 for the regenerated CVRP environment.**  Any episode of the functions regenerated from
`get_action_mask` / `_step`, confined to the regenerated mask, that reaches the regenerated `done`, is a
feasible CVRP solution by the independent definition. -/
theorem gen_feasible_of_run (i : Inst) (hcap : 0 ≤ i.cap) {as : List Nat} {g : GState}
    (h : Run GenEnv i (GenEnv.reset i) as g) (hd : GenEnv.done i g = true) : Feasible i as := by
  have h0 : GenEnv.reset i = absS i (reset i) := (absS_reset i).symm
  rw [h0] at h
  obtain ⟨s', hrun, hg⟩ := gen_run_sim i h
  subst hg
  have hd' : env.done i s' = true := by
    show done i s' = true
    rw [← gdone_abs i s']; exact hd
  exact feasible_of_run i hcap hrun hd'

/-- **C02 (no dead end) for the regenerated CVRP environment**: in every state reachable through the
regenerated mask, the regenerated mask offers an action. -/
theorem gen_mask_nonempty (i : Inst) {as : List Nat} {g : GState}
    (h : Run GenEnv i (GenEnv.reset i) as g) : ∃ a, a < i.n + 1 ∧ GenEnv.mask i g a = true := by
  have h0 : GenEnv.reset i = absS i (reset i) := (absS_reset i).symm
  rw [h0] at h
  obtain ⟨s', hrun, hg⟩ := gen_run_sim i h
  subst hg
  obtain ⟨a, ha, hm⟩ := mask_nonempty i s'
  exact ⟨a, ha, by show gmask i (absS i s') a = true; rw [gmask_abs i s' a ha]; exact hm⟩

/-- **converse simulation**: every mask-confined run of the model is a mask-confined run of the regenerated
environment on the corresponding tensors -/
theorem gen_run_of_run (i : Inst) {as : List Nat} {s s' : State} (h : Run env i s as s') :
    Run GenEnv i (absS i s) as (absS i s') := by
  induction h with
  | nil s => exact Run.nil _
  | @cons s s' a as ha hm _ ih =>
    have ha' : a < i.n + 1 := ha
    refine Run.cons ha' (by show gmask i (absS i s) a = true; rw [gmask_abs i s a ha']; exact hm) ?_
    have : GenEnv.step i (absS i s) a = absS i (step i s a) := gstep_abs i s a ha'
    rw [this]; exact ih

/-- the same for runs that only step unfinished states (the decoding loop) -/
theorem gen_runND_sim (i : Inst) {as : List Nat} {s : State} {g' : GState}
    (h : RunND GenEnv i (absS i s) as g') : ∃ s', RunND env i s as s' ∧ g' = absS i s' := by
  induction as generalizing s with
  | nil => cases h; exact ⟨s, RunND.nil s, rfl⟩
  | cons a as ih =>
    cases h with
    | cons hnd ha hm hr =>
      have ha' : a < i.n + 1 := ha
      have hnd' : env.done i s = false := by
        show done i s = false
        rw [← gdone_abs i s]; exact hnd
      have hm' : mask i s a = true := by rw [← gmask_abs i s a ha']; exact hm
      have hr' : RunND GenEnv i (absS i (step i s a)) as g' := by
        have : GenEnv.step i (absS i s) a = absS i (step i s a) := gstep_abs i s a ha'
        rw [this] at hr; exact hr
      obtain ⟨s', hrun, hg⟩ := ih hr'
      exact ⟨s', RunND.cons hnd' ha' hm' hrun, hg⟩

/-- **C02 (step bound) for the regenerated CVRP environment**: an episode of the regenerated functions that
only steps unfinished states has at most `2n + 1` steps ("two steps per customer plus one"). -/
theorem gen_steps_le (i : Inst) (hwf : WF i) {as : List Nat} {g : GState}
    (h : RunND GenEnv i (GenEnv.reset i) as g) : as.length ≤ 2 * i.n + 1 := by
  have h0 : GenEnv.reset i = absS i (reset i) := (absS_reset i).symm
  rw [h0] at h
  obtain ⟨s', hrun, _⟩ := gen_runND_sim i h
  exact steps_le i hwf hrun

/-- **C05 for the regenerated CVRP environment**: the complete solutions reachable through the regenerated
mask are exactly the feasible solutions up to the documented canonicalisation, with the objective as
reward: the regenerated mask hides no feasible solution. -/
theorem gen_opt_reachable (i : Inst) (hd : ∀ j, 0 ≤ i.demand j) (hcap : 0 ≤ i.cap) (h00 : i.D 0 0 = 0)
    (hn : 1 ≤ i.n) :
    (∀ as g, Run GenEnv i (GenEnv.reset i) as g → GenEnv.done i g = true →
        Feasible i as ∧ reward i as = - objective i as) ∧
    (∀ as, Feasible i as → ∃ as' g, Run GenEnv i (GenEnv.reset i) as' g ∧ GenEnv.done i g = true ∧
        reward i as' = - objective i as) := by
  obtain ⟨_, h2⟩ := opt_reachable i hd hcap h00 hn
  refine ⟨fun as g hr hdn => ⟨gen_feasible_of_run i hcap hr hdn, reward_eq_objective i h00 as⟩, ?_⟩
  intro as hf
  obtain ⟨as', s, hrun, hdn, hrw⟩ := h2 as hf
  refine ⟨as', absS i s, ?_, ?_, hrw⟩
  · have := gen_run_of_run i hrun
    rw [show absS i (env.reset i) = GenEnv.reset i from absS_reset i] at this
    exact this
  · show gdone i (absS i s) = true
    rw [gdone_abs i s]; exact hdn

/-- Non-vacuity: on a 2-customer instance the regenerated functions run the episode `[1, 0, 2]`
(second customer does not fit after the first) and report `done`. -/
example :
    let i : Inst := ⟨2, 4, fun _ => 3, fun a b => if a = b then 0 else 1⟩
    admitted GenEnv i (GenEnv.reset i) [1, 0, 2] = true ∧ GenEnv.done i (exec GenEnv i (GenEnv.reset i) [1, 0, 2]) = true
      ∧ GenEnv.mask i (GenEnv.step i (GenEnv.reset i) 1) 2 = false := by
  decide

end Rl4co.Cvrp.Gen
