/-
C01 for SVRP: every mask-confined episode that the environment declares finished is a feasible skill-VRP
solution by the independent definition `Spec.Svrp.Feasible` (customers exactly once; route number k is
driven by technician k, who exists and covers the skill of each of its customers) — for every instance
in which the last technician covers every customer (`WF`; the generator scales the skills by the
largest level) and every admitted action sequence.  Without `WF` the real environment raises (technician
index out of range) instead of finishing.
-/
import Rl4co.Env.Svrp
import Rl4co.Spec.Svrp

namespace Rl4co.Svrp
open Rl4co.Spec.Svrp

/-- there is a technician and the last one covers every customer -/
structure WF (i : Inst) : Prop where
  tech : 1 ≤ i.T
  last : ∀ j, 1 ≤ j → j ≤ i.n → i.skills j ≤ i.techs (i.T - 1)

/-- `get_action_mask` / `_step` in the shape the proofs use (`maskRef`, `stepRef`).  They coincide with the
model (`mask_eq`, `step_eq`) because the extracted source compares `current_tech == techs.size(-2) - 1`
(`Params.svrpMaskLastCmp = eq`, `Params.svrpMaskLastOffset = 1`) and increments the technician with
`(current_node == 0)` (`Params.svrpStepDepotCmp = eq`): a source edit of any of the three breaks these proofs. -/
def maskRef (i : Inst) (s : State) (a : Nat) : Bool :=
  if a = 0 then !((s.cur == 0 || s.tech == i.T - 1) && anyLoc i s) else locOk i s a

def stepRef (_ : Inst) (s : State) (a : Nat) : State :=
  { cur := a, tech := s.tech + (if a = 0 then 1 else 0), vis := upd s.vis a true }

theorem mask_eq (i : Inst) (s : State) (a : Nat) : mask i s a = maskRef i s a := by
  by_cases h : a = 0
  · subst h
    by_cases ht : s.tech = i.T - 1
    · simp [mask, maskRef, Params.svrpMaskLastCmp, Params.svrpMaskLastOffset, Cmp.evalNat, ht]
    · have hb : (s.tech == i.T - 1) = false := by simpa using ht
      simp [mask, maskRef, Params.svrpMaskLastCmp, Params.svrpMaskLastOffset, Cmp.evalNat, ht, hb]
  · simp [mask, maskRef, h]

theorem step_eq (i : Inst) (s : State) (a : Nat) : step i s a = stepRef i s a := by
  by_cases h : a = 0 <;> simp [step, stepRef, Params.svrpStepDepotCmp, Cmp.evalNat, h]

theorem mask_customer {i : Inst} {s : State} {a : Nat} (h0 : a ≠ 0) (hm : mask i s a = true) :
    s.vis a = false ∧ i.skills a ≤ i.techs s.tech := by
  simp only [mask_eq, maskRef, h0, if_false, locOk, Params.svrpMaskSkillCmp, Cmp.eval, Bool.and_eq_true,
    Bool.not_eq_true', decide_eq_true_eq] at hm
  exact hm

/-- Visited-set part, generalised over the start state. -/
theorem visits_of_run (i : Inst) {s s' : State} {as : List Nat} (h : Run env i s as s') :
    (∀ a ∈ as, a ≤ i.n) ∧
    (∀ j, 1 ≤ j → s.vis j = true → j ∉ as) ∧
    (∀ j, 1 ≤ j → as.count j ≤ 1) ∧
    (∀ j, s'.vis j = (s.vis j || decide (j ∈ as))) := by
  induction h with
  | nil s => simp
  | @cons s s' a as ha hm _ ih =>
    simp only [env] at ha hm ih
    obtain ⟨ih1, ih2, ih3, ih4⟩ := ih
    have hvis : a ≠ 0 → s.vis a = false := fun h0 => (mask_customer h0 hm).1
    refine ⟨?_, ?_, ?_, ?_⟩
    · intro b hb
      rcases List.mem_cons.mp hb with hh | hh
      · subst hh; omega
      · exact ih1 b hh
    · intro j hj hv hmem
      rcases List.mem_cons.mp hmem with hh | hh
      · subst hh
        have := hvis (by omega)
        simp [hv] at this
      · have : (step i s a).vis j = true := by
          simp only [step_eq, stepRef, upd_apply]; split <;> simp [hv]
        exact ih2 j hj this hh
    · intro j hj
      rw [List.count_cons]
      by_cases hja : a = j
      · subst hja
        have : (step i s a).vis a = true := by simp [step_eq, stepRef]
        have := ih2 a hj this
        simp [List.count_eq_zero_of_not_mem this]
      · have := ih3 j hj
        simp [hja]; exact this
    · intro j
      rw [ih4 j]
      simp only [step_eq, stepRef, upd_apply, List.mem_cons]
      by_cases hja : j = a <;> simp [hja]

/-- all customers visited -/
def AllVis (i : Inst) (s : State) : Prop := ∀ j, 1 ≤ j → j ≤ i.n → s.vis j = true

/-- invariant: the technician index is in range as long as a customer is unvisited -/
def TechOk (i : Inst) (s : State) : Prop := s.tech < i.T ∨ AllVis i s

theorem anyLoc_false {i : Inst} {s : State} (h : anyLoc i s = false) (j : Nat) (h1 : 1 ≤ j) (h2 : j ≤ i.n) :
    locOk i s j = false := by
  simp only [anyLoc, List.any_eq_false, List.mem_range] at h
  have := h (j - 1) (by omega)
  rw [Nat.sub_add_cancel h1] at this
  simpa using this

theorem techOk_step (i : Inst) (hw : WF i) (s : State) (a : Nat) (hi : TechOk i s)
    (hm : env.mask i s a = true) : TechOk i (env.step i s a) := by
  simp only [env] at hm ⊢
  by_cases h0 : a = 0
  · subst h0
    rcases hi with hlt | hall
    · by_cases hlast : s.tech + 1 < i.T
      · left; simp [step_eq, stepRef, hlast]
      · right
        have ht : s.tech = i.T - 1 := by omega
        simp only [mask_eq, maskRef, if_true, Bool.not_eq_true', Bool.and_eq_false_iff, Bool.or_eq_false_iff,
          beq_eq_false_iff_ne, ne_eq] at hm
        have hany : anyLoc i s = false := by
          rcases hm with h | h
          · exact absurd ht h.2
          · exact h
        intro j h1 h2
        have hl := anyLoc_false hany j h1 h2
        have hs := hw.last j h1 h2
        simp only [locOk, Params.svrpMaskSkillCmp, Cmp.eval, ht, Bool.and_eq_false_iff,
          Bool.not_eq_false', decide_eq_false_iff_not] at hl
        have hv : s.vis j = true := by
          rcases hl with h | h
          · exact h
          · exact absurd hs h
        simp only [step_eq, stepRef, upd_apply]
        split <;> simp [hv]
    · right
      intro j h1 h2
      have := hall j h1 h2
      simp only [step_eq, stepRef, upd_apply]
      split <;> simp [this]
  · have hc := mask_customer h0 hm
    rcases hi with hlt | hall
    · left; simp [step_eq, stepRef, h0, hlt]
    · right
      intro j h1 h2
      have := hall j h1 h2
      simp only [step_eq, stepRef, upd_apply]
      split <;> simp [this]

/-- Skill part, generalised over the start state: the first (continuing) route is driven by the current
technician, the later ones by the following technicians. -/
theorem skills_of_run (i : Inst) (hw : WF i) {s s' : State} {as : List Nat} (h : Run env i s as s')
    (hi : TechOk i s) :
    ∀ r rs, routes as = r :: rs →
      (∀ j ∈ r, i.skills j ≤ i.techs s.tech) ∧ (r ≠ [] → s.tech < i.T) ∧
      routesOk i (s.tech + 1) rs = true := by
  induction h with
  | nil s =>
    intro r rs hr
    simp only [routes, List.cons.injEq] at hr
    obtain ⟨h1, h2⟩ := hr; subst h1 h2
    simp [routesOk]
  | @cons s s' a as ha hm _ ih =>
    intro r rs hr
    have hi' := techOk_step i hw s a hi hm
    obtain ⟨r1, rs1, h1⟩ := routes_cons_exists as
    have ih' := ih hi' r1 rs1 h1
    simp only [env] at ha hm ih'
    by_cases h0 : a = 0
    · subst h0
      simp only [routes, if_true, List.cons.injEq] at hr
      obtain ⟨e1, e2⟩ := hr; subst e1 e2
      refine ⟨by simp, by simp, ?_⟩
      rw [h1]
      have htech : (step i s 0).tech = s.tech + 1 := by simp [step_eq, stepRef]
      rw [htech] at ih'
      obtain ⟨q1, q2, q3⟩ := ih'
      simp only [routesOk, routeOk, Bool.and_eq_true, Bool.or_eq_true, List.isEmpty_iff,
        List.all_eq_true, decide_eq_true_eq]
      refine ⟨?_, q3⟩
      by_cases hr1 : r1 = []
      · left; exact hr1
      · right; exact ⟨q2 hr1, q1⟩
    · simp only [routes, h0, if_false, h1, List.cons.injEq] at hr
      obtain ⟨e1, e2⟩ := hr; subst e1 e2
      have hc := mask_customer h0 hm
      have htech : (step i s a).tech = s.tech := by simp [step_eq, stepRef, h0]
      rw [htech] at ih'
      obtain ⟨q1, q2, q3⟩ := ih'
      refine ⟨?_, fun _ => ?_, q3⟩
      · intro j hj
        rcases List.mem_cons.mp hj with hh | hh
        · subst hh; exact hc.2
        · exact q1 j hh
      · rcases hi with hlt | hall
        · exact hlt
        · have := hall a (by omega) (by omega)
          rw [hc.1] at this
          exact absurd this (by simp)

theorem all_visited_of_done (i : Inst) (s : State) (hd : env.done i s = true) :
    ∀ j, j < i.n + 1 → s.vis j = true := by
  have h1 : cnt (i.n + 1) s.vis = i.n + 1 := by
    simpa [env, done, Params.svrpDoneCmp, Cmp.evalNat] using hd
  exact cnt_eq_n.mp h1

/-- **C01 (SVRP).** -/
theorem feasible_of_run (i : Inst) (hw : WF i) {as : List Nat} {s : State}
    (h : Run env i (env.reset i) as s) (hd : env.done i s = true) : Feasible i as := by
  obtain ⟨h1, _, h3, h4⟩ := visits_of_run i h
  refine ⟨h1, ?_, ?_⟩
  · intro j hj1 hj2
    have hv := all_visited_of_done i s hd j (by omega)
    rw [h4 j] at hv
    simp only [env, reset, Bool.false_or, decide_eq_true_eq] at hv
    have := List.count_pos_iff.mpr hv
    have := h3 j hj1
    omega
  · obtain ⟨r1, rs1, h5⟩ := routes_cons_exists as
    have hi0 : TechOk i (env.reset i) := Or.inl (by simp only [env, reset]; exact hw.tech)
    obtain ⟨q1, q2, q3⟩ := skills_of_run i hw h hi0 r1 rs1 h5
    rw [h5]
    simp only [env, reset] at q1 q2 q3
    simp only [routesOk, routeOk, Bool.and_eq_true, Bool.or_eq_true, List.isEmpty_iff,
      List.all_eq_true, decide_eq_true_eq]
    refine ⟨?_, q3⟩
    by_cases hr1 : r1 = []
    · left; exact hr1
    · right; exact ⟨q2 hr1, q1⟩

/-- Non-vacuity: two technicians (levels 2 and 5), customer 1 needs exactly 2 (= level of technician 0),
customer 2 needs 5 (only the last technician). -/
def exInst : Inst :=
  { n := 2, T := 2, techs := fun k => if k = 0 then 2 else 5, skills := fun j => if j = 1 then 2 else 5,
    costs := fun k => (k : Int) + 1, D := fun a b => if a = b then 0 else (a + b : Int) }

example : WF exInst := by
  refine ⟨by decide, ?_⟩
  intro j h1 h2
  have h2' : j ≤ 2 := h2
  have : j = 1 ∨ j = 2 := by omega
  rcases this with h | h <;> subst h <;> decide

example : ∃ s, Run env exInst (env.reset exInst) [1, 0, 2] s ∧ env.done exInst s = true := by
  refine ⟨_, (run_iff_admitted _ _ _ _ _).2 ⟨by decide, rfl⟩, by decide⟩

end Rl4co.Svrp
