/-
Spec-level sanity for the orienteering Spec (`Rl4co/Spec/Op.lean`), independent of the environment model:
lemmas that a vacuous or mis-stated Spec would violate.
-/
import Rl4co.Spec.Op
import Rl4co.Proofs.OpShared

namespace Rl4co

/-- for a symmetric matrix a path and its reversal have the same length -/
theorem pathLen_reverse (D : Nat → Nat → Int) (hsym : ∀ a b, D a b = D b a) (xs : List Nat) :
    pathLen D xs.reverse = pathLen D xs := by
  induction xs with
  | nil => rfl
  | cons x t ih =>
    cases t with
    | nil => rfl
    | cons y r =>
      have hne : (y :: r).reverse ≠ [] := by simp
      obtain ⟨z, zs, hz⟩ := List.exists_cons_of_ne_nil hne
      have hlast : (z :: zs).getLast (by simp) = y := by
        have : (y :: r).reverse.getLast hne = y := by simp
        simpa [hz] using this
      rw [List.reverse_cons, hz, pathLen_append_singleton, hlast, ← hz, ih, pathLen_cons_cons, hsym y x]
      omega

end Rl4co

namespace Rl4co.Spec.Op
open Rl4co.Op (Inst) 
open Rl4co.Prize

/-- a feasible solution always exists: staying at the depot -/
theorem feasible_nil (i : Inst) (hd : i.D 0 0 = 0) (hL : 0 ≤ i.L) : Feasible i [] :=
  ⟨by simp, by simp, by simp [tourLen, pathLen, hd, hL]⟩

theorem feasible_depot_twice (i : Inst) (hd : i.D 0 0 = 0) (hL : 0 ≤ i.L) : Feasible i [0, 0] :=
  ⟨by simp, by intro j h1 _; rw [List.count_eq_zero_of_not_mem (by simp; omega)]; omega, by simp [tourLen, pathLen, hd, hL]⟩

/-- the objective depends on the SET of visited customers only -/
theorem objective_congr (i : Inst) {as bs : List Nat} (h : ∀ j, 1 ≤ j → (j ∈ as ↔ j ∈ bs)) :
    objective i as = objective i bs := by
  simp only [objective]
  apply sumTo_congr
  intro k _
  have := h (k + 1) (by omega)
  by_cases hm : k + 1 ∈ as
  · simp [hm, this.mp hm]
  · have hb : ¬ k + 1 ∈ bs := fun hb => hm (this.mpr hb)
    simp [hm, hb]

/-- … hence it is invariant under reordering the visits and under depot padding -/
theorem objective_perm (i : Inst) {as bs : List Nat} (h : as.Perm bs) : objective i as = objective i bs :=
  objective_congr i (fun _ _ => h.mem_iff)

theorem objective_pad (i : Inst) (as : List Nat) : objective i (as ++ [0]) = objective i as :=
  objective_congr i (fun j hj => by simp; omega)

/-- with non-negative prizes visiting more customers never collects less -/
theorem objective_mono (i : Inst) (hp : ∀ j, 1 ≤ j → j ≤ i.n → 0 ≤ i.prize j) {as bs : List Nat}
    (h : ∀ j, j ∈ as → j ∈ bs) : objective i as ≤ objective i bs := by
  simp only [objective]
  have key : ∀ n, n ≤ i.n → sumTo n (fun k => if k + 1 ∈ as then i.prize (k + 1) else 0) ≤
      sumTo n (fun k => if k + 1 ∈ bs then i.prize (k + 1) else 0) := by
    intro n
    induction n with
    | zero => intro _; simp [sumTo]
    | succ n ih =>
      intro hn
      have := ih (by omega)
      have hp' := hp (n + 1) (by omega) hn
      simp only [sumTo]
      by_cases ha : n + 1 ∈ as
      · simp [ha, h _ ha]; omega
      · by_cases hb : n + 1 ∈ bs <;> simp [ha, hb] <;> omega
  exact key i.n (Nat.le_refl _)

/-- feasibility is monotone in the budget, `FeasibleWithin` in the tolerance, and tolerance 0 is feasibility -/
theorem feasible_mono (i : Inst) (L' : Int) (h : i.L ≤ L') {as : List Nat} (hf : Feasible i as) :
    Feasible { i with L := L' } as :=
  ⟨hf.range, hf.once, by have := hf.length; simp only [tourLen] at this ⊢; omega⟩

theorem feasibleWithin_mono (i : Inst) {t t' : Int} (h : t ≤ t') {as : List Nat} (hf : FeasibleWithin t i as) :
    FeasibleWithin t' i as :=
  ⟨hf.range, hf.once, by have := hf.length; omega⟩

theorem feasibleWithin_zero_iff (i : Inst) (as : List Nat) : FeasibleWithin 0 i as ↔ Feasible i as :=
  ⟨fun h => ⟨h.range, h.once, by simpa using h.length⟩, fun h => ⟨h.range, h.once, by simpa using h.length⟩⟩

/-- the symmetry of the problem: on a symmetric distance matrix a tour and its reversal have the same
length, the same prize, and are feasible together -/
theorem tourLen_reverse (i : Inst) (hsym : ∀ a b, i.D a b = i.D b a) (as : List Nat) :
    tourLen i as.reverse = tourLen i as := by
  simp only [tourLen]
  have : 0 :: as.reverse ++ [0] = (0 :: as ++ [0]).reverse := by simp
  rw [this, pathLen_reverse i.D hsym]

theorem feasible_reverse (i : Inst) (hsym : ∀ a b, i.D a b = i.D b a) {as : List Nat} (hf : Feasible i as) :
    Feasible i as.reverse ∧ objective i as.reverse = objective i as :=
  ⟨⟨fun a ha => hf.range a (List.mem_reverse.mp ha), fun j h1 h2 => by rw [List.count_reverse]; exact hf.once j h1 h2,
    by rw [tourLen_reverse i hsym]; exact hf.length⟩,
   objective_perm i (List.reverse_perm as)⟩

end Rl4co.Spec.Op
