/-
C01 for CVRPTW: every mask-confined episode that the environment declares finished is a feasible
CVRPTW solution by the independent definition `Spec.Cvrptw.Feasible` (customers exactly once, route
loads within capacity, every service started within its window, every route back at the depot within
the depot's window) — for every instance with capacity ≥ 0 satisfying `RetOK` and every admitted action
sequence.  The CVRP part is inherited from `Cvrp.feasible_of_run` through the projection `run_base`
(the model embeds the CVRP model exactly as the class extends `CVRPEnv`).  `RetOK` is needed only for
the *implicit* return of the last route when the episode ends at a customer (the mask tests every
explicit return); the bundled generator guarantees it (`max_ts ≤ max_time − dist − duration`).
-/
import Rl4co.Env.Cvrptw
import Rl4co.Spec.Cvrptw
import Rl4co.Props.C01.Cvrp

namespace Rl4co.Cvrptw
open Rl4co.Spec.Cvrptw

/-- A mask-confined run of CVRPTW projects to a mask-confined run of the embedded CVRP model. -/
theorem run_base (i : Inst) {s s' : State} {as : List Nat} (h : Run env i s as s') :
    Run Cvrp.env i.base s.base as s'.base := by
  induction h with
  | nil s => exact Run.nil _
  | @cons s s' a as ha hm _ ih =>
    have hm' : (Cvrp.mask i.base s.base a && canReach i s a) = true := hm
    rw [Bool.and_eq_true] at hm'
    exact Run.cons ha hm'.1 ih

/-- the flat clock along an action list, as the mask sees it -/
def clockOk (i : Inst) : Int → Nat → List Nat → Bool
  | _, _, [] => true
  | t, cur, a :: as =>
    decide (t + i.base.D cur a ≤ i.twE a) &&
      clockOk i (if a ≠ 0 then max (t + i.base.D cur a) (i.twS a) + i.dur a else 0) a as

/-- the clock update of `_step` in the shape the proofs use; holds because the extracted source shape is
`(action != 0) * (max(current_time + distance, tw_start) + duration)` (`Params.cvrptwStepDepotCmp = ne`,
`Params.cvrptwStepDurAfterMax = true`): a source edit of either breaks this proof. -/
theorem step_time (i : Inst) (s : State) (a : Nat) :
    (env.step i s a).time = (if a ≠ 0 then max (s.time + s.dist a) (i.twS a) + i.dur a else 0) := by
  simp [env, step, refresh, Params.cvrptwStepDepotCmp, Params.cvrptwStepDurAfterMax, Cmp.evalNat]

/-- the cache invariant: `distances` is the row of the current node -/
def CacheOk (i : Inst) (s : State) : Prop := ∀ j, s.dist j = i.base.D s.base.cur j

theorem cache_refresh (i : Inst) (b : Cvrp.State) (t : Int) : CacheOk i (refresh i b t) := fun _ => rfl

theorem clock_of_run (i : Inst) {s s' : State} {as : List Nat} (h : Run env i s as s')
    (hc : CacheOk i s) : clockOk i s.time s.base.cur as = true := by
  induction h with
  | nil s => rfl
  | @cons s s' a as ha hm _ ih =>
    have hm' : (Cvrp.mask i.base s.base a && canReach i s a) = true := hm
    rw [Bool.and_eq_true] at hm'
    have h2 := hm'.2
    simp only [canReach, Params.cvrptwMaskTwCmp, Cmp.eval] at h2
    have ih' := ih (cache_refresh i _ _)
    simp only [clockOk, Bool.and_eq_true]
    refine ⟨h2, ?_⟩
    have : (env.step i s a).time = (if a ≠ 0 then max (s.time + i.base.D s.base.cur a) (i.twS a) + i.dur a else 0) := by
      rw [step_time, hc a]
    have hcur : (env.step i s a).base.cur = a := rfl
    rw [this, hcur] at ih'
    exact ih'

end Rl4co.Cvrptw

namespace Rl4co.Cvrptw
open Rl4co.Spec.Cvrptw

/-- well-formedness needed for the return legs: from every customer the depot is reached in time even
when the service started at the latest admissible moment; and the null trip depot→depot is in time -/
structure RetOK (i : Inst) : Prop where
  depot : i.base.D 0 0 ≤ i.twE 0
  ret   : ∀ j, 1 ≤ j → j ≤ i.base.n → max (i.twS j) (i.twE j) + i.dur j + i.base.D j 0 ≤ i.twE 0

/-- flat clock ⇒ per-route clocks of the specification (the open last route returns in time by `RetOK`) -/
theorem routes_of_clock (i : Inst) (hw : RetOK i) (as : List Nat) :
    ∀ t cur, (∀ a ∈ as, a ≤ i.base.n) → clockOk i t cur as = true → t + i.base.D cur 0 ≤ i.twE 0 →
      ∀ r rs, routes as = r :: rs → routeOk i t cur r = true ∧ ∀ r' ∈ rs, routeOk i 0 0 r' = true := by
  induction as with
  | nil =>
    intro t cur _ _ hret r rs hr
    simp only [routes, List.cons.injEq] at hr
    obtain ⟨h1, h2⟩ := hr; subst h1 h2
    simp [routeOk, hret]
  | cons a as ih =>
    intro t cur hrange hc hret r rs hr
    obtain ⟨r1, rs1, h1⟩ := routes_cons_exists as
    simp only [clockOk, Bool.and_eq_true, decide_eq_true_eq] at hc
    obtain ⟨hc1, hc2⟩ := hc
    have hrange' : ∀ b ∈ as, b ≤ i.base.n := fun b hb => hrange b (by simp [hb])
    by_cases h0 : a = 0
    · subst h0
      simp only [routes, if_true, List.cons.injEq] at hr
      obtain ⟨e1, e2⟩ := hr; subst e1 e2
      simp only [ne_eq, not_true_eq_false, if_false] at hc2
      have := ih 0 0 hrange' hc2 (by have := hw.depot; omega) r1 rs1 h1
      refine ⟨by simp [routeOk, hc1], ?_⟩
      intro r' hr'
      rw [h1] at hr'
      rcases List.mem_cons.mp hr' with hh | hh
      · subst hh; exact this.1
      · exact this.2 r' hh
    · simp only [routes, h0, if_false, h1, List.cons.injEq] at hr
      obtain ⟨e1, e2⟩ := hr; subst e1 e2
      simp only [ne_eq, h0, not_false_eq_true, if_true] at hc2
      have han : a ≤ i.base.n := hrange a (by simp)
      have hret' := hw.ret a (by omega) han
      have := ih _ a hrange' hc2 (by omega) r1 rs1 h1
      refine ⟨?_, this.2⟩
      simp only [routeOk, Bool.and_eq_true, decide_eq_true_eq]
      exact ⟨hc1, this.1⟩

/-- **C01 (CVRPTW).** -/
theorem feasible_of_run (i : Inst) (hcap : 0 ≤ i.base.cap) (hw : RetOK i) {as : List Nat} {s : State}
    (h : Run env i (env.reset i) as s) (hd : env.done i s = true) : Feasible i as := by
  have hb := Cvrp.feasible_of_run i.base hcap (run_base i h) hd
  refine ⟨hb, ?_⟩
  have hc := clock_of_run i h (cache_refresh i _ _)
  obtain ⟨r1, rs1, h1⟩ := routes_cons_exists as
  have := routes_of_clock i hw as 0 0 hb.range hc (by have := hw.depot; omega) r1 rs1 h1
  intro r hr
  rw [h1] at hr
  rcases List.mem_cons.mp hr with hh | hh
  · subst hh; exact this.1
  · exact this.2 r hh

/-- Non-vacuity: two customers on a line (depot 0, customer 1 at distance 2, customer 2 at distance 3,
one apart), windows met with equality: customer 1 exactly at its deadline 2, customer 2 at 3 after
service time 0, back at the depot exactly at the depot deadline 6. -/
def exInst : Inst :=
  { base := ⟨2, 8, fun _ => 4, fun a b => if a = b then 0 else if a = 0 then (b : Int) + 1 else if b = 0 then (a : Int) + 1 else 1⟩
    twS := fun _ => 0, twE := fun j => if j = 0 then 6 else if j = 1 then 2 else 3, dur := fun _ => 0 }

example : RetOK exInst := by
  refine ⟨by decide, ?_⟩
  intro j h1 h2
  have h2' : j ≤ 2 := h2
  have : j = 1 ∨ j = 2 := by omega
  rcases this with h | h <;> subst h <;> decide

example : ∃ s, Run env exInst (env.reset exInst) [1, 2, 0] s ∧ env.done exInst s = true := by
  refine ⟨_, (run_iff_admitted _ _ _ _ _).2 ⟨by decide, rfl⟩, by decide⟩

end Rl4co.Cvrptw
