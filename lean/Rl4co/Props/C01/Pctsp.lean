/-
C01 for PCTSP / SPCTSP: every mask-confined episode that the environment declares finished is a
feasible prize-collecting solution by the independent definition `Spec.Pctsp.Feasible`: nodes in
range, every customer at most once, and the REAL prize collected (the stochastic one when
`stochastic = true`) reaches the requirement unless every customer was visited — for every instance
(any number of customers, any prizes incl. zero or negative ones, any penalties, any distances) and
every admitted action sequence.  No well-formedness hypothesis is needed.
-/
import Rl4co.Env.Pctsp
import Rl4co.Spec.Pctsp
import Rl4co.Proofs.OpShared
import Rl4co.Proofs.PctspGenerated

namespace Rl4co.Pctsp
open Rl4co.Spec.Pctsp Rl4co.Prize

/-- what the mask says about an admitted customer -/
theorem mask_customer {i : Inst} {s : State} {a : Nat} (h0 : a ≠ 0) (hm : mask i s a = true) :
    s.vis a = false ∧ s.vis 0 = false := by
  simpa [mask, h0] using hm

/-- the mask's literal is 1.0: the requirement of the problem (extracted constant `1.0`) -/
theorem maskReq_eq (i : Inst) : maskReq i = i.req := by
  simp [maskReq, Params.pctspMaskPrizeConst]

/-- what the mask says about an admitted depot visit -/
theorem mask_depot {i : Inst} {s : State} (hm : mask i s 0 = true) :
    i.req ≤ s.tot ∨ visitedCustomers i s = i.n := by
  simp only [mask, if_true, maskReq_eq, Params.pctspMaskPrizeCmp, Params.pctspMaskCountCmp, Cmp.eval, Cmp.evalNat,
    Bool.not_eq_true', Bool.and_eq_false_iff, decide_eq_false_iff_not] at hm
  have hle : visitedCustomers i s ≤ i.n := cnt_le _ _
  rcases hm with h | h
  · exact Or.inl (by omega)
  · exact Or.inr (by omega)

/-- Visited-set part, generalised over the start state. -/
theorem visits_of_run (i : Inst) {s s' : State} {as : List Nat} (h : Run env i s as s') :
    (∀ a ∈ as, a ≤ i.n) ∧
    (∀ j, 1 ≤ j → s.vis j = true → j ∉ as) ∧
    (∀ j, 1 ≤ j → as.count j ≤ 1) ∧
    (∀ j, s'.vis j = (s.vis j || decide (j ∈ as))) := by
  induction h with
  | nil s => simp
  | @cons s s' a as ha hm _ ih =>
    simp only [env] at ha hm ih
    obtain ⟨ih1, ih2, ih3, ih4⟩ := ih
    have hvis : a ≠ 0 → s.vis a = false := fun h0 => (mask_customer h0 hm).1
    refine ⟨?_, ?_, ?_, ?_⟩
    · intro b hb
      rcases List.mem_cons.mp hb with hh | hh
      · subst hh; omega
      · exact ih1 b hh
    · intro j hj hv hmem
      rcases List.mem_cons.mp hmem with hh | hh
      · subst hh
        have := hvis (by omega)
        simp [hv] at this
      · have : (step i s a).vis j = true := by
          simp only [step, upd_apply]; split <;> simp [hv]
        exact ih2 j hj this hh
    · intro j hj
      rw [List.count_cons]
      by_cases hja : a = j
      · subst hja
        have : (step i s a).vis a = true := by simp [step]
        have := ih2 a hj this
        simp [List.count_eq_zero_of_not_mem this]
      · have := ih3 j hj
        simp [hja]; exact this
    · intro j
      rw [ih4 j]
      simp only [step, upd_apply, List.mem_cons]
      by_cases hja : j = a <;> simp [hja]

/-- `cur_total_prize` after a run (no mask needed): the real prize gathered along the actions. -/
theorem tot_of_run (i : Inst) {s s' : State} {as : List Nat} (h : Run env i s as s') :
    s'.tot = s.tot + gatherSum (realPrize i) as := by
  induction h with
  | nil s => simp [gatherSum]
  | @cons s s' a as _ _ _ ih =>
    have hs := step_tot i s a  -- through the generated `_step` expression and the `real_prize` token
    simp only [env] at ih
    rw [ih, hs]
    simp only [gatherSum, List.map_cons, List.sum_cons]
    omega

/-- a depot step does not change the number of visited customers -/
theorem visitedCustomers_step_depot (i : Inst) (s : State) :
    visitedCustomers i (step i s 0) = visitedCustomers i s := by
  unfold visitedCustomers
  apply cnt_congr
  intro k _
  simp [step]

/-- state invariant: a finished state has returned to the depot after at least one step, and the
depot is marked visited only when the prize rule allowed the return. -/
structure Inv (i : Inst) (s : State) : Prop where
  done_vis : s.done = true → s.vis 0 = true
  vis_pos  : s.vis 0 = true → 0 < s.i
  vis_ok   : s.vis 0 = true → i.req ≤ s.tot ∨ visitedCustomers i s = i.n

theorem inv_reset (i : Inst) : Inv i (env.reset i) :=
  ⟨by simp [env, reset], by simp [env, reset], by simp [env, reset]⟩

theorem inv_step (i : Inst) (s : State) (a : Nat) (_ : Inv i s) (hm : env.mask i s a = true) :
    Inv i (env.step i s a) := by
  simp only [env] at hm
  refine ⟨?_, ?_, ?_⟩
  · intro h
    simp only [env, step, Bool.and_eq_true, beq_iff_eq] at h
    simp [env, step, h.2]
  · intro _; simp [env, step]
  · intro hv
    by_cases h0 : a = 0
    · subst h0
      have := mask_depot hm
      simp only [env]
      rw [visitedCustomers_step_depot]
      simpa [step, padded] using this
    · exfalso
      have h2 := (mask_customer h0 hm).2
      have : (0 : Nat) ≠ a := fun h => h0 h.symm
      simp [env, step, this, h2] at hv

theorem inv_of_reach' (i : Inst) {s : State} (h : Reach env i s) : Inv i s :=
  inv_of_reach (Inv := Inv i) (inv_reset i) (fun s a hi _ hm => inv_step i s a hi hm) h

/-- **C01 (PCTSP / SPCTSP).** -/
theorem feasible_of_run (i : Inst) {as : List Nat} {s : State}
    (h : Run env i (env.reset i) as s) (hd : env.done i s = true) : Feasible i as := by
  obtain ⟨h1, _, h3, h4⟩ := visits_of_run i h
  have hinv := inv_of_reach' i ⟨as, h⟩
  have htot := tot_of_run i h
  refine ⟨h1, fun j hj _ => h3 j hj, ?_⟩
  have hv := hinv.done_vis hd
  rcases hinv.vis_ok hv with hp | hall
  · left
    simp only [collected]
    rw [← gatherSum_eq_sumTo i.n (realPrize i) as h1 (fun j hj _ => h3 j hj)]
    simp only [env, reset, Int.zero_add] at htot
    omega
  · right
    intro j hj1 hj2
    have := cnt_eq_n.mp hall (j - 1) (by omega)
    have e : j - 1 + 1 = j := by omega
    simp only [e] at this
    rw [h4 j] at this
    simpa [env, reset] using this

/-- Non-vacuity: three customers with prizes 1/2, 1/2, 1/4 (requirement 1 = 4 units): the episode
`[1, 2, 0]` collects exactly the requirement and is finished; SPCTSP sees other real prizes. -/
def exInst : Inst :=
  { n := 3, req := 4, D := fun a b => if a = b then 0 else 10, detPrize := fun j => if j = 3 then 1 else 2,
    stoPrize := fun j => if j = 1 then 4 else 0, stochastic := false, pen := fun j => (j : Int) }

example : ∃ s, Run env exInst (env.reset exInst) [1, 2, 0] s ∧ env.done exInst s = true := by
  refine ⟨_, (run_iff_admitted _ _ _ _ _).2 ⟨by decide, rfl⟩, by decide⟩
example : ∃ s, Run env { exInst with stochastic := true } (env.reset exInst) [1, 0] s ∧
    env.done exInst s = true := by
  refine ⟨_, (run_iff_admitted _ _ _ _ _).2 ⟨by decide, rfl⟩, by decide⟩

end Rl4co.Pctsp
