/-
C01 for mTSP: every mask-confined episode that the environment declares finished — whether or not it
was padded with further depot steps afterwards — visits every customer exactly once and uses at most
`m` (non-empty) tours, for every instance with `m ≥ 1` agents, any number of customers, any distances.
-/
import Rl4co.Proofs.Mtsp

namespace Rl4co.Mtsp
open Rl4co.Spec.Mtsp

/-- number of departures from the depot along `as`, `p` being the node visited before -/
def starts : Nat → List Nat → Nat
  | _, [] => 0
  | p, a :: as => (if a ≠ 0 ∧ p = 0 then 1 else 0) + starts a as

/-- number of non-empty lists -/
def nonEmpty (l : List (List Nat)) : Nat := (l.filter (fun r => !r.isEmpty)).length

theorem tours_starts_aux (as : List Nat) :
    nonEmpty (routes as) = starts 0 as ∧
    ∀ p r rs, p ≠ 0 → routes as = r :: rs → starts p as = nonEmpty rs := by
  induction as with
  | nil =>
    refine ⟨by simp [routes, nonEmpty, starts], ?_⟩
    intro p r rs _ h
    simp only [routes, List.cons.injEq] at h
    obtain ⟨_, h2⟩ := h; subst h2
    simp [starts, nonEmpty]
  | cons b bs ih =>
    obtain ⟨ihA, ihB⟩ := ih
    obtain ⟨r1, rs1, h1⟩ := routes_cons_exists bs
    by_cases hb : b = 0
    · subst hb
      refine ⟨?_, ?_⟩
      · simp only [routes, if_true, starts]
        simp only [nonEmpty] at ihA ⊢
        simp [ihA]
      · intro p r rs _ h
        simp only [routes, if_true, List.cons.injEq] at h
        obtain ⟨_, h2⟩ := h; subst h2
        simp [starts, ihA]
    · refine ⟨?_, ?_⟩
      · simp only [routes, hb, if_false, h1, starts]
        have := ihB b r1 rs1 hb h1
        simp only [nonEmpty] at this ⊢
        simp [this, hb]
        omega
      · intro p r rs hp h
        simp only [routes, hb, if_false, h1, List.cons.injEq] at h
        obtain ⟨_, h2⟩ := h; subst h2
        have := ihB b r1 rs1 hb h1
        simp [starts, hp, this]

/-- the number of (non-empty) tours is the number of departures from the depot -/
theorem tours_length_eq_starts (as : List Nat) : (tours as).length = starts 0 as :=
  (tours_starts_aux as).1

/-- Visited-set part, generalised over the start state. -/
theorem visits_of_run (i : Inst) {s s' : State} {as : List Nat} (h : Run env i s as s') :
    (∀ a ∈ as, a ≤ i.n) ∧
    (∀ j, 1 ≤ j → s.avail j = false → j ∉ as) ∧
    (∀ j, 1 ≤ j → as.count j ≤ 1) ∧
    (∀ j, 1 ≤ j → s'.avail j = (s.avail j && !decide (j ∈ as))) := by
  induction h with
  | nil s => simp
  | @cons s s' a as ha hm _ ih =>
    simp only [env] at ha hm ih
    obtain ⟨ih1, ih2, ih3, ih4⟩ := ih
    have hm' : s.avail a = true := hm
    refine ⟨?_, ?_, ?_, ?_⟩
    · intro b hb
      rcases List.mem_cons.mp hb with hh | hh
      · subst hh; omega
      · exact ih1 b hh
    · intro j hj hv hmem
      rcases List.mem_cons.mp hmem with hh | hh
      · subst hh; rw [hv] at hm'; cases hm'
      · have : (step i s a).avail j = false := by
          rw [step_avail_cust i s a j (by omega)]; split <;> simp [hv]
        exact ih2 j hj this hh
    · intro j hj
      rw [List.count_cons]
      by_cases hja : a = j
      · subst hja
        have : (step i s a).avail a = false := by
          rw [step_avail_cust i s a a (by omega)]; simp
        have := ih2 a hj this
        simp [List.count_eq_zero_of_not_mem this]
      · have := ih3 j hj
        simp [hja]; exact this
    · intro j hj
      rw [ih4 j hj, step_avail_cust i s a j (by omega)]
      simp only [List.mem_cons]
      by_cases hja : j = a <;> simp [hja]

/-- agents left for further departures -/
def budget (i : Inst) (s : State) : Nat :=
  if s.done then 0 else if s.cur = 0 then i.m - s.agent else i.m - s.agent - 1

/-- Tour-count part, generalised over the start state. -/
theorem starts_of_run (i : Inst) {s s' : State} {as : List Nat} (h : Run env i s as s')
    (hi : Inv i s) : starts s.cur as ≤ budget i s := by
  induction h with
  | nil s => simp [starts]
  | @cons s s' a as ha hm _ ih =>
    simp only [env] at ha hm ih
    have hm' : s.avail a = true := hm
    have hi' := inv_step hi ha hm'
    have ih := ih hi'
    simp only [step_cur] at ih
    cases hd : s.done with
    | true =>
      have h0 := mask_of_done hi hd ha hm'
      subst h0
      have hd' := done_step_of_done hi hd
      have hb : budget i (step i s 0) = 0 := by simp [budget, hd']
      have hs : starts s.cur (0 :: as) = starts 0 as := by simp [starts]
      rw [hs]; omega
    | false =>
      have hag := hi.agentOk hd
      have hbs : budget i s = if s.cur = 0 then i.m - s.agent else i.m - s.agent - 1 := by
        simp [budget, hd]
      by_cases h0 : a = 0
      · subst h0
        obtain ⟨hc, hlt⟩ := hi.depot hd hm'
        have hb : budget i (step i s 0) ≤ i.m - (s.agent + 1) := by
          unfold budget; simp only [step_cur, step_agent, if_true]; split <;> omega
        have hs : starts s.cur (0 :: as) = starts 0 as := by simp [starts]
        rw [hs, hbs, if_neg hc]; omega
      · have hb : budget i (step i s a) ≤ i.m - s.agent - 1 := by
          unfold budget; simp only [step_cur, step_agent, h0, if_false]; split <;> omega
        have hs : starts s.cur (a :: as) = (if s.cur = 0 then 1 else 0) + starts a as := by
          simp [starts, h0]
        rw [hs, hbs]
        by_cases hc : s.cur = 0 <;> simp only [hc, if_true, if_false] <;> omega

/-- **C01 (mTSP).** -/
theorem feasible_of_run (i : Inst) (hm : 1 ≤ i.m) {as : List Nat} {s : State}
    (h : Run env i (env.reset i) as s) (hd : env.done i s = true) : Feasible i as := by
  obtain ⟨h1, _, h3, h4⟩ := visits_of_run i h
  have hd' : s.done = true := hd
  -- the run is non-empty, so its last state is the result of a step
  have hno : ∀ j, 1 ≤ j → j ≤ i.n → s.avail j = false := by
    have := Rl4co.inv_of_run (e := env) (i := i)
      (Inv := fun s _ => s.done = true → ∀ j, 1 ≤ j → j ≤ i.n → s.avail j = false)
      (by simp [env, reset]) (fun s _ a _ _ _ => fun hh => step_done_true hh) h
    exact this hd'
  refine ⟨h1, ?_, ?_⟩
  · intro j hj1 hj2
    have hv := hno j hj1 hj2
    rw [h4 j hj1] at hv
    have hr : (env.reset i).avail j = true := by simp [env, reset]; omega
    rw [hr] at hv
    simp only [Bool.true_and, Bool.not_eq_false', decide_eq_true_eq] at hv
    have := List.count_pos_iff.mpr hv
    have := h3 j hj1
    omega
  · rw [tours_length_eq_starts]
    by_cases hn : 1 ≤ i.n
    · have := starts_of_run i h (inv_reset i hn hm)
      simpa [budget, env, reset] using this
    · -- no customers: every action is the depot
      have hall : ∀ a ∈ as, a = 0 := fun a ha => by have := h1 a ha; omega
      have : ∀ (l : List Nat) (p : Nat), (∀ a ∈ l, a = 0) → starts p l = 0 := by
        intro l
        induction l with
        | nil => intro p _; rfl
        | cons b bs ihl =>
          intro p hl
          have hb : b = 0 := hl b (by simp)
          subst hb
          simp [starts, ihl 0 (fun a ha => hl a (by simp [ha]))]
      rw [this as 0 hall]; omega

/-- Non-vacuity: a concrete instance (3 customers, 2 agents) with a finished mask-confined run that
uses both agents and is padded with a further depot step. -/
example : ∃ s, Run env ⟨3, 2, fun a b => if a = b then 0 else 1⟩
      (env.reset ⟨3, 2, fun a b => if a = b then 0 else 1⟩) [2, 0, 3, 1, 0] s ∧
    env.done ⟨3, 2, fun a b => if a = b then 0 else 1⟩ s = true := by
  refine ⟨_, (run_iff_admitted _ _ _ _ _).2 ⟨by decide, rfl⟩, by decide⟩

end Rl4co.Mtsp
