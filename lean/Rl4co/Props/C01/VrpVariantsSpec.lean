/-
Spec-level sanity lemmas for the CVRP variants (independent of the environment models): they pin down the
independent definitions so that a vacuous or mis-stated Spec would be noticed.
-/
import Rl4co.Spec.Cvrptw
import Rl4co.Spec.Sdvrp
import Rl4co.Spec.Svrp

namespace Rl4co.Spec

namespace Cvrptw
open Rl4co.Cvrptw (Inst)

/-- widening the windows' ends keeps a route in time (the clock does not depend on the ends) -/
theorem routeOk_mono (i i' : Inst) (hb : i'.base = i.base) (hS : i'.twS = i.twS) (hd : i'.dur = i.dur)
    (hE : ∀ j, i.twE j ≤ i'.twE j) (r : List Nat) : ∀ t cur, routeOk i t cur r = true → routeOk i' t cur r = true := by
  induction r with
  | nil =>
    intro t cur h
    simp only [routeOk, decide_eq_true_eq] at h ⊢
    rw [hb]; have := hE 0; omega
  | cons j r ih =>
    intro t cur h
    simp only [routeOk, Bool.and_eq_true, decide_eq_true_eq] at h ⊢
    rw [hb, hS, hd]
    exact ⟨by have := hE j; omega, ih _ j h.2⟩

/-- **monotonicity**: a solution feasible for given deadlines stays feasible when deadlines are relaxed -/
theorem feasible_mono (i i' : Inst) (hb : i'.base = i.base) (hS : i'.twS = i.twS) (hd : i'.dur = i.dur)
    (hE : ∀ j, i.twE j ≤ i'.twE j) (as : List Nat) (h : Feasible i as) : Feasible i' as :=
  ⟨by rw [hb]; exact h.base, fun r hr => routeOk_mono i i' hb hS hd hE r 0 0 (h.tw r hr)⟩

/-- a time-window-feasible solution is in particular CVRP-feasible, and the objective is CVRP's -/
theorem feasible_cvrp (i : Inst) (as : List Nat) (h : Feasible i as) : Spec.Cvrp.Feasible i.base as := h.base

/-- deadlines matter: on a one-customer instance whose deadline is before the direct arrival nothing is feasible -/
theorem infeasible_of_unreachable (i : Inst) (hn : i.base.n = 1) (hlate : i.twE 1 < i.base.D 0 1) (as : List Nat) :
    ¬ Feasible i as := by
  intro h
  have hc := h.base.once 1 (Nat.le_refl 1) (by omega)
  have hmem : 1 ∈ as := List.count_pos_iff.mp (by omega)
  -- the route containing customer 1 starts with it (it is the only customer)
  have : ∃ r ∈ routes as, ∃ r', r = 1 :: r' := by
    clear hc
    induction as with
    | nil => simp at hmem
    | cons a as ih =>
      obtain ⟨r1, rs1, h1⟩ := routes_cons_exists as
      have ha : a ≤ 1 := by have := h.base.range a (by simp); omega
      by_cases h0 : a = 0
      · subst h0
        have hm' : 1 ∈ as := by simpa using hmem
        have hf' : Feasible i as := by
          refine ⟨⟨fun b hb => h.base.range b (by simp [hb]), ?_, fun r hr => h.base.load r (by simp [routes, hr])⟩,
            fun r hr => h.tw r (by simp [routes, hr])⟩
          intro j hj1 hj2
          have := h.base.once j hj1 hj2
          have hne : (0 == j) = false := by simpa using (by omega : 0 ≠ j)
          simpa [List.count_cons, hne] using this
        obtain ⟨r, hr, r', e⟩ := ih hf' hm'
        exact ⟨r, by simp [routes, hr], r', e⟩
      · have : a = 1 := by omega
        subst this
        exact ⟨1 :: r1, by simp [routes, h1], r1, rfl⟩
  obtain ⟨r, hr, r', e⟩ := this
  have := h.tw r hr
  subst e
  simp only [routeOk, Bool.and_eq_true, decide_eq_true_eq] at this
  omega

end Cvrptw

namespace Svrp
open Rl4co.Svrp (Inst)

/-- with equal cost factors the objective is the plain total route length times that factor -/
theorem weighted_const (i : Inst) (c : Int) (hc : ∀ k, i.costs k = c) (rs : List (List Nat)) : ∀ k,
    weighted i k rs = c * (rs.map (routeLen i.D)).sum := by
  induction rs with
  | nil => intro k; simp [weighted]
  | cons r rs ih => intro k; simp only [weighted, ih, hc, List.map_cons, List.sum_cons, Int.mul_add]

theorem objective_const_costs (i : Inst) (c : Int) (hc : ∀ k, i.costs k = c) (as : List Nat) :
    objective i as = c * routesLen i.D as := by
  simp only [objective, routesLen]; exact weighted_const i c hc _ 0

/-- raising a technician's level never destroys feasibility -/
theorem routesOk_mono (i i' : Inst) (hT : i'.T = i.T) (hs : i'.skills = i.skills)
    (hl : ∀ k, i.techs k ≤ i'.techs k) (rs : List (List Nat)) : ∀ k, routesOk i k rs = true → routesOk i' k rs = true := by
  induction rs with
  | nil => intro _ _; rfl
  | cons r rs ih =>
    intro k h
    simp only [routesOk, routeOk, Bool.and_eq_true, Bool.or_eq_true, List.isEmpty_iff, List.all_eq_true,
      decide_eq_true_eq] at h ⊢
    refine ⟨?_, ih (k + 1) h.2⟩
    rcases h.1 with h1 | h1
    · exact Or.inl h1
    · refine Or.inr ⟨by rw [hT]; exact h1.1, fun j hj => ?_⟩
      rw [hs]; have := h1.2 j hj; have := hl k; omega

theorem feasible_mono (i i' : Inst) (hn : i'.n = i.n) (hT : i'.T = i.T) (hs : i'.skills = i.skills)
    (hl : ∀ k, i.techs k ≤ i'.techs k) (as : List Nat) (h : Feasible i as) : Feasible i' as :=
  ⟨by rw [hn]; exact h.range, by rw [hn]; exact h.once, routesOk_mono i i' hT hs hl _ 0 h.skill⟩

end Svrp

namespace Sdvrp
open Rl4co.Sdvrp (Inst)

theorem deliveredTo_nonneg (j : Nat) (zs : List (Nat × Int)) (h : ∀ z ∈ zs, 0 ≤ z.2) : 0 ≤ deliveredTo j zs := by
  induction zs with
  | nil => simp [deliveredTo]
  | cons z zs ih =>
    obtain ⟨a, q⟩ := z
    have hq := h (a, q) (by simp)
    have := ih (fun z hz => h z (by simp [hz]))
    simp only [deliveredTo]
    split <;> omega

/-- a feasible split-delivery solution exists only for non-negative demands -/
theorem demand_nonneg_of_feasible (i : Inst) (as : List Nat) (h : Feasible i as) (j : Nat) (h1 : 1 ≤ j) (h2 : j ≤ i.n) :
    0 ≤ i.demand j := by
  obtain ⟨qs, _, hv⟩ := h
  rw [← hv.served j h1 h2]
  exact deliveredTo_nonneg j _ hv.nonneg

/-- a customer with positive demand must be visited -/
theorem visited_of_feasible (i : Inst) (as : List Nat) (h : Feasible i as) (j : Nat) (h1 : 1 ≤ j) (h2 : j ≤ i.n)
    (hpos : 0 < i.demand j) : j ∈ as := by
  obtain ⟨qs, _, hv⟩ := h
  have hs := hv.served j h1 h2
  apply Classical.byContradiction
  intro hn
  have : ∀ zs : List (Nat × Int), (∀ z ∈ zs, z.1 ≠ j) → deliveredTo j zs = 0 := by
    intro zs
    induction zs with
    | nil => intro _; rfl
    | cons z zs ih =>
      intro hz
      obtain ⟨a, q⟩ := z
      have ha : a ≠ j := hz (a, q) (by simp)
      simp only [deliveredTo, ha, if_false, Int.zero_add]
      exact ih (fun z hz' => hz z (by simp [hz']))
  have h0 := this (as.zip qs) (fun z hz e => hn (e ▸ (List.of_mem_zip hz).1))
  omega

end Sdvrp
end Rl4co.Spec
