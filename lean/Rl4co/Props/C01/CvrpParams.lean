/-
Translator obligations for the CVRP model.  Three source tokens are *parameters* of the model
(`Params.cvrpMaskCapCmp`, `cvrpCheckCapCmp`, `cvrpDoneCmp`: the proofs unfold them); the remaining
decision-critical tokens of `cvrp/env.py` are hard-coded in `Rl4co/Env/Cvrp.lean` exactly as the
source had them when the model was written.  `harness/extract.py` reads all of them from the CURRENT
source on every run; this theorem states that the source still says what the model hard-codes, so a
one-token edit of the source (depot rule, load-reset factor, checker clamp, checker tolerance) breaks
this obligation at `lake build` and the check goes into its failing-input search.
-/
import Rl4co.Env.Cvrp

namespace Rl4co.Cvrp

theorem params_match :
    Params.cvrpMaskCapCmp = .gt ∧      -- get_action_mask: demand + used_capacity > vehicle_capacity
    Params.cvrpDoneCmp = .eq ∧         -- _step: visited.sum(-1) == visited.size(-1)
    Params.cvrpDepotCurCmp = .eq ∧     -- get_action_mask: current_node == 0          (`s.cur == 0` in `mask`)
    Params.cvrpDepotAnyCmp = .gt ∧     -- get_action_mask: (mask_loc == 0).sum(-1) > 0  (`anyLoc`)
    Params.cvrpStepDepotCmp = .ne ∧    -- _step: (current_node != 0) load-reset factor (`if a ≠ 0` in `step`)
    Params.cvrpCheckCapCmp = .le ∧     -- checker: used_cap <= vehicle_capacity + tol
    Params.cvrpCheckClampCmp = .lt ∧   -- checker: used_cap[used_cap < 0] = 0          (`if u < 0` in `checkLoads`)
    Params.cvrpCheckTol = (1, 100000)  -- checker tolerance 1e-5 (the harness converts it to ticks)
    := by decide

end Rl4co.Cvrp
