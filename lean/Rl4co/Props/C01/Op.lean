/-
C01 for OP: every mask-confined episode (finished or not, with or without padding steps) is a feasible
orienteering solution by the independent definition `Spec.Op.Feasible`: nodes in range, every
customer at most once, and the tour depot → actions → depot is not longer than `max_length` — for
every instance (any number of customers, any distances, any prizes) and every admitted action
sequence.  The only facts used about the budgets the code pre-computes are `budget j ≤ L − D j 0`
(the harness checks the pre-computation against this on every instance it generates).
-/
import Rl4co.Env.Op
import Rl4co.Spec.Op
import Rl4co.Proofs.OpShared
import Rl4co.Proofs.OpGenerated

namespace Rl4co.Op
open Rl4co.Spec.Op Rl4co.Prize

/-- well-formed instance: the depot is at distance 0 from itself, the budget is not negative, and the
pre-computed per-node budget leaves room for the way back. -/
structure WF (i : Inst) : Prop where
  d00 : i.D 0 0 = 0
  Lnonneg : 0 ≤ i.L
  budget_le : ∀ j, 1 ≤ j → j ≤ i.n → i.budget j ≤ i.L - i.D j 0

/-- what the mask says about an admitted customer -/
theorem mask_customer {i : Inst} {s : State} {a : Nat} (h0 : a ≠ 0) (hm : mask i s a = true) :
    s.vis a = false ∧ s.vis 0 = false ∧ s.len + i.D s.cur a ≤ i.budget a := by
  simp only [mask, h0, if_false, baseMask, exceeds, Params.opMaskLenCmp, Cmp.eval, Bool.not_eq_true',
    Bool.or_eq_false_iff, decide_eq_false_iff_not] at hm
  obtain ⟨⟨h1, h2⟩, h3⟩ := hm
  exact ⟨h1, h2, by omega⟩

/-- Visited-set part, generalised over the start state. -/
theorem visits_of_run (i : Inst) {s s' : State} {as : List Nat} (h : Run env i s as s') :
    (∀ a ∈ as, a ≤ i.n) ∧
    (∀ j, 1 ≤ j → s.vis j = true → j ∉ as) ∧
    (∀ j, 1 ≤ j → as.count j ≤ 1) ∧
    (∀ j, s'.vis j = (s.vis j || decide (j ∈ as))) := by
  induction h with
  | nil s => simp
  | @cons s s' a as ha hm _ ih =>
    simp only [env] at ha hm ih
    obtain ⟨ih1, ih2, ih3, ih4⟩ := ih
    have hvis : a ≠ 0 → s.vis a = false := fun h0 => (mask_customer h0 hm).1
    refine ⟨?_, ?_, ?_, ?_⟩
    · intro b hb
      rcases List.mem_cons.mp hb with hh | hh
      · subst hh; omega
      · exact ih1 b hh
    · intro j hj hv hmem
      rcases List.mem_cons.mp hmem with hh | hh
      · subst hh
        have := hvis (by omega)
        simp [hv] at this
      · have : (step i s a).vis j = true := by
          simp only [step, upd_apply]; split <;> simp [hv]
        exact ih2 j hj this hh
    · intro j hj
      rw [List.count_cons]
      by_cases hja : a = j
      · subst hja
        have : (step i s a).vis a = true := by simp [step]
        have := ih2 a hj this
        simp [List.count_eq_zero_of_not_mem this]
      · have := ih3 j hj
        simp [hja]; exact this
    · intro j
      rw [ih4 j]
      simp only [step, upd_apply, List.mem_cons]
      by_cases hja : j = a <;> simp [hja]

/-- `tour_length` and `current_node` after a run (no mask needed): the open path so far. -/
theorem len_of_run (i : Inst) {s s' : State} {as : List Nat} (h : Run env i s as s') :
    s'.len = s.len + pathLen i.D (s.cur :: as) ∧ s'.cur = (s.cur :: as).getLast (by simp) := by
  induction h with
  | nil s => simp [pathLen]
  | @cons s s' a as _ _ _ ih =>
    obtain ⟨ih1', ih2'⟩ := ih
    have hl := step_len i s a  -- through the generated `_step` expression
    have ih2 : s'.cur = (a :: as).getLast (by simp) := ih2'
    have ih1 : s'.len = (step i s a).len + pathLen i.D (a :: as) := ih1'
    rw [hl] at ih1
    refine ⟨?_, ?_⟩
    · rw [ih1, pathLen_cons_cons]; omega
    · rw [ih2]; exact (List.getLast_cons (List.cons_ne_nil a as)).symm

/-- invariant: closing the tour from the current node fits into the budget -/
def CanReturn (i : Inst) (s : State) : Prop := s.len + i.D s.cur 0 ≤ i.L

theorem canReturn_reset (i : Inst) (hwf : WF i) : CanReturn i (env.reset i) := by
  simp [CanReturn, env, reset, hwf.d00, hwf.Lnonneg]

theorem canReturn_step (i : Inst) (hwf : WF i) (s : State) (a : Nat) (hinv : CanReturn i s)
    (ha : a < env.nAct i) (hm : env.mask i s a = true) : CanReturn i (env.step i s a) := by
  simp only [env] at ha hm
  by_cases h0 : a = 0
  · subst h0
    simp only [CanReturn, env, step, hwf.d00] at hinv ⊢
    omega
  · obtain ⟨_, _, h3⟩ := mask_customer h0 hm
    have := hwf.budget_le a (by omega) (by omega)
    simp only [CanReturn, env, step]
    omega

theorem canReturn_of_run (i : Inst) (hwf : WF i) {as : List Nat} {s : State}
    (h : Run env i (env.reset i) as s) : CanReturn i s :=
  inv_of_reach (Inv := CanReturn i) (canReturn_reset i hwf)
    (fun s a hi ha hm => canReturn_step i hwf s a hi ha hm) ⟨as, h⟩

/-- **C01 (OP).**  Every mask-confined episode is a feasible orienteering solution. -/
theorem feasible_of_run (i : Inst) (hwf : WF i) {as : List Nat} {s : State}
    (h : Run env i (env.reset i) as s) : Feasible i as := by
  obtain ⟨h1, _, h3, _⟩ := visits_of_run i h
  refine ⟨h1, fun j hj _ => h3 j hj, ?_⟩
  obtain ⟨hl, hc⟩ := len_of_run i h
  have hr := canReturn_of_run i hwf h
  simp only [env, reset, Int.zero_add] at hl hc
  simp only [tourLen]
  rw [depot_tour_eq, ← hl, ← hc]
  exact hr

/-! ### the reset-time pre-computation inside the model -/

/-- the budgets are at least `m` below `L − D j 0` -/
def MarginGe (i : Inst) (m : Int) : Prop := ∀ j, 1 ≤ j → j ≤ i.n → i.budget j ≤ i.L - i.D j 0 - m

/-- `_reset` computes `max_length − dist − 1e-6` (extracted constant) up to a rounding error `rho`: the
budgets stay at least `1e-6 − rho` below `L − D j 0` … -/
theorem marginGe_of_precomp (i : Inst) (U rho m : Int) (hp : Precomp i U rho)
    (hm : 1000000 * m ≤ U - 1000000 * rho) : MarginGe i m := by
  intro j h1 h2
  have := (hp j h1 h2).2
  simp only [budgetSpecScaled, Params.opResetMargin] at this
  omega

theorem precomp_iff (i : Inst) (U rho : Int) : precomp i U rho = true ↔ Precomp i U rho := by
  simp only [precomp, List.all_eq_true, List.mem_range, Bool.and_eq_true, decide_eq_true_eq, Precomp]
  constructor
  · intro h j h1 h2
    have := h (j - 1) (by omega)
    rwa [Nat.sub_add_cancel h1] at this
  · intro h k hk
    exact h (k + 1) (by omega) (by omega)

/-- well-formedness from the pre-computation: no hypothesis about the read-back budgets other than that
they ARE the code's formula up to a rounding error smaller than the margin -/
theorem wf_of_precomp (i : Inst) (U rho : Int) (hd : i.D 0 0 = 0) (hL : 0 ≤ i.L) (hp : Precomp i U rho)
    (hrho : 1000000 * rho ≤ U) : WF i :=
  ⟨hd, hL, fun j h1 h2 => by have := marginGe_of_precomp i U rho 0 hp (by omega) j h1 h2; omega⟩

/-- **C01 (OP), with the pre-computation inside the model.** -/
theorem feasible_of_run_precomp (i : Inst) (U rho : Int) (hd : i.D 0 0 = 0) (hL : 0 ≤ i.L)
    (hp : Precomp i U rho) (hrho : 1000000 * rho ≤ U) {as : List Nat} {s : State}
    (h : Run env i (env.reset i) as s) : Feasible i as :=
  feasible_of_run i (wf_of_precomp i U rho hd hL hp hrho) h

/-- Non-vacuity: a concrete well-formed instance (budgets with a margin of one unit) with a finished
mask-confined run that uses the budget up to that margin. -/
def exInst : Inst :=
  { n := 2, L := 21, D := fun a b => if a = b then 0 else 10, prize := fun _ => 1,
    budget := fun j => if j = 0 then 20 else 10, cbound := fun _ => 22 }

example : WF exInst :=
  ⟨by decide, by decide, by
    intro j h1 h2
    have : j = 1 ∨ j = 2 := by simp only [exInst] at h2; omega
    rcases this with h | h <;> subst h <;> decide⟩

example : ∃ s, Run env exInst (env.reset exInst) [1, 0] s ∧ env.done exInst s = true := by
  refine ⟨_, (run_iff_admitted _ _ _ _ _).2 ⟨by decide, rfl⟩, by decide⟩

end Rl4co.Op
