/-
Spec-level sanity for the prize-collecting TSP Spec (`Rl4co/Spec/Pctsp.lean`), independent of the
environment model: lemmas that a vacuous or mis-stated Spec would violate.
-/
import Rl4co.Spec.Pctsp
import Rl4co.Props.C01.OpSpecSanity

namespace Rl4co.Spec.Pctsp
open Rl4co.Pctsp (Inst realPrize)
open Rl4co.Prize

/-- the tour through all customers -/
def allTour (n : Nat) : List Nat := (List.range n).map (· + 1) ++ [0]

theorem mem_allTour {n j : Nat} (hj : 1 ≤ j) : j ∈ allTour n ↔ j ≤ n := by
  simp only [allTour, List.mem_append, List.mem_map, List.mem_range, List.mem_singleton]
  constructor
  · rintro (⟨k, hk, rfl⟩ | h) <;> omega
  · intro h; exact Or.inl ⟨j - 1, by omega, by omega⟩

theorem count_customers_range (n j : Nat) (hj : 1 ≤ j) :
    ((List.range n).map (· + 1)).count j = if j ≤ n then 1 else 0 := by
  induction n with
  | zero =>
    have : ¬ j ≤ 0 := by omega
    simp [this]
  | succ n ih =>
    rw [List.range_succ, List.map_append, List.count_append, ih]
    by_cases h1 : j = n + 1
    · subst h1
      have : ¬ n + 1 ≤ n := by omega
      simp [this]
    · have h2 : (n + 1 == j) = false := by simp; omega
      by_cases h3 : j ≤ n
      · have : j ≤ n + 1 := by omega
        simp [List.count_cons, h2, h3, this]
      · have : ¬ j ≤ n + 1 := by omega
        simp [List.count_cons, h2, h3, this]

/-- a feasible solution exists for EVERY instance (whatever the prizes): visit everybody -/
theorem feasible_allTour (i : Inst) : Feasible i (allTour i.n) := by
  refine ⟨?_, ?_, Or.inr (fun j h1 h2 => (mem_allTour h1).mpr h2)⟩
  · intro a ha
    by_cases h0 : a = 0
    · omega
    · exact (mem_allTour (by omega)).mp ha
  · intro j h1 _
    rw [allTour, List.count_append, count_customers_range i.n j h1]
    have : ([0] : List Nat).count j = 0 := List.count_eq_zero_of_not_mem (by simp; omega)
    rw [this]
    split <;> omega

/-- the collected prize depends on the SET of visited customers only -/
theorem collected_congr (i : Inst) {as bs : List Nat} (h : ∀ j, 1 ≤ j → (j ∈ as ↔ j ∈ bs)) :
    collected i as = collected i bs := by
  simp only [collected]
  apply sumTo_congr
  intro k _
  have := h (k + 1) (by omega)
  by_cases hm : k + 1 ∈ as
  · simp [hm, this.mp hm]
  · have hb : ¬ k + 1 ∈ bs := fun hb => hm (this.mpr hb)
    simp [hm, hb]

/-- `FeasibleWithin` is monotone in the tolerance, and tolerance 0 is feasibility -/
theorem feasibleWithin_mono (i : Inst) {t t' : Int} (h : t ≤ t') {as : List Nat} (hf : FeasibleWithin t i as) :
    FeasibleWithin t' i as :=
  ⟨hf.range, hf.once, hf.prize.imp (fun hp => by omega) id⟩

theorem feasibleWithin_zero_iff (i : Inst) (as : List Nat) : FeasibleWithin 0 i as ↔ Feasible i as :=
  ⟨fun h => ⟨h.range, h.once, by simpa using h.prize⟩, fun h => ⟨h.range, h.once, by simpa using h.prize⟩⟩

/-- the symmetry of the problem: on a symmetric distance matrix a tour and its reversal are feasible
together and have the same objective -/
theorem feasible_reverse (i : Inst) (hsym : ∀ a b, i.D a b = i.D b a) {as : List Nat} (hf : Feasible i as) :
    Feasible i as.reverse ∧ objective i as.reverse = objective i as := by
  have hmem : ∀ j, 1 ≤ j → (j ∈ as.reverse ↔ j ∈ as) := fun j _ => List.mem_reverse
  refine ⟨⟨fun a ha => hf.range a (List.mem_reverse.mp ha),
    fun j h1 h2 => by rw [List.count_reverse]; exact hf.once j h1 h2, ?_⟩, ?_⟩
  · rcases hf.prize with hp | hall
    · left; rw [collected_congr i hmem]; exact hp
    · right; intro j h1 h2; exact List.mem_reverse.mpr (hall j h1 h2)
  · simp only [objective]
    have h1 : 0 :: as.reverse ++ [0] = (0 :: as ++ [0]).reverse := by simp
    rw [h1, pathLen_reverse i.D hsym]
    congr 1
    apply sumTo_congr
    intro k _
    simp [List.mem_reverse]

/-- lower the requirement and a feasible solution stays feasible -/
theorem feasible_mono_req (i : Inst) (r : Int) (h : r ≤ i.req) {as : List Nat} (hf : Feasible i as) :
    Feasible { i with req := r } as :=
  ⟨hf.range, hf.once, hf.prize.imp (fun hp => by
    show r ≤ collected i as
    omega) id⟩

end Rl4co.Spec.Pctsp
