/-
C01 for ATSP: every mask-confined episode that the environment declares finished visits every node
exactly once (`Spec.Atsp.Feasible`), for every instance size and every admitted action sequence.
-/
import Rl4co.Proofs.TspfamAtsp
import Rl4co.Spec.Atsp

namespace Rl4co.Atsp
open Rl4co.Tspfam

/-- **C01 (ATSP).** -/
theorem feasible_of_run (i : Inst) {as : List Nat} {s : State}
    (h : Run env i (env.reset i) as s) (hd : env.done i s = true) : Spec.Atsp.Feasible i.n as := by
  by_cases hpos : 0 < i.n
  · obtain ⟨h1, _, _, _⟩ := availEnv.visits_of_run h trivial
    exact ⟨h1, fun j hj => availEnv.count_eq_one_of_done hpos h hd hj rfl⟩
  · -- no node: the only run is the empty one, and reset is not done
    cases h with
    | nil => cases hd
    | cons ha _ _ => exact absurd ha (by simp only [env]; omega)

/-- Non-vacuity: a finished mask-confined run on three nodes. -/
example : ∃ s, Run env ⟨3, fun _ _ => 1⟩ (env.reset ⟨3, fun _ _ => 1⟩) [2, 0, 1] s ∧
    env.done ⟨3, fun _ _ => 1⟩ s = true :=
  ⟨_, (run_iff_admitted _ _ _ _ _).2 ⟨by decide, rfl⟩, by decide⟩

end Rl4co.Atsp
