/-
C01 for the multi-task VRP environment: every mask-confined episode that the environment declares
finished is a feasible solution by the independent definition `Spec.Mtvrp.Feasible` — customers visited
exactly once, linehaul and backhaul loads within capacity, no linehaul after a backhaul in a route,
service started inside the time windows (and the depot reached before it closes when routes are closed),
route length within the distance limit (return leg not counted when routes are open).

ONE statement over the feature valuation of the instance: `openR : Bool`, `limit : Option Int`,
`late : Nat → Option Int`, arbitrary backhaul demands and arbitrary travel-time matrix (any speed), so
all 16 named variants and every other combination are covered by the same proof, for any number of
customers and any mask-admitted action sequence.  Hypotheses: no customer is both linehaul and
backhaul (`Excl`, the generator's invariant) and the capacity is non-negative.
-/
import Rl4co.Proofs.MtvrpRun

namespace Rl4co.Mtvrp
open Rl4co.Spec.Mtvrp

/-- **C01 (MTVRP).** One statement over the feature valuation of the instance (open routes or not,
finite or infinite distance limit, finite or infinite time windows, backhauls or not, any speed): every
mask-confined episode that the environment declares finished is a feasible solution. -/
theorem feasible_of_run (i : Inst) (hx : Excl i) (hcap : 0 ≤ i.cap) {as : List Nat} {s : State}
    (h : Run env i (env.reset i) as s) (hd : env.done i s = true) : Feasible i as := by
  obtain ⟨h1, _, h3, h4⟩ := visits_of_run i h
  refine ⟨h1, ?_, ?_⟩
  · intro j hj1 hj2
    have hv := all_visited_of_done i s hd j (by omega)
    rw [h4 j] at hv
    simp only [env, reset, Bool.false_or, decide_eq_true_eq] at hv
    have := List.count_pos_iff.mpr hv
    have := h3 j hj1
    omega
  · intro r hr hne
    obtain ⟨r1, rs1, h5⟩ := routes_cons_exists as
    have := cont_of_run i hx hcap h (by simp [env, reset, hcap]) (by simp [env, reset, hcap]) r1 rs1 h5
    rw [h5] at hr
    rcases List.mem_cons.mp hr with hh | hh
    · subst hh
      exact routeOk_of_cont (s := reset i) rfl rfl rfl rfl rfl (this.1 hne)
    · exact this.2 r hh hne

/-- Non-vacuity: `exInst` (closed routes, a linehaul and a backhaul customer, distance limit, time
windows) and its finished mask-confined run `[1, 2, 0]`. -/
example : Excl exInst := by
  intro j _ _; simp only [exInst]; split <;> split <;> omega

example : ∃ s, Run env exInst (env.reset exInst) [1, 2, 0] s ∧ env.done exInst s = true := by
  refine ⟨_, (run_iff_admitted _ _ _ _ _).2 ⟨by decide, rfl⟩, by decide⟩

end Rl4co.Mtvrp
