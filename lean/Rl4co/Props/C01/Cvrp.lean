/-
C01 for CVRP: every mask-confined episode that the environment declares finished is a feasible
CVRP solution by the independent definition `Spec.Cvrp.Feasible` — for every instance (any number of
customers, any demands, any capacity ≥ 0, any distances) and every admitted action sequence.
-/
import Rl4co.Env.Cvrp
import Rl4co.Spec.Cvrp

namespace Rl4co.Cvrp
open Rl4co.Spec.Cvrp

/-- `clamp(a-1, 0, n-1)` selects the demand of the visited customer. -/
theorem sel_eq {n a : Nat} (h1 : a ≠ 0) (h2 : a < n + 1) : min (a - 1) (n - 1) + 1 = a := by omega

/-- Capacity part, generalised over the start state: the first route fits on top of what is already
loaded, all later routes fit on their own. -/
theorem loads_of_run (i : Inst) (hcap : 0 ≤ i.cap) {s s' : State} {as : List Nat}
    (h : Run env i s as s') (hu : s.used ≤ i.cap) :
    ∀ r rs, routes as = r :: rs →
      routeLoad i r + s.used ≤ i.cap ∧ ∀ r' ∈ rs, routeLoad i r' ≤ i.cap := by
  induction h with
  | nil s =>
    intro r rs h
    simp only [routes, List.cons.injEq] at h
    obtain ⟨h1, h2⟩ := h
    subst h1 h2
    simp [routeLoad, hu]
  | @cons s s' a as ha hm _ ih =>
    simp only [env] at ha hm ih
    intro r rs hr
    by_cases h0 : a = 0
    · subst h0
      simp only [routes, if_true, List.cons.injEq] at hr
      obtain ⟨h1, h2⟩ := hr
      subst h1 h2
      refine ⟨by simp [routeLoad, hu], ?_⟩
      obtain ⟨r1, rs1, h1⟩ := routes_cons_exists as
      have := ih (by simp [step, hcap]) r1 rs1 h1
      intro r' hr'
      rw [h1] at hr'
      rcases List.mem_cons.mp hr' with hh | hh
      · subst hh; simpa [step] using this.1
      · exact this.2 r' hh
    · obtain ⟨r1, rs1, h1⟩ := routes_cons_exists as
      simp only [routes, h0, if_false, h1, List.cons.injEq] at hr
      obtain ⟨h2, h3⟩ := hr
      subst h2 h3
      have hm' : mask i s a = true := hm
      simp only [mask, h0, if_false, locOk, Params.cvrpMaskCapCmp, Cmp.eval, Bool.and_eq_true,
        Bool.not_eq_true', decide_eq_false_iff_not] at hm'
      have hsel := sel_eq h0 ha
      have hu' : (step i s a).used ≤ i.cap := by
        simp only [step, h0, ne_eq, not_false_eq_true, if_true, hsel]; omega
      have := ih hu' r1 rs1 h1
      refine ⟨?_, this.2⟩
      have h4 := this.1
      simp only [step, h0, ne_eq, not_false_eq_true, if_true, hsel] at h4
      simp only [routeLoad, List.map_cons, List.sum_cons] at h4 ⊢
      omega

/-- Visited-set part, generalised over the start state. -/
theorem visits_of_run (i : Inst) {s s' : State} {as : List Nat} (h : Run env i s as s') :
    (∀ a ∈ as, a ≤ i.n) ∧
    (∀ j, 1 ≤ j → s.vis j = true → j ∉ as) ∧
    (∀ j, 1 ≤ j → as.count j ≤ 1) ∧
    (∀ j, s'.vis j = (s.vis j || decide (j ∈ as))) := by
  induction h with
  | nil s => simp
  | @cons s s' a as ha hm _ ih =>
    simp only [env] at ha hm ih
    obtain ⟨ih1, ih2, ih3, ih4⟩ := ih
    have hm' : mask i s a = true := hm
    have hvis : a ≠ 0 → s.vis a = false := by
      intro h0
      simp only [mask, h0, if_false, locOk, Bool.and_eq_true, Bool.not_eq_true'] at hm'
      exact hm'.1
    refine ⟨?_, ?_, ?_, ?_⟩
    · intro b hb
      rcases List.mem_cons.mp hb with hh | hh
      · subst hh; omega
      · exact ih1 b hh
    · intro j hj hv hmem
      rcases List.mem_cons.mp hmem with hh | hh
      · subst hh
        have := hvis (by omega)
        simp [hv] at this
      · have : (step i s a).vis j = true := by
          simp only [step, upd_apply]; split <;> simp [hv]
        exact ih2 j hj this hh
    · intro j hj
      rw [List.count_cons]
      by_cases hja : a = j
      · subst hja
        have : (step i s a).vis a = true := by simp [step]
        have := ih2 a hj this
        simp [List.count_eq_zero_of_not_mem this]
      · have := ih3 j hj
        simp [hja]; exact this
    · intro j
      rw [ih4 j]
      simp only [step, upd_apply, List.mem_cons]
      by_cases hja : j = a <;> simp [hja]

/-- **C01 (CVRP).** -/
theorem feasible_of_run (i : Inst) (hcap : 0 ≤ i.cap) {as : List Nat} {s : State}
    (h : Run env i (env.reset i) as s) (hd : env.done i s = true) : Feasible i as := by
  obtain ⟨h1, _, h3, h4⟩ := visits_of_run i h
  refine ⟨h1, ?_, ?_⟩
  · intro j hj1 hj2
    have hall : ∀ k, k < i.n + 1 → s.vis k = true := by
      have : cnt (i.n + 1) s.vis = i.n + 1 := by
        simpa [env, done, Params.cvrpDoneCmp, Cmp.evalNat] using hd
      exact cnt_eq_n.mp this
    have hv := hall j (by omega)
    rw [h4 j] at hv
    simp only [env, reset, Bool.false_or, decide_eq_true_eq] at hv
    have := List.count_pos_iff.mpr hv
    have := h3 j hj1
    omega
  · intro r hr
    obtain ⟨r1, rs1, h5⟩ := routes_cons_exists as
    have := loads_of_run i hcap h (by simp [env, reset, hcap]) r1 rs1 h5
    rw [h5] at hr
    rcases List.mem_cons.mp hr with hh | hh
    · subst hh; simpa [env, reset] using this.1
    · exact this.2 r hh

/-- Non-vacuity: a concrete instance with a finished mask-confined run. -/
example : ∃ s, Run env ⟨2, 8, fun _ => 4, fun _ _ => 1⟩ (env.reset ⟨2, 8, fun _ => 4, fun _ _ => 1⟩) [1, 2, 0] s ∧
    env.done ⟨2, 8, fun _ => 4, fun _ _ => 1⟩ s = true := by
  refine ⟨_, (run_iff_admitted _ _ _ _ _).2 ⟨by decide, rfl⟩, by decide⟩

end Rl4co.Cvrp
