/-
C17 — positional form of the loader theorems (model: `Rl4co/Train/Dataset.lean`).

`chunks_flatten` says that batching loses, duplicates and reorders nothing; the statements here say
*where* every instance goes, for every data set, every batch size (dividing the size of the set or not)
and every sampler order:

* `chunks_getElem?`      slot `j` of batch `k` holds element `k * bs + j` of the sampler order — and is
                         empty exactly when that position lies beyond the end (the final partial batch)
* `chunks_length`        the loader yields `⌈len / bs⌉` batches (no empty trailing batch, none dropped)
* `loader_getElem?`      slot `j` of batch `k` of the data loader is the item of index `order[k * bs + j]`
* `loader_sequential_slot`  with the sequential sampler it is instance `k * bs + j` itself
* `extra_slot`           with `ExtraKeyDataset` the extra value in that slot is that very instance's
No Mathlib needed.
-/
import Rl4co.Props.C17.Dataset
namespace Rl4co.Ops
variable {α β : Type}

theorem chunksAux_getElem? (n : Nat) (hn : 0 < n) (fuel : Nat) (xs : List α) (h : xs.length ≤ fuel)
    (k j : Nat) (hj : j < n) :
    ((chunksAux n fuel xs)[k]?).bind (·[j]?) = xs[k * n + j]? := by
  induction fuel generalizing xs k with
  | zero =>
    have : xs = [] := List.eq_nil_of_length_eq_zero (by omega)
    subst this; simp [chunksAux]
  | succ fuel ih =>
    cases xs with
    | nil => simp [chunksAux]
    | cons x xs =>
      have hl : ((x :: xs).drop n).length ≤ fuel := by
        simp only [List.length_drop, List.length_cons] at *; omega
      simp only [chunksAux]
      cases k with
      | zero =>
        simp only [List.getElem?_cons_zero, Option.bind_some, Nat.zero_mul, Nat.zero_add]
        rw [List.getElem?_take]; simp [hj]
      | succ k =>
        simp only [List.getElem?_cons_succ]
        rw [ih _ hl k, List.getElem?_drop]
        congr 1
        rw [Nat.succ_mul]; omega

/-- slot `j` of batch `k` is element `k * n + j` of the list that was cut (and the slot is empty exactly
when that position does not exist: the tail of the final, partial batch and everything after it) -/
theorem chunks_getElem? (n : Nat) (hn : 0 < n) (xs : List α) (k j : Nat) (hj : j < n) :
    ((chunks n xs)[k]?).bind (·[j]?) = xs[k * n + j]? :=
  chunksAux_getElem? n hn _ xs (Nat.le_refl _) k j hj

theorem chunksAux_length (n : Nat) (hn : 0 < n) (fuel : Nat) (xs : List α) (h : xs.length ≤ fuel) :
    (chunksAux n fuel xs).length = (xs.length + n - 1) / n := by
  induction fuel generalizing xs with
  | zero =>
    have : xs = [] := List.eq_nil_of_length_eq_zero (by omega)
    subst this
    simp only [chunksAux, List.length_nil, Nat.zero_add]
    exact (Nat.div_eq_of_lt (by omega)).symm
  | succ fuel ih =>
    cases xs with
    | nil =>
      simp only [chunksAux, List.length_nil, Nat.zero_add]
      exact (Nat.div_eq_of_lt (by omega)).symm
    | cons x xs =>
      have hl : ((x :: xs).drop n).length ≤ fuel := by
        simp only [List.length_drop, List.length_cons] at *; omega
      simp only [chunksAux, List.length_cons, ih _ hl, List.length_drop]
      by_cases hge : n ≤ xs.length + 1
      · have e1 : xs.length + 1 - n + n - 1 = xs.length := by omega
        have e2 : xs.length + 1 + n - 1 = xs.length + n := by omega
        rw [e1, e2, Nat.add_div_right _ hn]
      · have e1 : xs.length + 1 - n + n - 1 = n - 1 := by omega
        have e2 : xs.length + 1 + n - 1 = xs.length + n := by omega
        rw [e1, e2, Nat.div_eq_of_lt (by omega), Nat.add_div_right _ hn, Nat.div_eq_of_lt (by omega)]

/-- the loader yields `⌈len / n⌉` batches -/
theorem chunks_length (n : Nat) (hn : 0 < n) (xs : List α) :
    (chunks n xs).length = (xs.length + n - 1) / n :=
  chunksAux_length n hn _ xs (Nat.le_refl _)

/-- slot `j` of batch `k` of the data loader holds the item whose index the sampler put at position
`k * bs + j` of its order -/
theorem loader_getElem? (bs : Nat) (hbs : 0 < bs) (order : List Nat) (item : Nat → α) (k j : Nat) (hj : j < bs) :
    ((loader bs order item)[k]?).bind (·[j]?) = (order[k * bs + j]?).map item := by
  have h := chunks_getElem? bs hbs order k j hj
  simp only [loader, fetch_eq, List.getElem?_map]
  cases hc : (chunks bs order)[k]? with
  | none => rw [hc] at h; simpa using congrArg (Option.map item) h
  | some c =>
    rw [hc] at h
    simp only [Option.map_some, Option.bind_some, List.getElem?_map] at h ⊢
    rw [h]

/-- sequential sampler: slot `j` of batch `k` is instance `k * bs + j` of the data set (when it exists) -/
theorem loader_sequential_slot (bs : Nat) (hbs : 0 < bs) (ds : List α) (d : α) (k j : Nat) (hj : j < bs)
    (hi : k * bs + j < ds.length) :
    ((loader bs (List.range ds.length) (fun i => ds.getD i d))[k]?).bind (·[j]?) = ds[k * bs + j]? := by
  rw [loader_getElem? bs hbs _ _ k j hj, List.getElem?_range hi]
  simp [List.getD_eq_getElem?_getD, List.getElem?_eq_getElem hi]

/-- with `ExtraKeyDataset`, whatever the sampler order, the slot that holds instance `order[p]` holds that
instance's own extra value -/
theorem extra_slot (bs : Nat) (hbs : 0 < bs) (order : List Nat) (item : Nat → α) (extra : Nat → β)
    (k j : Nat) (hj : j < bs) :
    ((loader bs order (extraItem item extra))[k]?).bind (·[j]?)
      = (order[k * bs + j]?).map (fun i => (item i, extra i)) := by
  rw [loader_getElem? bs hbs order _ k j hj, extraItem_eq]

/-- non-vacuity: 7 instances, batch size 3 → 3 batches, the last one partial; slot (2, 0) is instance 6,
slot (2, 1) does not exist -/
example : (chunks 3 [10, 11, 12, 13, 14, 15, 16]).length = 3
    ∧ ((chunks 3 [10, 11, 12, 13, 14, 15, 16])[2]?).bind (·[0]?) = some 16
    ∧ ((chunks 3 [10, 11, 12, 13, 14, 15, 16])[2]?).bind (·[1]?) = none := by decide

end Rl4co.Ops
