/-
C17 — datasets, collation and baseline wrapping preserve instance identity and order
(model: `Rl4co/Train/Dataset.lean`).  For every data set, every batch size (dividing the set size or
not), every sampler order (sequential, or any permutation when shuffling), every evaluation batch
size of the rollout baseline:

* `chunks_flatten`, `chunks_sizes`   batching loses / duplicates / reorders nothing; only the last
                                     batch may be partial and it is never empty
* `loader_flatten`, `loader_roundtrip`  reading a data set back through the loader is the identity
* `extra_travels`, `extra_travels_mem`, `extra_travels_perm`
                                     the extra key stays with its instance under any order
* `rollout_aligned`, `wrap_aligned`, `wrap_travels`
                                     value attached to item `i` = row-wise policy's reward on instance `i`,
                                     and it travels with the instance through shuffling and batching
No Mathlib needed.
-/
import Rl4co.Train.Dataset
namespace Rl4co.Ops
variable {α β : Type}

theorem chunksAux_flatten (n : Nat) (hn : 0 < n) (fuel : Nat) (xs : List α) (h : xs.length ≤ fuel) :
    (chunksAux n fuel xs).flatten = xs := by
  induction fuel generalizing xs with
  | zero =>
    have : xs = [] := by simpa using h
    subst this; simp [chunksAux]
  | succ fuel ih =>
    cases xs with
    | nil => simp [chunksAux]
    | cons x xs =>
      simp only [chunksAux, List.flatten_cons]
      rw [ih _ (by simp only [List.length_drop, List.length_cons] at *; omega)]
      exact List.take_append_drop n (x :: xs)

/-- **C17 `loader_roundtrip`** (core): cutting into batches and concatenating is the identity,
including a final partial batch. -/
theorem chunks_flatten (n : Nat) (hn : 0 < n) (xs : List α) : (chunks n xs).flatten = xs :=
  chunksAux_flatten n hn _ xs (Nat.le_refl _)

theorem chunksAux_sizes (n : Nat) (hn : 0 < n) (fuel : Nat) (xs : List α) (h : xs.length ≤ fuel) :
    (∀ c ∈ chunksAux n fuel xs, 0 < c.length ∧ c.length ≤ n) ∧
    (∀ c ∈ (chunksAux n fuel xs).dropLast, c.length = n) := by
  induction fuel generalizing xs with
  | zero => simp [chunksAux]
  | succ fuel ih =>
    cases xs with
    | nil => simp [chunksAux]
    | cons x xs =>
      have hl : ((x :: xs).drop n).length ≤ fuel := by
        simp only [List.length_drop, List.length_cons] at *; omega
      obtain ⟨ih1, ih2⟩ := ih _ hl
      simp only [chunksAux]
      refine ⟨?_, ?_⟩
      · intro c hc
        rcases List.mem_cons.mp hc with rfl | hc
        · simp only [List.length_take, List.length_cons]; omega
        · exact ih1 c hc
      · intro c hc
        cases hrest : chunksAux n fuel ((x :: xs).drop n) with
        | nil => rw [hrest] at hc; simp at hc
        | cons c' rest =>
          rw [hrest, List.dropLast_cons_cons] at hc
          rcases List.mem_cons.mp hc with rfl | hc
          · -- the remainder is non-empty, so this batch is full
            have hne : (x :: xs).drop n ≠ [] := by
              intro he; rw [he] at hrest
              cases fuel <;> simp [chunksAux] at hrest
            have : n < (x :: xs).length := by
              apply Classical.byContradiction; intro hlt
              exact hne (List.drop_eq_nil_of_le (by omega))
            simp only [List.length_take]; omega
          · apply ih2; rw [hrest]; exact hc

/-- every batch is non-empty and at most `n` long; every batch but the last is full -/
theorem chunks_sizes (n : Nat) (hn : 0 < n) (xs : List α) :
    (∀ c ∈ chunks n xs, 0 < c.length ∧ c.length ≤ n) ∧ (∀ c ∈ (chunks n xs).dropLast, c.length = n) :=
  chunksAux_sizes n hn _ xs (Nat.le_refl _)

theorem fetch_eq (item : Nat → α) : fetch item = List.map item := by
  funext idxs
  simp [fetch, fetchDirect, Params.dsCollateInOrder, Params.dsFastTdDirect, Params.dsFastGenDirect]

theorem extraIdx_eq (i : Nat) : extraIdx i = i := by simp [extraIdx, Params.dsExtraIndexShift]

theorem extraItem_eq (item : Nat → α) (extra : Nat → β) : extraItem item extra = fun i => (item i, extra i) := by
  funext i; simp [extraItem, extraIdx_eq]

theorem chunksAux_mem (n fuel : Nat) (xs : List α) :
    ∀ c ∈ chunksAux n fuel xs, ∀ a ∈ c, a ∈ xs := by
  induction fuel generalizing xs with
  | zero => simp [chunksAux]
  | succ fuel ih =>
    cases xs with
    | nil => simp [chunksAux]
    | cons x xs =>
      intro c hc a ha
      simp only [chunksAux] at hc
      rcases List.mem_cons.mp hc with rfl | hc
      · exact List.mem_of_mem_take ha
      · exact List.mem_of_mem_drop (ih _ c hc a ha)

theorem loader_flatten (bs : Nat) (hbs : 0 < bs) (order : List Nat) (item : Nat → α) :
    (loader bs order item).flatten = order.map item := by
  simp only [loader, fetch_eq]
  rw [← List.map_flatten, chunks_flatten bs hbs]

theorem map_getD_range (ds : List α) (d : α) : (List.range ds.length).map (fun i => ds.getD i d) = ds := by
  apply List.ext_getElem
  · simp
  · intro i h1 h2
    simp [List.getD_eq_getElem?_getD, List.getElem?_eq_getElem h2]

/-- **C17 `loader_roundtrip`**: a sequential loader over any data set, any batch size, returns
exactly the original instances in the original order. -/
theorem loader_roundtrip (bs : Nat) (hbs : 0 < bs) (ds : List α) (d : α) :
    (loader bs (List.range ds.length) (fun i => ds.getD i d)).flatten = ds := by
  rw [loader_flatten bs hbs, map_getD_range]

/-- **C17 `extra_travels`**: for every sampler order (in particular every permutation) and every
batch size, the batches of the data set with an extra key are the batches of the plain data set
zipped with the batches of the extra values *under the same order*. -/
theorem extra_travels (bs : Nat) (order : List Nat) (item : Nat → α) (extra : Nat → β) :
    loader bs order (extraItem item extra) =
      List.zipWith List.zip (loader bs order item) (loader bs order extra) := by
  simp only [loader, fetch_eq]
  induction chunks bs order with
  | nil => rfl
  | cons c cs ih =>
    simp only [List.map_cons, List.zipWith_cons_cons, ih]
    congr 1
    exact List.zip_map'.symm

/-- pointwise form: whatever batch an item lands in, its extra value is the one of its own index -/
theorem extra_travels_mem (bs : Nat) (order : List Nat) (item : Nat → α) (extra : Nat → β)
    (batch : List (α × β)) (hb : batch ∈ loader bs order (extraItem item extra)) (p : α × β)
    (hp : p ∈ batch) : ∃ i, p = (item i, extra i) := by
  simp only [loader, fetch_eq, List.mem_map] at hb
  obtain ⟨c, _, rfl⟩ := hb
  obtain ⟨i, _, rfl⟩ := List.mem_map.mp hp
  exact ⟨i, rfl⟩

/-- **C17 `rollout_aligned`**: for a row-wise policy, concatenating the per-batch rewards of the
sequential evaluation loader gives, at position `i`, the reward of instance `i` — for every
evaluation batch size, dividing the set size or not. -/
theorem rollout_aligned (f : List α → List β) (g : α → β) (hf : ∀ xs, f xs = xs.map g) (bs : Nat)
    (hbs : 0 < bs) (ds : List α) : rollout f bs ds = ds.map g := by
  simp only [rollout, Params.blRolloutLoaderPlain, Params.blRolloutPlainConcat, Bool.and_self, if_true]
  have : (chunks bs ds).map f = (chunks bs ds).map (List.map g) := List.map_congr_left (fun c _ => hf c)
  rw [this, ← List.map_flatten, chunks_flatten bs hbs]

/-- **C17 `rollout_eval_aligned`**: both rollout functions of the code base — `RolloutBaseline.rollout` and MDAM's own —
put the policy into eval mode (extracted), so for a policy whose INFERENCE behaviour is row-wise the concatenated
values are `map g ds` for every evaluation batch size, whatever the policy would do in training mode (`fTrain`
arbitrary: batch-norm batch statistics, dropout …): the attached value does not depend on the rollout batch size
or on batch-mates. -/
theorem rollout_eval_aligned (fEval fTrain : List α → List β) (g : α → β) (hf : ∀ xs, fEval xs = xs.map g)
    (bs : Nat) (hbs : 0 < bs) (ds : List α) :
    blRollout fEval fTrain bs ds = ds.map g ∧ mdamRollout fEval fTrain bs ds = ds.map g := by
  simp only [blRollout, mdamRollout, rolloutWith, Params.blRolloutEvalMode, Params.mdamRolloutEvalMode,
    Params.mdamRolloutPlainConcat, if_true]
  exact ⟨rollout_aligned fEval g hf bs hbs ds, rollout_aligned fEval g hf bs hbs ds⟩

theorem rollout_eval_batch_size_independent (fEval fTrain : List α → List β) (g : α → β) (hf : ∀ xs, fEval xs = xs.map g)
    (bs bs' : Nat) (hbs : 0 < bs) (hbs' : 0 < bs') (ds : List α) :
    mdamRollout fEval fTrain bs ds = mdamRollout fEval fTrain bs' ds ∧ blRollout fEval fTrain bs ds = blRollout fEval fTrain bs' ds := by
  rw [(rollout_eval_aligned fEval fTrain g hf bs hbs ds).1, (rollout_eval_aligned fEval fTrain g hf bs hbs ds).2,
    (rollout_eval_aligned fEval fTrain g hf bs' hbs' ds).1, (rollout_eval_aligned fEval fTrain g hf bs' hbs' ds).2]
  exact ⟨rfl, rfl⟩

/-- without the `.eval()` call the training-mode behaviour is rolled out: a policy that centres its batch (as batch
norm does) attaches values that depend on the evaluation batch size -/
theorem rolloutWith_train_mode_counterexample :
    let fTrain : List Int → List Int := fun xs => xs.map (fun x => x - xs.sum)
    rolloutWith false (fun xs => xs) fTrain 1 [1, 2, 3] ≠ rolloutWith false (fun xs => xs) fTrain 3 [1, 2, 3] := by
  decide

theorem rollout_aligned' (f : List α → List β) (hf : RowWise f) (bs : Nat) (hbs : 0 < bs)
    (ds : List α) : ∃ g, (∀ xs, f xs = xs.map g) ∧ rollout f bs ds = ds.map g := by
  obtain ⟨g, hg⟩ := hf
  exact ⟨g, hg, rollout_aligned f g hg bs hbs ds⟩

/-- **C17 `wrap_aligned`**: item `i` of the wrapped training set is instance `i` together with the
baseline policy's reward on instance `i`. -/
theorem wrap_aligned (f : List α → List β) (g : α → β) (hf : ∀ xs, f xs = xs.map g) (bs : Nat)
    (hbs : 0 < bs) (ds : List α) (d : α) (dB : β) (i : Nat) (hi : i < ds.length) :
    wrapItem f bs ds d dB i = (ds[i], g ds[i]) := by
  simp only [wrapItem, extraItem, extraIdx_eq, rollout_aligned f g hf bs hbs]
  simp [List.getD_eq_getElem?_getD, hi]

/-- **C17 `wrap_travels`**: through any sampler order over valid indices and any training batch
size, every delivered pair is an instance with the baseline value of that very instance. -/
theorem wrap_travels (f : List α → List β) (g : α → β) (hf : ∀ xs, f xs = xs.map g) (ebs : Nat)
    (hebs : 0 < ebs) (ds : List α) (d : α) (dB : β) (bs : Nat) (order : List Nat)
    (ho : ∀ i ∈ order, i < ds.length) (batch : List (α × β))
    (hb : batch ∈ loader bs order (wrapItem f ebs ds d dB)) (p : α × β) (hp : p ∈ batch) :
    ∃ i, ∃ h : i < ds.length, i ∈ order ∧ p = (ds[i], g ds[i]) := by
  simp only [loader, fetch_eq, List.mem_map] at hb
  obtain ⟨c, hc, rfl⟩ := hb
  obtain ⟨i, hic, rfl⟩ := List.mem_map.mp hp
  have hio : i ∈ order := chunksAux_mem bs _ order c hc i hic
  exact ⟨i, ho i hio, hio, wrap_aligned f g hf ebs hebs ds d dB i (ho i hio)⟩

/-- explicit permutation form: with shuffling (any permutation of `0..n-1` as sampler order) the
loader delivers every (instance, extra) pair of the data set exactly once, paired correctly. -/
theorem extra_travels_perm (bs : Nat) (hbs : 0 < bs) (n : Nat) (order : List Nat)
    (hperm : order.Perm (List.range n)) (item : Nat → α) (extra : Nat → β) :
    ((loader bs order (extraItem item extra)).flatten).Perm
      ((List.range n).map (fun i => (item i, extra i))) := by
  rw [loader_flatten bs hbs]
  exact hperm.map _

/-! ### the data set classes as functions: every class delivers `td[idxs]` for ARBITRARY index lists -/

theorem row_get? (td : Cols β) (d : β) (i : Nat) (hk : (td.map (·.1)).Nodup) (kc : String × List β) (h : kc ∈ td) :
    (td.row d i).get? kc.1 = some (kc.2.getD i d) := by
  induction td with
  | nil => simp at h
  | cons x xs ih =>
    simp only [List.map_cons, List.nodup_cons] at hk
    rcases List.mem_cons.mp h with rfl | h'
    · simp [Cols.row, Dict.get?]
    · have hne : (x.1 == kc.1) = false := by
        have : x.1 ≠ kc.1 := fun e => hk.1 (e ▸ List.mem_map_of_mem (f := (·.1)) h')
        simpa using this
      have := ih hk.2 h'
      simp only [Cols.row, Dict.get?, List.map_cons, List.find?_cons, hne] at this ⊢
      exact this

theorem tddInit_getitem (td : Cols β) (d : β) (len i : Nat) (hi : i < len) :
    tddGetitem (tddInit td d len) i = td.row d i := by
  simp [tddGetitem, tddInit, Params.dsInitRowsInOrder, List.getD_eq_getElem?_getD, hi]

/-- **C17 `tdd_fetch_eq_index`**: `TensorDictDataset` (disassemble in `__init__`, `__getitem__` per index, stack in
`collate_fn`) delivers for ANY non-empty index list — unsorted, with gaps, with repetitions — exactly the
TensorDict indexed with that list: every key, every column entry `i ↦ value[i]` in the order given. -/
theorem tdd_fetch_eq_index (td : Cols β) (d : β) (len : Nat) (idxs : List Nat) (hne : idxs ≠ [])
    (hk : (td.map (·.1)).Nodup) (hi : ∀ i ∈ idxs, i < len) :
    tddFetch td d len idxs = tdIndex td d idxs := by
  have hrows : idxs.map (tddGetitem (tddInit td d len)) = idxs.map (td.row d) :=
    List.map_congr_left (fun i h => tddInit_getitem td d len i (hi i h))
  simp only [tddFetch, hrows, collate, Params.dsCollateInOrder, if_true]
  match idxs, hne with
  | i0 :: is, _ =>
    simp only [List.map_cons, tdIndex, Cols.row, List.map_map]
    apply List.map_congr_left
    intro kc hkc
    have hg : ∀ i, ((td.row d i).get? kc.1).getD d = kc.2.getD i d := fun i => by
      rw [row_get? td d i hk kc hkc]; rfl
    simp only [Function.comp, Prod.mk.injEq, true_and, List.cons.injEq]
    refine ⟨hg i0, ?_⟩
    apply List.map_congr_left
    intro i _
    exact hg i

/-- **C17 `all_classes_agree`**: the three bundled classes return the same batch for the same index list. -/
theorem all_classes_agree (td : Cols β) (d : β) (len : Nat) (idxs : List Nat) (hne : idxs ≠ [])
    (hk : (td.map (·.1)).Nodup) (hi : ∀ i ∈ idxs, i < len) :
    fastGetitems td d idxs = tdIndex td d idxs ∧ fastGenGetitems td d idxs = tdIndex td d idxs ∧
    tddFetch td d len idxs = tdIndex td d idxs :=
  ⟨by simp [fastGetitems, Params.dsFastTdDirect], by simp [fastGenGetitems, Params.dsFastGenDirect],
   tdd_fetch_eq_index td d len idxs hne hk hi⟩

/-- **C17 `loader_roundtrip_perm`**: for an ARBITRARY index sequence (any sampler: sequential, shuffled, a `Subset`,
with replacement) and any batch size, the instances a loader returns, in order, are the index sequence mapped
through the data set; for a permutation of `0..n-1` every instance is returned exactly once. -/
theorem loader_roundtrip_perm (bs : Nat) (hbs : 0 < bs) (order : List Nat) (item : Nat → α) :
    (loader bs order item).flatten = order.map item ∧
    ∀ n, order.Perm (List.range n) → ((loader bs order item).flatten).Perm ((List.range n).map item) := by
  refine ⟨loader_flatten bs hbs order item, fun n hp => ?_⟩
  rw [loader_flatten bs hbs]
  exact hp.map _

/-- … and batch by batch: the `j`-th batch is the `j`-th chunk of the index sequence mapped through the data set. -/
theorem loader_batches (bs : Nat) (order : List Nat) (item : Nat → α) :
    loader bs order item = (chunks bs order).map (List.map item) := by
  simp [loader, fetch_eq]

/-! ### the epoch boundary: the next training set is wrapped with the UPDATED baseline -/

/-- what `wrap_dataset` attaches, for a row-wise baseline policy: `g policy x`, or nothing during warm-up -/
theorem blWrap_eq {π : Type} (pol : π → List α → List β) (g : π → α → β) (hp : ∀ p xs, pol p xs = xs.map (g p))
    (bs : Nat) (hbs : 0 < bs) (b : BlState π) (ds : List α) :
    blWrap pol bs b ds = ds.map (fun x => (x, if b.alphaNum > 0 then some (g b.policy x) else none)) := by
  by_cases ha : b.alphaNum > 0
  · simp only [blWrap, ha, if_true, rollout_aligned (pol b.policy) (g b.policy) (hp b.policy) bs hbs]
    induction ds with
    | nil => rfl
    | cons x xs ih => simp [List.zipWith, ih]
  · simp [blWrap, ha]

/-- **C17 `epoch_end_wrap_uses_updated_baseline`**: at every epoch boundary of REINFORCE (statement order of
`on_train_epoch_end` regenerated from the source: baseline callback first, then the data set reset), for every
accept / reject decision, warm-up length, epoch, candidate and evaluation batch size: the value attached to item `x`
of the NEW training set is the greedy reward of the baseline policy AFTER the callback on `x`, and the data set is
wrapped iff the alpha AFTER the callback is positive. -/
theorem epoch_end_wrap_uses_updated_baseline {π : Type} (accept : π → π → Bool) (nEpochs epoch : Nat) (cand : π)
    (pol : π → List α → List β) (g : π → α → β) (hp : ∀ p xs, pol p xs = xs.map (g p)) (bs : Nat) (hbs : 0 < bs)
    (b : BlState π) (newData : List α) :
    let r := reinforceEpochEnd accept nEpochs epoch cand pol bs b newData
    r.1 = blCallback accept nEpochs epoch cand b ∧
    r.2 = newData.map (fun x => (x, if r.1.alphaNum > 0 then some (g r.1.policy x) else none)) := by
  simp only [reinforceEpochEnd, epochEnd, Params.rfCallbackBeforeSuper, if_true, true_and]
  exact blWrap_eq pol g hp bs hbs _ newData

/-- the claim for the swapped order (data set reset first, callback afterwards) … -/
def epoch_end_swapped_statement : Prop :=
  ∀ (accept : Nat → Nat → Bool) (nEpochs epoch cand : Nat) (b : BlState Nat) (newData : List Nat),
    let pol : Nat → List Nat → List Nat := fun p xs => xs.map (fun x => p + x)
    let r := epochEnd false accept nEpochs epoch cand pol 2 b newData
    r.2 = newData.map (fun x => (x, if r.1.alphaNum > 0 then some (r.1.policy + x) else none))

/-- … is false: an accepted candidate 7 replaces baseline policy 0, but the new items carry the values of policy 0
(and at the end of the warm-up epoch the new training set is not wrapped at all although alpha is now 1). -/
theorem epoch_end_swapped_counterexample : ¬ epoch_end_swapped_statement := by
  intro h
  have := h (fun c p => decide (p < c)) 1 1 7 ⟨0, 1⟩ [10, 20, 30]
  revert this; decide

/-- with the swapped order the attached values are those of the PRE-update baseline -/
theorem epoch_end_swapped_is_stale {π : Type} (accept : π → π → Bool) (nEpochs epoch : Nat) (cand : π)
    (pol : π → List α → List β) (g : π → α → β) (hp : ∀ p xs, pol p xs = xs.map (g p)) (bs : Nat) (hbs : 0 < bs)
    (b : BlState π) (newData : List α) :
    (epochEnd false accept nEpochs epoch cand pol bs b newData).2 =
      newData.map (fun x => (x, if b.alphaNum > 0 then some (g b.policy x) else none)) := by
  simp only [epochEnd, Bool.false_eq_true, if_false]
  exact blWrap_eq pol g hp bs hbs b newData

/-- several boundaries in a row: after ANY sequence of (epoch, candidate) boundaries the current training set is the
one wrapped by the CURRENT baseline state -/
def runEpochs {π : Type} (accept : π → π → Bool) (nEpochs : Nat) (pol : π → List α → List β) (bs : Nat) :
    BlState π × List (α × Option β) → List (Nat × π × List α) → BlState π × List (α × Option β)
  | st, [] => st
  | st, (e, cand, ds) :: rest =>
    runEpochs accept nEpochs pol bs (reinforceEpochEnd accept nEpochs e cand pol bs st.1 ds) rest

theorem runEpochs_current {π : Type} (accept : π → π → Bool) (nEpochs : Nat) (pol : π → List α → List β)
    (g : π → α → β) (hp : ∀ p xs, pol p xs = xs.map (g p)) (bs : Nat) (hbs : 0 < bs)
    (st : BlState π × List (α × Option β)) (hist : List (Nat × π × List α)) (hne : hist ≠ []) :
    let r := runEpochs accept nEpochs pol bs st hist
    ∃ ds : List α, r.2 = ds.map (fun x => (x, if r.1.alphaNum > 0 then some (g r.1.policy x) else none)) := by
  induction hist generalizing st with
  | nil => exact absurd rfl hne
  | cons h rest ih =>
    obtain ⟨e, cand, ds⟩ := h
    cases rest with
    | nil =>
      exact ⟨ds, (epoch_end_wrap_uses_updated_baseline accept nEpochs e cand pol g hp bs hbs st.1 ds).2⟩
    | cons h2 rest2 =>
      exact ih _ (by simp)

/-! ### histories on shared items (re-wrapping the same data set) -/

theorem Dict.get?_set_same (d : Dict β) (k : String) (v : β) : (d.set k v).get? k = some v := by
  simp [Dict.get?, Dict.set]

theorem Dict.get?_set_other (d : Dict β) (k k' : String) (v : β) (h : k' ≠ k) :
    (d.set k v).get? k' = d.get? k' := by
  have hk : (k == k') = false := by simpa using fun e => h e.symm
  simp only [Dict.get?, Dict.set, List.find?_cons, hk]
  congr 1
  induction d with
  | nil => rfl
  | cons p d ih =>
    by_cases hp : p.1 == k
    · have hpk : (p.1 == k') = false := by
        have : p.1 = k := by simpa using hp
        simpa [this] using fun e => h e.symm
      simp [hp, hpk, ih]
    · by_cases hpk : p.1 == k'
      · simp [hp, hpk]
      · simp [hp, hpk, ih]

/-- **C17 `rewrap_current`**: whatever happened to the shared items before (any earlier wrappers, any
reads — `st` is arbitrary), reading item `i` through a wrapper returns the CURRENT wrapper's value under
its key and leaves every other entry of the item as it was. -/
theorem readExtra_eq (st : Store β) (key : String) (extra : Nat → β) (i : Nat) :
    (readExtra st key extra i).2 = (st.getD i []).set key (extra i) := by
  simp [readExtra, Params.dsExtraWriteUnconditional, extraIdx_eq]

theorem rewrap_current (st : Store β) (key : String) (extra : Nat → β) (i : Nat) :
    ((readExtra st key extra i).2).get? key = some (extra i) ∧
    ∀ k', k' ≠ key → ((readExtra st key extra i).2).get? k' = (st.getD i []).get? k' := by
  rw [readExtra_eq]
  exact ⟨Dict.get?_set_same _ _ _, fun k' h => Dict.get?_set_other _ _ _ _ h⟩

/-- the same for a whole pass over any index list (any order, repeated indices allowed), from any store -/
theorem readMany_current (st : Store β) (key : String) (extra : Nat → β) (idxs : List Nat) :
    ((readMany st key extra idxs).2).map (fun d => d.get? key) = idxs.map (fun i => some (extra i)) := by
  induction idxs generalizing st with
  | nil => rfl
  | cons i is ih =>
    simp only [readMany, List.map_cons]
    rw [ih, readExtra_eq]
    congr 1
    exact Dict.get?_set_same _ _ _

/-! ### the module's loader and `EvalBase.__call__` -/

/-- `_dataloader_single(dataset, bs, shuffle=False)` reads sequentially -/
theorem moduleOrder_sequential (n : Nat) (perm : List Nat) : moduleOrder false n perm = List.range n := by
  simp [moduleOrder, Params.loaderShufflePassthrough]

theorem moduleOrder_shuffle (n : Nat) (perm : List Nat) : moduleOrder true n perm = perm := by
  simp [moduleOrder, Params.loaderShufflePassthrough]

theorem padRow_eq (L : Nat) (row : List Int) : padRow L row = row ++ List.replicate (L - row.length) 0 := by
  simp [padRow, Params.evalPadLeft]

theorem maxLen_foldl_ge (rows : List (List Int)) (m : Nat) :
    m ≤ rows.foldl (fun m r => max m r.length) m ∧
    ∀ r ∈ rows, r.length ≤ rows.foldl (fun m r => max m r.length) m := by
  induction rows generalizing m with
  | nil => simp
  | cons x xs ih =>
    obtain ⟨h1, h2⟩ := ih (max m x.length)
    simp only [List.foldl_cons]
    refine ⟨by omega, ?_⟩
    intro r hr
    rcases List.mem_cons.mp hr with rfl | hr
    · omega
    · exact h2 r hr

theorem le_maxLen {rows : List (List Int)} {r : List Int} (h : r ∈ rows) : r.length ≤ maxLen rows :=
  (maxLen_foldl_ge rows 0).2 r h

/-- **C17 `eval_call_aligned`**: for a row-wise `_inner` (`g x` = reward and action row of instance `x`)
and ANY batching of the instances (any batch sizes, final partial batch, per-batch action lengths that
differ): entry `i` of the concatenated rewards is instance `i`'s reward, row `i` of the concatenated
actions is instance `i`'s action row followed by zeros only, and all rows have the common length. -/
theorem eval_call_aligned (inner : List α → List (β × List Int)) (g : α → β × List Int)
    (h : ∀ xs, inner xs = xs.map g) (batches : List (List α)) :
    let rows := batches.flatten.map (fun x => (g x).2)
    (evalCall inner batches).1 = batches.flatten.map (fun x => (g x).1) ∧
    (evalCall inner batches).2 =
      batches.flatten.map (fun x => (g x).2 ++ List.replicate (maxLen rows - (g x).2.length) 0) ∧
    ∀ r ∈ (evalCall inner batches).2, r.length = maxLen rows := by
  intro rows
  have h1 : (batches.map inner) = batches.map (List.map g) := List.map_congr_left (fun c _ => h c)
  have hr : ((batches.map inner).map (fun o => o.map Prod.snd)).flatten = rows := by
    rw [h1]; simp only [rows, List.map_map, List.map_flatten]
    congr 1; apply List.map_congr_left; intro c _; simp [Function.comp]
  have hf : ((batches.map inner).map (fun o => o.map Prod.fst)).flatten = batches.flatten.map (fun x => (g x).1) := by
    rw [h1]; simp only [List.map_map, List.map_flatten]
    congr 1; apply List.map_congr_left; intro c _; simp [Function.comp]
  have e2 : (evalCall inner batches).2 =
      batches.flatten.map (fun x => (g x).2 ++ List.replicate (maxLen rows - (g x).2.length) 0) := by
    simp only [evalCall, Params.evalCatInOrder, if_true, hr]
    simp only [rows, List.map_map]
    apply List.map_congr_left
    intro x _
    exact padRow_eq _ _
  refine ⟨?_, e2, ?_⟩
  · simp only [evalCall, Params.evalCatInOrder, if_true, hf]
  · intro r hr'
    rw [e2] at hr'
    obtain ⟨x, hx, rfl⟩ := List.mem_map.mp hr'
    have : (g x).2.length ≤ maxLen rows := le_maxLen (List.mem_map.mpr ⟨x, hx, rfl⟩)
    simp only [List.length_append, List.length_replicate]; omega

/-- … in particular over the batches of a sequential loader: the evaluation returns one reward / action
row per instance of the data set, in the data set's order. -/
theorem eval_call_roundtrip (inner : List α → List (β × List Int)) (g : α → β × List Int)
    (h : ∀ xs, inner xs = xs.map g) (bs : Nat) (hbs : 0 < bs) (ds : List α) (d : α) :
    (evalCall inner (loader bs (List.range ds.length) (fun i => ds.getD i d))).1 = ds.map (fun x => (g x).1) := by
  rw [(eval_call_aligned inner g h _).1, loader_roundtrip bs hbs]

/-! ### non-vacuity -/

example : padRow 4 [7, 8] = [7, 8, 0, 0] := by decide
example : evalCall (fun xs : List Nat => xs.map (fun x => (10 * x, List.replicate (1 + xs.length) (Int.ofNat x))))
    [[1, 2], [3]] = ([10, 20, 30], [[1, 1, 1], [2, 2, 2], [3, 3, 0]]) := by decide

example : tddFetch [("id", [10, 11, 12, 13]), ("x", [5, 6, 7, 8])] 0 4 [0, 3, 1, 1] =
    [("id", [10, 13, 11, 11]), ("x", [5, 8, 6, 6])] := by decide
example : fastGetitems [("id", [10, 11, 12, 13])] 0 [0, 2, 1, 3] = [("id", [10, 12, 11, 13])] := by decide

/-- warm-up epoch 0 with `n_epochs = 1`, an accepted candidate: alpha becomes 1 and the new set carries the
candidate's values -/
example : reinforceEpochEnd (fun c p => decide (p < c)) 1 0 7 (fun p xs => xs.map (fun x => p + x)) 2 ⟨0, 0⟩ [10, 20, 30] =
    (⟨7, 1⟩, [(10, some 17), (20, some 27), (30, some 37)]) := by decide

/-- wrap with 100+i, read, wrap the same store with 200+i, read: the second pass sees 200+i -/
example :
    let st0 : Store Nat := [[("id", 0)], [("id", 1)]]
    let (st1, _) := readMany st0 "extra" (fun i => 100 + i) [0, 1]
    ((readMany st1 "extra" (fun i => 200 + i) [1, 0]).2).map (fun d => (d.get? "id", d.get? "extra")) =
      [(some 1, some 201), (some 0, some 200)] := by decide

example : chunks 3 [0, 1, 2, 3, 4, 5, 6] = [[0, 1, 2], [3, 4, 5], [6]] := by decide
example : chunks 3 [0, 1, 2, 3, 4, 5] = [[0, 1, 2], [3, 4, 5]] := by decide
example : chunks 18 [0, 1, 2] = [[0, 1, 2]] := by decide
example : loader 2 [2, 0, 1] (extraItem (fun i => 10 * i) (fun i => 7 + i)) = [[(20, 9), (0, 7)], [(10, 8)]] := by
  decide
example : RowWise (fun xs : List Nat => xs.map (· + 1)) := ⟨(· + 1), fun _ => rfl⟩
example : rollout (fun xs : List Nat => xs.map (· + 1)) 2 [5, 6, 7] = [6, 7, 8] := by decide
example : [2, 0, 1].Perm (List.range 3) := by decide
/-- a batch function that is NOT row-wise (reverses its batch) breaks the alignment: the hypothesis is needed -/
example : rollout (fun xs : List Nat => xs.reverse) 2 [5, 6, 7] ≠ [5, 6, 7] := by decide

end Rl4co.Ops
