/-
C03 for ATSP: the reward `-cost_matrix[b, actions, roll(actions, -1)].sum(-1)` is minus the cost of
the DIRECTED closed tour a₀ → a₁ → … → a_{n-1} → a₀ over the (asymmetric) cost matrix, for EVERY
action list and every matrix (no symmetry, no zero diagonal, no triangle inequality needed).
-/
import Rl4co.Proofs.TspfamTour
import Rl4co.Env.Atsp
import Rl4co.Proofs.TspfamParams
import Rl4co.Spec.Atsp

namespace Rl4co.Atsp

/-- **C03 (ATSP).** -/
theorem reward_eq_objective (i : Inst) (as : List Nat) :
    reward i as = - Spec.Atsp.objective i.M as := by
  simp only [reward_eq, Spec.Atsp.objective, ← rollLen_eq_closedLen, rollLen]

/-- Direction matters and is the right one: on `M a b = 10·a + b` the tour 2 → 0 → 1 → 2 costs
`M 2 0 + M 0 1 + M 1 2 = 20 + 1 + 12`, not the reversed `M 0 2 + M 1 0 + M 2 1 = 2 + 10 + 21`. -/
example : reward ⟨3, fun a b => (10 * a + b : Int)⟩ [2, 0, 1] = -(20 + 1 + 12) := by decide

end Rl4co.Atsp

namespace Rl4co.Spec.Atsp
/-- rotation invariance holds for the directed objective as well; reversal invariance does NOT (see the
example: arcs cost 1 upwards and 5 downwards) -/
theorem objective_roll1 (M : Nat → Nat → Int) (as : List Nat) : objective M (roll1 as) = objective M as :=
  Rl4co.Tspfam.closedLen_roll1 M as

example : objective (fun a b => if a < b then (1 : Int) else 5) [2, 0, 1] ≠
    objective (fun a b => if a < b then (1 : Int) else 5) [2, 0, 1].reverse := by
  decide
end Rl4co.Spec.Atsp

namespace Rl4co.Atsp
open Rl4co.Tspfam

/-- **C03 (ATSP), leg by leg**: the reward is minus the sum over the steps `k` of the cost of the arc FROM the
`k`-th visited node TO the `(k+1 mod n)`-th visited node — source index first, as in the cost matrix. -/
theorem reward_legs (i : Inst) (as : List Nat) :
    reward i as =
      - ((List.range as.length).map (fun k => i.M (as.getD k 0) (as.getD ((k + 1) % as.length) 0))).sum := by
  rw [reward_eq, zipWith_roll1_legs]

/-- the reward does not depend on which node of the closed tour the episode started at -/
theorem reward_roll1 (i : Inst) (as : List Nat) : reward i (roll1 as) = reward i as := by
  rw [reward_eq_objective, reward_eq_objective, Spec.Atsp.objective_roll1]

end Rl4co.Atsp
