/-
C03 for ATSP: the reward `-cost_matrix[b, actions, roll(actions, -1)].sum(-1)` is minus the cost of
the DIRECTED closed tour a₀ → a₁ → … → a_{n-1} → a₀ over the (asymmetric) cost matrix, for EVERY
action list and every matrix (no symmetry, no zero diagonal, no triangle inequality needed).
-/
import Rl4co.Env.Atsp
import Rl4co.Proofs.TspfamParams
import Rl4co.Spec.Atsp

namespace Rl4co.Atsp

/-- **C03 (ATSP).** -/
theorem reward_eq_objective (i : Inst) (as : List Nat) :
    reward i as = - Spec.Atsp.objective i.M as := by
  simp only [reward_eq, Spec.Atsp.objective, ← rollLen_eq_closedLen, rollLen]

/-- Direction matters and is the right one: on `M a b = 10·a + b` the tour 2 → 0 → 1 → 2 costs
`M 2 0 + M 0 1 + M 1 2 = 20 + 1 + 12`, not the reversed `M 0 2 + M 1 0 + M 2 1 = 2 + 10 + 21`. -/
example : reward ⟨3, fun a b => (10 * a + b : Int)⟩ [2, 0, 1] = -(20 + 1 + 12) := by decide

end Rl4co.Atsp
