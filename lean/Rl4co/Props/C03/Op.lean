/-
C03 for OP: the reward `_get_reward` reports for a finished mask-confined episode is the prize of the
set of customers the episode visited (`Spec.Op.objective`, computed from the instance and the action
list alone) — whatever amount of depot padding follows the return.  The single-column special case of
`_get_reward` (a batch whose action tensor has one column; it asserts the column is all depot and
returns 0) is covered as well: it never applies to a finished episode (a finished episode has at
least two steps), and where it applies without raising it returns the same value as the general
formula.
-/
import Rl4co.Env.Op
import Rl4co.Spec.Op
import Rl4co.Props.C01.Op

namespace Rl4co.Op
open Rl4co.Spec.Op Rl4co.Prize

/-- the single-column test is `length = 1` (extracted operator `==` and constant `1`) -/
theorem rewardSpecial_iff (as : List Nat) : rewardSpecial as = decide (as.length = 1) := by
  simp [rewardSpecial, Params.opRewardSpecialCmp, Params.opRewardSpecialWidth, Cmp.evalNat]

theorem reward_eq (i : Inst) (as : List Nat) :
    reward i as = if as.length = 1 then 0 else gatherSum i.prize as := by
  simp [reward, rewardSpecial_iff]

/-- general form: for every action list with entries in range and no repeated customer, that is not a
single column, the reward is the prize of the visited set -/
theorem reward_eq_objective_of_once (i : Inst) (as : List Nat)
    (hr : ∀ a ∈ as, a ≤ i.n) (ho : ∀ j, 1 ≤ j → j ≤ i.n → as.count j ≤ 1) (hl : as.length ≠ 1) :
    reward i as = objective i as := by
  rw [reward_eq]
  simp only [hl, if_false, objective]
  exact gatherSum_eq_sumTo i.n i.prize as hr ho

/-- the single-column special case, when its assertion passes, agrees with the general formula -/
theorem reward_single_column (i : Inst) (as : List Nat) (hl : as.length = 1)
    (hassert : rewardAssert as = true) : reward i as = objective i as := by
  have h0 : as = [0] := by
    match as, hl with
    | [a], _ =>
      simp [rewardAssert, rewardSpecial_iff] at hassert
      rw [hassert]
  subst h0
  rw [reward_eq]
  simp only [List.length_singleton, if_true, objective]
  have : sumTo i.n (fun k => if k + 1 ∈ [0] then i.prize (k + 1) else 0) = sumTo i.n (fun _ => 0) :=
    sumTo_congr (fun k _ => by simp)
  rw [this, sumTo_zero]

/-- a finished mask-confined episode has at least two steps -/
theorem two_le_length_of_done (i : Inst) {as : List Nat} {s : State}
    (h : Run env i (env.reset i) as s) (hd : env.done i s = true) : 2 ≤ as.length := by
  cases h with
  | nil => simp [env, done, reset] at hd
  | @cons _ _ a as ha hm h' =>
    cases h' with
    | nil => simp [env, done, step, reset, Params.opDoneCmp, Cmp.evalNat] at hd
    | cons _ _ _ => simp

/-- **C03 (OP).**  Reward of a finished mask-confined episode = collected prize. -/
theorem reward_eq_objective (i : Inst) {as : List Nat} {s : State}
    (h : Run env i (env.reset i) as s) (hd : env.done i s = true) :
    reward i as = objective i as := by
  obtain ⟨h1, _, h3, _⟩ := visits_of_run i h
  have := two_le_length_of_done i h hd
  exact reward_eq_objective_of_once i as h1 (fun j hj _ => h3 j hj) (by omega)

/-- Non-vacuity / sanity: customers 2 and 1 visited, then the return and two padding steps. -/
example : reward { exInst with prize := fun j => (j : Int) + 4 } [2, 1, 0, 0, 0] = 5 + 6 := by decide
example : objective { exInst with prize := fun j => (j : Int) + 4 } [2, 1, 0, 0, 0] = 5 + 6 := by decide

end Rl4co.Op
