/-
C03 for MCP: the reward (scatter of the chosen sets' item ids over `orig_membership`, `> 0`, times
`orig_weights`, summed) is the total weight of the items covered by the executed selection,
recomputed from the instance and the action list alone — for every mask-confined run.
-/
import Rl4co.Proofs.SelectViews

namespace Rl4co.Mcp

/-- **C03 (MCP).** -/
theorem reward_eq_objective (i : Inst) {as : List Nat} {s : State}
    (h : Run env i (env.reset i) as s) : reward i s = Spec.Mcp.objective i as := by
  unfold reward Spec.Mcp.objective
  apply sumRange_congr
  intro x _
  rw [coveredBy_orig_eq h x]
  cases Spec.Mcp.covered i as x <;> simp

/-- Non-vacuity / sanity: sets `{1,2}`, `{3}`, `{2,4}`, weights `5,6,7,8`; choosing sets 0 and 2
covers items 1, 2, 4 → 19 (item 2 counted once). -/
example : reward ⟨3, 4, 2, 2, fun j k => ([[1, 2], [3, 0], [2, 4]].getD j []).getD k 0, fun x => x + 5⟩
    (exec env ⟨3, 4, 2, 2, fun j k => ([[1, 2], [3, 0], [2, 4]].getD j []).getD k 0, fun x => x + 5⟩
      (env.reset ⟨3, 4, 2, 2, fun j k => ([[1, 2], [3, 0], [2, 4]].getD j []).getD k 0, fun x => x + 5⟩)
      [0, 2]) = 19 := by
  decide

end Rl4co.Mcp
