/-
C03 for mTSP (code after the upstream fixes 0b6c547 / 894138a).

`minmax`: the reward read from the incrementally maintained `max_subtour_length` equals minus the
longest closed tour of the executed solution, for EVERY finished mask-confined run — including runs
that keep being stepped with the depot after `done` (padding while batch-mates run): the closing leg of
the last tour enters the running maximum but is not stored in `current_length`, so a padding step
cannot add it twice (`reward_minmax_eq_objective`).

`sum`: the depot is prepended to the action list, so the gather / roll / sum idiom measures the sum of
the closed tour lengths for action lists of ANY length (`reward_sum_eq_objective`).
-/
import Rl4co.Proofs.Mtsp

namespace Rl4co.Mtsp
open Rl4co.Spec.Mtsp

/-- non-negative distances, depot at distance 0 from itself -/
def WFD (i : Inst) : Prop := (∀ a b, 0 ≤ i.D a b) ∧ i.D 0 0 = 0

theorem pathLen_nonneg (D : Nat → Nat → Int) (hD : ∀ a b, 0 ≤ D a b) (xs : List Nat) :
    0 ≤ pathLen D xs := by
  induction xs with
  | nil => simp [pathLen]
  | cons x xs ih =>
    cases xs with
    | nil => simp [pathLen]
    | cons y r => rw [pathLen_cons_cons]; have := hD x y; omega

theorem pathLen_pair (D : Nat → Nat → Int) (x y : Nat) : pathLen D [x, y] = D x y := by
  simp [pathLen]

theorem maxList_nonneg (xs : List Int) : 0 ≤ maxList xs := by
  induction xs with
  | nil => simp [maxList]
  | cons x xs ih => simp only [maxList]; omega

/-- length of a tour driven depot → customers → depot (also right for the empty tour) -/
def tourLen (D : Nat → Nat → Int) (r : List Nat) : Int := pathLen D (0 :: r ++ [0])

theorem routeLen_eq_tourLen (D : Nat → Nat → Int) (h00 : D 0 0 = 0) (r : List Nat) :
    routeLen D r = tourLen D r := by
  unfold routeLen tourLen
  by_cases hr : r = []
  · subst hr; simp [pathLen, h00]
  · simp [hr]

theorem step_maxLen (i : Inst) (s : State) (a : Nat) :
    (step i s a).maxLen =
      max s.maxLen (s.curLen + i.D s.cur a + (if (step i s a).done then i.D a 0 else 0)) := by
  simp only [step, stepWith]
  by_cases hdn : doneTest i.n (upd (upd s.avail a false) 0 (depotNe a && agentLeft i s)) = true
  · simp only [hdn, if_true]; split <;> omega
  · simp only [hdn, if_false, Int.add_zero]; split <;> omega

/-- the closing leg is not stored -/
theorem step_curLen (i : Inst) (s : State) (a : Nat) :
    (step i s a).curLen = if a = 0 then 0 else s.curLen + i.D s.cur a := by
  simp only [step, stepWith]
  by_cases h0 : a = 0
  · subst h0; simp
  · simp [h0]

/-- length bookkeeping: at the depot the running length is 0, lengths are non-negative, and in a
finished state the closed last tour is already in the running maximum -/
structure InvLen (i : Inst) (s : State) : Prop where
  atDepot   : s.cur = 0 → s.curLen = 0
  curNonneg : 0 ≤ s.curLen
  maxNonneg : 0 ≤ s.maxLen
  closedIn  : s.done = true → s.curLen + i.D s.cur 0 ≤ s.maxLen

theorem invLen_reset (i : Inst) : InvLen i (reset i) :=
  ⟨fun _ => rfl, by simp [reset], by simp [reset], by simp [reset]⟩

theorem invLen_step {i : Inst} (hwf : WFD i) {s : State} {a : Nat} (hp : InvLen i s) :
    InvLen i (step i s a) := by
  obtain ⟨hD, h00⟩ := hwf
  have h1 := hD s.cur a
  have hc := hp.curNonneg
  have hmx := hp.maxNonneg
  refine ⟨?_, ?_, ?_, ?_⟩
  · intro h; have : a = 0 := h; rw [step_curLen, if_pos this]
  · rw [step_curLen]; split <;> omega
  · rw [step_maxLen]; omega
  · intro hd
    rw [step_maxLen, step_curLen, step_cur, hd]
    simp only [if_true]
    by_cases h0 : a = 0
    · subst h0; simp only [if_true, h00]; omega
    · simp only [h0, if_false]; omega

theorem inv_both_of_reach {i : Inst} (hwf : WFD i) (hn : 1 ≤ i.n) (hm : 1 ≤ i.m) {s : State}
    (h : Reach env i s) : Inv i s ∧ InvLen i s :=
  Rl4co.inv_of_reach (e := env) (Inv := fun s => Inv i s ∧ InvLen i s)
    ⟨inv_reset i hn hm, invLen_reset i⟩
    (fun _ _ hh ha hmk => ⟨inv_step hh.1 ha hmk, invLen_step hwf hh.2⟩) h

/-- a depot step from a finished state leaves the running maximum alone -/
theorem maxLen_pad {i : Inst} (hwf : WFD i) {s : State} (hi : Inv i s) (hp : InvLen i s)
    (hd : s.done = true) : (step i s 0).maxLen = s.maxLen := by
  rw [step_maxLen, done_step_of_done hi hd]
  have := hp.closedIn hd
  simp only [if_true, hwf.2]
  omega

/-- The refinement, generalised over the start state: from an unfinished state `s`, along a run that
stops at the first finished state, `max_subtour_length` ends up as the maximum of its old value, of
the current tour completed by the first route of `as`, and of the remaining routes of `as`. -/
theorem maxLen_of_run (i : Inst) (hwf : WFD i) {s s' : State} {as : List Nat}
    (h : RunND env i s as s') (hs : s.done = false) (hs' : s'.done = true) (hc : 0 ≤ s.curLen)
    (hi : Inv i s) :
    ∀ r rs, routes as = r :: rs →
      s'.maxLen = max s.maxLen
        (max (s.curLen + pathLen i.D (s.cur :: r ++ [0])) (maxList (rs.map (tourLen i.D)))) := by
  obtain ⟨hD, h00⟩ := hwf
  induction h with
  | nil s => rw [hs] at hs'; cases hs'
  | @cons s s' a as hd ha hm hrest ih =>
    simp only [env] at ha hm hd ih
    have hm' : s.avail a = true := hm
    have hi' := inv_step hi ha hm'
    intro r rs hr
    obtain ⟨r1, rs1, h1⟩ := routes_cons_exists as
    cases hd1 : (step i s a).done with
    | true =>
      -- the episode ends here: no further step is taken from a finished state
      have has : as = [] ∧ s' = step i s a := by
        cases hrest with
        | nil _ => exact ⟨rfl, rfl⟩
        | cons hdd _ _ _ => simp only [env] at hdd; rw [hd1] at hdd; cases hdd
      obtain ⟨has, hss⟩ := has
      subst has hss
      have h0 : a ≠ 0 := by
        intro h0; subst h0
        obtain ⟨j, hj1, hj2, hj⟩ := hi.someCust hs
        have := step_done_true hd1 j hj1 hj2
        rw [step_avail_cust i s 0 j (by omega)] at this
        simp [hj] at this
        omega
      simp only [routes, h0, if_false, List.cons.injEq] at hr
      obtain ⟨hr1, hr2⟩ := hr; subst hr1 hr2
      rw [step_maxLen, hd1]
      simp only [if_true, List.map_nil, maxList, List.cons_append, List.nil_append, pathLen]
      have := hD s.cur a; have := hD a 0
      omega
    | false =>
      have hc' : 0 ≤ (step i s a).curLen := by
        rw [step_curLen]; have := hD s.cur a; split <;> omega
      have ih := ih hd1 hs' hc' hi' r1 rs1 h1
      rw [step_maxLen, step_curLen, hd1] at ih
      simp only [step_cur, Bool.false_eq_true, if_false, Int.add_zero] at ih
      rw [ih]
      clear ih
      by_cases h0 : a = 0
      · subst h0
        simp only [routes, if_true, h1, List.cons.injEq] at hr
        obtain ⟨hr1, hr2⟩ := hr; subst hr1 hr2
        simp only [if_true, List.map_cons, maxList, tourLen, List.nil_append, List.cons_append,
          pathLen_pair, Int.zero_add]
        have := maxList_nonneg (rs1.map (tourLen i.D))
        omega
      · simp only [routes, h0, if_false, h1, List.cons.injEq] at hr
        obtain ⟨hr1, hr2⟩ := hr; subst hr1 hr2
        simp only [h0, if_false, List.cons_append, pathLen_cons_cons]
        have := pathLen_nonneg i.D hD (a :: (r1 ++ [0]))
        have := hD s.cur a
        omega

/-- a run that ends finished = a run to the first finished state followed by steps from finished states -/
theorem run_split {I S : Type} (e : Env I S) (i : I) {s s' : S} {as : List Nat}
    (h : Run e i s as s') (hd : e.done i s' = true) :
    ∃ as1 as2 s1, as = as1 ++ as2 ∧ RunND e i s as1 s1 ∧ e.done i s1 = true ∧ Run e i s1 as2 s' := by
  induction h with
  | nil s => exact ⟨[], [], s, rfl, RunND.nil s, hd, Run.nil s⟩
  | @cons s s' a as ha hm hrest ih =>
    cases hds : e.done i s with
    | true => exact ⟨[], a :: as, s, rfl, RunND.nil s, hds, Run.cons ha hm hrest⟩
    | false =>
      obtain ⟨as1, as2, s1, h1, h2, h3, h4⟩ := ih hd
      exact ⟨a :: as1, as2, s1, by simp [h1], RunND.cons hds ha hm h2, h3, h4⟩

theorem routes_snoc_zero (as : List Nat) : routes (as ++ [0]) = routes as ++ [[]] := by
  induction as with
  | nil => simp [routes]
  | cons a as ih =>
    by_cases h0 : a = 0
    · subst h0; simp [routes, ih]
    · obtain ⟨r, rs, hr⟩ := routes_cons_exists as
      simp only [List.cons_append, routes, h0, if_false, ih, hr]

theorem maxList_snoc_zero (l : List Int) : maxList (l ++ [0]) = maxList l := by
  induction l with
  | nil => simp [maxList]
  | cons x xs ih => simp only [List.cons_append, maxList, ih]

/-- a trailing depot visit (padding) does not change the objective -/
theorem objMinmax_snoc_zero (i : Inst) (as : List Nat) : objMinmax i (as ++ [0]) = objMinmax i as := by
  simp only [objMinmax, routes_snoc_zero, List.map_append, List.map_cons, List.map_nil]
  have : routeLen i.D [] = 0 := by simp [routeLen]
  rw [this, maxList_snoc_zero]

/-- **C03 (mTSP, minmax): reward = −(longest closed tour) for EVERY finished mask-confined run,
padding included.** -/
theorem reward_minmax_eq_objective (i : Inst) (hwf : WFD i) (hm : 1 ≤ i.m) {as : List Nat} {s : State}
    (h : Run env i (env.reset i) as s) (hd : env.done i s = true) :
    rewardMinmax s = - objMinmax i as := by
  obtain ⟨as1, as2, s1, hsplit, hnd, hd1, hrest⟩ := run_split env i h hd
  have hd1' : s1.done = true := hd1
  -- a finished state was reached, so there is at least one customer
  have hn : 1 ≤ i.n := by
    cases hnd with
    | nil _ => simp [env, reset] at hd1'
    | cons _ ha hmk _ =>
      have : (reset i).avail _ = true := hmk
      simp [reset] at this
      have ha' : _ < i.n + 1 := ha
      omega
  -- part 1: up to the first finished state
  obtain ⟨r, rs, hr⟩ := routes_cons_exists as1
  have h1 := maxLen_of_run i hwf hnd rfl hd1' (by simp [env, reset]) (inv_reset i hn hm) r rs hr
  have hobj1 : s1.maxLen = objMinmax i as1 := by
    simp only [objMinmax, hr, List.map_cons, maxList, h1]
    rw [routeLen_eq_tourLen i.D hwf.2]
    have hmap : rs.map (routeLen i.D) = rs.map (tourLen i.D) :=
      List.map_congr_left (fun x _ => routeLen_eq_tourLen i.D hwf.2 x)
    rw [hmap]
    have := maxList_nonneg (rs.map (tourLen i.D))
    simp only [env, reset, tourLen, Int.zero_add]
    omega
  -- part 2: padding steps keep both sides
  have hreach1 : Reach env i s1 := ⟨as1, hnd.run⟩
  have hpad : ∀ {t t' : State} {bs : List Nat}, Run env i t bs t' → ∀ hist, Reach env i t →
      t.done = true → t'.maxLen = t.maxLen ∧ objMinmax i (hist ++ bs) = objMinmax i hist := by
    intro t t' bs hrun
    induction hrun with
    | nil t => intro hist _ _; simp
    | @cons t t' b bs hb hmk hrest' ih =>
      intro hist hreach hdt
      obtain ⟨hit, hpt⟩ := inv_both_of_reach hwf hn hm hreach
      have hb0 := mask_of_done hit hdt hb hmk
      subst hb0
      have hreach' : Reach env i (env.step i t 0) := by
        obtain ⟨pre, hpre⟩ := hreach
        exact ⟨pre ++ [0], hpre.snoc hb hmk⟩
      obtain ⟨e1, e2⟩ := ih (hist ++ [0]) hreach' (done_step_of_done hit hdt)
      have hmx : (env.step i t 0).maxLen = t.maxLen := maxLen_pad hwf hit hpt hdt
      refine ⟨by rw [e1, hmx], ?_⟩
      have : hist ++ 0 :: bs = hist ++ [0] ++ bs := by simp
      rw [this, e2, objMinmax_snoc_zero]
  obtain ⟨e1, e2⟩ := hpad hrest as1 hreach1 hd1'
  show - s.maxLen = _
  rw [e1, hobj1, hsplit, e2]

/-- **C03 (mTSP, sum): reward = −(summed closed tour lengths) for EVERY action list.** -/
theorem reward_sum_eq_objective (i : Inst) (h00 : i.D 0 0 = 0) (as : List Nat) :
    rewardSum i as = - objSum i as := by
  simp only [rewardSum, objSum, rollLen_eq_closedLen, closedLen]
  rw [closed_eq_routesLen i.D h00 as]

/-- the instance on which the unfixed code failed: one customer at distance 1 -/
def exInst : Inst := ⟨1, 1, fun a b => if a = b then 0 else 1⟩

/-- Non-vacuity: a finished run WITH a padding step (the regression witness of 0b6c547: reward −2,
not −3), and the two-tour list on which the unfixed `sum` reward was wrong (regression of 894138a). -/
example : Run env exInst (env.reset exInst) [1, 0] (exec env exInst (env.reset exInst) [1, 0]) ∧
    env.done exInst (exec env exInst (env.reset exInst) [1, 0]) = true ∧
    rewardMinmax (exec env exInst (env.reset exInst) [1, 0]) = -2 :=
  ⟨(run_iff_admitted _ _ _ _ _).2 ⟨by decide, rfl⟩, by decide, by decide⟩
example : rewardSum ⟨2, 2, fun a b => if a ≤ b then (b - a : Nat) else (a - b : Nat)⟩ [1, 0, 2] = -6 := by
  decide

end Rl4co.Mtsp
