/-
C03 for mTSP.

`minmax`: the reward read from the incrementally maintained `max_subtour_length` equals minus the
longest closed tour of the executed solution — for every mask-confined run that ends at the moment the
environment reports `done` (hypothesis: NO padding step).  The unrestricted statement is false of the
code: the first depot step after `done` re-adds the way back of the last tour
(`reward_minmax_counterexample`).

`sum`: `_get_reward` does not compute the summed tour lengths: it raises unless
`len(actions) ∈ {1, num_loc}` and otherwise closes the tour from the last action to the first one
instead of through the depot (`reward_sum_counterexample`); it is right exactly for the action lists
that end with a depot step and have length `num_loc` (`reward_sum_partial`).
-/
import Rl4co.Proofs.Mtsp

namespace Rl4co.Mtsp
open Rl4co.Spec.Mtsp

/-- non-negative distances, depot at distance 0 from itself -/
def WFD (i : Inst) : Prop := (∀ a b, 0 ≤ i.D a b) ∧ i.D 0 0 = 0

theorem pathLen_nonneg (D : Nat → Nat → Int) (hD : ∀ a b, 0 ≤ D a b) (xs : List Nat) :
    0 ≤ pathLen D xs := by
  induction xs with
  | nil => simp [pathLen]
  | cons x xs ih =>
    cases xs with
    | nil => simp [pathLen]
    | cons y r => rw [pathLen_cons_cons]; have := hD x y; omega

theorem pathLen_pair (D : Nat → Nat → Int) (x y : Nat) : pathLen D [x, y] = D x y := by
  simp [pathLen]

theorem maxList_nonneg (xs : List Int) : 0 ≤ maxList xs := by
  induction xs with
  | nil => simp [maxList]
  | cons x xs ih => simp only [maxList]; omega

/-- length of a tour driven depot → customers → depot (also right for the empty tour) -/
def tourLen (D : Nat → Nat → Int) (r : List Nat) : Int := pathLen D (0 :: r ++ [0])

theorem routeLen_eq_tourLen (D : Nat → Nat → Int) (h00 : D 0 0 = 0) (r : List Nat) :
    routeLen D r = tourLen D r := by
  unfold routeLen tourLen
  by_cases hr : r = []
  · subst hr; simp [pathLen, h00]
  · simp [hr]

theorem step_maxLen (i : Inst) (s : State) (a : Nat) :
    (step i s a).maxLen =
      max s.maxLen (s.curLen + i.D s.cur a + (if (step i s a).done then i.D a 0 else 0)) := by
  have hd : (step i s a).done =
      !(anyCust i.n (upd (upd s.avail a false) 0 (decide (a ≠ 0) && agentLeft i s))) := rfl
  rw [hd]
  simp only [step, stepWith]
  split <;> split <;> omega

theorem step_curLen (i : Inst) (s : State) (a : Nat) :
    (step i s a).curLen =
      if a = 0 then 0 else s.curLen + i.D s.cur a + (if (step i s a).done then i.D a 0 else 0) := by
  have hd : (step i s a).done =
      !(anyCust i.n (upd (upd s.avail a false) 0 (decide (a ≠ 0) && agentLeft i s))) := rfl
  rw [hd]
  simp only [step, stepWith]
  by_cases h0 : a = 0
  · subst h0; simp
  · simp only [h0, if_false, Nat.add_zero, if_true]
    split <;> simp

/-- The refinement, generalised over the start state: from an unfinished state `s`, along a run that
stops at the first finished state, `max_subtour_length` ends up as the maximum of its old value, of
the current tour completed by the first route of `as`, and of the remaining routes of `as`. -/
theorem maxLen_of_run (i : Inst) (hwf : WFD i) {s s' : State} {as : List Nat}
    (h : RunND env i s as s') (hs : s.done = false) (hs' : s'.done = true) (hc : 0 ≤ s.curLen)
    (hi : Inv i s) :
    ∀ r rs, routes as = r :: rs →
      s'.maxLen = max s.maxLen
        (max (s.curLen + pathLen i.D (s.cur :: r ++ [0])) (maxList (rs.map (tourLen i.D)))) := by
  obtain ⟨hD, h00⟩ := hwf
  induction h with
  | nil s => rw [hs] at hs'; cases hs'
  | @cons s s' a as hd ha hm hrest ih =>
    simp only [env] at ha hm hd ih
    have hm' : s.avail a = true := hm
    have hi' := inv_step hi ha hm'
    intro r rs hr
    obtain ⟨r1, rs1, h1⟩ := routes_cons_exists as
    cases hd1 : (step i s a).done with
    | true =>
      -- the episode ends here: no further step is taken from a finished state
      have has : as = [] ∧ s' = step i s a := by
        cases hrest with
        | nil _ => exact ⟨rfl, rfl⟩
        | cons hdd _ _ _ => simp only [env] at hdd; rw [hd1] at hdd; cases hdd
      obtain ⟨has, hss⟩ := has
      subst has hss
      have h0 : a ≠ 0 := by
        intro h0; subst h0
        -- a depot step does not change the customers, so it cannot finish an unfinished episode
        obtain ⟨j, hj1, hj2, hj⟩ := hi.someCust hs
        have := step_done_true hd1 j hj1 hj2
        rw [step_avail_cust i s 0 j (by omega)] at this
        simp [hj] at this
        omega
      simp only [routes, h0, if_false, List.cons.injEq] at hr
      obtain ⟨hr1, hr2⟩ := hr; subst hr1 hr2
      rw [step_maxLen, hd1]
      simp only [if_true, List.map_nil, maxList, List.cons_append, List.nil_append, pathLen]
      have := hD s.cur a; have := hD a 0
      omega
    | false =>
      have hc' : 0 ≤ (step i s a).curLen := by
        rw [step_curLen, hd1]; have := hD s.cur a; split <;> simp <;> omega
      have ih := ih hd1 hs' hc' hi' r1 rs1 h1
      rw [step_maxLen, step_curLen, hd1] at ih
      simp only [step_cur, Bool.false_eq_true, if_false, Int.add_zero] at ih
      rw [ih]
      clear ih
      by_cases h0 : a = 0
      · subst h0
        simp only [routes, if_true, h1, List.cons.injEq] at hr
        obtain ⟨hr1, hr2⟩ := hr; subst hr1 hr2
        simp only [if_true, List.map_cons, maxList, tourLen, List.nil_append, List.cons_append,
          pathLen_pair, Int.zero_add]
        have := maxList_nonneg (rs1.map (tourLen i.D))
        omega
      · simp only [routes, h0, if_false, h1, List.cons.injEq] at hr
        obtain ⟨hr1, hr2⟩ := hr; subst hr1 hr2
        simp only [h0, if_false, List.cons_append, pathLen_cons_cons]
        have := pathLen_nonneg i.D hD (a :: (r1 ++ [0]))
        have := hD s.cur a
        omega

/-- **C03 (mTSP, minmax), no padding.** -/
theorem reward_minmax_eq_objective (i : Inst) (hwf : WFD i) (hm : 1 ≤ i.m) {as : List Nat} {s : State}
    (h : RunND env i (env.reset i) as s) (hd : env.done i s = true) :
    rewardMinmax s = - objMinmax i as := by
  have hd' : s.done = true := hd
  obtain ⟨r, rs, hr⟩ := routes_cons_exists as
  -- a finished state was reached, so there is at least one customer
  have hn : 1 ≤ i.n := by
    cases h with
    | nil _ => simp [env, reset] at hd'
    | cons _ ha hmk _ =>
      simp only [env] at ha hmk
      have : (reset i).avail _ = true := hmk
      simp [reset] at this
      omega
  have := maxLen_of_run i hwf h rfl hd' (by simp [env, reset]) (inv_reset i hn hm) r rs hr
  simp only [rewardMinmax, objMinmax, hr, List.map_cons, maxList, this]
  rw [routeLen_eq_tourLen i.D hwf.2]
  have hmap : rs.map (routeLen i.D) = rs.map (tourLen i.D) :=
    List.map_congr_left (fun x _ => routeLen_eq_tourLen i.D hwf.2 x)
  rw [hmap]
  have h1 := maxList_nonneg (rs.map (tourLen i.D))
  simp only [env, reset, tourLen, Int.zero_add]
  omega

/-- The statement one would like: for EVERY finished mask-confined run (padding included). -/
def reward_minmax_statement : Prop :=
  ∀ (i : Inst) (as : List Nat) (s : State), WFD i → 1 ≤ i.m →
    Run env i (env.reset i) as s → env.done i s = true → rewardMinmax s = - objMinmax i as

def cexInst : Inst := ⟨1, 1, fun a b => if a = b then 0 else 1⟩

/-- One padding step after `done` re-adds the way back: reward −3, longest tour 2. -/
theorem reward_minmax_counterexample : ¬ reward_minmax_statement := by
  intro h
  have := h cexInst [1, 0] (exec env cexInst (env.reset cexInst) [1, 0])
    ⟨by intro a b; simp only [cexInst]; split <;> omega, rfl⟩ (by decide)
    ((run_iff_admitted _ _ _ _ _).2 ⟨by decide, rfl⟩) (by decide)
  revert this; decide

/-! ### `cost_type = "sum"` -/

def reward_sum_statement : Prop :=
  ∀ (i : Inst) (as : List Nat) (s : State), WFD i → 1 ≤ i.m →
    Run env i (env.reset i) as s → env.done i s = true → rewardSum i as = some (- objSum i as)

def cexInst2 : Inst := ⟨2, 2, fun a b => if a ≤ b then (b - a : Nat) else (a - b : Nat)⟩

/-- `[1,0,2]` on a line: the code returns −(1+2+1) = −4, the two tours have total length 2 + 4 = 6
(and for `[1,2]` with one agent the call raises). -/
theorem reward_sum_counterexample : ¬ reward_sum_statement := by
  intro h
  have := h cexInst2 [1, 0, 2] (exec env cexInst2 (env.reset cexInst2) [1, 0, 2])
    ⟨by intro a b; simp only [cexInst2]; split <;> omega, rfl⟩ (by decide)
    ((run_iff_admitted _ _ _ _ _).2 ⟨by decide, rfl⟩) (by decide)
  revert this; decide

/-- The sum-mode reward is right for action lists of length `num_loc` that end with a depot step
(a single tour followed by exactly one padding step). -/
theorem reward_sum_partial (i : Inst) (h00 : i.D 0 0 = 0) (c : Nat) (cs : List Nat)
    (hlen : (c :: cs).length = i.n) :
    rewardSum i (c :: cs ++ [0]) = some (- objSum i (c :: cs ++ [0])) := by
  have hl : (c :: cs ++ [0]).length = i.n + 1 := by simp at hlen ⊢; omega
  simp only [rewardSum, hl, if_true, objSum]
  rw [rollLen_eq_closedLen, ← closed_eq_routesLen i.D h00]
  simp only [closedLen, List.cons_append, pathLen_cons_cons]
  have e1 : c :: (cs ++ [0] ++ [c]) = (c :: (cs ++ [0])) ++ [c] := by simp
  have e2 : c :: (cs ++ [0] ++ [0]) = (c :: (cs ++ [0])) ++ [0] := by simp
  rw [e1, e2, pathLen_append_singleton, pathLen_append_singleton]
  have hl : (c :: (cs ++ [0])).getLast (by simp) = 0 := by
    rw [List.getLast_cons (by simp)]; simp
  rw [hl, h00]
  congr 1
  omega

/-- Non-vacuity of the no-padding theorem: `[2,0,3,1]` with 2 agents is such a run. -/
example : RunND env ⟨3, 2, fun a b => if a = b then 0 else 1⟩ (env.reset ⟨3, 2, fun a b => if a = b then 0 else 1⟩)
    [2, 0, 3, 1] (exec env ⟨3, 2, fun a b => if a = b then 0 else 1⟩ (env.reset ⟨3, 2, fun a b => if a = b then 0 else 1⟩) [2, 0, 3, 1]) := by
  refine RunND.cons (by decide) (by decide) (by decide) ?_
  refine RunND.cons (by decide) (by decide) (by decide) ?_
  refine RunND.cons (by decide) (by decide) (by decide) ?_
  refine RunND.cons (by decide) (by decide) (by decide) ?_
  exact RunND.nil _
example : env.done ⟨3, 2, fun a b => if a = b then 0 else 1⟩
    (exec env ⟨3, 2, fun a b => if a = b then 0 else 1⟩ (env.reset ⟨3, 2, fun a b => if a = b then 0 else 1⟩) [2, 0, 3, 1]) = true := by
  decide
example : rewardSum ⟨2, 1, fun a b => if a = b then 0 else 1⟩ [1, 2, 0] = some (-3) := by decide

end Rl4co.Mtsp
