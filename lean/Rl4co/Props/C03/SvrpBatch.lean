/-
C03/C04 for SVRP, batched form of the reward's cost table.  `_get_reward` builds the cost rows of ALL batch
rows in one Python loop over the row-major positions of the depot visits, carrying `start`, `tech` and the
running row number `batch` from row to row.  `costsBatch_eq_rows`: whenever every row contains a depot visit
(true of every finished episode: `done` requires the depot) the table equals, row by row, the per-instance
cost row `costRow` (entry p = cost of the technician number "depot visits among the first p actions") — at any
batch size, position and composition.  The proof needs both flush statements of the loop to be present
(`Params.svrpRewardFlushOnRowChange`, `Params.svrpRewardFlushAtEnd`, extracted from the source): dropping
either one leaves the tail of a row at cost 0 and breaks this proof.
-/
import Rl4co.Env.Svrp

namespace Rl4co.Svrp

/-- entry `p` of the per-instance cost row: technician = number of depot visits among the first `p` actions -/
def costAt (i : Inst) (t : Nat) (as : List Nat) (p : Nat) : Int := i.costs (t + (as.take p).count 0)

theorem costRow_getD (i : Inst) (as : List Nat) : ∀ t p, p ≤ as.length →
    (costRow i t as).getD p 0 = costAt i t as p := by
  induction as with
  | nil => intro t p hp; have : p = 0 := by simpa using hp
           subst this; simp [costRow, costAt]
  | cons a as ih =>
    intro t p hp
    cases p with
    | zero => simp [costRow, costAt]
    | succ p =>
      simp only [costRow, List.getD_cons_succ]
      rw [ih _ p (by simpa using hp)]
      simp only [costAt, List.take_succ_cons, List.count_cons]
      by_cases h0 : a = 0
      · subst h0; simp; congr 1; omega
      · have : (a == 0) = false := by simpa using h0
        simp [h0, this]

/-- the table "as if the current row were flushed now" -/
def flushed (i : Inst) (st : LoopState) : Nat → Nat → Int :=
  fun r p => if r = st.batch ∧ st.start ≤ p then i.costs st.tech else st.costs r p

/-- within one row (no row change): processing the depot columns of `as` (first action at column `c`) -/
theorem inner (i : Inst) (len b : Nat) (as : List Nat) : ∀ (c : Nat) (st : LoopState), st.batch = b → st.start ≤ c →
    let st' := ((zeroCols c as).map (fun x => (b, x))).foldl (loopBody i len) st
    st'.batch = b ∧ st.start ≤ st'.start ∧
    (∀ r p, r ≠ b → st'.costs r p = st.costs r p) ∧
    (∀ p, p < st.start → st'.costs b p = st.costs b p) ∧
    (∀ p, st.start ≤ p → flushed i st' b p = i.costs (st.tech + (as.take (p - c)).count 0)) := by
  induction as with
  | nil =>
    intro c st hb hs
    refine ⟨hb, Nat.le_refl _, fun _ _ _ => rfl, fun _ _ => rfl, fun p hp => ?_⟩
    show flushed i st b p = _
    simp [flushed, hb, hp]
  | cons a as ih =>
    intro c st hb hs
    by_cases h0 : a = 0
    · subst h0
      simp only [zeroCols, if_true, List.map_cons, List.foldl_cons]
      -- one loop step without row change
      have hstep : loopBody i len st (b, c) =
          { costs := fillRow st.costs b st.start (c + 1) (i.costs st.tech), start := c + 1, tech := st.tech + 1, batch := b } := by
        simp [loopBody, hb]
      rw [hstep]
      obtain ⟨q1, q2, q3, q4, q5⟩ := ih (c + 1)
        { costs := fillRow st.costs b st.start (c + 1) (i.costs st.tech), start := c + 1, tech := st.tech + 1, batch := b }
        rfl (Nat.le_refl _)
      simp only at q1 q2 q3 q4 q5
      refine ⟨q1, by omega, ?_, ?_, ?_⟩
      · intro r p hr
        rw [q3 r p hr]; simp [fillRow, hr]
      · intro p hp
        rw [q4 p (by omega)]
        have : ¬ (st.start ≤ p) := by omega
        simp [fillRow, this]
      · intro p hp
        by_cases hpc : p ≤ c
        · -- position inside the interval just written
          have hlt : p < c + 1 := by omega
          simp only [flushed, q1, true_and]
          have hns : ¬ (((zeroCols (c + 1) as).map (fun x => (b, x))).foldl (loopBody i len)
              { costs := fillRow st.costs b st.start (c + 1) (i.costs st.tech), start := c + 1, tech := st.tech + 1, batch := b }).start ≤ p := by
            omega
          rw [if_neg hns, q4 p hlt]
          have : p - c = 0 := by omega
          simp [fillRow, hp, hlt, this]
        · have hpc' : c + 1 ≤ p := by omega
          rw [q5 p hpc']
          have : p - c = (p - (c + 1)) + 1 := by omega
          rw [this, List.take_succ_cons, List.count_cons]
          simp; congr 1; omega
    · simp only [zeroCols, h0, if_false]
      obtain ⟨q1, q2, q3, q4, q5⟩ := ih (c + 1) st hb (by omega)
      refine ⟨q1, q2, q3, q4, ?_⟩
      intro p hp
      rw [q5 p hp]
      by_cases hpc : p ≤ c
      · have e1 : p - (c + 1) = 0 := by omega
        have e2 : p - c = 0 := by omega
        simp [e1, e2]
      · have : p - c = (p - (c + 1)) + 1 := by omega
        have hb0 : (a == 0) = false := by simpa using h0
        rw [this, List.take_succ_cons, List.count_cons]
        simp [hb0]

theorem zeroCols_ne_nil (as : List Nat) (h : 0 ∈ as) : ∀ c, zeroCols c as ≠ [] := by
  induction as with
  | nil => simp at h
  | cons a as ih =>
    intro c
    by_cases h0 : a = 0
    · simp [zeroCols, h0]
    · simp only [zeroCols, h0, if_false]
      exact ih (by rcases List.mem_cons.mp h with h' | h'
                   · exact absurd h'.symm h0
                   · exact h') (c + 1)

/-- one whole row `b` that contains a depot visit, entered from a state of an earlier row (or from the initial
state when `b = 0`): the previous row is flushed up to `len`, row `b` gets its own cost row -/
theorem row_step (i : Inst) (hF : Params.svrpRewardFlushOnRowChange = true) (len b : Nat) (as : List Nat)
    (h0 : 0 ∈ as) (st : LoopState)
    (hst : st.batch < b ∨ (st.batch = b ∧ st.start = 0 ∧ st.tech = 0)) :
    let st' := ((zeroCols 0 as).map (fun x => (b, x))).foldl (loopBody i len) st
    st'.batch = b ∧
    ∀ r p, p < len → flushed i st' r p = if r = b then costAt i 0 as p else flushed i st r p := by
  -- the state after the (possible) row change
  let st1 : LoopState := if b > st.batch then rowChange i len st b else st
  have hb1 : st1.batch = b := by
    simp only [st1]; rcases hst with h | h
    · simp [h, rowChange]
    · have : ¬ b > st.batch := by omega
      simp [h.1]
  have hs1 : st1.start = 0 ∧ st1.tech = 0 := by
    simp only [st1]; rcases hst with h | h
    · simp [h, rowChange]
    · have : ¬ b > st.batch := by omega
      simp [this, h.2.1, h.2.2]
  -- the first loop step of the row is the same from `st` and from `st1`
  have hfold : ((zeroCols 0 as).map (fun x => (b, x))).foldl (loopBody i len) st =
      ((zeroCols 0 as).map (fun x => (b, x))).foldl (loopBody i len) st1 := by
    cases hz : zeroCols 0 as with
    | nil => exact absurd hz (zeroCols_ne_nil as h0 0)
    | cons c cs =>
      simp only [List.map_cons, List.foldl_cons]
      congr 1
      simp only [loopBody, st1]
      rcases hst with h | h
      · simp [h, rowChange]
      · have : ¬ b > st.batch := by omega
        simp [this]
  obtain ⟨q1, _, q3, _, q5⟩ := inner i len b as 0 st1 hb1 (by omega)
  intro st'
  have hst' : st' = ((zeroCols 0 as).map (fun x => (b, x))).foldl (loopBody i len) st1 := hfold
  refine ⟨by rw [hst']; exact q1, ?_⟩
  intro r p hp
  by_cases hr : r = b
  · subst hr
    rw [if_pos rfl, hst', q5 p (by omega)]
    simp [costAt, hs1.2]
  · rw [if_neg hr]
    have hne : ¬ (r = st'.batch ∧ st'.start ≤ p) := by rw [hst', q1]; exact fun h => hr h.1
    simp only [flushed, hne, if_false]
    rw [hst', q3 r p hr]
    -- other rows: what the row change left
    simp only [st1]
    rcases hst with h | h
    · simp only [h, if_true, rowChange, hF, fillRow]
      by_cases hrb : r = st.batch
      · subst hrb
        by_cases hsp : st.start ≤ p
        · simp [hsp, hp]
        · simp [hsp]
      · simp [hrb]
    · have : ¬ b > st.batch := by omega
      have hrb : ¬ r = st.batch := by omega
      simp [this, hrb]

/-- all rows `b0, b0+1, …` -/
theorem rows_fold (i : Inst) (hF : Params.svrpRewardFlushOnRowChange = true) (len : Nat) (rows : List (List Nat)) :
    ∀ (b0 : Nat) (st : LoopState), (∀ r ∈ rows, 0 ∈ r) →
      (st.batch < b0 ∨ (st.batch = b0 ∧ st.start = 0 ∧ st.tech = 0)) →
      let st' := (zeroIndices b0 rows).foldl (loopBody i len) st
      ∀ r p, p < len → flushed i st' r p =
        if h : b0 ≤ r ∧ r - b0 < rows.length then costAt i 0 (rows[r - b0]'h.2) p else flushed i st r p := by
  induction rows with
  | nil =>
    intro b0 st _ _ st' r p _
    have : ¬ (b0 ≤ r ∧ r - b0 < ([] : List (List Nat)).length) := by simp
    simp [st', zeroIndices]
  | cons row rows ih =>
    intro b0 st hz hst st' r p hp
    simp only [st', zeroIndices, List.foldl_append]
    obtain ⟨hb, hrow⟩ := row_step i hF len b0 row (hz row (by simp)) st hst
    have := ih (b0 + 1) (((zeroCols 0 row).map (fun x => (b0, x))).foldl (loopBody i len) st)
      (fun r' hr' => hz r' (by simp [hr'])) (Or.inl (by rw [hb]; omega)) r p hp
    rw [this, hrow r p hp]
    by_cases hr : r = b0
    · subst hr
      have h1 : ¬ (r + 1 ≤ r ∧ r - (r + 1) < rows.length) := by omega
      have h2 : r ≤ r ∧ r - r < (row :: rows).length := by simp
      rw [dif_neg h1, dif_pos h2, if_pos rfl]
      simp
    · by_cases hlt : b0 + 1 ≤ r ∧ r - (b0 + 1) < rows.length
      · have h2 : b0 ≤ r ∧ r - b0 < (row :: rows).length := by
          simp only [List.length_cons]; omega
        rw [dif_pos hlt, dif_pos h2]
        have : r - b0 = (r - (b0 + 1)) + 1 := by omega
        simp [this]
      · have h2 : ¬ (b0 ≤ r ∧ r - b0 < (row :: rows).length) := by
          simp only [List.length_cons]; omega
        rw [dif_neg hlt, dif_neg h2, if_neg hr]

/-- **batched cost table = per-row cost rows**, at any batch size and composition, when every row contains a
depot visit (as every finished episode does). -/
theorem costsBatch_eq_rows (i : Inst) (len : Nat) (rows : List (List Nat)) (hz : ∀ r ∈ rows, 0 ∈ r)
    (b : Nat) (hb : b < rows.length) (p : Nat) (hp : p < len) :
    costsBatch i len rows b p = costAt i 0 rows[b] p := by
  have hF : Params.svrpRewardFlushOnRowChange = true := by decide
  have hE : Params.svrpRewardFlushAtEnd = true := by decide
  have := rows_fold i hF len rows 0 loopInit hz (Or.inr ⟨rfl, rfl, rfl⟩) b p hp
  have hcond : 0 ≤ b ∧ b - 0 < rows.length := ⟨Nat.zero_le _, by simpa using hb⟩
  rw [dif_pos hcond] at this
  simp only [costsBatch, hE, if_true]
  have hfl : fillRow ((zeroIndices 0 rows).foldl (loopBody i len) loopInit).costs
      ((zeroIndices 0 rows).foldl (loopBody i len) loopInit).batch
      ((zeroIndices 0 rows).foldl (loopBody i len) loopInit).start len
      (i.costs ((zeroIndices 0 rows).foldl (loopBody i len) loopInit).tech) b p =
      flushed i ((zeroIndices 0 rows).foldl (loopBody i len) loopInit) b p := by
    simp [fillRow, flushed, hp]
  rw [hfl, this]
  simp

/-- … and in terms of the model's per-instance `costRow` (rows of `len − 1` actions) -/
theorem costsBatch_eq_costRow (i : Inst) (L : Nat) (rows : List (List Nat)) (hz : ∀ r ∈ rows, 0 ∈ r)
    (hl : ∀ r ∈ rows, r.length = L) (b : Nat) (hb : b < rows.length) (p : Nat) (hp : p ≤ L) :
    costsBatch i (L + 1) rows b p = (costRow i 0 rows[b]).getD p 0 := by
  rw [costsBatch_eq_rows i (L + 1) rows hz b hb p (by omega), costRow_getD]
  rw [hl _ (List.getElem_mem hb)]; exact hp

/-- Non-vacuity / the seeded defect: two rows, the first one ends at a customer; with both flushes its tail
(positions 2, 3) is charged to technician 1. -/
example : (List.range 4).map (costsBatch ⟨3, 3, fun _ => 9, fun _ => 1, fun k => (k : Int) + 1, fun _ _ => 0⟩ 4
    [[1, 0, 2], [3, 0, 0]] 0) = [1, 1, 2, 2] := by decide

end Rl4co.Svrp
