/-
C03 (FFSP): the reward written by `FFSPEnv._step` once the batch is finished equals minus the makespan
(latest completion time) of the row's schedule, recomputed by the independent `Spec.Ffsp.makespan`.
The code takes the maximum over the whole `schedule + duration` matrix including the entries that
still hold the sentinel −999999; `WF.dur_lt` (durations below the sentinel) is what makes those
entries harmless.
-/
import Rl4co.Props.C07.Ffsp
namespace Rl4co.Ffsp
open Rl4co.Spec.Ffsp

/-- **C03 (FFSP).**  The reward of a finished solo episode is written, and equals minus the makespan of
the episode's schedule (the latest completion time over all operations). -/
theorem reward_eq_makespan (i : Inst) (h : WF i) {as : List Nat} {s : State}
    (hr : RunND env i (env.reset i) as s) (hd : s.done = true) :
    s.reward = some (- makespan i (ofMatrix i s.sched)) ∧
    IsMakespan i (ofMatrix i s.sched) (makespan i (ofMatrix i s.sched)) := by
  obtain ⟨c, _, hrw⟩ := solo_inv' i h (live_reset i h) rfl hr
  have hmk := core_makespan i h s c hd
  have hne : ofMatrix i s.sched ≠ [] := by
    obtain ⟨⟨o, ho, _⟩, _⟩ := hmk
    intro hnil; rw [hnil] at ho; cases ho
  have hm2 := makespan_is i _ hne
  have := isMakespan_unique i _ _ _ hmk hm2
  exact ⟨by rw [hrw hd, rewardVal, this], hm2⟩

/-- **C03 (FFSP), row of a batch.**  At the step where `done.all()` becomes true the reward written for
a row is minus the makespan of its schedule, however long the row has been idling. -/
theorem reward_eq_makespan_row (i : Inst) (h : WF i) {s : State} (hr : Reach envM i s) (a : Nat)
    (ha : a < i.J + 1) (hm : s.mask a = true) (hd : (apply i s a).done = true) :
    (stepG i s a true).reward = some (- makespan i (ofMatrix i (stepG i s a true).sched)) := by
  have c := core_stepG i h s (live_of_reach i h hr) a ha hm true
  have hdone : (stepG i s a true).done = true := by simp [stepG, finish, hd]
  have hmk := core_makespan i h _ c hdone
  have hne : ofMatrix i (stepG i s a true).sched ≠ [] := by
    obtain ⟨⟨o, ho, _⟩, _⟩ := hmk
    intro hnil; rw [hnil] at ho; cases ho
  have := isMakespan_unique i _ _ _ hmk (makespan_is i _ hne)
  rw [← this]
  simp [stepG, finish, rewardVal, endMax]

/-- Non-vacuity (instance `ex` of `Props/C07/Ffsp.lean`): reward −4 = −makespan. -/
example : (exec env ex (env.reset ex) [0, 1, 0, 1]).reward = some (-4) := by decide
example : makespan ex (ofMatrix ex (exec env ex (env.reset ex) [0, 1, 0, 1]).sched) = 4 := by decide

/-! ### Why `WF.dur_lt` is needed -/


/-- The statement without the duration bound `WF.dur_lt` … -/
def reward_eq_makespan_any_duration_statement : Prop :=
  ∀ (i : Inst), 0 < i.S → 0 < i.M → 0 < i.J → (∀ p, p < i.M → i.perm p < i.M) →
    ∀ (as : List Nat) (s : State), RunND env i (env.reset i) as s → s.done = true →
      s.reward = some (- makespan i (ofMatrix i s.sched))

/-- 1 stage, 2 machines, 1 job: duration 1 on machine 0 (where it is scheduled), 2 000 000 on machine 1 -/
def big : Inst := ⟨1, 2, 1, fun _ m => if m = 0 then 1 else 2000000, fun p => p, true⟩

/-- … is false (known finding `ffsp-reward-sentinel-C03`): the reward is computed as the maximum of
`schedule + duration` over *all* matrix entries, and an entry that still holds the sentinel −999999 wins
as soon as its duration exceeds 999999 + makespan.  Here the makespan is 1 and the reward −1000001. -/
theorem reward_needs_duration_bound : ¬ reward_eq_makespan_any_duration_statement := by
  intro hst
  have hr : RunND env big (env.reset big) [0] (exec env big (env.reset big) [0]) :=
    RunND.cons (by decide) (by decide) (by decide) (RunND.nil _)
  have := hst big (by decide) (by decide) (by decide) (fun p hp => hp) [0] _ hr (by decide)
  revert this
  decide

/-- one job, fast machine 0 (duration 1), machine 1 of duration `d` never used -/
def bigD (d : Nat) : Inst := ⟨1, 2, 1, fun _ m => if m = 0 then 1 else d, fun p => p, true⟩

/-- **The exact threshold**: an unused entry beats the true makespan `v` as soon as its duration exceeds
`−sentinel + v`.  With makespan 1: duration 1 000 000 is still harmless (one beyond what `WF.dur_lt`
admits), duration 1 000 001 already yields reward −2. -/
theorem reward_sentinel_threshold :
    (exec env (bigD 1000000) (reset (bigD 1000000)) [0]).reward = some (-1) ∧
    (exec env (bigD 1000001) (reset (bigD 1000001)) [0]).reward = some (-2) ∧
    makespan (bigD 1000001) (ofMatrix (bigD 1000001) (exec env (bigD 1000001) (reset (bigD 1000001)) [0]).sched) = 1 := by
  decide

end Rl4co.Ffsp
