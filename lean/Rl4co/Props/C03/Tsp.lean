/-
C03 for TSP: the reward computed by the gather / `roll(-1)` / norm / sum idiom is minus the length
of the closed tour through the visited nodes in order, for EVERY action list, provided distances are
symmetric (the code measures |x_next − x_cur|; Euclidean distance is symmetric).

The statement covers one-node tours too (`as = [a]`: reward `-D a a`); the real code agrees since
/repo commit f2d5960 (before it, the gather squeezed a one-step action dimension and the roll ran
over the batch; the harness keeps a regression probe for n = 1 inside batches).
-/
import Rl4co.Env.Tsp
import Rl4co.Proofs.TspfamParams
import Rl4co.Spec.Tsp

namespace Rl4co.Tsp

theorem zipWith_swap (D : Nat → Nat → Int) (hs : ∀ a b, D a b = D b a) (xs ys : List Nat) :
    List.zipWith (fun nxt c => D nxt c) ys xs = List.zipWith (fun a b => D a b) xs ys := by
  induction xs generalizing ys with
  | nil => cases ys <;> simp
  | cons x xs ih =>
    cases ys with
    | nil => simp
    | cons y ys => simp [ih, hs y x]

/-- **C03 (TSP).** -/
theorem reward_eq_objective (i : Inst) (hs : ∀ a b, i.D a b = i.D b a) (as : List Nat) :
    reward i as = - Spec.Tsp.objective i.D as := by
  simp only [reward_eq, Spec.Tsp.objective, ← rollLen_eq_closedLen, rollLen]
  rw [zipWith_swap i.D hs]

/-- Sanity on a concrete symmetric matrix: tour 2 → 0 → 1 → 2. -/
example : reward ⟨3, fun a b => if a = b then 0 else (a + b : Int)⟩ [2, 0, 1] = -(2 + 1 + 3) := by
  decide

/-- a one-node tour has length `D 0 0` (= 0 for a distance) -/
example : reward ⟨1, fun _ _ => 0⟩ [0] = 0 := by decide

end Rl4co.Tsp
