/-
C03 for TSP: the reward computed by the gather / `roll(-1)` / norm / sum idiom is minus the length
of the closed tour through the visited nodes in order, for EVERY action list, provided distances are
symmetric (the code measures |x_next − x_cur|; Euclidean distance is symmetric).

The statement covers one-node tours too (`as = [a]`: reward `-D a a`); the real code agrees since
/repo commit f2d5960 (before it, the gather squeezed a one-step action dimension and the roll ran
over the batch; the harness keeps a regression probe for n = 1 inside batches).
-/
import Rl4co.Proofs.TspfamTsp
import Rl4co.Proofs.TspfamTour
import Rl4co.Env.Tsp
import Rl4co.Proofs.TspfamParams
import Rl4co.Spec.Tsp

namespace Rl4co.Tsp

theorem zipWith_swap (D : Nat → Nat → Int) (hs : ∀ a b, D a b = D b a) (xs ys : List Nat) :
    List.zipWith (fun nxt c => D nxt c) ys xs = List.zipWith (fun a b => D a b) xs ys := by
  induction xs generalizing ys with
  | nil => cases ys <;> simp
  | cons x xs ih =>
    cases ys with
    | nil => simp
    | cons y ys => simp [ih, hs y x]

/-- **C03 (TSP).** -/
theorem reward_eq_objective (i : Inst) (hs : ∀ a b, i.D a b = i.D b a) (as : List Nat) :
    reward i as = - Spec.Tsp.objective i.D as := by
  simp only [reward_eq, Spec.Tsp.objective, ← rollLen_eq_closedLen, rollLen]
  rw [zipWith_swap i.D hs]

/-- Sanity on a concrete symmetric matrix: tour 2 → 0 → 1 → 2. -/
example : reward ⟨3, fun a b => if a = b then 0 else (a + b : Int)⟩ [2, 0, 1] = -(2 + 1 + 3) := by
  decide

/-- a one-node tour has length `D 0 0` (= 0 for a distance) -/
example : reward ⟨1, fun _ _ => 0⟩ [0] = 0 := by decide

end Rl4co.Tsp

/-! ### Spec-level sanity: the objective has the symmetries of the problem -/
namespace Rl4co.Spec.Tsp
open Rl4co.Tspfam

/-- a feasible tour exists for every size: visit the nodes in index order -/
theorem feasible_range (n : Nat) : Feasible n (List.range n) :=
  (feasible_iff_perm n _).mpr (List.Perm.refl _)

/-- feasibility does not depend on where the closed tour is started … -/
theorem feasible_roll1 {n : Nat} {as : List Nat} (h : Feasible n as) : Feasible n (roll1 as) := by
  rw [feasible_iff_perm] at h ⊢
  refine List.Perm.trans ?_ h
  cases as with
  | nil => exact List.Perm.refl _
  | cons x r =>
    have := List.perm_middle (a := x) (l₁ := r) (l₂ := [])
    simp only [List.append_nil] at this
    exact this

/-- … nor on its direction -/
theorem feasible_reverse {n : Nat} {as : List Nat} (h : Feasible n as) : Feasible n as.reverse := by
  rw [feasible_iff_perm] at h ⊢
  exact (List.reverse_perm as).trans h

/-- the objective is invariant under rotation of the closed tour (any cost matrix, also asymmetric) -/
theorem objective_roll1 (D : Nat → Nat → Int) (as : List Nat) : objective D (roll1 as) = objective D as :=
  closedLen_roll1 D as

/-- for symmetric distances the objective is invariant under reversal of the tour -/
theorem objective_reverse (D : Nat → Nat → Int) (hs : ∀ a b, D a b = D b a) (as : List Nat) :
    objective D as.reverse = objective D as :=
  closedLen_reverse D hs as

end Rl4co.Spec.Tsp

namespace Rl4co.Tsp
open Rl4co.Tspfam

theorem reward_roll1 (i : Inst) (hs : ∀ a b, i.D a b = i.D b a) (as : List Nat) :
    reward i (roll1 as) = reward i as := by
  rw [reward_eq_objective i hs, reward_eq_objective i hs, Spec.Tsp.objective_roll1]

theorem reward_reverse (i : Inst) (hs : ∀ a b, i.D a b = i.D b a) (as : List Nat) :
    reward i as.reverse = reward i as := by
  rw [reward_eq_objective i hs, reward_eq_objective i hs, Spec.Tsp.objective_reverse i.D hs]

end Rl4co.Tsp
