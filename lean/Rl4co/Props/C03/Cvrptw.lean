/-
C03 for CVRPTW: `_get_reward` is CVRP's (time windows do not enter the reward), so the reward of EVERY
action list is minus the total closed route length, provided the depot has distance 0 to itself.
-/
import Rl4co.Env.Cvrptw
import Rl4co.Spec.Cvrptw
import Rl4co.Props.C03.Cvrp

namespace Rl4co.Cvrptw

/-- **C03 (CVRPTW).** -/
theorem reward_eq_objective (i : Inst) (h00 : i.base.D 0 0 = 0) (as : List Nat) :
    reward i as = - Spec.Cvrptw.objective i as :=
  Cvrp.reward_eq_objective i.base h00 as

/-- Non-vacuity / sanity: two routes `[1,2]` and `[3]` on a concrete matrix. -/
example : reward ⟨⟨3, 8, fun _ => 1, fun a b => if a = b then 0 else (a + b : Int)⟩, fun _ => 0, fun _ => 9, fun _ => 0⟩
    [1, 2, 0, 3] = -(1 + 3 + 2 + 3 + 3) := by decide

end Rl4co.Cvrptw
