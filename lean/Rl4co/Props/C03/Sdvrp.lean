/-
C03 for SDVRP: `_get_reward` is inherited from `CVRPEnv` (gather / roll / sum over `[depot] ++ actions`);
it is minus the sum of the closed lengths of the routes (depot → visits → depot) for EVERY action list —
repeated visits of a customer included — provided the depot has distance 0 to itself.
-/
import Rl4co.Env.Sdvrp
import Rl4co.Spec.Sdvrp

namespace Rl4co.Sdvrp

/-- **C03 (SDVRP).** -/
theorem reward_eq_objective (i : Inst) (h00 : i.D 0 0 = 0) (as : List Nat) :
    reward i as = - Spec.Sdvrp.objective i as := by
  simp only [reward, Spec.Sdvrp.objective, rollLen_eq_closedLen, closedLen]
  rw [closed_eq_routesLen i.D h00 as]

/-- Non-vacuity / sanity: customer 2 visited twice, in two routes. -/
example : reward ⟨2, 8, fun _ => 1, fun a b => if a = b then 0 else (a + b : Int)⟩ [1, 2, 0, 2] = -(1 + 3 + 2 + 2 + 2) := by
  decide

end Rl4co.Sdvrp
