/-
C03 for FLP: the reward (computed from `td["chosen"]` by gathering the chosen rows of the distance
matrix, taking the column-wise minimum and summing) is minus the summed nearest-facility distance
recomputed from the instance and the executed action list alone — for every non-empty mask-confined
run (complete or not, padded or not).
-/
import Rl4co.Proofs.SelectViews

namespace Rl4co.Flp

/-- **C03 (FLP).** -/
theorem reward_eq_objective (i : Inst) {as : List Nat} {s : State}
    (h : Run env i (env.reset i) as s) (hne : as ≠ []) :
    reward i s = - Spec.Flp.objective i as := by
  unfold reward Spec.Flp.objective
  congr 1
  exact sumRange_congr (fun j _ => rewardMin_eq_nearest h hne j)

/-- the objective does not depend on the order of the selections -/
theorem objective_perm (i : Inst) {as bs : List Nat} (hne : as ≠ []) (h : ∀ c, c ∈ as ↔ c ∈ bs) :
    Spec.Flp.objective i as = Spec.Flp.objective i bs := by
  unfold Spec.Flp.objective Spec.Flp.nearest
  apply sumRange_congr
  intro j _
  apply minList_congr
  · cases as with
    | nil => exact absurd rfl hne
    | cons a as => simp
  · intro x
    simp only [List.mem_map]
    constructor
    · rintro ⟨c, hc, rfl⟩; exact ⟨c, (h c).mp hc, rfl⟩
    · rintro ⟨c, hc, rfl⟩; exact ⟨c, (h c).mpr hc, rfl⟩

/-- Non-vacuity / sanity: asymmetric matrix, rows 0 and 2 chosen: column minima 0, 1, 0 → −1;
with the transposed matrix the value would be −3. -/
example : reward ⟨3, 2, fun a b => if a = b then 0 else if a < b then 1 else 3, fun _ => 9⟩
    (exec env ⟨3, 2, fun a b => if a = b then 0 else if a < b then 1 else 3, fun _ => 9⟩
      (env.reset ⟨3, 2, fun a b => if a = b then 0 else if a < b then 1 else 3, fun _ => 9⟩) [2, 0]) = -1 := by
  decide

end Rl4co.Flp
