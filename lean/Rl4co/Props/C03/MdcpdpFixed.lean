/-
MDCPDP with the INTENDED `current_depot` rule (`Fixed.stepX`, see `Rl4co/Proofs/MdcpdpFixed.lean`): refinement
of the Spec simulation and the FULL theorems it gives.  `v1` is the Spec as stated except for the charge of
the last way home (close mode; the second, independent defect).

* `Fixed.sim_refines`               the Spec simulation under `v1` never fails along a mask-confined run of
                                    the fixed environment and carries the same per-depot bookkeeping;
* `Fixed.feasible_of_run`           **C01 in full** for any number of depots and any per-depot capacities: every
                                    finished episode satisfies `Spec.Feasible` (own depot, own capacity);
* `Fixed.reward_eq_objective_open`  **C03 in full** in open mode: minmax / minsum / lateness reward = −objective;
* `Fixed.reward_eq_obj_v1`          close mode: the only remaining deviation is the last way home.
The as-coded counterexamples (`feasible_of_run_counterexample`, `reward_minmax_counterexample`, …) stay
where they are; `Fixed.fixes_counterexample` shows the same instance and episode class behaving correctly here.
-/
import Rl4co.Proofs.MdcpdpFixed
import Rl4co.Props.C03.MdcpdpSim

namespace Rl4co.Mdcpdp.Fixed
open Rl4co.Mdcpdp Rl4co.Spec.Mdcpdp

structure RelX (i : Inst) (b : Bool) (s : State) (σ : Sim) : Prop where
  mask    : s.mask = maskOf i b s.avail s.toDeliver s.carry s.depot s.done
  err     : σ.err = 0
  opened  : ∀ d, d < i.K → (d ∈ σ.opened ↔ s.avail d = false)
  veh     : (b = true → σ.veh = none) ∧ (b = false → σ.veh = some s.depot)
  onboard : ∀ x, x ∈ σ.onboard ↔ (i.K ≤ x ∧ x < i.K + i.h ∧ s.avail x = false ∧ s.avail (x + i.h) = true)
  nodup   : σ.onboard.Nodup
  carry   : (σ.onboard.length : Int) = s.carry
  served  : ∀ x, x ∈ σ.served ↔ (i.K ≤ x ∧ x < i.N ∧ s.avail x = false)
  pos     : σ.pos = s.cur
  homePos : b = true → s.cur = s.depot
  lens    : ∀ d, σ.lens d = s.len d
  fresh   : ∀ d, d < i.K → s.avail d = true → s.len d = 0
  clock   : b = false → σ.clock = s.len s.depot
  late    : σ.late = lateSum i s
  arrive  : ∀ x, i.K ≤ x → s.avail x = true → s.arrive x = 0
  zero    : s.avail s.depot = false

/-! ### the branches of `simStep` under `v1` -/

theorem sim_open (i : Inst) (hwf : WF i) (σ : Sim) (a : Nat) (he : σ.err = 0) (ha : a < i.K)
    (hno : a ∉ σ.opened) (hv : σ.veh = none) :
    simStep (problemOf i) v1 σ a = { σ with opened := a :: σ.opened, veh := some a, pos := a, clock := 0 } := by
  have hN : ¬ (a ≥ (problemOf i).N) := by rw [pN i hwf]; have := hwf.even; omega
  have hK : a < (problemOf i).K := ha
  simp [simStep, he, hN, hK, hno, hv, v1]

theorem sim_return (i : Inst) (hwf : WF i) (σ : Sim) (d : Nat) (he : σ.err = 0) (hd : d < i.K) (h0 : d ∈ σ.opened)
    (hv : σ.veh = some d) (hon : σ.onboard = []) :
    simStep (problemOf i) v1 σ d =
      { σ with veh := none, pos := d,
               clock := σ.clock + (if i.openMode then 0 else if σ.pos < i.K then 0 else i.D σ.pos d),
               lens := addLen σ.lens d (if i.openMode then 0 else if σ.pos < i.K then 0 else i.D σ.pos d) } := by
  have hN : ¬ (d ≥ (problemOf i).N) := by rw [pN i hwf]; have := hwf.even; omega
  have hK : d < (problemOf i).K := hd
  simp [simStep, he, hN, hK, h0, hv, hon, v1]
  simp only [problemOf]
  exact ⟨rfl, rfl⟩

theorem sim_wait (i : Inst) (hwf : WF i) (σ : Sim) (d : Nat) (he : σ.err = 0) (hd : d < i.K) (h0 : d ∈ σ.opened)
    (hv : σ.veh = none) (hp : σ.pos = d) : simStep (problemOf i) v1 σ d = σ := by
  have hN : ¬ (d ≥ (problemOf i).N) := by rw [pN i hwf]; have := hwf.even; omega
  have hK : d < (problemOf i).K := hd
  simp [simStep, he, hN, hK, h0, hv, hp]

theorem sim_pickup (i : Inst) (hwf : WF i) (σ : Sim) (a d : Nat) (he : σ.err = 0) (h1 : i.K ≤ a)
    (h2 : a < i.K + i.h) (hv : σ.veh = some d) (hns : a ∉ σ.served)
    (hc : (σ.onboard.length : Int) + 1 ≤ i.cap d) :
    simStep (problemOf i) v1 σ a =
      { σ with served := a :: σ.served, pos := a, clock := σ.clock + i.D σ.pos a,
               lens := addLen σ.lens d (i.D σ.pos a), onboard := a :: σ.onboard } := by
  have hev := hwf.even
  have hN : ¬ (a ≥ (problemOf i).N) := by rw [pN i hwf]; omega
  have hK : ¬ (a < (problemOf i).K) := by simp [problemOf]; omega
  have hP : a < (problemOf i).K + (problemOf i).h := h2
  have hc' : ¬ ((σ.onboard.length : Int) + 1 > (problemOf i).cap d) := by simp [problemOf]; omega
  simp [simStep, he, hN, hK, hv, hns, hP, v1, hc']
  simp [problemOf]

theorem sim_delivery (i : Inst) (hwf : WF i) (σ : Sim) (a d : Nat) (he : σ.err = 0) (h1 : i.K + i.h ≤ a)
    (h2 : a < i.N) (hv : σ.veh = some d) (hns : a ∉ σ.served) (hon : (a - i.h) ∈ σ.onboard) :
    simStep (problemOf i) v1 σ a =
      { σ with served := a :: σ.served, pos := a, clock := σ.clock + i.D σ.pos a,
               lens := addLen σ.lens d (i.D σ.pos a), onboard := σ.onboard.erase (a - i.h),
               late := σ.late + (σ.clock + i.D σ.pos a) } := by
  have hev := hwf.even
  have hN : ¬ (a ≥ (problemOf i).N) := by rw [pN i hwf]; omega
  have hK : ¬ (a < (problemOf i).K) := by simp [problemOf]; omega
  have hP : ¬ (a < (problemOf i).K + (problemOf i).h) := by simp [problemOf]; omega
  have hon' : (a - (problemOf i).h) ∈ σ.onboard := hon
  simp [simStep, he, hN, hK, hv, hns, hP, v1, hon']
  simp [problemOf]

/-! ### one step -/

theorem len_step (i : Inst) (s : State) (a : Nat) :
    (stepX i s a).len = upd s.len (stepX i s a).depot (s.len (stepX i s a).depot +
      (if (i.openMode && decide (a < i.K) && decide (i.K ≤ s.cur)) = true then 0
       else if a < i.K ∧ s.cur < i.K then 0 else i.D s.cur a)) := by
  simp only [stepX, stepF, openZero_eq, depotLeg_eq, decide_eq_true_eq]

theorem arrive_step (i : Inst) (s : State) (a : Nat) :
    (stepX i s a).arrive = upd s.arrive a ((stepX i s a).len (stepX i s a).depot) := by
  simp only [stepX, stepF]

theorem lateSum_step (i : Inst) (hwf : WF i) (s : State) (a : Nat) (ha : a < i.N) :
    lateSum i (stepX i s a) =
      lateSum i s + (if i.pd ≤ a then (stepX i s a).len (stepX i s a).depot - s.arrive a else 0) := by
  simp only [lateSum, arrive_step i s a]
  exact lateSum_upd i hwf s.arrive a _ ha

theorem rel_step (i : Inst) (hwf : WFX i) {b : Bool} {s : State} {σ : Sim} {a : Nat} (hi : InvX i s)
    (hr : RelX i b s σ) (ha : a < i.N) (hm : s.mask a = true) :
    RelX i (backFlag i s a) (stepX i s a) (simStep (problemOf i) v1 σ a) := by
  have hev := hwf.wf.even
  have hk := hwf.wf.kpos
  have hpd : i.pd = i.h + i.K := rfl
  have hi' := inv_step hwf hi ha hm
  have hdK := hi.depK
  have hmask' := step_mask i s a
  have hlen := len_step i s a
  by_cases haK : a < i.K
  · -- a depot: it becomes the current depot
    have hdep : (stepX i s a).depot = a := by rw [step_depot, if_pos haK]
    have hzero' : (stepX i s a).avail (stepX i s a).depot = false := by rw [hdep, step_avail, upd_same]
    have hK1 : ¬ (i.K ≤ a ∧ a < i.pd) := by omega
    have hK2 : ¬ (i.pd ≤ a) := by omega
    have hcarry : (stepX i s a).carry = s.carry := by rw [step_carry]; simp [hK1, hK2]
    have hlate : lateSum i (stepX i s a) = lateSum i s := by
      rw [lateSum_step i hwf.wf s a ha]; simp [hK2]
    have harr : ∀ x, i.K ≤ x → (stepX i s a).avail x = true → (stepX i s a).arrive x = 0 := by
      intro x hx hav
      rw [arrive_step i s a, upd_other _ _ _ _ (by omega)]
      rw [step_avail, upd_other _ _ _ _ (by omega)] at hav
      exact hr.arrive x hx hav
    rw [hdep] at hlen
    by_cases hav : s.avail a = true
    · -- its vehicle starts: only possible right after a return
      have had : a ≠ s.depot := by intro h; rw [h, hr.zero] at hav; cases hav
      have hbf : backFlag i s a = false := by simp [backFlag_eq, hav]
      have hb : b = true := by
        have := hm
        rw [hr.mask] at this
        simp only [maskOf, capFlagOf_eq, carryFlagOf_eq, lastDepotOf_eq, haK, if_true, had, if_false,
          Bool.and_eq_true] at this
        exact this.1.1.2
      subst hb
      have hcur : s.cur = s.depot := hr.homePos rfl
      have hno : a ∉ σ.opened := fun h => by have := (hr.opened a haK).mp h; rw [hav] at this; cases this
      rw [sim_open i hwf.wf σ a hr.err haK hno (hr.veh.1 rfl), hbf]
      have hfa : s.len a = 0 := hr.fresh a haK hav
      have hlen' : (stepX i s a).len = s.len := by
        rw [hlen]
        have h1 : ¬ (i.K ≤ s.cur) := by omega
        have h2 : a < i.K ∧ s.cur < i.K := ⟨haK, by omega⟩
        funext d
        simp only [upd_apply, h1, h2, and_self, if_true, decide_false, Bool.and_false, Bool.false_eq_true, if_false]
        split
        · subst_vars; omega
        · rfl
      exact
        { mask := by rw [hmask', hbf]
          err := hr.err
          opened := by
            intro d hd
            rw [step_avail, upd_apply, List.mem_cons]
            by_cases hda : d = a
            · subst hda; simp
            · simp only [hda, false_or, if_false]; exact hr.opened d hd
          veh := ⟨fun h => (by cases h), fun _ => by rw [hdep]⟩
          onboard := by
            intro x
            rw [hr.onboard x, step_avail]
            constructor
            · rintro ⟨h1, h2, h3, h4⟩
              exact ⟨h1, h2, by rw [upd_other _ _ _ _ (by omega)]; exact h3, by rw [upd_other _ _ _ _ (by omega)]; exact h4⟩
            · rintro ⟨h1, h2, h3, h4⟩
              rw [upd_other _ _ _ _ (by omega)] at h3 h4
              exact ⟨h1, h2, h3, h4⟩
          nodup := hr.nodup
          carry := by rw [hcarry]; exact hr.carry
          served := by
            intro x
            rw [hr.served x, step_avail]
            constructor
            · rintro ⟨h1, h2, h3⟩; exact ⟨h1, h2, by rw [upd_other _ _ _ _ (by omega)]; exact h3⟩
            · rintro ⟨h1, h2, h3⟩; rw [upd_other _ _ _ _ (by omega)] at h3; exact ⟨h1, h2, h3⟩
          pos := rfl
          homePos := fun h => (by cases h)
          lens := by intro d; rw [hlen']; exact hr.lens d
          fresh := by
            intro d hd havd
            rw [step_avail, upd_apply] at havd
            by_cases hda : d = a
            · subst hda; simp at havd
            · rw [if_neg hda] at havd; rw [hlen']; exact hr.fresh d hd havd
          clock := by intro _; rw [hdep, hlen', hfa]
          late := by rw [hlate]; exact hr.late
          arrive := harr
          zero := hzero' }
    · -- a visited depot: this is the current depot
      have hav' : s.avail a = false := by simpa using hav
      have hbf : backFlag i s a = true := by simp [backFlag_eq, haK, hav']
      have had := back_is_depot hwf hi hm hbf
      subst had
      have hsame : upd s.avail s.depot false = s.avail := by
        funext j; simp only [upd_apply]; split
        · subst_vars; exact hav'.symm
        · rfl
      have hdopen : s.depot ∈ σ.opened := (hr.opened s.depot haK).mpr hav'
      have hrest : ∀ (σ' : Sim), σ'.err = 0 → σ'.opened = σ.opened → σ'.veh = none → σ'.onboard = σ.onboard →
          σ'.served = σ.served → σ'.pos = s.depot → (∀ d, σ'.lens d = (stepX i s s.depot).len d) →
          σ'.late = σ.late → RelX i true (stepX i s s.depot) σ' := by
        intro σ' e1 e2 e3 e4 e5 e6 e7 e10
        exact
          { mask := by rw [hmask', hbf]
            err := e1
            opened := by intro d hd; rw [e2, step_avail, hsame]; exact hr.opened d hd
            veh := ⟨fun _ => e3, fun h => (by cases h)⟩
            onboard := by intro x; rw [e4, step_avail, hsame]; exact hr.onboard x
            nodup := by rw [e4]; exact hr.nodup
            carry := by rw [e4, hcarry]; exact hr.carry
            served := by intro x; rw [e5, step_avail, hsame]; exact hr.served x
            pos := e6
            homePos := fun _ => by rw [hdep]; rfl
            lens := e7
            fresh := by
              intro d hd havd
              rw [step_avail, hsame] at havd
              have hne : d ≠ s.depot := by intro h; rw [h, hav'] at havd; cases havd
              rw [hlen, upd_other _ _ _ _ hne]; exact hr.fresh d hd havd
            clock := fun h => (by cases h)
            late := by rw [e10, hlate]; exact hr.late
            arrive := harr
            zero := hzero' }
      rw [hbf]
      cases b with
      | false =>
        have hvd := hr.veh.2 rfl
        have hc0 := mask_depot_carry hwf hi haK hm
        have hon : σ.onboard = [] := by
          have := hr.carry; rw [hc0] at this
          exact List.eq_nil_of_length_eq_zero (by omega)
        rw [sim_return i hwf.wf σ s.depot hr.err haK hdopen hvd hon]
        have hl0 : (stepX i s s.depot).len s.depot =
            s.len s.depot + (if i.openMode then 0 else if s.cur < i.K then 0 else i.D s.cur s.depot) := by
          rw [hlen, upd_same]
          cases ho : i.openMode <;> by_cases hc : s.cur < i.K
          · simp [hc, haK]
          · simp [hc, haK]
          · have : ¬ (i.K ≤ s.cur) := by omega
            simp [hc, haK, this]
          · have : i.K ≤ s.cur := by omega
            simp [haK, this]
        apply hrest
        · exact hr.err
        · rfl
        · rfl
        · rfl
        · rfl
        · rfl
        · intro d
          show addLen σ.lens s.depot _ d = _
          by_cases hds : d = s.depot
          · subst hds; rw [hl0, hr.pos]; simp [addLen, hr.lens]
          · rw [hlen, upd_other _ _ _ _ hds]; simp [addLen, hds, hr.lens]
        · rfl
      | true =>
        have hcur : s.cur = s.depot := hr.homePos rfl
        rw [sim_wait i hwf.wf σ s.depot hr.err haK hdopen (hr.veh.1 rfl) (by rw [hr.pos, hcur])]
        have hlen' : (stepX i s s.depot).len = s.len := by
          rw [hlen]
          have h1 : ¬ (i.K ≤ s.cur) := by omega
          have h2 : s.depot < i.K ∧ s.cur < i.K := ⟨haK, by omega⟩
          funext d
          simp only [upd_apply, h1, h2, and_self, if_true, decide_false, Bool.and_false, Bool.false_eq_true, if_false]
          split
          · subst_vars; omega
          · rfl
        apply hrest
        · exact hr.err
        · rfl
        · exact hr.veh.1 rfl
        · rfl
        · rfl
        · rw [hr.pos, hcur]
        · intro d; rw [hlen']; exact hr.lens d
        · rfl
  · -- a customer: the vehicle of the current depot is out
    have hdep : (stepX i s a).depot = s.depot := by rw [step_depot, if_neg haK]
    rw [hdep] at hlen
    obtain ⟨hav, htd, hcap⟩ := mask_customer hwf hi (by omega : i.K ≤ a) hm
    have hbf : backFlag i s a = false := by simp [backFlag_eq, hav]
    have hb : b = false := by
      have := hm
      rw [hr.mask] at this
      simp only [maskOf, capFlagOf_eq, carryFlagOf_eq, lastDepotOf_eq, haK, if_false, Bool.and_eq_true,
        Bool.not_eq_true'] at this
      exact this.2
    subst hb
    have hvd := hr.veh.2 rfl
    have hzero' : (stepX i s a).avail (stepX i s a).depot = false := by
      rw [hdep, step_avail, upd_other _ _ _ _ (by omega)]; exact hr.zero
    have hns : a ∉ σ.served := fun h => by have := ((hr.served a).mp h).2.2; rw [hav] at this; cases this
    have hl0 : (stepX i s a).len s.depot = s.len s.depot + i.D s.cur a := by
      rw [hlen, upd_same]; simp [haK]
    have hlens : ∀ d, addLen σ.lens s.depot (i.D σ.pos a) d = (stepX i s a).len d := by
      intro d
      by_cases hds : d = s.depot
      · subst hds; rw [hl0, hr.pos]; simp [addLen, hr.lens]
      · rw [hlen, upd_other _ _ _ _ hds]; simp [addLen, hds, hr.lens]
    have hfresh : ∀ d, d < i.K → (stepX i s a).avail d = true → (stepX i s a).len d = 0 := by
      intro d hd havd
      rw [step_avail, upd_other _ _ _ _ (by omega)] at havd
      have hne : d ≠ s.depot := by intro h; rw [h, hr.zero] at havd; cases havd
      rw [hlen, upd_other _ _ _ _ hne]; exact hr.fresh d hd havd
    have hserved : ∀ x, x ∈ a :: σ.served ↔ (i.K ≤ x ∧ x < i.N ∧ (stepX i s a).avail x = false) := by
      intro x
      rw [List.mem_cons, hr.served x, step_avail, upd_apply]
      by_cases hxa : x = a
      · subst hxa; simp; omega
      · simp [hxa]
    have hopened : ∀ d', d' < i.K → (d' ∈ σ.opened ↔ (stepX i s a).avail d' = false) := by
      intro d' hd'; rw [step_avail, upd_other _ _ _ _ (by omega)]; exact hr.opened d' hd'
    have harr : ∀ x, i.K ≤ x → (stepX i s a).avail x = true → (stepX i s a).arrive x = 0 := by
      intro x hx hav'
      rw [step_avail, upd_apply] at hav'
      by_cases hxa : x = a
      · subst hxa; simp at hav'
      · rw [if_neg hxa] at hav'
        rw [arrive_step i s a, upd_other _ _ _ _ hxa]; exact hr.arrive x hx hav'
    rw [hbf]
    by_cases hp : a < i.pd
    · -- pickup
      have hcarry : (stepX i s a).carry = s.carry + 1 := by
        rw [step_carry]
        have h1 : i.K ≤ a ∧ a < i.pd := ⟨by omega, hp⟩
        have h2 : ¬ (i.pd ≤ a) := by omega
        simp [h1, h2]
      have hc := hcap hp
      rw [sim_pickup i hwf.wf σ a s.depot hr.err (by omega) (by omega) hvd hns (by rw [hr.carry]; omega)]
      have hdel := hi.delAfter a (by omega) (by omega) hav
      have hlate : lateSum i (stepX i s a) = lateSum i s := by
        rw [lateSum_step i hwf.wf s a ha]; simp [show ¬ (i.pd ≤ a) by omega]
      exact
        { mask := by rw [hmask', hbf]
          err := hr.err
          opened := hopened
          veh := ⟨fun h => (by cases h), fun _ => by rw [hdep]; exact hvd⟩
          onboard := by
            intro x
            show x ∈ a :: σ.onboard ↔ _
            rw [List.mem_cons, hr.onboard x, step_avail]
            by_cases hxa : x = a
            · subst hxa
              simp only [true_or, upd_same, true_iff]
              refine ⟨by omega, by omega, trivial, ?_⟩
              by_cases hh : i.h = 0
              · omega
              · rw [upd_other _ _ _ _ (by omega)]; exact hdel
            · have h1 : upd s.avail a false x = s.avail x := upd_other _ _ _ _ hxa
              by_cases hxh : x + i.h = a
              · constructor
                · rintro (h | ⟨h1', h2', _, _⟩)
                  · exact absurd h hxa
                  · omega
                · rintro ⟨h1', h2', _, _⟩; omega
              · have h2 : upd s.avail a false (x + i.h) = s.avail (x + i.h) := upd_other _ _ _ _ hxh
                simp [hxa, h1, h2]
          nodup := by
            show (a :: σ.onboard).Nodup
            refine List.nodup_cons.mpr ⟨?_, hr.nodup⟩
            intro h; have := ((hr.onboard a).mp h).2.2.1; rw [hav] at this; cases this
          carry := by
            show ((a :: σ.onboard).length : Int) = _
            rw [hcarry, ← hr.carry]; simp
          served := hserved
          pos := rfl
          homePos := fun h => (by cases h)
          lens := hlens
          fresh := hfresh
          clock := by
            intro _
            show σ.clock + i.D σ.pos a = _
            rw [hdep, hl0, hr.pos, hr.clock rfl]
          late := by rw [hlate]; exact hr.late
          arrive := harr
          zero := hzero' }
    · -- delivery
      have hpdle : i.pd ≤ a := by omega
      have hcarry : (stepX i s a).carry = s.carry - 1 := by
        rw [step_carry]
        have h1 : ¬ (i.K ≤ a ∧ a < i.pd) := by omega
        simp [h1, hpdle]
      have hpk : s.avail (a - i.h) = false := by
        have := hi.tdDel (a - i.h) (by omega) (by omega)
        have e : a - i.h + i.h = a := by omega
        rw [e, htd] at this
        simpa using this.symm
      have hon : (a - i.h) ∈ σ.onboard := by
        apply (hr.onboard (a - i.h)).mpr
        have e : a - i.h + i.h = a := by omega
        exact ⟨by omega, by omega, hpk, by rw [e]; exact hav⟩
      rw [sim_delivery i hwf.wf σ a s.depot hr.err (by omega) ha hvd hns hon]
      have hlate : lateSum i (stepX i s a) = lateSum i s + (s.len s.depot + i.D s.cur a) := by
        rw [lateSum_step i hwf.wf s a ha, if_pos hpdle, hdep, hl0, hr.arrive a (by omega) hav]; omega
      exact
        { mask := by rw [hmask', hbf]
          err := hr.err
          opened := hopened
          veh := ⟨fun h => (by cases h), fun _ => by rw [hdep]; exact hvd⟩
          onboard := by
            intro x
            show x ∈ σ.onboard.erase (a - i.h) ↔ _
            rw [hr.nodup.mem_erase_iff, hr.onboard x, step_avail]
            constructor
            · rintro ⟨hne, h1, h2, h3, h4⟩
              refine ⟨h1, h2, by rw [upd_other _ _ _ _ (by omega)]; exact h3, ?_⟩
              rw [upd_other _ _ _ _ (by omega)]; exact h4
            · rintro ⟨h1, h2, h3, h4⟩
              rw [upd_other _ _ _ _ (by omega)] at h3
              have hne : x + i.h ≠ a := by
                intro h; rw [h, upd_same] at h4; cases h4
              rw [upd_other _ _ _ _ hne] at h4
              exact ⟨by omega, h1, h2, h3, h4⟩
          nodup := hr.nodup.erase _
          carry := by
            show ((σ.onboard.erase (a - i.h)).length : Int) = _
            rw [List.length_erase_of_mem hon, hcarry, ← hr.carry]
            have : 0 < σ.onboard.length := List.length_pos_of_mem hon
            omega
          served := hserved
          pos := rfl
          homePos := fun h => (by cases h)
          lens := hlens
          fresh := hfresh
          clock := by
            intro _
            show σ.clock + i.D σ.pos a = _
            rw [hdep, hl0, hr.pos, hr.clock rfl]
          late := by
            show σ.late + (σ.clock + i.D σ.pos a) = _
            rw [hlate, hr.late, hr.clock rfl, hr.pos]
          arrive := harr
          zero := hzero' }

/-! ### the refinement along a run -/

theorem rel_first (i : Inst) (hwf : WFX i) :
    RelX i false (stepX i (reset i) 0) (simStep (problemOf i) v1 {} 0) := by
  have hev := hwf.wf.even
  have hk := hwf.wf.kpos
  have h0K : (0 : Nat) < i.K := by omega
  have hdep : (stepX i (reset i) 0).depot = 0 := by rw [step_depot, if_pos h0K]
  have hbf : backFlag i (reset i) 0 = false := by simp [backFlag_eq, reset]
  rw [sim_open i hwf.wf {} 0 rfl h0K (by simp) rfl]
  have hlen := len_step i (reset i) 0
  rw [hdep] at hlen
  have hl : ∀ d, (stepX i (reset i) 0).len d = 0 := by
    intro d
    rw [hlen]
    have h2 : (0 : Nat) < i.K ∧ (reset i).cur < i.K := ⟨h0K, by simp [reset]; omega⟩
    have h1 : ¬ (i.K ≤ (reset i).cur) := by simp [reset]; omega
    simp only [upd_apply]; split <;> simp [h1, h2, reset]
  have hK2 : ¬ (i.pd ≤ 0) := by have : i.pd = i.h + i.K := rfl; omega
  exact
    { mask := by rw [step_mask, hbf]
      err := rfl
      opened := by
        intro d hd
        simp only [List.mem_singleton, step_avail, upd_apply]
        by_cases hd0 : d = 0 <;> simp [hd0, reset]
      veh := ⟨fun h => (by cases h), fun _ => by rw [hdep]⟩
      onboard := by
        intro x
        simp only [List.not_mem_nil, false_iff, step_avail]
        rintro ⟨h1, _, h3, _⟩
        rw [upd_other _ _ _ _ (by omega)] at h3
        simp [reset] at h3
      nodup := List.nodup_nil
      carry := by rw [step_carry]; simp [hK2, reset]; omega
      served := by
        intro x
        simp only [List.not_mem_nil, false_iff, step_avail]
        rintro ⟨h1, _, h3⟩
        rw [upd_other _ _ _ _ (by omega)] at h3
        simp [reset] at h3
      pos := rfl
      homePos := fun h => (by cases h)
      lens := fun d => (hl d).symm
      fresh := fun d _ _ => hl d
      clock := fun _ => by rw [hdep]; exact (hl 0).symm
      late := by
        rw [lateSum_step i hwf.wf (reset i) 0 (by omega)]
        simp only [hK2, if_false, Int.add_zero, lateSum, reset]
        exact (sum_map_zero _).symm
      arrive := by
        intro x hx _
        rw [arrive_step i (reset i) 0, upd_other _ _ _ _ (by omega)]; rfl
      zero := by rw [hdep]; simp [step_avail] }

/-- **Refinement (fixed variant).** -/
theorem sim_refines (i : Inst) (hwf : WFX i) {as : List Nat} {s : State}
    (h : Run envFixed i (envFixed.reset i) as s) :
    InvX i s ∧ (as ≠ [] → ∃ b, RelX i b s (simOf i v1 as)) := by
  have := Rl4co.inv_of_run (e := envFixed) (i := i)
    (Inv := fun s hist => InvX i s ∧ (hist = [] → s = reset i) ∧ (hist ≠ [] → ∃ b, RelX i b s (simOf i v1 hist)))
    ⟨inv_reset i hwf, fun _ => rfl, fun h => absurd rfl h⟩ ?_ h
  · exact ⟨this.1, this.2.2⟩
  intro s hist a hh ha hm
  obtain ⟨hi, hreset, hrel⟩ := hh
  have ha' : a < i.N := ha
  have hm' : s.mask a = true := hm
  refine ⟨inv_step hwf hi ha' hm', fun h => by simp at h, fun _ => ?_⟩
  rw [simOf_snoc]
  by_cases hne : hist = []
  · have hs := hreset hne
    subst hne hs
    have ha0 : a = 0 := by simpa [reset] using hm'
    subst ha0
    exact ⟨false, rel_first i hwf⟩
  · obtain ⟨b, hr⟩ := hrel hne
    exact ⟨backFlag i s a, rel_step i hwf hi hr ha' hm'⟩

/-- what the end-of-list checks see in a finished state -/
theorem end_facts (i : Inst) (hwf : WFX i) {b : Bool} {s : State} {σ : Sim} (hi : InvX i s)
    (hr : RelX i b s σ) (hd : s.done = true) :
    σ.onboard = [] ∧
    (List.range (2 * (problemOf i).h)).all (fun k => decide ((problemOf i).K + k ∈ σ.served)) = true := by
  have hev := hwf.wf.even
  have hall := avail_of_done hi hd
  refine ⟨?_, ?_⟩
  · apply List.eq_nil_iff_forall_not_mem.mpr
    intro x hx
    have := (hr.onboard x).mp hx
    have h2 := hall (x + i.h) (by omega)
    rw [this.2.2.2] at h2; cases h2
  · simp only [List.all_eq_true, List.mem_range, decide_eq_true_eq]
    intro k hk
    have hk' : k < 2 * i.h := hk
    exact (hr.served (i.K + k)).mpr ⟨by omega, by omega, hall (i.K + k) (by omega)⟩

theorem simEnd_v1 (i : Inst) (hwf : WFX i) {b : Bool} {s : State} {σ : Sim} (hi : InvX i s)
    (hr : RelX i b s σ) (hd : s.done = true) : simEnd (problemOf i) v1 σ = σ := by
  obtain ⟨hon, hserved⟩ := end_facts i hwf hi hr hd
  simp only [simEnd, hr.err, ne_eq, not_true_eq_false, if_false, hon, hserved, Bool.not_true,
    Bool.false_eq_true, v1, Bool.false_and]
  cases σ.veh <;> rfl

theorem run_ne_nil (i : Inst) {as : List Nat} {s : State} (h : Run envFixed i (envFixed.reset i) as s)
    (hd : envFixed.done i s = true) : as ≠ [] := by
  intro he; subst he
  cases h; simp [envFixed, reset] at hd

/-- **C01 in full for the intended `current_depot` rule**: any number of depots, any per-depot capacities — every
finished mask-confined episode satisfies the problem statement (own depot, own capacity, pairing, single visits). -/
theorem feasible_of_run (i : Inst) (hwf : WFX i) {as : List Nat} {s : State}
    (h : Run envFixed i (envFixed.reset i) as s) (hd : envFixed.done i s = true) :
    Feasible (problemOf i) as := by
  obtain ⟨hi, hrel⟩ := sim_refines i hwf h
  obtain ⟨b, hr⟩ := hrel (run_ne_nil i h hd)
  obtain ⟨hon, hserved⟩ := end_facts i hwf hi hr hd
  have := simEnd_err_zero (problemOf i) {} (simOf i v1 as) hr.err hon hserved
  -- the step function of the Spec does not look at `chargeLast`
  have e : simOf i {} as = simOf i v1 as := rfl
  simp only [Feasible, feasible, verdict, sim, beq_iff_eq]
  show (simEnd (problemOf i) {} (simOf i {} as)).err = 0
  rw [e]; exact this

/-- all three rewards are minus the `v1` objectives (open or close mode) -/
theorem reward_eq_obj_v1 (m : Mode) (i : Inst) (hwf : WFX i) {as : List Nat} {s : State}
    (h : Run envFixed i (envFixed.reset i) as s) (hd : envFixed.done i s = true) :
    reward m i s = - objOf (modeIdx m) (problemOf i) v1 as := by
  obtain ⟨hi, hrel⟩ := sim_refines i hwf h
  obtain ⟨b, hr⟩ := hrel (run_ne_nil i h hd)
  have hsim : sim (problemOf i) v1 as = simOf i v1 as := simEnd_v1 i hwf hi hr hd
  have hlens : perDepot (problemOf i) v1 as = lens i s := by
    simp only [perDepot, hsim, lens, hwf.wf.kg]
    exact List.map_congr_left (fun d _ => hr.lens d)
  cases m with
  | minmax => simp only [reward, objOf, modeIdx, objMinmax, hlens, maxList1_eq, if_true]
  | minsum => simp [reward, objOf, modeIdx, objMinsum, hlens]
  | lateness =>
    simp only [reward, objOf, modeIdx, objLateness, objMinsum, hlens, hsim, hr.late]
    simp [problemOf]

/-- **C03 in full for the intended `current_depot` rule, open mode**: minmax, minsum and lateness rewards are
minus the objectives of the problem as stated, for any number of depots. -/
theorem reward_eq_objective_open (m : Mode) (i : Inst) (hwf : WFX i) (hopen : i.openMode = true)
    {as : List Nat} {s : State} (h : Run envFixed i (envFixed.reset i) as s)
    (hd : envFixed.done i s = true) :
    reward m i s = - objOf (modeIdx m) (problemOf i) {} as := by
  rw [reward_eq_obj_v1 m i hwf h hd]
  have hend : ∀ σ : Sim, simEnd (problemOf i) {} σ = simEnd (problemOf i) v1 σ := by
    intro σ
    have ho : (problemOf i).openMode = true := hopen
    simp [simEnd, ho, v1]
  have hs : sim (problemOf i) {} as = sim (problemOf i) v1 as := by
    have e : as.foldl (simStep (problemOf i) {}) {} = as.foldl (simStep (problemOf i) v1) {} := rfl
    simp only [sim, e, hend]
  simp only [objOf, objMinmax, objMinsum, objLateness, perDepot, hs]

/-- The instance and the kind of episode that refute C01 for the code as it is (`cexCap`: depot capacities 2 and 1;
the vehicle of depot 1 picks up both orders) — with the intended rule the second pickup is not offered, and the
episode in which the vehicle of depot 1 returns HOME is a finished run. -/
theorem fixes_counterexample :
    admitted envFixed cexCap (envFixed.reset cexCap) [0, 0, 1, 2, 3, 4, 5] = false ∧
    (∃ s, Run envFixed cexHome (envFixed.reset cexHome) [0, 0, 1, 3, 4, 1, 2] s ∧ envFixed.done cexHome s = true) :=
  ⟨by decide, _, (run_iff_admitted _ _ _ _ _).2 ⟨by decide, rfl⟩, by decide⟩

/-- Non-vacuity: `cexMM` (2 depots, open mode) is well-formed for the fixed variant and `[0,2,4,0,1,3,5]` is a finished
run whose minmax reward is now −2 (the code as it is reports −4). -/
example : WFX cexMM := ⟨⟨by decide, by decide, by decide, by decide, by decide, by decide⟩, fun _ _ => by simp [cexMM]⟩
example : reward .minmax cexMM (exec envFixed cexMM (envFixed.reset cexMM) [0, 2, 4, 0, 1, 3, 5]) = -2 ∧
    reward .minmax cexMM (exec env cexMM (env.reset cexMM) [0, 2, 4, 0, 1, 3, 5]) = -4 := by decide

end Rl4co.Mdcpdp.Fixed
