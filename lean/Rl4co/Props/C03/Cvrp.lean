/-
C03 for CVRP: the reward computed by the gather / roll / sum idiom over `[depot] ++ actions` is
minus the sum of the closed lengths of the routes (depot → customers → depot), for EVERY action
list (with or without trailing depot padding, with or without a final return), provided the depot
has distance 0 to itself.
-/
import Rl4co.Env.Cvrp
import Rl4co.Spec.Cvrp

namespace Rl4co

namespace Cvrp

/-- **C03 (CVRP).** -/
theorem reward_eq_objective (i : Inst) (h00 : i.D 0 0 = 0) (as : List Nat) :
    reward i as = - Spec.Cvrp.objective i as := by
  simp only [reward, Spec.Cvrp.objective, rollLen_eq_closedLen, closedLen]
  rw [closed_eq_routesLen i.D h00 as]

/-- Non-vacuity / sanity: two routes `[1,2]` and `[3]` on a concrete matrix. -/
example : reward ⟨3, 8, fun _ => 1, fun a b => if a = b then 0 else (a + b : Int)⟩ [1, 2, 0, 3] = -(1 + 3 + 2 + 3 + 3) := by
  decide

end Cvrp
end Rl4co
