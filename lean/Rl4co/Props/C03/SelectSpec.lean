/-
Spec-level sanity and the reset-time distance matrix for the selection family (C03 / C08):

* `Flp.distOf` (model of `get_distance_matrix`, which fills the instance field `orig_distances`): zero
  diagonal, symmetric, non-negative, translation invariant, and the exact Euclidean distance on
  integral point sets (`distOf_sq`); hence reward / bookkeeping theorems hold verbatim for instances
  given by coordinates (`geom_reward`, `geom_distances`), and the objective is translation invariant.
* facts that pin the `Spec` objectives down independently of the models: order independence,
  monotonicity in the selection, bounds, existence of feasible selections, and for DPP the exact
  condition under which a feasible placement exists.
-/
import Mathlib.Data.Nat.Sqrt
import Mathlib.Data.List.Perm.Subperm
import Rl4co.Props.C03.Flp
import Rl4co.Props.C03.Mcp
import Rl4co.Props.C08.Flp
import Rl4co.Props.C02.SelectGen
import Rl4co.Props.C04.SelectBatch

namespace Rl4co

/-! ### `minList` / `sumRange` monotonicity -/

theorem minList_append_le {l : List Int} (h : l ≠ []) (x : Int) : minList (l ++ [x]) ≤ minList l :=
  minList_le (List.mem_append_left _ (minList_mem h))

theorem sumRange_le {n : Nat} {f g : Nat → Int} (h : ∀ j, j < n → f j ≤ g j) : sumRange n f ≤ sumRange n g := by
  unfold sumRange
  induction n with
  | zero => simp
  | succ n ih =>
    rw [List.range_succ, List.map_append, List.map_append, List.sum_append, List.sum_append]
    have := ih (fun j hj => h j (by omega))
    have := h n (by omega)
    simp; omega

theorem sumRange_nonneg {n : Nat} {f : Nat → Int} (h : ∀ j, j < n → 0 ≤ f j) : 0 ≤ sumRange n f := by
  have := sumRange_le (n := n) (f := fun _ => 0) (g := f) h
  have h0 : sumRange n (fun _ => (0 : Int)) = 0 := by
    unfold sumRange; induction n with
    | zero => simp
    | succ n ih => rw [List.range_succ]; simp
  omega

/-! ### FLP: the distance matrix -/
namespace Flp

theorem distOf_self (x y : Nat → Int) (a : Nat) : distOf x y a a = 0 := by
  simp [distOf, Params.flpDistNormP]

theorem distOf_symm (x y : Nat → Int) (a b : Nat) : distOf x y a b = distOf x y b a := by
  have h1 : (x a - x b).natAbs = (x b - x a).natAbs := by omega
  have h2 : (y a - y b).natAbs = (y b - y a).natAbs := by omega
  simp only [distOf, h1, h2]

theorem distOf_nonneg (x y : Nat → Int) (a b : Nat) : 0 ≤ distOf x y a b := by
  simp only [distOf]; split <;> omega

/-- shifting the whole point set (a box away from the origin) changes no distance -/
theorem distOf_translate (x y : Nat → Int) (cx cy : Int) (a b : Nat) :
    distOf (fun j => x j + cx) (fun j => y j + cy) a b = distOf x y a b := by
  have h1 : (x a + cx - (x b + cx)).natAbs = (x a - x b).natAbs := by congr 1; omega
  have h2 : (y a + cy - (y b + cy)).natAbs = (y a - y b).natAbs := by congr 1; omega
  simp only [distOf, h1, h2]

/-- on an integral pair (`dx² + dy² = m²`) the entry is the exact Euclidean distance `m` -/
theorem distOf_sq (x y : Nat → Int) (a b m : Nat)
    (h : (x a - x b).natAbs * (x a - x b).natAbs + (y a - y b).natAbs * (y a - y b).natAbs = m * m) :
    distOf x y a b = m := by
  simp only [distOf, Params.flpDistNormP, if_true, h, Nat.sqrt_eq]

/-- **C03 for instances given by coordinates**: reward = −Σ_j min over the chosen `c` of the Euclidean
(grid) distance between `c` and `j`. -/
theorem geom_reward (n : Nat) (quota : Int) (x y : Nat → Int) (d0 : Nat → Int) {as : List Nat} {s : State}
    (h : Run env (geomInst n quota x y d0) (env.reset (geomInst n quota x y d0)) as s) (hne : as ≠ []) :
    reward (geomInst n quota x y d0) s =
      - sumRange n (fun j => minList (as.map (fun c => distOf x y c j))) :=
  reward_eq_objective _ h hne

/-- **C08 bookkeeping for instances given by coordinates**; in particular a chosen facility is at
distance 0 from itself. -/
theorem geom_distances (n : Nat) (quota : Int) (x y : Nat → Int) (d0 : Nat → Int) {as : List Nat} {s : State}
    (h : Run env (geomInst n quota x y d0) (env.reset (geomInst n quota x y d0)) as s) (hne : as ≠ []) (j : Nat) :
    s.dist j = minList (as.map (fun c => distOf x y c j)) ∧ (j ∈ as → s.dist j = 0) := by
  have h1 := distances_eq _ h hne j
  refine ⟨h1, fun hj => ?_⟩
  rw [h1]
  have hle : Spec.Flp.nearest (geomInst n quota x y d0) as j ≤ 0 := by
    have := minList_le (l := as.map (fun c => distOf x y c j)) (x := distOf x y j j)
      (List.mem_map.mpr ⟨j, hj, rfl⟩)
    rw [distOf_self] at this; exact this
  have hge : 0 ≤ Spec.Flp.nearest (geomInst n quota x y d0) as j := by
    have hmem := minList_mem (l := as.map (fun c => distOf x y c j)) (by simpa using hne)
    obtain ⟨c, _, hc⟩ := List.mem_map.mp hmem
    show 0 ≤ minList (as.map (fun c => distOf x y c j))
    rw [← hc]; exact distOf_nonneg x y c j
  omega

/-- the objective of a coordinate instance does not change when the point set is translated -/
theorem objective_translate (n : Nat) (quota : Int) (x y : Nat → Int) (d0 : Nat → Int) (cx cy : Int) (as : List Nat) :
    Spec.Flp.objective (geomInst n quota (fun j => x j + cx) (fun j => y j + cy) d0) as =
    Spec.Flp.objective (geomInst n quota x y d0) as := by
  unfold Spec.Flp.objective Spec.Flp.nearest
  apply sumRange_congr
  intro j _
  congr 1
  apply List.map_congr_left
  intro c _
  exact distOf_translate x y cx cy c j

/-- 3-4-5: points (0,0), (3,4), (0,12) → distances 5, 12 and √(9+64) truncated; diagonal 0 -/
example : distOf (fun j => [0, 3, 0].getD j 0) (fun j => [0, 4, 12].getD j 0) 0 1 = 5 ∧
    distOf (fun j => [0, 3, 0].getD j 0) (fun j => [0, 4, 12].getD j 0) 0 2 = 12 ∧
    distOf (fun j => [0, 3, 0].getD j 0) (fun j => [0, 4, 12].getD j 0) 1 1 = 0 := by
  refine ⟨distOf_sq _ _ 0 1 5 (by decide), distOf_sq _ _ 0 2 12 (by decide), distOf_self _ _ 1⟩

/-! #### FLP Spec sanity -/

/-- opening one more facility never increases the objective -/
theorem objective_mono (i : Inst) (as : List Nat) (hne : as ≠ []) (a : Nat) :
    Spec.Flp.objective i (as ++ [a]) ≤ Spec.Flp.objective i as := by
  unfold Spec.Flp.objective Spec.Flp.nearest
  apply sumRange_le
  intro j _
  rw [List.map_append]
  exact minList_append_le (by simpa using hne) _

/-- with non-negative distances the objective is non-negative -/
theorem objective_nonneg (i : Inst) (hD : ∀ c j, 0 ≤ i.D c j) (as : List Nat) (hne : as ≠ []) :
    0 ≤ Spec.Flp.objective i as := by
  unfold Spec.Flp.objective Spec.Flp.nearest
  apply sumRange_nonneg
  intro j _
  obtain ⟨c, _, hc⟩ := List.mem_map.mp (minList_mem (l := as.map (fun c => i.D c j)) (by simpa using hne))
  rw [← hc]; exact hD c j

/-- zero diagonal, non-negative distances: opening every location costs nothing -/
theorem objective_all_zero (i : Inst) (hD : ∀ c j, 0 ≤ i.D c j) (hdiag : ∀ c, i.D c c = 0) (hn : 0 < i.n) :
    Spec.Flp.objective i (List.range i.n) = 0 := by
  have hne : List.range i.n ≠ [] := by intro h; have := congrArg List.length h; simp at this; omega
  have hge := objective_nonneg i hD _ hne
  have hle : Spec.Flp.objective i (List.range i.n) ≤ 0 := by
    have h0 : sumRange i.n (fun _ => (0 : Int)) = 0 := by
      have a := sumRange_nonneg (n := i.n) (f := fun _ => (0 : Int)) (fun _ _ => Int.le_refl 0)
      have b := sumRange_le (n := i.n) (f := fun _ => (0 : Int)) (g := fun _ => 0) (fun _ _ => Int.le_refl 0)
      unfold sumRange; induction i.n with
      | zero => simp
      | succ n ih => rw [List.range_succ]; simp
    rw [← h0]
    unfold Spec.Flp.objective Spec.Flp.nearest
    apply sumRange_le
    intro j hj
    have := minList_le (l := (List.range i.n).map (fun c => i.D c j)) (x := i.D j j)
      (List.mem_map.mpr ⟨j, List.mem_range.mpr hj, rfl⟩)
    rw [hdiag] at this; exact this
  omega

/-- a feasible selection exists for every well-formed instance -/
theorem feasible_exists (i : Inst) (hwf : WF i) : ∃ as, Spec.Flp.Feasible i as := by
  obtain ⟨a, b, c⟩ := range_feasible_aux i.n i.quota hwf.1 hwf.2
  exact ⟨_, a, b, c⟩

/-- **what a padded row ends with (∀ batch, ∀ row)**: whatever the quotas, after the loop row `r` has
selected `T` = number of loop steps pairwise distinct locations and its reward is minus the objective of
ALL of them; by `objective_mono` that is at least the reward of its own first `quota` selections. -/
theorem batch_row_outcome {B : Nat} {inst : Nat → Inst} (hwf : ∀ r, r < B → WF (inst r))
    {steps : List (Nat → Nat)} {b' : Bat Inst State} (h : Bat.Loop env (Bat.reset env B inst) steps b')
    (r : Nat) (hr : r < B) :
    (Bat.rowActs steps r).length = steps.length ∧ (Bat.rowActs steps r).Nodup ∧
    reward (inst r) (b'.st r) = - Spec.Flp.objective (inst r) (Bat.rowActs steps r) := by
  obtain ⟨_, hrun⟩ := h.rows.2 r hr
  have hi := Sel.inv_of_run view hrun
  have hlen := Bat.rowActs_length steps r
  have hq := (batch_length hwf h).1 r hr
  have hne : Bat.rowActs steps r ≠ [] := by
    intro h0; rw [h0] at hlen; simp at hlen
    have := (hwf r hr).1; rw [← hlen] at hq; simp at hq; omega
  exact ⟨hlen, hi.nodup, reward_eq_objective (inst r) hrun hne⟩

end Flp

/-! ### MCP Spec sanity -/
namespace Mcp

theorem covered_mono (i : Inst) (as : List Nat) (a x : Nat) (h : Spec.Mcp.covered i as x = true) :
    Spec.Mcp.covered i (as ++ [a]) x = true := by
  rw [covered_append, h]; simp

/-- with non-negative weights, choosing one more set never decreases the covered weight -/
theorem objective_mono (i : Inst) (hw : ∀ x, 0 ≤ i.w x) (as : List Nat) (a : Nat) :
    Spec.Mcp.objective i as ≤ Spec.Mcp.objective i (as ++ [a]) := by
  unfold Spec.Mcp.objective
  apply sumRange_le
  intro x _
  cases hc : Spec.Mcp.covered i as x
  · simp only [Bool.false_eq_true, if_false]; split
    · exact hw x
    · exact Int.le_refl 0
  · rw [covered_mono i as a x hc]

/-- … and it never exceeds the total weight -/
theorem objective_le_total (i : Inst) (hw : ∀ x, 0 ≤ i.w x) (as : List Nat) :
    Spec.Mcp.objective i as ≤ sumRange i.nItems i.w := by
  unfold Spec.Mcp.objective
  apply sumRange_le
  intro x _
  split
  · exact Int.le_refl _
  · exact hw x

/-- nothing chosen, nothing covered -/
theorem objective_nil (i : Inst) : Spec.Mcp.objective i [] = 0 := by
  unfold Spec.Mcp.objective Spec.Mcp.covered
  have h0 : sumRange i.nItems (fun _ => (0 : Int)) = 0 := by
    unfold sumRange; induction i.nItems with
    | zero => simp
    | succ n ih => rw [List.range_succ]; simp
  simpa using h0

/-- the covered weight depends only on the SET of chosen sets -/
theorem objective_perm (i : Inst) {as bs : List Nat} (h : ∀ c, c ∈ as ↔ c ∈ bs) :
    Spec.Mcp.objective i as = Spec.Mcp.objective i bs := by
  unfold Spec.Mcp.objective
  apply sumRange_congr
  intro x _
  have : Spec.Mcp.covered i as x = Spec.Mcp.covered i bs x := by
    rw [Bool.eq_iff_iff]
    simp only [Spec.Mcp.covered, List.any_eq_true]
    constructor
    · rintro ⟨j, hj, hm⟩; exact ⟨j, (h j).mp hj, hm⟩
    · rintro ⟨j, hj, hm⟩; exact ⟨j, (h j).mpr hj, hm⟩
  rw [this]

theorem feasible_exists (i : Inst) (hwf : WF i) : ∃ as, Spec.Mcp.Feasible i as := by
  obtain ⟨a, b, c⟩ := range_feasible_aux i.nSets i.quota hwf.1 hwf.2
  exact ⟨_, a, b, c⟩

theorem batch_row_outcome {B : Nat} {inst : Nat → Inst}
    {steps : List (Nat → Nat)} {b' : Bat Inst State} (h : Bat.Loop env (Bat.reset env B inst) steps b')
    (r : Nat) (hr : r < B) :
    (Bat.rowActs steps r).length = steps.length ∧ (Bat.rowActs steps r).Nodup ∧
    reward (inst r) (b'.st r) = Spec.Mcp.objective (inst r) (Bat.rowActs steps r) := by
  obtain ⟨_, hrun⟩ := h.rows.2 r hr
  exact ⟨Bat.rowActs_length steps r, (Sel.inv_of_run view hrun).nodup, reward_eq_objective (inst r) hrun⟩

end Mcp

/-! ### DPP Spec sanity -/
namespace Dpp

/-- **Spec-level**: a feasible placement exists iff the quota is non-negative and at most the number of
cells that are offered and not a probing port (independent of the environment model). -/
theorem feasible_exists_iff (i : Inst) (hq : 0 ≤ i.quota) :
    (∃ as, Spec.Dpp.Feasible i as) ↔ i.quota ≤ cnt i.n (Spec.Dpp.allowed i) := by
  let cells := (List.range i.n).filter (Spec.Dpp.allowed i)
  have hcells : cells.length = cnt i.n (Spec.Dpp.allowed i) := rfl
  constructor
  · rintro ⟨as, hf⟩
    have hsub : as ⊆ cells := by
      intro a ha
      simp only [cells, List.mem_filter, List.mem_range]
      exact ⟨hf.range a ha, hf.ok a ha⟩
    have := (List.subperm_of_subset hf.nodup hsub).length_le
    rw [← hcells]; have := hf.len; omega
  · intro h
    refine ⟨cells.take i.quota.toNat, ?_, ?_, ?_, ?_⟩
    · simp only [List.length_take, hcells]; omega
    · exact (List.take_sublist _ _).nodup ((List.nodup_range).filter _)
    · intro a ha
      have := List.mem_of_mem_take ha
      simp only [cells, List.mem_filter, List.mem_range] at this; exact this.1
    · intro a ha
      have := List.mem_of_mem_take ha
      simp only [cells, List.mem_filter, List.mem_range] at this; exact this.2

end Dpp
end Rl4co
