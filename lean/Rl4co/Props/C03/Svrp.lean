/-
C03 for SVRP: the reward computed by `_get_reward` — distances between `[depot] ++ actions` and its
roll, multiplied entry-wise by the cost row that the Python loop over the depot positions writes — is
minus Σ_k cost_k · (closed length of route k), route k being driven by technician k, for EVERY action
list, provided the depot has distance 0 to itself.  (The real code indexes `tech_costs[#depot visits]`
and raises when that reaches T; inside a batch loop it does not, see C02 `tech_lt_of_run`.)
-/
import Rl4co.Env.Svrp
import Rl4co.Spec.Svrp

namespace Rl4co.Svrp
open Rl4co.Spec.Svrp

/-- leg-by-leg form of the weighted length: currently at `cur` with technician `tech`, legs through `as`,
final leg to `z` -/
def wlegs (i : Inst) (z : Nat) : Nat → Nat → List Nat → Int
  | tech, cur, [] => i.D cur z * i.costs tech
  | tech, cur, a :: as => i.D cur a * i.costs tech + wlegs i z (if a = 0 then tech + 1 else tech) a as

theorem zip_eq_wlegs (i : Inst) (z : Nat) (as : List Nat) : ∀ tech x,
    (List.zipWith (· * ·) (List.zipWith (fun a b => i.D a b) (x :: as) (as ++ [z])) (costRow i tech as)).sum
      = wlegs i z tech x as := by
  induction as with
  | nil => intro tech x; simp [costRow, wlegs]
  | cons a as ih =>
    intro tech x
    simp only [List.cons_append, List.zipWith_cons_cons, costRow, List.sum_cons, wlegs]
    rw [ih]

theorem weightedLen_eq_wlegs (i : Inst) (as : List Nat) : weightedLen i as = wlegs i 0 0 0 as := by
  simp only [weightedLen, roll1]
  exact zip_eq_wlegs i 0 as 0 0

theorem weighted_cons (i : Inst) (k : Nat) (r : List Nat) (rs : List (List Nat)) :
    weighted i k (r :: rs) = i.costs k * routeLen i.D r + weighted i (k + 1) rs := rfl

theorem wlegs_routes (i : Inst) (h00 : i.D 0 0 = 0) (as : List Nat) :
    ∀ tech x r rs, routes as = r :: rs →
      wlegs i 0 tech x as = i.costs tech * pathLen i.D (x :: r ++ [0]) + weighted i (tech + 1) rs := by
  induction as with
  | nil =>
    intro tech x r rs h
    simp only [routes, List.cons.injEq] at h
    obtain ⟨h1, h2⟩ := h; subst h1 h2
    simp [wlegs, pathLen, weighted, Int.mul_comm]
  | cons a as ih =>
    intro tech x r rs h
    obtain ⟨r1, rs1, h1⟩ := routes_cons_exists as
    by_cases h0 : a = 0
    · subst h0
      simp only [routes, if_true, List.cons.injEq] at h
      obtain ⟨e1, e2⟩ := h; subst e1 e2
      have := ih (tech + 1) 0 r1 rs1 h1
      simp only [wlegs, if_true, this, h1, weighted_cons, routeLen]
      by_cases hr : r1 = []
      · subst hr
        simp [pathLen, h00, Int.mul_comm]
      · simp only [hr, if_false, List.nil_append, List.cons_append]
        simp [pathLen, Int.mul_comm]
    · simp only [routes, h0, if_false, h1, List.cons.injEq] at h
      obtain ⟨e1, e2⟩ := h; subst e1 e2
      have := ih tech a r1 rs1 h1
      simp only [wlegs, h0, if_false, this, List.cons_append, pathLen_cons_cons, Int.mul_add]
      rw [Int.mul_comm (i.D x a)]
      omega

/-- **C03 (SVRP).** -/
theorem reward_eq_objective (i : Inst) (h00 : i.D 0 0 = 0) (as : List Nat) :
    reward i as = - Spec.Svrp.objective i as := by
  obtain ⟨r, rs, h⟩ := routes_cons_exists as
  simp only [reward, objective, weightedLen_eq_wlegs, wlegs_routes i h00 as 0 0 r rs h, h, weighted_cons,
    routeLen]
  by_cases hr : r = []
  · subst hr; simp [pathLen, h00]
  · simp [hr]

/-- Non-vacuity / sanity: routes `[1,2]` (technician 0, cost 1) and `[3]` (technician 1, cost 2). -/
example : reward ⟨3, 2, fun _ => 9, fun _ => 1, fun k => (k : Int) + 1, fun a b => if a = b then 0 else (a + b : Int)⟩
    [1, 2, 0, 3] = -((1 + 3 + 2) * 1 + (3 + 3) * 2) := by decide

end Rl4co.Svrp
