/-
C03 for PCTSP / SPCTSP: the reward `_get_reward` reports for a finished mask-confined episode is
minus (length of the tour depot → actions → depot + penalties of the customers that were not visited),
i.e. `− Spec.Pctsp.objective`, computed from the instance and the action list alone — for
deterministic and stochastic prizes alike (the reward does not read the prize at all; the `stochastic`
flag is part of the instance the theorem quantifies over).  The single-column special case of
`_get_reward` returns 0, which is NOT the objective of `[0]` when penalties are positive; it never
applies to a finished episode, because a finished episode has at least two steps.
-/
import Rl4co.Env.Pctsp
import Rl4co.Spec.Pctsp
import Rl4co.Props.C01.Pctsp

namespace Rl4co.Pctsp
open Rl4co.Spec.Pctsp Rl4co.Prize

/-- the single-column test is `length = 1` (extracted operator `==` and constant `1`) -/
theorem rewardSpecial_iff (as : List Nat) : rewardSpecial as = decide (as.length = 1) := by
  simp [rewardSpecial, Params.pctspRewardSpecialCmp, Params.pctspRewardSpecialWidth, Cmp.evalNat]

/-- `penalty[..., 1:].sum(-1)` is the sum of all customers' penalties (extracted slice bounds `1:`) -/
theorem totalPenalty_eq (i : Inst) : totalPenalty i = sumTo i.n (fun k => i.pen (k + 1)) := by
  simp only [totalPenalty, Params.pctspPenaltySlice, Nat.add_sub_cancel, Nat.sub_zero]
  apply sumTo_congr
  intro k _
  simp [padded]

theorem reward_eq (i : Inst) (as : List Nat) :
    reward i as = if as.length = 1 then 0
      else gatherSum i.pen as - (rollLen i.D (0 :: as) + sumTo i.n (fun k => i.pen (k + 1))) := by
  simp [reward, rewardSpecial_iff, totalPenalty_eq]

/-- general form: for every action list with entries in range and no repeated customer that is not a
single column, the reward is minus the objective (depot visits anywhere in the list allowed) -/
theorem reward_eq_objective_of_once (i : Inst) (as : List Nat)
    (hr : ∀ a ∈ as, a ≤ i.n) (ho : ∀ j, 1 ≤ j → j ≤ i.n → as.count j ≤ 1) (hl : as.length ≠ 1) :
    reward i as = - objective i as := by
  rw [reward_eq]
  simp only [hl, if_false, objective]
  rw [gatherSum_eq_sumTo i.n i.pen as hr ho, rollLen_eq_closedLen]
  rw [sumTo_split i.n i.pen (fun j => j ∈ as)]
  simp only [closedLen]
  omega

/-- a finished mask-confined episode has at least two steps -/
theorem two_le_length_of_done (i : Inst) {as : List Nat} {s : State}
    (h : Run env i (env.reset i) as s) (hd : env.done i s = true) : 2 ≤ as.length := by
  cases h with
  | nil => simp [env, done, reset] at hd
  | @cons _ _ a as ha hm h' =>
    cases h' with
    | nil => simp [env, done, step, reset, Params.pctspDoneCmp, Cmp.evalNat] at hd
    | cons _ _ _ => simp

/-- **C03 (PCTSP / SPCTSP).**  Reward of a finished mask-confined episode = −(length + penalties of
the unvisited customers). -/
theorem reward_eq_objective (i : Inst) {as : List Nat} {s : State}
    (h : Run env i (env.reset i) as s) (hd : env.done i s = true) :
    reward i as = - objective i as := by
  obtain ⟨h1, _, h3, _⟩ := visits_of_run i h
  have := two_le_length_of_done i h hd
  exact reward_eq_objective_of_once i as h1 (fun j hj _ => h3 j hj) (by omega)

/-- Non-vacuity / sanity: customers 1 and 2 visited (legs 10+10+10), customer 3 (penalty 3) skipped,
one padding step; and the single-column value 0 differs from the objective of `[0]`. -/
example : reward exInst [1, 2, 0, 0] = -(30 + 3) := by decide
example : objective exInst [1, 2, 0, 0] = 30 + 3 := by decide
example : reward exInst [0] = 0 ∧ objective exInst [0] = 6 := by decide

end Rl4co.Pctsp
