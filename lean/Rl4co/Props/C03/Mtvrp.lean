/-
C03 for the multi-task VRP environment: reported reward = − true objective, open and closed routes in one
statement, for every action list.
-/
import Rl4co.Proofs.MtvrpReward

namespace Rl4co.Mtvrp
open Rl4co.Spec.Mtvrp

/-- **C03 (MTVRP).** The reward of `_get_reward` (gather / roll / masked sum over `[depot] ++ actions`) is
minus the total length of the routes, each driven depot → customers → depot when routes are closed and
depot → customers when they are open (legs into the depot are not charged) — for EVERY action list (with
or without a final return, with any amount of trailing depot padding).  For closed routes the depot must
have distance 0 to itself. -/
theorem reward_eq_objective (i : Inst) (h00 : i.openR = true ∨ i.D 0 0 = 0) (as : List Nat) :
    reward i as = - objective i as := by
  have hc : charged i 0 0 = 0 := by
    rcases h00 with h | h
    · simp [charged_def, h]
    · simp only [charged_def]; split <;> simp [h]
  simp only [reward_def, objective, rollLen_eq_closedLen, closedLen]
  rw [closed_eq_routesLen (charged i) hc as, routesLen]
  congr 2
  apply List.map_congr_left
  intro r hr
  exact routeLen_charged i r (zero_not_mem_routes as r hr)

/-- Non-vacuity / sanity: two routes `[1,2]` and `[3]`, closed and open, on an asymmetric matrix. -/
def exD : Inst :=
  { n := 3, cap := 8, dL := fun _ => 1, dB := fun _ => 0, openR := false, limit := none, early := fun _ => 0,
    late := fun _ => none, service := fun _ => 0, D := fun a b => if a = b then 0 else (a + 2 * b : Int),
    T := fun a b => if a = b then 0 else (a + 2 * b : Int) }
example : reward exD [1, 2, 0, 3] = -((0 + 2) + (1 + 4) + (2 + 0) + (0 + 6) + (3 + 0)) := by decide
example : reward { exD with openR := true } [1, 2, 0, 3] = -((0 + 2) + (1 + 4) + (0 + 6)) := by decide
example : objective { exD with openR := true } [1, 2, 0, 3, 0, 0] = (0 + 2) + (1 + 4) + (0 + 6) := by decide

end Rl4co.Mtvrp
