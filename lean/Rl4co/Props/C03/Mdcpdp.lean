/-
C03 for MDCPDP (row stepped on its own, well-formed hand-supplied instance).

Proved (`reward_minsum_open`): in open mode the `minsum` reward is minus the total open-route length of
the executed solution, for EVERY mask-confined run (finished or not, padded or not).

The general statement "reward = −objective of the problem as stated" is false of the code for every
reward mode: `minmax` (all lengths are accumulated in slot 0 because `current_depot` never changes),
`minsum` in close mode (the last vehicle's way back is never charged), `lateness` (the arrival clock
is not restarted for the next vehicle).
-/
import Rl4co.Proofs.Mdcpdp
import Rl4co.Spec.Mdcpdp
import Rl4co.Props.C01.Mdcpdp

namespace Rl4co.Mdcpdp
open Rl4co.Spec.Mdcpdp

theorem sum_range_upd (n : Nat) (f : Nat → Int) (k : Nat) (v : Int) (hk : k < n) :
    ((List.range n).map (upd f k v)).sum = ((List.range n).map f).sum + (v - f k) := by
  induction n with
  | zero => omega
  | succ n ih =>
    rw [List.range_succ, List.map_append, List.map_append, List.sum_append, List.sum_append]
    simp only [List.map_cons, List.map_nil, List.sum_cons, List.sum_nil, Int.add_zero]
    by_cases hkn : k = n
    · subst hkn
      have : (List.range k).map (upd f k v) = (List.range k).map f := by
        apply List.map_congr_left
        intro x hx
        have := List.mem_range.mp hx
        exact upd_other _ _ _ _ (by omega)
      rw [this, upd_same]; omega
    · rw [ih (by omega), upd_other _ _ _ _ (by omega)]; omega

/-- sum of `current_length` -/
def totalLen (i : Inst) (s : State) : Int := (lens i s).sum

theorem totalLen_step {i : Inst} {s : State} (hwf : WF i) (hi : Inv i s) (hopen : i.openMode = true)
    {a : Nat} (ha : a < i.N) (hm : s.mask a = true) :
    totalLen i (step i s a) = totalLen i s + (if a < i.K then 0 else i.D s.cur a) := by
  have hdep : (step i s a).depot = 0 := (inv_step hwf hi ha hm).dep0
  have hk := hwf.kpos
  have hlen : (step i s a).len = upd s.len 0 (s.len 0 +
      (if (i.openMode && decide (a < i.K) && decide (i.K ≤ s.cur)) = true then 0
       else if a < i.K ∧ s.cur < i.K then 0 else i.D s.cur a)) := by
    have hd0 : (if backFlag i s a = true then a else s.depot) = 0 := hdep
    simp only [step, stepF, depotSel_asCoded, hd0, openZero_eq, depotLeg_eq, decide_eq_true_eq]
  simp only [totalLen, lens, hlen, hwf.kg]
  rw [sum_range_upd i.K s.len 0 _ (by omega)]
  by_cases haK : a < i.K
  · by_cases hc : s.cur < i.K
    · have : ¬ (i.K ≤ s.cur) := by omega
      simp [haK, hc, this]
    · have : i.K ≤ s.cur := by omega
      simp [haK, hopen, this]
  · simp [haK]; omega

theorem totalLen_of_run {i : Inst} (hwf : WF i) (hopen : i.openMode = true) {s s' : State}
    {as : List Nat} (h : Run env i s as s') (hi : Inv i s) :
    totalLen i s' = totalLen i s + openLength (problemOf i) s.cur as := by
  induction h with
  | nil s => simp [openLength]
  | @cons s s' a as ha hm _ ih =>
    have ha' : a < i.N := ha
    have hm' : s.mask a = true := hm
    have := ih (inv_step hwf hi ha' hm')
    rw [this]
    show totalLen i (step i s a) + openLength (problemOf i) (step i s a).cur as = _
    rw [totalLen_step hwf hi hopen ha' hm', step_cur]
    simp only [openLength, problemOf]
    omega

/-- **C03 (MDCPDP), open mode, minsum.** -/
theorem reward_minsum_open (i : Inst) (hwf : WF i) (hopen : i.openMode = true) {as : List Nat}
    {s : State} (h : Run env i (env.reset i) as s) :
    reward .minsum i s = - openLength (problemOf i) 0 as := by
  have := totalLen_of_run hwf hopen h (inv_reset i hwf)
  simp only [reward]
  simp only [totalLen] at this
  rw [this]
  have hz : ∀ n : Nat, ((List.range n).map (fun _ => (0 : Int))).sum = 0 := by
    intro n; induction n with
    | zero => rfl
    | succ n ih => rw [List.range_succ, List.map_append, List.sum_append, ih]; rfl
  have h0 : (lens i (env.reset i)).sum = 0 := hz i.KG
  rw [h0]
  simp [env, reset]

def modeIdx : Mode → Nat
  | .minmax => 0
  | .minsum => 1
  | .lateness => 2

/-- The statement one would like, per reward mode. -/
def reward_statement (m : Mode) : Prop :=
  ∀ (i : Inst) (as : List Nat) (s : State), WF i → Run env i (env.reset i) as s →
    env.done i s = true → Feasible (problemOf i) as →
      reward m i s = - objOf (modeIdx m) (problemOf i) {} as

/-- 2 depots, 2 orders, unit distances, open mode -/
def cexMM : Inst :=
  { N := 6, K := 2, split0 := 4, KG := 2, cap := fun _ => 2, D := fun a b => if a = b then 0 else 1,
    openMode := true, wNum := 1, wDen := 1 }

/-- `minmax`: two tours of length 2 each; the code reports 4 (their sum). -/
theorem reward_minmax_counterexample : ¬ reward_statement .minmax := by
  intro h
  have := h cexMM [0, 2, 4, 0, 1, 3, 5] (exec env cexMM (env.reset cexMM) [0, 2, 4, 0, 1, 3, 5])
    ⟨by decide, by decide, by decide, by decide, by decide, by decide⟩
    ((run_iff_admitted _ _ _ _ _).2 ⟨by decide, rfl⟩) (by decide) (by unfold Feasible; decide)
  revert this; decide

/-- `lateness` (weight 1): the second vehicle's deliveries are timed from the first vehicle's start. -/
theorem reward_lateness_counterexample : ¬ reward_statement .lateness := by
  intro h
  have := h cexMM [0, 2, 4, 0, 1, 3, 5] (exec env cexMM (env.reset cexMM) [0, 2, 4, 0, 1, 3, 5])
    ⟨by decide, by decide, by decide, by decide, by decide, by decide⟩
    ((run_iff_admitted _ _ _ _ _).2 ⟨by decide, rfl⟩) (by decide) (by unfold Feasible; decide)
  revert this; decide

/-- 1 depot, 1 order, unit distances, close mode -/
def cexClose : Inst :=
  { N := 3, K := 1, split0 := 2, KG := 1, cap := fun _ => 1, D := fun a b => if a = b then 0 else 1,
    openMode := false, wNum := 0, wDen := 1 }

/-- `minsum`, close mode: the closed tour 0→1→2→0 has length 3; the code reports 2. -/
theorem reward_minsum_close_counterexample : ¬ reward_statement .minsum := by
  intro h
  have := h cexClose [0, 1, 2] (exec env cexClose (env.reset cexClose) [0, 1, 2])
    ⟨by decide, by decide, by decide, by decide, by decide, by decide⟩
    ((run_iff_admitted _ _ _ _ _).2 ⟨by decide, rfl⟩) (by decide) (by unfold Feasible; decide)
  revert this; decide

/-- Non-vacuity of `reward_minsum_open`, and agreement of the declarative open length with the
route-level objective on a feasible solution: both are 4 on the two-tour episode of `cexMM`. -/
example : Run env cexMM (env.reset cexMM) [0, 2, 4, 0, 1, 3, 5] (exec env cexMM (env.reset cexMM) [0, 2, 4, 0, 1, 3, 5]) :=
  (run_iff_admitted _ _ _ _ _).2 ⟨by decide, rfl⟩
example : openLength (problemOf cexMM) 0 [0, 2, 4, 0, 1, 3, 5] = 4 ∧
    objMinsum (problemOf cexMM) {} [0, 2, 4, 0, 1, 3, 5] = 4 := by decide

end Rl4co.Mdcpdp
