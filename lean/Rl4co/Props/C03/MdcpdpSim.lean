/-
Refinement between the MDCPDP model and the route-level Spec simulation (`Spec.Mdcpdp.sim`).

`v0` is the Spec with exactly the four clauses switched off that the known defects of the code break
(return to the own depot, own capacity, per-vehicle lengths/clock, charge of the last way home).
`sim_refines`: along EVERY mask-confined run (solo row, well-formed instance) the simulation under `v0`
never fails and carries the same bookkeeping as the environment.  Consequences:
* `verdict_v0_of_run`, `reward_eq_obj_v0`: finished episodes are `v0`-feasible and all three rewards are
  minus the `v0` objectives — the code deviates from the problem statement by those four clauses only;
* for a single depot the four clauses are vacuous (`sim_single_depot`): `feasible_of_run_single_depot`
  (full `Spec.Feasible`) and, in open mode, `reward_eq_objective_single_open` for minmax / minsum / lateness.
-/
import Rl4co.Proofs.Mdcpdp
import Rl4co.Spec.Mdcpdp
import Rl4co.Spec.MdcpdpAdmits
import Rl4co.Props.C01.Mdcpdp
import Rl4co.Props.C03.Mdcpdp

namespace Rl4co.Mdcpdp
open Rl4co.Spec.Mdcpdp

/-- the simulation state after the visits `hist` (before the end-of-list checks) -/
def simOf (i : Inst) (v : Variant) (hist : List Nat) : Sim := hist.foldl (simStep (problemOf i) v) {}

theorem simOf_snoc (i : Inst) (v : Variant) (hist : List Nat) (a : Nat) :
    simOf i v (hist ++ [a]) = simStep (problemOf i) v (simOf i v hist) a := by
  simp [simOf, List.foldl_append]

/-- what ties an environment state (after at least one step, `b` = the last step was a return) to the
simulation state -/
structure Rel (i : Inst) (b : Bool) (s : State) (σ : Sim) : Prop where
  mask    : s.mask = maskOf i b s.avail s.toDeliver s.carry 0 s.done
  err     : σ.err = 0
  opened  : ∀ d, d < i.K → (d ∈ σ.opened ↔ s.avail d = false)
  veh     : (b = true → σ.veh = none) ∧ (b = false → ∃ d, σ.veh = some d)
  onboard : ∀ x, x ∈ σ.onboard ↔ (i.K ≤ x ∧ x < i.K + i.h ∧ s.avail x = false ∧ s.avail (x + i.h) = true)
  nodup   : σ.onboard.Nodup
  carry   : (σ.onboard.length : Int) = s.carry
  served  : ∀ x, x ∈ σ.served ↔ (i.K ≤ x ∧ x < i.N ∧ s.avail x = false)
  pos     : σ.pos = s.cur
  homePos : b = true → s.cur = 0
  lens0   : σ.lens 0 = s.len 0
  lensD   : ∀ d, d ≠ 0 → σ.lens d = 0 ∧ s.len d = 0
  clock   : σ.clock = s.len 0
  late    : σ.late = lateSum i s
  arrive  : ∀ x, i.K ≤ x → s.avail x = true → s.arrive x = 0
  zero    : s.avail 0 = false

theorem lateSum_upd (i : Inst) (hwf : WF i) (arr : Nat → Int) (a : Nat) (v : Int) (ha : a < i.N) :
    ((List.range (i.N - i.pd)).map (fun k => upd arr a v (i.pd + k))).sum =
      ((List.range (i.N - i.pd)).map (fun k => arr (i.pd + k))).sum + (if i.pd ≤ a then v - arr a else 0) := by
  by_cases hp : i.pd ≤ a
  · have hfun : (fun k => upd arr a v (i.pd + k)) = upd (fun k => arr (i.pd + k)) (a - i.pd) v := by
      funext k
      simp only [upd_apply]
      by_cases hk : k = a - i.pd
      · have : i.pd + k = a := by omega
        rw [if_pos this, if_pos hk]
      · have : i.pd + k ≠ a := by omega
        rw [if_neg this, if_neg hk]
    rw [hfun, sum_range_upd _ _ (a - i.pd) v (by omega)]
    have : i.pd + (a - i.pd) = a := by omega
    simp [hp, this]
  · have hfun : ∀ k, upd arr a v (i.pd + k) = arr (i.pd + k) := fun k => upd_other _ _ _ _ (by omega)
    simp [hp, hfun]

/-! ### the branches of `simStep` under `v0` -/

theorem pN (i : Inst) (hwf : WF i) : (problemOf i).N = i.N := by
  have := hwf.even; simp [Problem.N, problemOf]; omega

theorem sim_open (i : Inst) (hwf : WF i) (σ : Sim) (a : Nat) (he : σ.err = 0) (ha : a < i.K)
    (hno : a ∉ σ.opened) (hv : σ.veh = none) :
    simStep (problemOf i) v0 σ a = { σ with opened := a :: σ.opened, veh := some a, pos := a } := by
  have hN : ¬ (a ≥ (problemOf i).N) := by rw [pN i hwf]; have := hwf.even; omega
  have hK : a < (problemOf i).K := ha
  simp [simStep, he, hN, hK, hno, hv, v0]

theorem sim_return (i : Inst) (hwf : WF i) (σ : Sim) (d : Nat) (he : σ.err = 0) (h0 : 0 ∈ σ.opened)
    (hv : σ.veh = some d) (hon : σ.onboard = []) :
    simStep (problemOf i) v0 σ 0 =
      { σ with veh := none, pos := 0,
               clock := σ.clock + (if i.openMode then 0 else if σ.pos < i.K then 0 else i.D σ.pos 0),
               lens := addLen σ.lens 0 (if i.openMode then 0 else if σ.pos < i.K then 0 else i.D σ.pos 0) } := by
  have hk := hwf.kpos
  have hN : ¬ (0 ≥ (problemOf i).N) := by rw [pN i hwf]; have := hwf.even; omega
  have hK : 0 < (problemOf i).K := hk
  simp [simStep, he, hN, hK, h0, hv, hon, v0]
  simp only [problemOf]
  exact ⟨rfl, rfl⟩

theorem sim_wait (i : Inst) (hwf : WF i) (σ : Sim) (he : σ.err = 0) (h0 : 0 ∈ σ.opened)
    (hv : σ.veh = none) (hp : σ.pos = 0) : simStep (problemOf i) v0 σ 0 = σ := by
  have hk := hwf.kpos
  have hN : ¬ (0 ≥ (problemOf i).N) := by rw [pN i hwf]; have := hwf.even; omega
  have hK : 0 < (problemOf i).K := hk
  simp [simStep, he, hN, hK, h0, hv, hp]

theorem sim_pickup (i : Inst) (hwf : WF i) (σ : Sim) (a d : Nat) (he : σ.err = 0) (h1 : i.K ≤ a)
    (h2 : a < i.K + i.h) (hv : σ.veh = some d) (hns : a ∉ σ.served)
    (hc : (σ.onboard.length : Int) + 1 ≤ i.cap 0) :
    simStep (problemOf i) v0 σ a =
      { σ with served := a :: σ.served, pos := a, clock := σ.clock + i.D σ.pos a,
               lens := addLen σ.lens 0 (i.D σ.pos a), onboard := a :: σ.onboard } := by
  have hev := hwf.even
  have hN : ¬ (a ≥ (problemOf i).N) := by rw [pN i hwf]; omega
  have hK : ¬ (a < (problemOf i).K) := by simp [problemOf]; omega
  have hP : a < (problemOf i).K + (problemOf i).h := h2
  have hc' : ¬ ((σ.onboard.length : Int) + 1 > (problemOf i).cap 0) := by simp [problemOf]; omega
  simp [simStep, he, hN, hK, hv, hns, hP, v0, hc']
  simp [problemOf]

theorem sim_delivery (i : Inst) (hwf : WF i) (σ : Sim) (a d : Nat) (he : σ.err = 0) (h1 : i.K + i.h ≤ a)
    (h2 : a < i.N) (hv : σ.veh = some d) (hns : a ∉ σ.served) (hon : (a - i.h) ∈ σ.onboard) :
    simStep (problemOf i) v0 σ a =
      { σ with served := a :: σ.served, pos := a, clock := σ.clock + i.D σ.pos a,
               lens := addLen σ.lens 0 (i.D σ.pos a), onboard := σ.onboard.erase (a - i.h),
               late := σ.late + (σ.clock + i.D σ.pos a) } := by
  have hev := hwf.even
  have hN : ¬ (a ≥ (problemOf i).N) := by rw [pN i hwf]; omega
  have hK : ¬ (a < (problemOf i).K) := by simp [problemOf]; omega
  have hP : ¬ (a < (problemOf i).K + (problemOf i).h) := by simp [problemOf]; omega
  have hon' : (a - (problemOf i).h) ∈ σ.onboard := hon
  simp [simStep, he, hN, hK, hv, hns, hP, v0, hon']
  simp [problemOf]

/-! ### one step of the refinement -/

theorem len_step (i : Inst) (s : State) (a : Nat) (hd : (step i s a).depot = 0) :
    (step i s a).len = upd s.len 0 (s.len 0 +
      (if (i.openMode && decide (a < i.K) && decide (i.K ≤ s.cur)) = true then 0
       else if a < i.K ∧ s.cur < i.K then 0 else i.D s.cur a)) := by
  have hd0 : (if backFlag i s a = true then a else s.depot) = 0 := hd
  simp only [step, stepF, depotSel_asCoded, hd0, openZero_eq, depotLeg_eq, decide_eq_true_eq]

theorem arrive_step (i : Inst) (s : State) (a : Nat) (hd : (step i s a).depot = 0) :
    (step i s a).arrive = upd s.arrive a ((step i s a).len 0) := by
  have hd0 : (if backFlag i s a = true then a else s.depot) = 0 := hd
  simp only [step, stepF, depotSel_asCoded, hd0]

theorem lateSum_step (i : Inst) (hwf : WF i) (s : State) (a : Nat) (ha : a < i.N)
    (hd : (step i s a).depot = 0) :
    lateSum i (step i s a) = lateSum i s + (if i.pd ≤ a then (step i s a).len 0 - s.arrive a else 0) := by
  simp only [lateSum, arrive_step i s a hd]
  exact lateSum_upd i hwf s.arrive a _ ha

theorem rel_step (i : Inst) (hwf : WF i) {b : Bool} {s : State} {σ : Sim} {a : Nat} (hi : Inv i s)
    (hr : Rel i b s σ) (ha : a < i.N) (hm : s.mask a = true) :
    Rel i (backFlag i s a) (step i s a) (simStep (problemOf i) v0 σ a) := by
  have hev := hwf.even
  have hk := hwf.kpos
  have hpd : i.pd = i.h + i.K := rfl
  have hi' := inv_step hwf hi ha hm
  have hdep : (step i s a).depot = 0 := hi'.dep0
  have hmask' : (step i s a).mask = maskOf i (backFlag i s a) (step i s a).avail (step i s a).toDeliver
      (step i s a).carry 0 (step i s a).done := by rw [step_mask, hdep]
  have hzero' : (step i s a).avail 0 = false := by
    rw [step_avail, upd_apply]; split
    · rfl
    · exact hr.zero
  have hlen := len_step i s a hdep
  by_cases haK : a < i.K
  · -- a depot
    have hK1 : ¬ (i.K ≤ a ∧ a < i.pd) := by omega
    have hK2 : ¬ (i.pd ≤ a) := by omega
    have hcarry : (step i s a).carry = s.carry := by rw [step_carry]; simp [hK1, hK2]
    have hlate : lateSum i (step i s a) = lateSum i s := by
      rw [lateSum_step i hwf s a ha hdep]; simp [hK2]
    have harr : ∀ x, i.K ≤ x → (step i s a).avail x = true → (step i s a).arrive x = 0 := by
      intro x hx hav
      rw [arrive_step i s a hdep, upd_other _ _ _ _ (by omega)]
      rw [step_avail, upd_other _ _ _ _ (by omega)] at hav
      exact hr.arrive x hx hav
    by_cases hav : s.avail a = true
    · -- its vehicle starts: only possible right after a return
      have ha0 : a ≠ 0 := by intro h; subst h; rw [hr.zero] at hav; cases hav
      have hbf : backFlag i s a = false := by simp [backFlag_eq, hav]
      have hb : b = true := by
        have := hm
        rw [hr.mask] at this
        simp only [maskOf, capFlagOf_eq, carryFlagOf_eq, lastDepotOf_eq, haK, if_true, ha0, if_false,
          Bool.and_eq_true] at this
        exact this.1.1.2
      subst hb
      have hcur : s.cur = 0 := hr.homePos rfl
      have hno : a ∉ σ.opened := fun h => by have := (hr.opened a haK).mp h; rw [hav] at this; cases this
      rw [sim_open i hwf σ a hr.err haK hno (hr.veh.1 rfl), hbf]
      have hl0 : (step i s a).len 0 = s.len 0 := by
        rw [hlen, upd_same]
        have h1 : ¬ (i.K ≤ s.cur) := by omega
        have h2 : a < i.K ∧ s.cur < i.K := ⟨haK, by omega⟩
        simp [h1, h2]
      exact
        { mask := by rw [hmask', hbf]
          err := hr.err
          opened := by
            intro d hd
            rw [step_avail, upd_apply, List.mem_cons]
            by_cases hda : d = a
            · subst hda; simp
            · simp only [hda, false_or, if_false]; exact hr.opened d hd
          veh := ⟨fun h => (by cases h), fun _ => ⟨a, rfl⟩⟩
          onboard := by
            intro x
            rw [hr.onboard x, step_avail]
            constructor
            · rintro ⟨h1, h2, h3, h4⟩
              exact ⟨h1, h2, by rw [upd_other _ _ _ _ (by omega)]; exact h3, by rw [upd_other _ _ _ _ (by omega)]; exact h4⟩
            · rintro ⟨h1, h2, h3, h4⟩
              rw [upd_other _ _ _ _ (by omega)] at h3 h4
              exact ⟨h1, h2, h3, h4⟩
          nodup := hr.nodup
          carry := by rw [hcarry]; exact hr.carry
          served := by
            intro x
            rw [hr.served x, step_avail]
            constructor
            · rintro ⟨h1, h2, h3⟩; exact ⟨h1, h2, by rw [upd_other _ _ _ _ (by omega)]; exact h3⟩
            · rintro ⟨h1, h2, h3⟩; rw [upd_other _ _ _ _ (by omega)] at h3; exact ⟨h1, h2, h3⟩
          pos := rfl
          homePos := fun h => by cases h
          lens0 := by rw [hl0]; exact hr.lens0
          lensD := by
            intro d hd
            have := hr.lensD d hd
            refine ⟨this.1, ?_⟩
            rw [hlen, upd_other _ _ _ _ hd]; exact this.2
          clock := by rw [hl0]; exact hr.clock
          late := by rw [hlate]; exact hr.late
          arrive := harr
          zero := hzero' }
    · -- a visited depot: this is node 0
      have hav' : s.avail a = false := by simpa using hav
      have hbf : backFlag i s a = true := by simp [backFlag_eq, haK, hav']
      have ha0 := back_is_zero hwf hi hm hbf
      subst ha0
      have hsame : upd s.avail 0 false = s.avail := by
        funext j; simp only [upd_apply]; split
        · subst_vars; exact hav'.symm
        · rfl
      have h0open : 0 ∈ σ.opened := (hr.opened 0 haK).mpr hav'
      have hrest : ∀ (σ' : Sim), σ'.err = 0 → σ'.opened = σ.opened → σ'.veh = none → σ'.onboard = σ.onboard →
          σ'.served = σ.served → σ'.pos = 0 → σ'.lens 0 = (step i s 0).len 0 → (∀ d, d ≠ 0 → σ'.lens d = σ.lens d) →
          σ'.clock = (step i s 0).len 0 → σ'.late = σ.late → Rel i true (step i s 0) σ' := by
        intro σ' e1 e2 e3 e4 e5 e6 e7 e8 e9 e10
        exact
          { mask := by rw [hmask', hbf]
            err := e1
            opened := by intro d hd; rw [e2, step_avail, hsame]; exact hr.opened d hd
            veh := ⟨fun _ => e3, fun h => by cases h⟩
            onboard := by intro x; rw [e4, step_avail, hsame]; exact hr.onboard x
            nodup := by rw [e4]; exact hr.nodup
            carry := by rw [e4, hcarry]; exact hr.carry
            served := by intro x; rw [e5, step_avail, hsame]; exact hr.served x
            pos := e6
            homePos := fun _ => rfl
            lens0 := e7
            lensD := by
              intro d hd
              have := hr.lensD d hd
              refine ⟨by rw [e8 d hd]; exact this.1, ?_⟩
              rw [hlen, upd_other _ _ _ _ hd]; exact this.2
            clock := e9
            late := by rw [e10, hlate]; exact hr.late
            arrive := harr
            zero := hzero' }
      rw [hbf]
      cases b with
      | false =>
        obtain ⟨d, hvd⟩ := hr.veh.2 rfl
        have hc0 := mask_depot_carry hwf hi haK hm
        have hon : σ.onboard = [] := by
          have := hr.carry; rw [hc0] at this
          exact List.eq_nil_of_length_eq_zero (by omega)
        rw [sim_return i hwf σ d hr.err h0open hvd hon]
        have hl0 : (step i s 0).len 0 = s.len 0 + (if i.openMode then 0 else if s.cur < i.K then 0 else i.D s.cur 0) := by
          rw [hlen, upd_same]
          have h0K : (0 : Nat) < i.K := by omega
          cases ho : i.openMode <;> by_cases hc : s.cur < i.K
          · simp [hc, h0K]
          · simp [hc, h0K]
          · have : ¬ (i.K ≤ s.cur) := by omega
            simp [hc, h0K, this]
          · have : i.K ≤ s.cur := by omega
            simp [h0K, this]
        apply hrest
        · exact hr.err
        · rfl
        · rfl
        · rfl
        · rfl
        · rfl
        · show addLen σ.lens 0 _ 0 = _
          rw [hl0, hr.pos]; simp [addLen, hr.lens0]
        · intro d hd; simp [addLen, hd]
        · show σ.clock + _ = _
          rw [hl0, hr.pos, hr.clock]
        · rfl
      | true =>
        have hcur : s.cur = 0 := hr.homePos rfl
        rw [sim_wait i hwf σ hr.err h0open (hr.veh.1 rfl) (by rw [hr.pos, hcur])]
        have hl0 : (step i s 0).len 0 = s.len 0 := by
          rw [hlen, upd_same]
          have h1 : ¬ (i.K ≤ s.cur) := by omega
          have h2 : (0 : Nat) < i.K ∧ s.cur < i.K := ⟨by omega, by omega⟩
          simp [h1, h2]
        apply hrest
        · exact hr.err
        · rfl
        · exact hr.veh.1 rfl
        · rfl
        · rfl
        · rw [hr.pos, hcur]
        · rw [hl0]; exact hr.lens0
        · intro _ _; rfl
        · rw [hl0]; exact hr.clock
        · rfl
  · -- a customer: the vehicle is out
    obtain ⟨hav, htd, hcap⟩ := mask_customer hwf hi (by omega : i.K ≤ a) hm
    have hbf : backFlag i s a = false := by simp [backFlag_eq, hav]
    have hb : b = false := by
      have := hm
      rw [hr.mask] at this
      simp only [maskOf, capFlagOf_eq, carryFlagOf_eq, lastDepotOf_eq, haK, if_false, Bool.and_eq_true,
        Bool.not_eq_true'] at this
      exact this.2
    subst hb
    obtain ⟨d, hvd⟩ := hr.veh.2 rfl
    have hns : a ∉ σ.served := fun h => by have := ((hr.served a).mp h).2.2; rw [hav] at this; cases this
    have hl0 : (step i s a).len 0 = s.len 0 + i.D s.cur a := by
      rw [hlen, upd_same]; simp [haK]
    have hlensD : ∀ d', d' ≠ 0 → addLen σ.lens 0 (i.D σ.pos a) d' = 0 ∧ (step i s a).len d' = 0 := by
      intro d' hd'
      have := hr.lensD d' hd'
      refine ⟨by simp [addLen, hd', this.1], ?_⟩
      rw [hlen, upd_other _ _ _ _ hd']; exact this.2
    have hserved : ∀ x, x ∈ a :: σ.served ↔ (i.K ≤ x ∧ x < i.N ∧ (step i s a).avail x = false) := by
      intro x
      rw [List.mem_cons, hr.served x, step_avail, upd_apply]
      by_cases hxa : x = a
      · subst hxa; simp; omega
      · simp [hxa]
    have hopened : ∀ d', d' < i.K → (d' ∈ σ.opened ↔ (step i s a).avail d' = false) := by
      intro d' hd'; rw [step_avail, upd_other _ _ _ _ (by omega)]; exact hr.opened d' hd'
    have harr : ∀ x, i.K ≤ x → (step i s a).avail x = true → (step i s a).arrive x = 0 := by
      intro x hx hav'
      rw [step_avail, upd_apply] at hav'
      by_cases hxa : x = a
      · subst hxa; simp at hav'
      · rw [if_neg hxa] at hav'
        rw [arrive_step i s a hdep, upd_other _ _ _ _ hxa]; exact hr.arrive x hx hav'
    rw [hbf]
    by_cases hp : a < i.pd
    · -- pickup
      have hcarry : (step i s a).carry = s.carry + 1 := by
        rw [step_carry]
        have h1 : i.K ≤ a ∧ a < i.pd := ⟨by omega, hp⟩
        have h2 : ¬ (i.pd ≤ a) := by omega
        simp [h1, h2]
      have hc := hcap hp
      rw [sim_pickup i hwf σ a d hr.err (by omega) (by omega) hvd hns (by rw [hr.carry]; omega)]
      have hdel := hi.delAfter a (by omega) (by omega) hav
      have hlate : lateSum i (step i s a) = lateSum i s := by
        rw [lateSum_step i hwf s a ha hdep]; simp [show ¬ (i.pd ≤ a) by omega]
      exact
        { mask := by rw [hmask', hbf]
          err := hr.err
          opened := hopened
          veh := ⟨fun h => (by cases h), fun _ => ⟨d, hvd⟩⟩
          onboard := by
            intro x
            show x ∈ a :: σ.onboard ↔ _
            rw [List.mem_cons, hr.onboard x, step_avail]
            by_cases hxa : x = a
            · subst hxa
              simp only [true_or, upd_same, true_iff]
              refine ⟨by omega, by omega, trivial, ?_⟩
              by_cases hh : i.h = 0
              · omega
              · rw [upd_other _ _ _ _ (by omega)]; exact hdel
            · have h1 : upd s.avail a false x = s.avail x := upd_other _ _ _ _ hxa
              by_cases hxh : x + i.h = a
              · constructor
                · rintro (h | ⟨h1', h2', _, _⟩)
                  · exact absurd h hxa
                  · omega
                · rintro ⟨h1', h2', _, _⟩; omega
              · have h2 : upd s.avail a false (x + i.h) = s.avail (x + i.h) := upd_other _ _ _ _ hxh
                simp [hxa, h1, h2]
          nodup := by
            show (a :: σ.onboard).Nodup
            refine List.nodup_cons.mpr ⟨?_, hr.nodup⟩
            intro h; have := ((hr.onboard a).mp h).2.2.1; rw [hav] at this; cases this
          carry := by
            show ((a :: σ.onboard).length : Int) = _
            rw [hcarry, ← hr.carry]; simp
          served := hserved
          pos := rfl
          homePos := fun h => by cases h
          lens0 := by
            show addLen σ.lens 0 (i.D σ.pos a) 0 = _
            rw [hl0, hr.pos]; simp [addLen, hr.lens0]
          lensD := hlensD
          clock := by
            show σ.clock + i.D σ.pos a = _
            rw [hl0, hr.pos, hr.clock]
          late := by rw [hlate]; exact hr.late
          arrive := harr
          zero := hzero' }
    · -- delivery
      have hpdle : i.pd ≤ a := by omega
      have hcarry : (step i s a).carry = s.carry - 1 := by
        rw [step_carry]
        have h1 : ¬ (i.K ≤ a ∧ a < i.pd) := by omega
        simp [h1, hpdle]
      have hpk : s.avail (a - i.h) = false := by
        have := hi.tdDel (a - i.h) (by omega) (by omega)
        have e : a - i.h + i.h = a := by omega
        rw [e, htd] at this
        simpa using this.symm
      have hon : (a - i.h) ∈ σ.onboard := by
        apply (hr.onboard (a - i.h)).mpr
        have e : a - i.h + i.h = a := by omega
        exact ⟨by omega, by omega, hpk, by rw [e]; exact hav⟩
      rw [sim_delivery i hwf σ a d hr.err (by omega) ha hvd hns hon]
      have hlate : lateSum i (step i s a) = lateSum i s + (s.len 0 + i.D s.cur a) := by
        rw [lateSum_step i hwf s a ha hdep, if_pos hpdle, hl0, hr.arrive a (by omega) hav]; omega
      exact
        { mask := by rw [hmask', hbf]
          err := hr.err
          opened := hopened
          veh := ⟨fun h => (by cases h), fun _ => ⟨d, hvd⟩⟩
          onboard := by
            intro x
            show x ∈ σ.onboard.erase (a - i.h) ↔ _
            rw [hr.nodup.mem_erase_iff, hr.onboard x, step_avail]
            constructor
            · rintro ⟨hne, h1, h2, h3, h4⟩
              refine ⟨h1, h2, by rw [upd_other _ _ _ _ (by omega)]; exact h3, ?_⟩
              rw [upd_other _ _ _ _ (by omega)]; exact h4
            · rintro ⟨h1, h2, h3, h4⟩
              rw [upd_other _ _ _ _ (by omega)] at h3
              have hne : x + i.h ≠ a := by
                intro h; rw [h, upd_same] at h4; cases h4
              rw [upd_other _ _ _ _ hne] at h4
              exact ⟨by omega, h1, h2, h3, h4⟩
          nodup := hr.nodup.erase _
          carry := by
            show ((σ.onboard.erase (a - i.h)).length : Int) = _
            rw [List.length_erase_of_mem hon, hcarry, ← hr.carry]
            have : 0 < σ.onboard.length := List.length_pos_of_mem hon
            omega
          served := hserved
          pos := rfl
          homePos := fun h => by cases h
          lens0 := by
            show addLen σ.lens 0 (i.D σ.pos a) 0 = _
            rw [hl0, hr.pos]; simp [addLen, hr.lens0]
          lensD := hlensD
          clock := by
            show σ.clock + i.D σ.pos a = _
            rw [hl0, hr.pos, hr.clock]
          late := by
            show σ.late + (σ.clock + i.D σ.pos a) = _
            rw [hlate, hr.late, hr.clock, hr.pos]
          arrive := harr
          zero := hzero' }

/-! ### the refinement along a run -/

theorem sum_map_zero (n : Nat) : ((List.range n).map (fun _ => (0 : Int))).sum = 0 := by
  induction n with
  | zero => rfl
  | succ n ih => rw [List.range_succ, List.map_append, List.sum_append, ih]; rfl

theorem rel_first (i : Inst) (hwf : WF i) :
    Rel i false (step i (reset i) 0) (simStep (problemOf i) v0 {} 0) := by
  have hev := hwf.even
  have hk := hwf.kpos
  have hm : (reset i).mask 0 = true := by simp [reset]
  have hi' := inv_step hwf (inv_reset i hwf) (by omega : 0 < i.N) hm
  have hdep : (step i (reset i) 0).depot = 0 := hi'.dep0
  have hbf : backFlag i (reset i) 0 = false := by simp [backFlag_eq, reset]
  rw [sim_open i hwf {} 0 rfl (by omega) (by simp) rfl]
  have hlen := len_step i (reset i) 0 hdep
  have hl : ∀ d, (step i (reset i) 0).len d = 0 := by
    intro d
    rw [hlen]
    have h2 : (0 : Nat) < i.K ∧ (reset i).cur < i.K := ⟨by omega, by simp [reset]; omega⟩
    have h1 : ¬ (i.K ≤ (reset i).cur) := by simp [reset]; omega
    simp only [upd_apply]; split <;> simp [h1, h2, reset]
  have hK1 : ¬ (i.K ≤ 0 ∧ 0 < i.pd) := by omega
  have hK2 : ¬ (i.pd ≤ 0) := by have : i.pd = i.h + i.K := rfl; omega
  exact
    { mask := by rw [step_mask, hdep, hbf]
      err := rfl
      opened := by
        intro d hd
        simp only [List.mem_singleton, step_avail, upd_apply]
        by_cases hd0 : d = 0 <;> simp [hd0, reset]
      veh := ⟨fun h => (by cases h), fun _ => ⟨0, rfl⟩⟩
      onboard := by
        intro x
        simp only [List.not_mem_nil, false_iff, step_avail]
        rintro ⟨h1, _, h3, _⟩
        rw [upd_other _ _ _ _ (by omega)] at h3
        simp [reset] at h3
      nodup := List.nodup_nil
      carry := by rw [step_carry]; simp [hK2, reset]; omega
      served := by
        intro x
        simp only [List.not_mem_nil, false_iff, step_avail]
        rintro ⟨h1, _, h3⟩
        rw [upd_other _ _ _ _ (by omega)] at h3
        simp [reset] at h3
      pos := rfl
      homePos := fun h => (by cases h)
      lens0 := (hl 0).symm
      lensD := fun d _ => ⟨rfl, hl d⟩
      clock := (hl 0).symm
      late := by
        rw [lateSum_step i hwf (reset i) 0 (by omega) hdep]
        simp only [hK2, if_false, Int.add_zero, lateSum, reset]
        exact (sum_map_zero _).symm
      arrive := by
        intro x hx _
        rw [arrive_step i (reset i) 0 hdep, upd_other _ _ _ _ (by omega)]; rfl
      zero := by simp [step_avail] }

/-- **Refinement.**  Along every mask-confined run the Spec simulation under `v0` carries the same
bookkeeping as the environment and never fails. -/
theorem sim_refines (i : Inst) (hwf : WF i) {as : List Nat} {s : State}
    (h : Run env i (env.reset i) as s) :
    Inv i s ∧ (as ≠ [] → ∃ b, Rel i b s (simOf i v0 as)) := by
  have := Rl4co.inv_of_run (e := env) (i := i)
    (Inv := fun s hist => Inv i s ∧ (hist = [] → s = reset i) ∧ (hist ≠ [] → ∃ b, Rel i b s (simOf i v0 hist)))
    ⟨inv_reset i hwf, fun _ => rfl, fun h => absurd rfl h⟩ ?_ h
  · exact ⟨this.1, this.2.2⟩
  intro s hist a hh ha hm
  obtain ⟨hi, hreset, hrel⟩ := hh
  have ha' : a < i.N := ha
  have hm' : s.mask a = true := hm
  refine ⟨inv_step hwf hi ha' hm', fun h => by simp at h, fun _ => ?_⟩
  rw [simOf_snoc]
  by_cases hne : hist = []
  · -- the first step: from the reset state only node 0 is offered
    have hs := hreset hne
    subst hne hs
    have ha0 : a = 0 := by simpa [reset] using hm'
    subst ha0
    exact ⟨false, rel_first i hwf⟩
  · obtain ⟨b, hr⟩ := hrel hne
    exact ⟨backFlag i s a, rel_step i hwf hi hr ha' hm'⟩

/-! ### finished episodes under `v0` -/

theorem maxList1_eq (l : List Int) : Rl4co.Mdcpdp.maxList1 l = Rl4co.Spec.Mdcpdp.maxList1 l := by
  induction l with
  | nil => rfl
  | cons x xs ih =>
    cases xs with
    | nil => rfl
    | cons y ys => simp only [Rl4co.Mdcpdp.maxList1, Rl4co.Spec.Mdcpdp.maxList1, ih]

/-- the end-of-list checks pass in a finished state, and change nothing under `v0` -/
theorem simEnd_of_done (i : Inst) (hwf : WF i) {b : Bool} {s : State} {σ : Sim} (hi : Inv i s)
    (hr : Rel i b s σ) (hd : s.done = true) : simEnd (problemOf i) v0 σ = σ := by
  have hev := hwf.even
  have hall := avail_of_done hi hd
  have hon : σ.onboard = [] := by
    apply List.eq_nil_iff_forall_not_mem.mpr
    intro x hx
    have := (hr.onboard x).mp hx
    have h2 := hall (x + i.h) (by omega)
    rw [this.2.2.2] at h2; cases h2
  have hserved : (List.range (2 * (problemOf i).h)).all (fun k => decide ((problemOf i).K + k ∈ σ.served)) = true := by
    simp only [List.all_eq_true, List.mem_range, decide_eq_true_eq]
    intro k hk
    have hk' : k < 2 * i.h := hk
    exact (hr.served (i.K + k)).mpr ⟨by omega, by omega, hall (i.K + k) (by omega)⟩
  simp only [simEnd, hr.err, ne_eq, not_true_eq_false, if_false, hon, hserved, Bool.not_true,
    Bool.false_eq_true, v0, Bool.false_and]
  cases σ.veh <;> rfl

/-- **Finished episodes are exactly `v0`-feasible**: the code deviates from the problem statement by
the four clauses of `v0` only. -/
theorem verdict_v0_of_run (i : Inst) (hwf : WF i) {as : List Nat} {s : State}
    (h : Run env i (env.reset i) as s) (hd : env.done i s = true) :
    verdict (problemOf i) v0 as = 0 := by
  obtain ⟨hi, hrel⟩ := sim_refines i hwf h
  have hne : as ≠ [] := by
    intro he; subst he
    cases h; simp [env, reset] at hd
  obtain ⟨b, hr⟩ := hrel hne
  have : sim (problemOf i) v0 as = simOf i v0 as := simEnd_of_done i hwf hi hr hd
  simp only [verdict, this, hr.err]

/-- **All three rewards are minus the `v0` objectives** (every finished mask-confined run, open or
close mode, any number of depots). -/
theorem reward_eq_obj_v0 (m : Mode) (i : Inst) (hwf : WF i) {as : List Nat} {s : State}
    (h : Run env i (env.reset i) as s) (hd : env.done i s = true) :
    reward m i s = - objOf (modeIdx m) (problemOf i) v0 as := by
  obtain ⟨hi, hrel⟩ := sim_refines i hwf h
  have hne : as ≠ [] := by
    intro he; subst he
    cases h; simp [env, reset] at hd
  obtain ⟨b, hr⟩ := hrel hne
  have hsim : sim (problemOf i) v0 as = simOf i v0 as := simEnd_of_done i hwf hi hr hd
  have hlens : perDepot (problemOf i) v0 as = lens i s := by
    simp only [perDepot, hsim, lens, hwf.kg]
    apply List.map_congr_left
    intro d _
    by_cases hd0 : d = 0
    · subst hd0; exact hr.lens0
    · have := hr.lensD d hd0; rw [this.1, this.2]
  cases m with
  | minmax => simp only [reward, objOf, modeIdx, objMinmax, hlens, maxList1_eq, if_true]
  | minsum => simp [reward, objOf, modeIdx, objMinsum, hlens]
  | lateness =>
    simp only [reward, objOf, modeIdx, objLateness, objMinsum, hlens, hsim, hr.late]
    simp [problemOf]

/-! ### a single depot: the four clauses are vacuous -/

/-- side conditions under which the default Spec and `v0` take the same step when there is one depot -/
structure One (σ : Sim) : Prop where
  veh    : σ.veh = none ∨ σ.veh = some 0
  opened : σ.veh = some 0 → 0 ∈ σ.opened
  clock  : 0 ∉ σ.opened → σ.clock = 0

theorem fail_one {σ : Sim} (h : One σ) (e : Nat) : One (σ.fail e) := by
  unfold Sim.fail; split
  · exact ⟨h.veh, h.opened, h.clock⟩
  · exact h

theorem simStep_single (p : Problem) (hK : p.K = 1) (σ : Sim) (a : Nat) (h : One σ) :
    simStep p {} σ a = simStep p v0 σ a ∧ One (simStep p v0 σ a) := by
  by_cases hne : ¬ σ.err = 0
  · have e1 : simStep p {} σ a = σ := by simp [simStep, hne]
    have e2 : simStep p v0 σ a = σ := by simp [simStep, hne]
    rw [e1, e2]; exact ⟨rfl, h⟩
  have he : σ.err = 0 := Decidable.not_not.mp hne
  by_cases hN : a ≥ p.N
  · have e1 : simStep p {} σ a = σ.fail 1 := by simp [simStep, he, hN]
    have e2 : simStep p v0 σ a = σ.fail 1 := by simp [simStep, he, hN]
    rw [e1, e2]; exact ⟨rfl, fail_one h 1⟩
  by_cases haK : a < p.K
  · have ha0 : a = 0 := by omega
    subst ha0
    by_cases hop : 0 ∈ σ.opened
    · rcases h.veh with hv | hv
      · have e1 : simStep p {} σ 0 = (if 0 = σ.pos then σ else σ.fail 2) := by simp [simStep, he, hN, haK, hop, hv]
        have e2 : simStep p v0 σ 0 = (if 0 = σ.pos then σ else σ.fail 2) := by simp [simStep, he, hN, haK, hop, hv]
        rw [e1, e2]; refine ⟨rfl, ?_⟩
        split
        · exact h
        · exact fail_one h 2
      · by_cases hon : σ.onboard = []
        · have e2 : simStep p v0 σ 0 =
              { σ with veh := none, pos := 0,
                       clock := σ.clock + (if p.openMode then 0 else if σ.pos < p.K then 0 else p.D σ.pos 0),
                       lens := addLen σ.lens 0 (if p.openMode then 0 else if σ.pos < p.K then 0 else p.D σ.pos 0) } := by
            simp [simStep, he, hN, haK, hop, hv, hon, v0]
          have e1 : simStep p {} σ 0 = simStep p v0 σ 0 := by
            rw [e2]; simp [simStep, he, hN, haK, hop, hv, hon]
          rw [e1, e2]
          exact ⟨rfl, ⟨Or.inl rfl, fun hh => (by cases hh), fun hno => absurd hop hno⟩⟩
        · have e1 : simStep p {} σ 0 = σ.fail 6 := by simp [simStep, he, hN, haK, hop, hv, hon]
          have e2 : simStep p v0 σ 0 = σ.fail 6 := by simp [simStep, he, hN, haK, hop, hv, hon]
          rw [e1, e2]; exact ⟨rfl, fail_one h 6⟩
    · rcases h.veh with hv | hv
      · have hc := h.clock hop
        have e2 : simStep p v0 σ 0 = { σ with opened := 0 :: σ.opened, veh := some 0, pos := 0 } := by
          simp [simStep, he, hN, haK, hop, hv, v0]
        have e1 : simStep p {} σ 0 = simStep p v0 σ 0 := by
          rw [e2]; simp [simStep, he, hN, haK, hop, hv]
          cases σ; simp_all
        rw [e1, e2]
        exact ⟨rfl, ⟨Or.inr rfl, fun _ => by simp, fun hno => absurd (by simp) hno⟩⟩
      · exact absurd (h.opened hv) hop
  · rcases h.veh with hv | hv
    · have e1 : simStep p {} σ a = σ.fail 2 := by simp [simStep, he, hN, haK, hv]
      have e2 : simStep p v0 σ a = σ.fail 2 := by simp [simStep, he, hN, haK, hv]
      rw [e1, e2]; exact ⟨rfl, fail_one h 2⟩
    · have hop : 0 ∈ σ.opened := h.opened hv
      by_cases hs : a ∈ σ.served
      · have e1 : simStep p {} σ a = σ.fail 3 := by simp [simStep, he, hN, haK, hv, hs]
        have e2 : simStep p v0 σ a = σ.fail 3 := by simp [simStep, he, hN, haK, hv, hs]
        rw [e1, e2]; exact ⟨rfl, fail_one h 3⟩
      · have e1 : simStep p {} σ a = simStep p v0 σ a := by simp [simStep, he, hN, haK, hv, hs, v0]
        refine ⟨e1, ?_⟩
        by_cases hp : a < p.K + p.h
        · by_cases hc : (σ.onboard.length : Int) + 1 > p.cap 0
          · have e2 : simStep p v0 σ a = σ.fail 4 := by simp [simStep, he, hN, haK, hv, hs, hp, hc, v0]
            rw [e2]; exact fail_one h 4
          · have e2 : (simStep p v0 σ a).veh = some 0 ∧ (simStep p v0 σ a).opened = σ.opened := by
              simp [simStep, he, hN, haK, hv, hs, hp, hc, v0]
            exact ⟨Or.inr e2.1, fun _ => by rw [e2.2]; exact hop, fun hno => by rw [e2.2] at hno; exact absurd hop hno⟩
        · by_cases hc : (a - p.h) ∈ σ.onboard
          · have e2 : (simStep p v0 σ a).veh = some 0 ∧ (simStep p v0 σ a).opened = σ.opened := by
              simp [simStep, he, hN, haK, hv, hs, hp, hc, v0]
            exact ⟨Or.inr e2.1, fun _ => by rw [e2.2]; exact hop, fun hno => by rw [e2.2] at hno; exact absurd hop hno⟩
          · have e2 : simStep p v0 σ a = σ.fail 5 := by simp [simStep, he, hN, haK, hv, hs, hp, hc, v0]
            rw [e2]; exact fail_one h 5

theorem foldl_single (p : Problem) (hK : p.K = 1) (hist : List Nat) : ∀ σ, One σ →
    hist.foldl (simStep p {}) σ = hist.foldl (simStep p v0) σ ∧ One (hist.foldl (simStep p v0) σ) := by
  induction hist with
  | nil => intro σ h; exact ⟨rfl, h⟩
  | cons a hist ih =>
    intro σ h
    obtain ⟨e, h'⟩ := simStep_single p hK σ a h
    simp only [List.foldl_cons, e]
    exact ih _ h'

theorem simOf_single (i : Inst) (hK : i.K = 1) (hist : List Nat) :
    simOf i {} hist = simOf i v0 hist ∧ One (simOf i v0 hist) :=
  foldl_single (problemOf i) hK hist {} ⟨Or.inl rfl, fun h => (by cases h), fun _ => rfl⟩

/-- the end-of-list checks of ANY variant pass in a state that passes those of `v0` -/
theorem simEnd_err_zero (p : Problem) (v : Variant) (σ : Sim) (he : σ.err = 0) (hon : σ.onboard = [])
    (hs : (List.range (2 * p.h)).all (fun k => decide (p.K + k ∈ σ.served)) = true) :
    (simEnd p v σ).err = 0 := by
  simp only [simEnd, he, ne_eq, not_true_eq_false, if_false, hon, hs, Bool.not_true, Bool.false_eq_true]
  cases σ.veh with
  | none => exact he
  | some d =>
    simp only
    split
    · rfl
    · exact he

/-- **C01 (MDCPDP), single depot: the full problem statement holds.** -/
theorem feasible_of_run_single_depot (i : Inst) (hwf : WF i) (hK : i.K = 1) {as : List Nat} {s : State}
    (h : Run env i (env.reset i) as s) (hd : env.done i s = true) : Feasible (problemOf i) as := by
  have hev := hwf.even
  obtain ⟨hi, hrel⟩ := sim_refines i hwf h
  have hne : as ≠ [] := by
    intro he; subst he
    cases h; simp [env, reset] at hd
  obtain ⟨b, hr⟩ := hrel hne
  have hall := avail_of_done hi hd
  have hon : (simOf i v0 as).onboard = [] := by
    apply List.eq_nil_iff_forall_not_mem.mpr
    intro x hx
    have := (hr.onboard x).mp hx
    have h2 := hall (x + i.h) (by omega)
    rw [this.2.2.2] at h2; cases h2
  have hserved : (List.range (2 * (problemOf i).h)).all (fun k => decide ((problemOf i).K + k ∈ (simOf i v0 as).served)) = true := by
    simp only [List.all_eq_true, List.mem_range, decide_eq_true_eq]
    intro k hk
    have hk' : k < 2 * i.h := hk
    exact (hr.served (i.K + k)).mpr ⟨by omega, by omega, hall (i.K + k) (by omega)⟩
  have e : simOf i {} as = simOf i v0 as := (simOf_single i hK as).1
  have := simEnd_err_zero (problemOf i) {} (simOf i v0 as) hr.err hon hserved
  simp only [Feasible, feasible, verdict, sim, beq_iff_eq]
  show (simEnd (problemOf i) {} (simOf i {} as)).err = 0
  rw [e]; exact this

/-- **C03 (MDCPDP), single depot, open mode: reward = −objective of the problem as stated, for minmax,
minsum and lateness.** -/
theorem reward_eq_objective_single_open (m : Mode) (i : Inst) (hwf : WF i) (hK : i.K = 1)
    (hopen : i.openMode = true) {as : List Nat} {s : State}
    (h : Run env i (env.reset i) as s) (hd : env.done i s = true) :
    reward m i s = - objOf (modeIdx m) (problemOf i) {} as := by
  rw [reward_eq_obj_v0 m i hwf h hd]
  have e : as.foldl (simStep (problemOf i) {}) {} = as.foldl (simStep (problemOf i) v0) {} :=
    (simOf_single i hK as).1
  have hend : ∀ σ : Sim, simEnd (problemOf i) {} σ = simEnd (problemOf i) v0 σ := by
    intro σ
    have ho : (problemOf i).openMode = true := hopen
    simp [simEnd, ho, v0]
  have hs : sim (problemOf i) {} as = sim (problemOf i) v0 as := by
    simp only [sim, e, hend]
  simp only [objOf, objMinmax, objMinsum, objLateness, perDepot, hs]

/-- Non-vacuity: a single-depot open-mode instance with a finished run. -/
def exOne : Inst :=
  { N := 5, K := 1, split0 := 3, KG := 1, cap := fun _ => 1, D := fun a b => if a = b then 0 else 1,
    openMode := true, wNum := 1, wDen := 2 }
example : WF exOne := ⟨by decide, by decide, by decide, by decide, by decide, by decide⟩
example : Run env exOne (env.reset exOne) [0, 1, 3, 2, 4] (exec env exOne (env.reset exOne) [0, 1, 3, 2, 4]) ∧
    env.done exOne (exec env exOne (env.reset exOne) [0, 1, 3, 2, 4]) = true :=
  ⟨(run_iff_admitted _ _ _ _ _).2 ⟨by decide, rfl⟩, by decide⟩

end Rl4co.Mdcpdp
