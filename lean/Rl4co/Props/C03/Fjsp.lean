/-
C03 for FJSP / JSSP: the reward (`-finish_times.masked_fill(pad_mask, -inf).max(1)`) is minus the
makespan of the recorded schedule, i.e. minus the latest completion time over the operations of the
jobs (Spec: decided by the job ranges, not by `pad_mask`), in every state of every well-formed
instance; together with C07 (`Props/C07/Fjsp.lean`: the recorded schedule of a finished episode is a
valid schedule of the instance, built by the executed actions) this is "reward = −makespan of the
executed solution".
-/
import Rl4co.Proofs.Fjsp

namespace Rl4co.Fjsp
open Rl4co.Spec.Fjsp (isReal opOf Sched ValidSchedule)

/-- the schedule recorded in a state -/
def schedOf (s : State) : Sched := ⟨s.start, s.finish, s.assign⟩

/-! ### `maxOver` -/

theorem maxOver_none {n : Nat} {keep : Nat → Bool} {f : Nat → Int} :
    maxOver n keep f = none ↔ ∀ o, o < n → keep o = false := by
  induction n with
  | zero => simp [maxOver]
  | succ n ih =>
    simp only [maxOver]
    cases hk : keep n with
    | true =>
      simp only [if_true]
      constructor
      · intro h; simp at h
      · intro h; have := h n (by omega); simp [hk] at this
    | false =>
      simp only [Bool.false_eq_true, if_false, ih]
      constructor
      · intro h o ho
        by_cases hon : o = n
        · subst hon; exact hk
        · exact h o (by omega)
      · intro h o ho; exact h o (by omega)

theorem maxOver_some {n : Nat} {keep : Nat → Bool} {f : Nat → Int} {x : Int}
    (h : maxOver n keep f = some x) :
    (∀ o, o < n → keep o = true → f o ≤ x) ∧ ∃ o, o < n ∧ keep o = true ∧ f o = x := by
  induction n generalizing x with
  | zero => simp [maxOver] at h
  | succ n ih =>
    simp only [maxOver] at h
    cases hk : keep n with
    | true =>
      simp only [hk, if_true] at h
      cases hr : maxOver n keep f with
      | none =>
        rw [hr] at h; simp at h; subst h
        have hn := maxOver_none.mp hr
        refine ⟨fun o ho hko => ?_, n, by omega, hk, rfl⟩
        by_cases hon : o = n
        · subst hon; omega
        · have := hn o (by omega); simp [hko] at this
      | some y =>
        rw [hr] at h; simp at h
        obtain ⟨h1, o0, ho0, hk0, hf0⟩ := ih hr
        by_cases hle : f n ≤ y
        · simp [hle] at h; subst h
          refine ⟨fun o ho hko => ?_, o0, by omega, hk0, hf0⟩
          by_cases hon : o = n
          · subst hon; exact hle
          · exact h1 o (by omega) hko
        · simp [hle] at h; subst h
          refine ⟨fun o ho hko => ?_, n, by omega, hk, rfl⟩
          by_cases hon : o = n
          · subst hon; omega
          · have := h1 o (by omega) hko; omega
    | false =>
      simp only [hk, Bool.false_eq_true, if_false] at h
      obtain ⟨h1, o0, ho0, hk0, hf0⟩ := ih h
      refine ⟨fun o ho hko => ?_, o0, by omega, hk0, hf0⟩
      by_cases hon : o = n
      · subst hon; simp [hk] at hko
      · exact h1 o (by omega) hko

theorem maxOver_congr {n : Nat} {keep keep' : Nat → Bool} {f : Nat → Int}
    (h : ∀ o, o < n → keep o = keep' o) : maxOver n keep f = maxOver n keep' f := by
  induction n with
  | zero => rfl
  | succ n ih =>
    simp only [maxOver]
    rw [ih (fun o ho => h o (by omega)), h n (by omega)]

/-! ### C03: the reward is minus the latest completion time of a real operation -/

/-- **C03 (FJSP/JSSP)**: `_get_reward` (maximum of `finish_times` over the non-padded columns) is minus
the Spec makespan (maximum over the operations of the jobs), in every state. -/
theorem reward_eq_makespan (i : Inst) (hwf : WF i) (s : State) :
    reward i s = - Spec.Fjsp.makespan i (schedOf s) := by
  rw [reward_eq]
  unfold Spec.Fjsp.makespan schedOf
  have : maxOver i.N (fun o => !i.pad o) s.finish = maxOver i.N (isReal i) s.finish := by
    apply maxOver_congr
    intro o ho
    have := hwf.padIff o ho
    cases hp : i.pad o <;> cases hr : isReal i o <;> simp_all
  rw [this]
  cases maxOver i.N (isReal i) s.finish <;> simp

/-- a well-formed instance has a real operation, so the maximum exists -/
theorem exists_real {i : Inst} (hwf : WF i) : ∃ o, o < i.N ∧ isReal i o = true := by
  have hr := hwf.rng 0 hwf.jpos
  exact ⟨i.startOp 0, by omega, anyUpTo_iff.mpr ⟨0, hwf.jpos, by simp [opOf, hr.1]⟩⟩

theorem makespan_spec {i : Inst} (hwf : WF i) (σ : Sched) :
    (∀ o, o < i.N → isReal i o = true → σ.finish o ≤ Spec.Fjsp.makespan i σ) ∧
    ∃ o, o < i.N ∧ isReal i o = true ∧ σ.finish o = Spec.Fjsp.makespan i σ := by
  unfold Spec.Fjsp.makespan
  cases h : maxOver i.N (isReal i) σ.finish with
  | none =>
    obtain ⟨o, ho, hr⟩ := exists_real hwf
    have := maxOver_none.mp h o ho; simp [hr] at this
  | some x => exact maxOver_some h

/-- **C03, spelled out**: minus the reward bounds every real operation's completion time and is
attained by one of them. -/
theorem neg_reward_is_latest_completion (i : Inst) (hwf : WF i) (s : State) :
    (∀ o, o < i.N → isReal i o = true → s.finish o ≤ - reward i s) ∧
    ∃ o, o < i.N ∧ isReal i o = true ∧ s.finish o = - reward i s := by
  rw [reward_eq_makespan i hwf s, Int.neg_neg]
  exact makespan_spec hwf (schedOf s)

/-- non-vacuity / sanity on the concrete instance `exFjsp` (padded column 4 holds `INIT_FINISH`) -/
example :
    let s := exec env exFjsp (env.reset exFjsp) [1, 4, 0, 1, 4, 0]
    reward exFjsp s = -6 ∧ Spec.Fjsp.makespan exFjsp (schedOf s) = 6 ∧ s.finish 4 = 9999 := by decide

end Rl4co.Fjsp

namespace Rl4co.Jssp
open Rl4co.Fjsp

theorem reward_eq_makespan (i : Inst) (_ : i.jssp = true) (hwf : WF i) (s : State) :
    reward i s = - Spec.Fjsp.makespan i (schedOf s) := Fjsp.reward_eq_makespan i hwf s

end Rl4co.Jssp
