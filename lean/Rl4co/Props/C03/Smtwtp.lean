/-
C03 for SMTWTP: the reward computed by gather / `cumsum` / clamp / multiply / sum is minus the total
weighted tardiness Σ_a w_a · max(0, C_a − d_a) of the executed job order (C_a = completion time of
job `a` when the jobs are processed back to back from time 0), for EVERY action list and all data.
-/
import Rl4co.Proofs.TspfamAvail
import Rl4co.Env.Smtwtp
import Rl4co.Proofs.TspfamParams
import Rl4co.Spec.Smtwtp

namespace Rl4co.Smtwtp

/-- the gather / cumsum / clamp / weight pipeline started at accumulated time `t` -/
theorem pipeline_eq (i : Inst) (t : Int) (as : List Nat) :
    (List.zipWith (fun w x => w * x) (as.map i.w)
      ((List.zipWith (fun c d => c - d) (cumsum t (as.map i.p)) (as.map i.d)).map
        (fun x => if x < 0 then 0 else x))).sum = Spec.Smtwtp.wtFrom i.p i.d i.w t as := by
  induction as generalizing t with
  | nil => simp [cumsum, Spec.Smtwtp.wtFrom]
  | cons a as ih =>
    simp only [List.map_cons, cumsum, List.zipWith_cons_cons, List.sum_cons, Spec.Smtwtp.wtFrom]
    rw [ih (t + i.p a)]
    have : (if t + i.p a - i.d a < 0 then (0 : Int) else t + i.p a - i.d a) = max 0 (t + i.p a - i.d a) := by
      split <;> omega
    rw [this]

/-- **C03 (SMTWTP).** -/
theorem reward_eq_objective (i : Inst) (as : List Nat) :
    reward i as = - Spec.Smtwtp.objective i.p i.d i.w as := by
  simp only [reward, weightedTardiness_eq, Spec.Smtwtp.objective]
  rw [pipeline_eq]

/-- jobs (p,d,w): 1:(2,2,1) 2:(3,4,2) 3:(1,9,3); order 2,1,3: C = 3,5,6; only job 1 is late, by 3. -/
example : reward ⟨3, fun j => [0, 2, 3, 1].getD j 0, fun j => [0, 2, 4, 9].getD j 0, fun j => [0, 1, 2, 3].getD j 0⟩
    [2, 1, 3] = -3 := by decide

end Rl4co.Smtwtp

/-! ### Spec-level sanity -/
namespace Rl4co.Spec.Smtwtp

/-- with non-negative weights the weighted tardiness is non-negative -/
theorem wtFrom_nonneg (p d w : Nat → Int) (hw : ∀ a, 0 ≤ w a) (t : Int) (as : List Nat) :
    0 ≤ wtFrom p d w t as := by
  induction as generalizing t with
  | nil => simp [wtFrom]
  | cons a as ih =>
    simp only [wtFrom]
    have h1 : 0 ≤ w a * max 0 (t + p a - d a) := Int.mul_nonneg (hw a) (by omega)
    have := ih (t + p a)
    omega

theorem objective_nonneg (p d w : Nat → Int) (hw : ∀ a, 0 ≤ w a) (as : List Nat) : 0 ≤ objective p d w as :=
  wtFrom_nonneg p d w hw 0 as

/-- a schedule in which no job is late costs nothing -/
theorem wtFrom_zero_of_on_time (p d w : Nat → Int) (hp : ∀ a, 0 ≤ p a) (t : Int) (as : List Nat)
    (hd : ∀ a ∈ as, t + (as.map p).sum ≤ d a) : wtFrom p d w t as = 0 := by
  induction as generalizing t with
  | nil => rfl
  | cons a as ih =>
    simp only [wtFrom]
    have hsum : 0 ≤ (as.map p).sum := by
      clear ih hd
      induction as with
      | nil => simp
      | cons b bs ihb => simp only [List.map_cons, List.sum_cons]; have := hp b; omega
    have ha := hd a (by simp)
    simp only [List.map_cons, List.sum_cons] at ha
    have hmax : max 0 (t + p a - d a) = 0 := by omega
    rw [hmax, Int.mul_zero, Int.zero_add]
    apply ih
    intro b hb
    have := hd b (by simp [hb])
    simp only [List.map_cons, List.sum_cons] at this
    omega

/-- a single job: `w · max(0, p − d)` -/
theorem objective_single (p d w : Nat → Int) (a : Nat) : objective p d w [a] = w a * max 0 (p a - d a) := by
  simp [objective, wtFrom]

/-- a schedule exists for every number of jobs -/
theorem feasible_range' (n : Nat) : Feasible n (List.range' 1 n) := by
  obtain ⟨h1, h2⟩ := (Rl4co.Tspfam.once_iff_perm n _).mpr (List.Perm.refl _)
  exact ⟨h1, h2⟩

end Rl4co.Spec.Smtwtp
