/-
C03 for PDP: the reward `-get_tour_length([depot] ++ locs[actions])` is minus the length of the closed
walk depot → customers in order → depot, for every action list that does not contain the depot
(`force_start_at_depot = False`), and for every action list `0 :: cs` with `cs` depot-free (forced
start; the code prepends the depot once more, which costs `D 0 0 = 0`).  Distances symmetric.
-/
import Rl4co.Spec.Tsp
import Rl4co.Env.Pdp
import Rl4co.Spec.Pdp

namespace Rl4co.Pdp

theorem zipWith_swap (D : Nat → Nat → Int) (hs : ∀ a b, D a b = D b a) (xs ys : List Nat) :
    List.zipWith (fun nxt c => D nxt c) ys xs = List.zipWith (fun a b => D a b) xs ys := by
  induction xs generalizing ys with
  | nil => cases ys <;> simp
  | cons x xs ih =>
    cases ys with
    | nil => simp
    | cons y ys => simp [ih, hs y x]

/-- the reward is minus the closed length of `depot :: actions`, for every action list -/
theorem reward_eq_closed (i : Inst) (hs : ∀ a b, i.D a b = i.D b a) (as : List Nat) :
    reward i as = - closedLen i.D (0 :: as) := by
  simp only [reward, ← rollLen_eq_closedLen, rollLen]
  rw [zipWith_swap i.D hs]

theorem filter_ne_zero_of_not_mem {cs : List Nat} (h0 : 0 ∉ cs) : cs.filter (fun a => a != 0) = cs := by
  apply List.filter_eq_self.mpr
  intro a ha
  have : a ≠ 0 := fun h => h0 (h ▸ ha)
  simpa using this

/-- **C03 (PDP, no forced start).** -/
theorem reward_eq_objective (i : Inst) (hs : ∀ a b, i.D a b = i.D b a) {cs : List Nat}
    (h0 : 0 ∉ cs) : reward i cs = - Spec.Pdp.objective i.D cs := by
  rw [reward_eq_closed i hs, Spec.Pdp.objective, filter_ne_zero_of_not_mem h0]

/-- **C03 (PDP, forced start).** -/
theorem reward_eq_objective_force (i : Inst) (hs : ∀ a b, i.D a b = i.D b a) (h00 : i.D 0 0 = 0)
    {cs : List Nat} (h0 : 0 ∉ cs) : reward i (0 :: cs) = - Spec.Pdp.objective i.D (0 :: cs) := by
  rw [reward_eq_closed i hs, Spec.Pdp.objective]
  have : (0 :: cs).filter (fun a => a != 0) = cs := by
    simp [filter_ne_zero_of_not_mem h0]
  rw [this]
  simp only [closedLen, List.cons_append, pathLen_cons_cons, h00]
  omega

/-- feasible customer sequences do not contain the depot -/
theorem zero_not_mem_of_feasible {h : Nat} {cs : List Nat} (hf : Spec.Pdp.Feasible h cs) : 0 ∉ cs := by
  intro hm; have := hf.range 0 hm; omega

example : reward ⟨1, false, fun a b => if a = b then 0 else (a + b : Int)⟩ [1, 2] = -(1 + 3 + 2) := by decide

end Rl4co.Pdp

namespace Rl4co.Spec.Pdp
/-- the PDP objective is the TSP objective of the closed walk `depot :: customers` -/
theorem objective_eq_tsp (D : Nat → Nat → Int) (cs : List Nat) (h0 : 0 ∉ cs) :
    objective D cs = Rl4co.Spec.Tsp.objective D (0 :: cs) := by
  have : cs.filter (fun a => a != 0) = cs := by
    apply List.filter_eq_self.mpr
    intro a ha
    have : a ≠ 0 := fun h => h0 (h ▸ ha)
    simpa using this
  simp only [objective, this, Rl4co.Spec.Tsp.objective]
end Rl4co.Spec.Pdp
