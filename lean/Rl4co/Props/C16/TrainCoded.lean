/-
C16 — translator tie.  The driver executes the "as coded" loss models of `Rl4co/Train/Coded.lean`, whose
decision-critical tokens come from the Python AST (`Rl4co.Generated.Params`, `harness/probes/train.py`):
`advantage = reward - bl_val`, the sign of `-(advantage * log_likelihood).mean()`, `+ bl_loss`, which of the critic's
value / target is detached and whether it is squeezed, `keepdims` of the shared baseline, PPO's `torch.min` of the
two PRODUCTS, the two-sided `clamp(ratio, 1 - eps, 1 + eps)`, Huber vs. MSE, the sign of the entropy bonus, the
detached value inside the advantage, and the factor tuples of `unbatchify` in POMO `(n_aug, n_start)` and SymNCO
`(n_start, n_aug)`.  The obligations `…C_eq` hold for the extracted tokens only; a one-token edit of any of them stops
this file from compiling.  The corollaries restate the C16 theorems for the as-coded definitions.
-/
import Rl4co.Train.Coded
import Rl4co.Props.C16.TrainReinforce
import Rl4co.Props.C16.TrainPpo
import Rl4co.Props.C16.TrainSymnco

namespace Rl4co.Train
open Rl4co.Spec.Train
variable {K : Type} [Field K]

/-! ### obligations (token-dependent) -/

theorem calcLossC_eq (sc : ScaleOp K) (R b ll : Ten (Dual K)) (bl : Dual K) :
    calcLossC sc R b ll bl = calcLoss sc R b ll bl := rfl

theorem sharedEvalC_eq (R : Ten (Dual K)) : sharedEvalC R = sharedEval R := rfl

theorem Critic.evalC_eq (o c : Ten (Dual K)) : Critic.evalC o c = Critic.eval o c := rfl

/-- A2C is REINFORCE with the critic baseline (`super().__init__(env, policy, baseline=CriticBaseline(critic))`) -/
theorem a2c_uses_critic_baseline : Params.trainA2cCriticBaseline = true := rfl

theorem symncoRegroupC_eq {α : Type} (S A n : Nat) (x : Nat → α) : symncoRegroupC S A n x = symncoRegroup S A n x := rfl

theorem symncoLossC_eq (S A n : Nat) (al be : K) (R ll : Nat → Dual K) (inv : Dual K) :
    symncoLossC S A n al be R ll inv = symncoLoss S A n al be R ll inv := by
  simp only [symncoLossC, symncoLoss, symncoRegroupC_eq, symTermC, Params.trainSymGuardPs, Params.trainSymGuardSs,
    Params.trainSymPsBodyTag, Params.trainSymSsBodyTag, Params.trainSymPsDim, Params.trainSymSsDimLast,
    Params.trainSymTotalTag, Cmp.evalNat, decide_eq_true_eq, gt_iff_lt, Bool.not_true, decide_true, if_true,
    Bool.false_eq_true, if_false]

/-- `A2C.configure_optimizers` as coded: group 0 is the policy with the actor's learning rate, group 1 the critic
baseline with its own learning rate, which defaults to the actor's when no critic options are given — every parameter
is optimised with exactly the learning rate configured for its network. -/
theorem A2C.groupsC_eq (actorLr : K) (criticLr : Option K) :
    A2C.groupsC actorLr criticLr = [(true, actorLr), (false, criticLr.getD actorLr)] := by
  cases criticLr <;> rfl

/-- `invariance_loss` as coded compares rows `b·A` and `b·A + i` of the projected embeddings -/
theorem invRowsC_eq (A B b i : Nat) : invRowsC A B b i = (b * A, b * A + i) := by
  simp [invRowsC, Params.trainSymInvBatchOuter]

section ord
variable [LinearOrder K]

theorem ppoLossC_eq (cfg : PpoCfg K) (w : K → K) (ll : Ten (Dual K)) (old R : Ten K) (vp ent : Ten (Dual K)) :
    ppoLossC cfg w ll old R vp ent = ppoLoss cfg w ll old R vp ent := by
  have hc : clampC cfg.clipLo cfg.clipHi = clampD cfg.clipLo cfg.clipHi := funext fun _ => rfl
  have hv : ∀ z : Dual K, valueElemC z = huberD z := fun _ => rfl
  unfold ppoLossC ppoLoss
  simp only [Params.trainPpoAdvTag, Params.trainPpoSurrTag, Params.trainPpoEntropyMinus, hc, hv]
  cases Ten.bop (fun a b => a - Dual.const b) ll.sumLast old with
  | none => rfl
  | some diff =>
    simp only
    cases Ten.bop (fun r v => r - v) R.viewCol (Ten.map (fun x => x.v) vp) with
    | none => rfl
    | some adv0 =>
      simp only
      cases Ten.bop (fun r a => Dual.smul a r) (Ten.map (Dual.expw w) diff).viewCol (Ten.map (ppoNormFn cfg.normalize adv0) adv0) <;>
      cases Ten.bop (fun r a => Dual.smul a r) (Ten.map (clampD cfg.clipLo cfg.clipHi) (Ten.map (Dual.expw w) diff).viewCol) (Ten.map (ppoNormFn cfg.normalize adv0) adv0) <;>
      simp <;> rfl

end ord

section rollout
variable {Inst : Type} [LinearOrder K]

/-- the decision of `RolloutBaseline.epoch_callback` as coded (`candidate_mean - mean > 0`, `p / 2 < bl_alpha`) is the
reference decision with the one-sided p-value -/
theorem RolloutBl.acceptsC_eq (pval2 : List K → List K → K) (alpha : K) (st : RolloutBl.St Inst K) (cv : List K) :
    RolloutBl.acceptsC pval2 alpha st cv = RolloutBl.accepts (fun c b => pval2 c b / ((2 : Nat) : K)) alpha st cv := rfl

theorem RolloutBl.epochCallbackC_eq (pval2 : List K → List K → K) (alpha : K) (bs : Nat) (st : RolloutBl.St Inst K)
    (cand : List Inst → List K) (fresh : List Inst) :
    RolloutBl.epochCallbackC pval2 alpha bs st cand fresh
      = RolloutBl.epochCallback (fun c b => pval2 c b / ((2 : Nat) : K)) alpha bs st cand fresh := rfl

end rollout

/-! ### POMO regrouping for general factors (validation / test: `n_aug > 0`) -/

/-- **POMO regroups correctly.**  For a flat batch laid out start-outer / augmentation-middle / instance-inner
(`k = (s·A + a)·B + b`), `unbatchify(x, (n_aug, n_start))` puts rollout (instance `b`, augmentation `a`, start `s`)
at `[b, a, s]` — each axis is semantic, in contrast with SymNCO's `(n_start, n_aug)` (`symnco_regroup_index`). -/
theorem pomo_regroup3_index {α : Type} (A S B : Nat) (hA : 0 < A) (hS : 0 < S) (x : Nat → α) (b a s : Nat) :
    let T := pomoRegroup3C A S (S * A * B) x
    T.nb = B ∧ T.ns = A ∧ T.na = S ∧ T.f b a s = x ((s * A + a) * B + b) := by
  have h1 : S * A * B / S = A * B := by
    rw [show S * A * B = S * (A * B) by ring]; exact Nat.mul_div_cancel_left _ hS
  have h2 : A * B / A = B := Nat.mul_div_cancel_left _ hA
  simp only [pomoRegroup3C, Params.trainPomoTupleAugStart, if_true, unbatch2, unbatch1, h1, h2, true_and]
  congr 1
  ring

/-! ### the C16 theorems for the as-coded definitions -/

theorem reinforce_vec_coded (sc : ScaleOp K) (n : Nat) (R b ll : Nat → Dual K) (bl : Dual K) :
    ∃ out, calcLossC sc (Ten.vec n R) (Ten.vec n b) (Ten.vec n ll) bl = some out ∧
      out.adv.sh = Shape.v n ∧
      out.loss.v = surrogate n (fun i => sc.applyK ((R i).v - (b i).v)) (fun i => (ll i).v) + bl.v ∧
      ((∀ i, i < n → (R i).d = 0 ∧ (b i).d = 0) →
        out.loss.d = surrogate n (fun i => sc.applyK ((R i).v - (b i).v)) (fun i => (ll i).d) + bl.d) := by
  simp only [calcLossC_eq]; exact reinforce_vec sc n R b ll bl

theorem reinforce_scalar_coded (sc : ScaleOp K) (n : Nat) (R ll : Nat → Dual K) (b bl : Dual K) :
    ∃ out, calcLossC sc (Ten.vec n R) (Ten.scalar b) (Ten.vec n ll) bl = some out ∧
      out.adv.sh = Shape.v n ∧
      out.loss.v = surrogate n (fun i => sc.applyK ((R i).v - b.v)) (fun i => (ll i).v) + bl.v ∧
      ((∀ i, i < n → (R i).d = 0) → b.d = 0 →
        out.loss.d = surrogate n (fun i => sc.applyK ((R i).v - b.v)) (fun i => (ll i).d) + bl.d) := by
  simp only [calcLossC_eq]; exact reinforce_scalar sc n R ll b bl

theorem reinforce_shared_coded (B S : Nat) (R ll : Nat → Nat → Dual K) :
    ∃ out, calcLossC ScaleOp.off (Ten.mat B S R) (sharedEvalC (Ten.mat B S R)).1 (Ten.mat B S ll)
        (sharedEvalC (Ten.mat B S R)).2 = some out ∧
      out.adv.sh = Shape.m B S ∧
      out.loss.v = sharedSurrogate B S (fun b s => (R b s).v) (fun b s => (ll b s).v) ∧
      ((∀ b s, b < B → s < S → (R b s).d = 0) →
        out.loss.d = sharedSurrogate B S (fun b s => (R b s).v) (fun b s => (ll b s).d)) := by
  simp only [calcLossC_eq, sharedEvalC_eq]; exact reinforce_shared B S R ll

theorem a2c_loss_coded (n : Nat) (R ll o : Nat → Dual K) (hR : ∀ i, i < n → (R i).d = 0) :
    ∃ val l out, Critic.evalC (Ten.mat n 1 (fun i _ => o i)) (Ten.vec n R) = some (val, l) ∧
      calcLossC ScaleOp.off (Ten.vec n R) val (Ten.vec n ll) l = some out ∧
      out.adv.sh = Shape.v n ∧
      out.loss.v = reinforce n (fun i => (R i).v) (fun i => (o i).v) (fun i => (ll i).v)
                      (mse n (fun i => (o i).v) (fun i => (R i).v)) ∧
      out.loss.d = reinforceGrad n (fun i => (R i).v) (fun i => (o i).v) (fun i => (ll i).d)
                      (mseGrad n (fun i => (o i).v) (fun i => (R i).v) (fun i => (o i).d)) := by
  simp only [calcLossC_eq, Critic.evalC_eq]; exact a2c_loss n R ll o hR

section ord2
variable [LinearOrder K] [IsStrictOrderedRing K]

theorem ppo_loss_coded (cfg : PpoCfg K) (w : K → K) (B T : Nat) (ll : Nat → Nat → Dual K) (old R : Nat → K)
    (vp ent : Nat → Dual K) :
    ∃ out, ppoLossC cfg w (Ten.mat B T ll) (Ten.vec B old) (Ten.vec B R) (Ten.mat B 1 (fun i _ => vp i)) (Ten.vec B ent)
        = some out ∧ out.ratio.sh = Shape.m B 1 ∧ out.adv.sh = Shape.m B 1 ∧
      out.loss.v = ppo B cfg.clipLo cfg.clipHi cfg.vfLambda cfg.entLambda
          (fun i => (ppoRatio w T ll old i).v) (ppoAdv cfg.normalize B R (fun i => (vp i).v))
          (fun i => (vp i).v) R (fun i => (ent i).v) ∧
      (cfg.clipLo ≤ cfg.clipHi →
        (∀ i, i < B → (ppoRatio w T ll old i).v ≠ cfg.clipLo ∧ (ppoRatio w T ll old i).v ≠ cfg.clipHi) →
        out.loss.d = ppoGrad B cfg.clipLo cfg.clipHi cfg.vfLambda cfg.entLambda
          (fun i => (ppoRatio w T ll old i).v) (ppoAdv cfg.normalize B R (fun i => (vp i).v))
          (fun i => (vp i).v) R (fun i => sumTo T (fun t => (ll i t).d)) (fun i => (vp i).d) (fun i => (ent i).d)) := by
  simp only [ppoLossC_eq]; exact ppo_loss cfg w B T ll old R vp ent

end ord2

/-- Non-vacuity of the regrouping statement: `A = 2, S = 3, B = 2`, entry `[1, 1, 2]` is flat index `(2·2+1)·2+1 = 11`. -/
example : (pomoRegroup3C 2 3 12 (fun k => k)).f 1 1 2 = 11 := by decide

end Rl4co.Train
