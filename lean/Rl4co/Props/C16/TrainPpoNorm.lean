/-
C16 — PPO `normalize_adv`: `adv = (adv − adv.mean()) / (adv.std() + 1e-8)`.  In the model `adv.std()` is an oracle value
`std` (checked by the harness against the model's unbiased variance).  Whatever the oracle, the normalised advantages
sum to zero over the mini-batch; and if `std` really is the root of the unbiased variance (and `eps = 0`) their sum of
squares is `B − 1` (unit sample variance).
-/
import Rl4co.Props.C16.TrainPpo

namespace Rl4co.Train
open Rl4co.Spec.Train
variable {K : Type} [Field K]

theorem ppoAdv_none (B : Nat) (R v : Nat → K) (i : Nat) : ppoAdv none B R v i = R i - v i := rfl

theorem ppoAdv_some (std eps : K) (B : Nat) (R v : Nat → K) (i : Nat) :
    ppoAdv (some (std, eps)) B R v i = ((R i - v i) - sumTo B (fun j => R j - v j) / (B : K)) / (std + eps) := by
  simp only [ppoAdv, ppoNormFn, Ten.sumAll, Ten.mat, Shape.rows, Shape.cols, Shape.numel, sumTo_one, Nat.mul_one]

/-- **normalised advantages sum to zero** over the mini-batch, for every value of the `std` oracle -/
theorem ppoAdv_norm_sum_zero [CharZero K] (std eps : K) (B : Nat) (hB : 0 < B) (R v : Nat → K) :
    sumTo B (ppoAdv (some (std, eps)) B R v) = 0 := by
  have hBK : (B : K) ≠ 0 := Nat.cast_ne_zero.mpr (by omega)
  have : ppoAdv (some (std, eps)) B R v
      = fun i => ((R i - v i) - sumTo B (fun j => R j - v j) / (B : K)) / (std + eps) := by
    funext i; exact ppoAdv_some std eps B R v i
  rw [this, sumTo_div, sumTo_sub', sumTo_const]
  field_simp
  ring

/-- **unit sample variance**: if `std² = Σ (a_i − ā)² / (B − 1)` (the unbiased variance `adv.std()` computes), `std ≠ 0`
and `eps = 0`, the normalised advantages have sum of squares `B − 1`. -/
theorem ppoAdv_norm_sumsq [CharZero K] (std : K) (B : Nat) (hB : 2 ≤ B) (R v : Nat → K) (hstd : std ≠ 0)
    (hvar : std * std = sumTo B (fun i => ((R i - v i) - sumTo B (fun j => R j - v j) / (B : K))
                                    * ((R i - v i) - sumTo B (fun j => R j - v j) / (B : K))) / ((B : K) - 1)) :
    sumTo B (fun i => ppoAdv (some (std, 0)) B R v i * ppoAdv (some (std, 0)) B R v i) = (B : K) - 1 := by
  have hB1 : (B : K) - 1 ≠ 0 := by
    have : ((B - 1 : Nat) : K) ≠ 0 := Nat.cast_ne_zero.mpr (by omega)
    rwa [Nat.cast_sub (by omega), Nat.cast_one] at this
  have : (fun i => ppoAdv (some (std, 0)) B R v i * ppoAdv (some (std, 0)) B R v i)
      = fun i => (((R i - v i) - sumTo B (fun j => R j - v j) / (B : K))
                  * ((R i - v i) - sumTo B (fun j => R j - v j) / (B : K))) / (std * std) := by
    funext i; rw [ppoAdv_some, add_zero]; field_simp
  rw [this, sumTo_div, hvar]
  have hpos : sumTo B (fun i => ((R i - v i) - sumTo B (fun j => R j - v j) / (B : K))
                                    * ((R i - v i) - sumTo B (fun j => R j - v j) / (B : K))) ≠ 0 := by
    intro h0; rw [h0, zero_div] at hvar; exact hstd (mul_self_eq_zero.mp hvar)
  rw [div_div_eq_mul_div, mul_div_cancel_left₀ _ hpos]

/-- Non-vacuity: advantages `1, 2, 6` (mean 3, unbiased variance 7): the normalised ones sum to 0. -/
example : sumTo 3 (ppoAdv (K := Rat) (some (2, 1)) 3 (fun i => [1, 2, 6].getD i 0) (fun _ => 0)) = 0 :=
  ppoAdv_norm_sum_zero 2 1 3 (by decide) _ _

end Rl4co.Train
