/-
C16 — PPO gradient at ALL points, kinks of the clipping included.  The sub-gradient convention is a parameter:
`clampG pass` passes (or not) the gradient at the clip bounds, `torch.min` splits evenly at ties.  The model the driver
runs (`clampD`) is `clampG false`, PyTorch's observed behaviour; `surrG_d` gives the per-sample derivative for either
convention and `ppo_loss_all` the mini-batch statement without any non-kink hypothesis.
-/
import Rl4co.Props.C16.TrainPpo

namespace Rl4co.Train
open Rl4co.Spec.Train
variable {K : Type} [Field K] [LinearOrder K] [IsStrictOrderedRing K]

/-- `torch.clamp` with the gradient convention at the bounds as a parameter -/
def clampG (pass : Bool) (lo hi : K) (x : Dual K) : Dual K :=
  if x.v < lo then Dual.const lo else if hi < x.v then Dual.const hi
  else if (lo < x.v ∧ x.v < hi) ∨ pass = true then x else Dual.const x.v

omit [IsStrictOrderedRing K] in
theorem clampD_eq_clampG (lo hi : K) (x : Dual K) : clampD lo hi x = clampG false lo hi x := by
  simp [clampD, clampG]

/-- **Per-sample derivative of `min(r·A, clamp(r)·A)` at every point**, for either convention. -/
theorem surrG_d (pass : Bool) (lo hi : K) (hlh : lo ≤ hi) (r : Dual K) (A : K) :
    (minD (Dual.smul A r) (Dual.smul A (clampG pass lo hi r))).d = ppoWeight pass lo hi r.v A * (A * r.d) := by
  have h2 : ((2 : Nat) : K) ≠ 0 := two_ne
  unfold minD clampG ppoWeight
  by_cases h1 : r.v < lo
  · have hn1 : ¬ (lo < r.v ∧ r.v < hi) := fun h => absurd h.1 (not_lt.mpr (le_of_lt h1))
    have hn2 : ¬ hi < r.v := fun h => absurd (lt_of_le_of_lt hlh h) (not_lt.mpr (le_of_lt h1))
    simp only [h1, hn1, hn2, if_true, if_false, Dual.smul_v, Dual.smul_d, Dual.const_v, Dual.const_d, mul_zero]
    rcases lt_trichotomy A 0 with hA | hA | hA
    · have : A * lo < A * r.v := mul_lt_mul_of_neg_left h1 hA
      simp [not_lt.mpr (le_of_lt this), this, not_lt.mpr (le_of_lt hA)]
    · simp [hA]
    · have : A * r.v < A * lo := mul_lt_mul_of_pos_left h1 hA
      simp [this, hA]
  · by_cases h3 : hi < r.v
    · have hn1 : ¬ (lo < r.v ∧ r.v < hi) := fun h => absurd h.2 (not_lt.mpr (le_of_lt h3))
      simp only [h1, h3, hn1, if_true, if_false, Dual.smul_v, Dual.smul_d, Dual.const_v, Dual.const_d, mul_zero]
      rcases lt_trichotomy A 0 with hA | hA | hA
      · have : A * r.v < A * hi := mul_lt_mul_of_neg_left h3 hA
        simp [this, hA]
      · simp [hA]
      · have : A * hi < A * r.v := mul_lt_mul_of_pos_left h3 hA
        simp [not_lt.mpr (le_of_lt this), this, not_lt.mpr (le_of_lt hA)]
    · simp only [if_neg h1, if_neg h3]
      by_cases h4 : lo < r.v ∧ r.v < hi
      · rw [if_pos (Or.inl h4)]
        simp only [Dual.smul_v, Dual.smul_d, if_pos h4, lt_irrefl, if_false]
        field_simp; ring
      · cases pass with
        | true =>
          rw [if_pos (Or.inr rfl)]
          simp only [Dual.smul_v, Dual.smul_d, if_neg h4, if_neg h3, if_neg h1, if_true, lt_irrefl, if_false]
          field_simp; ring
        | false =>
          have hc : (if (lo < r.v ∧ r.v < hi) ∨ false = true then r else Dual.const r.v) = Dual.const r.v := by
            simp [h4]
          rw [hc]
          simp only [Dual.smul_v, Dual.smul_d, if_neg h4, if_neg h3, if_neg h1, Bool.false_eq_true, if_false,
            Dual.const_v, Dual.const_d, lt_irrefl, mul_zero, add_zero]
          field_simp

/-- per-sample derivative for the convention the model (and PyTorch) uses -/
theorem surr_d_all (lo hi : K) (hlh : lo ≤ hi) (r : Dual K) (A : K) :
    (minD (Dual.smul A r) (Dual.smul A (clampD lo hi r))).d = ppoWeight false lo hi r.v A * (A * r.d) := by
  rw [clampD_eq_clampG]; exact surrG_d false lo hi hlh r A

/-- **C16 `ppo_grad` at ALL points.**  With ordered clip bounds and NO non-kink hypothesis, the directional derivative
of the PPO mini-batch loss is `−mean_i w_i·A_i·r_i·dΣ_t ll_it + vf·mean huber'(v−R)·dv − ent·mean dh`, where
`w_i ∈ {0, 1/2, 1}` is `ppoWeight false` (one half exactly when the ratio sits on a clip bound — PyTorch's convention:
`clamp` passes no gradient at its bounds, `min` splits a tie evenly). -/
theorem ppo_loss_all (cfg : PpoCfg K) (w : K → K) (B T : Nat) (ll : Nat → Nat → Dual K) (old R : Nat → K)
    (vp ent : Nat → Dual K) (hlh : cfg.clipLo ≤ cfg.clipHi) :
    ∃ out, ppoLoss cfg w (Ten.mat B T ll) (Ten.vec B old) (Ten.vec B R) (Ten.mat B 1 (fun i _ => vp i)) (Ten.vec B ent)
        = some out ∧
      out.loss.d = ppoGradAll false B cfg.clipLo cfg.clipHi cfg.vfLambda cfg.entLambda
          (fun i => (ppoRatio w T ll old i).v) (ppoAdv cfg.normalize B R (fun i => (vp i).v))
          (fun i => (vp i).v) R (fun i => sumTo T (fun t => (ll i t).d)) (fun i => (vp i).d) (fun i => (ent i).d) := by
  cases h : ppoLoss cfg w (Ten.mat B T ll) (Ten.vec B old) (Ten.vec B R) (Ten.mat B 1 (fun i _ => vp i)) (Ten.vec B ent) with
  | none =>
    simp [ppoLoss, Ten.bop, Ten.vec, Ten.mat, Ten.sumLast, Ten.viewCol, Ten.map, bshape_vv, bshape_mm, Shape.numel,
      Shape.rows, Shape.cols] at h
  | some out =>
    simp only [ppoLoss, Ten.bop, Ten.vec, Ten.mat, Ten.sumLast, Ten.viewCol, Ten.map, bshape_vv, bshape_mm, Shape.numel,
      Shape.rows, Shape.cols, Nat.one_mul, Option.some.injEq] at h
    subst h
    have hn : ppoNormFn cfg.normalize { sh := Shape.m B 1, f := fun i j => R (i % B % B) - (vp (i % B)).v }
        = ppoNormFn cfg.normalize (Ten.mat B 1 (fun i _ => R i - (vp i).v)) := by
      refine ppoNormFn_congr _ _ _ (by rfl) ?_
      simp only [Ten.sumAll, Ten.mat, Shape.rows, Shape.cols]
      apply sumTo_congr
      intro i hi
      simp [Nat.mod_eq_of_lt hi]
    refine ⟨_, rfl, ?_⟩
    simp only [Ten.meanAll, Ten.sumAll, Ten.get, Shape.rows, Shape.cols, Shape.numel, Nat.mul_one, Nat.one_mul,
      Dual.add_d, Dual.sub_d, Dual.neg_d, Dual.smul_d, Dual.divc_d, sumTo_d, sumTo_one, ppoGradAll]
    rw [hn]
    congr 1
    · congr 1
      · congr 2
        apply sumTo_congr
        intro i hi
        simp only [Nat.mod_eq_of_lt hi]
        have := surr_d_all cfg.clipLo cfg.clipHi hlh (ppoRatio w T ll old i)
          (ppoAdv cfg.normalize B R (fun i => (vp i).v) i)
        simp only [ppoRatio, ppoAdv] at this ⊢
        rw [this]
        simp only [Dual.expw_d, Dual.expw_v, Dual.sub_d, Dual.const_d, sub_zero, sumTo_d]
      · congr 2
        apply sumTo_congr
        intro i hi
        simp only [Nat.mod_eq_of_lt hi, huberD_d, Dual.sub_v, Dual.sub_d, Dual.const_v, Dual.const_d, sub_zero]

/-- Non-vacuity / the kink itself: ratio exactly on the upper bound `6/5` with advantage 1 and `d ratio = 3`:
PyTorch's convention gives half of `A·d ratio`, the other convention all of it. -/
example : (minD (Dual.smul (1 : Rat) ⟨6/5, 3⟩) (Dual.smul 1 (clampD (4/5) (6/5) ⟨6/5, 3⟩))).d = 3 / 2 ∧
    (minD (Dual.smul (1 : Rat) ⟨6/5, 3⟩) (Dual.smul 1 (clampG true (4/5) (6/5) ⟨6/5, 3⟩))).d = 3 := by
  constructor
  · rw [surr_d_all _ _ (by norm_num)]; simp [ppoWeight]; norm_num
  · rw [surrG_d true _ _ (by norm_num)]; simp [ppoWeight]

end Rl4co.Train
