/-
C16 — n-step PPO (`n_step_ppo.py`, improvement models DACT / N2S / NeuOpt).

* the rollout memory: the state an action is re-evaluated in (inner epochs k ≥ 1) is the state it was sampled in —
  `reeval_state`, through the obligation `rolloutMemC_eq` on the extracted token `memory.tds.append(td.clone())`; the form
  without `.clone()` is the recognised negative case: every stored state aliases the final one (`rolloutMem_alias`);
* the n-step returns: the backward recursion of the code satisfies `R_t = r_t + γ·R_{t+1}`, `R_n = V` (`returns_cons`,
  `returns_nil`) and has the closed form `Σ_{j≥t} γ^{j−t} r_j + γ^{n−t} V` (`returns_closed_form`);
* the loss of an inner epoch is the clipped surrogate plus `vf_lambda` × the (clipped) value loss (`nstep_value`).
-/
import Rl4co.Train.Coded
import Rl4co.Spec.Train
import Rl4co.Props.C16.TrainPpo

namespace Rl4co.Train.NStep
open Rl4co.Spec.Train

/-! ### memory -/

/-- obligation (token `memory.tds.append(td.clone())`): the memory holds the rollout states -/
theorem rolloutMemC_eq {S : Type} (states : List S) (final : S) : rolloutMemC states final = states := rfl

/-- **the state re-evaluated at inner epoch k, step t is the state the action was sampled in** -/
theorem reeval_state {S : Type} (states : List S) (final : S) (t : Nat) :
    (rolloutMemC states final)[t]? = states[t]? := by rw [rolloutMemC_eq]

/-- the recognised negative case: storing the live TensorDict makes every entry alias the final state -/
theorem rolloutMem_alias {S : Type} (states : List S) (final : S) :
    ∀ s ∈ rolloutMem false states final, s = final := by
  intro s hs
  simp only [rolloutMem, Bool.false_eq_true, if_false, List.mem_map] at hs
  obtain ⟨_, _, rfl⟩ := hs; rfl

/-- further purity tokens of the memory: actions, log-probs and rewards are stored as copies, and stored states are
re-evaluated on a copy (the policy may write into the TensorDict it is given) -/
theorem memory_copies :
    Params.trainNstepActionClone = true ∧ Params.trainNstepLogpClone = true ∧ Params.trainNstepRewardClone = true ∧
    Params.trainNstepReevalClone = true ∧ Params.trainNstepAdvTag = 0 ∧ Params.trainNstepRatioTag = 0 :=
  ⟨rfl, rfl, rfl, rfl, rfl, rfl⟩

/-! ### returns -/
section returns
variable {K : Type} [Field K]

theorem returnsRevC_eq (gamma R : K) (rs : List K) : returnsRevC gamma R rs = returnsRev gamma R rs := by
  induction rs generalizing R with
  | nil => rfl
  | cons r rs ih => simp only [returnsRevC, returnsRev, Params.trainNstepReturnTag, ih]

/-- obligation (token `R = R * gamma + reward_reversed[r]`) -/
theorem returnsC_eq (gamma V : K) (rs : List K) : returnsC gamma V rs = returns gamma V rs := by
  simp only [returnsC, returns, returnsRevC_eq]

theorem returnsRev_append (gamma R : K) (xs ys : List K) :
    returnsRev gamma R (xs ++ ys)
      = returnsRev gamma R xs ++ returnsRev gamma ((returnsRev gamma R xs).getLastD R) ys := by
  induction xs generalizing R with
  | nil => simp [returnsRev]
  | cons x xs ih =>
    simp only [List.cons_append, returnsRev, ih, List.cons_append]
    congr 2
    cases h : returnsRev gamma (R * gamma + x) xs with
    | nil => simp
    | cons a as => simp [List.getLastD]

@[simp] theorem returns_nil (gamma V : K) : returns gamma V [] = [] := rfl

/-- **the recursion**: `R_t = r_t + γ·R_{t+1}` with `R_n = V` (the critic's value of the state after the block) -/
theorem returns_cons (gamma V r : K) (rs : List K) :
    returns gamma V (r :: rs) = (r + gamma * (returns gamma V rs).headD V) :: returns gamma V rs := by
  simp only [returns, List.reverse_cons, returnsRev_append, returnsRev, List.reverse_append, List.reverse_cons,
    List.reverse_nil, List.nil_append, List.singleton_append]
  congr 1
  cases h : returnsRev gamma V rs.reverse with
  | nil => simp; ring
  | cons a as =>
    have : ((a :: as).reverse).headD V = (a :: as).getLastD V := by
      rw [List.headD_eq_head?_getD, List.head?_reverse, List.getLastD_eq_getLast?]
    rw [this]; ring

theorem nstepReturn_nil (gamma V : K) : nstepReturn gamma V [] 0 = V := by
  simp [nstepReturn, pw]

theorem nstepReturn_cons_succ (gamma V r : K) (rs : List K) (t : Nat) :
    nstepReturn gamma V (r :: rs) (t + 1) = nstepReturn gamma V rs t := by
  simp only [nstepReturn, List.length_cons, Nat.add_sub_add_right]
  congr 2
  apply List.map_congr_left
  intro j _
  rw [show t + 1 + j = (t + j) + 1 by omega, List.getD_cons_succ]

theorem nstepReturn_cons_zero (gamma V r : K) (rs : List K) :
    nstepReturn gamma V (r :: rs) 0 = r + gamma * nstepReturn gamma V rs 0 := by
  simp only [nstepReturn, List.length_cons, Nat.sub_zero, Nat.zero_add]
  rw [List.range_succ_eq_map, List.map_cons, List.sum_cons, List.map_map]
  have h : (List.map ((fun j => pw gamma j * (r :: rs).getD j 0) ∘ Nat.succ) (List.range rs.length)).sum
      = gamma * (List.map (fun j => pw gamma j * rs.getD j 0) (List.range rs.length)).sum := by
    generalize List.range rs.length = l
    induction l with
    | nil => simp
    | cons x xs ih =>
      simp only [List.map_cons, List.sum_cons, ih, Function.comp, List.getD_cons_succ, pw]
      ring
  rw [h]
  simp only [pw, List.getD_cons_zero]
  ring

/-- **closed form of the n-step returns**: the backward recursion of the code yields, for every block length and every
`t`, `R_t = Σ_{j ≥ t} γ^{j−t} r_j + γ^{n−t} V`. -/
theorem returns_closed_form (gamma V : K) (rs : List K) :
    returns gamma V rs = (List.range rs.length).map (nstepReturn gamma V rs) := by
  induction rs with
  | nil => simp
  | cons r rs ih =>
    rw [returns_cons, ih, List.length_cons, List.range_succ_eq_map, List.map_cons, List.map_map]
    congr 1
    · rw [nstepReturn_cons_zero]
      congr 2
      cases rs with
      | nil => simp [nstepReturn_nil]
      | cons r' rs' => simp [List.range_succ_eq_map]
    · apply List.map_congr_left
      intro t _
      simp only [Function.comp, Nat.succ_eq_add_one, nstepReturn_cons_succ]

end returns

/-! ### the loss of one inner epoch -/
section loss
variable {K : Type} [Field K] [LinearOrder K] [IsStrictOrderedRing K]

omit [IsStrictOrderedRing K] in
theorem maxDv_v (a b : Dual K) : (maxDv a b).v = if a.v < b.v then b.v else a.v := by
  unfold maxDv
  by_cases h1 : b.v < a.v
  · simp [h1, not_lt.mpr (le_of_lt h1)]
  · by_cases h2 : a.v < b.v <;> simp [h1, h2]

omit [IsStrictOrderedRing K] in
theorem valueElem_v (c : K) (old : Option K) (bl : Dual K) (ret : K) :
    (valueElem c old bl ret).v =
      match old with
      | none => (bl.v - ret) * (bl.v - ret)
      | some o =>
        let vc := clip (-c) c (bl.v - o) + o
        if (bl.v - ret) * (bl.v - ret) < (vc - ret) * (vc - ret) then (vc - ret) * (vc - ret)
        else (bl.v - ret) * (bl.v - ret) := by
  cases old with
  | none => simp [valueElem]
  | some o => simp [valueElem, maxDv_v, clampD_v]

omit [IsStrictOrderedRing K] in
/-- **C16, n-step PPO value.**  For every block of `n` samples, every inner epoch: the loss is
`−mean min(r·A, clip(r)·A) + vf_lambda·mean value_term` with `r = w(ll − old_ll)`, `A = R − bl` (the critic value enters
the advantage detached), and the value term `(bl − R)²` in the first inner epoch, `max((bl − R)², (clip(bl − bl₀, ±ε) + bl₀ − R)²)`
afterwards. -/
theorem nstep_value (cfg : Cfg K) (w : K → K) (n : Nat) (ll bl : Nat → Dual K) (oldLl : Nat → K)
    (oldValue : Option (Nat → K)) (ret : Nat → K) :
    (lossBlock cfg w n ll bl oldLl oldValue ret).loss.v =
      nstepLoss n cfg.clipLo cfg.clipHi cfg.clipR cfg.vf (fun i => w ((ll i).v - oldLl i)) ret (fun i => (bl i).v) oldValue := by
  simp only [lossBlock, nstepLoss, Dual.add_v, Dual.neg_v, Dual.divc_v, Dual.smul_v, sumTo_v, minD_v, clampD_v,
    Dual.expw_v, Dual.sub_v, Dual.const_v, valueElem_v]
  congr 1
  · congr 2
    apply sumTo_congr; intro i _
    simp only [mul_comm]
  · congr 2
    apply sumTo_congr; intro i _
    cases oldValue <;> simp

end loss

/-- Non-vacuity: rewards `1, 2`, bootstrap value `4`, `γ = 1/2`: returns `[3, 4]`; without the clone the memory of a
two-step block shows the final state twice. -/
example : returns (1 / 2 : Rat) 4 [1, 2] = [3, 4] ∧ rolloutMem false [10, 20] 30 = [30, 30] := by
  constructor <;> decide +kernel

end Rl4co.Train.NStep
