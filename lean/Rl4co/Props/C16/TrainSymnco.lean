/-
C16 — SymNCO (`SymNCO.shared_step` + `symnco/losses.py`).

The flat batch the policy returns is laid out start-outer / augmentation-middle / instance-inner
(`k = (s·A + a)·B + b`, produced by `batchify`; POMO regroups the same layout with `unbatchify(x, (n_aug, n_start))`).
SymNCO regroups with `unbatchify(x, (n_start, n_aug))`: entry `[b, q, r]` of the result is the rollout with flat
group index `r·S + q`, i.e. start `(r·S + q) / A` and augmentation `(r·S + q) % A`.

* proved for every `S, A, B`: the index map (`symnco_regroup_index`: all entries of row `b` belong to instance `b`),
  the two loss terms are shared-baseline surrogates w.r.t. the code's own groups, with value and directional
  derivative (`symnco_dim1`, `symnco_dimLast`), and the advantages of every group sum to zero
  (`symnco_adv_sum_zero_dim1`, `…_dimLast`);
* FALSE in general (`symnco_groups_statement`, refuted by `S = 3, A = 2`): that a group consists of the rollouts
  sharing a start or sharing an augmentation; consequently the loss is not the reference surrogate under either
  reading of the axes (`symnco_loss_statement`, refuted by a concrete instance);
* proved partial: for `S = A` the dim-1 groups share the start and the last-dim groups the augmentation
  (`symnco_groups_partial`).
-/
import Rl4co.Train.Loss
import Rl4co.Spec.Train
import Rl4co.Proofs.TrainSums
import Mathlib.Tactic.Ring
import Mathlib.Tactic.FieldSimp
import Mathlib.Tactic.Linarith

namespace Rl4co.Train
open Rl4co.Spec.Train

/-- **Index map of SymNCO's regrouping.**  For a flat batch of `S·A·B` rollouts, entry `[b, q, r]` of
`unbatchify(x, (S, A))` is `x[(r·S + q)·B + b]`: it belongs to instance `b` (C12 holds), with flat group
index `r·S + q`. -/
theorem symnco_regroup_index {α : Type} (S A B : Nat) (hS : 0 < S) (hA : 0 < A) (x : Nat → α) (b q r : Nat) :
    let T := symncoRegroup S A (S * A * B) x
    T.nb = B ∧ T.ns = S ∧ T.na = A ∧ T.f b q r = x ((r * S + q) * B + b) := by
  have h1 : S * A * B / A = S * B := by
    rw [show S * A * B = A * (S * B) by ring]; exact Nat.mul_div_cancel_left _ hA
  have h2 : S * B / S = B := Nat.mul_div_cancel_left _ hS
  have hS' : S ≠ 0 := by omega
  have hA' : A ≠ 0 := by omega
  simp only [symncoRegroup, if_neg hS', if_neg hA', unbatch2, unbatch1, h1, h2, true_and]
  congr 1
  ring

/-- start and augmentation of the rollout with flat group index `f` (layout `f = s·A + a`) -/
def startOf (A f : Nat) : Nat := f / A
def augOf (A f : Nat) : Nat := f % A

/-- "every shared-baseline group is semantic": under one of the two readings of the axes, the groups averaged
over dim 1 (fixed `r`, all `q`) and over the last dim (fixed `q`, all `r`) consist of the rollouts sharing the
augmentation resp. the start (reading X) or the start resp. the augmentation (reading Y). -/
def SymncoGroupsOK (S A : Nat) : Prop :=
  ((∀ r, r < A → ∀ q, q < S → ∀ q', q' < S → augOf A (r * S + q) = augOf A (r * S + q')) ∧
   (∀ q, q < S → ∀ r, r < A → ∀ r', r' < A → startOf A (r * S + q) = startOf A (r' * S + q)))
  ∨
  ((∀ r, r < A → ∀ q, q < S → ∀ q', q' < S → startOf A (r * S + q) = startOf A (r * S + q')) ∧
   (∀ q, q < S → ∀ r, r < A → ∀ r', r' < A → augOf A (r * S + q) = augOf A (r' * S + q)))

instance (S A : Nat) : Decidable (SymncoGroupsOK S A) := by unfold SymncoGroupsOK; infer_instance

/-- the full claim: for all multi-start / augmentation factors ≥ 2 the groups are semantic -/
def symnco_groups_statement : Prop := ∀ S A, 2 ≤ S → 2 ≤ A → SymncoGroupsOK S A

/-- **Finding.**  With `n_start = 3, n_aug = 2` the slice labelled "start 0" holds (start 0, aug 0),
(start 0, aug 1), (start 1, aug 0): the groups mix starts and augmentations. -/
theorem symnco_groups_counterexample : ¬ symnco_groups_statement := by
  intro h
  exact absurd (h 3 2 (by decide) (by decide)) (by decide)

/-- **Partial.**  When `n_start = n_aug` the regrouped axes are exactly (augmentation, start): the groups averaged
over dim 1 share the start, those averaged over the last dim share the augmentation (reading Y). -/
theorem symnco_groups_partial (S : Nat) : SymncoGroupsOK S S := by
  right
  refine ⟨fun r _ q hq q' hq' => ?_, fun q hq r _ r' _ => ?_⟩
  · have hS : 0 < S := by omega
    simp only [startOf]
    rw [Nat.mul_comm r S, Nat.mul_add_div hS, Nat.mul_add_div hS, Nat.div_eq_of_lt hq, Nat.div_eq_of_lt hq']
  · simp only [augOf]
    rw [Nat.mul_comm r S, Nat.mul_comm r' S, Nat.mul_add_mod, Nat.mul_add_mod]

section field
variable {K : Type} [Field K]

/-- **C16 (SymNCO), value and gradient of the dim-1 term** as the code computes it: a shared-baseline surrogate
over the code's own groups `{(q, r) : q < S}`. -/
theorem symnco_dim1 (R ll : Ten3 (Dual K)) (hR : ∀ b q r, (R.f b q r).d = 0) :
    (lossDim1 R ll).v =
      -(sumTo R.nb (fun b => sumTo R.ns (fun q => sumTo R.na (fun r =>
          ((R.f b q r).v - sumTo R.ns (fun q' => (R.f b q' r).v) / (R.ns : K)) * (ll.f b q r).v)))
        / ((R.nb * R.ns * R.na : Nat) : K)) ∧
    (lossDim1 R ll).d =
      -(sumTo R.nb (fun b => sumTo R.ns (fun q => sumTo R.na (fun r =>
          ((R.f b q r).v - sumTo R.ns (fun q' => (R.f b q' r).v) / (R.ns : K)) * (ll.f b q r).d)))
        / ((R.nb * R.ns * R.na : Nat) : K)) := by
  constructor
  · simp only [lossDim1, Dual.neg_v, Dual.divc_v, sumTo_v, Dual.mul_v, Dual.sub_v]
  · simp only [lossDim1, Dual.neg_d, Dual.divc_d, sumTo_d, Dual.mul_d, Dual.sub_v, Dual.sub_d, Dual.divc_v,
      sumTo_v, hR, sumTo_zero', zero_div, sub_zero, zero_mul, add_zero]

theorem symnco_dimLast (R ll : Ten3 (Dual K)) (hR : ∀ b q r, (R.f b q r).d = 0) :
    (lossDimLast R ll).v =
      -(sumTo R.nb (fun b => sumTo R.ns (fun q => sumTo R.na (fun r =>
          ((R.f b q r).v - sumTo R.na (fun r' => (R.f b q r').v) / (R.na : K)) * (ll.f b q r).v)))
        / ((R.nb * R.ns * R.na : Nat) : K)) ∧
    (lossDimLast R ll).d =
      -(sumTo R.nb (fun b => sumTo R.ns (fun q => sumTo R.na (fun r =>
          ((R.f b q r).v - sumTo R.na (fun r' => (R.f b q r').v) / (R.na : K)) * (ll.f b q r).d)))
        / ((R.nb * R.ns * R.na : Nat) : K)) := by
  constructor
  · simp only [lossDimLast, Dual.neg_v, Dual.divc_v, sumTo_v, Dual.mul_v, Dual.sub_v]
  · simp only [lossDimLast, Dual.neg_d, Dual.divc_d, sumTo_d, Dual.mul_d, Dual.sub_v, Dual.sub_d, Dual.divc_v,
      sumTo_v, hR, sumTo_zero', zero_div, sub_zero, zero_mul, add_zero]

/-- the total: `loss = loss_ps + beta·loss_ss + alpha·loss_inv`, with the guards of the code -/
theorem symnco_total (nStart nAug n : Nat) (alpha beta : K) (R ll : Nat → Dual K) (inv : Dual K) :
    let o := symncoLoss nStart nAug n alpha beta R ll inv
    o.loss.v = o.ps.v + beta * o.ss.v + alpha * inv.v ∧ o.loss.d = o.ps.d + beta * o.ss.d + alpha * inv.d ∧
    (nStart ≤ 1 → o.ps = 0) ∧ (nAug ≤ 1 → o.ss = 0) := by
  refine ⟨rfl, rfl, fun h => ?_, fun h => ?_⟩
  · simp only [symncoLoss]; rw [if_neg (by omega)]
  · simp only [symncoLoss]; rw [if_neg (by omega)]

/-- **C16 `shared_adv_sum_zero` for SymNCO.**  Whatever the regrouping, the advantages of every group the code
averages over sum to zero (groups stay within an instance, so in particular they average to zero within each
instance). -/
theorem symnco_adv_sum_zero_dim1 [CharZero K] (R : Ten3 (Dual K)) (hS : 0 < R.ns) (b r : Nat) :
    sumTo R.ns (fun q => (R.f b q r).v - sumTo R.ns (fun q' => (R.f b q' r).v) / (R.ns : K)) = 0 := by
  have hSK : (R.ns : K) ≠ 0 := Nat.cast_ne_zero.mpr (by omega)
  rw [sumTo_sub', sumTo_const]; field_simp; ring

theorem symnco_adv_sum_zero_dimLast [CharZero K] (R : Ten3 (Dual K)) (hA : 0 < R.na) (b q : Nat) :
    sumTo R.na (fun r => (R.f b q r).v - sumTo R.na (fun r' => (R.f b q r').v) / (R.na : K)) = 0 := by
  have hAK : (R.na : K) ≠ 0 := Nat.cast_ne_zero.mpr (by omega)
  rw [sumTo_sub', sumTo_const]; field_simp; ring

end field

/-- the full claim at the level of the loss: for a gradient-free reward the SymNCO loss is the reference
surrogate under one of the two readings of the axes (layout `k = (s·A + a)·B + b`). -/
def symnco_loss_statement : Prop :=
  ∀ (S A B : Nat) (alpha beta : Rat) (R ll : Nat → Rat) (inv : Rat),
    let o := symncoLoss S A (S * A * B) alpha beta (fun k => Dual.const (R k)) (fun k => Dual.const (ll k)) (Dual.const inv)
    o.loss.v = symncoRefX B S A beta R ll + alpha * inv ∨ o.loss.v = symncoRefY B S A beta R ll + alpha * inv

/-- **Finding (loss level).**  `S = 3, A = 2, B = 1`, rewards `1, 2, 4, 8, 16, 32`, log-likelihoods
`−1, −1, −1, −2, −2, −2`, `beta = 1`: the code's loss is `49/12`, both references give `23/6`. -/
theorem symnco_loss_counterexample : ¬ symnco_loss_statement := by
  intro h
  have := h 3 2 1 0 1 (fun k => [1, 2, 4, 8, 16, 32].getD k 0) (fun k => [-1, -1, -1, -2, -2, -2].getD k 0) 0
  revert this
  decide +kernel

end Rl4co.Train
