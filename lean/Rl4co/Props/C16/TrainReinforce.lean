/-
C16 — REINFORCE (`REINFORCE.calculate_loss`) with every bundled baseline, the shared-baseline multi-start
variant (POMO) and A2C: the loss is the reference surrogate `−mean((R − b)·ll) + bl_loss`, its directional
derivative is `−mean((R − b)·d ll) + d bl_loss`, reward and baseline value enter detached, the advantage
has the reward's shape (no `B×B` broadcast), and shared-baseline advantages sum to zero within an instance.

All statements are over an arbitrary field `K`; the directional derivative is the `d`-component of the dual
number semantics (`Rl4co/Train/Dual.lean`).
-/
import Rl4co.Train.Loss
import Rl4co.Spec.Train
import Rl4co.Proofs.TrainSums
import Mathlib.Tactic.Ring
import Mathlib.Tactic.FieldSimp
import Mathlib.Tactic.Linarith

namespace Rl4co.Train
open Rl4co.Spec.Train
variable {K : Type} [Field K]

/-- what the advantage scaler does to a value -/
def ScaleOp.applyK (op : ScaleOp K) (x : K) : K :=
  match op with
  | ScaleOp.off => x
  | ScaleOp.divBy c => x / c
  | ScaleOp.norm m f => (x - m) / f

theorem ScaleOp.apply_v (op : ScaleOp K) (x : Dual K) : (op.apply x).v = op.applyK x.v := by
  cases op <;> simp [ScaleOp.apply, ScaleOp.applyK]

theorem ScaleOp.apply_d (op : ScaleOp K) (x : Dual K) (h : x.d = 0) : (op.apply x).d = 0 := by
  cases op <;> simp [ScaleOp.apply, h]

/-- **C16 `reinforce_value` / `reinforce_grad` / `no_BxB_broadcast`, per-instance baseline.**
Reward, log-likelihood and baseline value of shape `[n]` (critic, greedy-rollout `extra`, warm-up mixtures):
`calculate_loss` succeeds, the advantage has shape `[n]`, the loss is
`−(1/n) Σ sc(R_i − b_i)·ll_i + bl_loss`, and — reward and baseline value carrying no gradient — its
directional derivative is `−(1/n) Σ sc(R_i − b_i)·d ll_i + d bl_loss`. -/
theorem reinforce_vec (sc : ScaleOp K) (n : Nat) (R b ll : Nat → Dual K) (bl : Dual K) :
    ∃ out, calcLoss sc (Ten.vec n R) (Ten.vec n b) (Ten.vec n ll) bl = some out ∧
      out.adv.sh = Shape.v n ∧
      out.loss.v = surrogate n (fun i => sc.applyK ((R i).v - (b i).v)) (fun i => (ll i).v) + bl.v ∧
      ((∀ i, i < n → (R i).d = 0 ∧ (b i).d = 0) →
        out.loss.d = surrogate n (fun i => sc.applyK ((R i).v - (b i).v)) (fun i => (ll i).d) + bl.d) := by
  cases h : calcLoss sc (Ten.vec n R) (Ten.vec n b) (Ten.vec n ll) bl with
  | none => simp [calcLoss, Ten.bop, Ten.vec, bshape_vv, Ten.map] at h
  | some out =>
    simp only [calcLoss, Ten.bop, Ten.vec, bshape_vv, Ten.map, Option.some.injEq] at h
    subst h
    refine ⟨_, rfl, rfl, ?_, ?_⟩
    · simp only [Ten.meanAll, Ten.sumAll, Shape.rows, Shape.cols, Shape.numel, Ten.get,
        Dual.add_v, Dual.neg_v, Dual.divc_v, sumTo_v, sumTo_one, Dual.mul_v, Dual.sub_v, surrogate, one_mul,
        ScaleOp.apply_v]
      congr 2
      congr 1
      apply sumTo_congr
      intro i hi
      simp [Nat.mod_eq_of_lt hi]
    · intro hd
      simp only [Ten.meanAll, Ten.sumAll, Shape.rows, Shape.cols, Shape.numel, Ten.get,
        Dual.add_d, Dual.neg_d, Dual.divc_d, sumTo_d, sumTo_one, Dual.mul_d, surrogate, one_mul, ScaleOp.apply_v]
      congr 2
      congr 1
      apply sumTo_congr
      intro i hi
      obtain ⟨hR, hb⟩ := hd i hi
      simp only [Nat.mod_eq_of_lt hi]
      have : (sc.apply (R i - b i)).d = 0 := ScaleOp.apply_d sc _ (by simp [hR, hb])
      rw [this]
      simp

/-- the same for a scalar baseline (none = the Python number `0`, exponential / mean: a 0-dim tensor) -/
theorem reinforce_scalar (sc : ScaleOp K) (n : Nat) (R ll : Nat → Dual K) (b bl : Dual K) :
    ∃ out, calcLoss sc (Ten.vec n R) (Ten.scalar b) (Ten.vec n ll) bl = some out ∧
      out.adv.sh = Shape.v n ∧
      out.loss.v = surrogate n (fun i => sc.applyK ((R i).v - b.v)) (fun i => (ll i).v) + bl.v ∧
      ((∀ i, i < n → (R i).d = 0) → b.d = 0 →
        out.loss.d = surrogate n (fun i => sc.applyK ((R i).v - b.v)) (fun i => (ll i).d) + bl.d) := by
  cases h : calcLoss sc (Ten.vec n R) (Ten.scalar b) (Ten.vec n ll) bl with
  | none => simp [calcLoss, Ten.bop, Ten.vec, Ten.scalar, bshape_vs, bshape_vv, Ten.map] at h
  | some out =>
    simp only [calcLoss, Ten.bop, Ten.vec, Ten.scalar, bshape_vs, bshape_vv, Ten.map, Option.some.injEq] at h
    subst h
    refine ⟨_, rfl, rfl, ?_, ?_⟩
    · simp only [Ten.meanAll, Ten.sumAll, Shape.rows, Shape.cols, Shape.numel, Ten.get,
        Dual.add_v, Dual.neg_v, Dual.divc_v, sumTo_v, sumTo_one, Dual.mul_v, Dual.sub_v, surrogate, one_mul,
        ScaleOp.apply_v]
      congr 2
      congr 1
      apply sumTo_congr
      intro i hi
      simp [Nat.mod_eq_of_lt hi]
    · intro hd hb
      simp only [Ten.meanAll, Ten.sumAll, Shape.rows, Shape.cols, Shape.numel, Ten.get,
        Dual.add_d, Dual.neg_d, Dual.divc_d, sumTo_d, sumTo_one, Dual.mul_d, surrogate, one_mul, ScaleOp.apply_v]
      congr 2
      congr 1
      apply sumTo_congr
      intro i hi
      simp only [Nat.mod_eq_of_lt hi]
      have : (sc.apply (R i - b)).d = 0 := ScaleOp.apply_d sc _ (by simp [hd i hi, hb])
      rw [this]
      simp

/-! ### shared baseline (POMO) -/

/-- **C16, shared baseline (POMO).**  Reward and log-likelihood of shape `[B,S]` (after the regrouping),
baseline `reward.mean(dim=1, keepdims=True)` of shape `[B,1]`: the advantage has shape `[B,S]` (not `[B,B]`),
the loss is the shared-baseline surrogate and, the reward carrying no gradient, so is its derivative. -/
theorem reinforce_shared (B S : Nat) (R ll : Nat → Nat → Dual K) :
    ∃ out, calcLoss ScaleOp.off (Ten.mat B S R) (sharedEval (Ten.mat B S R)).1 (Ten.mat B S ll)
        (sharedEval (Ten.mat B S R)).2 = some out ∧
      out.adv.sh = Shape.m B S ∧
      out.loss.v = sharedSurrogate B S (fun b s => (R b s).v) (fun b s => (ll b s).v) ∧
      ((∀ b s, b < B → s < S → (R b s).d = 0) →
        out.loss.d = sharedSurrogate B S (fun b s => (R b s).v) (fun b s => (ll b s).d)) := by
  cases h : calcLoss ScaleOp.off (Ten.mat B S R) (sharedEval (Ten.mat B S R)).1 (Ten.mat B S ll)
      (sharedEval (Ten.mat B S R)).2 with
  | none => simp [calcLoss, sharedEval, Ten.meanLastKeep, Ten.bop, Ten.mat, bshape_mcol, bshape_mm, Ten.map] at h
  | some out =>
    simp only [calcLoss, sharedEval, Ten.meanLastKeep, Ten.bop, Ten.mat, bshape_mcol, bshape_mm, Ten.map,
      Option.some.injEq] at h
    subst h
    refine ⟨_, rfl, rfl, ?_, ?_⟩
    · simp only [Ten.meanAll, Ten.sumAll, Shape.rows, Shape.cols, Shape.numel, Ten.get, ScaleOp.apply,
        Dual.add_v, Dual.neg_v, Dual.divc_v, sumTo_v, Dual.mul_v, Dual.sub_v, sharedSurrogate, Dual.zero_v, add_zero]
      congr 2
      apply sumTo_congr
      intro b hb
      apply sumTo_congr
      intro s hs
      simp [Nat.mod_eq_of_lt hb, Nat.mod_eq_of_lt hs]
    · intro hd
      simp only [Ten.meanAll, Ten.sumAll, Shape.rows, Shape.cols, Shape.numel, Ten.get, ScaleOp.apply,
        Dual.add_d, Dual.neg_d, Dual.divc_d, sumTo_d, Dual.mul_d, Dual.sub_d, Dual.sub_v, Dual.divc_v,
        sumTo_v, sharedSurrogate, Dual.zero_d, add_zero]
      congr 2
      apply sumTo_congr
      intro b hb
      apply sumTo_congr
      intro s hs
      simp only [Nat.mod_eq_of_lt hb, Nat.mod_eq_of_lt hs]
      have h0 : sumTo S (fun j => (R b j).d) = 0 := by
        rw [sumTo_congr S _ (fun _ => (0 : K)) (fun j hj => hd b j hb hj), sumTo_zero']
      rw [hd b s hb hs, h0]
      simp

/-- **C16 `shared_adv_sum_zero`.**  Within every instance the shared-baseline advantages sum (hence average)
to zero. -/
theorem shared_adv_sum_zero [CharZero K] (S : Nat) (hS : 0 < S) (R : Nat → K) :
    sumTo S (fun s => R s - sumTo S (fun s' => R s') / (S : K)) = 0 := by
  have hSK : (S : K) ≠ 0 := Nat.cast_ne_zero.mpr (by omega)
  rw [sumTo_sub', sumTo_const]
  field_simp
  ring

/-- … as the code computes them: the rows of `reward − reward.mean(dim=1, keepdims=True)`. -/
theorem shared_adv_sum_zero_ten [CharZero K] (B S : Nat) (hS : 0 < S) (R : Nat → Nat → Dual K) (b : Nat)
    (hb : b < B) :
    ∃ adv, Ten.bop (fun r m => r - m) (Ten.mat B S R) (sharedEval (Ten.mat B S R)).1 = some adv ∧
      adv.sh = Shape.m B S ∧ sumTo S (fun s => (adv.f b s).v) = 0 := by
  refine ⟨_, by simp only [sharedEval, Ten.meanLastKeep, Ten.bop, Ten.mat, bshape_mcol]; rfl, rfl, ?_⟩
  simp only [Ten.get, Shape.rows, Shape.cols, Dual.sub_v, Dual.divc_v, sumTo_v, Nat.mod_eq_of_lt hb]
  rw [← shared_adv_sum_zero S hS (fun s => (R b s).v)]
  apply sumTo_congr
  intro s hs
  simp [Nat.mod_eq_of_lt hs]

/-- POMO's regrouping `unbatchify(x, (0, S))` of a flat start-outer batch `x[s·B + b]`: entry `[b, s]` of the
regrouped `[B,S]` tensor is rollout `s` of instance `b`. -/
theorem pomo_regroup_index {α : Type} (S B : Nat) (hS : 0 < S) (x : Nat → α) (b s : Nat) :
    (pomoRegroup S (S * B) x).sh = Shape.m B S ∧ (pomoRegroup S (S * B) x).f b s = x (s * B + b) := by
  simp [pomoRegroup, Ten.mat, unbatch1, Nat.mul_div_cancel_left B hS]

/-! ### reward and baseline value enter detached -/

/-- **C16 `no_grad_through_R_b`, critic.**  `CriticBaseline.eval` returns a value without gradient whatever
gradient the critic's output carries, and its loss is the mean squared error against the DETACHED reward:
value `mse(v, R)`, derivative `(2/n) Σ (v_i − R_i)·d v_i` — no term in `d R`. -/
theorem critic_eval (n : Nat) (o c : Nat → Dual K) :
    ∃ val l, Critic.eval (Ten.mat n 1 (fun i _ => o i)) (Ten.vec n c) = some (val, l) ∧
      val.sh = Shape.v n ∧ (∀ j, (val.f 0 j).v = (o j).v ∧ (val.f 0 j).d = 0) ∧
      l.v = mse n (fun i => (o i).v) (fun i => (c i).v) ∧
      l.d = mseGrad n (fun i => (o i).v) (fun i => (c i).v) (fun i => (o i).d) := by
  refine ⟨_, _, by simp only [Critic.eval, Critic.mse, Ten.squeezeLast, Ten.mat, Ten.vec, Ten.map, Ten.bop,
    bshape_vv, Option.map_some]; rfl, rfl, fun j => ⟨rfl, rfl⟩, ?_, ?_⟩
  · simp only [Ten.meanAll, Ten.sumAll, Shape.rows, Shape.cols, Shape.numel, Ten.get, Dual.divc_v, sumTo_v,
      sumTo_one, Dual.mul_v, Dual.sub_v, Dual.detach_v, mse, one_mul]
    congr 1
    apply sumTo_congr
    intro i hi
    simp [Nat.mod_eq_of_lt hi]
  · simp only [Ten.meanAll, Ten.sumAll, Shape.rows, Shape.cols, Shape.numel, Ten.get, Dual.divc_d, sumTo_d,
      sumTo_one, Dual.mul_d, Dual.sub_v, Dual.sub_d, Dual.detach_v, Dual.detach_d, mseGrad, one_mul]
    congr 1
    apply sumTo_congr
    intro i hi
    simp only [Nat.mod_eq_of_lt hi]
    push_cast
    ring

/-- shared baseline: if the reward carries no gradient, neither does `reward.mean(dim=1, keepdims=True)` -/
theorem shared_val_no_grad (B S : Nat) (R : Nat → Nat → Dual K)
    (hd : ∀ b s, b < B → s < S → (R b s).d = 0) (b j : Nat) (hb : b < B) :
    ((sharedEval (Ten.mat B S R)).1.f b j).d = 0 := by
  simp only [sharedEval, Ten.meanLastKeep, Ten.mat, Dual.divc_d, sumTo_d]
  rw [sumTo_congr S _ (fun _ => (0 : K)) (fun s hs => hd b s hb hs), sumTo_zero']
  simp

/-- no baseline / greedy-rollout baseline: the value is gradient-free by construction -/
theorem no_baseline_no_grad (i j : Nat) : ((noBaselineEval : Ten (Dual K) × Dual K).1.f i j).d = 0 := rfl
theorem rollout_no_grad (g : Ten K) (i j : Nat) : ((Rollout.eval g).1.f i j).d = 0 := rfl

section warm
variable [DecidableEq K]

/-- **C16 `no_grad_through_R_b`, warm-up mixture.**  If the wrapped baseline's value carries no gradient, neither
does `alpha·v_b + (1−alpha)·v_wb` (the moving average is detached by `ExponentialBaseline.eval`). -/
theorem warmup_val_no_grad (beta : K) (st : Warmup.St K) (inner : Ten (Dual K) × Dual K) (R : Ten (Dual K))
    (out : Ten (Dual K) × Dual K × Warmup.St K) (h : Warmup.eval beta st inner R = some out)
    (hin : ∀ i j, (inner.1.f i j).d = 0) (i j : Nat) : (out.1.f i j).d = 0 := by
  unfold Warmup.eval at h
  cases hb : Warmup.branch st with
  | inner =>
    rw [hb] at h
    simp only [Option.some.injEq] at h
    subst h; exact hin i j
  | warm =>
    rw [hb] at h
    simp only [Option.some.injEq] at h
    subst h
    cases hv0 : st.ema <;> simp [Ema.eval, Ten.scalar]
  | both =>
    rw [hb] at h
    simp only at h
    split at h
    · rename_i v hv
      simp only [Option.some.injEq] at h
      subst h
      unfold Ten.bop at hv
      split at hv
      · simp only [Option.some.injEq] at hv
        subst hv
        simp only [Ten.map, Ten.get, Dual.add_d, Dual.smul_d, hin]
        cases hv0 : st.ema <;> simp [Ema.eval, Ten.scalar]
      · cases hv
    · cases h
end warm

/-! ### A2C -/

/-- **C16 `a2c_value` / `a2c_grad`.**  A2C = REINFORCE with the critic baseline: with the critic's output `o`
(shape `[n,1]`) the loss is `−mean((R − o)·ll) + mse(o, R)` and its derivative
`−mean((R − o)·d ll) + (2/n) Σ (o_i − R_i)·d o_i`: the policy sees the advantage as a constant, the critic
only its regression loss. -/
theorem a2c_loss (n : Nat) (R ll o : Nat → Dual K) (hR : ∀ i, i < n → (R i).d = 0) :
    ∃ val l out, Critic.eval (Ten.mat n 1 (fun i _ => o i)) (Ten.vec n R) = some (val, l) ∧
      calcLoss ScaleOp.off (Ten.vec n R) val (Ten.vec n ll) l = some out ∧
      out.adv.sh = Shape.v n ∧
      out.loss.v = reinforce n (fun i => (R i).v) (fun i => (o i).v) (fun i => (ll i).v)
                      (mse n (fun i => (o i).v) (fun i => (R i).v)) ∧
      out.loss.d = reinforceGrad n (fun i => (R i).v) (fun i => (o i).v) (fun i => (ll i).d)
                      (mseGrad n (fun i => (o i).v) (fun i => (R i).v) (fun i => (o i).d)) := by
  obtain ⟨val, l, he, hsh, hval, hlv, hld⟩ := critic_eval n o R
  have hval' : val = Ten.vec n (fun j => val.f 0 j) := by
    cases val with
    | mk sh f =>
      simp only at hsh
      subst hsh
      simp only [Critic.eval, Critic.mse, Ten.squeezeLast, Ten.mat, Ten.vec, Ten.map, Ten.bop,
        bshape_vv, Option.map_some, Option.some.injEq, Prod.mk.injEq, Ten.mk.injEq] at he
      simp only [Ten.vec, Ten.mk.injEq, true_and]
      rw [← he.1.2]
  obtain ⟨out, hc, hs, hv, hd⟩ := reinforce_vec ScaleOp.off n R (fun j => val.f 0 j) ll l
  refine ⟨val, l, out, he, by rw [hval']; exact hc, hs, ?_, ?_⟩
  · rw [hv, hlv]
    simp only [reinforce, ScaleOp.applyK, hval]
  · rw [hd (fun i hi => ⟨hR i hi, (hval i).2⟩), hld]
    simp only [reinforceGrad, ScaleOp.applyK, hval]

/-! ### the model is shape-sensitive: what a `[B]` / `[B,1]` mix-up would do -/

/-- If the baseline value had shape `[n,1]` against a reward of shape `[n]` (e.g. a critic output that was not
squeezed), the advantage would silently become `[n,n]` — in the model exactly as in PyTorch, so the
correspondence would see it (and the theorems above show that it does not happen for the shapes the code
produces). -/
theorem mixup_broadcasts (n : Nat) (R b : Nat → Dual K) :
    (Ten.bop (fun r m => r - m) (Ten.vec n R) (Ten.mat n 1 (fun i _ => b i))).map (·.sh) = some (Shape.m n n) := by
  simp [Ten.bop, Ten.vec, Ten.mat, bshape_v_mcol]

/-- Non-vacuity: two instances, exponential-style scalar baseline 2, rewards 1 and 4, log-likelihoods −1 and −2
with derivatives 1 and 3: loss = −((1−2)(−1) + (4−2)(−2))/2 = 3/2, derivative = −((−1)·1 + 2·3)/2 = −5/2. -/
example :
    (calcLoss ScaleOp.off (Ten.vec 2 (fun i => Dual.const (if i = 0 then (1 : Rat) else 4)))
        (Ten.scalar (Dual.const 2)) (Ten.vec 2 (fun i => if i = 0 then ⟨-1, 1⟩ else ⟨-2, 3⟩)) 0).map
      (fun o => (o.loss.v, o.loss.d)) = some (3 / 2, -5 / 2) := by
  decide +kernel

end Rl4co.Train
