/-
C16 / C17 — the greedy-rollout baseline.  For every history of epoch callbacks (any candidate policies, any fresh
evaluation sets, any significance oracle), with row-wise policies:
* the state is always consistent: `bl_vals` are the frozen policy's rewards on ITS evaluation set, instance by instance,
  and `mean` their mean (`consistent_run`);
* the frozen policy after a callback is the candidate iff it is better on average and significant, else unchanged
  (`epochCallback_policy`), hence always one of the policies seen so far (`policy_mem_run`);
* `wrap_dataset` attaches to item `i` the frozen policy's reward on instance `i`, for every evaluation batch size
  (`wrap_value`, built on `Rl4co.Ops.wrap_aligned`), so with the wrapped batch `calculate_loss` uses
  `bl_val_i = g_frozen(x_i)` (`reinforce_rollout`).
-/
import Rl4co.Train.RolloutBl
import Rl4co.Props.C17.Dataset
import Rl4co.Props.C16.TrainReinforce
import Mathlib.Algebra.Order.Field.Basic

namespace Rl4co.Train.RolloutBl
open Rl4co.Ops
variable {Inst K : Type} [Field K] [LinearOrder K]

/-- the state is consistent with a per-instance reward function `g` of its frozen policy -/
def Consistent (st : St Inst K) : Prop :=
  ∃ g : Inst → K, (∀ xs, st.policy xs = xs.map g) ∧ st.blVals = st.dataset.map g ∧ st.mean = lmean st.blVals

omit [LinearOrder K] in
theorem consistent_update (bs : Nat) (hbs : 0 < bs) (p : List Inst → List K) (hp : RowWise p) (fresh : List Inst) :
    Consistent (updatePolicy bs p fresh : St Inst K) := by
  obtain ⟨g, hg⟩ := hp
  exact ⟨g, hg, rollout_aligned p g hg bs hbs fresh, rfl⟩

/-- **the update rule**: the frozen policy becomes the candidate exactly when the candidate's mean reward on the
evaluation set exceeds the baseline's AND the one-sided p-value is below `bl_alpha`; otherwise NOTHING changes. -/
theorem epochCallback_policy (pval : List K → List K → K) (alpha : K) (bs : Nat) (st : St Inst K)
    (cand : List Inst → List K) (fresh : List Inst) :
    let candVals := rollout cand bs st.dataset
    (0 < lmean candVals - st.mean ∧ pval candVals st.blVals < alpha →
        epochCallback pval alpha bs st cand fresh = updatePolicy bs cand fresh) ∧
    (¬ (0 < lmean candVals - st.mean ∧ pval candVals st.blVals < alpha) →
        epochCallback pval alpha bs st cand fresh = st) := by
  intro candVals
  have hiff : accepts pval alpha st candVals = true ↔
      (0 < lmean candVals - st.mean ∧ pval candVals st.blVals < alpha) := by simp [accepts]
  constructor
  · intro h
    simp only [epochCallback]
    split
    · rfl
    · rename_i hn; exact absurd (hiff.mpr h) hn
  · intro h
    simp only [epochCallback]
    split
    · rename_i hp; exact absurd (hiff.mp hp) h
    · rfl

theorem consistent_callback (pval : List K → List K → K) (alpha : K) (bs : Nat) (hbs : 0 < bs) (st : St Inst K)
    (hst : Consistent st) (cand : List Inst → List K) (hc : RowWise cand) (fresh : List Inst) :
    Consistent (epochCallback pval alpha bs st cand fresh) := by
  simp only [epochCallback]
  split
  · exact consistent_update bs hbs cand hc fresh
  · exact hst

/-- **Invariant over any training history.**  After `setup` and any sequence of epoch callbacks with row-wise policies
the baseline values are the frozen policy's rewards on its own evaluation set, instance by instance. -/
theorem consistent_run (pval : List K → List K → K) (alpha : K) (bs : Nat) (hbs : 0 < bs) (st : St Inst K)
    (hst : Consistent st) (hist : List ((List Inst → List K) × List Inst)) (hh : ∀ c ∈ hist, RowWise c.1) :
    Consistent (run pval alpha bs st hist) := by
  induction hist generalizing st with
  | nil => exact hst
  | cons c rest ih =>
    obtain ⟨cp, cf⟩ := c
    exact ih _ (consistent_callback pval alpha bs hbs st hst cp (hh (cp, cf) (List.mem_cons_self ..)) cf)
      (fun c hc => hh c (List.mem_cons_of_mem _ hc))

/-- the frozen policy is always the initial one or one of the candidates seen -/
theorem policy_mem_run (pval : List K → List K → K) (alpha : K) (bs : Nat) (st : St Inst K)
    (hist : List ((List Inst → List K) × List Inst)) :
    (run pval alpha bs st hist).policy = st.policy ∨ ∃ c ∈ hist, (run pval alpha bs st hist).policy = c.1 := by
  induction hist generalizing st with
  | nil => exact Or.inl rfl
  | cons c rest ih =>
    obtain ⟨cp, cf⟩ := c
    rcases ih (epochCallback pval alpha bs st cp cf) with h | ⟨c', hc', h⟩
    · simp only [run]
      rw [h]
      simp only [epochCallback]
      split
      · exact Or.inr ⟨(cp, cf), List.mem_cons_self .., rfl⟩
      · exact Or.inl rfl
    · exact Or.inr ⟨c', List.mem_cons_of_mem _ hc', h⟩

omit [LinearOrder K] in
/-- **what the property states** (C17 clause, C16's baseline value): item `i` of the wrapped training set carries the
frozen policy's reward on instance `i`, whatever the evaluation batch size. -/
theorem wrap_value (st : St Inst K) (hst : Consistent st) (bs : Nat) (hbs : 0 < bs) (ds : List Inst) (d : Inst) (dK : K)
    (i : Nat) (hi : i < ds.length) :
    ∃ g : Inst → K, (∀ xs, st.policy xs = xs.map g) ∧ wrap st bs ds d dK i = (ds[i], g ds[i]) := by
  obtain ⟨g, hg, _, _⟩ := hst
  exact ⟨g, hg, wrap_aligned st.policy g hg bs hbs ds d dK i hi⟩

omit [LinearOrder K] in
/-- … and the REINFORCE loss on such a batch: `−mean((R_i − g(x_i))·ll_i)`, gradient `−mean((R_i − g(x_i))·d ll_i)`. -/
theorem reinforce_rollout (n : Nat) (g : Nat → K) (R ll : Nat → Dual K) (hR : ∀ i, i < n → (R i).d = 0) :
    ∃ out, calcLoss ScaleOp.off (Ten.vec n R) (Ten.vec n (fun i => Dual.const (g i))) (Ten.vec n ll) 0 = some out ∧
      out.loss.v = Spec.Train.reinforce n (fun i => (R i).v) g (fun i => (ll i).v) 0 ∧
      out.loss.d = Spec.Train.reinforceGrad n (fun i => (R i).v) g (fun i => (ll i).d) 0 := by
  obtain ⟨out, h, _, hv, hd⟩ := reinforce_vec ScaleOp.off n R (fun i => Dual.const (g i)) ll 0
  refine ⟨out, h, ?_, ?_⟩
  · rw [hv]; simp [Spec.Train.reinforce, ScaleOp.applyK]
  · rw [hd (fun i hi => ⟨hR i hi, rfl⟩)]; simp [Spec.Train.reinforceGrad, ScaleOp.applyK]

section decision
variable [IsStrictOrderedRing K]

/-- **The decision of `epoch_callback`, stated outright**: replace ⇔ the candidate's mean reward on the evaluation set
exceeds the stored baseline mean AND the one-sided p-value is below `bl_alpha`. -/
theorem accepts_iff (pval : List K → List K → K) (alpha : K) (st : St Inst K) (candVals : List K) :
    accepts pval alpha st candVals = true ↔ (st.mean < lmean candVals ∧ pval candVals st.blVals < alpha) := by
  simp only [accepts, Bool.and_eq_true, decide_eq_true_eq, sub_pos]

omit [LinearOrder K] [IsStrictOrderedRing K] in
theorem sum_zipWith_sub (a b : List K) (h : a.length = b.length) :
    (List.zipWith (fun x y => x - y) a b).sum = a.sum - b.sum := by
  induction a generalizing b with
  | nil => cases b <;> simp_all
  | cons x xs ih =>
    cases b with
    | nil => simp at h
    | cons y ys =>
      simp only [List.zipWith_cons_cons, List.sum_cons, ih ys (by simpa using h)]
      ring

/-- the paired t statistic of the cost differences `(-candidate) - (-baseline)` as `ttest_rel` computes it:
`mean(d) / (s_d / sqrt n)`; `sq` is the square root -/
def tstat (sq : K → K) (bl cand : List K) : K :=
  let d := List.zipWith (fun x y => x - y) bl cand
  lmean d / (sq (Rl4co.Spec.Train.sampleVar d) / sq (d.length : K))

/-- **`assert t < 0` never fires.**  Whenever the test is run at all (the candidate is better on average) and the
differences are not all equal (positive standard error), the t statistic is negative — so the one-sided p-value
`p / 2` is the probability of an improvement at least this large under the null hypothesis. -/
theorem tstat_neg (sq : K → K) (bl cand : List K) (hlen : bl.length = cand.length) (hne : cand ≠ [])
    (hbetter : 0 < lmean cand - lmean bl)
    (hse : 0 < sq (Rl4co.Spec.Train.sampleVar (List.zipWith (fun x y => x - y) bl cand))
              / sq ((List.zipWith (fun x y => x - y) bl cand).length : K)) :
    tstat sq bl cand < 0 := by
  have hn : 0 < (cand.length : K) := Nat.cast_pos.mpr (List.length_pos_of_ne_nil hne)
  have hmean : lmean (List.zipWith (fun x y => x - y) bl cand) = lmean bl - lmean cand := by
    simp only [lmean, sum_zipWith_sub bl cand hlen, List.length_zipWith, hlen, Nat.min_self]
    field_simp
  unfold tstat
  simp only
  rw [hmean]
  exact div_neg_of_neg_of_pos (by linarith) hse

end decision

/-- Non-vacuity: instances are numbers, frozen policy `x ↦ -x`, candidate `x ↦ -x/2` (better), p-value oracle 0:
the callback replaces the policy and re-evaluates on the fresh set `[4, 6]`: `bl_vals = [-2, -3]`, mean `-5/2`. -/
example :
    let st := setup (K := Rat) 2 (fun xs => xs.map (fun x : Rat => -x)) [1, 2, 3]
    let st' := epochCallback (fun _ _ => 0) (1 / 20) 2 st (fun xs => xs.map (fun x : Rat => -x / 2)) [4, 6]
    st.blVals = [-1, -2, -3] ∧ st'.blVals = [-2, -3] ∧ st'.mean = -5 / 2 := by
  decide +kernel

end Rl4co.Train.RolloutBl
