/-
C16 — SymNCO at the level of the loss, as equations on the flat rollout (layout `k = f·B + b`, `f = s·A + a`).

* `symnco_dim1_flat`, `symnco_dimLast_flat`, `symnco_loss_flat`: for ALL `S, A ≥ 2` the loss the code computes is
  `−mean((R − blockMean_S)·ll) + beta·(−mean((R − strideMean_S)·ll)) + alpha·inv`, where the two baselines are named
  explicitly (`Spec.Train.blockMeanFlat`, `strideMeanFlat`): blocks of `S` consecutive (start, aug) pairs and classes of
  pairs congruent modulo `S` — this is the exact statement of the finding for `S ≠ A`;
* `symnco_loss_eq_reference_of_eq`: for `n_start = n_aug` the loss (value and gradient) EQUALS the reference surrogate
  (`symncoRefY`) — the partial theorem, previously proved only for the index map, now for the loss.
-/
import Rl4co.Props.C16.TrainSymnco
namespace Rl4co.Train
open Rl4co.Spec.Train
variable {K : Type} [Field K]

/-- a flat sum over `k = (r·S + q)·B + b` is the triple sum over `b < B`, `q < S`, `r < A` -/
theorem sumTo_flat3 (S A B : Nat) (G : Nat → K) :
    sumTo (S * A * B) G = sumTo B (fun b => sumTo S (fun q => sumTo A (fun r => G ((r * S + q) * B + b)))) := by
  rw [show S * A * B = (A * S) * B by ring, sumTo_mul (A * S) B, sumTo_mul A S]
  -- Σ_r Σ_q Σ_b  →  Σ_b Σ_q Σ_r
  rw [sumTo_comm A S]
  rw [show (fun j => sumTo A fun i => sumTo B fun b => G ((i * S + j) * B + b))
        = (fun j => sumTo B fun b => sumTo A fun i => G ((i * S + j) * B + b)) from
      funext fun j => sumTo_comm A B _]
  rw [sumTo_comm S B]

theorem flat_index (S B r q b : Nat) (hq : q < S) (hb : b < B) :
    ((r * S + q) * B + b) / B = r * S + q ∧ ((r * S + q) * B + b) % B = b ∧ (r * S + q) / S = r ∧ (r * S + q) % S = q := by
  have hB : 0 < B := by omega
  have hS : 0 < S := by omega
  refine ⟨?_, ?_, ?_, ?_⟩
  · rw [Nat.mul_comm, Nat.mul_add_div hB, Nat.div_eq_of_lt hb, Nat.add_zero]
  · rw [Nat.mul_comm, Nat.mul_add_mod, Nat.mod_eq_of_lt hb]
  · rw [Nat.mul_comm, Nat.mul_add_div hS, Nat.div_eq_of_lt hq, Nat.add_zero]
  · rw [Nat.mul_comm, Nat.mul_add_mod, Nat.mod_eq_of_lt hq]

/-- **C16 (SymNCO), the dim-1 term as an equation on the flat rollout.**  For every `S, A ≥ 1`, `B`: the term is the
surrogate whose baseline for rollout `k` is the mean over the BLOCK of `S` consecutive flat group indices around it
(`blockMeanFlat`) — value and, the reward being gradient-free, directional derivative. -/
theorem symnco_dim1_flat (S A B : Nat) (hS : 0 < S) (hA : 0 < A) (R ll : Nat → Dual K) (hR : ∀ k, (R k).d = 0) :
    let T := symncoRegroup S A (S * A * B) R
    let L := symncoRegroup S A (S * A * B) ll
    (lossDim1 T L).v = surrogate (S * A * B) (fun k => (R k).v - blockMeanFlat B S (fun k => (R k).v) k) (fun k => (ll k).v) ∧
    (lossDim1 T L).d = surrogate (S * A * B) (fun k => (R k).v - blockMeanFlat B S (fun k => (R k).v) k) (fun k => (ll k).d) := by
  intro T L
  have hT := fun b q r => symnco_regroup_index S A B hS hA R b q r
  have hL := fun b q r => symnco_regroup_index S A B hS hA ll b q r
  have hnb : T.nb = B := (hT 0 0 0).1
  have hns : T.ns = S := (hT 0 0 0).2.1
  have hna : T.na = A := (hT 0 0 0).2.2.1
  have hTf : ∀ b q r, T.f b q r = R ((r * S + q) * B + b) := fun b q r => (hT b q r).2.2.2
  have hLf : ∀ b q r, L.f b q r = ll ((r * S + q) * B + b) := fun b q r => (hL b q r).2.2.2
  have key : ∀ (sel : Dual K → K),
      sumTo T.nb (fun b => sumTo T.ns (fun q => sumTo T.na (fun r =>
          ((T.f b q r).v - sumTo T.ns (fun q' => (T.f b q' r).v) / (T.ns : K)) * sel (L.f b q r))))
        = sumTo (S * A * B) (fun k => ((R k).v - blockMeanFlat B S (fun k => (R k).v) k) * sel (ll k)) := by
    intro sel
    rw [sumTo_flat3 S A B, hnb, hns, hna]
    apply sumTo_congr; intro b hb
    apply sumTo_congr; intro q hq
    apply sumTo_congr; intro r _
    obtain ⟨h1, h2, h3, _⟩ := flat_index S B r q b hq hb
    simp only [hTf, hLf, blockMeanFlat, h1, h2, h3]
  have hcast : ((T.nb * T.ns * T.na : Nat) : K) = ((S * A * B : Nat) : K) := by
    rw [hnb, hns, hna]; congr 1; ring
  obtain ⟨hv, hd⟩ := symnco_dim1 T L (fun b q r => by rw [hTf]; exact hR _)
  constructor
  · rw [hv, key (fun x => x.v), hcast]; rfl
  · rw [hd, key (fun x => x.d), hcast]; rfl

theorem symnco_dimLast_flat (S A B : Nat) (hS : 0 < S) (hA : 0 < A) (R ll : Nat → Dual K) (hR : ∀ k, (R k).d = 0) :
    let T := symncoRegroup S A (S * A * B) R
    let L := symncoRegroup S A (S * A * B) ll
    (lossDimLast T L).v = surrogate (S * A * B) (fun k => (R k).v - strideMeanFlat B S A (fun k => (R k).v) k) (fun k => (ll k).v) ∧
    (lossDimLast T L).d = surrogate (S * A * B) (fun k => (R k).v - strideMeanFlat B S A (fun k => (R k).v) k) (fun k => (ll k).d) := by
  intro T L
  have hT := fun b q r => symnco_regroup_index S A B hS hA R b q r
  have hL := fun b q r => symnco_regroup_index S A B hS hA ll b q r
  have hnb : T.nb = B := (hT 0 0 0).1
  have hns : T.ns = S := (hT 0 0 0).2.1
  have hna : T.na = A := (hT 0 0 0).2.2.1
  have hTf : ∀ b q r, T.f b q r = R ((r * S + q) * B + b) := fun b q r => (hT b q r).2.2.2
  have hLf : ∀ b q r, L.f b q r = ll ((r * S + q) * B + b) := fun b q r => (hL b q r).2.2.2
  have key : ∀ (sel : Dual K → K),
      sumTo T.nb (fun b => sumTo T.ns (fun q => sumTo T.na (fun r =>
          ((T.f b q r).v - sumTo T.na (fun r' => (T.f b q r').v) / (T.na : K)) * sel (L.f b q r))))
        = sumTo (S * A * B) (fun k => ((R k).v - strideMeanFlat B S A (fun k => (R k).v) k) * sel (ll k)) := by
    intro sel
    rw [sumTo_flat3 S A B, hnb, hns, hna]
    apply sumTo_congr; intro b hb
    apply sumTo_congr; intro q hq
    apply sumTo_congr; intro r _
    obtain ⟨h1, h2, _, h4⟩ := flat_index S B r q b hq hb
    simp only [hTf, hLf, strideMeanFlat, h1, h2, h4]
  have hcast : ((T.nb * T.ns * T.na : Nat) : K) = ((S * A * B : Nat) : K) := by
    rw [hnb, hns, hna]; congr 1; ring
  obtain ⟨hv, hd⟩ := symnco_dimLast T L (fun b q r => by rw [hTf]; exact hR _)
  constructor
  · rw [hv, key (fun x => x.v), hcast]; rfl
  · rw [hd, key (fun x => x.d), hcast]; rfl

/-- **C16 (SymNCO), the loss as an equation on the flat rollout, all `S, A ≥ 2`.**
`loss = −mean((R − blockMean_S)·ll) + beta·(−mean((R − strideMean_S)·ll)) + alpha·loss_inv`, value and derivative:
the "problem-symmetricity" baseline is the mean over blocks of `S` consecutive (start, augmentation) pairs in
start-major order, the "solution-symmetricity" baseline the mean over the pairs whose flat index is congruent modulo `S`
— semantic groups exactly when `S = A` (`symnco_loss_eq_reference_of_eq`). -/
theorem symnco_loss_flat (S A B : Nat) (hS : 2 ≤ S) (hA : 2 ≤ A) (alpha beta : K) (R ll : Nat → Dual K) (inv : Dual K)
    (hR : ∀ k, (R k).d = 0) :
    let o := symncoLoss S A (S * A * B) alpha beta R ll inv
    let Rv := fun k => (R k).v
    o.loss.v = surrogate (S * A * B) (fun k => Rv k - blockMeanFlat B S Rv k) (fun k => (ll k).v)
        + beta * surrogate (S * A * B) (fun k => Rv k - strideMeanFlat B S A Rv k) (fun k => (ll k).v) + alpha * inv.v ∧
    o.loss.d = surrogate (S * A * B) (fun k => Rv k - blockMeanFlat B S Rv k) (fun k => (ll k).d)
        + beta * surrogate (S * A * B) (fun k => Rv k - strideMeanFlat B S A Rv k) (fun k => (ll k).d) + alpha * inv.d := by
  intro o Rv
  obtain ⟨h1v, h1d⟩ := symnco_dim1_flat S A B (by omega) (by omega) R ll hR
  obtain ⟨h2v, h2d⟩ := symnco_dimLast_flat S A B (by omega) (by omega) R ll hR
  have hps : o.ps = lossDim1 (symncoRegroup S A (S * A * B) R) (symncoRegroup S A (S * A * B) ll) := by
    simp only [o, symncoLoss]; rw [if_pos (by omega)]
  have hss : o.ss = lossDimLast (symncoRegroup S A (S * A * B) R) (symncoRegroup S A (S * A * B) ll) := by
    simp only [o, symncoLoss]; rw [if_pos (by omega)]
  obtain ⟨hv, hd, _, _⟩ := symnco_total S A (S * A * B) alpha beta R ll inv
  constructor
  · rw [hv, hps, hss, h1v, h2v]
  · rw [hd, hps, hss, h1d, h2d]

/-- **Partial, now at the level of the loss (was: index level only).**  When `n_start = n_aug = S ≥ 2` the SymNCO loss
IS the reference surrogate in the reading of `losses.py`'s docstrings (problem-symmetricity baseline = mean over the
augmentations of the same start, solution-symmetricity baseline = mean over the starts of the same augmentation),
for every batch size, every rollout, every `alpha`, `beta` — value and directional derivative. -/
theorem symnco_loss_eq_reference_of_eq (S B : Nat) (hS : 2 ≤ S) (alpha beta : K) (R ll : Nat → Dual K) (inv : Dual K)
    (hR : ∀ k, (R k).d = 0) :
    let o := symncoLoss S S (S * S * B) alpha beta R ll inv
    o.loss.v = symncoRefY B S S beta (fun k => (R k).v) (fun k => (ll k).v) + alpha * inv.v ∧
    o.loss.d = symncoRefY B S S beta (fun k => (R k).v) (fun k => (ll k).d) + alpha * inv.d := by
  intro o
  obtain ⟨hv, hd⟩ := symnco_loss_flat S S B hS hS alpha beta R ll inv hR
  have hS0 : S ≠ 0 := by omega
  have hn : B * S * S = S * S * B := by ring
  constructor
  · rw [hv]; simp only [symncoRefY, if_neg hS0, if_pos (show 1 < S by omega), hn]; rfl
  · rw [hd]; simp only [symncoRefY, if_neg hS0, if_pos (show 1 < S by omega), hn]; rfl

/-- Non-vacuity: `S = A = 2`, `B = 1`, rewards `1, 2, 4, 8`, log-likelihoods `−1, −2, −3, −4`, `beta = 3`: code loss =
reference loss. -/
example :
    (symncoLoss 2 2 4 (0 : Rat) 3 (fun k => Dual.const ([1, 2, 4, 8].getD k 0)) (fun k => Dual.const ([-1, -2, -3, -4].getD k 0)) 0).loss.v
      = Spec.Train.symncoRefY 1 2 2 3 (fun k => [1, 2, 4, 8].getD k 0) (fun k => [-1, -2, -3, -4].getD k 0) := by
  decide +kernel

end Rl4co.Train
