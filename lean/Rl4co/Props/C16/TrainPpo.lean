/-
C16 — PPO (`PPO.shared_step`, the loss of one mini-batch): the loss is the clipped-ratio objective with the Huber
value term and the entropy bonus, and — at non-kink points of the clipping — its directional derivative is that of
the reference.  `exp` is an arbitrary function `w` whose dual-number rule is `d w(x) = w(x)·dx`.
-/
import Rl4co.Train.Loss
import Rl4co.Spec.Train
import Rl4co.Proofs.TrainSums
import Mathlib.Tactic.Ring
import Mathlib.Tactic.FieldSimp
import Mathlib.Tactic.Linarith
import Mathlib.Algebra.Order.Field.Basic

namespace Rl4co.Train
open Rl4co.Spec.Train
variable {K : Type} [Field K] [LinearOrder K] [IsStrictOrderedRing K]

/-! ### one sample -/

omit [IsStrictOrderedRing K] in
theorem clampD_v (lo hi : K) (x : Dual K) : (clampD lo hi x).v = clip lo hi x.v := by
  unfold clampD clip
  by_cases h1 : x.v < lo
  · simp [h1]
  · by_cases h2 : hi < x.v
    · simp [h1, h2]
    · by_cases h3 : lo < x.v ∧ x.v < hi <;> simp [h1, h2, h3]

omit [IsStrictOrderedRing K] in
theorem minD_v (a b : Dual K) : (minD a b).v = minK a.v b.v := by
  unfold minD minK
  by_cases h1 : a.v < b.v
  · simp [h1, not_lt.mpr (le_of_lt h1)]
  · by_cases h2 : b.v < a.v <;> simp [h1, h2]

theorem two_ne : ((2 : Nat) : K) ≠ 0 := by norm_num

theorem huberD_v (z : Dual K) : (huberD z).v = huber z.v := by
  unfold huberD huber
  by_cases h0 : z.v < 0
  · by_cases h1 : -z.v < 1
    · simp [h0, h1]; ring
    · simp [h0, h1]
  · by_cases h1 : z.v < 1
    · simp [h0, h1]; ring
    · simp [h0, h1]

theorem huberD_d (z : Dual K) : (huberD z).d = huber' z.v * z.d := by
  unfold huberD huber'
  by_cases h0 : z.v < 0
  · by_cases h1 : -z.v < 1
    · have h2 : ¬ z.v < -1 := by intro h; linarith
      have h3 : ¬ 1 < z.v := by intro h; linarith
      simp [h0, h1, h2, h3]; ring
    · have h2 : z.v ≤ -1 := by linarith [not_lt.mp h1]
      by_cases h3 : z.v < -1
      · simp [h0, h1, h3]
      · have h4 : z.v = -1 := le_antisymm h2 (not_lt.mp h3)
        have h5 : ¬ (1 : K) < -1 := by norm_num
        simp [h4, h5]
  · by_cases h1 : z.v < 1
    · have h2 : ¬ z.v < -1 := by intro h; linarith [not_lt.mp h0]
      have h3 : ¬ 1 < z.v := by intro h; linarith
      simp [h0, h1, h2, h3]; ring
    · have h2 : ¬ z.v < -1 := by intro h; linarith [not_lt.mp h0]
      by_cases h3 : 1 < z.v
      · simp [h0, h1, h2, h3]
      · have h4 : z.v = 1 := le_antisymm (not_lt.mp h3) (not_lt.mp h1)
        simp only [h0, h1, h2, h3, ↓reduceIte, Dual.sub_d, Dual.const_d, sub_zero]
        rw [h4, one_mul]

/-- the clipped-surrogate term of one sample: `min(ratio·A, clamp(ratio)·A)` -/
def surrElem (lo hi : K) (r : Dual K) (A : K) : Dual K :=
  minD (Dual.smul A r) (Dual.smul A (clampD lo hi r))

omit [IsStrictOrderedRing K] in
theorem surrElem_v (lo hi : K) (r : Dual K) (A : K) :
    (surrElem lo hi r A).v = minK (r.v * A) (clip lo hi r.v * A) := by
  simp only [surrElem, minD_v, Dual.smul_v, clampD_v, mul_comm A]

/-- at a non-kink point (`ratio ≠ 1 ± clip`) the derivative is `A·d ratio` when the unclipped term is the active
one and `0` otherwise -/
theorem surrElem_d (lo hi : K) (hlh : lo ≤ hi) (r : Dual K) (A : K) (hlo : r.v ≠ lo) (hhi : r.v ≠ hi) :
    (surrElem lo hi r A).d = if ppoActive lo hi r.v A then A * r.d else 0 := by
  unfold surrElem minD clampD ppoActive
  by_cases h1 : r.v < lo
  · have h2 : ¬ (lo < r.v ∧ r.v < hi) := fun h => absurd h.1 (not_lt.mpr (le_of_lt h1))
    have h3 : ¬ hi < r.v := fun h => absurd (lt_of_le_of_lt hlh h) (not_lt.mpr (le_of_lt h1))
    simp only [h1, h2, h3, if_true, if_false, Dual.smul_v, Dual.smul_d, Dual.const_v, Dual.const_d, mul_zero]
    rcases lt_trichotomy A 0 with hA | hA | hA
    · have : A * lo < A * r.v := mul_lt_mul_of_neg_left h1 hA
      simp [not_lt.mpr (le_of_lt this), this, not_lt.mpr (le_of_lt hA)]
    · simp [hA]
    · have : A * r.v < A * lo := mul_lt_mul_of_pos_left h1 hA
      simp [this, hA]
  · by_cases h2 : hi < r.v
    · have h3 : ¬ (lo < r.v ∧ r.v < hi) := fun h => absurd h.2 (not_lt.mpr (le_of_lt h2))
      simp only [h1, h2, h3, if_true, if_false, Dual.smul_v, Dual.smul_d, Dual.const_v, Dual.const_d, mul_zero]
      rcases lt_trichotomy A 0 with hA | hA | hA
      · have : A * r.v < A * hi := mul_lt_mul_of_neg_left h2 hA
        simp [this, hA]
      · simp [hA]
      · have : A * hi < A * r.v := mul_lt_mul_of_pos_left h2 hA
        simp [not_lt.mpr (le_of_lt this), this, not_lt.mpr (le_of_lt hA)]
    · have h3 : lo < r.v ∧ r.v < hi :=
        ⟨lt_of_le_of_ne (not_lt.mp h1) (Ne.symm hlo), lt_of_le_of_ne (not_lt.mp h2) hhi⟩
      simp only [h1, h2, h3, if_true, if_false, Dual.smul_v, Dual.smul_d, lt_irrefl, and_self]
      have : ((2 : Nat) : K) ≠ 0 := two_ne
      field_simp
      push_cast
      ring

theorem surr_d (lo hi : K) (hlh : lo ≤ hi) (r : Dual K) (A : K) (hlo : r.v ≠ lo) (hhi : r.v ≠ hi) :
    (minD (Dual.smul A r) (Dual.smul A (clampD lo hi r))).d = if ppoActive lo hi r.v A then A * r.d else 0 :=
  surrElem_d lo hi hlh r A hlo hhi

/-! ### one mini-batch -/

omit [LinearOrder K] [IsStrictOrderedRing K] in
theorem ppoNormFn_congr (norm : Option (K × K)) (t1 t2 : Ten K) (hs : t1.sh = t2.sh)
    (hsum : Ten.sumAll t1 = Ten.sumAll t2) : ppoNormFn norm t1 = ppoNormFn norm t2 := by
  cases norm with
  | none => rfl
  | some p => obtain ⟨std, eps⟩ := p; simp only [ppoNormFn, hs, hsum]

/-- the advantage the code uses: `reward − value_pred.detach()`, optionally normalised over the mini-batch -/
def ppoAdv (norm : Option (K × K)) (B : Nat) (R v : Nat → K) (i : Nat) : K :=
  ppoNormFn norm (Ten.mat B 1 (fun i _ => R i - v i)) (R i - v i)

/-- the probability ratio as a dual number: `exp(Σ_t ll_t − old_logp)` -/
def ppoRatio (w : K → K) (T : Nat) (ll : Nat → Nat → Dual K) (old : Nat → K) (i : Nat) : Dual K :=
  Dual.expw w (sumTo T (fun t => ll i t) - Dual.const (old i))

/-- **C16 `ppo_value` / `ppo_grad`.**  For a mini-batch of `B` samples with per-step log-likelihoods `[B,T]`,
stored old log-probabilities and rewards `[B]`, critic output `[B,1]` and entropies `[B]`: the code's loss block
succeeds, ratio and advantage have shape `[B,1]` (no `B×B` broadcast), the loss is

  `−mean_i min(r_i·A_i, clip(r_i)·A_i) + vf_lambda·mean_i huber(v_i − R_i) − entropy_lambda·mean_i h_i`

with `r_i = w(Σ_t ll_it − old_i)`, `A_i = R_i − v_i` (optionally normalised), and — the clipping bounds being
ordered and no ratio sitting exactly on one of them — its directional derivative is

  `−mean_i [unclipped term active]·A_i·r_i·dΣ_t ll_it + vf_lambda·mean_i huber'(v_i − R_i)·d v_i − entropy_lambda·mean_i d h_i`:

rewards, old log-probabilities and the value inside the advantage contribute no gradient. -/
theorem ppo_loss (cfg : PpoCfg K) (w : K → K) (B T : Nat) (ll : Nat → Nat → Dual K) (old R : Nat → K)
    (vp ent : Nat → Dual K) :
    ∃ out, ppoLoss cfg w (Ten.mat B T ll) (Ten.vec B old) (Ten.vec B R) (Ten.mat B 1 (fun i _ => vp i)) (Ten.vec B ent)
        = some out ∧ out.ratio.sh = Shape.m B 1 ∧ out.adv.sh = Shape.m B 1 ∧
      out.loss.v = ppo B cfg.clipLo cfg.clipHi cfg.vfLambda cfg.entLambda
          (fun i => (ppoRatio w T ll old i).v) (ppoAdv cfg.normalize B R (fun i => (vp i).v))
          (fun i => (vp i).v) R (fun i => (ent i).v) ∧
      (cfg.clipLo ≤ cfg.clipHi →
        (∀ i, i < B → (ppoRatio w T ll old i).v ≠ cfg.clipLo ∧ (ppoRatio w T ll old i).v ≠ cfg.clipHi) →
        out.loss.d = ppoGrad B cfg.clipLo cfg.clipHi cfg.vfLambda cfg.entLambda
          (fun i => (ppoRatio w T ll old i).v) (ppoAdv cfg.normalize B R (fun i => (vp i).v))
          (fun i => (vp i).v) R (fun i => sumTo T (fun t => (ll i t).d)) (fun i => (vp i).d) (fun i => (ent i).d)) := by
  cases h : ppoLoss cfg w (Ten.mat B T ll) (Ten.vec B old) (Ten.vec B R) (Ten.mat B 1 (fun i _ => vp i)) (Ten.vec B ent) with
  | none =>
    simp [ppoLoss, Ten.bop, Ten.vec, Ten.mat, Ten.sumLast, Ten.viewCol, Ten.map, bshape_vv, bshape_mm, Shape.numel,
      Shape.rows, Shape.cols] at h
  | some out =>
    simp only [ppoLoss, Ten.bop, Ten.vec, Ten.mat, Ten.sumLast, Ten.viewCol, Ten.map, bshape_vv, bshape_mm, Shape.numel,
      Shape.rows, Shape.cols, Nat.one_mul, Option.some.injEq] at h
    subst h
    have hn : ppoNormFn cfg.normalize { sh := Shape.m B 1, f := fun i j => R (i % B % B) - (vp (i % B)).v }
        = ppoNormFn cfg.normalize (Ten.mat B 1 (fun i _ => R i - (vp i).v)) := by
      refine ppoNormFn_congr _ _ _ (by rfl) ?_
      simp only [Ten.sumAll, Ten.mat, Shape.rows, Shape.cols]
      apply sumTo_congr
      intro i hi
      simp [Nat.mod_eq_of_lt hi]
    refine ⟨_, rfl, rfl, rfl, ?_, ?_⟩
    rotate_left
    · intro hlh hk
      simp only [Ten.meanAll, Ten.sumAll, Ten.get, Shape.rows, Shape.cols, Shape.numel, Nat.mul_one, Nat.one_mul,
        Dual.add_d, Dual.sub_d, Dual.neg_d, Dual.smul_d, Dual.divc_d, sumTo_d, sumTo_one, ppoGrad]
      rw [hn]
      congr 1
      · congr 1
        · congr 2
          apply sumTo_congr
          intro i hi
          simp only [Nat.mod_eq_of_lt hi]
          have := surr_d cfg.clipLo cfg.clipHi hlh (ppoRatio w T ll old i)
            (ppoAdv cfg.normalize B R (fun i => (vp i).v) i) (hk i hi).1 (hk i hi).2
          simp only [ppoRatio, ppoAdv] at this ⊢
          rw [this]
          simp only [Dual.expw_d, Dual.expw_v, Dual.sub_d, Dual.const_d, sub_zero, sumTo_d]
          rfl
        · congr 2
          apply sumTo_congr
          intro i hi
          simp only [Nat.mod_eq_of_lt hi, huberD_d, Dual.sub_v, Dual.sub_d, Dual.const_v, Dual.const_d,
            sub_zero]
    simp only [Ten.meanAll, Ten.sumAll, Ten.get, Shape.rows, Shape.cols, Shape.numel, Nat.mul_one, Nat.one_mul,
      Dual.add_v, Dual.sub_v, Dual.neg_v, Dual.smul_v, Dual.divc_v, sumTo_v, sumTo_one, ppo]
    rw [hn]
    congr 1
    · congr 1
      · congr 2
        apply sumTo_congr
        intro i hi
        simp only [Nat.mod_eq_of_lt hi, minD_v, Dual.smul_v, clampD_v, ppoRatio, ppoAdv, mul_comm]
      · congr 2
        apply sumTo_congr
        intro i hi
        simp only [Nat.mod_eq_of_lt hi, huberD_v, Dual.sub_v, Dual.const_v]

/-- Non-vacuity: two samples, one step, `w x = 1 + x`, clip range `[4/5, 6/5]`, `vf_lambda = 1/2`, no entropy
term.  Sample 0 has ratio 3/2 (clipped, positive advantage → inactive), sample 1 ratio 1 (active). -/
example :
    (ppoLoss (K := Rat) ⟨4/5, 6/5, 1/2, 0, none⟩ (fun x => 1 + x)
        (Ten.mat 2 1 (fun i _ => if i = 0 then ⟨-1/2, 1⟩ else ⟨-1, 2⟩))
        (Ten.vec 2 (fun _ => -1)) (Ten.vec 2 (fun i => if i = 0 then -2 else -3))
        (Ten.mat 2 1 (fun i _ => if i = 0 then ⟨-3, 1⟩ else ⟨-5/2, -1⟩)) (Ten.vec 2 (fun _ => ⟨1, 0⟩))).map
      (fun o => (o.loss.v, o.loss.d, o.adv.sh)) = some (-31/160, 1/8, Shape.m 2 1) := by
  decide +kernel

end Rl4co.Train
