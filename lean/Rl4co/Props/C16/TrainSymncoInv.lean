/-
C16 (auxiliary term of the symmetric variant) — `symnco/losses.py:invariance_loss`.

The projected embeddings have one row per AUGMENTED instance, laid out augmentation-outer / instance-inner
(`row = a·B + b`, what `batchify(td, n_aug)` produces).  The loss rearranges them with `"(b a) ... -> b a ..."`, i.e. it
reads row `b'·A + i` as "instance b', augmentation i", and compares rows `b'·A` and `b'·A + i`.

* `invariance_pairs_statement` — "the two rows compared belong to the same instance" — is FALSE (`A = 2, B = 3`:
  rows 0 and 1 are instances 0 and 1 under the same augmentation);
* partial: it holds for a single instance (`B = 1`), and the rows compared always belong to the batch (`< A·B`).
The term is outside the clauses of C16 (it is no policy-gradient surrogate); the statement is recorded because the
same layout confusion is behind the C16 finding on the regrouping.
-/
import Rl4co.Props.C16.TrainCoded

namespace Rl4co.Train

/-- instance of a row of the augmented batch (layout `row = a·B + b`) -/
def instOfRow (B row : Nat) : Nat := row % B

/-- "every pair of rows `invariance_loss` compares shows the SAME instance under two augmentations" -/
def invariance_pairs_statement : Prop :=
  ∀ A B : Nat, 2 ≤ A → 1 ≤ B → ∀ b, b < B → ∀ i, i < A →
    instOfRow B (invRowsC A B b i).1 = instOfRow B (invRowsC A B b i).2

instance : Decidable (∀ b, b < 3 → ∀ i, i < 2 → instOfRow 3 (invRowsC 2 3 b i).1 = instOfRow 3 (invRowsC 2 3 b i).2) := by
  infer_instance

/-- **Observation (outside C16's clauses).**  With 2 augmentations and 3 instances the first pair compared is rows
`(0, 1)` = instances 0 and 1. -/
theorem invariance_pairs_counterexample : ¬ invariance_pairs_statement := by
  intro h
  have := h 2 3 (by decide) (by decide) 0 (by decide) 1 (by decide)
  revert this
  decide

/-- partial: a single instance -/
theorem invariance_pairs_single (A : Nat) (b i : Nat) :
    instOfRow 1 (invRowsC A 1 b i).1 = instOfRow 1 (invRowsC A 1 b i).2 := by
  simp [instOfRow, Nat.mod_one]

/-- the rows compared always lie inside the augmented batch -/
theorem invariance_rows_in_range (A B b i : Nat) (hb : b < B) (hi : i < A) :
    (invRowsC A B b i).1 < A * B ∧ (invRowsC A B b i).2 < A * B := by
  rw [invRowsC_eq]
  have h1 : b * A + i < (b + 1) * A := by rw [Nat.succ_mul]; omega
  have h2 : (b + 1) * A ≤ B * A := Nat.mul_le_mul_right A hb
  have h3 : b * A ≤ b * A + i := Nat.le_add_right _ _
  refine ⟨?_, ?_⟩ <;> rw [Nat.mul_comm A B] <;> omega

end Rl4co.Train
