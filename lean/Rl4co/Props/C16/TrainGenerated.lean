/-
C16 on the definitions that `harness/pytrans.py` REGENERATES from the Python source on every run
(`Rl4co/Generated/Losses.lean`: `REINFORCE.calculate_loss`, `CriticBaseline.eval`, `SharedBaseline.eval`
translated statement by statement into shaped tensors of dual numbers, `none` = torch raises).

* bridging lemmas `gen_*_eq`: the generated definition is the hand-written model;
* the C16 clauses restated on the generated definitions: REINFORCE with a per-instance baseline, with a
  scalar baseline, with the shared (multi-start) baseline, and A2C (critic baseline): loss value = the
  reference surrogate, derivative = the derivative of the reference surrogate (reward and baseline value
  carrying no gradient).
-/
import Rl4co.Generated.Losses
import Rl4co.Props.C16.TrainReinforce

set_option linter.unusedTactic false
set_option linter.unreachableTactic false

namespace Rl4co.Train.GenBridge
open Rl4co.Spec.Train
variable {K : Type} [Field K]

theorem dual_add_comm (a b : Dual K) : a + b = b + a := by
  cases a; cases b
  show Dual.mk _ _ = Dual.mk _ _
  congr 1 <;> exact add_comm _ _

/-- the generated `calculate_loss` is the model's `calcLoss` (same failure cases, same three outputs) -/
theorem gen_reinforce_eq (sc : ScaleOp K) (reward blVal ll : Ten (Dual K)) (blLoss : Dual K) :
    Numeric.reinforceLoss sc reward blVal ll blLoss
      = (calcLoss sc reward blVal ll blLoss).map (fun o => (o.loss, o.reinforceLoss, o.adv)) := by
  unfold Numeric.reinforceLoss calcLoss
  cases h1 : Ten.bop (fun r b => r - b) reward blVal with
  | none => simp
  | some adv0 =>
    simp only [h1, Option.bind_eq_bind, Option.bind_some, Option.pure_def]
    cases h2 : Ten.bop (fun a l => a * l) (Ten.map sc.apply adv0) ll with
    | none => simp
    | some prod => simp [dual_add_comm blLoss]   -- the translator emits `+` in canonical operand order

/-- the generated `CriticBaseline.eval` is the model's `Critic.eval` -/
theorem gen_critic_eq (out c : Ten (Dual K)) : Numeric.criticEval out c = Critic.eval out c := by
  unfold Numeric.criticEval Critic.eval Critic.mse
  cases h : Ten.bop (fun a b => (a - b) * (a - b)) (Ten.squeezeLast out) (Ten.map Dual.detach c) with
  | none => simp [h]
  | some t => simp [h]

/-- the generated `SharedBaseline.eval` is the model's `sharedEval` (it never raises) -/
theorem gen_shared_eq (reward : Ten (Dual K)) : Numeric.sharedEval reward = some (sharedEval reward) := rfl

/-- **C16 on the regenerated code, REINFORCE with a per-instance baseline** (rollout / critic values `[n]`,
any advantage scaling): the loss is `−(1/n) Σ sc(R_i − b_i)·ll_i + bl_loss` and — reward and baseline value
carrying no gradient — its derivative is `−(1/n) Σ sc(R_i − b_i)·d ll_i + d bl_loss`. -/
theorem gen_reinforce_vec (sc : ScaleOp K) (n : Nat) (R b ll : Nat → Dual K) (bl : Dual K) :
    ∃ loss rl adv, Numeric.reinforceLoss sc (Ten.vec n R) (Ten.vec n b) (Ten.vec n ll) bl = some (loss, rl, adv) ∧
      adv.sh = Shape.v n ∧
      loss.v = surrogate n (fun i => sc.applyK ((R i).v - (b i).v)) (fun i => (ll i).v) + bl.v ∧
      ((∀ i, i < n → (R i).d = 0 ∧ (b i).d = 0) →
        loss.d = surrogate n (fun i => sc.applyK ((R i).v - (b i).v)) (fun i => (ll i).d) + bl.d) := by
  obtain ⟨out, h, hs, hv, hd⟩ := reinforce_vec sc n R b ll bl
  exact ⟨out.loss, out.reinforceLoss, out.adv, by rw [gen_reinforce_eq, h]; rfl, hs, hv, hd⟩

/-- **C16 on the regenerated code, REINFORCE with a scalar baseline** (exponential / mean / no baseline). -/
theorem gen_reinforce_scalar (sc : ScaleOp K) (n : Nat) (R ll : Nat → Dual K) (b bl : Dual K) :
    ∃ loss rl adv, Numeric.reinforceLoss sc (Ten.vec n R) (Ten.scalar b) (Ten.vec n ll) bl = some (loss, rl, adv) ∧
      adv.sh = Shape.v n ∧
      loss.v = surrogate n (fun i => sc.applyK ((R i).v - b.v)) (fun i => (ll i).v) + bl.v ∧
      ((∀ i, i < n → (R i).d = 0) → b.d = 0 →
        loss.d = surrogate n (fun i => sc.applyK ((R i).v - b.v)) (fun i => (ll i).d) + bl.d) := by
  obtain ⟨out, h, hs, hv, hd⟩ := reinforce_scalar sc n R ll b bl
  exact ⟨out.loss, out.reinforceLoss, out.adv, by rw [gen_reinforce_eq, h]; rfl, hs, hv, hd⟩

/-- **C16 on the regenerated code, shared baseline (POMO)**: the regenerated `SharedBaseline.eval` fed into
the regenerated `calculate_loss`; reward and log-likelihood `[B,S]`: the advantage has shape `[B,S]`, the
loss is the shared-baseline surrogate and, the reward carrying no gradient, so is its derivative. -/
theorem gen_reinforce_shared (B S : Nat) (R ll : Nat → Nat → Dual K) :
    ∃ val l loss rl adv, Numeric.sharedEval (Ten.mat B S R) = some (val, l) ∧
      Numeric.reinforceLoss ScaleOp.off (Ten.mat B S R) val (Ten.mat B S ll) l = some (loss, rl, adv) ∧
      adv.sh = Shape.m B S ∧
      loss.v = sharedSurrogate B S (fun b s => (R b s).v) (fun b s => (ll b s).v) ∧
      ((∀ b s, b < B → s < S → (R b s).d = 0) →
        loss.d = sharedSurrogate B S (fun b s => (R b s).v) (fun b s => (ll b s).d)) := by
  obtain ⟨out, h, hs, hv, hd⟩ := reinforce_shared B S R ll
  exact ⟨(sharedEval (Ten.mat B S R)).1, (sharedEval (Ten.mat B S R)).2, out.loss, out.reinforceLoss, out.adv,
    by rw [gen_shared_eq], by rw [gen_reinforce_eq, h]; rfl, hs, hv, hd⟩

/-- **C16 on the regenerated code, A2C** = the regenerated `calculate_loss` fed with the regenerated
`CriticBaseline.eval`: with the critic's output `o` of shape `[n,1]` the loss is
`−mean((R − o)·ll) + mse(o, R)` and its derivative `−mean((R − o)·d ll) + (2/n) Σ (o_i − R_i)·d o_i`. -/
theorem gen_a2c_loss (n : Nat) (R ll o : Nat → Dual K) (hR : ∀ i, i < n → (R i).d = 0) :
    ∃ val l loss rl adv, Numeric.criticEval (Ten.mat n 1 (fun i _ => o i)) (Ten.vec n R) = some (val, l) ∧
      Numeric.reinforceLoss ScaleOp.off (Ten.vec n R) val (Ten.vec n ll) l = some (loss, rl, adv) ∧
      adv.sh = Shape.v n ∧
      loss.v = reinforce n (fun i => (R i).v) (fun i => (o i).v) (fun i => (ll i).v)
                  (mse n (fun i => (o i).v) (fun i => (R i).v)) ∧
      loss.d = reinforceGrad n (fun i => (R i).v) (fun i => (o i).v) (fun i => (ll i).d)
                  (mseGrad n (fun i => (o i).v) (fun i => (R i).v) (fun i => (o i).d)) := by
  obtain ⟨val, l, out, he, hc, hs, hv, hd⟩ := a2c_loss n R ll o hR
  exact ⟨val, l, out.loss, out.reinforceLoss, out.adv, by rw [gen_critic_eq, he],
    by rw [gen_reinforce_eq, hc]; rfl, hs, hv, hd⟩

/-- Non-vacuity: two instances, per-instance baseline, over ℚ. -/
example :
    (Numeric.reinforceLoss (ScaleOp.off : ScaleOp Rat) (Ten.vec 2 (fun i => Dual.const (i + 1 : Nat)))
      (Ten.vec 2 (fun _ => Dual.const 1)) (Ten.vec 2 (fun _ => ⟨-1, 1⟩)) 0).map (fun r => (r.1.v, r.1.d))
      = some (1 / 2, -1 / 2) := by
  simp [Numeric.reinforceLoss, Ten.bop, Ten.vec, bshape, bdim, Shape.rows, Shape.cols, Shape.rank, Shape.ofRank,
    Ten.map, ScaleOp.apply, Ten.meanAll, Ten.sumAll, Ten.get, Shape.numel, sumTo, Dual.divc, Dual.const]
  norm_num

end Rl4co.Train.GenBridge
