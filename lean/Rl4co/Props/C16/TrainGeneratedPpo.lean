/-
C16 (PPO) on the definition that `harness/pytrans.py` REGENERATES from `PPO.shared_step` on every run
(`Rl4co/Generated/Ppo.lean`: previous_reward, ratio, adv, surrogate_loss, value_loss, loss — statement by
statement, for `normalize_adv = False`).

* `gen_ppo_eq`: the generated definition is the hand-written `ppoLoss` with `clipLo = 1 − clip_range`,
  `clipHi = 1 + clip_range`, no advantage normalisation;
* `gen_ppo_loss`, `gen_ppo_loss_all`: the clipped-ratio objective with value and entropy terms, value and
  directional derivative, restated on the generated definition.
-/
import Rl4co.Generated.Ppo
import Rl4co.Props.C16.TrainPpoKink

set_option linter.unusedTactic false
set_option linter.unreachableTactic false
set_option linter.unusedSimpArgs false

namespace Rl4co.Train.GenBridge
open Rl4co.Spec.Train
set_option linter.unusedSectionVars false
variable {K : Type} [Field K] [LinearOrder K] [IsStrictOrderedRing K]

/-- the configuration the generated code works with -/
def genCfg (c vf el : K) : PpoCfg K := ⟨1 - c, 1 + c, vf, el, none⟩

/-- the generated loss block is the model's `ppoLoss` (same failure cases, same outputs) -/
theorem gen_ppo_eq (w : K → K) (c vf el : K) (ll : Ten (Dual K)) (oldLogp reward : Ten K)
    (valuePred entropy : Ten (Dual K)) :
    Numeric.ppoLoss w c vf el ll oldLogp reward valuePred entropy
      = (ppoLoss (genCfg c vf el) w ll oldLogp reward valuePred entropy).map
          (fun o => (o.loss, o.surrogate, o.valueLoss, o.ratio, o.adv)) := by
  unfold Numeric.ppoLoss ppoLoss genCfg
  simp only [ppoNormFn, Option.bind_eq_bind, Option.pure_def]
  cases h1 : Ten.bop (fun a b => a - Dual.const b) (Ten.sumLast ll) oldLogp with
  | none => simp
  | some diff =>
    simp only [Option.bind_some]
    cases h2 : Ten.bop (fun r v => r - v) (Ten.viewCol reward) (Ten.map (fun x => x.v) valuePred) with
    | none => simp
    | some adv0 =>
      simp only [Option.bind_some]
      have hid : Ten.map (fun a => a) adv0 = adv0 := rfl
      rw [hid]
      cases h3 : Ten.bop (fun r a => Dual.smul a r) (Ten.viewCol (Ten.map (Dual.expw w) diff)) adv0 with
      | none => simp
      | some t1 =>
        simp only [Option.bind_some]
        cases h4 : Ten.bop (fun r a => Dual.smul a r)
            (Ten.map (clampD (1 - c) (1 + c)) (Ten.viewCol (Ten.map (Dual.expw w) diff))) adv0 with
        | none => simp
        | some t2 =>
          simp only [Option.bind_some]
          cases h5 : Ten.bop minD t1 t2 with
          | none => simp
          | some mn =>
            simp only [Option.bind_some]
            cases h6 : Ten.bop (fun v r => huberD (v - Dual.const r)) valuePred (Ten.viewCol reward) with
            | none => simp
            | some hub => simp

/-- **C16 on the regenerated PPO code (value and gradient off the kinks).**  Mini-batch of `B` samples,
per-step log-likelihoods `[B,T]`, stored old log-probabilities and rewards `[B]`, critic output `[B,1]`,
entropies `[B]`: the regenerated loss block succeeds, ratio and advantage have shape `[B,1]`, the loss is the
clipped-ratio objective plus `vf_lambda`·Huber value loss minus `entropy_lambda`·mean entropy, and — no ratio
sitting exactly on a clipping bound — its directional derivative is that of the reference surrogate. -/
theorem gen_ppo_loss (w : K → K) (c vf el : K) (B T : Nat) (ll : Nat → Nat → Dual K) (old R : Nat → K)
    (vp ent : Nat → Dual K) :
    ∃ loss sl vl ratio adv,
      Numeric.ppoLoss w c vf el (Ten.mat B T ll) (Ten.vec B old) (Ten.vec B R) (Ten.mat B 1 (fun i _ => vp i))
          (Ten.vec B ent) = some (loss, sl, vl, ratio, adv) ∧
      ratio.sh = Shape.m B 1 ∧ adv.sh = Shape.m B 1 ∧
      loss.v = ppo B (1 - c) (1 + c) vf el (fun i => (ppoRatio w T ll old i).v)
          (ppoAdv none B R (fun i => (vp i).v)) (fun i => (vp i).v) R (fun i => (ent i).v) ∧
      (0 ≤ c →
        (∀ i, i < B → (ppoRatio w T ll old i).v ≠ 1 - c ∧ (ppoRatio w T ll old i).v ≠ 1 + c) →
        loss.d = ppoGrad B (1 - c) (1 + c) vf el (fun i => (ppoRatio w T ll old i).v)
          (ppoAdv none B R (fun i => (vp i).v)) (fun i => (vp i).v) R
          (fun i => sumTo T (fun t => (ll i t).d)) (fun i => (vp i).d) (fun i => (ent i).d)) := by
  obtain ⟨out, h, hr, ha, hv, hd⟩ := ppo_loss (genCfg c vf el) w B T ll old R vp ent
  refine ⟨out.loss, out.surrogate, out.valueLoss, out.ratio, out.adv, by rw [gen_ppo_eq, h]; rfl, hr, ha, hv, ?_⟩
  intro hc hk
  exact hd (by simp only [genCfg]; linarith) hk

/-- **C16 on the regenerated PPO code, gradient at ALL points** (no non-kink hypothesis): with `clip_range ≥ 0`
the directional derivative of the regenerated loss is `−mean_i w_i·A_i·r_i·dΣ_t ll_it + vf·mean huber'(v−R)·dv −
ent·mean dh` with `w_i ∈ {0, 1/2, 1}` (one half exactly when the ratio sits on a clip bound). -/
theorem gen_ppo_loss_all (w : K → K) (c vf el : K) (B T : Nat) (ll : Nat → Nat → Dual K) (old R : Nat → K)
    (vp ent : Nat → Dual K) (hc : 0 ≤ c) :
    ∃ loss sl vl ratio adv,
      Numeric.ppoLoss w c vf el (Ten.mat B T ll) (Ten.vec B old) (Ten.vec B R) (Ten.mat B 1 (fun i _ => vp i))
          (Ten.vec B ent) = some (loss, sl, vl, ratio, adv) ∧
      loss.d = ppoGradAll false B (1 - c) (1 + c) vf el (fun i => (ppoRatio w T ll old i).v)
          (ppoAdv none B R (fun i => (vp i).v)) (fun i => (vp i).v) R
          (fun i => sumTo T (fun t => (ll i t).d)) (fun i => (vp i).d) (fun i => (ent i).d) := by
  obtain ⟨out, h, hd⟩ := ppo_loss_all (genCfg c vf el) w B T ll old R vp ent (by simp only [genCfg]; linarith)
  exact ⟨out.loss, out.surrogate, out.valueLoss, out.ratio, out.adv, by rw [gen_ppo_eq, h]; rfl, hd⟩

/-- Non-vacuity of the bridge: one sample, ratio 1 (`w` the constant 1), advantage 1: the loss value is
`−1 + vf·huber(−1) − el·h`. -/
example :
    (Numeric.ppoLoss (fun _ => (1 : Rat)) (1 / 5) 0 0 (Ten.mat 1 1 (fun _ _ => ⟨0, 1⟩)) (Ten.vec 1 (fun _ => 0))
      (Ten.vec 1 (fun _ => 1)) (Ten.mat 1 1 (fun _ _ => ⟨0, 0⟩)) (Ten.vec 1 (fun _ => ⟨0, 0⟩))).map (fun r => r.1.v)
      = some (-1) := by
  rw [gen_ppo_eq]
  obtain ⟨out, h, _, _, hv, _⟩ := ppo_loss (genCfg (1 / 5 : Rat) 0 0) (fun _ => (1 : Rat)) 1 1 (fun _ _ => ⟨0, 1⟩)
    (fun _ => 0) (fun _ => 1) (fun _ => ⟨0, 0⟩) (fun _ => ⟨0, 0⟩)
  rw [h]
  simp only [Option.map_some, Option.some.injEq]
  rw [hv]
  simp [ppo, genCfg, ppoRatio, ppoAdv, ppoNormFn, Dual.expw, sumTo, clip, minK, huber]
  norm_num

end Rl4co.Train.GenBridge
