/-
C15, growth round (rl4co/data/transforms.py): the parts of `symmetric_augmentation` / `StateAugmentation` /
`min_max_normalize` that were data or glue before.

* which rows get `φ = 0` is now a MODELLED EXPRESSION (`firstZeroCount Params.augFirstZeroBound rows A`, extracted:
  `xy.shape[0] // num_augment`), and so is the `num_augment` the function sees (`Params.augForwardsNumAugment`,
  `Params.augSymDefaultNumAugment`): `first_rows_are_batch` stops compiling when the bound becomes `num_augment`, or
  when `StateAugmentation` stops forwarding `num_augment` (the first copy would no longer be the identity);
* `normalize=True` gets its theorem: a similarity of ratio `r` (one ratio for the whole batch), costs scale by one
  common factor, the order of solutions is preserved.
-/
import Rl4co.Props.C15.AugIsometry
namespace Rl4co.Augment
open Lean.Grind (CommRing)

section
variable {α : Type} [CommRing α]

/-- obligations on the extracted expressions: the zeroed rows are `rows // num_augment` and `StateAugmentation`
forwards its `num_augment` -/
theorem first_rows_are_batch (A B : Nat) (hA : 0 < A) :
    firstZeroCount Params.augFirstZeroBound (A * B) (seenNumAugment A) = B := by
  simp [firstZeroCount, seenNumAugment, Params.augFirstZeroBound, Params.augForwardsNumAugment,
    Nat.mul_div_cancel_left _ hA]

theorem symParams_length (A : Nat) (draws : List (α × α × Bool)) : (symParams A draws).length = draws.length := by
  simp only [symParams, List.length_append, List.length_replicate, List.length_drop]
  omega

/-- **C15** the parameters `symmetric_augmentation` really uses (`phi[: rows // num_augment] = 0` applied to the raw
draws, `num_augment` as forwarded by `StateAugmentation`) satisfy the side conditions of `stateAugSym_all_isometric`:
the first `B` rows are un-rotated, un-reflected, and all rows are unit rotations when the draws are. -/
theorem symParams_ok (A B : Nat) (hA : 0 < A) (draws : List (α × α × Bool)) (hlen : draws.length = A * B)
    (hunit : ∀ q ∈ draws, q.1 * q.1 + q.2.1 * q.2.1 = 1) : SymPrmOk B (symParams A draws) := by
  have hz : firstZeroCount Params.augFirstZeroBound draws.length (seenNumAugment A) = B := by
    rw [hlen]; exact first_rows_are_batch A B hA
  have hB : B ≤ draws.length := by
    rw [hlen]; exact Nat.le_mul_of_pos_left B hA
  constructor
  · intro q hq
    simp only [symParams, hz, List.mem_append, List.mem_replicate] at hq
    rcases hq with ⟨_, rfl⟩ | hq
    · simp; grind
    · exact hunit q (List.mem_of_mem_drop hq)
  · intro b hb
    simp only [symParams, hz]
    rw [List.getElem?_append_left (by simp; omega)]
    simp [List.getElem?_replicate]; omega

/-- **C15** `StateAugmentation(symmetric)` as called by the evaluators (default `first_aug_identity=True`), for
every `num_augment = A > 0` and every batch: all rows isometric images, first `B` rows the originals. -/
theorem stateAugSymDraws_all_isometric (o : α) (A : Nat) (hA : 0 < A) (draws : List (α × α × Bool))
    (rows out : List (List (Pt α))) (hlen : draws.length = A * rows.length)
    (hunit : ∀ q ∈ draws, q.1 * q.1 + q.2.1 * q.2.1 = 1)
    (h : stateAugSymDraws o A true draws rows = some out) : AugOk A rows out := by
  simp only [stateAugSymDraws, stateAugmentationSym, if_true, Option.some.injEq] at h
  subst h
  exact stateAugSym_all_isometric o A _ rows (by rw [symParams_length, hlen]) (symParams_ok A rows.length hA draws hlen hunit)

/-! ### `normalize=True`: a similarity with one common ratio -/

/-- **C15 (normalize=True)** `min_max_normalize` scales every squared distance by the same factor `r²`
(`r = 1/(max − min)` over the whole batch tensor): a similarity, not an isometry. -/
theorem normalize_similarity (r m : α) (p q : Pt α) : sqDist (normPt r m p) (normPt r m q) = r * r * sqDist p q := by
  obtain ⟨x, y⟩ := p
  obtain ⟨u, v⟩ := q
  simp [normPt, sqDist]
  grind
end

theorem pathLen_scale (ρ : Int) (D : Nat → Nat → Int) (xs : List Nat) :
    pathLen (fun a b => ρ * D a b) xs = ρ * pathLen D xs := by
  induction xs with
  | nil => simp [pathLen]
  | cons x xs ih =>
    cases xs with
    | nil => simp [pathLen]
    | cons y ys => rw [pathLen_cons_cons, pathLen_cons_cons, ih, Int.mul_add]

section
variable {α : Type} [CommRing α]

/-- **C15 (normalize=True)**: if `root` (the square root) is homogeneous for the ratio, `root (r²·x) = ρ·root x`,
every tour / routes cost on the normalised copy is `ρ` times the cost on the original — the SAME factor for every
action list and every instance of the batch. -/
theorem normalize_cost_scales (root : α → Int) (r m : α) (ρ : Int) (hroot : ∀ x, root (r * r * x) = ρ * root x)
    (P : Nat → Pt α) (as : List Nat) :
    closedLen (distOf root (fun j => normPt r m (P j))) as = ρ * closedLen (distOf root P) as
    ∧ routesLen (distOf root (fun j => normPt r m (P j))) as = ρ * routesLen (distOf root P) as := by
  have hD : distOf root (fun j => normPt r m (P j)) = fun a b => ρ * distOf root P a b := by
    funext a b; simp [distOf, normalize_similarity, hroot]
  have h00 : ∀ D : Nat → Nat → Int, D 0 0 = 0 → (fun a b => ρ * D a b) 0 0 = 0 := by intro D h; simp [h]
  rw [hD]
  constructor
  · cases as with
    | nil => simp [closedLen]
    | cons x xs => simp only [closedLen]; exact pathLen_scale ρ _ _
  · have hroot0 : ρ * root 0 = root 0 ∨ True := Or.inr trivial
    -- routesLen = closed path through the depot when D 0 0 = 0; here D 0 0 = root 0 need not vanish, so go route by route
    simp only [routesLen]
    have : ∀ rs : List (List Nat), (rs.map (routeLen (fun a b => ρ * distOf root P a b))).sum
        = ρ * (rs.map (routeLen (distOf root P))).sum := by
      intro rs
      induction rs with
      | nil => simp
      | cons t ts ih =>
        simp only [List.map_cons, List.sum_cons, ih, Int.mul_add]
        congr 1
        simp only [routeLen]
        split
        · simp
        · exact pathLen_scale ρ _ _
    exact this _

/-- … hence the ORDER of any two solutions by cost is the same on the normalised copy (`ρ > 0`). -/
theorem normalize_preserves_order (root : α → Int) (r m : α) (ρ : Int) (hρ : 0 < ρ)
    (hroot : ∀ x, root (r * r * x) = ρ * root x) (P : Nat → Pt α) (as bs : List Nat) :
    closedLen (distOf root (fun j => normPt r m (P j))) as ≤ closedLen (distOf root (fun j => normPt r m (P j))) bs
      ↔ closedLen (distOf root P) as ≤ closedLen (distOf root P) bs := by
  rw [(normalize_cost_scales root r m ρ hroot P as).1, (normalize_cost_scales root r m ρ hroot P bs).1]
  constructor
  · intro h; exact Int.le_of_mul_le_mul_left h hρ
  · intro h; exact Int.mul_le_mul_of_nonneg_left h (Int.le_of_lt hρ)
end

/-- non-vacuity: A = 2, B = 2, raw draws all quarter turns: the first two rows are reset to the identity -/
example : symParams 2 [((0 : Int), (1 : Int), true), (0, 1, true), (0, 1, false), (0, 1, true)]
    = [(1, 0, false), (1, 0, false), (0, 1, false), (0, 1, true)] := by decide
example : normPt (2 : Int) 3 (5, 4) = (4, 2) := by decide

end Rl4co.Augment
