/-
C15, round 6: an augmentation that transforms only the keys in `feats` preserves ALL pairwise distances of an instance when every
coordinate-bearing key is in `feats` (`augTd_isometric`), and not otherwise (`augTd_depot_counterexample`: raw batch of a depot
env, default `feats = ["locs"]`); the reset states of the routing envs keep all coordinates under `locs`
(`reset_coord_keys_in_feats`, extracted per env) and POMO / SymNCO augment the RESET td (`models_augment_reset_td`, extracted),
hence their val / test augmentation is isometric on every coordinate key (`shared_step_aug_isometric`).  No Mathlib.
-/
import Rl4co.Props.C15.AugIsometry
import Rl4co.Train.Eval
namespace Rl4co.Eval
open Lean.Grind (CommRing)

/-! ### coordinate keys -/
open Rl4co.Augment

section
variable {α : Type} [CommRing α]

/-- **C15** if every coordinate-bearing key of the td is in `feats`, the augmentation preserves ALL pairwise squared distances
of the instance, also between points stored under different keys (depot ↔ customers) -/
theorem augTd_isometric (keys feats : List String) (hk : ∀ k, k ∈ keys → k ∈ feats) (f : Pt α → Pt α) (hf : Isometry f)
    (td : CoordTd (Pt α)) (k1 k2 : String) (h1 : k1 ∈ keys) (h2 : k2 ∈ keys) (i j : Nat) :
    sqDist (augTd feats f td k1 i) (augTd feats f td k2 j) = sqDist (td k1 i) (td k2 j) := by
  simp only [augTd, hk k1 h1, hk k2 h2, if_true]
  exact hf _ _
end

/-- the raw batch of a depot env keeps the depot under its own key: augmenting it with the default `feats = ["locs"]` moves
the customers and leaves the depot where it was — the depot–customer distance changes (1024-grid, dihedral copy 1) -/
theorem augTd_depot_counterexample :
    ∃ (td : CoordTd (Pt Int)), sqDist (augTd ["locs"] (dihedral 1024 1) td "depot" 0) (augTd ["locs"] (dihedral 1024 1) td "locs" 0)
      ≠ sqDist (td "depot" 0) (td "locs" 0) := by
  refine ⟨fun k _ => if k = "depot" then (100, 100) else (300, 100), ?_⟩
  decide

/-- obligations on the extracted facts: the default `feats`, the coordinate keys of every env's reset state, and the order
"reset, then augment the reset td" in both models -/
theorem reset_coord_keys_in_feats : ∀ e ∈ Params.augResetCoordKeys, ∀ k ∈ e.2, k ∈ Params.augDefaultFeats := by decide
theorem models_augment_reset_td : Params.augPomoAugmentsResetTd = true ∧ Params.augSymncoAugmentsResetTd = true := by decide

/-- **C15** the augmentation inside `POMO.shared_step` / `SymNCO.shared_step` (val / test) is isometric on every coordinate key
of every env of the extracted table: it is applied to the reset td, whose coordinates all live under keys in `feats` -/
theorem shared_step_aug_isometric {α : Type} [CommRing α] (e : String × List String) (he : e ∈ Params.augResetCoordKeys)
    (rawKeys : List String) (f : Pt α → Pt α) (hf : Isometry f) (td : CoordTd (Pt α)) (k1 k2 : String)
    (h1 : k1 ∈ stepAugKeys Params.augPomoAugmentsResetTd rawKeys e.2) (h2 : k2 ∈ stepAugKeys Params.augSymncoAugmentsResetTd rawKeys e.2)
    (i j : Nat) :
    sqDist (augTd Params.augDefaultFeats f td k1 i) (augTd Params.augDefaultFeats f td k2 j) = sqDist (td k1 i) (td k2 j) := by
  simp only [stepAugKeys, models_augment_reset_td.1, models_augment_reset_td.2, if_true] at h1 h2
  exact augTd_isometric e.2 _ (reset_coord_keys_in_feats e he) f hf td k1 k2 h1 h2 i j

end Rl4co.Eval
