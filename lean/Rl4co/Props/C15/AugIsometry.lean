/-
C15, augmentation half (rl4co/data/transforms.py).  All statements are over an arbitrary commutative ring
(core class `Lean.Grind.CommRing`; the algebra is closed by `grind`'s ring solver — no Mathlib is needed, the
project has no `require`); `Int` (ticks) and `Rat` are instances, and so is any Mathlib `CommRing` such as ℝ.

The sign / permutation tables are NOT written here: they are `Params.augDihedralTable`, `Params.augRotTable`,
`Params.augOffsetSigns`, `Params.augReflectCmp`, … regenerated from the Python AST on every run
(harness/probes/aug.py).  `table_ok`, `dihedral_first_id`, `symmetric_isometry`, `symmetric_first_id`,
`swap_first`, `dihedral_maps_square` are the obligations that stop compiling when the source changes a sign.

Finding (first_aug_identity=False): `stateAugDihedral_statement`, `first_aug_identity_false_counterexample`,
`stateAug_all_isometric_partial`.
-/
import Rl4co.Train.Augment
import Rl4co.Core.Tour
namespace Rl4co.Augment
open Lean.Grind (CommRing)

/-! ### list layout helpers -/

theorem tile_succ {β : Type} (A : Nat) (rows : List β) : tile (A + 1) rows = rows ++ tile A rows := by
  simp [tile, List.replicate_succ]

theorem tile_length {β : Type} (A : Nat) (rows : List β) : (tile A rows).length = A * rows.length := by
  induction A with
  | zero => simp [tile]
  | succ A ih => rw [tile_succ, List.length_append, ih, Nat.succ_mul]; omega

/-- `batchify` layout: copy `a` of row `b` sits at flat row `a * B + b`. -/
theorem tile_getElem? {β : Type} (A : Nat) (rows : List β) (a b : Nat) (ha : a < A) (hb : b < rows.length) :
    (tile A rows)[a * rows.length + b]? = rows[b]? := by
  induction A generalizing a with
  | zero => omega
  | succ A ih =>
    rw [tile_succ]
    cases a with
    | zero => simp [List.getElem?_append_left hb]
    | succ a =>
      have h : (a + 1) * rows.length + b = rows.length + (a * rows.length + b) := by rw [Nat.succ_mul]; omega
      rw [h, List.getElem?_append_right (by omega)]
      simpa using ih a (by omega)

theorem flatMap_range_length {β : Type} (K B : Nat) (g : Nat → List β) (hg : ∀ k, k < K → (g k).length = B) :
    ((List.range K).flatMap g).length = K * B := by
  induction K with
  | zero => simp
  | succ K ih =>
    rw [List.range_succ, List.flatMap_append, List.length_append, ih (fun k hk => hg k (by omega))]
    simp [hg K (by omega), Nat.succ_mul]

/-- equal-length blocks concatenated: element `b` of block `k` sits at `k * B + b`. -/
theorem flatMap_range_block {β : Type} (K B : Nat) (g : Nat → List β) (hg : ∀ k, k < K → (g k).length = B)
    (k b : Nat) (hk : k < K) (hb : b < B) : ((List.range K).flatMap g)[k * B + b]? = (g k)[b]? := by
  induction K with
  | zero => omega
  | succ K ih =>
    have hlen := flatMap_range_length K B g (fun k hk => hg k (by omega))
    rw [List.range_succ, List.flatMap_append]
    by_cases hkK : k < K
    · have : k * B + b < ((List.range K).flatMap g).length := by
        rw [hlen]
        have : (k + 1) * B ≤ K * B := Nat.mul_le_mul_right B (by omega)
        rw [Nat.succ_mul] at this; omega
      rw [List.getElem?_append_left this]
      exact ih (fun k hk => hg k (by omega)) hkK
    · have hk' : k = K := by omega
      subst hk'
      rw [List.getElem?_append_right (by rw [hlen]; omega), hlen]
      simp

section
variable {α : Type} [CommRing α]

/-- a map of the plane that preserves squared distances -/
def Isometry (f : Pt α → Pt α) : Prop := ∀ p q, sqDist (f p) (f q) = sqDist p q

theorem coord_sub_sq (one : α) (c : Bool × Bool × Bool) (p q : Pt α) :
    (coord one c p - coord one c q) * (coord one c p - coord one c q)
      = (sel c.1 p - sel c.1 q) * (sel c.1 p - sel c.1 q) := by
  obtain ⟨u, h, n⟩ := c
  cases h <;> cases n <;> simp only [coord] <;> grind

/-- the decidable side condition on a dihedral table: every copy uses x for one output coordinate and y
for the other -/
def tableOk (tbl : List ((Bool × Bool × Bool) × (Bool × Bool × Bool))) : Bool :=
  tbl.all fun e => e.1.1 != e.2.1

theorem dihedralWith_isometry (tbl) (h : tableOk tbl = true) (one : α) (k : Nat) :
    Isometry (dihedralWith tbl one k) := by
  intro p q
  unfold dihedralWith
  cases hk : tbl[k]? with
  | none => rfl
  | some e =>
    have hm : e ∈ tbl := List.mem_of_getElem? hk
    have he := (List.all_eq_true.1 h) e hm
    simp only [sqDist]
    rw [coord_sub_sq, coord_sub_sq]
    obtain ⟨⟨u1, r1⟩, ⟨u2, r2⟩⟩ := e
    cases u1 <;> cases u2 <;> simp at he <;> simp [sel] <;> grind

theorem table_ok : tableOk Params.augDihedralTable = true := by decide

/-- **C15** each of the 8 maps of `dihedral_8_augmentation` preserves squared distance. -/
theorem dihedral_isometry (one : α) (k : Nat) : Isometry (dihedral one k) :=
  dihedralWith_isometry _ table_ok one k

/-- **C15** copy 0 of `dihedral_8_augmentation` is the identity. -/
theorem dihedral_first_id (one : α) (p : Pt α) : dihedral one 0 p = p := by
  obtain ⟨x, y⟩ := p
  simp [dihedral, dihedralWith, Params.augDihedralTable, coord, sel]
  constructor <;> grind

theorem symmetric_isometry (c s o : α) (h : c * c + s * s = 1) (swap : Bool) :
    Isometry (symTransform c s o swap) := by
  intro p q
  obtain ⟨x, y⟩ := p
  obtain ⟨u, v⟩ := q
  cases swap <;>
    simp [symTransform, symTransformWith, Params.augRotTable, Params.augOffsetSigns, rotWith, term, sel, shift, sqDist] <;>
    grind

theorem symmetric_first_id (o : α) (p : Pt α) : symTransform 1 0 o false p = p := by
  obtain ⟨x, y⟩ := p
  simp [symTransform, symTransformWith, Params.augRotTable, Params.augOffsetSigns, rotWith, term, sel, shift]
  constructor <;> grind

theorem swap_first (den : Int) (h : 0 < den) : swapOf 0 den = false := by
  simp [swapOf, Params.augReflectCmp, Params.augPhiMul, Params.augReflectMul, Cmp.eval]
  omega

theorem dihedral_table_length : Params.augDihedralTable.length = 8 := by decide

/-- **layout of `StateAugmentation(dihedral8)`**: row `a * B + b` is copy `a` of instance `b`. -/
theorem stateAugDihedral_row (one : α) (rows : List (List (Pt α))) (a b : Nat) (ha : a < 8) (hb : b < rows.length) :
    (stateAugDihedral one 8 rows)[a * rows.length + b]? = (rows[b]?).map (fun row => row.map (dihedral one a)) := by
  have htake : (tile 8 rows).take ((tile 8 rows).length / 8) = rows := by
    rw [tile_length, Nat.mul_div_cancel_left _ (by omega : 0 < 8), tile_succ]
    simp
  simp only [stateAugDihedral, htake, dihedral_table_length]
  rw [flatMap_range_block 8 rows.length _ (fun k _ => by simp) a b ha hb]
  simp

/-- **layout of `StateAugmentation(symmetric)`**: row `a * B + b` is instance `b` under that row's rotation. -/
theorem stateAugSym_row (o : α) (A : Nat) (prm : List (α × α × Bool)) (rows : List (List (Pt α))) (a b : Nat)
    (ha : a < A) (hb : b < rows.length) (hp : prm.length = A * rows.length) :
    (stateAugSym o A prm rows)[a * rows.length + b]? =
      (prm[a * rows.length + b]?).bind fun q => (rows[b]?).map fun row => row.map (symTransform q.1 q.2.1 o q.2.2) := by
  simp only [stateAugSym, List.getElem?_zipWith, tile_getElem? A rows a b ha hb]
  have hidx : a * rows.length + b < prm.length := by
    rw [hp]
    have : (a + 1) * rows.length ≤ A * rows.length := Nat.mul_le_mul_right _ (by omega)
    rw [Nat.succ_mul] at this; omega
  simp [List.getElem?_eq_getElem hidx, List.getElem?_eq_getElem hb]


/-! ### costs -/

/-- distance matrix of a point family through an arbitrary root function (`sqrt` is never needed) -/
def distOf (root : α → Int) (P : Nat → Pt α) : Nat → Nat → Int := fun a b => root (sqDist (P a) (P b))

theorem dist_invariant (root : α → Int) (f : Pt α → Pt α) (hf : Isometry f) (P : Nat → Pt α) :
    distOf root (fun j => f (P j)) = distOf root P := by
  funext a b; simp [distOf, hf _ _]

/-- **C15** any objective that depends on the coordinates only through the pairwise distances (tour length,
routes length, … — everything in `Core/Tour`) takes the same value, for EVERY action list, on an isometric
copy of the instance. -/
theorem cost_invariant (root : α → Int) (f : Pt α → Pt α) (hf : Isometry f) (P : Nat → Pt α)
    (obj : (Nat → Nat → Int) → List Nat → Int) (as : List Nat) :
    obj (distOf root (fun j => f (P j))) as = obj (distOf root P) as := by
  rw [dist_invariant root f hf P]

/-- TSP tour length and CVRP routes length on each dihedral copy -/
theorem cost_invariant_dihedral (root : α → Int) (one : α) (k : Nat) (P : Nat → Pt α) (as : List Nat) :
    closedLen (distOf root (fun j => dihedral one k (P j))) as = closedLen (distOf root P) as
    ∧ routesLen (distOf root (fun j => dihedral one k (P j))) as = routesLen (distOf root P) as :=
  ⟨cost_invariant root _ (dihedral_isometry one k) P closedLen as, cost_invariant root _ (dihedral_isometry one k) P routesLen as⟩

/-! ### the whole of `StateAugmentation` -/

/-- `row'` is the image of `row` under one distance-preserving map -/
def IsoImage (row row' : List (Pt α)) : Prop := ∃ f, Isometry f ∧ row' = row.map f

/-- what C15 asks of an augmented batch: row `a*B+b` is an isometric image of instance `b`, and copy 0 is
the instance itself -/
def AugOk (A : Nat) (rows out : List (List (Pt α))) : Prop :=
  ∀ a b, a < A → b < rows.length →
    ∃ row row', rows[b]? = some row ∧ out[a * rows.length + b]? = some row' ∧ IsoImage row row' ∧ (a = 0 → row' = row)

/-- the full claim about `StateAugmentation(num_augment=8, augment_fn='dihedral8', first_aug_identity=fai)` -/
def stateAugDihedral_statement (α : Type) [CommRing α] (fai : Bool) : Prop :=
  ∀ (one : α) (rows out : List (List (Pt α))), stateAugmentationDihedral one 8 fai rows = some out → AugOk 8 rows out

/-- **C15 (partial: first_aug_identity = True, the default)** -/
theorem stateAug_all_isometric_partial : stateAugDihedral_statement α true := by
  intro one rows out h a b ha hb
  simp only [stateAugmentationDihedral, if_true, Option.some.injEq] at h
  subst h
  refine ⟨rows[b], rows[b].map (dihedral one a), by simp [hb], ?_, ⟨_, dihedral_isometry one a, rfl⟩, ?_⟩
  · rw [stateAugDihedral_row one rows a b ha hb]; simp [hb]
  · intro h0; subst h0
    have : ∀ l : List (Pt α), l.map (dihedral one 0) = l := by
      intro l; induction l with
      | nil => rfl
      | cons p l ih => simp [dihedral_first_id, ih]
    exact this _

/-- side conditions on the sampled angles of `symmetric_augmentation`: unit vectors, and `φ = 0` without
reflection on the first `B` rows (`phi[: B] = 0.0`, `swap_first`) -/
def SymPrmOk (B : Nat) (prm : List (α × α × Bool)) : Prop :=
  (∀ q ∈ prm, q.1 * q.1 + q.2.1 * q.2.1 = 1) ∧ (∀ b, b < B → prm[b]? = some (1, 0, false))

/-- **C15** `StateAugmentation(symmetric, first_aug_identity=True)`: every row is an isometric image of its
instance and the first `B` rows are the instances themselves. -/
theorem stateAugSym_all_isometric (o : α) (A : Nat) (prm : List (α × α × Bool)) (rows : List (List (Pt α)))
    (hp : prm.length = A * rows.length) (hok : SymPrmOk rows.length prm) : AugOk A rows (stateAugSym o A prm rows) := by
  intro a b ha hb
  have hidx : a * rows.length + b < prm.length := by
    rw [hp]
    have : (a + 1) * rows.length ≤ A * rows.length := Nat.mul_le_mul_right _ (by omega)
    rw [Nat.succ_mul] at this; omega
  let q := prm[a * rows.length + b]
  refine ⟨rows[b], rows[b].map (symTransform q.1 q.2.1 o q.2.2), by simp [hb], ?_, ⟨_, ?_, rfl⟩, ?_⟩
  · rw [stateAugSym_row o A prm rows a b ha hb hp]
    simp [List.getElem?_eq_getElem hidx, List.getElem?_eq_getElem hb, q]
  · exact symmetric_isometry q.1 q.2.1 o (hok.1 q (List.getElem_mem hidx)) q.2.2
  · intro h0; subst h0
    have hq : q = (1, 0, false) := by
      have := hok.2 b hb
      simp only [Nat.zero_mul, Nat.zero_add] at hidx
      rw [List.getElem?_eq_getElem hidx] at this
      simpa [q] using this
    rw [hq]
    have : ∀ l : List (Pt α), l.map (symTransform 1 0 o false) = l := by
      intro l; induction l with
      | nil => rfl
      | cons p l ih => simp [symmetric_first_id, ih]
    exact this _
end

/-- **C15 counterexample (first_aug_identity = False)**: one instance with two nodes; row `B = 1` keeps node 0
where it was while node 1 is reflected: distance 95 becomes 73. -/
theorem first_aug_identity_false_counterexample : ¬ stateAugDihedral_statement Int false := by
  intro h
  have hrun : stateAugmentationDihedral (1024 : Int) 8 false [[(523, 529), (428, 529)]]
      = some [[(523, 529), (428, 529)], [(523, 529), (596, 529)], [(523, 495), (428, 495)], [(501, 495), (596, 495)],
              [(529, 523), (529, 428)], [(495, 523), (495, 428)], [(529, 501), (529, 596)], [(495, 501), (495, 596)]] := by
    decide
  obtain ⟨row, row', h1, h2, ⟨f, hf, hmap⟩, _⟩ := h 1024 _ _ hrun 1 0 (by decide) (by decide)
  simp at h1 h2
  subst h1 h2
  simp at hmap
  have := hf (523, 529) (428, 529)
  rw [← hmap.1, ← hmap.2] at this
  revert this
  decide


/-! ### the unit square is mapped into itself (ordered coordinates: `Int` ticks) -/

/-- side condition: every output coordinate is `v` or `one - v` -/
def squareOk (tbl : List ((Bool × Bool × Bool) × (Bool × Bool × Bool))) : Bool :=
  tbl.all fun e => (e.1.2.1 == e.1.2.2) && (e.2.2.1 == e.2.2.2)

theorem square_ok : squareOk Params.augDihedralTable = true := by decide

theorem coord_in_square (one : Int) (c : Bool × Bool × Bool) (hc : c.2.1 = c.2.2) (p : Pt Int)
    (hx : 0 ≤ p.1 ∧ p.1 ≤ one) (hy : 0 ≤ p.2 ∧ p.2 ≤ one) : 0 ≤ coord one c p ∧ coord one c p ≤ one := by
  obtain ⟨u, h, n⟩ := c
  simp only at hc
  subst hc
  cases u <;> cases h <;> simp [coord, sel] <;> omega

/-- **C15** every dihedral copy of a point of `[0, one]²` lies in `[0, one]²`. -/
theorem dihedral_maps_square (one : Int) (k : Nat) (p : Pt Int) (hx : 0 ≤ p.1 ∧ p.1 ≤ one) (hy : 0 ≤ p.2 ∧ p.2 ≤ one) :
    (0 ≤ (dihedral one k p).1 ∧ (dihedral one k p).1 ≤ one) ∧ (0 ≤ (dihedral one k p).2 ∧ (dihedral one k p).2 ≤ one) := by
  unfold dihedral dihedralWith
  cases hk : Params.augDihedralTable[k]? with
  | none => exact ⟨hx, hy⟩
  | some e =>
    have he := (List.all_eq_true.1 square_ok) e (List.mem_of_getElem? hk)
    simp only [Bool.and_eq_true, beq_iff_eq] at he
    exact ⟨coord_in_square one e.1 he.1 p hx hy, coord_in_square one e.2 he.2 p hx hy⟩

/-! ### non-vacuity -/

/-- the hypotheses are satisfiable and the maps are not all trivial: copy 1 moves a point, a quarter turn
(`c = 0, s = 1`) satisfies `c² + s² = 1` and moves a point, and the 3-4-5 rotation `c = 3/5, s = 4/5` does too -/
example : dihedral (1024 : Int) 1 (100, 200) = (924, 200) := by decide
example : dihedral (1024 : Int) 7 (100, 200) = (824, 924) := by decide
example : symTransform (0 : Int) 1 512 false (612, 512) = (512, 612) ∧ (0 : Int) * 0 + 1 * 1 = 1 := by decide
example : symTransform (0 : Int) 1 512 true (612, 512) = (612, 512) := by decide
example : ((3 : Rat) / 5) * (3 / 5) + (4 / 5) * (4 / 5) = 1 := by grind
example : swapOf 3 4 = true ∧ swapOf 1 4 = false ∧ swapOf 1 2 = false := by decide
example : AugOk 8 [[((523 : Int), (529 : Int)), (428, 529)]] (stateAugDihedral 1024 8 [[(523, 529), (428, 529)]]) :=
  stateAug_all_isometric_partial 1024 _ _ rfl

end Rl4co.Augment
