/-
C15, evaluation half (rl4co/tasks/eval.py): the evaluators report, for every instance, the reward of the actions
they return, computed on the ORIGINAL instance, and that reward is the maximum over all candidate rollouts of
that very instance; padding + concatenation across loader batches keep rows and order; chunking of the dataset
does not matter.  The policy is an oracle (`acts` = whatever candidate rows it returned); `rew` is the env's
reward on one instance.  No Mathlib.
-/
import Rl4co.Train.Eval
import Rl4co.Core.Tour
namespace Rl4co.Eval

/-! ### argmax -/
theorem argmaxFrom_spec (xs : List Int) : ∀ (best : Int) (bi i : Nat),
    (argmaxFrom best bi i xs = bi ∧ ∀ t, t < xs.length → xs.getD t 0 ≤ best) ∨
    (∃ t, t < xs.length ∧ argmaxFrom best bi i xs = i + t ∧ best < xs.getD t 0 ∧ ∀ t', t' < xs.length → xs.getD t' 0 ≤ xs.getD t 0) := by
  induction xs with
  | nil => intro best bi i; left; simp [argmaxFrom]
  | cons y ys ih =>
    intro best bi i
    by_cases hy : y > best
    · simp only [argmaxFrom, hy, if_true]
      right
      rcases ih y i (i + 1) with ⟨h1, h2⟩ | ⟨t, ht, h1, h2, h3⟩
      · refine ⟨0, by simp, by simpa using h1, by simpa using hy, ?_⟩
        intro t' ht'
        cases t' with
        | zero => simp
        | succ t' =>
          simp only [List.length_cons] at ht'
          simp only [List.getD_cons_succ, List.getD_cons_zero]
          exact h2 t' (by omega)
      · refine ⟨t + 1, by simp only [List.length_cons]; omega, by rw [h1]; omega, ?_, ?_⟩
        · simp only [List.getD_cons_succ]; omega
        · intro t' ht'
          simp only [List.length_cons] at ht'
          cases t' with
          | zero => simp only [List.getD_cons_succ, List.getD_cons_zero]; omega
          | succ t' => simp only [List.getD_cons_succ]; exact h3 t' (by omega)
    · simp only [argmaxFrom, hy, if_false]
      rcases ih best bi (i + 1) with ⟨h1, h2⟩ | ⟨t, ht, h1, h2, h3⟩
      · left
        refine ⟨h1, ?_⟩
        intro t' ht'
        simp only [List.length_cons] at ht'
        cases t' with
        | zero => simp only [List.getD_cons_zero]; omega
        | succ t' => simp only [List.getD_cons_succ]; exact h2 t' (by omega)
      · right
        refine ⟨t + 1, by simp only [List.length_cons]; omega, by rw [h1]; omega, ?_, ?_⟩
        · simp only [List.getD_cons_succ]; exact h2
        · intro t' ht'
          simp only [List.length_cons] at ht'
          cases t' with
          | zero => simp only [List.getD_cons_succ, List.getD_cons_zero]; omega
          | succ t' => simp only [List.getD_cons_succ]; exact h3 t' (by omega)

/-- `argmax` returns a valid index of a maximal entry. -/
theorem argmax_spec (xs : List Int) (h : xs ≠ []) :
    argmax xs < xs.length ∧ ∀ t, t < xs.length → xs.getD t 0 ≤ xs.getD (argmax xs) 0 := by
  cases xs with
  | nil => exact absurd rfl h
  | cons x xs =>
    simp only [argmax]
    rcases argmaxFrom_spec xs x 0 1 with ⟨h1, h2⟩ | ⟨t, ht, h1, h2, h3⟩
    · rw [h1]
      refine ⟨by simp, ?_⟩
      intro t ht
      simp only [List.length_cons] at ht
      cases t with
      | zero => simp
      | succ t => simp only [List.getD_cons_succ, List.getD_cons_zero]; exact h2 t (by omega)
    · rw [h1]
      refine ⟨by simp only [List.length_cons]; omega, ?_⟩
      intro t' ht'
      simp only [List.length_cons] at ht'
      have e : (x :: xs).getD (1 + t) 0 = xs.getD t 0 := by rw [Nat.add_comm, List.getD_cons_succ]
      rw [e]
      cases t' with
      | zero => simp only [List.getD_cons_zero]; omega
      | succ t' => simp only [List.getD_cons_succ]; exact h3 t' (by omega)

/-! ### layout -/

theorem tile_succ {β : Type} (A : Nat) (rows : List β) : tile (A + 1) rows = rows ++ tile A rows := by
  simp [tile, List.replicate_succ]

theorem tile_length {β : Type} (A : Nat) (rows : List β) : (tile A rows).length = A * rows.length := by
  induction A with
  | zero => simp [tile]
  | succ A ih => rw [tile_succ, List.length_append, ih, Nat.succ_mul]; omega

theorem tile_getElem? {β : Type} (A : Nat) (rows : List β) (a b : Nat) (ha : a < A) (hb : b < rows.length) :
    (tile A rows)[a * rows.length + b]? = rows[b]? := by
  induction A generalizing a with
  | zero => omega
  | succ A ih =>
    rw [tile_succ]
    cases a with
    | zero => simp [List.getElem?_append_left hb]
    | succ a =>
      have h : (a + 1) * rows.length + b = rows.length + (a * rows.length + b) := by rw [Nat.succ_mul]; omega
      rw [h, List.getElem?_append_right (by omega)]
      simpa using ih a (by omega)

theorem tile_add {β : Type} (m n : Nat) (rows : List β) : tile (m + n) rows = tile m rows ++ tile n rows := by
  induction m with
  | zero => simp [tile]
  | succ m ih => rw [Nat.succ_add, tile_succ, tile_succ, ih, List.append_assoc]

/-- `batchify(x, (A, S))` = `batchify(x, S * A)` as lists of rows -/
theorem tile_tile {β : Type} (A S : Nat) (rows : List β) : tile A (tile S rows) = tile (S * A) rows := by
  induction A with
  | zero => simp [tile]
  | succ A ih => rw [tile_succ, ih, Nat.mul_succ, Nat.add_comm, tile_add]

theorem idx_lt {K B k b : Nat} (hk : k < K) (hb : b < B) : k * B + b < K * B := by
  have : (k + 1) * B ≤ K * B := Nat.mul_le_mul_right B (by omega)
  rw [Nat.succ_mul] at this; omega

/-- `unbatchify(x, K)[b] = [x[0*B+b], x[1*B+b], …]` -/
theorem unbatch_getElem? {β : Type} [Inhabited β] (K B : Nat) (hK : 0 < K) (xs : List β) (hlen : xs.length = K * B)
    (b : Nat) (hb : b < B) :
    (unbatch K xs)[b]? = some ((List.range K).map fun k => xs.getD (k * B + b) default) := by
  have hB : xs.length / K = B := by rw [hlen, Nat.mul_div_cancel_left _ hK]
  simp [unbatch, hB, hb]

theorem unbatch_length {β : Type} [Inhabited β] (K B : Nat) (hK : 0 < K) (xs : List β) (hlen : xs.length = K * B) :
    (unbatch K xs).length = B := by
  have hB : xs.length / K = B := by rw [hlen, Nat.mul_div_cancel_left _ hK]
  simp [unbatch, hB]

theorem getD_map_range {β : Type} (K : Nat) (g : Nat → β) (j : Nat) (hj : j < K) (d : β) :
    ((List.range K).map g).getD j d = g j := by
  simp [List.getD_eq_getElem?_getD, hj]

/-- what `unbatchify / max(dim=1) / gather_by_index` returns for instance `b`; `k` is `max_idxs[b]` -/
theorem selectBest_getElem? (K B : Nat) (hK : 0 < K) (rs : List Int) (acts : List (List Nat))
    (hr : rs.length = K * B) (ha : acts.length = K * B) (b : Nat) (hb : b < B) :
    ∃ k, k < K ∧ (bestIdx K rs)[b]? = some k
      ∧ (selectBest K rs acts)[b]? = some (rs.getD (k * B + b) 0, acts.getD (k * B + b) [])
      ∧ ∀ k', k' < K → rs.getD (k' * B + b) 0 ≤ rs.getD (k * B + b) 0 := by
  let R := (List.range K).map fun k => rs.getD (k * B + b) 0
  have hRne : R ≠ [] := by
    intro h
    have : R.length = K := by simp [R]
    rw [h] at this; simp at this; omega
  have hRlen : R.length = K := by simp [R]
  obtain ⟨hj, hmax⟩ := argmax_spec R hRne
  rw [hRlen] at hj
  have h1 := unbatch_getElem? K B hK rs hr b hb
  have h2 := unbatch_getElem? K B hK acts ha b hb
  have d0 : (default : Int) = 0 := rfl
  have d1 : (default : List Nat) = [] := rfl
  rw [d0] at h1
  rw [d1] at h2
  refine ⟨argmax R, hj, ?_, ?_, ?_⟩
  · simp only [bestIdx, List.getElem?_map, h1, Option.map_some]; rfl
  · simp only [selectBest, List.getElem?_zipWith, h1, h2]
    congr 1
    rw [getD_map_range K _ _ hj, getD_map_range K _ _ hj]
  · intro k' hk'
    have := hmax k' (by rw [hRlen]; exact hk')
    rw [getD_map_range K _ _ hk', getD_map_range K _ _ hj] at this
    exact this

variable {I : Type}

theorem rewardsOn_length (rew : I → List Nat → Int) (K : Nat) (insts : List I) (acts : List (List Nat))
    (ha : acts.length = K * insts.length) : (rewardsOn rew K insts acts).length = K * insts.length := by
  simp [rewardsOn, tile_length, ha]

/-- `env.get_reward(batchify(td_init, K), actions)[k*B+b]` is the reward of candidate row `k*B+b` on the
ORIGINAL instance `b` -/
theorem rewardsOn_getD (rew : I → List Nat → Int) (K : Nat) (insts : List I) (acts : List (List Nat))
    (ha : acts.length = K * insts.length) (k b : Nat) (hk : k < K) (hb : b < insts.length) :
    (rewardsOn rew K insts acts).getD (k * insts.length + b) 0 = rew insts[b] (acts.getD (k * insts.length + b) []) := by
  have hidx : k * insts.length + b < acts.length := by rw [ha]; exact idx_lt hk hb
  simp [rewardsOn, List.getD_eq_getElem?_getD, List.getElem?_zipWith, tile_getElem? K insts k b hk hb,
    List.getElem?_eq_getElem hb, List.getElem?_eq_getElem hidx]

/-- **C15 `eval_reports_max`** for `AugmentationEval` (`K = num_augment`) and `GreedyMultiStartEval`
(`K = num_starts`): for every instance `b` of the loader batch the evaluator returns one of `b`'s own `K`
candidates, reports exactly the reward of those actions on the ORIGINAL instance, and that reward is the
maximum over all of `b`'s candidates. -/
theorem eval_reports_max (rew : I → List Nat → Int) (K : Nat) (hK : 0 < K) (insts : List I) (acts : List (List Nat))
    (ha : acts.length = K * insts.length) (b : Nat) (hb : b < insts.length) :
    ∃ k, k < K ∧
      (bestOfInner rew K insts acts)[b]? =
        some (rew insts[b] (acts.getD (k * insts.length + b) []), acts.getD (k * insts.length + b) []) ∧
      ∀ k', k' < K → rew insts[b] (acts.getD (k' * insts.length + b) []) ≤ rew insts[b] (acts.getD (k * insts.length + b) []) := by
  obtain ⟨k, hk, _, h1, h2⟩ := selectBest_getElem? K insts.length hK (rewardsOn rew K insts acts) acts
    (rewardsOn_length rew K insts acts ha) ha b hb
  refine ⟨k, hk, ?_, ?_⟩
  · rw [bestOfInner, h1, rewardsOn_getD rew K insts acts ha k b hk hb]
  · intro k' hk'
    have := h2 k' hk'
    rwa [rewardsOn_getD rew K insts acts ha k' b hk' hb, rewardsOn_getD rew K insts acts ha k b hk hb] at this

theorem msAugInner_eq (rew : I → List Nat → Int) (A S : Nat) (insts : List I) (acts : List (List Nat)) :
    msAugInner rew A S insts acts = bestOfInner rew (S * A) insts acts := by
  simp [msAugInner, bestOfInner, rewardsOn, tile_tile]

/-- **C15 `eval_reports_max`** for `GreedyMultiStartAugmentEval`: the policy lays its `S * A * B` rollouts out
start-major over the augmented batch, the evaluator tiles the original instances `(A, S)`; both put instance
`r % B` at row `r`, so the statement is the same with `K = S * A`. -/
theorem eval_reports_max_msaug (rew : I → List Nat → Int) (A S : Nat) (hA : 0 < A) (hS : 0 < S) (insts : List I)
    (acts : List (List Nat)) (ha : acts.length = S * A * insts.length) (b : Nat) (hb : b < insts.length) :
    ∃ k, k < S * A ∧
      (msAugInner rew A S insts acts)[b]? =
        some (rew insts[b] (acts.getD (k * insts.length + b) []), acts.getD (k * insts.length + b) []) ∧
      ∀ k', k' < S * A → rew insts[b] (acts.getD (k' * insts.length + b) []) ≤ rew insts[b] (acts.getD (k * insts.length + b) []) := by
  rw [msAugInner_eq]
  exact eval_reports_max rew (S * A) (Nat.mul_pos hS hA) insts acts ha b hb

theorem bestOfInner_length (rew : I → List Nat → Int) (K : Nat) (hK : 0 < K) (insts : List I) (acts : List (List Nat))
    (ha : acts.length = K * insts.length) : (bestOfInner rew K insts acts).length = insts.length := by
  simp [bestOfInner, selectBest, unbatch_length K insts.length hK _ (rewardsOn_length rew K insts acts ha),
    unbatch_length K insts.length hK _ ha]

/-- **C15 `eval_reports_max`** for `SamplingEval`, through the policy-side `DecodingStrategy._select_best`: actions and
STATE rows are gathered with the same `max_idxs` from the start-major replicated batch
(`Params.augSelectBestGathersTd`, extracted), so the state that `env.get_reward` sees for instance `b` is instance `b`
itself and the reported reward is the reward of the returned actions on the original instance = max over `b`'s samples. -/
theorem eval_reports_max_sampling [Inhabited I] (rew : I → List Nat → Int) (S : Nat) (hS : 0 < S) (insts : List I)
    (acts : List (List Nat)) (ha : acts.length = S * insts.length) (b : Nat) (hb : b < insts.length) :
    ∃ k, k < S ∧
      (samplingInner rew S insts acts)[b]? =
        some (rew insts[b] (acts.getD (k * insts.length + b) []), acts.getD (k * insts.length + b) []) ∧
      ∀ k', k' < S → rew insts[b] (acts.getD (k' * insts.length + b) []) ≤ rew insts[b] (acts.getD (k * insts.length + b) []) := by
  obtain ⟨k, hk, hidx, _, h2⟩ := selectBest_getElem? S insts.length hS (rewardsOn rew S insts acts) acts
    (rewardsOn_length rew S insts acts ha) ha b hb
  refine ⟨k, hk, ?_, ?_⟩
  · have hB : (tile S insts).length / S = insts.length := by rw [tile_length, Nat.mul_div_cancel_left _ hS]
    have hu := unbatch_getElem? S insts.length hS acts ha b hb
    have d1 : (default : List Nat) = [] := rfl
    rw [d1] at hu
    have htile : (tile S insts).getD (k * insts.length + b) default = insts[b] := by
      simp [List.getD_eq_getElem?_getD, tile_getElem? S insts k b hk hb, List.getElem?_eq_getElem hb]
    simp only [samplingInner, List.getElem?_zipWith, selectTd, hB, List.getElem?_map, List.getElem?_range hb,
      Option.map_some, hu, hidx, Params.augSelectBestGathersTd, if_true]
    have hk'' : (bestIdx S (rewardsOn rew S insts acts)).getD b 0 = k := by
      simp [List.getD_eq_getElem?_getD, hidx]
    rw [hk'', htile, getD_map_range S _ _ hk]
  · intro k' hk'
    have := h2 k' hk'
    rwa [rewardsOn_getD rew S insts acts ha k' b hk' hb, rewardsOn_getD rew S insts acts ha k b hk hb] at this

/-- the alternative `td = td[:: num_starts]` (instance-major slice of a start-major batch) pairs instance `b` with the
state of row `b * S`, i.e. of instance `(b * S) % B`: wrong as soon as `(b * S) % B ≠ b`. -/
example : selectTd false 2 (tile 2 [10, 20, 30]) [0, 0, 0] = [10, 30, 20] := by decide
example : selectTd true 2 (tile 2 [10, 20, 30]) [1, 0, 1] = [10, 20, 30] := by decide

/-- `GreedyEval` reports the reward of the actions it returns, on the instance they were decoded for. -/
theorem eval_greedy_reports (rew : I → List Nat → Int) (insts : List I) (acts : List (List Nat))
    (ha : acts.length = insts.length) (b : Nat) (hb : b < insts.length) :
    (greedyInner rew insts acts)[b]? = some (rew insts[b] (acts.getD b []), acts.getD b []) := by
  have hb' : b < acts.length := by omega
  simp [greedyInner, List.getElem?_zipWith, List.getElem?_eq_getElem hb, List.getElem?_eq_getElem hb',
    List.getD_eq_getElem?_getD]

/-- **C15 `eval_ge_greedy`**: if one of `b`'s candidates is the greedy rollout `g` on the unmodified instance,
the reported reward is at least the greedy reward. -/
theorem eval_ge_greedy (rew : I → List Nat → Int) (K : Nat) (hK : 0 < K) (insts : List I) (acts : List (List Nat))
    (ha : acts.length = K * insts.length) (b : Nat) (hb : b < insts.length) (g : List Nat)
    (k0 : Nat) (hk0 : k0 < K) (hg : acts.getD (k0 * insts.length + b) [] = g) :
    ∃ r a, (bestOfInner rew K insts acts)[b]? = some (r, a) ∧ rew insts[b] g ≤ r := by
  obtain ⟨k, _, h1, h2⟩ := eval_reports_max rew K hK insts acts ha b hb
  exact ⟨_, _, h1, hg ▸ h2 k0 hk0⟩

/-- `AugmentationEval` with a row-wise deterministic policy `π` (C14) whose input for copy `a` of instance `i`
is `view a i`: since copy 0 is the identity (`dihedral_first_id`, `symmetric_first_id`) the greedy rollout
`π (view 0 i)` on the unmodified instance is candidate 0, so augmentation never reports less than greedy. -/
theorem eval_ge_greedy_identity_copy {J : Type} (rew : I → List Nat → Int) (A : Nat) (hA : 0 < A) (insts : List I)
    (view : Nat → I → J) (π : J → List Nat) (acts : List (List Nat)) (ha : acts.length = A * insts.length)
    (hrow : ∀ a b, a < A → (hb : b < insts.length) → acts.getD (a * insts.length + b) [] = π (view a insts[b]))
    (b : Nat) (hb : b < insts.length) :
    ∃ r a, (bestOfInner rew A insts acts)[b]? = some (r, a) ∧ rew insts[b] (π (view 0 insts[b])) ≤ r :=
  eval_ge_greedy rew A hA insts acts ha b hb _ 0 hA (hrow 0 b hA hb)

/-! ### padding, concatenation, loader chunks -/

/-- a loader batch of action rows is rectangular (it is a tensor) -/
def Rect (batch : List (List Nat)) : Prop := ∀ row, row ∈ batch → row.length = rowLen batch

/-- `row ++ zeros` up to length `L` -/
def padTo (L : Nat) (row : List Nat) : List Nat := row ++ List.replicate (L - row.length) 0

theorem padBatch_eq (L : Nat) (batch : List (List Nat)) (h : Rect batch) : padBatch L batch = batch.map (padTo L) := by
  simp only [padBatch]
  apply List.map_congr_left
  intro row hrow
  unfold padTo
  rw [h row hrow]

theorem foldl_max_ge (xs : List Nat) (m : Nat) : m ≤ xs.foldl max m ∧ ∀ x, x ∈ xs → x ≤ xs.foldl max m := by
  induction xs generalizing m with
  | nil => simp
  | cons y ys ih =>
    simp only [List.foldl_cons]
    obtain ⟨h1, h2⟩ := ih (max m y)
    refine ⟨by omega, ?_⟩
    intro x hx
    rcases List.mem_cons.1 hx with rfl | hx
    · omega
    · exact h2 x hx

theorem rowLen_le_maxLen (bs : List (List (List Nat))) (b : List (List Nat)) (hb : b ∈ bs) : rowLen b ≤ maxLen bs :=
  (foldl_max_ge (bs.map rowLen) 0).2 _ (List.mem_map_of_mem hb)

/-- **C15 `concat_batches`**: padding with 0 and `torch.cat` keep every row of every loader batch, in loader
order, each extended by zeros only; the result is rectangular of width `maxLen`. -/
theorem concat_batches (bs : List (List (List Nat))) (h : ∀ b, b ∈ bs → Rect b) :
    concatActions bs = bs.flatten.map (padTo (maxLen bs))
    ∧ ∀ row, row ∈ concatActions bs → row.length = maxLen bs := by
  have h1 : concatActions bs = bs.flatten.map (padTo (maxLen bs)) := by
    simp only [concatActions, List.flatMap_def, List.map_flatten]
    congr 1
    apply List.map_congr_left
    intro b hb
    exact padBatch_eq _ b (h b hb)
  refine ⟨h1, ?_⟩
  intro row hrow
  rw [h1] at hrow
  obtain ⟨r0, hr0, rfl⟩ := List.mem_map.1 hrow
  obtain ⟨b, hb, hr0b⟩ := List.mem_flatten.1 hr0
  have := rowLen_le_maxLen bs b hb
  have hl := h b hb r0 hr0b
  simp [padTo]; omega

theorem chunksAux_flatten {β : Type} (n : Nat) (hn : 0 < n) : ∀ (fuel : Nat) (xs : List β), xs.length ≤ fuel →
    (chunksAux n fuel xs).flatten = xs := by
  intro fuel
  induction fuel with
  | zero => intro xs h; cases xs with
    | nil => simp [chunksAux]
    | cons x xs => simp at h
  | succ f ih =>
    intro xs h
    cases xs with
    | nil => simp [chunksAux]
    | cons x xs =>
      simp only [chunksAux, List.flatten_cons]
      rw [ih _ (by simp only [List.length_drop, List.length_cons] at h ⊢; omega)]
      exact List.take_append_drop n (x :: xs)

/-- the sequential loader's batches concatenate back to the dataset, whatever the batch size (last batch short) -/
theorem flatten_chunks {β : Type} (n : Nat) (hn : 0 < n) (xs : List β) : (chunks n xs).flatten = xs :=
  chunksAux_flatten n hn xs.length xs (Nat.le_refl _)

variable {I : Type}

/-- **chunking does not matter for the rewards**: if `_inner` (policy included) is per-instance on the rewards
— which is C14 plus the index laws above — `evaluate_policy` returns `map` over the dataset for ANY batch size. -/
theorem evalCall_eq_map (f : List I → List (Int × List Nat)) (h1 : I → Int)
    (hf : ∀ batch, (f batch).map (·.1) = batch.map h1) (n : Nat) (hn : 0 < n) (ds : List I) :
    (evalCall f n ds).1 = ds.map h1 := by
  simp only [evalCall, concatRewards, List.map_map]
  have : (List.map ((fun x => List.map (fun x => x.fst) x) ∘ f) (chunks n ds)) = (chunks n ds).map (List.map h1) := by
    apply List.map_congr_left
    intro b _
    exact hf b
  rw [this, ← List.map_flatten, flatten_chunks n hn]

/-- … and for the actions up to zero padding: if in every batch the row returned for an instance is its own
action list `h2 i` followed by zeros only (depot padding while batch-mates finish), the same holds for the
concatenated result, in dataset order. -/
theorem evalCall_actions (f : List I → List (Int × List Nat)) (h2 : I → List Nat)
    (hrect : ∀ batch, Rect ((f batch).map (·.2)))
    (hf : ∀ batch, ∃ zs : List Nat, zs.length = batch.length ∧
      (f batch).map (·.2) = List.zipWith (fun i z => h2 i ++ List.replicate z 0) batch zs)
    (n : Nat) (hn : 0 < n) (ds : List I) :
    ∃ zs : List Nat, zs.length = ds.length ∧
      (evalCall f n ds).2 = List.zipWith (fun i z => h2 i ++ List.replicate z 0) ds zs := by
  simp only [evalCall]
  generalize hL : maxLen (List.map (fun x => List.map (fun x => x.snd) x) (List.map f (chunks n ds))) = L
  have hc := (concat_batches (List.map (fun x => List.map (fun x => x.snd) x) (List.map f (chunks n ds)))
    (by intro b hb; simp only [List.map_map, List.mem_map, Function.comp] at hb; obtain ⟨c, _, rfl⟩ := hb; exact hrect c)).1
  rw [hc, hL]
  -- per-chunk padding lists
  have key : ∀ (cs : List (List I)), ∃ zs : List Nat, zs.length = cs.flatten.length ∧
      (List.map (fun x => List.map (fun x => x.snd) x) (List.map f cs)).flatten.map (padTo L)
        = List.zipWith (fun i z => h2 i ++ List.replicate z 0) cs.flatten zs := by
    intro cs
    induction cs with
    | nil => exact ⟨[], by simp⟩
    | cons c cs ih =>
      obtain ⟨zs, hz, hzs⟩ := ih
      obtain ⟨ws, hw, hws⟩ := hf c
      refine ⟨(List.zipWith (fun i w => w + (L - (h2 i ++ List.replicate w 0).length)) c ws) ++ zs, ?_, ?_⟩
      · simp [hz, hw]
      · simp only [List.map_cons, List.flatten_cons, List.map_append, hzs, hws]
        rw [List.zipWith_append (by simp [hw])]
        congr 1
        clear hzs hws hz hc hL
        induction c generalizing ws with
        | nil => simp
        | cons i c ihc =>
          cases ws with
          | nil => simp at hw
          | cons w ws =>
            simp only [List.zipWith_cons_cons, List.map_cons, List.length_cons] at hw ⊢
            rw [ihc ws (by omega)]
            simp [padTo, List.append_assoc, List.replicate_append_replicate]
  obtain ⟨zs, hz, hzs⟩ := key (chunks n ds)
  rw [flatten_chunks n hn] at hz hzs
  exact ⟨zs, hz, hzs⟩

theorem pathLen_snoc_zero (D : Nat → Nat → Int) (h00 : D 0 0 = 0) (x : Nat) (xs : List Nat) :
    pathLen D (x :: (xs ++ [0]) ++ [0]) = pathLen D (x :: (xs ++ [0])) := by
  rw [pathLen_append_singleton D x (xs ++ [0]) 0]
  have : (x :: (xs ++ [0])).getLast (by simp) = 0 := by simp [List.getLast_cons]
  rw [this, h00]; simp

/-- depot padding is free: zeros appended to a routing solution do not change the routes objective
(`D 0 0 = 0`) — so the objective of the returned, padded actions is the objective of the rollout. -/
theorem pad_cost_invariant (D : Nat → Nat → Int) (h00 : D 0 0 = 0) (as : List Nat) (z : Nat) :
    routesLen D (as ++ List.replicate z 0) = routesLen D as := by
  rw [← closed_eq_routesLen D h00, ← closed_eq_routesLen D h00]
  induction z with
  | zero => simp
  | succ z ih =>
    have e : 0 :: (as ++ List.replicate (z + 1) 0) ++ [0] = 0 :: ((as ++ List.replicate z 0) ++ [0]) ++ [0] := by
      rw [List.replicate_succ']; simp
    rw [e, pathLen_snoc_zero D h00, ← ih]
    simp

/-! ### non-vacuity -/

/-- 2 instances × 2 candidates each, reward = −(sum of the actions) + instance offset: instance 0 gets its own
best candidate (row 2), instance 1 its own (row 1); rows are never mixed between instances. -/
example : bestOfInner (fun (i : Int) as => i - (as.map Int.ofNat).sum) 2 [100, 200] [[5, 5], [1, 1], [2, 2], [9, 9]]
    = [(96, [2, 2]), (198, [1, 1])] := by decide

example : msAugInner (fun (i : Int) as => i - (as.map Int.ofNat).sum) 2 2 [100] [[5], [4], [3], [7]] = [(97, [3])] := by decide

example : samplingInner (fun (i : Int) as => i - (as.map Int.ofNat).sum) 2 [100, 200] [[5, 5], [1, 1], [2, 2], [9, 9]]
    = [(96, [2, 2]), (198, [1, 1])] := by decide

/-- loader batches of sizes 2,2,1 with action widths 3,4,2: padded to 4, order kept -/
example : concatActions [[[1, 2, 0], [2, 1, 0]], [[1, 0, 2, 0], [2, 0, 1, 0]], [[2, 1]]]
    = [[1, 2, 0, 0], [2, 1, 0, 0], [1, 0, 2, 0], [2, 0, 1, 0], [2, 1, 0, 0]] := by decide

example : chunks 2 [10, 11, 12, 13, 14] = [[10, 11], [12, 13], [14]] := by decide
example : chunks 5 [10, 11, 12] = [[10, 11, 12]] := by decide

example : routesLen (fun a b => if a = b then 0 else (a + b : Int)) ([1, 2, 0, 3] ++ List.replicate 2 0)
    = routesLen (fun a b => if a = b then 0 else (a + b : Int)) [1, 2, 0, 3] := by decide

end Rl4co.Eval
