/-
C15, growth round 2.
* The evaluator OBJECT has no memory: `eval_call_independent_of_history`, `callSeq_eq_map` — with the extracted fact
  (`Params.augEvalListsLocal`) that `rewards_list` / `actions_list` are locals of `EvalBase.__call__`; if they were
  attributes created in `__init__`, a second call would return the first call's rows in front
  (`callObj_attr_counterexample`).
* Spec sanity for the objectives used as oracles by the evaluation checks: the closed tour length is invariant under
  rotation of the tour and, for a symmetric matrix, under reversal (a mis-stated objective would not have these).
No Mathlib.
-/
import Rl4co.Props.C15.AugEval
namespace Rl4co.Eval

variable {I : Type}

theorem lists_local : Params.augEvalListsLocal = true := by decide

/-- **C15 (object reuse)** whatever was evaluated before on the same evaluator object, a call returns exactly what a fresh
evaluator returns for that dataset, and leaves the object as it was: `evaluate` is a function of its arguments only. -/
theorem eval_call_independent_of_history (f : List I → List (Int × List Nat)) (n : Nat) (st : EvalObj) (ds : List I) :
    (callObj Params.augEvalListsLocal f n st ds).2 = evalCall f n ds
    ∧ (callObj Params.augEvalListsLocal f n st ds).1 = st := by
  simp [callObj, lists_local, evalCall]

/-- … hence for every history of calls: result `k` is the fresh result for dataset `k` -/
theorem callSeq_eq_map (f : List I → List (Int × List Nat)) (st : EvalObj) (calls : List (Nat × List I)) :
    callSeq Params.augEvalListsLocal f st calls = calls.map fun c => evalCall f c.1 c.2 := by
  induction calls generalizing st with
  | nil => rfl
  | cons c cs ih =>
    obtain ⟨n, ds⟩ := c
    simp only [callSeq, List.map_cons]
    rw [(eval_call_independent_of_history f n st ds).1, (eval_call_independent_of_history f n st ds).2, ih]

/-- with the lists kept on the object the second call returns the first call's rows in front -/
theorem callObj_attr_counterexample :
    ∃ (f : List Nat → List (Int × List Nat)) (d1 d2 : List Nat),
      (callSeq false f EvalObj.fresh [(2, d1), (2, d2)]).getD 1 ([], []) ≠ evalCall f 2 d2 := by
  refine ⟨fun b => b.map fun i => (Int.ofNat i, [i]), [1, 2, 3], [7], ?_⟩
  decide

end Rl4co.Eval

namespace Rl4co

/-! ### Spec sanity: the objectives used as oracles -/

theorem closedLen_cons (D : Nat → Nat → Int) (x : Nat) (xs : List Nat) :
    closedLen D (x :: xs) = pathLen D (x :: xs) + D ((x :: xs).getLast (by simp)) x := by
  simp only [closedLen]
  exact pathLen_append_singleton D x xs x

theorem pathLen_append (D : Nat → Nat → Int) (x : Nat) (xs : List Nat) (y : Nat) (ys : List Nat) :
    pathLen D ((x :: xs) ++ (y :: ys)) = pathLen D (x :: xs) + D ((x :: xs).getLast (by simp)) y + pathLen D (y :: ys) := by
  induction xs generalizing x with
  | nil => simp [pathLen]
  | cons z zs ih =>
    have := ih z
    simp only [List.cons_append] at this ⊢
    rw [pathLen_cons_cons, pathLen_cons_cons, this]
    simp [List.getLast_cons]
    omega

theorem getLastD_snoc (l : List Nat) (x d : Nat) : (l ++ [x]).getLastD d = x := by
  simp

theorem getLast_eq_getLastD' (x : Nat) (xs : List Nat) : (x :: xs).getLast (by simp) = (x :: xs).getLastD 0 := by
  induction xs generalizing x with
  | nil => rfl
  | cons y ys ih => rw [List.getLast_cons (by simp), ih y]; simp

theorem pathLen_snoc (D : Nat → Nat → Int) (l : List Nat) (hl : l ≠ []) (z : Nat) :
    pathLen D (l ++ [z]) = pathLen D l + D (l.getLastD 0) z := by
  cases l with
  | nil => exact absurd rfl hl
  | cons x xs =>
    rw [pathLen_append_singleton D x xs z, getLast_eq_getLastD' x xs]

/-- **Spec sanity** the closed tour length does not depend on where the tour starts: moving the first node to the end
(a rotation of the cyclic order) leaves it unchanged -/
theorem closedLen_rotate (D : Nat → Nat → Int) (x : Nat) (xs : List Nat) :
    closedLen D (xs ++ [x]) = closedLen D (x :: xs) := by
  cases xs with
  | nil => rfl
  | cons y ys =>
    -- both sides are path lengths of the tour closed by its first node
    have hl : closedLen D ((y :: ys) ++ [x]) = pathLen D (((y :: ys) ++ [x]) ++ [y]) := rfl
    have hr : closedLen D (x :: y :: ys) = pathLen D ((x :: y :: ys) ++ [x]) := rfl
    rw [hl, hr, pathLen_snoc D _ (by simp), pathLen_snoc D _ (by simp), pathLen_snoc D _ (by simp)]
    rw [show x :: y :: ys = [x] ++ (y :: ys) from rfl]
    have h2 : pathLen D ([x] ++ (y :: ys)) = D x y + pathLen D (y :: ys) := by simp [pathLen_cons_cons]
    rw [h2]
    have e1 : ((y :: ys) ++ [x]).getLastD 0 = x := getLastD_snoc _ _ _
    have e2 : ([x] ++ (y :: ys)).getLastD 0 = (y :: ys).getLastD 0 := by simp
    rw [e1, e2]
    omega

theorem pathLen_reverse (D : Nat → Nat → Int) (hs : ∀ a b, D a b = D b a) (xs : List Nat) :
    pathLen D xs.reverse = pathLen D xs := by
  induction xs with
  | nil => rfl
  | cons x xs ih =>
    cases xs with
    | nil => rfl
    | cons y ys =>
      rw [List.reverse_cons, pathLen_snoc D _ (by simp), ih, pathLen_cons_cons]
      have : ((y :: ys).reverse).getLastD 0 = y := by rw [List.reverse_cons]; exact getLastD_snoc _ _ _
      rw [this, hs y x]; omega

/-- **Spec sanity** with a symmetric distance matrix the closed tour length is the same in both directions -/
theorem closedLen_reverse (D : Nat → Nat → Int) (hs : ∀ a b, D a b = D b a) (xs : List Nat) :
    closedLen D xs.reverse = closedLen D xs := by
  cases xs with
  | nil => rfl
  | cons x xs =>
    have h1 : closedLen D (x :: xs) = pathLen D ((x :: xs) ++ [x]) := rfl
    have h2 : closedLen D ((x :: xs).reverse ++ [x]) = closedLen D (x :: (x :: xs).reverse) := closedLen_rotate D x _
    -- reverse of (x :: xs ++ [x]) is x :: reverse (x :: xs)
    have h3 : pathLen D ((x :: xs) ++ [x]) = pathLen D ((x :: xs) ++ [x]).reverse := (pathLen_reverse D hs _).symm
    rw [h1, h3]
    simp only [List.reverse_append, List.reverse_cons, List.reverse_nil, List.nil_append, List.singleton_append]
    -- goal: closedLen D (xs.reverse ++ [x]) = pathLen D (x :: (xs.reverse ++ [x]))
    rw [closedLen_rotate D x xs.reverse]
    rfl

/-- non-vacuity: a symmetric 4-point matrix, a tour and its rotation / reversal -/
example : closedLen (fun a b => ((a : Int) - b) * (a - b)) [0, 2, 1, 3] = closedLen (fun a b => ((a : Int) - b) * (a - b)) [2, 1, 3, 0] := by decide
example : closedLen (fun a b => ((a : Int) - b) * (a - b)) [0, 2, 1, 3] = closedLen (fun a b => ((a : Int) - b) * (a - b)) [3, 1, 2, 0] := by decide

end Rl4co
