/-
C10, real-valued instantiation: the theorems of `Rl4co.Props.C10.Logits` with `w = Real.exp`, the failure of
shift invariance under `tanh(·)·C` clipping, and non-vacuity examples.
-/
import Rl4co.Props.C10.Logits
import Rl4co.Props.C10.LogitsTight
import Mathlib.Analysis.Complex.Exponential
import Mathlib.Analysis.SpecialFunctions.Artanh
import Mathlib.Tactic.NormNum

namespace Rl4co.Decode

/-! ### the real-valued instantiation -/

theorem expLike_exp : ExpLike Real.exp :=
  ⟨Real.exp_pos, fun _ _ h => Real.exp_strictMono h, Real.exp_add⟩

/-- with `tanh_clipping = C > 0` as in the code (`torch.tanh(logits) * C`), shift invariance fails -/
theorem shift_invariant_tanh_counterexample (C : ℝ) (hC : 0 < C) :
    ¬ shift_invariant_clipped_statement Real.exp (fun v => Real.tanh v * C) := by
  apply shift_invariant_clipped_counterexample expLike_exp C
  · intro v
    rw [abs_mul, abs_of_pos hC]
    have h1 := Real.tanh_lt_one v
    have h2 := Real.neg_one_lt_tanh v
    have : |Real.tanh v| ≤ 1 := abs_le.mpr ⟨le_of_lt h2, le_of_lt h1⟩
    nlinarith
  · intro h
    have := mul_right_cancel₀ (ne_of_gt hC) h
    exact zero_ne_one (Real.tanh_injective this)


/-- **C10 over ℝ with `exp`**: for every row, mask with a feasible action, `T > 0`, `top_k`, `top_p ≤ 1`,
clipping function and valid oracle inputs, the emitted distribution is normalised, vanishes on masked
actions, keeps a most likely feasible action, keeps at most `k` actions ties aside, keeps mass ≥ `top_p` and
nothing superfluous (ties aside);
greedy returns a feasible maximiser; sampling returns feasible actions of positive probability. -/
theorem decoding_sound_real (clip : ℝ → ℝ) (c : Cfg ℝ) (n : Nat) (x : Nat → ℝ) (mask : Nat → Bool)
    (kth : Nat) (σ : Nat → Nat) (hv : Valid clip c n x mask kth σ) (hp1 : c.topP ≤ 1) :
    Spec.Decode.IsDist n (processLogits Real.exp clip c n x mask kth σ).prob 0 ∧
    Spec.Decode.MaskedZero n mask (processLogits Real.exp clip c n x mask kth σ).prob
      (processLogits Real.exp clip c n x mask kth σ).kept ∧
    Spec.Decode.ArgmaxKept n mask (score clip c x) (processLogits Real.exp clip c n x mask kth σ).kept ∧
    Spec.Decode.TopkCard n c.topK (score clip c x) (processLogits Real.exp clip c n x mask kth σ).kept ∧
    Spec.Decode.ToppMass n (softmaxN n Real.exp (afterK clip c n x mask kth).get).get
      (processLogits Real.exp clip c n x mask kth σ).kept c.topP 0 ∧
    (0 < c.topP → Spec.Decode.ToppTight n (softmaxN n Real.exp (afterK clip c n x mask kth).get).get
      (processLogits Real.exp clip c n x mask kth σ).kept c.topP 0) ∧
    (∀ a, GreedyValid n (processLogits Real.exp clip c n x mask kth σ).lg a →
      greedy mask a = some a ∧ Spec.Decode.GreedyOk n mask (processLogits Real.exp clip c n x mask kth σ).prob a) ∧
    (∀ a, SampleValid n (processLogits Real.exp clip c n x mask kth σ).prob a →
      Spec.Decode.SampleOk n mask (processLogits Real.exp clip c n x mask kth σ).kept a) :=
  ⟨probs_sum_one expLike_exp hv, masked_zero, argmax_kept expLike_exp hv, topk_card_le hv,
   topp_mass_ge expLike_exp hv hp1, fun hp0 => topp_tight expLike_exp hv hp0,
   fun a ha => ⟨(greedy_is_max expLike_exp hv a ha).1, (greedy_is_max expLike_exp hv a ha).2.1⟩,
   fun a ha => (sample_feasible expLike_exp hv a ha []).1⟩

/-- shift invariance over ℝ with `exp`, clipping off -/
theorem shift_invariant_real (clip : ℝ → ℝ) (c : Cfg ℝ) (n : Nat) (x : Nat → ℝ) (mask : Nat → Bool)
    (kth : Nat) (σ : Nat → Nat) (hc : c.clipOn = false) (d : ℝ) :
    (processLogits Real.exp clip c n (fun j => x j + d) mask kth σ).prob =
      (processLogits Real.exp clip c n x mask kth σ).prob :=
  (shift_invariant expLike_exp hc d).1

/-! ### non-vacuity -/

noncomputable def exCfg : Cfg ℝ := { temp := 2, topK := 2, topP := 1 / 2, clipOn := false }
noncomputable def exX : Nat → ℝ := fun j => if j = 0 then 0 else if j = 3 then 5 else 1
def exMask : Nat → Bool := fun j => decide (j < 3)
def exSigma : Nat → Nat := fun i => if i = 0 then 3 else i - 1

theorem ex_pre (j : Nat) : (pre id exCfg 4 exX exMask).get j = if j < 3 then some (exX j / 2) else none := by
  rw [pre_get]; simp [exMask, exCfg, score, clipStage]

theorem ex_afterK (j : Nat) : (afterK id exCfg 4 exX exMask 1).get j = if j = 1 ∨ j = 2 then some (1 / 2) else none := by
  rw [afterK_get]
  simp only [ex_pre]
  rcases (by omega : j = 0 ∨ j = 1 ∨ j = 2 ∨ 3 ≤ j) with h | h | h | h
  · subst h; simp [exCfg, exX, ltO]
  · subst h; simp [exCfg, exX, ltO]
  · subst h; simp [exCfg, exX, ltO]
  · have h1 : ¬ j < 3 := by omega
    have h2 : ¬ (j = 1 ∨ j = 2) := by omega
    simp [exCfg, h1, h2, ltO]

/-- the hypotheses are satisfiable on a non-trivial row: 4 actions (one masked, a tie), `T = 2`, `top_k = 2`,
`top_p = 1/2`; `kth = 1` and `σ = [3,0,1,2]` are valid oracle inputs -/
theorem ex_valid : Valid id exCfg 4 exX exMask 1 exSigma := by
  refine ⟨?_, ?_, ?_, ?_⟩
  · norm_num [exCfg]
  · exact ⟨0, by omega, rfl⟩
  · right
    refine (kthValid_iff _ _ _ _).mpr ⟨by omega, ?_, ?_⟩
    · simp only [ex_pre]
      rw [show (4 : Nat) = 0 + 1 + 1 + 1 + 1 from rfl]
      simp only [cnt_succ]
      norm_num [cnt, exX, ltO, exCfg]
    · simp only [ex_pre]
      rw [show (4 : Nat) = 0 + 1 + 1 + 1 + 1 from rfl]
      simp only [cnt_succ]
      norm_num [cnt, exX, leO, ltO, exCfg]
  · right
    refine (sortValid_iff _ _ _).mpr ⟨?_, ?_, ?_⟩
    · intro i hi; simp only [exSigma]; split <;> omega
    · intro i hi i' hi' h; simp only [exSigma] at h; split at h <;> split at h <;> omega
    · intro i hi hi'
      simp only [ex_afterK, exSigma]
      rcases (by omega : i = 0 ∨ i = 1 ∨ i = 2) with h | h | h <;> subst h <;> simp [leO, ltO]


example : Spec.Decode.IsDist 4 (processLogits Real.exp id exCfg 4 exX exMask 1 exSigma).prob 0 :=
  probs_sum_one expLike_exp ex_valid

example : ∃ a, GreedyValid 4 (processLogits Real.exp id exCfg 4 exX exMask 1 exSigma).lg a := by
  obtain ⟨j, hj, hmax, hlg, hs⟩ := exists_max_kept expLike_exp ex_valid (w := Real.exp)
  refine ⟨j, (greedyValid_iff _ _ _).mpr ⟨hj, fun i hi => ?_⟩⟩
  rw [leO_iff, hlg, lg_eq]
  exact le_trans (le_trans (topP_le _ _ _ _ _ i) (afterK_le_pre _ _ _ _ _ _ i)) (hmax i hi)

end Rl4co.Decode
