/-
C10 — non-vacuity in general: valid oracle inputs always exist (a k-th largest index, an ascending sorting
permutation, an argmax, an index of positive probability), so the theorems of `Rl4co.Props.C10.Logits`
say something about every row with a feasible action and every configuration with `T > 0`.
-/
import Rl4co.Props.C10.Logits
import Mathlib.Data.List.Sort

namespace Rl4co.Decode
open Finset

section exists_
set_option linter.unusedSectionVars false
variable {K : Type} [Field K] [LinearOrder K] [IsStrictOrderedRing K]

/-- every row has an ascending sorting permutation -/
theorem exists_sortValid (n : Nat) (X : Nat → Option K) : ∃ σ : Nat → Nat, SortValid n X σ := by
  classical
  let r : Nat → Nat → Prop := fun i j => wb (X i) ≤ wb (X j)
  have : Std.Total r := ⟨fun i j => le_total _ _⟩
  have : IsTrans Nat r := ⟨fun i j k h1 h2 => le_trans h1 h2⟩
  let l := (List.range n).insertionSort r
  have hperm : l.Perm (List.range n) := List.perm_insertionSort r _
  have hlen : l.length = n := by rw [hperm.length_eq, List.length_range]
  have hnd : l.Nodup := hperm.nodup_iff.mpr List.nodup_range
  have hpw : l.Pairwise r := List.pairwise_insertionSort r _
  refine ⟨fun i => l.getD i 0, (sortValid_iff _ _ _).mpr ⟨?_, ?_, ?_⟩⟩
  · intro i hi
    have hi' : i < l.length := by omega
    have : l.getD i 0 = l[i] := by simp [List.getD_eq_getElem?_getD, hi']
    simp only [this]
    have hmem : l[i] ∈ List.range n := hperm.mem_iff.mp (List.getElem_mem hi')
    exact List.mem_range.mp hmem
  · intro i hi i' hi' h
    have h1 : i < l.length := by omega
    have h2 : i' < l.length := by omega
    have e1 : l.getD i 0 = l[i] := by simp [List.getD_eq_getElem?_getD, h1]
    have e2 : l.getD i' 0 = l[i'] := by simp [List.getD_eq_getElem?_getD, h2]
    simp only [e1, e2] at h
    exact (List.Nodup.getElem_inj_iff hnd).mp h
  · intro i hi hi'
    have h1 : i < l.length := by omega
    have h2 : i + 1 < l.length := by omega
    have e1 : l.getD i 0 = l[i] := by simp [List.getD_eq_getElem?_getD, h1]
    have e2 : l.getD (i + 1) 0 = l[i + 1] := by simp [List.getD_eq_getElem?_getD, h2]
    simp only [e1, e2]
    rw [leO_iff]
    exact (List.pairwise_iff_getElem.mp hpw) i (i + 1) h1 h2 (by omega)

/-- the entry at sorted position `n - min k n` is a `min k n`-th largest one -/
theorem kthValid_of_sort (n k : Nat) (X : Vec (Option K)) (σ : Nat → Nat) (hσ : SortValid n X.get σ)
    (hn : 0 < n) (hk : 0 < k) : KthValid n k X.get (σ (n - min k n)) := by
  have hk' : 0 < min k n := by omega
  have hkn : min k n ≤ n := Nat.min_le_right _ _
  set k' := min k n with hk'def
  have hpos : n - k' < n := by omega
  refine (kthValid_iff _ _ _ _).mpr ⟨hσ.1 _ hpos, ?_, ?_⟩
  · -- strictly larger entries sit at positions above n - k'
    rw [cnt_eq_card]
    have hsub : (range n).filter (fun j => ltO (X.get (σ (n - k'))) (X.get j) = true)
        ⊆ (range (k' - 1)).image (fun t => σ (t + (n - k' + 1))) := by
      intro j hj
      simp only [Finset.mem_filter, Finset.mem_range] at hj
      obtain ⟨i, hi, rfl⟩ := sigma_surj n σ X hσ j hj.1
      have hlt := (ltO_iff _ _).mp hj.2
      have hgt : n - k' < i := by
        by_contra hle
        exact absurd (sorted_le n σ X hσ i (n - k') (by omega) hpos) (not_le.mpr hlt)
      refine Finset.mem_image.mpr ⟨i - (n - k' + 1), Finset.mem_range.mpr (by omega), ?_⟩
      congr 1; omega
    calc _ ≤ ((range (k' - 1)).image (fun t => σ (t + (n - k' + 1)))).card := Finset.card_le_card hsub
      _ ≤ (range (k' - 1)).card := Finset.card_image_le
      _ = k' - 1 := Finset.card_range _
      _ < k' := by omega
  · rw [cnt_eq_card]
    have hsub : (range k').image (fun t => σ (t + (n - k')))
        ⊆ (range n).filter (fun j => leO (X.get (σ (n - k'))) (X.get j) = true) := by
      intro j hj
      obtain ⟨t, ht, rfl⟩ := Finset.mem_image.mp hj
      have ht := Finset.mem_range.mp ht
      simp only [Finset.mem_filter, Finset.mem_range]
      refine ⟨hσ.1 _ (by omega), ?_⟩
      rw [leO_iff]
      exact sorted_le n σ X hσ (n - k') (t + (n - k')) (by omega) (by omega)
    have hcard : ((range k').image (fun t => σ (t + (n - k')))).card = k' := by
      rw [Finset.card_image_of_injOn, Finset.card_range]
      intro t ht t' ht' h
      have ht := Finset.mem_range.mp ht
      have ht' := Finset.mem_range.mp ht'
      have := hσ.2.1 _ (by omega) _ (by omega) h
      omega
    calc k' = _ := hcard.symm
      _ ≤ _ := Finset.card_le_card hsub

/-- **The hypotheses are never vacuous**: for every row with a feasible action and every configuration
with `T > 0` there are valid oracle inputs (a k-th largest index and a sorting permutation exist). -/
theorem exists_valid (clip : K → K) (c : Cfg K) (n : Nat) (x : Nat → K) (mask : Nat → Bool)
    (hT : 0 < c.temp) (hf : ∃ j, j < n ∧ mask j = true) :
    ∃ kth σ, Valid clip c n x mask kth σ := by
  obtain ⟨jf, hjf, hmf⟩ := hf
  have hn : 0 < n := by omega
  obtain ⟨σ3, hσ3⟩ := exists_sortValid n (pre clip c n x mask).get
  obtain ⟨σ4, hσ4⟩ := exists_sortValid n (afterK clip c n x mask (σ3 (n - min c.topK n))).get
  refine ⟨σ3 (n - min c.topK n), σ4, hT, ⟨jf, hjf, hmf⟩, ?_, Or.inr hσ4⟩
  by_cases hk : c.topK = 0
  · exact Or.inl hk
  · exact Or.inr (kthValid_of_sort n c.topK _ σ3 hσ3 hn (by omega))

/-- an argmax of the emitted log-probabilities exists -/
theorem exists_greedyValid (n : Nat) (lg : Nat → Option K) (hn : 0 < n) : ∃ a, GreedyValid n lg a := by
  obtain ⟨a, ha, hmax⟩ := Finset.exists_max_image (range n) (fun j => wb (lg j)) ⟨0, Finset.mem_range.mpr hn⟩
  exact ⟨a, (greedyValid_iff _ _ _).mpr ⟨Finset.mem_range.mp ha, fun j hj => (leO_iff _ _).mpr (hmax j (Finset.mem_range.mpr hj))⟩⟩

/-- an index of positive probability exists -/
theorem exists_sampleValid {w clip : K → K} {c : Cfg K} {n : Nat} {x : Nat → K} {mask : Nat → Bool}
    {kth : Nat} {σ : Nat → Nat} (hw : ExpLike w) (hv : Valid clip c n x mask kth σ) :
    ∃ a, SampleValid n (processLogits w clip c n x mask kth σ).prob a := by
  obtain ⟨j, hj, _, _, hk⟩ := argmax_kept (w := w) hw hv
  exact ⟨j, hj, (kept_iff_pos hw hv j).mp hk⟩

end exists_
end Rl4co.Decode
