/-
C10 on the *generated* pipeline: `Rl4co.Decode.Generated.processLogitsGen` is regenerated on every run from the
statements of `process_logits` (harness/probes/logits_trans.py).  `processLogitsGen_eq` proves it is the model
the C10 theorems are about (it stops compiling when a statement is moved, dropped, duplicated or nested
differently), and the clauses are restated on the generated definition.
-/
import Rl4co.Generated.LogitsPipeline
import Rl4co.Props.C10.LogitsOpt

namespace Rl4co.Decode

section gen
set_option linter.unusedSectionVars false
variable {K : Type} [Field K] [LinearOrder K] [IsStrictOrderedRing K]
variable {w clip : K → K} {c : Cfg K} {n : Nat} {x : Nat → K} {mask : Nat → Bool} {kth : Nat} {σ : Nat → Nat}

/-- the generated statement sequence is the model -/
theorem processLogitsGen_eq :
    Generated.processLogitsGen w clip c n x mask kth σ = processLogits w clip c n x mask kth σ := by
  simp only [Generated.processLogitsGen, processLogits, stageOrder_eq, runStages, List.foldl, applyStage]

/-- **C10 on the generated `process_logits`**: for every row, mask with a feasible action, `T > 0`, `top_k`,
`top_p ≤ 1`, clipping function, exp-like weight and valid oracle inputs. -/
theorem decoding_sound_generated (hw : ExpLike w) (hv : Valid clip c n x mask kth σ) (hp1 : c.topP ≤ 1) :
    Spec.Decode.IsDist n (Generated.processLogitsGen w clip c n x mask kth σ).prob 0 ∧
    Spec.Decode.MaskedZero n mask (Generated.processLogitsGen w clip c n x mask kth σ).prob
      (Generated.processLogitsGen w clip c n x mask kth σ).kept ∧
    Spec.Decode.ArgmaxKept n mask (score clip c x) (Generated.processLogitsGen w clip c n x mask kth σ).kept ∧
    Spec.Decode.TopkCard n c.topK (score clip c x) (Generated.processLogitsGen w clip c n x mask kth σ).kept ∧
    Spec.Decode.ToppMass n (softmaxN n w (afterK clip c n x mask kth).get).get
      (Generated.processLogitsGen w clip c n x mask kth σ).kept c.topP 0 ∧
    (0 < c.topP → Spec.Decode.ToppTight n (softmaxN n w (afterK clip c n x mask kth).get).get
      (Generated.processLogitsGen w clip c n x mask kth σ).kept c.topP 0) ∧
    (∀ a, GreedyValid n (Generated.processLogitsGen w clip c n x mask kth σ).lg a →
      greedy mask a = some a ∧
        Spec.Decode.GreedyOk n mask (Generated.processLogitsGen w clip c n x mask kth σ).prob a) ∧
    (∀ a, SampleValid n (Generated.processLogitsGen w clip c n x mask kth σ).prob a →
      Spec.Decode.SampleOk n mask (Generated.processLogitsGen w clip c n x mask kth σ).kept a) := by
  rw [processLogitsGen_eq]
  exact ⟨probs_sum_one hw hv, masked_zero, argmax_kept hw hv, topk_card_le hv, topp_mass_ge hw hv hp1,
    fun hp0 => topp_tight hw hv hp0,
    fun a ha => ⟨(greedy_is_max hw hv a ha).1, (greedy_is_max hw hv a ha).2.1⟩,
    fun a ha => (sample_feasible hw hv a ha []).1⟩

/-- shift invariance (clipping off) on the generated pipeline -/
theorem shift_invariant_generated (hw : ExpLike w) (hc : c.clipOn = false) (d : K) :
    (Generated.processLogitsGen w clip c n (fun j => x j + d) mask kth σ).prob =
      (Generated.processLogitsGen w clip c n x mask kth σ).prob := by
  rw [processLogitsGen_eq, processLogitsGen_eq]
  exact (shift_invariant hw hc d).1

end gen
end Rl4co.Decode
