/-
C10 — the `mask_logits = False` path (`process_logits(…, mask=None, mask_logits=False)`, and
`DecodingStrategy.step`, which then drops the mask before calling the selection routine): skipping the
statement `logits[~mask] = -inf` is the same as an all-feasible mask, so every C10 clause holds for it with
"feasible" read as "any action"; nothing is asserted or resampled.
-/
import Rl4co.Props.C10.LogitsTight

namespace Rl4co.Decode

section opt
set_option linter.unusedSectionVars false
variable {K : Type} [Field K] [LinearOrder K] [IsStrictOrderedRing K]
variable {w clip : K → K} {c : Cfg K} {n : Nat} {x : Nat → K} {mask : Nat → Bool} {kth : Nat} {σ : Nat → Nat}

/-- an all-feasible mask fills nothing: the mask statement is a no-op -/
theorem maskStage_alltrue (x : Nat → K) (j : Nat) : maskStage (fun _ => true) x j = some (x j) := by
  rw [maskStage_eq]; simp

theorem processLogitsOpt_true : processLogitsOpt true w clip c n x mask kth σ = processLogits w clip c n x mask kth σ := rfl

theorem processLogitsOpt_false :
    processLogitsOpt false w clip c n x mask kth σ = processLogits w clip c n x (fun _ => true) kth σ := rfl

/-- **mask_logits = False**: the emitted distribution is normalised, keeps an action of maximal score, keeps
at most `k` ties aside, mass ≥ `top_p` and nothing superfluous — whatever `mask` was passed (it is ignored). -/
theorem nomask_sound (hw : ExpLike w) (hv : Valid clip c n x (fun _ => true) kth σ) (hp1 : c.topP ≤ 1) :
    Spec.Decode.IsDist n (processLogitsOpt false w clip c n x mask kth σ).prob 0 ∧
    Spec.Decode.ArgmaxKept n (fun _ => true) (score clip c x) (processLogitsOpt false w clip c n x mask kth σ).kept ∧
    Spec.Decode.TopkCard n c.topK (score clip c x) (processLogitsOpt false w clip c n x mask kth σ).kept ∧
    Spec.Decode.ToppMass n (softmaxN n w (afterK clip c n x (fun _ => true) kth).get).get
      (processLogitsOpt false w clip c n x mask kth σ).kept c.topP 0 ∧
    (0 < c.topP → Spec.Decode.ToppTight n (softmaxN n w (afterK clip c n x (fun _ => true) kth).get).get
      (processLogitsOpt false w clip c n x mask kth σ).kept c.topP 0) := by
  rw [processLogitsOpt_false]
  exact ⟨probs_sum_one hw hv, argmax_kept hw hv, topk_card_le hv, topp_mass_ge hw hv hp1,
    fun hp0 => topp_tight hw hv hp0⟩

/-- `Greedy(mask_logits=False).step` returns the argmax unchecked; `Sampling(mask_logits=False).step` the first
draw, which has positive probability -/
theorem step_nomask (a : Nat) (rest : List Nat) :
    (stepGreedyNoMask w clip c n x mask kth σ a).2 = some a ∧
    (stepSamplingNoMask w clip c n x mask kth σ (a :: rest)).2 = .ok a := ⟨rfl, rfl⟩

end opt
end Rl4co.Decode
