/-
C10 — sanity of the spec `Rl4co.Spec.Decode`, independent of the model: the predicates are satisfiable
(uniform distribution), say what they should (all mass on feasible actions; "at most k" implies "at most k,
ties aside"; only the order of the scores matters; keeping everything satisfies the mass clause but tightness
excludes an action dominated by a more likely one of mass ≥ p), so a vacuous or mis-stated spec would show.
-/
import Rl4co.Props.C10.Logits

namespace Rl4co.Spec.Decode
open Finset Rl4co.Decode

section sanity
set_option linter.unusedSectionVars false
variable {K : Type} [Field K] [LinearOrder K] [IsStrictOrderedRing K]

/-- the uniform distribution is a distribution (the spec is satisfiable for every `n > 0`) -/
theorem isDist_uniform (n : Nat) (hn : 0 < n) : IsDist n (fun _ => (1 : K) / n) 0 := by
  have hn' : (n : K) ≠ 0 := Nat.cast_ne_zero.mpr (Nat.pos_iff_ne_zero.mp hn)
  refine ⟨fun j _ => by positivity, ?_, ?_⟩ <;>
  · rw [sumN_eq_sum, Finset.sum_const, Finset.card_range, nsmul_eq_mul, mul_one_div, div_self hn']
    simp

/-- a distribution that vanishes on the masked actions puts all its mass on the feasible ones -/
theorem feasible_mass_one (n : Nat) (mask : Nat → Bool) (p : Nat → K) (kept : Nat → Bool)
    (hd : IsDist n p 0) (hm : MaskedZero n mask p kept) :
    ∑ j ∈ range n, (if mask j = true then p j else 0) = 1 := by
  have hs : ∑ j ∈ range n, p j = 1 := by
    have := hd.2; rw [sumN_eq_sum] at this; linarith [this.1, this.2]
  rw [← hs]
  apply Finset.sum_congr rfl
  intro j hj
  by_cases h : mask j = true
  · simp [h]
  · have := (hm j (Finset.mem_range.mp hj) (by simpa using h)).1
    simp [h, this]

/-- "at most k, ties aside" is implied by the plain "at most k": the weakening only concerns ties -/
theorem topkCard_of_card_le (n k : Nat) (score : Nat → K) (kept : Nat → Bool) (hk : cnt n kept ≤ k) :
    TopkCard n k score kept := by
  by_cases hk0 : k = 0
  · exact Or.inl hk0
  · right
    intro j0 hj0 hkj0 _
    refine lt_of_lt_of_le ?_ hk
    rw [cnt_eq_card, cnt_eq_card]
    apply Finset.card_lt_card
    constructor
    · intro j hj
      simp only [Finset.mem_filter, Finset.mem_range, Bool.and_eq_true, decide_eq_true_eq] at hj ⊢
      exact ⟨hj.1, hj.2.1⟩
    · intro hss
      have := hss (Finset.mem_filter.mpr ⟨Finset.mem_range.mpr hj0, hkj0⟩)
      simp at this

/-- only the order of the scores matters -/
theorem argmaxKept_strictMono (n : Nat) (mask : Nat → Bool) (score : Nat → K) (kept : Nat → Bool)
    (f : K → K) (hf : StrictMono f) (h : ArgmaxKept n mask score kept) :
    ArgmaxKept n mask (fun j => f (score j)) kept := by
  obtain ⟨j, hj, hm, hmax, hk⟩ := h
  exact ⟨j, hj, hm, fun i hi hmi => hf.monotone (hmax i hi hmi), hk⟩

/-- keeping everything satisfies the mass clause for every `top_p ≤ 1` -/
theorem toppMass_all_kept (n : Nat) (q : Nat → K) (kept : Nat → Bool) (p : K) (hq : IsDist n q 0)
    (hall : ∀ j, j < n → kept j = true) (hp : p ≤ 1) : ToppMass n q kept p 0 := by
  have hs : ∑ j ∈ range n, q j = 1 := by
    have := hq.2; rw [sumN_eq_sum] at this; linarith [this.1, this.2]
  simp only [ToppMass, sumN_eq_sum, add_zero]
  rw [Finset.sum_congr rfl (fun j hj => by rw [if_pos (hall j (Finset.mem_range.mp hj))])]
  linarith

/-- tightness is inherited by smaller supports -/
theorem toppTight_subset (n : Nat) (q : Nat → K) (kept kept' : Nat → Bool) (p : K)
    (hsub : ∀ j, j < n → kept' j = true → kept j = true) (h : ToppTight n q kept p 0) :
    ToppTight n q kept' p 0 :=
  fun j hj hk => h j hj (hsub j hj hk)

/-- tightness has teeth: an action is excluded as soon as a strictly more likely one already carries mass ≥ `p` -/
theorem toppTight_excludes (n : Nat) (q : Nat → K) (kept : Nat → Bool) (p : K) (hq : ∀ j, j < n → 0 ≤ q j)
    (h : ToppTight n q kept p 0) (i j : Nat) (hi : i < n) (hj : j < n) (hlt : q j < q i) (hmass : p ≤ q i) :
    kept j = false := by
  by_contra hk
  have hk' : kept j = true := by simpa using hk
  have := h j hj hk'
  rw [sumN_eq_sum, add_zero] at this
  have hle : q i ≤ ∑ t ∈ range n, (if q j < q t then q t else 0) := by
    have : q i = (if q j < q i then q i else 0) := by simp [hlt]
    rw [this]
    exact Finset.single_le_sum (f := fun t => if q j < q t then q t else 0)
      (fun t ht => by split <;> [exact hq t (Finset.mem_range.mp ht); exact le_refl _]) (Finset.mem_range.mpr hi)
  linarith

theorem close_refl (n : Nat) (p : Nat → K) : Close n p p 0 := fun j _ => ⟨by simp, by simp⟩

theorem close_symm (n : Nat) (p p' : Nat → K) (tol : K) (h : Close n p p' tol) : Close n p' p tol :=
  fun j hj => ⟨(h j hj).2, (h j hj).1⟩

end sanity
end Rl4co.Spec.Decode
