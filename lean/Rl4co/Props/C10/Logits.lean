/-
C10 — decoding distributions are proper and confined to feasible actions.

Theorems about the model `Rl4co.Decode.processLogits` / `greedy` / `sampleLoop` (mirror of
`rl4co/utils/decoding.py`), for every row length `n`, all logits, every mask with a feasible action,
every temperature `T > 0`, every `top_k ≥ 0`, every `top_p` (≤ 1 where stated), clipping on or off
(an arbitrary clipping function), over every linearly ordered field and every exp-like weight `w`
(`ExpLike`: positive, strictly increasing, `w (x + c) = w x * w c`; `Real.exp` in `LogitsReal.lean`),
and for *every valid* result of the tie-breaking primitives (`torch.topk`, `torch.sort`, `argmax`,
`multinomial`), which enter as oracle inputs constrained by `KthValid`, `SortValid`, `GreedyValid`,
`SampleValid`.  The conclusions are the predicates of `Rl4co.Spec.Decode` with tolerance 0.
-/
import Rl4co.Proofs.LogitsLemmas
import Mathlib.Algebra.Order.Archimedean.Basic

namespace Rl4co.Decode
open Finset

section gen
set_option linter.unusedSectionVars false
variable {K : Type} [Field K] [LinearOrder K] [IsStrictOrderedRing K]
variable (w clip : K → K) (c : Cfg K) (n : Nat) (x : Nat → K) (mask : Nat → Bool) (kth : Nat) (σ : Nat → Nat)

/-! ### process_logits -/

/-- hypotheses of the C10 theorems: positive temperature, a feasible action, valid oracle inputs -/
structure Valid : Prop where
  temp_pos : 0 < c.temp
  feasible : ∃ j, j < n ∧ mask j = true
  kth_valid : c.topK = 0 ∨ KthValid n c.topK (pre clip c n x mask).get kth
  sort_valid : (c.topP ≤ 0 ∨ 1 ≤ c.topP) ∨ SortValid n (afterK clip c n x mask kth).get σ

theorem lg_eq (j : Nat) : (processLogits w clip c n x mask kth σ).lg j =
    (topPStage n w c.topP σ (afterK clip c n x mask kth)).get j := by
  simp only [processLogits, stLogSoftmax, runStages_canonical]

theorem prob_eq (j : Nat) : (processLogits w clip c n x mask kth σ).prob j =
    wO w ((processLogits w clip c n x mask kth σ).lg j) /
      ∑ i ∈ range n, wO w ((processLogits w clip c n x mask kth σ).lg i) := by
  simp only [processLogits, stLogSoftmax, softmax_get]

/-- a kept entry is feasible and carries its own (clipped, tempered) logit -/
theorem lg_some {j : Nat} {v : K} (h : (processLogits w clip c n x mask kth σ).lg j = some v) :
    mask j = true ∧ v = score clip c x j / c.temp ∧ (afterK clip c n x mask kth).get j = some v := by
  rw [lg_eq] at h
  have h4 := topP_some w n σ _ _ h
  have h3 := (afterK_some clip c n x mask kth h4).1
  exact ⟨(pre_some clip c n x mask h3).1, (pre_some clip c n x mask h3).2, h4⟩

variable {w clip c n x mask kth σ}

/-- some entry that is maximal before filtering passes both filters unchanged -/
theorem exists_max_kept (hw : ExpLike w) (hv : Valid clip c n x mask kth σ) :
    ∃ j, j < n ∧ (∀ i, i < n → wb ((pre clip c n x mask).get i) ≤ wb ((pre clip c n x mask).get j)) ∧
      (processLogits w clip c n x mask kth σ).lg j = (pre clip c n x mask).get j ∧
      ((pre clip c n x mask).get j).isSome = true := by
  obtain ⟨jf, hjf, hmf⟩ := hv.feasible
  have hne : (range n).Nonempty := ⟨jf, Finset.mem_range.mpr hjf⟩
  obtain ⟨j1, hj1, hmax1⟩ := Finset.exists_max_image (range n) (fun j => wb ((pre clip c n x mask).get j)) hne
  have hj1 := Finset.mem_range.mp hj1
  have hmax1 : ∀ i, i < n → wb ((pre clip c n x mask).get i) ≤ wb ((pre clip c n x mask).get j1) :=
    fun i hi => hmax1 i (Finset.mem_range.mpr hi)
  have hsome_of_max : ∀ j, (∀ i, i < n → wb ((pre clip c n x mask).get i) ≤ wb ((pre clip c n x mask).get j)) →
      ((pre clip c n x mask).get j).isSome = true := by
    intro j hmax
    have := hmax jf hjf
    rw [pre_of_mask clip c n x mask hmf] at this
    cases hx : (pre clip c n x mask).get j with
    | none => rw [hx] at this; simp at this
    | some v => rfl
  by_cases hact : c.topP ≤ 0 ∨ 1 ≤ c.topP
  · refine ⟨j1, hj1, hmax1, ?_, hsome_of_max j1 hmax1⟩
    rw [lg_eq, topP_get, if_pos hact]
    exact afterK_of_max clip c n x mask kth hv.kth_valid hmax1
  · rcases hv.sort_valid with h | hσ
    · exact absurd h hact
    · have hn : 0 < n := by omega
      have hlast : σ (n - 1) < n := hσ.1 (n - 1) (by omega)
      have hmaxl : ∀ i, i < n → wb ((pre clip c n x mask).get i) ≤ wb ((pre clip c n x mask).get (σ (n - 1))) := by
        intro i hi
        calc wb ((pre clip c n x mask).get i) ≤ wb ((pre clip c n x mask).get j1) := hmax1 i hi
          _ = wb ((afterK clip c n x mask kth).get j1) := by
              rw [afterK_of_max clip c n x mask kth hv.kth_valid hmax1]
          _ ≤ wb ((afterK clip c n x mask kth).get (σ (n - 1))) := last_is_max n σ _ hσ j1 hj1
          _ ≤ wb ((pre clip c n x mask).get (σ (n - 1))) := afterK_le_pre clip c n x mask kth _
      have h4 := afterK_of_max clip c n x mask kth hv.kth_valid hmaxl
      have hs := hsome_of_max _ hmaxl
      refine ⟨σ (n - 1), hlast, hmaxl, ?_, hs⟩
      rw [lg_eq, topP_last_kept w n σ _ _ hw (Or.inr hσ) hn (by rw [h4]; exact hs), h4]

theorem score_le_of_pre_le (hT : 0 < c.temp) {i j : Nat} (hi : mask i = true) (hj : mask j = true)
    (h : wb ((pre clip c n x mask).get i) ≤ wb ((pre clip c n x mask).get j)) :
    score clip c x i ≤ score clip c x j := by
  rw [pre_of_mask clip c n x mask hi, pre_of_mask clip c n x mask hj] at h
  simp only [wb_some, WithBot.coe_le_coe] at h
  exact (div_le_div_iff_of_pos_right hT).mp h

/-- **argmax_kept**: a feasible action of maximal score is in the support. -/
theorem argmax_kept (hw : ExpLike w) (hv : Valid clip c n x mask kth σ) :
    Spec.Decode.ArgmaxKept n mask (score clip c x) (processLogits w clip c n x mask kth σ).kept := by
  obtain ⟨j, hj, hmax, hlg, hs⟩ := exists_max_kept hw hv
  obtain ⟨v, hv3⟩ := Option.isSome_iff_exists.mp hs
  have hmj := (pre_some clip c n x mask hv3).1
  refine ⟨j, hj, hmj, ?_, ?_⟩
  · intro i hi hmi
    exact score_le_of_pre_le hv.temp_pos hmi hmj (hmax i hi)
  · simp [Out.kept, hlg, hs]

theorem sumW_pos' (hw : ExpLike w) (hv : Valid clip c n x mask kth σ) :
    0 < ∑ i ∈ range n, wO w ((processLogits w clip c n x mask kth σ).lg i) := by
  obtain ⟨j, hj, _, hlg, hs⟩ := exists_max_kept hw hv
  exact sumW_pos w n hw _ j hj (by rw [hlg]; exact hs)

/-- **probs_sum_one**: the emitted probabilities are a normalised distribution. -/
theorem probs_sum_one (hw : ExpLike w) (hv : Valid clip c n x mask kth σ) :
    Spec.Decode.IsDist n (processLogits w clip c n x mask kth σ).prob 0 := by
  have hZ := sumW_pos' hw hv
  refine ⟨?_, ?_, ?_⟩
  · intro j _
    rw [prob_eq]; exact div_nonneg (wO_nonneg w hw _) (le_of_lt hZ)
  all_goals
    rw [sumN_eq_sum]
    simp only [prob_eq]
    rw [← Finset.sum_div, div_self (ne_of_gt hZ)]
    simp

/-- **masked_zero**: masked actions have probability zero and are outside the support
(no hypothesis needed). -/
theorem masked_zero : Spec.Decode.MaskedZero n mask (processLogits w clip c n x mask kth σ).prob
    (processLogits w clip c n x mask kth σ).kept := by
  intro j _ hm
  have hnone : (processLogits w clip c n x mask kth σ).lg j = none := by
    cases h : (processLogits w clip c n x mask kth σ).lg j with
    | none => rfl
    | some v => rw [(lg_some w clip c n x mask kth σ h).1] at hm; simp at hm
  constructor
  · rw [prob_eq, hnone]; simp [wO]
  · simp [Out.kept, hnone]

/-- the support is exactly where the probability is positive -/
theorem kept_iff_pos (hw : ExpLike w) (hv : Valid clip c n x mask kth σ) (j : Nat) :
    (processLogits w clip c n x mask kth σ).kept j = true ↔ 0 < (processLogits w clip c n x mask kth σ).prob j := by
  have hZ := sumW_pos' hw hv
  rw [prob_eq, div_pos_iff_of_pos_right hZ, wO_pos_iff w hw]
  rfl


/-- **argmax_kept**, unique form: a feasible action scoring strictly above every other feasible action
is in the support.  (With ties at the top, *one* of the tied actions may be removed by top-p — the last
one in sorted order always survives, `argmax_kept`.) -/
theorem unique_argmax_kept (hw : ExpLike w) (hv : Valid clip c n x mask kth σ) (j : Nat) (hj : j < n)
    (hm : mask j = true) (hbest : ∀ i, i < n → mask i = true → i ≠ j → score clip c x i < score clip c x j) :
    (processLogits w clip c n x mask kth σ).kept j = true := by
  obtain ⟨j', hj', hm', hmax, hk⟩ := argmax_kept (w := w) hw hv
  by_cases h : j' = j
  · rw [← h]; exact hk
  · exact absurd (hmax j hj hm) (not_le.mpr (hbest j' hj' hm' h))

/-- **topk_card_le**: under top-k, the kept actions scoring strictly above any kept action (in
particular above the lowest kept score) number fewer than `k` — "at most k, ties aside". -/
theorem topk_card_le (hv : Valid clip c n x mask kth σ) :
    Spec.Decode.TopkCard n c.topK (score clip c x) (processLogits w clip c n x mask kth σ).kept := by
  by_cases hk0 : c.topK = 0
  · exact Or.inl hk0
  · right
    intro j0 hj0 hk _
    rcases hv.kth_valid with h | hkv
    · exact absurd h hk0
    · refine topk_card_core clip c n x mask kth hv.temp_pos hk0 hkv _ ?_ j0 hj0 hk
      intro j _ hkj
      obtain ⟨v, hvj⟩ := Option.isSome_iff_exists.mp (by simpa [Out.kept] using hkj)
      rw [(lg_some w clip c n x mask kth σ hvj).2.2]; rfl

/-- **topk_ge_feasible** (stage form): with no more feasible actions than `k`, the top-k filter
removes no feasible action (whatever the top-p setting). -/
theorem topk_ge_feasible_stage (hv : Valid clip c n x mask kth σ) :
    Spec.Decode.TopkGeFeasible n c.topK mask (fun j => ((afterK clip c n x mask kth).get j).isSome) :=
  fun hcnt j hj hm => topk_ge_feasible_core clip c n x mask kth hv.kth_valid hcnt j hj hm

/-- **topk_ge_feasible**: with the top-p filter off and no more feasible actions than `k`, every
feasible action is in the support of the emitted distribution. -/
theorem topk_ge_feasible (hv : Valid clip c n x mask kth σ) (hp : c.topP ≤ 0 ∨ 1 ≤ c.topP) :
    Spec.Decode.TopkGeFeasible n c.topK mask (processLogits w clip c n x mask kth σ).kept := by
  intro hcnt j hj hm
  have := topk_ge_feasible_core clip c n x mask kth hv.kth_valid hcnt j hj hm
  simp only [Out.kept, lg_eq, topP_get, if_pos hp]
  exact this

/-- **topp_mass_ge**: the support carries at least mass `top_p` of the distribution that entered the
top-p filter (the masked, clipped, tempered, top-k-filtered softmax). -/
theorem topp_mass_ge (hw : ExpLike w) (hv : Valid clip c n x mask kth σ) (hp1 : c.topP ≤ 1) :
    Spec.Decode.ToppMass n (softmaxN n w (afterK clip c n x mask kth).get).get
      (processLogits w clip c n x mask kth σ).kept c.topP 0 := by
  obtain ⟨j, hj, hmax, _, hs⟩ := exists_max_kept hw hv
  have h4 : ((afterK clip c n x mask kth).get j).isSome = true := by
    rw [afterK_of_max clip c n x mask kth hv.kth_valid hmax]; exact hs
  have := topp_mass_core w n σ (afterK clip c n x mask kth) c.topP hw hv.sort_valid hp1 j hj h4
  simp only [Spec.Decode.ToppMass, sumN_eq_sum, add_zero, Out.kept, lg_eq]
  exact this

/-- weights are monotone in the logit (`-inf` lowest) -/
theorem wO_mono (hw : ExpLike w) {a b : Option K} (h : wb a ≤ wb b) : wO w a ≤ wO w b := by
  cases a with
  | none => simpa [wO] using wO_nonneg w hw b
  | some u =>
    cases b with
    | none => simp at h
    | some v =>
      simp only [wb_some, WithBot.coe_le_coe] at h
      rcases lt_or_eq_of_le h with h | h
      · exact le_of_lt (hw.strictMono u v h)
      · rw [h]

/-- **greedy_feasible ∧ greedy_is_max**: whatever index `argmax` returns (any maximiser of the
log-probabilities), `greedy` does not hit its assertion and returns a feasible action that maximises the
emitted distribution and the score among the feasible actions. -/
theorem greedy_is_max (hw : ExpLike w) (hv : Valid clip c n x mask kth σ) (a : Nat)
    (ha : GreedyValid n (processLogits w clip c n x mask kth σ).lg a) :
    greedy mask a = some a ∧
      Spec.Decode.GreedyOk n mask (processLogits w clip c n x mask kth σ).prob a ∧
      (processLogits w clip c n x mask kth σ).kept a = true ∧
      ∀ i, i < n → mask i = true → score clip c x i ≤ score clip c x a := by
  obtain ⟨han, hmaxa⟩ := ha
  obtain ⟨j, hj, hmax, hlg, hs⟩ := exists_max_kept hw hv
  obtain ⟨vj, hvj⟩ := Option.isSome_iff_exists.mp hs
  have hja := (leO_iff _ _).mp (hmaxa j hj)
  rw [hlg, hvj] at hja
  obtain ⟨va, hva⟩ : ∃ va, (processLogits w clip c n x mask kth σ).lg a = some va := by
    cases h : (processLogits w clip c n x mask kth σ).lg a with
    | none => rw [h] at hja; simp at hja
    | some v => exact ⟨v, rfl⟩
  obtain ⟨hma, hvae, _⟩ := lg_some w clip c n x mask kth σ hva
  have hmj := (pre_some clip c n x mask hvj).1
  have hZ := sumW_pos' hw hv
  refine ⟨by simp [greedy, hma], ⟨han, hma, ?_⟩, by simp [Out.kept, hva], ?_⟩
  · intro i hi
    rw [prob_eq, prob_eq]
    exact div_le_div_of_nonneg_right (wO_mono hw ((leO_iff _ _).mp (hmaxa i hi))) (le_of_lt hZ)
  · intro i hi hmi
    have h1 := score_le_of_pre_le hv.temp_pos hmi hmj (hmax i hi)
    have h2 : score clip c x j ≤ score clip c x a := by
      rw [hva, hvae, (pre_some clip c n x mask hvj).2] at hja
      simp only [wb_some, WithBot.coe_le_coe] at hja
      exact (div_le_div_iff_of_pos_right hv.temp_pos).mp hja
    exact le_trans h1 h2

/-- **sample_feasible**: an index of positive probability is feasible and in the support, and the
resampling loop accepts it at once. -/
theorem sample_feasible (hw : ExpLike w) (hv : Valid clip c n x mask kth σ) (a : Nat)
    (ha : SampleValid n (processLogits w clip c n x mask kth σ).prob a) (rest : List Nat) :
    Spec.Decode.SampleOk n mask (processLogits w clip c n x mask kth σ).kept a ∧
      sampleLoop mask (a :: rest) = .ok a := by
  obtain ⟨han, hpos⟩ := ha
  have hk := (kept_iff_pos hw hv a).mpr hpos
  obtain ⟨v, hva⟩ := Option.isSome_iff_exists.mp (by simpa [Out.kept] using hk)
  have hma := (lg_some w clip c n x mask kth σ hva).1
  exact ⟨⟨han, hma, hk⟩, by simp [sampleLoop, contCond_eq, rowFlag_eq, hma]⟩

omit [Field K] [LinearOrder K] [IsStrictOrderedRing K] in
/-- the resampling loop can only return feasible actions, whatever is drawn (and whatever the loop
condition: the assertion after the loop guards the return) -/
theorem sampleLoop_feasible (mask : Nat → Bool) (draws : List Nat) (a : Nat)
    (h : sampleLoop mask draws = .ok a) : mask a = true := by
  induction draws with
  | nil => simp [sampleLoop] at h
  | cons d rest ih =>
    simp only [sampleLoop] at h
    split at h
    · exact ih h
    · split at h
      · rename_i hm; cases h; exact hm
      · cases h

omit [Field K] [LinearOrder K] [IsStrictOrderedRing K] in
/-- the loop of `sampling` only exits on a feasible draw, so the assertion after it never fires
(this needs the loop condition to test the *negated* mask) -/
theorem sampleLoop_never_asserts (mask : Nat → Bool) (draws : List Nat) :
    sampleLoop mask draws ≠ .assertFail := by
  induction draws with
  | nil => simp [sampleLoop]
  | cons d rest ih =>
    simp only [sampleLoop, contCond_eq, rowFlag_eq]
    cases hm : mask d <;> simp [ih]

omit [Field K] [LinearOrder K] [IsStrictOrderedRing K] in
/-- the batched resampling loop returns a draw vector in which every row is feasible -/
theorem sampleLoopB_feasible (masks : List (Nat → Bool)) (draws : List (List Nat)) (v : List Nat)
    (h : sampleLoopB masks draws = .ok v) : ∀ ma ∈ masks.zip v, ma.1 ma.2 = true := by
  induction draws with
  | nil => simp [sampleLoopB] at h
  | cons d rest ih =>
    simp only [sampleLoopB] at h
    split at h
    · exact ih h
    · split at h
      · rename_i hall; cases h
        simpa [List.all_eq_true] using hall
      · cases h

omit [Field K] [LinearOrder K] [IsStrictOrderedRing K] in
/-- the batched loop runs `while (~mask)[selected].any()`: it exits only when every row is feasible, so
the assertion after it never fires (this needs the reduction to be `.any()`: with `.all()` a batch with one
feasible and one infeasible row would leave the loop and trip the assertion) -/
theorem sampleLoopB_never_asserts (masks : List (Nat → Bool)) (draws : List (List Nat)) :
    sampleLoopB masks draws ≠ .assertFail := by
  induction draws with
  | nil => simp [sampleLoopB]
  | cons d rest ih =>
    simp only [sampleLoopB, contCond_eq]
    split
    · exact ih
    · rename_i hc
      have hall : (masks.zip d).all (fun ma => ma.1 ma.2) = true := by
        rw [List.all_eq_true]
        intro ma hma
        by_contra hf
        apply hc
        rw [List.any_eq_true]
        exact ⟨rowFlag ma.1 ma.2, List.mem_map.mpr ⟨ma, hma, rfl⟩, by simp [rowFlag_eq, hf]⟩
      simp [hall]

omit [Field K] [LinearOrder K] [IsStrictOrderedRing K] in
/-- `decode_logprobs` (the entry point of the PtrNet / MDAM / MatNet-FFSP loops) only returns feasible actions -/
theorem decodeLogprobs_feasible (ty : String) (mask : Nat → Bool) (a : Nat) (draws : List Nat) (b : Nat)
    (h : decodeLogprobs ty mask a draws = .ok b) : mask b = true := by
  simp only [decodeLogprobs] at h
  split at h
  · by_cases hm : mask a = true
    · simp only [greedy, hm, if_true] at h
      cases h; exact hm
    · simp [greedy, hm] at h
  · split at h
    · exact sampleLoop_feasible mask draws b h
    · cases h

/-- **no_infeasible_emitted**: neither `Greedy.step` nor `Sampling.step` can emit an infeasible action:
greedy returns the (feasible) argmax, sampling whatever it returns is feasible and never trips its
assertion, and a valid first draw is returned without resampling. -/
theorem no_infeasible_emitted (hw : ExpLike w) (hv : Valid clip c n x mask kth σ) :
    (∀ a, GreedyValid n (processLogits w clip c n x mask kth σ).lg a →
        (stepGreedy w clip c n x mask kth σ a).2 = some a ∧ mask a = true) ∧
    (∀ draws a, (stepSampling w clip c n x mask kth σ draws).2 = .ok a → mask a = true) ∧
    (∀ draws, (stepSampling w clip c n x mask kth σ draws).2 ≠ .assertFail) ∧
    (∀ a rest, SampleValid n (processLogits w clip c n x mask kth σ).prob a →
        (stepSampling w clip c n x mask kth σ (a :: rest)).2 = .ok a) := by
  refine ⟨?_, ?_, ?_, ?_⟩
  · intro a ha
    obtain ⟨h1, h2, _⟩ := greedy_is_max hw hv a ha
    exact ⟨h1, h2.2.1⟩
  · intro draws a h
    exact sampleLoop_feasible mask draws a h
  · intro draws
    exact sampleLoop_never_asserts mask draws
  · intro a rest ha
    exact (sample_feasible hw hv a ha rest).2

/-! ### adding a constant to all logits -/

/-- shift of a logit (`-inf` stays `-inf`) -/
def shiftO (e : K) (a : Option K) : Option K := a.map (· + e)

theorem ltO_shift (e : K) (a b : Option K) : ltO (shiftO e a) (shiftO e b) = ltO a b := by
  cases a <;> cases b <;> simp [shiftO, ltO]

theorem leO_shift (e : K) (a b : Option K) : leO (shiftO e a) (shiftO e b) = leO a b := by
  simp [leO, ltO_shift]

theorem wO_shift (hw : ExpLike w) (e : K) (a : Option K) : wO w (shiftO e a) = wO w a * w e := by
  cases a with
  | none => simp [shiftO, wO]
  | some v => simp [shiftO, wO, hw.mul]

theorem softmax_shift (hw : ExpLike w) (e : K) (X X' : Nat → Option K) (h : ∀ j, X' j = shiftO e (X j)) :
    (softmaxN n w X').get = (softmaxN n w X).get := by
  funext j
  rw [softmax_get, softmax_get]
  simp only [h, wO_shift hw]
  rw [← Finset.sum_mul, mul_div_mul_right _ _ (ne_of_gt (hw.pos e))]

theorem pre_shift (hc : c.clipOn = false) (d : K) (j : Nat) :
    (pre clip c n (fun j => x j + d) mask).get j = shiftO (d / c.temp) ((pre clip c n x mask).get j) := by
  rw [pre_get, pre_get]
  split
  · simp [shiftO, score, clipStage, hc, add_div]
  · simp [shiftO]

theorem topK_shift (e : K) (k : Nat) (X X' : Vec (Option K)) (h : ∀ j, X'.get j = shiftO e (X.get j)) (j : Nat) :
    (topKStage n k kth X').get j = shiftO e ((topKStage n k kth X).get j) := by
  simp only [topKStage]
  split
  · exact h j
  · simp only [Vec.tab_get, h, cmpO_topk, ltO_shift]
    split
    · simp [shiftO]
    · rfl

theorem toppRem_shift (hw : ExpLike w) (e p : K) (X X' : Vec (Option K)) (h : ∀ j, X'.get j = shiftO e (X.get j)) :
    (toppRem n w p σ X').get = (toppRem n w p σ X).get := by
  funext i
  simp only [toppRem, Vec.tab_get]
  rw [softmax_shift (n := n) hw e (fun i => X.get (σ i)) (fun i => X'.get (σ i)) (fun i => h (σ i))]

theorem topP_shift (hw : ExpLike w) (e p : K) (X X' : Vec (Option K)) (h : ∀ j, X'.get j = shiftO e (X.get j)) (j : Nat) :
    (topPStage n w p σ X').get j = shiftO e ((topPStage n w p σ X).get j) := by
  rw [topP_get, topP_get, toppRem_shift (n := n) (σ := σ) hw e p X X' h]
  split
  · exact h j
  · split
    · simp [shiftO]
    · exact h j

theorem lg_shift (hw : ExpLike w) (hc : c.clipOn = false) (d : K) (j : Nat) :
    (processLogits w clip c n (fun j => x j + d) mask kth σ).lg j =
      shiftO (d / c.temp) ((processLogits w clip c n x mask kth σ).lg j) := by
  rw [lg_eq, lg_eq]
  apply topP_shift hw
  intro j
  simp only [afterK]
  apply topK_shift
  exact pre_shift hc d

/-- **shift_invariant** (tanh clipping off): adding a constant `d` to all logits changes neither the
emitted probabilities nor the support, for the same oracle inputs … -/
theorem shift_invariant (hw : ExpLike w) (hc : c.clipOn = false) (d : K) :
    (processLogits w clip c n (fun j => x j + d) mask kth σ).prob = (processLogits w clip c n x mask kth σ).prob ∧
    (processLogits w clip c n (fun j => x j + d) mask kth σ).kept = (processLogits w clip c n x mask kth σ).kept := by
  constructor
  · simp only [processLogits]
    exact softmax_shift hw (d / c.temp) _ _ (fun j => lg_shift hw hc d j)
  · funext j
    simp only [Out.kept, lg_shift hw hc d j, shiftO, Option.isSome_map]

/-- … and the oracle inputs valid for the original logits are exactly those valid for the shifted ones. -/
theorem valid_shift (hc : c.clipOn = false) (d : K) :
    Valid clip c n (fun j => x j + d) mask kth σ ↔ Valid clip c n x mask kth σ := by
  have hpre : ∀ i j, ltO ((pre clip c n (fun j => x j + d) mask).get i) ((pre clip c n (fun j => x j + d) mask).get j)
      = ltO ((pre clip c n x mask).get i) ((pre clip c n x mask).get j) := by
    intro i j; rw [pre_shift hc d, pre_shift hc d, ltO_shift]
  have hK : ∀ i j, leO ((afterK clip c n (fun j => x j + d) mask kth).get i) ((afterK clip c n (fun j => x j + d) mask kth).get j)
      = leO ((afterK clip c n x mask kth).get i) ((afterK clip c n x mask kth).get j) := by
    intro i j
    have := topK_shift (n := n) (kth := kth) (d / c.temp) c.topK (pre clip c n x mask) (pre clip c n (fun j => x j + d) mask)
      (pre_shift hc d)
    simp only [afterK, this, leO_shift]
  have hkv : KthValid n c.topK (pre clip c n (fun j => x j + d) mask).get kth ↔ KthValid n c.topK (pre clip c n x mask).get kth := by
    simp only [KthValid, leO, hpre]
  have hsv : SortValid n (afterK clip c n (fun j => x j + d) mask kth).get σ ↔ SortValid n (afterK clip c n x mask kth).get σ := by
    simp only [sortValid_iff, hK]
  constructor
  · rintro ⟨h1, h2, h3, h4⟩
    exact ⟨h1, h2, h3.imp id hkv.mp, h4.imp id hsv.mp⟩
  · rintro ⟨h1, h2, h3, h4⟩
    exact ⟨h1, h2, h3.imp id hkv.mpr, h4.imp id hsv.mpr⟩

end gen

/-! ### with tanh clipping on, shift invariance is false -/

section clipped
set_option linter.unusedSectionVars false
variable {K : Type} [Field K] [LinearOrder K] [IsStrictOrderedRing K]

theorem ExpLike.injective {w : K → K} (hw : ExpLike w) {a b : K} (h : w a = w b) : a = b := by
  rcases lt_trichotomy a b with hlt | heq | hgt
  · exact absurd h (ne_of_lt (hw.strictMono a b hlt))
  · exact heq
  · exact absurd h.symm (ne_of_lt (hw.strictMono b a hgt))

/-- The statement one might expect — shift invariance also with tanh clipping on.  It is FALSE
(`shift_invariant_clipped_counterexample`); what holds is `shift_invariant` (clipping off). -/
def shift_invariant_clipped_statement (w clip : K → K) : Prop :=
  ∀ (c : Cfg K) (n : Nat) (x : Nat → K) (mask : Nat → Bool) (kth : Nat) (σ : Nat → Nat) (d : K),
    c.clipOn = true → Valid clip c n x mask kth σ → Valid clip c n (fun j => x j + d) mask kth σ →
    (processLogits w clip c n (fun j => x j + d) mask kth σ).prob = (processLogits w clip c n x mask kth σ).prob

/-- two actions, logits `0` and `1`, all feasible, `T = 1`, no filtering, clipping on -/
def cexCfg : Cfg K := { temp := 1, topK := 0, topP := 0, clipOn := true }
def cexX : Nat → K := fun j => if j = 0 then 0 else 1

theorem cex_valid (clip : K → K) (d : K) :
    Valid clip (cexCfg (K := K)) 2 (fun j => cexX j + d) (fun _ => true) 0 id :=
  ⟨by simp [cexCfg], ⟨0, by omega, rfl⟩, Or.inl rfl, Or.inl (Or.inl (by simp [cexCfg]))⟩

theorem cex_prob0 (w clip : K → K) (d : K) :
    (processLogits w clip (cexCfg (K := K)) 2 (fun j => cexX j + d) (fun _ => true) 0 id).prob 0 =
      w (clip d) / (w (clip d) + w (clip (1 + d))) := by
  have hlg : ∀ j, (processLogits w clip (cexCfg (K := K)) 2 (fun j => cexX j + d) (fun _ => true) 0 id).lg j
      = some (clip (cexX j + d)) := by
    intro j
    rw [lg_eq, topP_get, if_pos (Or.inl (by simp [cexCfg])), afterK_get, if_pos (by simp [cexCfg]), pre_get]
    simp [cexCfg, score, clipStage]
  rw [prob_eq]
  simp only [Finset.sum_range_succ, Finset.sum_range_zero, hlg, wO, zero_add]
  simp [cexX]

/-- **Counterexample.**  For every exp-like weight and every clipping function that is bounded and not
constant on `{0, 1}` (in particular `tanh(·)·C`), shift invariance FAILS with clipping on. -/
theorem shift_invariant_clipped_counterexample [Archimedean K] {w clip : K → K} (hw : ExpLike w)
    (C : K) (hb : ∀ v, |clip v| ≤ C) (hne : clip 0 ≠ clip 1) :
    ¬ shift_invariant_clipped_statement w clip := by
  intro hst
  -- the first probability is the same for every shift d
  have key : ∀ d : K, clip (1 + d) - clip d = clip 1 - clip 0 := by
    intro d
    have h := congrFun (hst cexCfg 2 cexX (fun _ => true) 0 id d rfl
      (by simpa using cex_valid clip (0 : K)) (cex_valid clip d)) 0
    have h0 := cex_prob0 w clip (0 : K)
    simp only [add_zero] at h0
    rw [cex_prob0, h0] at h
    have p1 := hw.pos (clip d); have p2 := hw.pos (clip (1 + d))
    have p3 := hw.pos (clip 0); have p4 := hw.pos (clip 1)
    rw [div_eq_div_iff (by positivity) (by positivity)] at h
    have h' : w (clip d + clip 1) = w (clip 0 + clip (1 + d)) := by
      rw [hw.mul, hw.mul]; linarith
    have := hw.injective h'
    linarith
  set δ := clip 1 - clip 0 with hδ
  have hδ0 : δ ≠ 0 := fun h => hne (by linarith [sub_eq_zero.mp h])
  have hlin : ∀ m : ℕ, clip (m : K) = clip 0 + m * δ := by
    intro m
    induction m with
    | zero => simp
    | succ m ih =>
      have := key (m : K)
      push_cast
      rw [add_comm (m : K) 1]
      linarith
  obtain ⟨m, hm⟩ := Archimedean.arch (2 * C + 1) (abs_pos.mpr hδ0)
  have h1 := hb (m : K)
  have h2 := hb 0
  rw [hlin m] at h1
  have h3 : |(m : K) * δ| ≤ 2 * C := by
    calc |(m : K) * δ| = |(clip 0 + m * δ) - clip 0| := by ring_nf
      _ ≤ |clip 0 + m * δ| + |clip 0| := abs_sub _ _
      _ ≤ 2 * C := by linarith
  rw [abs_mul, Nat.abs_cast] at h3
  rw [nsmul_eq_mul] at hm
  linarith

end clipped

end Rl4co.Decode
