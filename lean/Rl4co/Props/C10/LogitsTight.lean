/-
C10 — the top-p nucleus contains nothing superfluous (ties aside): `topp_tight`, the converse of
`topp_mass_ge`.
-/
import Rl4co.Props.C10.Logits

namespace Rl4co.Decode
open Finset

section tight
set_option linter.unusedSectionVars false
variable {K : Type} [Field K] [LinearOrder K] [IsStrictOrderedRing K]
variable {w clip : K → K} {c : Cfg K} {n : Nat} {x : Nat → K} {mask : Nat → Bool} {kth : Nat} {σ : Nat → Nat}

/-- **topp_tight**: with `top_p > 0`, the actions strictly more likely than a kept action (under the
distribution entering the top-p filter) carry less than mass `top_p`: the nucleus contains nothing
superfluous, ties aside. -/
theorem topp_tight (hw : ExpLike w) (hv : Valid clip c n x mask kth σ) (hp0 : 0 < c.topP) :
    Spec.Decode.ToppTight n (softmaxN n w (afterK clip c n x mask kth).get).get
      (processLogits w clip c n x mask kth σ).kept c.topP 0 := by
  intro j hj hk
  rw [sumN_eq_sum, add_zero]
  set X := afterK clip c n x mask kth with hX
  set q := (softmaxN n w X.get).get with hq
  obtain ⟨v, hvj⟩ := Option.isSome_iff_exists.mp (by simpa [Out.kept] using hk)
  have h4 : X.get j = some v := (lg_some w clip c n x mask kth σ hvj).2.2
  have hZ : 0 < ∑ i ∈ range n, wO w (X.get i) := sumW_pos w n hw X.get j hj (by simp [h4])
  have hqnn : ∀ i, 0 ≤ q i := by
    intro i; rw [hq, softmax_get]; exact div_nonneg (wO_nonneg w hw _) (le_of_lt hZ)
  have hqj : 0 < q j := by
    rw [hq, softmax_get, h4]; exact div_pos (hw.pos v) hZ
  have hsum1 : ∑ i ∈ range n, q i = 1 := softmax_sum_one w n hw X.get j hj (by simp [h4])
  by_cases hact : c.topP ≤ 0 ∨ 1 ≤ c.topP
  · -- filter off, so 1 ≤ top_p; the strictly more likely actions miss at least q j
    have h1 : 1 ≤ c.topP := by
      rcases hact with h | h
      · exact absurd hp0 (not_lt.mpr h)
      · exact h
    have hqjsum : ∑ i ∈ range n, (if i = j then q j else 0) = q j := by
      rw [Finset.sum_ite_eq' (range n) j]; simp [hj]
    have hle : ∑ i ∈ range n, (if q j < q i then q i else 0) + ∑ i ∈ range n, (if i = j then q j else 0)
        ≤ ∑ i ∈ range n, q i := by
      rw [← Finset.sum_add_distrib]
      apply Finset.sum_le_sum
      intro i _
      by_cases hij : i = j
      · subst hij; simp
      · simp only [hij, if_false, add_zero]
        split
        · exact le_refl _
        · exact hqnn i
    rw [hqjsum, hsum1] at hle
    linarith
  · rcases hv.sort_valid with h | hσ
    · exact absurd h hact
    · obtain ⟨i, hi, hσi⟩ := sigma_surj n σ X hσ j hj
      subst hσi
      -- position i is not flagged
      have hnrem : ¬ (toppRem n w c.topP σ X).get i = true := by
        intro hr
        have : (processLogits w clip c n x mask kth σ).lg (σ i) = none := by
          rw [lg_eq, topP_get, if_neg hact, if_pos ⟨i, hi, rfl, hr⟩]
        rw [this] at hvj; simp at hvj
      set qs := (softmaxN n w (fun t => X.get (σ t))).get with hqs
      have hqs_eq : ∀ t, qs t = q (σ t) := fun t => sorted_softmax w n σ X hσ t
      have hS : ∑ j' ∈ range n, (if q (σ i) < q j' then q j' else 0)
          ≤ ∑ t ∈ range n, (if i < t then qs t else 0) := by
        rw [← sum_sigma n σ X hσ (fun j' => if q (σ i) < q j' then q j' else 0)]
        apply Finset.sum_le_sum
        intro t ht
        have ht := Finset.mem_range.mp ht
        by_cases hlt : q (σ i) < q (σ t)
        · have hit : i < t := by
            by_contra hnot
            have hle := sorted_le n σ X hσ t i (by omega) hi
            have : q (σ t) ≤ q (σ i) := by
              rw [hq, softmax_get, softmax_get]
              exact div_le_div_of_nonneg_right (wO_mono hw hle) (le_of_lt hZ)
            exact absurd hlt (not_lt.mpr this)
          simp [hlt, hit, hqs_eq]
        · simp only [hlt, if_false]
          split
          · rw [hqs_eq]; exact hqnn _
          · exact le_refl _
      have hsplit : ∑ t ∈ range n, (if i < t then qs t else 0) + ∑ t ∈ range (i + 1), qs t = 1 := by
        have hfil : (range n).filter (fun t => t < i + 1) = range (i + 1) := by
          ext t; simp only [Finset.mem_filter, Finset.mem_range]; omega
        rw [← hfil, Finset.sum_filter, ← Finset.sum_add_distrib]
        have : ∀ t ∈ range n, ((if i < t then qs t else 0) + (if t < i + 1 then qs t else 0)) = qs t := by
          intro t _
          by_cases h : i < t
          · have : ¬ t < i + 1 := by omega
            simp [h, this]
          · have : t < i + 1 := by omega
            simp [h, this]
        rw [Finset.sum_congr rfl this]
        simp only [hqs_eq]
        rw [sum_sigma n σ X hσ q]; exact hsum1
      rw [toppRem_get] at hnrem
      by_cases hlast : i + 1 = n
      · have hzero : ∑ t ∈ range n, (if i < t then qs t else 0) = 0 := by
          apply Finset.sum_eq_zero
          intro t ht
          have := Finset.mem_range.mp ht
          have : ¬ i < t := by omega
          simp [this]
        linarith
      · have : ¬ (∑ t ∈ range (i + 1), qs t ≤ 1 - c.topP) := fun h => hnrem ⟨by omega, h⟩
        have := not_le.mp this
        linarith

end tight
end Rl4co.Decode
