/-
C14, round 6: masked attention is PADDING-local — the output on a real row does not depend on the number or the content of the
masked (padded) columns (`maskedAttn_padding_local`); "softmax over all columns, then multiply by the mask" is not
(`maskAfterSoftmax_not_padding_local`); `HetGNNLayer` uses the masked form (`Params.augHgnnMasksBeforeSoftmax`, extracted) and is
therefore padding-local (`hgnnAttn_padding_local`).  No Mathlib.
-/
import Rl4co.Props.C14.AugRowWise
namespace Rl4co.Eval
open Lean.Grind (CommRing)

section
variable {α : Type} [CommRing α]

theorem sumRange_succ (n : Nat) (f : Nat → α) : sumRange (n + 1) f = sumRange n f + f n := by
  simp [sumRange, List.range_succ, List.foldl_append]

theorem sumRange_congr (n : Nat) (f g : Nat → α) (h : ∀ m, m < n → f m = g m) : sumRange n f = sumRange n g := by
  induction n with
  | zero => rfl
  | succ n ih => rw [sumRange_succ, sumRange_succ, ih (fun m hm => h m (by omega)), h n (by omega)]

/-- appending columns whose terms vanish does not change a sum -/
theorem sumRange_pad (n k : Nat) (f : Nat → α) (h : ∀ m, n ≤ m → f m = 0) : sumRange (n + k) f = sumRange n f := by
  induction k with
  | zero => rfl
  | succ k ih =>
    rw [← Nat.add_assoc, sumRange_succ, ih, h (n + k) (by omega)]
    grind

/-- **C14 (padding-locality)** masked attention on `N` columns and on `N + k` columns agree as soon as the masks and the data
agree on the unmasked columns of the first `N` and the `k` extra columns are masked — whatever their content, and whatever
the content of masked columns among the first `N`. -/
theorem maskedAttn_padding_local (N k : Nat) (ex : α → α) (mask mask' : Nat → Bool) (score score' val val' : Nat → α)
    (hm : ∀ m, m < N → mask' m = mask m) (hpad : ∀ m, N ≤ m → mask' m = false)
    (hs : ∀ m, m < N → mask m = true → score' m = score m) (hv : ∀ m, m < N → mask m = true → val' m = val m) :
    maskedAttn (N + k) ex mask' score' val' = maskedAttn N ex mask score val := by
  simp only [maskedAttn]
  congr 1
  · rw [sumRange_pad N k _ (fun m hmN => by simp [hpad m hmN])]
    apply sumRange_congr
    intro m hmN
    rw [hm m hmN]
    cases hmask : mask m with
    | false => simp
    | true => simp [hs m hmN hmask, hv m hmN hmask]
  · rw [sumRange_pad N k _ (fun m hmN => by simp [hpad m hmN])]
    apply sumRange_congr
    intro m hmN
    rw [hm m hmN]
    cases hmask : mask m with
    | false => simp
    | true => simp [hs m hmN hmask]

theorem hgnn_masks_first : Params.augHgnnMasksBeforeSoftmax = true := by decide

/-- `HetGNNLayer`'s attention (as extracted from the source) is padding-local -/
theorem hgnnAttn_padding_local (N k : Nat) (ex : α → α) (mask mask' : Nat → Bool) (score score' val val' : Nat → α)
    (hm : ∀ m, m < N → mask' m = mask m) (hpad : ∀ m, N ≤ m → mask' m = false)
    (hs : ∀ m, m < N → mask m = true → score' m = score m) (hv : ∀ m, m < N → mask m = true → val' m = val m) :
    hgnnAttn (N + k) ex mask' score' val' = hgnnAttn N ex mask score val := by
  simp only [hgnnAttn, hgnn_masks_first, if_true]
  exact maskedAttn_padding_local N k ex mask mask' score score' val val' hm hpad hs hv
end

/-- un-renormalised "softmax, then multiply by the mask": one extra padded column (score 0, `ex 0 = 1`) changes the
denominator from 1 to 2 although the real column is untouched -/
theorem maskAfterSoftmax_not_padding_local :
    maskAfterSoftmax (α := Int) (1 + 1) (fun _ => 1) (fun m => decide (m < 1)) (fun _ => 0) (fun _ => 5)
      ≠ maskAfterSoftmax (α := Int) 1 (fun _ => 1) (fun m => decide (m < 1)) (fun _ => 0) (fun _ => 5) := by decide

example : maskedAttn (α := Int) 3 (fun x => x + 1) (fun m => decide (m < 2)) (fun m => m) (fun m => 10 * m) = (20, 3) := by decide
example : maskedAttn (α := Int) 2 (fun x => x + 1) (fun m => decide (m < 2)) (fun m => m) (fun m => 10 * m) = (20, 3) := by decide

end Rl4co.Eval
