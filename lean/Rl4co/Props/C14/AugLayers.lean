/-
C14, growth round 2: more bundled layers proved row-local — the feed-forward block, attention with a per-row key mask,
`PointerAttention`, the SDVRP dynamic embedding, one whole decoding step of the AM decoder, and encoder ∘ state ∘ decoder
(`amPolicyStep_rowLocal`); a decoder context that takes a state field from row 0 is refuted
(`decoderReadsRowZero_not_rowLocal`); obligations on the extracted scans of the nn modules
(`batch_dim_reductions_known`: every reduction over dim 0 is a known one; `forced_train_sites_known`).  No Mathlib.
-/
import Rl4co.Props.C14.AugRowWise
namespace Rl4co.Eval
open Lean.Grind (CommRing)

/-! ### more row-local layers -/
section
variable {α : Type} [CommRing α]

theorem mlp_rowLocal (D H : Nat) (W1 : Nat → Nat → α) (b1 : Nat → α) (g : α → α) (W2 : Nat → Nat → α) (b2 : Nat → α) :
    RowLocal (perRow (mlpRow D H W1 b1 g W2 b2)) := perRow_rowLocal _

/-- **C14** one decoding step of the AM decoder (context gather + graph context, dynamic keys / values, masked pointer
attention, mask and current node taken from the row's own state) is row-local -/
theorem amDecoder_rowLocal (N D : Nat) (w : (Nat → α) → Nat → α) (neg : α) (Wq Wk Wv Wl Wout : Nat → Nat → α) (Wdyn : Nat → α) :
    RowLocal (perRow (amDecoderRow N D w neg Wq Wk Wv Wl Wout Wdyn)) := perRow_rowLocal _

/-- **C14** encoder (any depth, any non-batch-statistics normalisation) followed by the decoder step: the per-step logits
of a row depend on that row only -/
theorem amPolicyStep_rowLocal (L N D : Nat) (w : (Nat → α) → Nat → α) (neg : α) (W : Nat → Nat → α) (bias : Nat → α)
    (Wq Wk Wv Wl Wout : Nat → Nat → α) (Wdyn : Nat → α) (kind : NormKind) (hk : kind ≠ .batchTrain) (μ ρ : Nat → α)
    (istat : (Nat → α) → α × α) (lstat : Row α → α × α)
    (state : Layer (StepIn α) (StepIn α)) (hstate : RowLocal state) :
    RowLocal (compL (perRow (amDecoderRow N D w neg Wq Wk Wv Wl Wout Wdyn))
      (compL state (zipL (fun (e : Row α) (x : StepIn α) => { x with emb := e })
        (compL (stackL (encoderLayer N D w W bias (normLayer kind N μ ρ istat lstat)) L) (perRow (fun x : StepIn α => x.emb)))
        (perRow id)))) := by
  apply compL_rowLocal _ _ (perRow_rowLocal _)
  apply compL_rowLocal _ _ hstate
  apply zipL_rowLocal
  · exact compL_rowLocal _ _ (stackL_rowLocal _ (encoderLayer_rowLocal N D w W bias _ (normLayer_rowLocal kind hk N μ ρ istat lstat)) L)
      (perRow_rowLocal _)
  · exact perRow_rowLocal _
end

/-- a decoder context that takes a state field from row 0 is not row-local (seed class C14-2) -/
theorem decoderReadsRowZero_not_rowLocal :
    ¬ RowLocal (decoderReadsRowZero (α := Int) 1 1 (fun _ _ => 1) 0 (fun _ _ => 1) (fun _ _ => 1) (fun _ _ => 1)
      (fun _ _ => 1) (fun _ _ => 1) (fun _ => 1)) := by
  intro h
  let r : StepIn Int := { emb := fun _ _ => 1, cur := 0, mask := fun _ => true, demand := fun _ => 1 }
  let r0 : StepIn Int := { emb := fun _ _ => 1, cur := 0, mask := fun _ => true, demand := fun _ => 5 }
  have := h 1 2 (fun _ => r) (fun b => if b = 0 then r0 else r) 0 1 (by decide) (by decide) (by simp)
  have e := congrFun this 0
  revert e
  decide

/-- obligations on the extracted scans of the nn modules: every reduction over the batch dimension and every site that forces
training behaviour is one of the known, accounted-for ones -/
theorem batch_dim_reductions_known : ∀ s ∈ Params.augBatchDimReductions, s ∈ knownBatchReductions := by decide
theorem forced_train_sites_known : ∀ s ∈ Params.augForcedTrainMode, s ∈ knownForcedTrain := by decide

end Rl4co.Eval
