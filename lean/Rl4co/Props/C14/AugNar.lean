/-
C14, round 5: non-autoregressive (heatmap) decoding.  `NonAutoregressiveDecoder.heatmap_to_logits` scores decoded row `r`
against heatmap row `_multistart_batched_index(B, S)[r]`.  Proved: that index is `r ↦ r mod B` for every `B, S`
(`narIndex_getElem?`: the row→instance map `batch_eq_map_solo` and the C12 layout need), so a decoded row reads its own
instance's heatmap (`narLogitsRow_own_instance`); with the memoisation keyed by BOTH arguments (`Params.augNarIndexKeyHasBoth`,
extracted: `@lru_cache` on `(batch_size, num_starts)`) the cached index of a call equals the fresh one after EVERY history of
calls (`narCachedIndex_eq`); keyed by the number of decoded rows only, `(4,2)` followed by `(8,1)` hands rows 4..7 the heatmaps
of instances 0..3 (`narCachedIndex_rowsKey_counterexample`).  Obligation on the extracted list of caches in the decoding path:
`decode_caches_known`.  No Mathlib.
-/
import Rl4co.Props.C15.AugEval
namespace Rl4co.Eval

theorem nar_start_major : Params.augNarIndexStartMajor = true := by decide
theorem nar_key_has_both : Params.augNarIndexKeyHasBoth = true := by decide

theorem narIndex_length (B S : Nat) : (narIndex B S).length = B * max S 1 := by
  simp only [narIndex, narIndexWith, nar_start_major, if_true]
  by_cases h : S ≤ 1
  · simp [h, Nat.max_eq_right h]
  · simp only [h, if_false, tile_length, List.length_range]
    rw [Nat.max_eq_left (by omega), Nat.mul_comm]

/-- **C14 / C12 (NAR index)** for every batch size and every number of starts, decoded row `r` is mapped to instance
`r mod B` -/
theorem narIndex_getElem? (B S r : Nat) (hr : r < B * max S 1) : (narIndex B S)[r]? = some (r % B) := by
  simp only [narIndex, narIndexWith, nar_start_major, if_true]
  by_cases h : S ≤ 1
  · have : max S 1 = 1 := Nat.max_eq_right h
    rw [this, Nat.mul_one] at hr
    simp [h, hr, Nat.mod_eq_of_lt hr]
  · simp only [h, if_false]
    have hS : max S 1 = S := Nat.max_eq_left (by omega)
    rw [hS] at hr
    have hB : 0 < B := by
      cases B with
      | zero => simp at hr
      | succ B => omega
    have hdec : r = (r / B) * B + r % B := by rw [Nat.mul_comm]; exact (Nat.div_add_mod r B).symm
    have hs : r / B < S := by rw [Nat.div_lt_iff_lt_mul hB, Nat.mul_comm]; exact hr
    have hb : r % B < (List.range B).length := by simp [Nat.mod_lt _ hB]
    have := tile_getElem? S (List.range B) (r / B) (r % B) hs hb
    simp only [List.length_range] at this
    rw [← hdec] at this
    rw [this]
    simp [Nat.mod_lt _ hB]

/-- a decoded row is scored against the heatmap of its own instance -/
theorem narLogitsRow_own_instance {H : Type} (heat : Nat → Nat → H) (cur : Nat → Nat) (B S r : Nat) (hr : r < B * max S 1) :
    narLogitsRow heat (narIndex B S) cur r = heat (r % B) (cur r) := by
  simp [narLogitsRow, List.getD_eq_getElem?_getD, narIndex_getElem? B S r hr]

/-- **C14 (history)** with the memoisation keyed by both arguments, whatever was decoded before in the process, a call
`(B, S)` gets exactly the index `narIndex B S` -/
theorem narCachedIndex_eq (hist : List (Nat × Nat)) (B S : Nat) :
    narCachedIndex Params.augNarIndexKeyHasBoth hist B S = narIndex B S := by
  simp only [narCachedIndex, nar_key_has_both, narKey, if_true]
  cases hf : hist.find? (fun c => (c.1, c.2) == (B, S)) with
  | none => rfl
  | some c =>
    have := List.find?_some hf
    simp only [beq_iff_eq, Prod.mk.injEq] at this
    simp [this.1, this.2]

/-- keyed by the number of decoded rows only: after a `(4, 2)` multi-start call, plain greedy on 8 instances reuses the stale
index and row 4 reads instance 0 -/
theorem narCachedIndex_rowsKey_counterexample :
    narCachedIndex false [(4, 2)] 8 1 = [0, 1, 2, 3, 0, 1, 2, 3] ∧ narIndex 8 1 = [0, 1, 2, 3, 4, 5, 6, 7] := by decide

/-- caches in the decoding path that are known and keyed by all their arguments -/
def knownDecodeCaches : List String :=
  ["models/common/constructive/nonautoregressive/decoder.py:_multistart_batched_index:lru_cache",
   "utils/ops.py:get_full_graph_edge_index:lru_cache"]

theorem decode_caches_known : ∀ s ∈ Params.augDecodeCaches, s ∈ knownDecodeCaches := by decide

example : narIndex 3 2 = [0, 1, 2, 0, 1, 2] := by decide
example : narIndex 4 0 = [0, 1, 2, 3] := by decide
example : narCachedIndex true [(4, 2), (2, 4)] 8 1 = narIndex 8 1 := by decide

end Rl4co.Eval
