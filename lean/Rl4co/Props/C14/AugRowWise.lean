/-
C14, growth round: `RowWise` is no longer one opaque hypothesis about the whole network.

The bundled attention-model forward pass is modelled at the level of index algebra (Train/Eval.lean: `Layer`,
`RowLocal`, the layer kinds `linearRow`, `attnRow`, `instNormRow`, `layerNormRow`, `batchNormEvalRow`, `meanPoolRow`,
`gatherRow`, their composition `encoderLayer` / `stackL`).  Proved here:
* row-local layers compose (`compL_rowLocal`, `zipL_rowLocal`, `stackL_rowLocal`), every per-row kind is row-local, hence
  the AM encoder stack + graph context + context gather is row-local for every depth (`amNetwork_rowLocal`) unless the
  normalisation uses batch statistics;
* a row-local network followed by a per-row decision IS `RowWise` (`rowWise_of_rowLocal`), so `batch_eq_map_solo` holds
  for it (`batch_eq_map_solo_of_rowLocal`);
* the kinds that break it, each with a counterexample: batch statistics (`batchNormTrain_not_rowLocal`), a gate from the
  batch mean (`batchMeanGate_not_rowLocal`: MVMoE light decoder), a parameter read from row 0
  (`readsRowZero_not_rowLocal`), random draws in row-major order (`rngLayer_not_rowLocal`: MatNet / MultiStageFFSP
  one-hot columns), a squeeze that also drops the batch dimension at B = 1 (`squeezeAll_not_rowLocal`: mTSP context
  before 182aaab);
* obligations on the extracted `Normalization` table (`configured_norms_rowLocal_in_eval`,
  `layerNorm_dims_exclude_batch`).
What stays sampled (harness/units/aug.py): that each concrete PyTorch module is an instance of its kind (e.g. that
`nn.Linear`, `scaled_dot_product_attention`, `nn.InstanceNorm1d` compute the per-row formulas), float rounding.
No Mathlib.
-/
import Rl4co.Props.C14.AugDecode
namespace Rl4co.Eval
open Lean.Grind (CommRing)

variable {X Y Z Y' : Type}

theorem perRow_rowLocal (φ : X → Y) : RowLocal (perRow φ) := by
  intro B B' x x' b b' _ _ h; simp [perRow, h]

/-- **composition**: row-local layers compose to a row-local network -/
theorem compL_rowLocal (G : Layer Y Z) (F : Layer X Y) (hG : RowLocal G) (hF : RowLocal F) : RowLocal (compL G F) := by
  intro B B' x x' b b' hb hb' h
  exact hG B B' _ _ b b' hb hb' (hF B B' x x' b b' hb hb' h)

theorem zipL_rowLocal (op : Y → Y' → Z) (F : Layer X Y) (G : Layer X Y') (hF : RowLocal F) (hG : RowLocal G) :
    RowLocal (zipL op F G) := by
  intro B B' x x' b b' hb hb' h
  simp only [zipL, hF B B' x x' b b' hb hb' h, hG B B' x x' b b' hb hb' h]

/-- `n` stacked layers -/
def stackL (F : Layer X X) : Nat → Layer X X
  | 0 => perRow id
  | n + 1 => compL F (stackL F n)

theorem stackL_rowLocal (F : Layer X X) (hF : RowLocal F) (n : Nat) : RowLocal (stackL F n) := by
  induction n with
  | zero => exact perRow_rowLocal id
  | succ n ih => exact compL_rowLocal F _ hF ih

section
variable {α : Type} [CommRing α]

/-- every normalisation kind except batch statistics is row-local -/
theorem normLayer_rowLocal (kind : NormKind) (hk : kind ≠ .batchTrain) (N : Nat) (μ ρ : Nat → α)
    (istat : (Nat → α) → α × α) (lstat : Row α → α × α) : RowLocal (normLayer kind N μ ρ istat lstat) := by
  cases kind with
  | batchEval => exact perRow_rowLocal _
  | instNorm => exact perRow_rowLocal _
  | layerNorm => exact perRow_rowLocal _
  | batchTrain => exact absurd rfl hk

/-- **C14** one AM encoder layer (`norm(x + MHA(x))`, `norm(h + FF(h))`) is row-local whenever its normalisation is;
linear maps, per-instance attention and residual additions never mix rows. -/
theorem encoderLayer_rowLocal (N D : Nat) (w : (Nat → α) → Nat → α) (W : Nat → Nat → α) (bias : Nat → α)
    (norm : Layer (Row α) (Row α)) (hn : RowLocal norm) : RowLocal (encoderLayer N D w W bias norm) := by
  unfold encoderLayer
  apply compL_rowLocal
  · exact compL_rowLocal _ _ hn (zipL_rowLocal _ _ _ (perRow_rowLocal _) (perRow_rowLocal _))
  · exact compL_rowLocal _ _ hn (zipL_rowLocal _ _ _ (perRow_rowLocal _) (perRow_rowLocal _))

/-- **C14** the whole encoder stack + graph context + context gather + pointer logits, for every depth: row-local as
soon as the configured normalisation kind is not batch statistics. -/
theorem amNetwork_rowLocal (L N D cur : Nat) (w : (Nat → α) → Nat → α) (W : Nat → Nat → α) (bias : Nat → α)
    (kind : NormKind) (hk : kind ≠ .batchTrain) (μ ρ : Nat → α) (istat : (Nat → α) → α × α) (lstat : Row α → α × α) :
    RowLocal (compL (zipL (fun (q g : Row α) n d => q n d + g n d) (perRow (gatherRow cur)) (perRow (meanPoolRow N)))
      (stackL (encoderLayer N D w W bias (normLayer kind N μ ρ istat lstat)) L)) := by
  apply compL_rowLocal
  · exact zipL_rowLocal _ _ _ (perRow_rowLocal _) (perRow_rowLocal _)
  · exact stackL_rowLocal _ (encoderLayer_rowLocal N D w W bias _ (normLayer_rowLocal kind hk N μ ρ istat lstat)) L
end

/-! ### the layer kinds that break row-locality (the violating policies of DESIGN §8.2, by kind) -/

theorem batchNormTrain_not_rowLocal : ¬ RowLocal (batchNormTrain (α := Int) 1) := by
  intro h
  have := h 1 2 (fun _ _ _ => 1) (fun b _ _ => if b = 0 then 1 else 3) 0 0 (by decide) (by decide) (by funext n d; simp)
  have e := congrFun (congrFun this 0) 0
  revert e
  decide

theorem batchMeanGate_not_rowLocal : ¬ RowLocal (batchMeanGate (α := Int)) := by
  intro h
  have := h 1 2 (fun _ _ _ => 1) (fun b _ _ => if b = 0 then 1 else 3) 0 0 (by decide) (by decide) (by funext n d; simp)
  have e := congrFun (congrFun this 0) 0
  revert e
  decide

/-- reading a per-instance parameter from row 0: the same row at position 1 behind a different row 0 sees the other value -/
theorem readsRowZero_not_rowLocal : ¬ RowLocal (readsRowZero (α := Int)) := by
  intro h
  have := h 1 2 (fun _ _ _ => 1) (fun b _ _ => if b = 0 then 5 else 1) 0 1 (by decide) (by decide) (by funext n d; simp)
  have e := congrFun (congrFun this 0) 0
  revert e
  decide

/-- random draws in row-major order: the same row at another batch position gets other numbers (unless the stream is
periodic) — and decoding alone twice gives different answers as soon as the stream moves on -/
theorem rngLayer_not_rowLocal (C : Nat) (draw : Nat → Int) (hd : draw 0 ≠ draw C) : ¬ RowLocal (rngLayer C draw) := by
  intro h
  have := h 1 2 (fun _ _ _ => 0) (fun _ _ _ => 0) 0 1 (by decide) (by decide) rfl
  have e := congrFun (congrFun this 0) 0
  simp [rngLayer] at e
  exact hd e

theorem squeezeAll_not_rowLocal (φ : X → Y) (x0 : X) : ¬ RowLocal (squeezeAll φ) := by
  intro h
  have := h 1 2 (fun _ => x0) (fun _ => x0) 0 0 (by decide) (by decide) rfl
  simp [squeezeAll] at this

/-- batch normalisation is row-local exactly in eval mode with running statistics -/
theorem normKind_batch_train (tr : Bool) : normKindOf 0 tr false = .batchTrain := by simp [normKindOf]
theorem normKind_batch_no_running (ev : Bool) : normKindOf 0 false ev = .batchTrain := by simp [normKindOf]

/-- obligations on the extracted `Normalization` table: in EVAL mode none of the configured kinds uses batch statistics,
and the `"layer"` branch reduces over non-batch dims only -/
theorem configured_norms_rowLocal_in_eval :
    ∀ c ∈ Params.augNormKinds, normKindOf c Params.augNormTracksRunning true ≠ .batchTrain := by decide
theorem layerNorm_dims_exclude_batch : 0 ∉ Params.augLayerNormDims := by decide

/-! ### from layers to the hypothesis of `batch_eq_map_solo` -/

/-- **C14** a row-local network followed by a per-row decision is `RowWise`: the hypothesis of the decoding theorems
is now per LAYER KIND -/
theorem rowWise_of_rowLocal {I S L : Type} (dflt : I × S) (net : Layer (I × S) L) (pick : L → Nat) (h : RowLocal net) :
    RowWise (policyOf dflt net pick) (fun r => pick (net 1 (fun _ => r) 0)) := by
  intro rows
  apply List.ext_getElem
  · simp [policyOf]
  · intro b h1 h2
    simp only [policyOf, List.getElem_map, List.getElem_range]
    have hb : b < rows.length := by simpa [policyOf] using h1
    congr 1
    exact h rows.length 1 _ _ b 0 hb (by decide) (by simp [List.getD_eq_getElem?_getD, hb])

/-- **C14 (composition form)**: greedy decoding with a network made of row-local layers is per-instance -/
theorem batch_eq_map_solo_of_rowLocal {I S L : Type} (e : StepEnv I S) (dflt : I × S) (net : Layer (I × S) L) (pick : L → Nat)
    (h : RowLocal net) (fuel : Nat) (insts : List I) (b : Nat) (hb : b < insts.length) :
    rowActions (decodeBatch e (policyOf dflt net pick) fuel insts).1 b
      = (runN e (fun r => pick (net 1 (fun _ => r) 0)) (decodeBatch e (policyOf dflt net pick) fuel insts).1.length
          (insts[b], e.reset insts[b])).1 :=
  (batch_eq_map_solo e _ _ (rowWise_of_rowLocal dflt net pick h) fuel insts).2 b hb

/-- non-vacuity: a concrete 1-layer network over `Int` (identity attention weights, instance-norm-like statistics) is
row-local, and the same row gives the same output alone and at position 1 of a batch of two -/
example : encoderLayer (α := Int) 2 1 (fun _ m => if m = 0 then 1 else 0) (fun _ _ => 2) (fun _ => 1)
      (perRow (batchNormEvalRow (fun _ => 0) (fun _ => 1))) 1 (fun _ n _ => (n : Int) + 1) 0 1 0
    = encoderLayer (α := Int) 2 1 (fun _ m => if m = 0 then 1 else 0) (fun _ _ => 2) (fun _ => 1)
      (perRow (batchNormEvalRow (fun _ => 0) (fun _ => 1))) 2 (fun b n _ => if b = 1 then (n : Int) + 1 else 7) 1 1 0 := by
  decide

end Rl4co.Eval
