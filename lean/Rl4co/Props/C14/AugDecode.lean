/-
C14, the Lean content: the LOOP and the REGROUPING of greedy decoding are per-row.

`batch_eq_map_solo`: if the batched network is row-wise (`RowWise πB π1` — embeddings, attention and
normalisation do not mix rows in eval mode; this is a property of the PyTorch modules and is CHECKED ON
SAMPLES by harness/units/aug.py, NOT PROVED), then greedy decoding of a batch is, row by row, the solo run of
the same row for the same number of steps; the batch stops at the first step where all rows are done; the
solo decoding of a row is a prefix of its batch row, the remaining steps being taken on a finished row — and
under the per-environment "idle step is a no-op" law (C04) the reward is the same.  This is the thinnest
proof of the plan: everything numerical about the network is inside the hypothesis.
No Mathlib.
-/
import Rl4co.Props.C15.AugEval
namespace Rl4co.Eval

variable {I S : Type}

/-- one greedy step of one row under the per-row policy -/
def stepRow (e : StepEnv I S) (π1 : I × S → Nat) (r : I × S) : I × S := (r.1, e.step r.1 r.2 (π1 r))

def allDone (e : StepEnv I S) (rows : List (I × S)) : Bool := rows.all fun r => e.done r.1 r.2

theorem runN_succ (e : StepEnv I S) (π1 : I × S → Nat) (n : Nat) (r : I × S) :
    runN e π1 (n + 1) r = (π1 r :: (runN e π1 n (stepRow e π1 r)).1, (runN e π1 n (stepRow e π1 r)).2) := rfl

theorem runN_length (e : StepEnv I S) (π1 : I × S → Nat) (n : Nat) (r : I × S) : (runN e π1 n r).1.length = n := by
  induction n generalizing r with
  | zero => rfl
  | succ n ih => simp [runN_succ, ih]

theorem stepRows_rowwise (e : StepEnv I S) (π1 : I × S → Nat) (rows : List (I × S)) :
    stepRows e rows (rows.map π1) = rows.map (stepRow e π1) := by
  induction rows with
  | nil => rfl
  | cons r rs ih => simp only [stepRows] at ih ⊢; simp [stepRow, ih]

theorem rowActions_cons (as : List Nat) (steps : List (List Nat)) (b : Nat) :
    rowActions (as :: steps) b = as.getD b 0 :: rowActions steps b := rfl

/-- core: under a row-wise network the batched loop is `runN` on every row, for the number `T` of steps the
loop made; `T` is the first step count at which all rows are done (or the fuel). -/
theorem batchLoop_rowwise (e : StepEnv I S) (πB : List (I × S) → List Nat) (π1 : I × S → Nat) (hrw : RowWise πB π1) :
    ∀ (fuel : Nat) (rows : List (I × S)),
      (batchLoop e πB fuel rows).2 = rows.map (fun r => (runN e π1 (batchLoop e πB fuel rows).1.length r).2)
      ∧ (∀ b (hb : b < rows.length), rowActions (batchLoop e πB fuel rows).1 b = (runN e π1 (batchLoop e πB fuel rows).1.length rows[b]).1)
      ∧ (batchLoop e πB fuel rows).1.length ≤ fuel
      ∧ ((batchLoop e πB fuel rows).1.length < fuel → allDone e (batchLoop e πB fuel rows).2 = true)
      ∧ (∀ t, t < (batchLoop e πB fuel rows).1.length → allDone e (rows.map fun r => (runN e π1 t r).2) = false) := by
  intro fuel
  induction fuel with
  | zero =>
    intro rows
    simp [batchLoop, runN, rowActions]
  | succ fuel ih =>
    intro rows
    by_cases hd : (rows.all fun r => e.done r.1 r.2) = true
    · simp only [batchLoop, hd, if_true]
      simp [runN, rowActions, allDone, hd]
    · simp only [batchLoop, hd, hrw rows, stepRows_rowwise, Bool.false_eq_true, if_false]
      obtain ⟨h1, h2, h3, h4, h5⟩ := ih (rows.map (stepRow e π1))
      try simp only [List.length_cons]
      refine ⟨?_, ?_, by omega, ?_, ?_⟩
      · rw [h1]; simp [List.map_map, runN_succ, Function.comp_def]
      · intro b hb
        rw [rowActions_cons, runN_succ]
        have := h2 b (by simpa using hb)
        simp only [List.getElem_map] at this
        rw [this]
        simp [List.getD_eq_getElem?_getD, hb]
      · intro hlt; exact h4 (by omega)
      · intro t ht
        cases t with
        | zero => simpa [runN, allDone] using hd
        | succ t =>
          have := h5 t (by omega)
          simpa [List.map_map, runN_succ, Function.comp_def] using this

/-- **C14 `batch_eq_map_solo`**: with a row-wise network, greedy decoding of a batch is the map of the per-row
runs: for the `T` steps the loop made, row `b`'s actions and final state are those of `runN … T` started from
that row alone — whatever the other rows are, wherever row `b` sits, whatever the batch size. -/
theorem batch_eq_map_solo (e : StepEnv I S) (πB : List (I × S) → List Nat) (π1 : I × S → Nat) (hrw : RowWise πB π1)
    (fuel : Nat) (insts : List I) :
    (decodeBatch e πB fuel insts).2
        = insts.map (fun i => (runN e π1 (decodeBatch e πB fuel insts).1.length (i, e.reset i)).2)
    ∧ ∀ b (hb : b < insts.length),
        rowActions (decodeBatch e πB fuel insts).1 b
          = (runN e π1 (decodeBatch e πB fuel insts).1.length (insts[b], e.reset insts[b])).1 := by
  obtain ⟨h1, h2, _⟩ := batchLoop_rowwise e πB π1 hrw fuel (insts.map fun i => (i, e.reset i))
  refine ⟨by simpa [decodeBatch, List.map_map, Function.comp_def] using h1, ?_⟩
  intro b hb
  have := h2 b (by simpa using hb)
  simpa [decodeBatch] using this

/-- decoding one instance alone: the same loop on a batch of size one -/
def decodeSolo (e : StepEnv I S) (π1 : I × S → Nat) (fuel : Nat) (i : I) : List (List Nat) × List (I × S) :=
  decodeBatch e (fun rows => rows.map π1) fuel [i]

theorem runN_snoc (e : StepEnv I S) (π1 : I × S → Nat) (n : Nat) (r : I × S) :
    (runN e π1 (n + 1) r).1 = (runN e π1 n r).1 ++ [π1 (runN e π1 n r).2]
    ∧ (runN e π1 (n + 1) r).2 = stepRow e π1 (runN e π1 n r).2 := by
  induction n generalizing r with
  | zero => simp [runN]; rfl
  | succ n ih =>
    have := ih (stepRow e π1 r)
    rw [runN_succ e π1 (n + 1) r, this.1, this.2, runN_succ e π1 n r]
    simp

theorem runN_take (e : StepEnv I S) (π1 : I × S → Nat) (m n : Nat) (h : m ≤ n) (r : I × S) :
    (runN e π1 n r).1.take m = (runN e π1 m r).1 := by
  induction m generalizing n r with
  | zero => simp [runN]
  | succ m ih =>
    cases n with
    | zero => omega
    | succ n => simp [runN_succ, ih n (by omega)]

theorem runN_inst (e : StepEnv I S) (π1 : I × S → Nat) (n : Nat) (r : I × S) : (runN e π1 n r).2.1 = r.1 := by
  induction n with
  | zero => rfl
  | succ n ih => rw [(runN_snoc e π1 n r).2]; simpa [stepRow] using ih

/-- the state reached is the environment's state after the recorded actions -/
theorem runN_state (e : StepEnv I S) (π1 : I × S → Nat) (n : Nat) (r : I × S) :
    (runN e π1 n r).2.2 = (runN e π1 n r).1.foldl (e.step r.1) r.2 := by
  induction n with
  | zero => rfl
  | succ n ih =>
    rw [(runN_snoc e π1 n r).2, (runN_snoc e π1 n r).1, List.foldl_append]
    simp [stepRow, ih, runN_inst]

/-- `done` is absorbing along a run -/
theorem done_mono (e : StepEnv I S) (π1 : I × S → Nat) (habs : ∀ i s a, e.done i s = true → e.done i (e.step i s a) = true)
    (r : I × S) (m k : Nat) (h : e.done (runN e π1 m r).2.1 (runN e π1 m r).2.2 = true) :
    e.done (runN e π1 (m + k) r).2.1 (runN e π1 (m + k) r).2.2 = true := by
  induction k with
  | zero => exact h
  | succ k ih =>
    rw [← Nat.add_assoc, (runN_snoc e π1 (m + k) r).2]
    exact habs _ _ _ ih

/-- the rows of a batch keep being stepped after they are done; under the per-environment law "a step on a done
state does not change the reward" (C04: `pad_noop` and its analogues) those extra steps are invisible -/
theorem reward_after_done (e : StepEnv I S) (π1 : I × S → Nat) (rew : I → List Nat → Int)
    (habs : ∀ i s a, e.done i s = true → e.done i (e.step i s a) = true)
    (hidle : ∀ i (as : List Nat) (a : Nat), e.done i (as.foldl (e.step i) (e.reset i)) = true → rew i (as ++ [a]) = rew i as)
    (i : I) (m k : Nat) (h : e.done (runN e π1 m (i, e.reset i)).2.1 (runN e π1 m (i, e.reset i)).2.2 = true) :
    rew i (runN e π1 (m + k) (i, e.reset i)).1 = rew i (runN e π1 m (i, e.reset i)).1 := by
  induction k with
  | zero => rfl
  | succ k ih =>
    rw [← Nat.add_assoc, (runN_snoc e π1 (m + k) (i, e.reset i)).1, hidle, ih]
    have := done_mono e π1 habs (i, e.reset i) m k h
    rw [runN_inst, runN_state] at this
    exact this

/-- **C14**: the solo decoding of row `b` is a prefix of its row in the batch (`T_solo ≤ T_batch`; the batch
runs until its slowest row is done), the solo run ends in a done state, and with the idle-step law the reward
of the batch row equals the reward of the solo decoding. -/
theorem solo_prefix_of_batch (e : StepEnv I S) (πB : List (I × S) → List Nat) (π1 : I × S → Nat) (hrw : RowWise πB π1)
    (fuel : Nat) (insts : List I) (b : Nat) (hb : b < insts.length)
    (hfuel : (decodeBatch e πB fuel insts).1.length < fuel) :
    (decodeSolo e π1 fuel insts[b]).1.length ≤ (decodeBatch e πB fuel insts).1.length
    ∧ rowActions (decodeSolo e π1 fuel insts[b]).1 0
        = (rowActions (decodeBatch e πB fuel insts).1 b).take (decodeSolo e π1 fuel insts[b]).1.length
    ∧ rowActions (decodeSolo e π1 fuel insts[b]).1 0
        = (runN e π1 (decodeSolo e π1 fuel insts[b]).1.length (insts[b], e.reset insts[b])).1
    ∧ e.done insts[b] (runN e π1 (decodeSolo e π1 fuel insts[b]).1.length (insts[b], e.reset insts[b])).2.2 = true := by
  obtain ⟨g1, g2, g3, g4, g5⟩ := batchLoop_rowwise e πB π1 hrw fuel (insts.map fun i => (i, e.reset i))
  obtain ⟨s1, s2, s3, s4, s5⟩ := batchLoop_rowwise e (fun rows => rows.map π1) π1 (fun _ => rfl) fuel [(insts[b], e.reset insts[b])]
  have hT : (decodeBatch e πB fuel insts).1.length = (batchLoop e πB fuel (insts.map fun i => (i, e.reset i))).1.length := rfl
  have hS : (decodeSolo e π1 fuel insts[b]).1.length
      = (batchLoop e (fun rows => rows.map π1) fuel [(insts[b], e.reset insts[b])]).1.length := rfl
  -- row b is done when the batch stops
  have hdoneT : e.done insts[b] (runN e π1 (decodeBatch e πB fuel insts).1.length (insts[b], e.reset insts[b])).2.2 = true := by
    have hall := g4 (by rw [← hT]; exact hfuel)
    rw [g1] at hall
    simp only [allDone, List.all_eq_true, List.mem_map] at hall
    have := hall _ ⟨(insts[b], e.reset insts[b]), ⟨insts[b], List.getElem_mem hb, rfl⟩, rfl⟩
    rw [runN_inst] at this
    exact this
  have hle : (decodeSolo e π1 fuel insts[b]).1.length ≤ (decodeBatch e πB fuel insts).1.length := by
    by_cases hlt : (decodeBatch e πB fuel insts).1.length < (decodeSolo e π1 fuel insts[b]).1.length
    · have := s5 _ (by rw [← hS]; exact hlt)
      simp only [allDone, List.map_cons, List.map_nil, List.all_cons, List.all_nil, Bool.and_true] at this
      rw [runN_inst] at this
      rw [hdoneT] at this
      exact absurd this (by simp)
    · omega
  have hact : rowActions (decodeSolo e π1 fuel insts[b]).1 0
      = (runN e π1 (decodeSolo e π1 fuel insts[b]).1.length (insts[b], e.reset insts[b])).1 := by
    have := s2 0 (by simp)
    simpa [decodeSolo, decodeBatch] using this
  refine ⟨hle, ?_, hact, ?_⟩
  · have hb' := g2 b (by simpa using hb)
    have hrow : rowActions (decodeBatch e πB fuel insts).1 b
        = (runN e π1 (decodeBatch e πB fuel insts).1.length (insts[b], e.reset insts[b])).1 := by
      simpa [decodeBatch] using hb'
    rw [hrow, runN_take e π1 _ _ hle, hact]
  · -- the solo loop stopped before the fuel ran out (its length ≤ T < fuel), hence in a done state
    have hall := s4 (by rw [← hS]; omega)
    rw [s1] at hall
    simp only [allDone, List.map_cons, List.map_nil, List.all_cons, List.all_nil, Bool.and_true] at hall
    rw [runN_inst] at hall
    exact hall

theorem batch_reward_eq_solo (e : StepEnv I S) (πB : List (I × S) → List Nat) (π1 : I × S → Nat) (hrw : RowWise πB π1)
    (rew : I → List Nat → Int)
    (habs : ∀ i s a, e.done i s = true → e.done i (e.step i s a) = true)
    (hidle : ∀ i (as : List Nat) (a : Nat), e.done i (as.foldl (e.step i) (e.reset i)) = true → rew i (as ++ [a]) = rew i as)
    (fuel : Nat) (insts : List I) (b : Nat) (hb : b < insts.length)
    (hfuel : (decodeBatch e πB fuel insts).1.length < fuel) :
    rew insts[b] (rowActions (decodeBatch e πB fuel insts).1 b) = rew insts[b] (rowActions (decodeSolo e π1 fuel insts[b]).1 0) := by
  obtain ⟨hle, _, hact, hdone⟩ := solo_prefix_of_batch e πB π1 hrw fuel insts b hb hfuel
  rw [hact, (batch_eq_map_solo e πB π1 hrw fuel insts).2 b hb]
  obtain ⟨k, hk⟩ : ∃ k, (decodeBatch e πB fuel insts).1.length = (decodeSolo e π1 fuel insts[b]).1.length + k :=
    ⟨_, (Nat.add_sub_cancel' hle).symm⟩
  rw [hk]
  exact reward_after_done e π1 rew habs hidle insts[b] _ k (by rw [runN_inst]; exact hdone)

/-! ### the AM decoder's multi-start regrouping (static embeddings) -/

theorem flatMap_range_length' {β : Type} (K B : Nat) (g : Nat → List β) (hg : ∀ k, k < K → (g k).length = B) :
    ((List.range K).flatMap g).length = K * B := by
  induction K with
  | zero => simp
  | succ K ih =>
    rw [List.range_succ, List.flatMap_append, List.length_append, ih (fun k hk => hg k (by omega))]
    simp [hg K (by omega), Nat.succ_mul]

theorem flatMap_range_block' {β : Type} (K B : Nat) (g : Nat → List β) (hg : ∀ k, k < K → (g k).length = B)
    (k b : Nat) (hk : k < K) (hb : b < B) : ((List.range K).flatMap g)[k * B + b]? = (g k)[b]? := by
  induction K with
  | zero => omega
  | succ K ih =>
    have hlen := flatMap_range_length' K B g (fun k hk => hg k (by omega))
    rw [List.range_succ, List.flatMap_append]
    by_cases hkK : k < K
    · rw [List.getElem?_append_left (by rw [hlen]; exact idx_lt hkK hb)]
      exact ih (fun k hk => hg k (by omega)) hkK
    · have hk' : k = K := by omega
      subst hk'
      rw [List.getElem?_append_right (by rw [hlen]; omega), hlen]
      simp

/-- **decoder cache regrouping**: computing on the `[B, S]` view `unbatchify(td, S)` and flattening the result
with `rearrange "b s l -> (s b) l"` puts every row back where it came from — for every factorisation
`len = S * B`.  (The per-row computation in between is part of `RowWise`.) -/
theorem regroup_unbatch {β : Type} [Inhabited β] (S B : Nat) (hS : 0 < S) (xs : List β) (hlen : xs.length = S * B) :
    regroupSB S (unbatch S xs) = xs := by
  have hg : ∀ s, s < S → ((unbatch S xs).map fun row => row.getD s default).length = B := by
    intro s _; simp [unbatch_length S B hS xs hlen]
  apply List.ext_getElem?
  intro i
  by_cases hi : i < S * B
  · have hB : 0 < B := by
      cases B with
      | zero => simp at hi
      | succ B => omega
    have hdecomp : i = (i / B) * B + i % B := by rw [Nat.mul_comm]; exact (Nat.div_add_mod i B).symm
    have hs : i / B < S := by rw [Nat.div_lt_iff_lt_mul hB]; exact hi
    have hb : i % B < B := Nat.mod_lt _ hB
    rw [hdecomp, regroupSB, flatMap_range_block' S B _ hg (i / B) (i % B) hs hb]
    have hx : (i / B) * B + i % B < xs.length := by rw [hlen]; exact idx_lt hs hb
    have hu := unbatch_getElem? S B hS xs hlen (i % B) hb
    simp only [List.getElem?_map, hu, Option.map_some]
    rw [getD_map_range S _ _ hs, List.getD_eq_getElem?_getD, List.getElem?_eq_getElem hx]
    simp
  · have h1 : (regroupSB S (unbatch S xs)).length = S * B := flatMap_range_length' S B _ hg
    rw [List.getElem?_eq_none (by omega), List.getElem?_eq_none (by omega)]

/-! ### non-vacuity -/

/-- toy environment: instance `n` needs `n` steps; the row-wise "network" plays `n + t` at step `t` -/
def toyEnv : StepEnv Nat Nat := { reset := fun _ => 0, step := fun _ t _ => t + 1, done := fun n t => decide (n ≤ t) }
def toyπ : Nat × Nat → Nat := fun r => r.1 + r.2
def toyRew (n : Nat) (as : List Nat) : Int := - ((as.take n).map Int.ofNat).sum

example : RowWise (fun rows => rows.map toyπ) toyπ := fun _ => rfl

example : ∀ i s a, toyEnv.done i s = true → toyEnv.done i (toyEnv.step i s a) = true := by
  intro i s a h; simp [toyEnv] at h ⊢; omega

theorem toy_state (n : Nat) (as : List Nat) : as.foldl (toyEnv.step n) (toyEnv.reset n) = as.length := by
  have : ∀ (as : List Nat) (s : Nat), as.foldl (toyEnv.step n) s = s + as.length := by
    intro as
    induction as with
    | nil => simp
    | cons a as ih => intro s; rw [List.foldl_cons, ih]; simp [toyEnv]; omega
  have h0 := this as 0
  simp [toyEnv] at h0 ⊢

example : ∀ i (as : List Nat) (a : Nat), toyEnv.done i (as.foldl (toyEnv.step i) (toyEnv.reset i)) = true →
    toyRew i (as ++ [a]) = toyRew i as := by
  intro i as a h
  rw [toy_state] at h
  simp [toyEnv] at h
  simp [toyRew, List.take_append_of_le_length h]

/-- rows needing 2, 3 and 1 steps: the batch makes 3 steps; row 0 = solo(2 steps) ++ one idle action, … -/
example : decodeBatch toyEnv (fun rows => rows.map toyπ) 10 [2, 3, 1]
    = ([[2, 3, 1], [3, 4, 2], [4, 5, 3]], [(2, 3), (3, 3), (1, 3)]) := by decide
example : (decodeSolo toyEnv toyπ 10 2).1 = [[2], [3]] := by decide
example : rowActions (decodeBatch toyEnv (fun rows => rows.map toyπ) 10 [2, 3, 1]).1 0 = [2, 3, 4] := by decide
example : toyRew 2 [2, 3, 4] = toyRew 2 [2, 3] := by decide
example : regroupSB 2 (unbatch 2 [10, 11, 12, 20, 21, 22]) = [10, 11, 12, 20, 21, 22] := by decide
example : unbatch 2 [10, 11, 12, 20, 21, 22] = [[10, 20], [11, 21], [12, 22]] := by decide
end Rl4co.Eval
