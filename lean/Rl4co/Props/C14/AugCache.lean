/-
C14, growth round: `PrecomputedCache.batchify` of the AM decoder (multi-start decoding with a dynamic embedding:
the cache is expanded to `S·B` rows at every step while the state was expanded by `batchify(td, S)` in
`pre_decoder_hook`).  Row `s·B + b` of every expanded cache field is instance `b`'s cache — the same instance as state
row `s·B + b` — because both use `ops.batchify` (start-major; `Params.augCacheStartMajor`, extracted);
`repeat_interleave` (instance-major) would pair state row `r` (instance `r % B`) with the cache of instance `r / S`.
That the decoder keeps no expanded cache between calls (no per-call state on the module) is covered by the
correspondence only: the C14 sweep decodes several batches of equal shape with ONE policy object.
Uses `Rl4co.Ops.batchify_row` (C12).  No Mathlib.
-/
import Rl4co.Props.C12.Batchify
import Rl4co.Train.Eval
namespace Rl4co.Eval
open Rl4co.Ops

variable {α : Type}

theorem idx_lt' {K B k b : Nat} (hk : k < K) (hb : b < B) : k * B + b < B * K := by
  have : (k + 1) * B ≤ K * B := Nat.mul_le_mul_right B (by omega)
  rw [Nat.succ_mul] at this
  rw [Nat.mul_comm B K]; omega

theorem start_major : Params.augCacheStartMajor = true := by decide

/-- **C14 cache replication**: row `s·B + b` of an expanded cache field is row `b` of the field. -/
theorem cacheReplicate_row (x : Tens α) (B S : Nat) (rest : List Nat) (hx : x.shape = B :: rest) (hS : 0 < S)
    (s b : Nat) (hs : s < S) (hb : b < B) (t : List Nat) :
    (cacheReplicate Params.augCacheStartMajor x S).get ((s * B + b) :: t) = x.get (b :: t) := by
  simp only [cacheReplicate, start_major, if_true]
  have hm : mult [S] = S := by simp [mult, hS]
  obtain ⟨_, hg⟩ := batchify_row [S] x B rest hx
  rw [hg (s * B + b) t (by rw [hm]; exact idx_lt' hs hb)]
  congr 2
  rw [Nat.add_comm, Nat.add_mul_mod_self_right, Nat.mod_eq_of_lt hb]

/-- every tensor field of `PrecomputedCache.batchify(S)`, and the state expanded by `batchify(td, S)`, hold instance `b`
at row `s·B + b`: the decoder scores each state row against its own instance's embeddings -/
theorem cache_state_aligned (fields : List (Option (Tens α))) (td : Tens α) (B S : Nat) (rest : List Nat)
    (hS : 0 < S) (htd : td.shape = B :: rest)
    (hf : ∀ x, some x ∈ fields → ∃ r, x.shape = B :: r)
    (s b : Nat) (hs : s < S) (hb : b < B) (t : List Nat) :
    (Ops.batchify td [S]).get ((s * B + b) :: t) = td.get (b :: t)
    ∧ ∀ y, some y ∈ cacheBatchify fields S → ∃ x, some x ∈ fields ∧ y.get ((s * B + b) :: t) = x.get (b :: t) := by
  constructor
  · have hm : mult [S] = S := by simp [mult, hS]
    obtain ⟨_, hg⟩ := batchify_row [S] td B rest htd
    rw [hg (s * B + b) t (by rw [hm]; exact idx_lt' hs hb)]
    congr 2
    rw [Nat.add_comm, Nat.add_mul_mod_self_right, Nat.mod_eq_of_lt hb]
  · intro y hy
    simp only [cacheBatchify, List.mem_map] at hy
    obtain ⟨ox, hox, hxy⟩ := hy
    cases ox with
    | none => simp at hxy
    | some x =>
      simp only [Option.map_some, Option.some.injEq] at hxy
      obtain ⟨r, hr⟩ := hf x hox
      exact ⟨x, hox, by rw [← hxy]; exact cacheReplicate_row x B S r hr hS s b hs hb t⟩

theorem repeatInterleave_get (x : Tens α) (n S : Nat) (rest : List Nat) (hx : x.shape = n :: rest) (r : Nat) (t : List Nat) :
    (repeatInterleave x S).get (r :: t) = x.get ((r / S) :: t) := by
  simp [repeatInterleave, hx]

/-- the instance-major alternative is misaligned with the start-major state: `B = 2` instances, `S = 2` starts, state
row 1 is instance 1 but `repeat_interleave` hands it instance 0's embeddings -/
theorem repeatInterleave_misaligned :
    ∃ (x : Tens Nat) (S r : Nat), (cacheReplicate false x S).get [r] ≠ (Ops.batchify x [S]).get [r] := by
  refine ⟨{ shape := [2], get := fun idx => idx.headD 0 }, 2, 1, ?_⟩
  decide

/-- non-vacuity: B = 3, S = 2 — expanded rows 0..5 hold instances 0,1,2,0,1,2 -/
example : (List.range 6).map (fun r => (cacheReplicate true ({ shape := [3], get := fun idx => 10 + idx.headD 0 } : Tens Nat) 2).get [r])
    = [10, 11, 12, 10, 11, 12] := by decide
example : (List.range 6).map (fun r => (cacheReplicate false ({ shape := [3], get := fun idx => 10 + idx.headD 0 } : Tens Nat) 2).get [r])
    = [10, 10, 11, 11, 12, 12] := by decide

end Rl4co.Eval
