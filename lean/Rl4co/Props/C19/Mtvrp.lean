/-
C19 for the multi-task VRP environment, the loader clause: `MTVRPEnv.load_data(fpath, scale)` returns the stored
tensors, with both demand kinds divided by `capacity_original` when `scale=True` (`load_data_demand`).  An instance
and its demand-rescaled twin — both demand kinds AND the capacity multiplied by the same positive factor — are the same
problem: same feasible solutions (`feasible_scaleDem`), same objective, and the environment shows the same masks along
every action sequence, finishes at the same step and pays the same reward (`env_scaleDem`), for every feature
valuation.

FINDING (replayed by the unit): `load_data(scale=True)` rescales the demands but not `vehicle_capacity`, which
`_reset` takes from the data; for the files the bundled generator writes (`scale_demand=False`: capacity 30 + n/5 …,
or `scale_demand=True`: already normalised) the loaded instance is therefore NOT the stored problem (last example).
-/
import Rl4co.Proofs.MtvrpScale

namespace Rl4co.Mtvrp
open Rl4co.Spec.Mtvrp

/-- `load_data`: the stored demand is `demand / capacity_original` with `scale=True` and the raw demand otherwise -/
theorem load_data_demand (capOrig d : Int) :
    loadDemand true capOrig d = (d, capOrig) ∧ loadDemand false capOrig d = (d, 1) := ⟨rfl, rfl⟩

/-- **the demand unit does not matter**: multiplying both demand kinds and the capacity by the same positive factor
(what `load_data(scale=True)` does to a raw-demand file whose `vehicle_capacity` is expressed in the same unit, and what
the generator's `scale_demand` does) leaves the set of feasible solutions unchanged -/
theorem feasible_scaleDem {k : Int} (hk : 0 < k) (c : Cmp) (i : Inst) (as : List Nat) :
    FeasibleC c (scaleDem k i) as ↔ FeasibleC c i as := by
  constructor
  · rintro ⟨h1, h2, h3⟩
    exact ⟨h1, h2, fun r hr hne => (routeOk_scaleDem hk c i r).1 (h3 r hr hne)⟩
  · rintro ⟨h1, h2, h3⟩
    exact ⟨h1, h2, fun r hr hne => (routeOk_scaleDem hk c i r).2 (h3 r hr hne)⟩

/-- the objective does not depend on the demand unit at all -/
theorem objective_scaleDem (k : Int) (i : Inst) (as : List Nat) : objective (scaleDem k i) as = objective i as := rfl

/-- **C19 clause for `load_data(scale)` / the generator's `scale_demand`**: an instance and its demand-rescaled twin
(both demand kinds and the capacity multiplied by the same positive factor) have the same masks along every action
sequence, finish at the same step and earn the same reward — for every feature valuation. -/
theorem env_scaleDem {k : Int} (hk : 0 < k) (i : Inst) (as : List Nat) :
    admitted env (scaleDem k i) (env.reset (scaleDem k i)) as = admitted env i (env.reset i) as ∧
    (∀ a, env.mask (scaleDem k i) (exec env (scaleDem k i) (env.reset (scaleDem k i)) as) a
          = env.mask i (exec env i (env.reset i) as) a) ∧
    env.done (scaleDem k i) (exec env (scaleDem k i) (env.reset (scaleDem k i)) as)
      = env.done i (exec env i (env.reset i) as) ∧
    reward (scaleDem k i) as = reward i as := by
  have hr : env.reset (scaleDem k i) = scaleState k (env.reset i) := reset_scale k i
  obtain ⟨h1, h2⟩ := episode_scale hk i as (env.reset i)
  rw [hr]
  refine ⟨h1, ?_, ?_, rfl⟩
  · intro a; rw [h2]; exact mask_scale hk i _ a
  · rw [h2]; rfl

/-- what `load_data(scale=True)` alone does — dividing the demands but NOT `vehicle_capacity` — is a different
problem as soon as the stored capacity is not 1: demands 3 and 3 with capacity 4 cannot share a route, after dividing
only the demands by 4 (unit: quarters, i.e. demands 3/4 against an unchanged capacity of 4 = 16 quarters) they can -/
example : ¬ Feasible ⟨2, 4, fun j => if j = 0 then 0 else 3, fun _ => 0, false, none, fun _ => 0, fun _ => none,
      fun _ => 0, fun _ _ => 0, fun _ _ => 0⟩ [1, 2, 0] ∧
    Feasible ⟨2, 16, fun j => if j = 0 then 0 else 3, fun _ => 0, false, none, fun _ => 0, fun _ => none,
      fun _ => 0, fun _ _ => 0, fun _ _ => 0⟩ [1, 2, 0] := by
  refine ⟨fun h => ?_, (feasible_iff _ _).1 (by decide)⟩
  have := (feasible_iff _ _).2 h
  revert this; decide

end Rl4co.Mtvrp
