/-
C19 for the multi-task VRP environment, the loader clause: `MTVRPEnv.load_data(fpath, scale)` returns the stored
tensors, with both demand kinds divided by `capacity_original` when `scale=True` (`load_data_demand`).  An instance
and its demand-rescaled twin — both demand kinds AND the capacity multiplied by the same positive factor — are the same
problem: same feasible solutions (`feasible_scaleDem`), same objective, and the environment shows the same masks along
every action sequence, finishes at the same step and pays the same reward (`env_scaleDem`), for every feature
valuation.

FINDING (replayed by the unit): `load_data(scale=True)` rescales the demands but not `vehicle_capacity`, which
`_reset` takes from the data; for the files the bundled generator writes (`scale_demand=False`: capacity 30 + n/5 …,
or `scale_demand=True`: already normalised) the loaded instance is therefore NOT the stored problem (last example).
-/
import Rl4co.Proofs.MtvrpScale
import Rl4co.Proofs.MtvrpComplete

namespace Rl4co.Mtvrp
open Rl4co.Spec.Mtvrp

/-- `load_data`: the stored demand is `demand / capacity_original` with `scale=True` and the raw demand otherwise -/
theorem load_data_demand (capOrig d : Int) :
    loadDemand true capOrig d = (d, capOrig) ∧ loadDemand false capOrig d = (d, 1) := ⟨rfl, rfl⟩

/-- **the demand unit does not matter**: multiplying both demand kinds and the capacity by the same positive factor
(what `load_data(scale=True)` does to a raw-demand file whose `vehicle_capacity` is expressed in the same unit, and what
the generator's `scale_demand` does) leaves the set of feasible solutions unchanged -/
theorem feasible_scaleDem {k : Int} (hk : 0 < k) (c : Cmp) (i : Inst) (as : List Nat) :
    FeasibleC c (scaleDem k i) as ↔ FeasibleC c i as := by
  constructor
  · rintro ⟨h1, h2, h3⟩
    exact ⟨h1, h2, fun r hr hne => (routeOk_scaleDem hk c i r).1 (h3 r hr hne)⟩
  · rintro ⟨h1, h2, h3⟩
    exact ⟨h1, h2, fun r hr hne => (routeOk_scaleDem hk c i r).2 (h3 r hr hne)⟩

/-- the objective does not depend on the demand unit at all -/
theorem objective_scaleDem (k : Int) (i : Inst) (as : List Nat) : objective (scaleDem k i) as = objective i as := rfl

/-- **C19 clause for `load_data(scale)` / the generator's `scale_demand`**: an instance and its demand-rescaled twin
(both demand kinds and the capacity multiplied by the same positive factor) have the same masks along every action
sequence, finish at the same step and earn the same reward — for every feature valuation. -/
theorem env_scaleDem {k : Int} (hk : 0 < k) (i : Inst) (as : List Nat) :
    admitted env (scaleDem k i) (env.reset (scaleDem k i)) as = admitted env i (env.reset i) as ∧
    (∀ a, env.mask (scaleDem k i) (exec env (scaleDem k i) (env.reset (scaleDem k i)) as) a
          = env.mask i (exec env i (env.reset i) as) a) ∧
    env.done (scaleDem k i) (exec env (scaleDem k i) (env.reset (scaleDem k i)) as)
      = env.done i (exec env i (env.reset i) as) ∧
    reward (scaleDem k i) as = reward i as := by
  have hr : env.reset (scaleDem k i) = scaleState k (env.reset i) := reset_scale k i
  obtain ⟨h1, h2⟩ := episode_scale hk i as (env.reset i)
  rw [hr]
  refine ⟨h1, ?_, ?_, rfl⟩
  · intro a; rw [h2]; exact mask_scale hk i _ a
  · rw [h2]; rfl

/-! ### FINDING: `load_data(scale=True)` as it is (`storedOf`: the capacity is not rescaled) -/

/-- C19 for the loader with `scale=True`, as the property demands it: the loaded instance is the stored problem -/
def load_scale_statement : Prop :=
  ∀ (k : Int) (loaded : Inst) (as : List Nat), 0 < k → (Feasible loaded as ↔ Feasible (storedOf k loaded) as)

/-- demands 3 and 3 against capacity 4 (stored) become 3/4 and 3/4 against the UNCHANGED capacity 4 (here in quarters:
demands 3, capacity 16 … written the other way round: loaded = demands 3, capacity 16; stored = demands 12, capacity 16) -/
def ldInst : Inst :=
  ⟨2, 16, fun j => if j = 0 then 0 else 3, fun _ => 0, false, none, fun _ => 0, fun _ => none, fun _ => 0,
    fun _ _ => 0, fun _ _ => 0⟩

theorem load_scale_counterexample : ¬ load_scale_statement := by
  intro h
  have := (h 4 ldInst [1, 2, 0] (by decide)).1 ((feasible_iff _ _).1 (by decide))
  have := (feasible_iff _ _).2 this
  revert this; decide

theorem timeOk_storedOf (k : Int) (c : Cmp) (i : Inst) : ∀ (r : List Nat) (cur : Nat) (t : Int),
    timeOk c (storedOf k i) cur t r = timeOk c i cur t r
  | [], _, _ => rfl
  | a :: r, cur, t => by simp only [timeOk]; rw [timeOk_storedOf k c i r]; rfl

theorem routeOk_storedOf {k : Int} (hk : 1 ≤ k) (i : Inst) (hnn : ∀ j, 0 ≤ i.dL j ∧ 0 ≤ i.dB j) (c : Cmp) (r : List Nat)
    (h : RouteOk c (storedOf k i) r) : RouteOk c i r := by
  have hk0 : 0 < k := by omega
  obtain ⟨h1, h2, h3, h4, h5⟩ := h
  have hL : (r.map (storedOf k i).dL).sum = k * (r.map i.dL).sum := sum_map_mul k i.dL r
  have hB : (r.map (storedOf k i).dB).sum = k * (r.map i.dB).sum := sum_map_mul k i.dB r
  have hcap : (storedOf k i).cap = i.cap := rfl
  have nL : 0 ≤ (r.map i.dL).sum := sum_map_nonneg (fun j _ => (hnn j).1)
  have nB : 0 ≤ (r.map i.dB).sum := sum_map_nonneg (fun j _ => (hnn j).2)
  have mono : ∀ x : Int, 0 ≤ x → x ≤ k * x := by
    intro x hx
    have := Int.mul_le_mul_of_nonneg_right hk hx
    simpa using this
  rw [hL, hcap] at h1
  rw [hB, hcap] at h2
  refine ⟨Int.le_trans (mono _ nL) h1, ?_, ?_, h4, ?_⟩
  · exact Int.le_trans (mono _ nB) h2
  · unfold Ordered at h3 ⊢
    refine h3.imp ?_
    intro a b hab
    have e1 : (storedOf k i).dB a = k * i.dB a := rfl
    have e2 : (storedOf k i).dL b = k * i.dL b := rfl
    rw [e1, e2, pos_mul_iff hk0, pos_mul_iff hk0] at hab; exact hab
  · rw [timeOk_storedOf] at h5; exact h5

/-- **partial 1 (what does hold)**: the loaded instance is a RELAXATION of the stored one — every solution of the stored
problem stays feasible after `load_data(scale=True)`, but not conversely -/
theorem load_scale_relaxes {k : Int} (hk : 1 ≤ k) (loaded : Inst) (hnn : ∀ j, 0 ≤ loaded.dL j ∧ 0 ≤ loaded.dB j)
    (as : List Nat) (h : Feasible (storedOf k loaded) as) : Feasible loaded as :=
  ⟨h.range, h.once, fun r hr hne => routeOk_storedOf hk loaded hnn .le r (h.route r hr hne)⟩

/-- **partial 2 (the repaired loader)**: had `load_data` divided `vehicle_capacity` as well (stored = `scaleDem k loaded`),
the statement would hold — and the environment would behave identically (`env_scaleDem`) -/
theorem load_scale_repaired {k : Int} (hk : 0 < k) (loaded : Inst) (as : List Nat) :
    Feasible loaded as ↔ Feasible (scaleDem k loaded) as :=
  (feasible_scaleDem hk .le loaded as).symm

end Rl4co.Mtvrp
