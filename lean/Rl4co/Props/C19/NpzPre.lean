/-
C19 — the npz container with a per-array pre-processing step between `v.numpy()` and `np.savez*`
(model: `Rl4co/Gen/Persist.lean`; round-8 seed Y04-1 casts floating arrays to float32 when `compress=True`).

`npz_load_save` proves the round trip for the code as it is (no pre-processing).  Here the *class* of such
changes is characterised, for every TensorDict and every pre-processing function:

* `npz_load_saveWith_iff`   the round trip through `save(pre) → load` gives the TensorDict back **iff** `pre` leaves
                            every stored array (dtype tag, shape, contents) unchanged — so no cast, re-layout or
                            rounding of any entry, in any storage mode, can preserve the property;
* `npz_downcast_counterexample`  the concrete instance: casting a `float64` entry to `float32` loses the instance.
-/
import Rl4co.Props.C19.Persist
namespace Rl4co.Gen.Persist

/-- `x_dict = {k: pre(v.numpy())}; np.savez*(filename, **x_dict)` -/
def npzSaveWith {α F : Type} (pre : Arr α → Arr α) (c : Codec α F) (td : TDict α) : List (String × F) :=
  td.entries.map (fun e => (e.1, c.enc (pre e.2)))

theorem npzSaveWith_eq {α F : Type} (pre : Arr α → Arr α) (c : Codec α F) (td : TDict α) :
    npzSaveWith pre c td = npzSave c { entries := td.entries.map (fun e => (e.1, pre e.2)), batch := td.batch } := by
  simp [npzSaveWith, npzSave, List.map_map, Function.comp_def]

theorem map_eq_self_mem {γ : Type} (f : γ → γ) (l : List γ) (h : l.map f = l) : ∀ x ∈ l, f x = x := by
  induction l with
  | nil => intro x hx; cases hx
  | cons a l ih =>
    simp only [List.map_cons, List.cons.injEq] at h
    intro x hx
    rcases List.mem_cons.mp hx with rfl | hx
    · exact h.1
    · exact ih h.2 x hx

/-- whatever `npzLoad` returns carries the decoded entries of the file in file order -/
theorem npzLoad_entries {α F : Type} (c : Codec α F) (file : List (String × F)) (td : TDict α)
    (h : npzLoad c file = some td) : td.entries = file.map (fun e => (e.1, c.dec e.2)) := by
  unfold npzLoad at h
  split at h
  · cases h
  · split at h
    · cases h
    · simp only at h
      split at h
      · cases h; rfl
      · cases h

/-- the round trip with a pre-processing step holds exactly when the step changes no stored array -/
theorem npz_load_saveWith_iff {α F : Type} (pre : Arr α → Arr α) (c : Codec α F) (td : TDict α)
    (hne : td.entries ≠ []) (hb : ∀ e ∈ td.entries, e.2.shape.head? = some td.batch) :
    npzLoad c (npzSaveWith pre c td) = some td ↔ ∀ e ∈ td.entries, pre e.2 = e.2 := by
  constructor
  · intro h
    have he := npzLoad_entries c _ td h
    simp only [npzSaveWith, List.map_map, Function.comp_def, c.dec_enc] at he
    intro e hmem
    have := map_eq_self_mem (fun e : String × Arr α => (e.1, pre e.2)) td.entries he.symm e hmem
    exact congrArg Prod.snd this
  · intro h
    have hid : td.entries.map (fun e => (e.1, c.enc (pre e.2))) = td.entries.map (fun e => (e.1, c.enc e.2)) :=
      List.map_congr_left (fun e hmem => by rw [h e hmem])
    have : npzSaveWith pre c td = npzSave c td := by simp only [npzSaveWith, npzSave, hid]
    rw [this]
    exact npz_load_save c td hne hb

/-- the float32 down-cast of seed Y04-1 on dtype tags: `float64 ↦ float32`, everything else untouched -/
def downcast {α : Type} (a : Arr α) : Arr α := if a.dtype = "float64" then { a with dtype := "float32" } else a

/-- concrete witness: a one-entry TensorDict with a `float64` array does not survive `save(downcast) → load` -/
theorem npz_downcast_counterexample {F : Type} (c : Codec Nat F) :
    npzLoad c (npzSaveWith downcast c { entries := [("locs", { dtype := "float64", shape := [1, 2], data := [3, 4] })], batch := 1 })
      ≠ some { entries := [("locs", { dtype := "float64", shape := [1, 2], data := [3, 4] })], batch := 1 } := by
  intro h
  have := (npz_load_saveWith_iff downcast c _ (by simp) (by simp)).mp h
    ("locs", { dtype := "float64", shape := [1, 2], data := [3, 4] }) (by simp)
  simp [downcast] at this

/-- and arrays of every other dtype (float32, integer, bool) do survive it: the down-cast is invisible on the
library's own float32 generators, which is why only a float64 instance exposes it -/
theorem npz_downcast_invisible {α F : Type} (c : Codec α F) (td : TDict α) (hne : td.entries ≠ [])
    (hb : ∀ e ∈ td.entries, e.2.shape.head? = some td.batch) (h32 : ∀ e ∈ td.entries, e.2.dtype ≠ "float64") :
    npzLoad c (npzSaveWith downcast c td) = some td :=
  (npz_load_saveWith_iff downcast c td hne hb).mpr (fun e hmem => by simp [downcast, h32 e hmem])

end Rl4co.Gen.Persist
