/-
C19, persistence round trips that can be modelled:
  * `fjsp_read_write` / `jssp_read_write`: reading a written scheduling file gives the instance back (token level,
    up to `max_ops` zero padding), for every instance with at least one job — any number of operations, machines, any durations;
  * `load_data_demand`: `CVRPEnv.load_data` normalises raw demands by the capacity, and dataset files written by
    `generate_vrp_data` end up in (0, 1]; the path "generator batch → save → env loader" is refuted
    (`load_after_generator_counterexample`: the loader divides a second time);
  * `setstate_getstate`: `__setstate__ ∘ __getstate__` is the identity on the modelled record.
npz / pickle / torch.save containers are not modelled (C19 is partial; see the unit's assumptions).
-/
import Rl4co.Gen.Persist
import Mathlib.Tactic.NormNum
import Mathlib.Algebra.Order.Field.Rat
namespace Rl4co.Gen.Persist
open Rl4co.Gen

/-- the (machine id + 1, duration) pairs of one operation, as the writer lists them -/
def pairsOf (M : Nat) (proc : Nat → Nat → Nat) (op : Nat) : List (Nat × Nat) :=
  (eligible M proc op).map (fun m => (m + 1, proc m op))

theorem takePairs_encode (g : Nat → Nat) (ms : List Nat) (rest : List Nat) :
    takePairs ms.length (ms.flatMap (fun m => [m + 1, g m]) ++ rest) = (ms.map (fun m => (m + 1, g m)), rest) := by
  induction ms with
  | nil => simp [takePairs]
  | cons m ms ih => simp [takePairs, ih]

theorem parseOps_cons_encode (M : Nat) (proc : Nat → Nat → Nat) (n op : Nat) (rest : List Nat) :
    parseOps (n + 1) (encodeOp M proc op ++ rest) = (parseOps n rest).map (fun r => pairsOf M proc op :: r) := by
  unfold encodeOp
  simp only [List.cons_append, parseOps, takePairs_encode, pairsOf]

theorem parseOps_encode (M : Nat) (proc : Nat → Nat → Nat) (n : Nat) : ∀ (start : Nat) (rest : List Nat),
    parseOps n ((List.range n).flatMap (fun k => encodeOp M proc (start + k)) ++ rest)
      = some ((List.range n).map (fun k => pairsOf M proc (start + k))) := by
  induction n with
  | zero => intro start rest; simp [parseOps]
  | succ n ih =>
    intro start rest
    have hl : (List.range (n + 1)).flatMap (fun k => encodeOp M proc (start + k))
        = encodeOp M proc start ++ (List.range n).flatMap (fun k => encodeOp M proc (start + 1 + k)) := by
      rw [List.range_succ_eq_map]
      simp [List.flatMap_map, Nat.add_assoc, Nat.add_comm 1]
    have hr : (List.range (n + 1)).map (fun k => pairsOf M proc (start + k))
        = pairsOf M proc start :: (List.range n).map (fun k => pairsOf M proc (start + 1 + k)) := by
      rw [List.range_succ_eq_map]
      simp [Function.comp_def, Nat.add_assoc, Nat.add_comm 1]
    rw [hl, hr, List.append_assoc, parseOps_cons_encode, ih (start + 1) rest]
    rfl

theorem parseJobLine_encode (M : Nat) (proc : Nat → Nat → Nat) (start n : Nat) :
    parseJobLine (encodeJob M proc start n) = some ((List.range n).map (fun k => pairsOf M proc (start + k))) := by
  have := parseOps_encode M proc n start []
  simp only [List.append_nil] at this
  simpa [encodeJob, parseJobLine] using this

/-- the parsed jobs of a written file -/
def jobsOf (M : Nat) (proc : Nat → Nat → Nat) : Nat → List Nat → List (List (List (Nat × Nat)))
  | _, [] => []
  | start, n :: ns => (List.range n).map (fun k => pairsOf M proc (start + k)) :: jobsOf M proc (start + n) ns

theorem mapM_parse_encode (M : Nat) (proc : Nat → Nat → Nat) : ∀ (ns : List Nat) (start : Nat),
    (encodeJobs M proc start ns).mapM parseJobLine = some (jobsOf M proc start ns)
  | [], _ => by simp [encodeJobs, jobsOf]
  | n :: ns, start => by
    simp [encodeJobs, jobsOf, parseJobLine_encode, mapM_parse_encode M proc ns (start + n)]

theorem jobsOf_lengths (M : Nat) (proc : Nat → Nat → Nat) : ∀ (ns : List Nat) (start : Nat),
    (jobsOf M proc start ns).map List.length = ns
  | [], _ => by simp [jobsOf]
  | n :: ns, start => by simp [jobsOf, jobsOf_lengths M proc ns (start + n)]

theorem jobsOf_flatten (M : Nat) (proc : Nat → Nat → Nat) : ∀ (ns : List Nat) (start : Nat),
    (jobsOf M proc start ns).flatten = (List.range ns.sum).map (fun k => pairsOf M proc (start + k))
  | [], _ => by simp [jobsOf]
  | n :: ns, start => by
    simp only [jobsOf, List.flatten_cons, jobsOf_flatten M proc ns (start + n), List.sum_cons]
    rw [List.range_add, List.map_append, List.map_map]
    congr 1
    apply List.map_congr_left
    intro k _; simp [Nat.add_assoc]

/-! ### storing -/

theorem storeOp_pairs (M op : Nat) (g : Nat → Nat) : ∀ (ms : List Nat) (f : Nat → Nat → Nat), (∀ m ∈ ms, m < M) →
    storeOp M op (ms.map (fun m => (m + 1, g m))) f
      = some (fun m' op' => if op' = op ∧ m' ∈ ms then g m' else f m' op')
  | [], f, _ => by simp [storeOp]
  | m :: ms, f, h => by
    have hm : m < M := h m (by simp)
    have hrow : rowOf M (m + 1) = some m := by simp [rowOf]; omega
    simp only [List.map_cons, storeOp, hrow]
    rw [storeOp_pairs M op g ms _ (fun x hx => h x (by simp [hx]))]
    congr 1
    funext m' op'
    simp only [upd2, List.mem_cons]
    by_cases h1 : op' = op <;> by_cases h2 : m' ∈ ms <;> by_cases h3 : m' = m <;> simp [h1, h2, h3]

theorem storeOp_pairsOf (M : Nat) (proc : Nat → Nat → Nat) (op : Nat) (f : Nat → Nat → Nat) :
    storeOp M op (pairsOf M proc op) f
      = some (fun m' op' => if op' = op ∧ m' ∈ eligible M proc op then proc m' op else f m' op') := by
  unfold pairsOf
  exact storeOp_pairs M op (fun m => proc m op) (eligible M proc op) f (by
    intro m hm; simp [eligible] at hm; exact hm.1)

theorem storeOps_range (M : Nat) (proc : Nat → Nat → Nat) (k : Nat) : ∀ (cnt : Nat) (f : Nat → Nat → Nat),
    storeOps M cnt ((List.range k).map (fun j => pairsOf M proc (cnt + j))) f
      = some (fun m' op' => if cnt ≤ op' ∧ op' < cnt + k ∧ m' ∈ eligible M proc op' then proc m' op' else f m' op') := by
  induction k with
  | zero =>
    intro cnt f
    simp only [List.range_zero, List.map_nil, storeOps]
    congr 1; funext m' op'
    have : ¬ (cnt ≤ op' ∧ op' < cnt + 0 ∧ m' ∈ eligible M proc op') := by intro h; omega
    rw [if_neg this]
  | succ k ih =>
    intro cnt f
    have hr : (List.range (k + 1)).map (fun j => pairsOf M proc (cnt + j))
        = pairsOf M proc cnt :: (List.range k).map (fun j => pairsOf M proc (cnt + 1 + j)) := by
      rw [List.range_succ_eq_map]
      simp [Function.comp_def, Nat.add_assoc, Nat.add_comm 1]
    rw [hr]
    simp only [storeOps, storeOp_pairsOf]
    rw [ih (cnt + 1)]
    congr 1; funext m' op'
    by_cases h1 : op' = cnt
    · subst h1
      have hA : ¬ (op' + 1 ≤ op' ∧ op' < op' + 1 + k ∧ m' ∈ eligible M proc op') := by intro h; omega
      rw [if_neg hA]
      by_cases hE : m' ∈ eligible M proc op'
      · have hB : op' ≤ op' ∧ op' < op' + (k + 1) ∧ m' ∈ eligible M proc op' := ⟨Nat.le_refl _, by omega, hE⟩
        rw [if_pos ⟨rfl, hE⟩, if_pos hB]
      · have hB : ¬ (op' ≤ op' ∧ op' < op' + (k + 1) ∧ m' ∈ eligible M proc op') := fun h => hE h.2.2
        have hC : ¬ (op' = op' ∧ m' ∈ eligible M proc op') := fun h => hE h.2
        rw [if_neg hC, if_neg hB]
    · have hC : ¬ (op' = cnt ∧ m' ∈ eligible M proc cnt) := fun h => h1 h.1
      rw [if_neg hC]
      by_cases hA : cnt + 1 ≤ op' ∧ op' < cnt + 1 + k ∧ m' ∈ eligible M proc op'
      · have hB : cnt ≤ op' ∧ op' < cnt + (k + 1) ∧ m' ∈ eligible M proc op' := ⟨by omega, by omega, hA.2.2⟩
        rw [if_pos hA, if_pos hB]
      · have hB : ¬ (cnt ≤ op' ∧ op' < cnt + (k + 1) ∧ m' ∈ eligible M proc op') := by
          intro h; exact hA ⟨by omega, by omega, h.2.2⟩
        rw [if_neg hA, if_neg hB]

/-- **fjsp_read_write**: reading a file written from an instance gives the instance back — job and machine
counts, operations per job, and the processing-time matrix on the real operations; everything beyond
(`max_ops` padding) is zero. -/
theorem fjsp_read_write (i : Inst) (flex : Nat) (hjobs : i.nOps ≠ []) :
    ∃ out, fjspRead (fjspWrite i flex) = some out ∧ out.numJobs = i.nOps.length ∧ out.numMas = i.numMas ∧
      out.nOps = i.nOps ∧
      ∀ m op, out.proc m op = if m < i.numMas ∧ op < i.total then i.proc m op else 0 := by
  have hne : (encodeJobs i.numMas i.proc 0 i.nOps).isEmpty = false := by
    cases h : i.nOps with
    | nil => exact absurd h hjobs
    | cons n ns => simp [encodeJobs]
  unfold fjspRead fjspWrite
  simp only [hne, Bool.false_eq_true, if_false, mapM_parse_encode, jobsOf_flatten, jobsOf_lengths]
  have := storeOps_range i.numMas i.proc i.nOps.sum 0 (fun _ _ => 0)
  simp only [Nat.zero_add] at this ⊢
  rw [this]
  refine ⟨_, rfl, rfl, rfl, rfl, ?_⟩
  intro m op
  simp only [Inst.total, eligible, List.mem_filter, List.mem_range, decide_eq_true_eq, Nat.zero_le, true_and]
  by_cases h1 : m < i.numMas <;> by_cases h2 : op < i.nOps.sum <;> by_cases h3 : i.proc m op > 0 <;> simp [h1, h2, h3]
  omega


/-! ### JSSP -/

def jPair (i : JInst) (op : Nat) : Nat × Nat := (i.ma op + 1, i.dur op)

theorem jParse_encode (i : JInst) (n : Nat) : ∀ start,
    jParseJobLine (jEncodeJob i start n) = some ((List.range n).map (fun k => jPair i (start + k))) := by
  induction n with
  | zero => intro start; simp [jEncodeJob, jParseJobLine]
  | succ n ih =>
    intro start
    have hl : jEncodeJob i start (n + 1) = [i.ma start + 1, i.dur start] ++ jEncodeJob i (start + 1) n := by
      unfold jEncodeJob
      rw [List.range_succ_eq_map]
      simp [List.flatMap_map, Nat.add_assoc, Nat.add_comm 1]
    have hr : (List.range (n + 1)).map (fun k => jPair i (start + k))
        = jPair i start :: (List.range n).map (fun k => jPair i (start + 1 + k)) := by
      rw [List.range_succ_eq_map]
      simp [Function.comp_def, Nat.add_assoc, Nat.add_comm 1]
    rw [hl, hr]
    simp only [List.cons_append, List.nil_append, jParseJobLine, ih (start + 1)]
    rfl

def jJobsOf (i : JInst) : Nat → List Nat → List (List (Nat × Nat))
  | _, [] => []
  | start, n :: ns => (List.range n).map (fun k => jPair i (start + k)) :: jJobsOf i (start + n) ns

theorem jMapM (i : JInst) : ∀ (ns : List Nat) (start : Nat),
    (jEncodeJobs i start ns).mapM jParseJobLine = some (jJobsOf i start ns)
  | [], _ => by simp [jEncodeJobs, jJobsOf]
  | n :: ns, start => by simp [jEncodeJobs, jJobsOf, jParse_encode, jMapM i ns (start + n)]

theorem jJobsOf_lengths (i : JInst) : ∀ (ns : List Nat) (start : Nat), (jJobsOf i start ns).map List.length = ns
  | [], _ => by simp [jJobsOf]
  | n :: ns, start => by simp [jJobsOf, jJobsOf_lengths i ns (start + n)]

theorem jJobsOf_flatten (i : JInst) : ∀ (ns : List Nat) (start : Nat),
    (jJobsOf i start ns).flatten = (List.range ns.sum).map (fun k => jPair i (start + k))
  | [], _ => by simp [jJobsOf]
  | n :: ns, start => by
    simp only [jJobsOf, List.flatten_cons, jJobsOf_flatten i ns (start + n), List.sum_cons]
    rw [List.range_add, List.map_append, List.map_map]
    congr 1
    apply List.map_congr_left
    intro k _; simp [Nat.add_assoc]

theorem jStoreOps_range (i : JInst) (k : Nat) (hma : ∀ op, i.ma op < i.numMas) : ∀ (cnt : Nat) (f : Nat → Nat → Nat),
    storeOps i.numMas cnt ((List.range k).map (fun j => [jPair i (cnt + j)])) f
      = some (fun m' op' => if cnt ≤ op' ∧ op' < cnt + k ∧ m' = i.ma op' then i.dur op' else f m' op') := by
  induction k with
  | zero =>
    intro cnt f
    simp only [List.range_zero, List.map_nil, storeOps]
    congr 1; funext m' op'
    have : ¬ (cnt ≤ op' ∧ op' < cnt + 0 ∧ m' = i.ma op') := by intro h; omega
    rw [if_neg this]
  | succ k ih =>
    intro cnt f
    have hr : (List.range (k + 1)).map (fun j => [jPair i (cnt + j)])
        = [jPair i cnt] :: (List.range k).map (fun j => [jPair i (cnt + 1 + j)]) := by
      rw [List.range_succ_eq_map]
      simp [Function.comp_def, Nat.add_assoc, Nat.add_comm 1]
    rw [hr]
    have hs : storeOp i.numMas cnt [jPair i cnt] f
        = some (fun m' op' => if op' = cnt ∧ m' ∈ [i.ma cnt] then i.dur cnt else f m' op') := by
      have := storeOp_pairs i.numMas cnt (fun _ => i.dur cnt) [i.ma cnt] f (by intro m hm; simp at hm; subst hm; exact hma cnt)
      simpa [jPair] using this
    simp only [storeOps, hs]
    rw [ih (cnt + 1)]
    congr 1; funext m' op'
    by_cases h1 : op' = cnt
    · subst h1
      have hA : ¬ (op' + 1 ≤ op' ∧ op' < op' + 1 + k ∧ m' = i.ma op') := by intro h; omega
      rw [if_neg hA]
      by_cases hE : m' = i.ma op'
      · have hB : op' ≤ op' ∧ op' < op' + (k + 1) ∧ m' = i.ma op' := ⟨Nat.le_refl _, by omega, hE⟩
        rw [if_pos ⟨rfl, by simp [hE]⟩, if_pos hB]
      · have hB : ¬ (op' ≤ op' ∧ op' < op' + (k + 1) ∧ m' = i.ma op') := fun h => hE h.2.2
        have hC : ¬ (op' = op' ∧ m' ∈ [i.ma op']) := fun h => hE (by simpa using h.2)
        rw [if_neg hC, if_neg hB]
    · have hC : ¬ (op' = cnt ∧ m' ∈ [i.ma cnt]) := fun h => h1 h.1
      rw [if_neg hC]
      by_cases hA : cnt + 1 ≤ op' ∧ op' < cnt + 1 + k ∧ m' = i.ma op'
      · have hB : cnt ≤ op' ∧ op' < cnt + (k + 1) ∧ m' = i.ma op' := ⟨by omega, by omega, hA.2.2⟩
        rw [if_pos hA, if_pos hB]
      · have hB : ¬ (cnt ≤ op' ∧ op' < cnt + (k + 1) ∧ m' = i.ma op') := by
          intro h; exact hA ⟨by omega, by omega, h.2.2⟩
        rw [if_neg hA, if_neg hB]

/-- **jssp_read_write**: a JSSP instance written in the format the parser documents (pairs `<machine> <time>`,
machines 1-based) is read back unchanged: counts, operations per job and the one-machine-per-operation matrix,
zeros beyond the real operations. -/
theorem jssp_read_write (i : JInst) (hma : ∀ op, i.ma op < i.numMas) (hjobs : i.nOps ≠ []) :
    ∃ out, jsspRead (jsspWrite i) = some out ∧ out.numJobs = i.nOps.length ∧ out.numMas = i.numMas ∧
      out.nOps = i.nOps ∧ ∀ m op, out.proc m op = if op < i.nOps.sum then i.proc m op else 0 := by
  have hne : (jEncodeJobs i 0 i.nOps).isEmpty = false := by
    cases h : i.nOps with
    | nil => exact absurd h hjobs
    | cons n ns => simp [jEncodeJobs]
  unfold jsspRead jsspWrite
  simp only [hne, Bool.false_eq_true, if_false, jMapM, jJobsOf_flatten, jJobsOf_lengths, List.map_map]
  have := jStoreOps_range i i.nOps.sum hma 0 (fun _ _ => 0)
  simp only [Nat.zero_add, Function.comp_def] at this ⊢
  rw [this]
  refine ⟨_, rfl, rfl, rfl, rfl, ?_⟩
  intro m op
  simp only [JInst.proc, Nat.zero_le, true_and]
  by_cases h2 : op < i.nOps.sum <;> by_cases h3 : m = i.ma op <;> simp [h2, h3]

/-! ### load_data -/

/-- **load_data_demand**: `CVRPEnv.load_data` turns a raw demand `d` into the fraction `d / capacity` -/
theorem load_data_demand (demand : List Int) (cap : Frac) (j : Nat) (hj : j < demand.length) (hc : 0 < cap.1) :
    ∃ f, (loadDemand demand cap)[j]? = some f ∧ f.1 * cap.1 = demand[j] * cap.2 * (f.2 : Int) := by
  refine ⟨(demand[j] * cap.2, cap.1.toNat), by simp [loadDemand, hj], ?_⟩
  simp only []
  rw [Int.toNat_of_nonneg (Int.le_of_lt hc)]

/-- a dataset written by `generate_vrp_data` (raw demands `1..9`, table capacity) is normalised into (0, 1] -/
theorem load_data_demand_le_one (d : Int) (cap : Frac) (hd : 1 ≤ d ∧ d ≤ 9) (hc : 9 * (cap.2 : Int) ≤ cap.1) (h2 : 0 < cap.2) :
    0 < d * cap.2 ∧ d * cap.2 ≤ cap.1 := by
  have h2' : (0 : Int) < (cap.2 : Int) := by exact_mod_cast h2
  constructor
  · exact Int.mul_pos (by omega) h2'
  · have : d * (cap.2 : Int) ≤ 9 * (cap.2 : Int) := Int.mul_le_mul_of_nonneg_right hd.2 (Int.le_of_lt h2')
    omega

/-- C19 for "generator → save → env loader" as stated: the loaded demand equals the generated one -/
def load_after_generator_statement : Prop :=
  ∀ (d : Int) (cap : Frac), 0 < d → 0 < cap.1 → 0 < cap.2 → loadAfterGenerator d cap = generatorDemand d cap

/-- it fails whenever the capacity is not 1: the loader divides a second time -/
theorem load_after_generator_counterexample : ¬ load_after_generator_statement := by
  intro h
  have := h 3 (30, 1) (by decide) (by decide) (by decide)
  norm_num [loadAfterGenerator, generatorDemand] at this

/-- with unit capacity nothing changes -/
theorem load_after_generator_partial (d : Int) : loadAfterGenerator d (1, 1) = generatorDemand d (1, 1) := by
  norm_num [loadAfterGenerator, generatorDemand]

/-! ### getstate / setstate -/

/-- **setstate_getstate**: restoring a pickled environment gives back the attribute dictionary, and the
generator is in the pickled state, provided `set_state` overwrites whatever state the freshly seeded generator had -/
theorem setstate_getstate {V R : Type} (seed0 : R) (setState : R → R → R) (hset : ∀ g s, setState g s = s)
    (e : EnvObj V R) : setstate seed0 setState (getstate e) = e := by
  cases e; simp [setstate, getstate, hset]


/-- non-vacuity: a 2-job, 2-machine instance, its file and the file read back -/
def exInst : Inst := { numMas := 2, nOps := [2, 1], proc := fun m o => if m = 0 then [3, 0, 5].getD o 0 else [0, 4, 6].getD o 0 }
example : fjspWrite exInst 1 = [[2, 2, 1], [2, 1, 1, 3, 1, 2, 4], [1, 2, 1, 5, 2, 6]] := by decide
example : (fjspRead (fjspWrite exInst 1)).map (fun o => o.nOps ++ [o.numJobs, o.numMas, o.proc 0 2, o.proc 1 2, o.proc 1 0, o.proc 0 7])
    = some [2, 1, 2, 2, 5, 6, 0, 0] := by decide
/-- a malformed line (operation count larger than what follows) is an error, as `parse_job_line`'s IndexError -/
example : (fjspRead [[1, 2, 0], [2, 1, 1, 3]]).isNone = true := by decide


/-! ### per-row capacities, the npz container model, the extracted pickling protocol -/

/-- **load_data_per_row**: `CVRPEnv.load_data` divides every row of a dataset file by that row's own capacity
(obligation on the extracted divisor `capacity[:, None]`), whatever the other rows' capacities are -/
theorem load_data_per_row (rows : List (List Int × Frac)) (k : Nat) (hk : k < rows.length) :
    (loadRows rows)[k]? = some (loadDemand rows[k].1 rows[k].2) := by
  have hflag : Params.genLoadDataPerRow = true := by decide
  simp [loadRows, loadRowsWith, hflag, hk]

/-- the batch-global shortcut is a different function as soon as two rows carry different capacities -/
example : loadRowsWith false [([4], (8, 1)), ([4], (16, 1))] ≠ loadRowsWith true [([4], (8, 1)), ([4], (16, 1))] := by decide

/-- **npz_load_save**: for the container model, `load_npz_to_tensordict (save_tensordict_to_npz td) = td` — same keys in the same
order, same dtype / shape tags and contents, same batch size — for every non-empty TensorDict whose entries all have the
batch size as leading dimension (which TensorDict guarantees) -/
theorem npz_decode_save {α F : Type} (c : Codec α F) (es : List (String × Arr α)) :
    (es.map (fun e => (e.1, c.enc e.2))).map (fun e => (e.1, c.dec e.2)) = es := by
  simp [List.map_map, Function.comp_def, c.dec_enc]

theorem npz_load_save {α F : Type} (c : Codec α F) (td : TDict α) (hne : td.entries ≠ [])
    (hb : ∀ e ∈ td.entries, e.2.shape.head? = some td.batch) : npzLoad c (npzSave c td) = some td := by
  obtain ⟨entries, batch⟩ := td
  cases entries with
  | nil => exact absurd rfl hne
  | cons e es =>
    have h0 := hb e (by simp)
    have hdec := npz_decode_save c (e :: es)
    simp only [List.map_cons, c.dec_enc] at hdec
    simp only [npzSave, List.map_cons, npzLoad, c.dec_enc]
    cases hs : e.2.shape with
    | nil => simp [hs] at h0
    | cons b rest =>
      simp only [hs, List.head?_cons, Option.some.injEq] at h0
      subst h0
      rw [hdec]
      have hall : ((e :: es).all fun e => e.2.shape.head? == some b) = true := by
        simp only [List.all_eq_true, beq_iff_eq]; exact hb
      simp only [hall, if_true]

/-- an empty TensorDict cannot be re-loaded (`list(x_dict.keys())[0]` raises) -/
theorem npz_load_empty {α F : Type} (c : Codec α F) (b : Nat) : npzLoad c (npzSave c ({ entries := [], batch := b } : TDict α)) = none := rfl

/-- the loader re-derives the batch size from the first key only: shape-level statement used by the driver -/
theorem npzBatch_of_uniform (shapes : List (List Nat)) (b : Nat) (hne : shapes ≠ [])
    (h : ∀ sh ∈ shapes, sh.head? = some b) : npzBatch shapes = some b := by
  cases shapes with
  | nil => exact absurd rfl hne
  | cons s0 ss =>
    have h0 := h s0 (by simp)
    cases s0 with
    | nil => simp at h0
    | cons b0 r =>
      simp only [List.head?_cons, Option.some.injEq] at h0; subst h0
      simp only [npzBatch]
      have : (((b0 :: r) :: ss).all fun sh => sh.head? == some b0) = true := by
        simp only [List.all_eq_true, beq_iff_eq]; exact h
      simp [this]

/-- **setstate_getstate_extracted**: with the statements found in the source (`state = self.__dict__.copy()`,
`self.__dict__.update(state)`, `self.rng.set_state(state["rng"])` — obligations on the extracted flags) pickling and
restoring is the identity on the whole attribute dictionary and the generator state -/
theorem setstate_getstate_extracted {V R : Type} (seed0 : R) (setState : R → R → R) (hset : ∀ g s, setState g s = s)
    (e : EnvObj V R) :
    setstateP Params.genSetstateUpdatesDict Params.genSetstateRestoresRng seed0 setState
      (getstateP Params.genGetstateCopiesDict e) = e := by
  have h : Params.genSetstateUpdatesDict = true ∧ Params.genSetstateRestoresRng = true ∧ Params.genGetstateCopiesDict = true ∧
      Params.genGetstateRngToState = true := by decide
  cases e; simp [setstateP, getstateP, h.1, h.2.1, h.2.2.1, hset]

/-- each of the three statements is needed -/
example : (setstateP (V := Nat) (R := Nat) true false 0 (fun _ s => s) (getstateP true ⟨[("a", 1)], 7⟩)).rng ≠ 7 := by decide
example : (setstateP (V := Nat) (R := Nat) false true 0 (fun _ s => s) (getstateP true ⟨[("a", 1)], 7⟩)).dict ≠ [("a", 1)] := by decide
example : (setstateP (V := Nat) (R := Nat) true true 0 (fun _ s => s) (getstateP false ⟨[("a", 1)], 7⟩)).dict ≠ [("a", 1)] := by decide


/-! ### call-history independence of the dataset writer -/

theorem updTable_nil (tbl : CapTable) : updTable tbl [] = tbl := by
  simp [updTable]

theorem vrpCallsWith_local (tbl : CapTable) : ∀ calls : List (CapTable × Nat),
    vrpCallsWith true tbl calls = calls.map (fun c => (updTable tbl c.1).lookup c.2)
  | [] => rfl
  | (ov, n) :: cs => by simp [vrpCallsWith, vrpCall, vrpCallsWith_local tbl cs]

/-- **vrp_calls_independent**: the capacity `generate_vrp_data` writes is a function of that call's own arguments —
`lookup vrp_size (override applied to the table)` — whatever calls (with whatever overrides) preceded it in the process
(obligation on the source: the table the override loop updates is a local of the call) -/
theorem vrp_calls_independent (calls : List (CapTable × Nat)) :
    vrpCalls calls = calls.map (fun c => (updTable Params.genDataVrpCapacities c.1).lookup c.2) := by
  have h : Params.genDataVrpTableLocal = true := by decide
  simp only [vrpCalls, h]; exact vrpCallsWith_local _ calls

/-- in particular a default call after any history writes the documented table capacity -/
theorem default_call_after_history (hist : List (CapTable × Nat)) (n : Nat) :
    (vrpCalls (hist ++ [([], n)])).getLast? = some (Params.genDataVrpCapacities.lookup n) := by
  rw [vrp_calls_independent]; simp [updTable_nil]

/-- a call leaves the table unchanged -/
theorem vrpCall_table_unchanged (tbl ov : CapTable) (n : Nat) : (vrpCall true tbl ov n).2 = tbl := rfl

/-- with a shared (module-level) table an override leaks into the next default call — the behaviour the obligation excludes -/
example : vrpCallsWith false [(20, (30, 1))] [([(20, (60, 1))], 20), ([], 20)] = [some (60, 1), some (60, 1)] := by decide
example : vrpCallsWith true [(20, (30, 1))] [([(20, (60, 1))], 20), ([], 20)] = [some (60, 1), some (30, 1)] := by decide
/-- an override for a size that is not a table key is ignored, and such a size cannot be written (`KeyError`) -/
example : vrpCallsWith true [(20, (30, 1))] [([(21, (60, 1))], 20), ([(21, (60, 1))], 21)] = [some (30, 1), none] := by decide


/-! ### warm start: checkpoint key mapping -/

theorem stripFirst_prefix (pat k : List Char) (hp : pat ≠ []) : stripFirst pat (pat ++ k) = k := by
  cases pat with
  | nil => exact absurd rfl hp
  | cons p ps =>
    simp only [List.cons_append, stripFirst]
    have : (p :: ps).isPrefixOf (p :: (ps ++ k)) = true := by
      rw [← List.cons_append]; exact List.isPrefixOf_iff_prefix.mpr (List.prefix_append _ _)
    simp only [this, if_true]
    simp

theorem stripFirst_skip (p : Char) (ps pre rest : List Char) (h : ∀ c ∈ pre, c ≠ p) :
    stripFirst (p :: ps) (pre ++ rest) = pre ++ stripFirst (p :: ps) rest := by
  induction pre with
  | nil => rfl
  | cons c cs ih =>
    have hc : c ≠ p := h c (by simp)
    have hpre : (p :: ps).isPrefixOf (c :: (cs ++ rest)) = false := by
      simp [List.isPrefixOf, Ne.symm hc]
    simp only [List.cons_append, stripFirst, hpre]
    rw [ih (fun x hx => h x (by simp [hx]))]
    simp

/-- **policy keys**: `policy.<name>` is mapped to `<name>`; the mapping is injective on them -/
theorem strip_policy (name : List Char) : stripFirst policyPat (policyPat ++ name) = name :=
  stripFirst_prefix policyPat name (by decide)

theorem strip_policy_injective (a b : List Char)
    (h : stripFirst policyPat (policyPat ++ a) = stripFirst policyPat (policyPat ++ b)) : a = b := by
  rwa [strip_policy, strip_policy] at h

/-- **baseline keys**: the greedy-rollout baseline's frozen copy `baseline.baseline.policy.<name>` is mapped to
`baseline.baseline.<name>` — it keeps its `baseline.` prefix -/
theorem strip_baseline (name : List Char) :
    stripFirst policyPat ("baseline.baseline.".toList ++ (policyPat ++ name)) = "baseline.baseline.".toList ++ name := by
  have hp : policyPat = 'p' :: "olicy.".toList := by decide
  rw [hp]
  rw [stripFirst_skip 'p' "olicy.".toList "baseline.baseline.".toList (('p' :: "olicy.".toList) ++ name) (by decide)]
  rw [stripFirst_prefix ('p' :: "olicy.".toList) name (by simp)]

/-- hence a baseline tensor can never land on a policy parameter (whose name does not begin with `baseline.`) -/
theorem baseline_not_onto_policy (a b : List Char) (hb : ¬ "baseline.".toList <+: b) :
    stripFirst policyPat ("baseline.baseline.".toList ++ (policyPat ++ a)) ≠ stripFirst policyPat (policyPat ++ b) := by
  rw [strip_baseline, strip_policy]
  intro h
  apply hb
  rw [← h]
  refine ⟨"baseline.".toList ++ a, ?_⟩
  have : "baseline.baseline.".toList = "baseline.".toList ++ "baseline.".toList := by decide
  rw [this, List.append_assoc]


/-- **warm_start_keys**: the mapping as coded (obligation on the extracted form `k.replace("policy.", "", 1)`): a policy key
`policy.<name>` goes to `<name>`, the rollout baseline's `baseline.baseline.policy.<name>` to `baseline.baseline.<name>` -/
theorem warm_start_keys (name : String) :
    mapKey ("policy." ++ name) = name ∧ mapKey ("baseline.baseline.policy." ++ name) = "baseline.baseline." ++ name := by
  have hflag : Params.genPolynetKeyMapReplaceFirst = true := by decide
  have h1 := strip_policy name.toList
  have h2 := strip_baseline name.toList
  constructor
  · simp only [mapKey, mapKeyWith, hflag, if_true, String.toList_append]
    rw [show "policy.".toList = policyPat from rfl, h1]; simp
  · simp only [mapKey, mapKeyWith, hflag, if_true, String.toList_append]
    rw [show "baseline.baseline.policy.".toList = "baseline.baseline.".toList ++ policyPat by decide, List.append_assoc, h2]
    rw [String.ofList_append, String.ofList_toList, String.ofList_toList]

/-- the `split(…)[-1]` form collapses the baseline's copy onto the policy's key: the later entry of the checkpoint silently
overwrites the trained policy tensor — the behaviour the obligation excludes -/
example : mapKeyWith false "policy.encoder.w" = "encoder.w" ∧ mapKeyWith false "baseline.baseline.policy.encoder.w" = "encoder.w" := by decide
example : mapKeyWith true "policy.encoder.w" = "encoder.w" ∧ mapKeyWith true "baseline.baseline.policy.encoder.w" = "baseline.baseline.encoder.w" := by decide
/-- with the coded mapping the tensor restored into `encoder.w` is the policy's, whatever the order of the checkpoint -/
example : sourceOf ["policy.encoder.w", "baseline.baseline.policy.encoder.w"] "encoder.w" = some "policy.encoder.w" := by decide

end Rl4co.Gen.Persist
