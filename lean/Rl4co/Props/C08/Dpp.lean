/-
C08 for DPP and MDPP (decap placement, single and multi port): a mask-confined episode places exactly
`max_decaps` decaps on pairwise distinct cells, never on a keep-out cell (a cell the instance mask
does not offer) and never on a probing port, and finishes exactly when the quota is reached.

`max_decaps` is an attribute of the environment object, the same for every row of a batch; all rows
therefore finish at the same step (`Rl4co.Dpp.done_lockstep`, C04) and no row is ever stepped after
it finished: `RunND` (stepped only while unfinished) is exactly what the batched loop produces.

`DPPEnv._reset` uses the instance mask as it is — that a probing port is never offered is a property
of the instance (`ProbeMasked`, guaranteed by the bundled generator and re-checked by the harness);
`MDPPEnv._reset` clears the probing ports itself, no hypothesis needed.

`mdpp_ctor_quota`: the environment steps with its generator's `max_decaps` (upstream fix 5c8314b of the
former finding `mdpp-ctor-quota-C08`).
-/
import Rl4co.Proofs.SelectViews

namespace Rl4co.Dpp
open Rl4co.Spec.Dpp

/-- well-formed: a positive quota that the allowed cells can accommodate -/
def WF (i : Inst) : Prop :=
  1 ≤ i.quota ∧ i.quota ≤ cnt i.n (allowed0 i) ∧ (i.multi = true ∨ ProbeMasked i)

/-- **C08 (DPP/MDPP), quota**: exactly `max_decaps` distinct cells, each offered by the instance and
none a probing port. -/
theorem quota (i : Inst) (hwf : WF i) {as : List Nat} {s : State}
    (h : RunND env i (env.reset i) as s) (hd : env.done i s = true) :
    (as.length : Int) = i.quota ∧ as.Nodup ∧
      ∀ a ∈ as, a < i.n ∧ i.avail a = true ∧ i.probe a = false := by
  obtain ⟨h1, h2, h3⟩ := Sel.quota_of_runND view (i := i) hwf.1 h hd
  refine ⟨h1, h2, fun a ha => ⟨(h3 a ha).1, ?_⟩⟩
  have := (h3 a ha).2
  simp only [view] at this
  rw [allowed0_eq_spec i hwf.2.2] at this
  simpa [allowed] using this

theorem feasible_of_run (i : Inst) (hwf : WF i) {as : List Nat} {s : State}
    (h : RunND env i (env.reset i) as s) (hd : env.done i s = true) : Feasible i as := by
  obtain ⟨h1, h2, h3⟩ := quota i hwf h hd
  exact ⟨h1, h2, fun a ha => (h3 a ha).1, fun a ha => by simp [allowed, (h3 a ha).2]⟩

/-- **C08 (DPP/MDPP), finish exactly at the quota**. -/
theorem done_iff_quota (i : Inst) (hq : 1 ≤ i.quota) {as : List Nat} {s : State}
    (h : Run env i (env.reset i) as s) : env.done i s = true ↔ i.quota ≤ as.length :=
  Sel.done_iff view (i := i) hq h

/-- the mask is the reset mask minus the cells used so far; `keepout` never changes -/
theorem mask_eq_history (i : Inst) {as : List Nat} {s : State} (h : Run env i (env.reset i) as s)
    (j : Nat) : env.mask i s j = (allowed0 i j && !decide (j ∈ as)) :=
  (Sel.inv_of_run view h).am j

theorem keepout_const (i : Inst) {as : List Nat} {s : State} (h : Run env i (env.reset i) as s)
    (j : Nat) : s.keepout j = !(i.avail j) := by
  refine Rl4co.inv_of_run (e := env) (i := i) (Inv := fun s _ => s.keepout j = !(i.avail j)) rfl ?_ h
  intro s _ a hi _ _; exact hi

/-- MDPP never offers a probing port, whatever the instance mask says. -/
theorem mdpp_probe_never_offered (i : Inst) (hm : i.multi = true) {as : List Nat} {s : State}
    (h : Run env i (env.reset i) as s) (j : Nat) (hp : i.probe j = true) : env.mask i s j = false := by
  rw [mask_eq_history i h j]; simp [allowed0, reset, Params.mdppResetProbeNegated, hm, hp]

/-- MDPP needs no instance contract: `_reset` clears the probing ports itself. -/
theorem mdpp_quota (i : Inst) (hm : i.multi = true) (hq : 1 ≤ i.quota)
    (hc : i.quota ≤ cnt i.n (allowed0 i)) {as : List Nat} {s : State}
    (h : RunND env i (env.reset i) as s) (hd : env.done i s = true) :
    (as.length : Int) = i.quota ∧ as.Nodup ∧
      ∀ a ∈ as, a < i.n ∧ i.avail a = true ∧ i.probe a = false :=
  quota i ⟨hq, hc, Or.inl hm⟩ h hd

/-! #### Single-port DPP on an instance that is not pre-masked — FINDING

`DPPEnv._reset` copies `td["action_mask"]` and never looks at `td["probe"]`.  For an instance whose
mask encodes the keep-out layout only (hand-supplied / dataset instance, probing port given in the
`probe` field) the port is offered and a decap can be placed on it.  `quota` above is the partial
theorem (hypothesis `ProbeMasked`, which the bundled generator establishes). -/

/-- Full statement: whatever the instance mask, a complete DPP episode never uses the probing port. -/
def dpp_probe_free_statement : Prop :=
  ∀ (i : Inst) (as : List Nat) (s : State), i.multi = false → 1 ≤ i.quota →
    i.quota ≤ cnt i.n (allowed0 i) → RunND env i (env.reset i) as s → env.done i s = true →
    ∀ a ∈ as, i.probe a = false

/-- witness: two free cells, cell 0 is the probing port, quota 1: `[0]` is a complete episode -/
def cexUnmasked : Inst := ⟨2, 1, fun _ => true, fun j => j = 0, false⟩

theorem dpp_probe_free_counterexample : ¬ dpp_probe_free_statement := by
  intro h
  have hrun : RunND env cexUnmasked (env.reset cexUnmasked) [0]
      (exec env cexUnmasked (env.reset cexUnmasked) [0]) :=
    RunND.cons (by decide) (by decide) (by decide) (RunND.nil _)
  have := h cexUnmasked [0] _ rfl (by decide) (by decide) hrun (by decide) 0 (by simp)
  exact absurd this (by decide)

/-! #### The constructors -/

/-- **C08 (MDPP), required number**: `MDPPEnv` steps with the quota its generator was configured with,
whatever the default `DPPGenerator` built by the parent constructor says (fixed upstream in 5c8314b;
before that the default's value was used: former finding `mdpp-ctor-quota-C08`). -/
theorem mdpp_ctor_quota (dflt given : Int) : mdppEnvQuota dflt given = given := rfl

/-- `DPPEnv` likewise. -/
theorem dpp_ctor_quota (dflt given : Int) : dppEnvQuota dflt given = given := rfl

example : mdppEnvQuota 20 3 = 3 := by decide

/-- Non-vacuity: a 2×2 grid, cell 3 the probing port (cleared in the instance mask), cell 1 keep-out,
quota 2: `[2, 0]` is a complete episode. -/
def exInst : Inst := ⟨4, 2, fun j => j = 0 || j = 2, fun j => j = 3, false⟩
example : WF exInst := ⟨by decide, by decide, Or.inr (by intro j hj; simp [exInst] at hj ⊢; omega)⟩
example : RunND env exInst (env.reset exInst) [2, 0] (exec env exInst (env.reset exInst) [2, 0]) := by
  refine RunND.cons (by decide) (by decide) (by decide) ?_
  refine RunND.cons (by decide) (by decide) (by decide) ?_
  exact RunND.nil _
example : env.done exInst (exec env exInst (env.reset exInst) [2, 0]) = true := by decide

end Rl4co.Dpp
