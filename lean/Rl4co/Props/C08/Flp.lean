/-
C08 for FLP: a mask-confined episode selects exactly `to_choose` distinct locations and finishes
exactly when the quota is reached; `distances` (shown to the policy) is always the distance to the
nearest facility selected so far.

FINDING (DESIGN §8): the full statement — for every mask-confined run that the batched loop can
produce, i.e. including steps taken after the row's own `done` while a batch-mate with a larger
`to_choose` is still running — is false: the mask of a finished row is `~chosen`, so the row keeps
selecting.  `quota_statement` / `quota_counterexample` / `quota_partial` below.
-/
import Rl4co.Proofs.SelectViews

namespace Rl4co.Flp
open Rl4co.Spec.Flp

/-- well-formed: at least one and at most `n` facilities are to be chosen -/
def WF (i : Inst) : Prop := 1 ≤ i.quota ∧ i.quota ≤ i.n

/-- Full statement: whatever mask-confined run leads to a finished state (the batched loop steps a
row as long as *some* row of the batch is unfinished), exactly the quota was selected. -/
def quota_statement : Prop :=
  ∀ (i : Inst) (as : List Nat) (s : State), WF i → Run env i (env.reset i) as s →
    env.done i s = true → (as.length : Int) = i.quota

/-- witness: two locations, quota 1; a batch-mate with quota 2 keeps the loop running one more step -/
def cexInst : Inst := ⟨2, 1, fun a b => if a = b then 0 else 512, fun _ => 2048⟩

theorem quota_counterexample : ¬ quota_statement := by
  intro h
  have hrun : Run env cexInst (env.reset cexInst) [0, 1] (exec env cexInst (env.reset cexInst) [0, 1]) :=
    (run_iff_admitted env cexInst _ _ [0, 1]).mpr ⟨by decide, rfl⟩
  have := h cexInst [0, 1] _ ⟨by decide, by decide⟩ hrun (by decide)
  exact absurd this (by decide)

/-- **C08 (FLP), quota** — for episodes in which the row is stepped only while it is unfinished (solo
runs and batches whose rows share the quota, see `Rl4co.Flp.no_padding_of_equal_quota` in C04):
exactly `quota` selections, pairwise distinct, all in range. -/
theorem quota_partial (i : Inst) (hwf : WF i) {as : List Nat} {s : State}
    (h : RunND env i (env.reset i) as s) (hd : env.done i s = true) :
    (as.length : Int) = i.quota ∧ as.Nodup ∧ ∀ a ∈ as, a < i.n := by
  obtain ⟨h1, h2, h3⟩ := Sel.quota_of_runND view (i := i) hwf.1 h hd
  exact ⟨h1, h2, fun a ha => (h3 a ha).1⟩

/-- the same in terms of the independent specification -/
theorem feasible_of_run (i : Inst) (hwf : WF i) {as : List Nat} {s : State}
    (h : RunND env i (env.reset i) as s) (hd : env.done i s = true) : Feasible i as :=
  let ⟨h1, h2, h3⟩ := quota_partial i hwf h hd
  ⟨h1, h2, h3⟩

/-- **C08 (FLP), finish exactly at the quota**: along *any* mask-confined run (padding included) the
row is done iff at least `quota` selections were made; in particular it is not done before. -/
theorem done_iff_quota (i : Inst) (hwf : WF i) {as : List Nat} {s : State}
    (h : Run env i (env.reset i) as s) : env.done i s = true ↔ i.quota ≤ as.length :=
  Sel.done_iff view (i := i) hwf.1 h

/-- `chosen` is exactly the set of the selections so far, and the mask its complement -/
theorem chosen_eq_history (i : Inst) {as : List Nat} {s : State} (h : Run env i (env.reset i) as s)
    (j : Nat) : s.chosen j = decide (j ∈ as) ∧ env.mask i s j = !decide (j ∈ as) := by
  refine ⟨chosen_eq h j, ?_⟩
  show (!s.chosen j) = _
  rw [chosen_eq h j]

/-- **C08 (FLP), bookkeeping**: after any non-empty mask-confined run (padding included),
`distances[j]` is the distance of `j` from the nearest of the facilities selected so far, as
recomputed from the instance and the action list alone. -/
theorem distances_eq (i : Inst) {as : List Nat} {s : State} (h : Run env i (env.reset i) as s)
    (hne : as ≠ []) (j : Nat) : s.dist j = nearest i as j := by
  rcases dist_eq_curMin h with ⟨h0, _⟩ | ⟨_, hd⟩
  · exact absurd h0 hne
  · rw [hd]; exact curMin_eq_nearest h hne j

/-- before the first selection the feature is the value handed to `reset` -/
theorem distances_reset (i : Inst) : (env.reset i).dist = i.d0 := rfl

/-- Non-vacuity: a 3-location instance with quota 2; `[2, 0]` is a complete episode, the bookkeeping
after it is `[0, 1, 0]`. -/
example : WF ⟨3, 2, fun a b => ((a : Int) - b) * ((a : Int) - b), fun _ => 9⟩ := ⟨by decide, by decide⟩
example : RunND env ⟨3, 2, fun a b => ((a : Int) - b) * ((a : Int) - b), fun _ => 9⟩
    (env.reset ⟨3, 2, fun a b => ((a : Int) - b) * ((a : Int) - b), fun _ => 9⟩) [2, 0]
    (exec env ⟨3, 2, fun a b => ((a : Int) - b) * ((a : Int) - b), fun _ => 9⟩
      (env.reset ⟨3, 2, fun a b => ((a : Int) - b) * ((a : Int) - b), fun _ => 9⟩) [2, 0]) := by
  refine RunND.cons (by decide) (by decide) (by decide) ?_
  refine RunND.cons (by decide) (by decide) (by decide) ?_
  exact RunND.nil _
example : (List.range 3).map (exec env ⟨3, 2, fun a b => ((a : Int) - b) * ((a : Int) - b), fun _ => 9⟩
    (env.reset ⟨3, 2, fun a b => ((a : Int) - b) * ((a : Int) - b), fun _ => 9⟩) [2, 0]).dist = [0, 1, 0] := by
  decide

end Rl4co.Flp
