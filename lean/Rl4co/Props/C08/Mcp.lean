/-
C08 for MCP: a mask-confined episode selects exactly `n_sets_to_choose` distinct sets and finishes
exactly when the quota is reached; `weights` (shown to the policy) is always the weight of the items
not yet covered by the sets selected so far (0 for covered ones), with 1-based item ids and
0-padding in the membership table; `membership` has exactly the rows of the selected sets zeroed.

FINDING (DESIGN §8): as for FLP the statement over *all* runs the batched loop can produce is false
when rows of one batch have different quotas.  `quota_statement` / `quota_counterexample` /
`quota_partial`.
-/
import Rl4co.Proofs.SelectViews

namespace Rl4co.Mcp
open Rl4co.Spec.Mcp

def WF (i : Inst) : Prop := 1 ≤ i.quota ∧ i.quota ≤ i.nSets

def quota_statement : Prop :=
  ∀ (i : Inst) (as : List Nat) (s : State), WF i → Run env i (env.reset i) as s →
    env.done i s = true → (as.length : Int) = i.quota

/-- witness: sets `{1}`, `{2}`, weights `1, 2`, quota 1, stepped twice (batch-mate with quota 2) -/
def cexInst : Inst := ⟨2, 2, 1, 1, fun j _ => j + 1, fun x => x + 1⟩

theorem quota_counterexample : ¬ quota_statement := by
  intro h
  have hrun : Run env cexInst (env.reset cexInst) [0, 1] (exec env cexInst (env.reset cexInst) [0, 1]) :=
    (run_iff_admitted env cexInst _ _ [0, 1]).mpr ⟨by decide, rfl⟩
  have := h cexInst [0, 1] _ ⟨by decide, by decide⟩ hrun (by decide)
  exact absurd this (by decide)

/-- **C08 (MCP), quota** for episodes stepped only while unfinished. -/
theorem quota_partial (i : Inst) (hwf : WF i) {as : List Nat} {s : State}
    (h : RunND env i (env.reset i) as s) (hd : env.done i s = true) :
    (as.length : Int) = i.quota ∧ as.Nodup ∧ ∀ a ∈ as, a < i.nSets := by
  obtain ⟨h1, h2, h3⟩ := Sel.quota_of_runND view (i := i) hwf.1 h hd
  exact ⟨h1, h2, fun a ha => (h3 a ha).1⟩

theorem feasible_of_run (i : Inst) (hwf : WF i) {as : List Nat} {s : State}
    (h : RunND env i (env.reset i) as s) (hd : env.done i s = true) : Feasible i as :=
  let ⟨h1, h2, h3⟩ := quota_partial i hwf h hd
  ⟨h1, h2, h3⟩

/-- **C08 (MCP), finish exactly at the quota** (any mask-confined run). -/
theorem done_iff_quota (i : Inst) (hwf : WF i) {as : List Nat} {s : State}
    (h : Run env i (env.reset i) as s) : env.done i s = true ↔ i.quota ≤ as.length :=
  Sel.done_iff view (i := i) hwf.1 h

theorem chosen_eq_history (i : Inst) {as : List Nat} {s : State} (h : Run env i (env.reset i) as s)
    (j : Nat) : s.chosen j = decide (j ∈ as) ∧ env.mask i s j = !decide (j ∈ as) := by
  refine ⟨chosen_eq h j, ?_⟩
  show (!s.chosen j) = _
  rw [chosen_eq h j]

/-- **C08 (MCP), bookkeeping**: after any mask-confined run, `weights[x]` is `0` if item `x` belongs
to one of the selected sets and its original weight otherwise. -/
theorem weights_eq (i : Inst) {as : List Nat} {s : State} (h : Run env i (env.reset i) as s)
    (x : Nat) : s.weights x = if covered i as x then 0 else i.w x :=
  (inv2_of_run h).wts x

/-- … and `membership[j]` is the original row for an unselected set and all-zero for a selected one. -/
theorem membership_eq (i : Inst) {as : List Nat} {s : State} (h : Run env i (env.reset i) as s)
    (j k : Nat) : s.mem j k = remaining i as j k := by
  unfold remaining
  rw [(inv2_of_run h).mem j k, chosen_eq h j]
  by_cases hj : j ∈ as <;> simp [hj]

/-- Non-vacuity: sets `{1,2}`, `{3}`, `{2,4}` (0-padded), weights `5,6,7,8`, quota 2; after `[0, 2]`
the uncovered weights are `[0, 0, 7, 0]`. -/
def exInst : Inst := ⟨3, 4, 2, 2, fun j k => ([[1, 2], [3, 0], [2, 4]].getD j []).getD k 0, fun x => x + 5⟩
example : WF exInst := ⟨by decide, by decide⟩
example : RunND env exInst (env.reset exInst) [0, 2] (exec env exInst (env.reset exInst) [0, 2]) := by
  refine RunND.cons (by decide) (by decide) (by decide) ?_
  refine RunND.cons (by decide) (by decide) (by decide) ?_
  exact RunND.nil _
example : (List.range 4).map (exec env exInst (env.reset exInst) [0, 2]).weights = [0, 0, 7, 0] := by decide

end Rl4co.Mcp
