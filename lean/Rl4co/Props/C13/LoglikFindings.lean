/-
C13 — (1) `beams_mask_confined`: the beam-search half of "every returned beam is a feasible solution";
(2) the two places where C13, as worded, fails on the unchanged code, in the form DESIGN §4.3 asks for
(`…_statement`, `…_counterexample`, `…_partial`):
  * forced start nodes are not constrained by beam search itself: the start rule must return feasible
    nodes (`beams_mask_confined_full` under `hstart`).  OP's rule did not (finding
    `C13-op-beam-infeasible-start`, FIXED upstream in d560d2a; C12 `op_starts_feasible` discharges `hstart`);
  * slot-conditioned policies (PolyNet): beam re-indexing moves partial solutions between strategy slots:
    known finding `C13-polynet-beam-slot-conditioned`.
-/
import Rl4co.Props.C13.Loglik

namespace Rl4co.Decode
open Rl4co.Spec.Loglik

variable {S : Type}


/-- a returned sequence, its forced first move excepted, is a mask-confined run -/
def admittedForced (e : DEnv S) (s0 : S) : List Nat → Bool
  | [] => true
  | a0 :: rest => admittedD e (e.step s0 a0) rest

theorem admittedD_snoc (e : DEnv S) (s : S) (as : List Nat) (a : Nat) :
    admittedD e s (as ++ [a]) = (admittedD e s as && e.mask (execD e s as) a) := by
  induction as generalizing s with
  | nil => simp [admittedD, execD]
  | cons b bs ih => simp [admittedD, execD_cons, ih, Bool.and_assoc]

theorem admittedForced_snoc (e : DEnv S) (s0 : S) (as : List Nat) (a : Nat) (h : as ≠ []) :
    admittedForced e s0 (as ++ [a]) = (admittedForced e s0 as && e.mask (execD e s0 as) a) := by
  cases as with
  | nil => exact absurd rfl h
  | cons a0 rest => simp [admittedForced, admittedD_snoc, execD_cons]

/-- reachable states of a beam search in which, at every step, every parent beam of every instance
has an expansion of finite value (C02 `mask_nonempty` + C10: a feasible action has finite log-prob) -/
inductive BeamReachF (e : DEnv S) (π : S → Row) (c : BeamCfg) (plus : Int → Int → Int)
    (start : Nat → Nat) (s0 : Nat → S) : BeamSt S → Prop
  | pre : BeamReachF e π c plus start s0 (beamPre e c start s0)
  | step {st : BeamSt S} (top : Nat → List Nat) :
      BeamReachF e π c plus start s0 st →
      (∀ b, b < c.B → ValidTop c (hstacked c plus (fun i => π (st.s i)) st.score b) (top b)) →
      (∀ b, b < c.B → ∀ w, w < c.W → ∃ j, j < c.N ∧ expVal c plus π st b w j ≠ none) →
      BeamReachF e π c plus start s0 (beamStep e c plus (fun i => π (st.s i)) top st)

theorem BeamReachF.reach {e : DEnv S} {π : S → Row} {c : BeamCfg} {plus : Int → Int → Int}
    {start : Nat → Nat} {s0 : Nat → S} {st : BeamSt S} (h : BeamReachF e π c plus start s0 st) :
    BeamReach e π c plus start s0 st := by
  induction h with
  | pre => exact BeamReach.pre
  | step top _ hv _ ih => exact BeamReach.step top ih hv

/-- **C13 `beams_mask_confined`** (the beam-search half of `beams_feasible`; C01 turns a mask-confined
finished run into a feasible solution).  If the policy gives `-inf` to masked actions, then in every
state reached through steps in which every parent has a finite-valued expansion, every beam —
its forced first move excepted — is a mask-confined run from its instance's reset state. -/
theorem beams_mask_confined (e : DEnv S) (π : S → Row) (c : BeamCfg) (plus : Int → Int → Int)
    (start : Nat → Nat) (s0 : Nat → S)
    (hπ : ∀ s j, gather (π s) j ≠ none → e.mask s j = true)
    {st : BeamSt S} (h : BeamReachF e π c plus start s0 st) :
    ∀ b, b < c.B → ∀ k, k < c.W →
      admittedForced e (s0 b) (btActs c.B st.bufs (k * c.B + b)) = true := by
  induction h with
  | pre =>
    intro b hb k hk
    simp [beamPre, btActs, btFromActs, admittedForced, admittedD]
  | @step st top hreach hvalid hfin ih =>
    intro b hb k hk
    have hinv := beamInv_of_reach e π c plus start s0 hreach.reach
    have hv := hvalid b hb
    -- a witness function for `kept_feasible`
    let a : Nat → Nat := fun w =>
      if hw : w < c.W then Classical.choose (hfin b hb w hw) else 0
    have ha : ∀ w, w < c.W → a w < c.N ∧ expVal c plus π st b w (a w) ≠ none := by
      intro w hw
      simp only [a, hw, dif_pos]
      exact Classical.choose_spec (hfin b hb w hw)
    have hkf := kept_feasible π c plus st top b hv a ha k hk
    have hkt := ((kept_are_top e π c plus st top b hb hv).1 k hk)
    have hadm := kept_admitted e π c plus st b _ _ hπ hkf
    cases hbufs : st.bufs with
    | nil => exact absurd hbufs hinv.nonempty
    | cons buf' rest =>
      simp only [beamStep, hbufs]
      rw [btActs_cons, ← hbufs]
      simp only [stepBuf, parentOf_eq, selectedOf_eq, topInd_flat c top hb, flat_mod hb]
      have hrow : b + (top b).getD k 0 / c.N * c.B = (kept c top b k).1 * c.B + b := by
        simp [kept, Nat.add_comm]
      rw [hrow, admittedForced_snoc _ _ _ _ (btActs_ne_nil _ _ hinv.nonempty _), ih b hb _ hkt.1]
      have hst := hinv.state ((kept c top b k).1 * c.B + b)
      rw [flat_mod hb] at hst
      rw [← hst]
      simpa [kept] using hadm

/-! ### forced first move included (interface hypothesis on the start rule) -/

theorem admittedD_of_forced (e : DEnv S) (s0 : S) (as : List Nat)
    (h1 : admittedForced e s0 as = true) (h2 : ∀ a, as.head? = some a → e.mask s0 a = true) :
    admittedD e s0 as = true := by
  cases as with
  | nil => simp [admittedD]
  | cons a0 rest =>
    simp only [admittedForced] at h1
    simp [admittedD, h1, h2 a0 rfl]

/-- the first action of every beam of instance `b` is one of that instance's forced start nodes -/
theorem beam_head_is_start (e : DEnv S) (π : S → Row) (c : BeamCfg) (plus : Int → Int → Int)
    (start : Nat → Nat) (s0 : Nat → S) {st : BeamSt S} (h : BeamReach e π c plus start s0 st) :
    ∀ b, b < c.B → ∀ k, k < c.W → ∃ k', k' < c.W ∧
      (btActs c.B st.bufs (k * c.B + b)).head? = some (start (k' * c.B + b)) := by
  induction h with
  | pre =>
    intro b hb k hk
    exact ⟨k, hk, by simp [beamPre, btActs, btFromActs]⟩
  | @step st top hreach hvalid ih =>
    intro b hb k hk
    have hinv := beamInv_of_reach e π c plus start s0 hreach
    obtain ⟨hlen, _, hlt, _⟩ := validTop_closed (hvalid b hb)
    have hp := hlt _ (getD_mem (l := top b) (k := k) (by omega))
    obtain ⟨k', hk', hh⟩ := ih b hb _ (div_lt_of_lt_mul hp)
    refine ⟨k', hk', ?_⟩
    cases hbufs : st.bufs with
    | nil => exact absurd hbufs hinv.nonempty
    | cons buf' rest =>
      simp only [beamStep, hbufs]
      rw [btActs_cons, ← hbufs]
      simp only [stepBuf, parentOf_eq, topInd_flat c top hb, flat_mod hb]
      rw [Nat.add_comm b]
      have hne := btActs_ne_nil c.B st.bufs hinv.nonempty ((top b).getD k 0 / c.N * c.B + b)
      cases hx : btActs c.B st.bufs ((top b).getD k 0 / c.N * c.B + b) with
      | nil => exact absurd hx hne
      | cons x xs => rw [hx] at hh; simpa using hh

/-- **C13 `beams_mask_confined_full`** (after upstream fix d560d2a).  Under the interface hypothesis
that the start rule returns, for every instance, nodes its reset mask admits (`hstart`; for OP this is
C12's `op_starts_feasible`, for the other environments C12's `starts_feasible`), every beam —
*including* its forced first move — is a mask-confined run from its instance's reset state, so C01
makes every finished beam a feasible solution. -/
theorem beams_mask_confined_full (e : DEnv S) (π : S → Row) (c : BeamCfg) (plus : Int → Int → Int)
    (start : Nat → Nat) (s0 : Nat → S)
    (hπ : ∀ s j, gather (π s) j ≠ none → e.mask s j = true)
    (hstart : ∀ b, b < c.B → ∀ k, k < c.W → e.mask (s0 b) (start (k * c.B + b)) = true)
    {st : BeamSt S} (h : BeamReachF e π c plus start s0 st) :
    ∀ b, b < c.B → ∀ k, k < c.W →
      admittedD e (s0 b) (btActs c.B st.bufs (k * c.B + b)) = true := by
  intro b hb k hk
  apply admittedD_of_forced
  · exact beams_mask_confined e π c plus start s0 hπ h b hb k hk
  · intro a ha
    obtain ⟨k', hk', hh⟩ := beam_head_is_start e π c plus start s0 h.reach b hb k hk
    rw [hh] at ha
    cases ha
    exact hstart b hb k' hk'

/-! ### places where the property, as worded, fails without further hypotheses (DESIGN §4.3) -/

/-- **`beams_feasible`, forced move included, with NO hypothesis on the start rule**: every beam is a
mask-confined run from reset. -/
def beams_mask_confined_statement : Prop :=
  ∀ (S : Type) (e : DEnv S) (π : S → Row) (c : BeamCfg) (plus : Int → Int → Int) (start : Nat → Nat)
    (s0 : Nat → S), (∀ s j, gather (π s) j ≠ none → e.mask s j = true) →
    ∀ st, BeamReachF e π c plus start s0 st → ∀ b, b < c.B → ∀ k, k < c.W →
      admittedD e (s0 b) (btActs c.B st.bufs (k * c.B + b)) = true

/-- It is false: nothing *in beam search* makes the forced start nodes respect the mask — that is the
start rule's obligation (`hstart` of `beams_mask_confined_full`).  OP's `select_start_nodes` violated
it before upstream fix d560d2a (it returned `1..W` even when one of them was masked at reset); since
the fix it is discharged by C12's `op_starts_feasible`. -/
theorem beams_mask_confined_counterexample : ¬ beams_mask_confined_statement := by
  intro h
  -- one instance, one beam, two actions; action 0 is masked, the start-node rule forces it
  let e : DEnv Nat := { step := fun s _ => s + 1, done := fun _ => true, mask := fun _ a => decide (a = 1) }
  have := h Nat e (fun _ => [none, some 0]) { B := 1, W := 1, N := 2 } (· + ·) (fun _ => 0) (fun _ => 0)
    (by intro s j hj
        have : j = 1 := by
          match j with
          | 0 => simp [gather] at hj
          | 1 => rfl
          | j + 2 => simp [gather] at hj
        subst this; rfl)
    _ BeamReachF.pre 0 (by decide) 0 (by decide)
  revert this
  decide



/-- beam search with a decoder whose distribution also depends on the *slot* `i / B` a row occupies
among the `W` copies of its instance (PolyNet's strategy vectors) -/
inductive BeamReachSlot (e : DEnv S) (π : Nat → S → Row) (c : BeamCfg) (plus : Int → Int → Int)
    (start : Nat → Nat) (s0 : Nat → S) : BeamSt S → Prop
  | pre : BeamReachSlot e π c plus start s0 (beamPre e c start s0)
  | step {st : BeamSt S} (top : Nat → List Nat) :
      BeamReachSlot e π c plus start s0 st →
      (∀ b, b < c.B →
        ValidTop c (hstacked c plus (fun i => π (i / c.B) (st.s i)) st.score b) (top b)) →
      BeamReachSlot e π c plus start s0
        (beamStep e c plus (fun i => π (i / c.B) (st.s i)) top st)

/-- `logp_is_policy` for slot-conditioned policies: the returned rows of a beam are those of *some*
strategy along its sequence. -/
def logp_is_policy_slot_statement : Prop :=
  ∀ (S : Type) (e : DEnv S) (π : Nat → S → Row) (c : BeamCfg) (plus : Int → Int → Int)
    (start : Nat → Nat) (s0 : Nat → S) (st : BeamSt S), BeamReachSlot e π c plus start s0 st →
    ∀ i, i < c.B * c.W → ∃ k, k < c.W ∧
      btRows c.B st.bufs i = specRows e (π k) c.N (s0 (i % c.B)) true (btActs c.B st.bufs i)

namespace SlotWitness
def e : DEnv Nat := { step := fun s _ => s + 1, done := fun s => decide (3 ≤ s), mask := fun _ _ => true }
def π : Nat → Nat → Row := fun k _ => if k = 0 then [some (-2), some (-6)] else [some (-1), some (-5)]
def c : BeamCfg := { B := 1, W := 2, N := 2 }
def st0 : BeamSt Nat := beamPre e c (fun i => i) (fun _ => 0)
def st1 : BeamSt Nat := beamStep e c (· + ·) (fun i => π (i / c.B) (st0.s i)) (fun _ => [2, 0]) st0
def st2 : BeamSt Nat := beamStep e c (· + ·) (fun i => π (i / c.B) (st1.s i)) (fun _ => [0, 2]) st1

theorem reach2 : BeamReachSlot e π c (· + ·) (fun i => i) (fun _ => 0) st2 := by
  refine BeamReachSlot.step _ (BeamReachSlot.step _ BeamReachSlot.pre ?_) ?_
  · intro b hb
    have : b = 0 := by simp [c] at hb; omega
    subst this
    exact validTop_sound _ _ _ (by decide)
  · intro b hb
    have : b = 0 := by simp [c] at hb; omega
    subst this
    exact validTop_sound _ _ _ (by decide)
end SlotWitness

/-- It is false: the beam in slot 0 after two steps descends from slot 1, so its step-1 row is
strategy 1's and its step-2 row is strategy 0's. -/
theorem logp_is_policy_slot_counterexample : ¬ logp_is_policy_slot_statement := by
  intro h
  obtain ⟨k, hk, hrows⟩ := h Nat SlotWitness.e SlotWitness.π SlotWitness.c (· + ·) (fun i => i) (fun _ => 0)
    SlotWitness.st2 SlotWitness.reach2 0 (by decide)
  have : k = 0 ∨ k = 1 := by simp [SlotWitness.c] at hk; omega
  rcases this with h | h <;> subst h <;> revert hrows <;> decide

/-- partial: when the distribution does not depend on the slot, this is `logp_is_policy` -/
theorem logp_is_policy_slot_partial (e : DEnv S) (π : S → Row) (c : BeamCfg) (plus : Int → Int → Int)
    (start : Nat → Nat) (s0 : Nat → S) {st : BeamSt S}
    (h : BeamReachSlot e (fun _ => π) c plus start s0 st) (i : Nat) :
    btRows c.B st.bufs i = specRows e π c.N (s0 (i % c.B)) true (btActs c.B st.bufs i) := by
  have hr : BeamReach e π c plus start s0 st := by
    induction h with
    | pre => exact BeamReach.pre
    | step top _ hv ih => exact BeamReach.step top ih hv
  exact (logp_is_policy e π c plus start s0 hr i).1


end Rl4co.Decode
