/-
C13 — beam search (`rl4co/utils/decoding.py:BeamSearch`): back-tracking through the beam parents is
consistent, returned log-probs are the policy's along the returned sequence, beams of an instance are
pairwise distinct, the kept expansions are a top-W set (hence feasible), best-selection returns the
maximum.  Model: `Rl4co/Decode/Beam.lean`; spec: `Rl4co/Spec/Loglik.lean`.  Everything is stated for
all batch sizes `B`, widths `W`, action-space sizes `N`, numbers of steps, policies `π` (uninterpreted
function of the row's decoding state), additions `plus` (float32 addition in the driver) and every
outcome of `torch.topk` / `max` that is valid (`ValidTop`, `ValidArgmax`) — tie-breaking is not assumed.
Feasibility of complete beams is C01's: every kept action is mask-admitted (`kept_feasible`,
`kept_admitted`), so a beam is a mask-confined run of its environment.
-/
import Rl4co.Proofs.LoglikBeam

namespace Rl4co.Decode
open Rl4co.Spec.Loglik

variable {S : Type}


/-- **C13 `backtrack_consistent`.**  In every reachable beam-search state (any policy, any number of
steps, any valid or invalid tie-breaking of `topk`), the action sequence `_backtrack` reconstructs for
final row `i` through the beam parents is exactly the sequence by which the environment state of row
`i` was produced from the reset state of its instance `i % B`. -/
theorem backtrack_consistent (e : DEnv S) (π : S → Row) (c : BeamCfg) (plus : Int → Int → Int)
    (start : Nat → Nat) (s0 : Nat → S) {st : BeamSt S} (h : BeamReach e π c plus start s0 st)
    (i : Nat) :
    st.s i = execD e (s0 (i % c.B)) (btActs c.B st.bufs i) ∧ btActs c.B st.bufs i ≠ [] := by
  have hi := beamInv_of_reach e π c plus start s0 h
  exact ⟨hi.state i, btActs_ne_nil _ _ hi.nonempty i⟩

/-- **C13 `logp_is_policy`.**  The `[T, N]` log-prob rows returned for row `i` are what the policy
assigns along that very sequence (the forced first move being the all-zero row), hence so are the
gathered per-step log-probabilities; and the row's accumulated beam score is their running sum. -/
theorem logp_is_policy (e : DEnv S) (π : S → Row) (c : BeamCfg) (plus : Int → Int → Int)
    (start : Nat → Nat) (s0 : Nat → S) {st : BeamSt S} (h : BeamReach e π c plus start s0 st)
    (i : Nat) :
    btRows c.B st.bufs i = specRows e π c.N (s0 (i % c.B)) true (btActs c.B st.bufs i) ∧
      st.score i = accScore plus (specVals e π (s0 (i % c.B)) true (btActs c.B st.bufs i)) := by
  have hi := beamInv_of_reach e π c plus start s0 h
  exact ⟨hi.rows i, hi.score i⟩

/-- value of the expansion "parent beam `w` of instance `b`, action `j`" -/
def expVal (c : BeamCfg) (plus : Int → Int → Int) (π : S → Row) (st : BeamSt S) (b w j : Nat) : LP :=
  lpAdd plus (gather (π (st.s (w * c.B + b))) j) (st.score (w * c.B + b))

/-- the expansion kept at rank `k` for instance `b`: (parent beam, action) -/
def kept (c : BeamCfg) (top : Nat → List Nat) (b k : Nat) : Nat × Nat :=
  ((top b).getD k 0 / c.N, (top b).getD k 0 % c.N)

/-- **C13 `kept_are_top`.**  One step of beam search, from any state, with any valid outcome of
`topk`: for every instance `b` the `W` new rows `k·B + b` are `W` pairwise distinct expansions
`(parent w, action j)` with `w < W`, `j < N`; the new row's environment state is its parent's state
stepped with that action, its score is the expansion's value; and no expansion that was *not* kept has
a value above any kept one. -/
theorem kept_are_top (e : DEnv S) (π : S → Row) (c : BeamCfg) (plus : Int → Int → Int)
    (st : BeamSt S) (top : Nat → List Nat) (b : Nat) (hb : b < c.B)
    (hv : ValidTop c (hstacked c plus (fun i => π (st.s i)) st.score b) (top b)) :
    let st' := beamStep e c plus (fun i => π (st.s i)) top st
    (∀ k, k < c.W →
        (kept c top b k).1 < c.W ∧ (kept c top b k).2 < c.N ∧
        st'.s (k * c.B + b) = e.step (st.s ((kept c top b k).1 * c.B + b)) (kept c top b k).2 ∧
        st'.score (k * c.B + b) = expVal c plus π st b (kept c top b k).1 (kept c top b k).2) ∧
    (∀ k k', k < c.W → k' < c.W → kept c top b k = kept c top b k' → k = k') ∧
    (∀ w j, w < c.W → j < c.N → (∀ k, k < c.W → kept c top b k ≠ (w, j)) →
        ∀ k, k < c.W →
          lpLe (expVal c plus π st b w j)
            (expVal c plus π st b (kept c top b k).1 (kept c top b k).2) = true) := by
  intro st'
  obtain ⟨hlen, hnd, hlt, hopt⟩ := validTop_closed hv
  have hmem : ∀ k, k < c.W → (top b).getD k 0 ∈ top b := fun k hk => getD_mem (by omega)
  have hval : ∀ p, hstacked c plus (fun i => π (st.s i)) st.score b p
      = expVal c plus π st b (p / c.N) (p % c.N) := by
    intro p; rfl
  refine ⟨fun k hk => ?_, fun k k' hk hk' heq => ?_, fun w j hw hj hnk k hk => ?_⟩
  · have hp := hlt _ (hmem k hk)
    refine ⟨div_lt_of_lt_mul hp, mod_lt_of_lt_mul hp, ?_, ?_⟩
    · simp only [st', beamStep, kept, bbiOf_eq, selectedOf_eq, parentOf_eq, topInd_flat c top hb, flat_mod hb]
      rw [Nat.add_comm]
    · simp only [st', beamStep, kept, topInd_flat c top hb, flat_mod hb]
      rfl
  · simp only [kept, Prod.mk.injEq] at heq
    have hpe : (top b).getD k 0 = (top b).getD k' 0 := by
      rw [← Nat.div_add_mod ((top b).getD k 0) c.N, ← Nat.div_add_mod ((top b).getD k' 0) c.N,
        heq.1, heq.2]
    exact nodup_getD_inj hnd (by omega) (by omega) hpe
  · -- the column of the non-kept expansion
    have hN : 0 < c.N := by omega
    have hq : w * c.N + j < c.W * c.N := by
      calc w * c.N + j < w * c.N + c.N := by omega
        _ = (w + 1) * c.N := by rw [Nat.add_mul]; simp
        _ ≤ c.W * c.N := Nat.mul_le_mul_right _ hw
    have hqd : (w * c.N + j) / c.N = w := by
      rw [Nat.add_comm, Nat.add_mul_div_right _ _ hN, Nat.div_eq_of_lt hj]; simp
    have hqm : (w * c.N + j) % c.N = j := by
      rw [Nat.add_comm, Nat.add_mul_mod_self_right, Nat.mod_eq_of_lt hj]
    have hnot : w * c.N + j ∉ top b := by
      intro hin
      obtain ⟨k0, hk0, hk0e⟩ := mem_getD hin
      apply hnk k0 (by omega)
      simp only [kept, hk0e, hqd, hqm]
    have := hopt _ hq hnot _ (hmem k hk)
    rw [hval, hval, hqd, hqm] at this
    exact this

/-- **C13 `kept_feasible`.**  If every parent beam of instance `b` has at least one expansion of
finite value (a feasible action: C02 `mask_nonempty`, C10 `masked_zero`), every kept expansion has
finite value — `topk` never picks a `-inf` (infeasible) column, so the `infeasible action selected`
assertion of `BeamSearch._step` cannot fire. -/
theorem kept_feasible (π : S → Row) (c : BeamCfg) (plus : Int → Int → Int)
    (st : BeamSt S) (top : Nat → List Nat) (b : Nat)
    (hv : ValidTop c (hstacked c plus (fun i => π (st.s i)) st.score b) (top b))
    (a : Nat → Nat) (ha : ∀ w, w < c.W → a w < c.N ∧ expVal c plus π st b w (a w) ≠ none)
    (k : Nat) (hk : k < c.W) :
    expVal c plus π st b (kept c top b k).1 (kept c top b k).2 ≠ none := by
  obtain ⟨hlen, hnd, hlt, hopt⟩ := validTop_closed hv
  intro hnone
  have hN : 0 < c.N := by
    have := (ha k hk).1; omega
  have hval : ∀ p, hstacked c plus (fun i => π (st.s i)) st.score b p
      = expVal c plus π st b (p / c.N) (p % c.N) := by
    intro p; rfl
  have hpk : (top b).getD k 0 ∈ top b := getD_mem (by omega)
  -- the columns of the witnesses: W distinct finite-valued columns
  let cols := (List.range c.W).map (fun w => w * c.N + a w)
  have hqd : ∀ w, w < c.W → (w * c.N + a w) / c.N = w := by
    intro w hw
    rw [Nat.add_comm, Nat.add_mul_div_right _ _ hN, Nat.div_eq_of_lt (ha w hw).1]; simp
  have hqm : ∀ w, w < c.W → (w * c.N + a w) % c.N = a w := by
    intro w hw
    rw [Nat.add_comm, Nat.add_mul_mod_self_right, Nat.mod_eq_of_lt (ha w hw).1]
  have hcols_nd : cols.Nodup := by
    simp only [cols, List.Nodup, List.pairwise_map]
    refine List.Pairwise.imp_of_mem ?_ (List.nodup_range (n := c.W))
    intro w w' hw hw' hne heq
    have h1 := hqd w (List.mem_range.mp hw)
    have h2 := hqd w' (List.mem_range.mp hw')
    rw [heq] at h1
    omega
  have hsub : ∀ q ∈ cols, q ∈ (top b).erase ((top b).getD k 0) := by
    intro q hq
    obtain ⟨w, hw, hwe⟩ := List.mem_map.mp hq
    have hw' := List.mem_range.mp hw
    subst hwe
    have hfin : hstacked c plus (fun i => π (st.s i)) st.score b (w * c.N + a w) ≠ none := by
      rw [hval, hqd w hw', hqm w hw']; exact (ha w hw').2
    have hqlt : w * c.N + a w < c.W * c.N := by
      calc w * c.N + a w < w * c.N + c.N := by have := (ha w hw').1; omega
        _ = (w + 1) * c.N := by rw [Nat.add_mul]; simp
        _ ≤ c.W * c.N := Nat.mul_le_mul_right _ hw'
    have hin : w * c.N + a w ∈ top b := by
      apply Classical.byContradiction
      intro hnot
      have := hopt _ hqlt hnot _ hpk
      rw [hval ((top b).getD k 0)] at this
      simp only [kept] at hnone
      rw [hnone] at this
      cases hx : hstacked c plus (fun i => π (st.s i)) st.score b (w * c.N + a w) with
      | none => exact hfin hx
      | some v => rw [hx] at this; simp [lpLe] at this
    have hne : w * c.N + a w ≠ (top b).getD k 0 := by
      intro heq
      apply hfin
      rw [heq, hval]
      simpa [kept] using hnone
    exact (List.mem_erase_of_ne hne).mpr hin
  have h1 := nodup_subset_length cols _ hcols_nd hsub
  rw [List.length_erase_of_mem hpk] at h1
  simp [cols, hlen] at h1
  omega

/-- a kept expansion of finite value is admitted by the mask of its parent's state, provided the
policy gives `-inf` to masked actions (C10 `masked_zero`) -/
theorem kept_admitted (e : DEnv S) (π : S → Row) (c : BeamCfg) (plus : Int → Int → Int)
    (st : BeamSt S) (b w j : Nat)
    (hπ : ∀ s j, gather (π s) j ≠ none → e.mask s j = true)
    (h : expVal c plus π st b w j ≠ none) : e.mask (st.s (w * c.B + b)) j = true := by
  apply hπ
  intro hg
  apply h
  simp [expVal, hg, lpAdd]

/-- **C13 `beams_distinct`.**  If the forced first moves of every instance are pairwise distinct, then
in every reachable state the sequences of the `W` beams of an instance are pairwise distinct. -/
theorem beams_distinct (e : DEnv S) (π : S → Row) (c : BeamCfg) (plus : Int → Int → Int)
    (start : Nat → Nat) (s0 : Nat → S)
    (hstart : ∀ b, b < c.B → ∀ w w', w < c.W → w' < c.W →
      start (w * c.B + b) = start (w' * c.B + b) → w = w')
    {st : BeamSt S} (h : BeamReach e π c plus start s0 st) :
    ∀ b, b < c.B → ∀ w w', w < c.W → w' < c.W →
      btActs c.B st.bufs (w * c.B + b) = btActs c.B st.bufs (w' * c.B + b) → w = w' := by
  induction h with
  | pre =>
    intro b hb w w' hw hw' heq
    simp [beamPre, btActs, btFromActs] at heq
    exact hstart b hb w w' hw hw' heq
  | @step st top hreach hvalid ih =>
    intro b hb k k' hk hk' heq
    have hinv := beamInv_of_reach e π c plus start s0 hreach
    obtain ⟨hlen, hnd, hlt, _⟩ := validTop_closed (hvalid b hb)
    cases hbufs : st.bufs with
    | nil => exact absurd hbufs hinv.nonempty
    | cons buf' rest =>
      simp only [beamStep, hbufs] at heq
      rw [btActs_cons, btActs_cons] at heq
      have hsplit := List.append_inj' heq rfl
      simp only [stepBuf, parentOf_eq, selectedOf_eq, topInd_flat c top hb, flat_mod hb,
        List.cons.injEq, and_true] at hsplit
      obtain ⟨hpre, hact⟩ := hsplit
      rw [← hbufs, Nat.add_comm b, Nat.add_comm b] at hpre
      have hp := hlt _ (getD_mem (l := top b) (k := k) (by omega))
      have hp' := hlt _ (getD_mem (l := top b) (k := k') (by omega))
      have hw := ih b hb _ _ (div_lt_of_lt_mul hp) (div_lt_of_lt_mul hp') hpre
      have hpe : (top b).getD k 0 = (top b).getD k' 0 := by
        rw [← Nat.div_add_mod ((top b).getD k 0) c.N, ← Nat.div_add_mod ((top b).getD k' 0) c.N,
          hw, hact]
      exact nodup_getD_inj hnd (by omega) (by omega) hpe

/-- **C13 `best_is_max`.**  `_select_best_beam`: for every valid outcome `arg` of `max(1)`, the row
returned for instance `b` is one of that instance's beams (`arg b · B + b`, `arg b < W`) and its
reward is the maximum of the rewards of the instance's `W` beams (`Spec.bestReward`). -/
theorem best_is_max (c : BeamCfg) (rew : Nat → Int) (arg : Nat → Nat)
    (h : ValidArgmax c.B c.W rew arg) (b : Nat) (hb : b < c.B) :
    selectBestRow c.B arg b % c.B = b ∧ arg b < c.W ∧
      bestReward c.B rew b c.W = some (rew (selectBestRow c.B arg b)) ∧
      ∀ w, w < c.W → rew (w * c.B + b) ≤ rew (selectBestRow c.B arg b) := by
  obtain ⟨h1, h2⟩ := validArgmax_le h b hb
  refine ⟨?_, h1, ?_, fun w hw => h2 w hw⟩
  · simp [selectBestRow, Nat.mul_add_mod_of_lt hb]
  · cases hbest : bestReward c.B rew b c.W with
    | none =>
      cases hW : c.W with
      | zero => omega
      | succ K' =>
        rw [hW] at hbest
        simp only [bestReward] at hbest
        cases h' : bestReward c.B rew b K' <;> simp [h'] at hbest
    | some m =>
      obtain ⟨⟨k, hk, hke⟩, hmax⟩ := bestReward_spec c.B rew b c.W m hbest
      have a1 := hmax (arg b) h1
      have a2 := h2 k hk
      simp only [selectBestRow] at *
      congr 1
      omega

/-- The decoding loop in beam-search mode only visits reachable states, whenever `tk` is a correct
`topk` (valid on every score row it is applied to). -/
theorem beamLoop_reach (e : DEnv S) (π : S → Row) (c : BeamCfg) (plus : Int → Int → Int)
    (tk : (Nat → LP) → List Nat) (htk : ∀ val, ValidTop c val (tk val))
    (start : Nat → Nat) (s0 : Nat → S) :
    ∀ (f t : Nat) (st : BeamSt S), BeamReach e π c plus start s0 st →
      BeamReach e π c plus start s0 (beamLoop e π c plus tk f t st).1 := by
  intro f
  induction f with
  | zero => intro t st h; simpa [beamLoop] using h
  | succ f ih =>
    intro t st h
    simp only [beamLoop]
    split
    · exact h
    · exact ih (t + 1) _ (BeamReach.step _ h (fun b _ => htk _))

theorem beamDecode_reach (e : DEnv S) (π : S → Row) (c : BeamCfg) (plus : Int → Int → Int)
    (tk : (Nat → LP) → List Nat) (htk : ∀ val, ValidTop c val (tk val)) (maxSteps : Nat)
    (start : Nat → Nat) (s0 : Nat → S) :
    BeamReach e π c plus start s0 (beamDecode e π c plus tk maxSteps start s0).1 :=
  beamLoop_reach e π c plus tk htk start s0 (maxSteps + 1) 0 _ BeamReach.pre


/-! ### non-vacuity -/
namespace ExampleBeam

/-- a 3-node TSP-like toy: state = visited sequence -/
def toyEnv : DEnv (List Nat) :=
  { step := fun s a => s ++ [a], done := fun s => decide (3 ≤ s.length),
    mask := fun s a => decide (a < 3) && !s.contains a }
def toyπ : List Nat → Row := fun s =>
  (List.range 3).map fun a => if s.contains a then none else some (-(a : Int) - 1)
def cfg : BeamCfg := { B := 1, W := 2, N := 3 }
def st0 : BeamSt (List Nat) := beamPre toyEnv cfg (fun i => i) (fun _ => [])
def top1 : Nat → List Nat := fun _ => [3, 1]
def st1 : BeamSt (List Nat) := beamStep toyEnv cfg (· + ·) (fun i => toyπ (st0.s i)) top1 st0

theorem top1_valid : ∀ b, b < cfg.B →
    ValidTop cfg (hstacked cfg (· + ·) (fun i => toyπ (st0.s i)) st0.score b) (top1 b) := by
  intro b hb
  have : b = 0 := by simp [cfg] at hb; omega
  subst this
  exact validTop_sound _ _ _ (by decide)

/-- `BeamReach` (with a genuinely constrained `ValidTop` step) is inhabited beyond the pre hook -/
theorem st1_reach : BeamReach toyEnv toyπ cfg (· + ·) (fun i => i) (fun _ => []) st1 :=
  BeamReach.step top1 BeamReach.pre top1_valid

/-- … and the statements are about non-trivial data: the two beams are `[1,0]` (score −1) and
`[0,1]` (score −2), re-indexed through their parents -/
example : btActs 1 st1.bufs 0 = [1, 0] ∧ btActs 1 st1.bufs 1 = [0, 1] ∧
    st1.score 0 = some (-1) ∧ st1.score 1 = some (-2) ∧ st1.s 0 = [1, 0] := by decide

/-- the distinct-starts hypothesis of `beams_distinct` holds here -/
example : ∀ b, b < cfg.B → ∀ w w', w < cfg.W → w' < cfg.W →
    (fun i : Nat => i) (w * cfg.B + b) = (fun i : Nat => i) (w' * cfg.B + b) → w = w' := by
  intro b hb w w' _ _ h
  simp [cfg] at hb h
  omega

/-- the hypothesis of `kept_feasible` (every parent has a finite-valued expansion) holds here -/
example : ∀ w, w < cfg.W →
    (fun w => if w = 0 then 1 else 0) w < cfg.N ∧
      expVal cfg (· + ·) toyπ st0 0 w ((fun w => if w = 0 then 1 else 0) w) ≠ none := by
  intro w hw
  have : w = 0 ∨ w = 1 := by simp [cfg] at hw; omega
  rcases this with h | h <;> subst h <;> decide

/-- `ValidArgmax` (hypothesis of `best_is_max`) with unequal rewards -/
example : ValidArgmax cfg.B cfg.W (fun i => if i = 0 then -7 else -3) (fun _ => 1) := by
  intro b hb
  have : b = 0 := by simp [cfg] at hb; omega
  subst this
  refine ⟨by decide, fun s hs => ?_⟩
  have : s = 0 ∨ s = 1 := by simp [cfg] at hs; omega
  rcases this with h | h <;> subst h <;> decide

end ExampleBeam

end Rl4co.Decode
