/-
C13 / C11 — which start rule the pre-decoder hooks apply.  `BeamSearch.pre_decoder_hook` and
`DecodingStrategy.pre_decoder_hook` call the *environment's* `env.select_start_nodes` (so per-environment
overrides — PDP: pickups only, OP: feasible nodes, MTVRP … — are honoured), not the generic helper of
`utils/ops.py`; the token is extracted (`Params.beamStartFromEnvRule`, `Params.preStartFromEnvRule`) and the
feasibility / distinctness clauses of C13 are restated on the environment's rule through the obligation
lemma `beamStartRule_eq` (the multi-start twin `preStartRule_eq` is in Props/C11/LoglikStepwise.lean).
-/
import Rl4co.Props.C13.LoglikFindings

namespace Rl4co.Decode
open Rl4co.Spec.Loglik

variable {S : Type}


/-- **obligation (translator tie)**: the beam-search pre-decoder hook takes the forced first moves from the
environment's own start rule `env.select_start_nodes` (extracted), not from the generic helper -/
theorem beamStartRule_eq (envRule generic : Nat → Nat) : beamStartRule envRule generic = envRule := by
  simp [beamStartRule, hookStart, Params.beamStartFromEnvRule]

/-- **C13 `beams_feasible` (beam-search half), stated on the environment's start rule.**  If the
environment's `select_start_nodes` returns, for every instance, nodes its reset mask admits (C12:
`starts_feasible`, `op_starts_feasible`, PDP's pickups-only override …), then — whatever the generic
helper would have returned — every beam of `policy(td, env, decode_type="beam_search")`, forced first
move included, is a mask-confined run from its instance's reset state. -/
theorem beams_mask_confined_env_rule (e : DEnv S) (π : S → Row) (c : BeamCfg) (plus : Int → Int → Int)
    (envRule generic : Nat → Nat) (s0 : Nat → S)
    (hπ : ∀ s j, gather (π s) j ≠ none → e.mask s j = true)
    (hrule : ∀ b, b < c.B → ∀ k, k < c.W → e.mask (s0 b) (envRule (k * c.B + b)) = true)
    {st : BeamSt S} (h : BeamReachF e π c plus (beamStartRule envRule generic) s0 st) :
    ∀ b, b < c.B → ∀ k, k < c.W →
      admittedD e (s0 b) (btActs c.B st.bufs (k * c.B + b)) = true := by
  rw [beamStartRule_eq] at h
  exact beams_mask_confined_full e π c plus envRule s0 hπ hrule h

/-- distinctness likewise only needs the environment's rule to return distinct nodes per instance -/
theorem beams_distinct_env_rule (e : DEnv S) (π : S → Row) (c : BeamCfg) (plus : Int → Int → Int)
    (envRule generic : Nat → Nat) (s0 : Nat → S)
    (hrule : ∀ b, b < c.B → ∀ w w', w < c.W → w' < c.W →
      envRule (w * c.B + b) = envRule (w' * c.B + b) → w = w')
    {st : BeamSt S} (h : BeamReach e π c plus (beamStartRule envRule generic) s0 st) :
    ∀ b, b < c.B → ∀ w w', w < c.W → w' < c.W →
      btActs c.B st.bufs (w * c.B + b) = btActs c.B st.bufs (w' * c.B + b) → w = w' := by
  rw [beamStartRule_eq] at h
  exact beams_distinct e π c plus envRule s0 hrule h


/-! ### non-vacuity: the toy of `Props/C13/Loglik.lean` started by an "environment rule" that differs from
the generic one -/
example : beamStartRule (fun i => i) (fun _ => 7) = fun i => i := beamStartRule_eq _ _
example : ExampleBeam.st0 = beamPre ExampleBeam.toyEnv ExampleBeam.cfg (beamStartRule (fun i => i) (fun _ => 7)) (fun _ => []) := by
  rw [beamStartRule_eq]; rfl

end Rl4co.Decode
