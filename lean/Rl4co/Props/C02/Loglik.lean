/-
C02 (decoding-loop clause) — `Decode.loop_terminates` (Props/C11/LoglikLoop.lean) instantiated with the
environment families' own C02 theorems, giving the literal clause of the property text for CVRP
(variable-length family: `Cvrp.steps_le`, `Cvrp.mask_nonempty`, `Cvrp.done_stable`) and TSP (equal-length
family: `Tsp.run_length`, `Tsp.steps_le`, `Tsp.mask_nonempty`): "the batched decoding loop terminates
without hitting its safety cap and never feeds an all-masked row to the softmax" — for every batch, every
policy, every selector that emits mask-admitted actions (C10), with or without forced multi-start moves.
The loop's `>` and the default cap are extracted from the source (`Params.decodeBreakCmp`,
`Params.decodeMaxStepsDefault`).
-/
import Rl4co.Props.C02.Cvrp
import Rl4co.Props.C02.Tsp
import Rl4co.Props.C11.LoglikLoop

namespace Rl4co.Decode
open Rl4co

variable {I S : Type}

/-! ### bridge: a batch of instances of one environment family as the decoding loop sees it -/

/-- row state = (instance, environment state); the mask includes the range test `a < nAct` -/
def ofEnv (e : Env I S) : DEnv (I × S) :=
  { step := fun p a => (p.1, e.step p.1 p.2 a),
    done := fun p => e.done p.1 p.2,
    mask := fun p a => decide (a < e.nAct p.1) && e.mask p.1 p.2 a }

theorem run_of_drun (e : Env I S) {p q : I × S} {as : List Nat} (h : DRun (ofEnv e) p as q) :
    q.1 = p.1 ∧ Run e p.1 p.2 as q.2 := by
  induction h with
  | nil => exact ⟨rfl, Run.nil _⟩
  | @snoc s' as a _ hm ih =>
    obtain ⟨h1, h2⟩ := ih
    simp only [ofEnv, Bool.and_eq_true, decide_eq_true_eq] at hm
    rw [h1] at hm
    refine ⟨h1, ?_⟩
    show Run e p.1 p.2 (as ++ [a]) (e.step s'.1 s'.2 a)
    rw [h1]
    exact Run.snoc h2 hm.1 hm.2

theorem DRun.cons {e : DEnv S} {s s' : S} {a : Nat} {as : List Nat} (hm : e.mask s a = true)
    (h : DRun e (e.step s a) as s') : DRun e s (a :: as) s' := by
  induction h with
  | nil => exact (DRun.snoc (DRun.nil s) hm : DRun e s ([] ++ [a]) _)
  | @snoc s'' as b _ hb ih => exact (DRun.snoc ih hb : DRun e s ((a :: as) ++ [b]) _)

/-- C02's row facts survive a forced, mask-admitted first move (multi-start / beam pre-hook). -/
theorem LoopHyp.shift {e : DEnv S} {B bound : Nat} {init : Nat → S} (H : LoopHyp e B bound init)
    (f : Nat → Nat) (hf : ∀ r, r < B → e.mask (init r) (f r) = true) :
    LoopHyp e B bound (fun r => e.step (init r) (f r)) := by
  have hb : ∀ r, r < B → ∀ as s, DRun e (e.step (init r) (f r)) as s → bound ≤ as.length →
      e.done s = true := by
    intro r hr as s h hl
    exact H.stepBound r hr (f r :: as) s (DRun.cons (hf r hr) h) (by simp; omega)
  refine ⟨hb, ?_⟩
  rcases H.maskOK with hA | ⟨n, hB⟩
  · left
    intro r hr as s h
    exact hA r hr (f r :: as) s (DRun.cons (hf r hr) h)
  · right
    by_cases hn : n = 0
    · refine ⟨bound, fun r hr as s h => ?_⟩
      have h0 := hB r hr (f r :: as) s (DRun.cons (hf r hr) h)
      refine ⟨⟨fun hd => ?_, fun hl => hb r hr as s h (by omega)⟩, h0.2⟩
      have := h0.1.mp hd
      simp at this
      omega
    · refine ⟨n - 1, fun r hr as s h => ?_⟩
      have h0 := hB r hr (f r :: as) s (DRun.cons (hf r hr) h)
      refine ⟨⟨fun hd => ?_, fun hl => h0.1.mpr (by simp; omega)⟩, h0.2⟩
      have := h0.1.mp hd
      simp at this
      omega

/-- `pre` (no start / forced mask-admitted start) preserves C02's row facts -/
theorem loopHyp_pre {e : DEnv S} {B bound : Nat} {s0 : Nat → S} (H : LoopHyp e B bound s0)
    (sA : Bool) (N : Nat) (start : Option (Nat → Nat))
    (hstart : ∀ f, start = some f → ∀ r, r < B → e.mask (s0 r) (f r) = true) :
    LoopHyp e B bound (fun r => (pre e sA N start s0 r).s) := by
  cases start with
  | none => exact H
  | some f => exact H.shift f (hstart f rfl)

/-! ### generic facts about `Core.Env` runs used to turn `steps_le` (stated for runs through unfinished
states) into "every long enough mask-confined run has finished" -/

theorem done_of_run {e : Env I S} {i : I}
    (hst : ∀ s a, e.done i s = true → e.done i (e.step i s a) = true)
    {s s' : S} {as : List Nat} (h : Run e i s as s') (hd : e.done i s = true) : e.done i s' = true := by
  induction h with
  | nil => exact hd
  | cons _ _ _ ih => exact ih (hst _ _ hd)

theorem runND_of_run {e : Env I S} {i : I}
    (hst : ∀ s a, e.done i s = true → e.done i (e.step i s a) = true)
    {s s' : S} {as : List Nat} (h : Run e i s as s') (hd : e.done i s' = false) :
    RunND e i s as s' := by
  induction h with
  | nil => exact RunND.nil _
  | @cons s s' a as ha hm hr ih =>
    refine RunND.cons ?_ ha hm (ih hd)
    cases hs : e.done i s with
    | false => rfl
    | true =>
      have := done_of_run hst hr (hst _ _ hs)
      rw [this] at hd
      cases hd

theorem RunND.snoc {e : Env I S} {i : I} {s s' : S} {as : List Nat} {a : Nat}
    (h : RunND e i s as s') (hd : e.done i s' = false) (ha : a < e.nAct i)
    (hm : e.mask i s' a = true) : RunND e i s (as ++ [a]) (e.step i s' a) := by
  induction h with
  | nil => exact RunND.cons hd ha hm (RunND.nil _)
  | cons h0 h1 h2 _ ih => exact RunND.cons h0 h1 h2 (ih hd hm)

/-! ### CVRP -/

/-- every mask-confined CVRP episode of `2n+1` or more steps has finished -/
theorem cvrp_done_of_long (i : Cvrp.Inst) (hwf : Cvrp.WF i) {as : List Nat} {s : Cvrp.State}
    (h : Run Cvrp.env i (Cvrp.env.reset i) as s) (hl : 2 * i.n + 1 ≤ as.length) :
    Cvrp.env.done i s = true := by
  cases hd : Cvrp.env.done i s with
  | true => rfl
  | false =>
    exfalso
    have hnd := runND_of_run (fun s a h => Cvrp.done_stable i s a h) h hd
    obtain ⟨a, ha, hm⟩ := Cvrp.mask_nonempty i s
    have := Cvrp.steps_le i hwf (RunND.snoc hnd hd ha hm)
    simp at this
    omega

theorem cvrp_loopHyp (inst : Nat → Cvrp.Inst) (B bound : Nat)
    (hwf : ∀ r, r < B → Cvrp.WF (inst r)) (hb : ∀ r, r < B → 2 * (inst r).n + 1 ≤ bound) :
    LoopHyp (ofEnv Cvrp.env) B bound (fun r => (inst r, Cvrp.env.reset (inst r))) := by
  constructor
  · intro r hr as s h hl
    obtain ⟨h1, h2⟩ := run_of_drun Cvrp.env h
    have := cvrp_done_of_long (inst r) (hwf r hr) h2 (by have := hb r hr; omega)
    simp only [ofEnv]
    rw [h1]
    exact this
  · left
    intro r _ as s _
    obtain ⟨a, ha, hm⟩ := Cvrp.mask_nonempty s.1 s.2
    exact ⟨a, by simp [ofEnv, ha, hm]⟩

/-- **C02 for the decoding loop on CVRP** (`Decode.loop_terminates` instantiated with `Cvrp.steps_le`,
`Cvrp.mask_nonempty`, `Cvrp.done_stable`): for every batch of well-formed CVRP instances (any sizes
`n_r`, mixed in one batch), every policy and every selector that emits mask-admitted actions, with or
without forced (mask-admitted) multi-start moves: if `2·n_r + 1 ≤ bound ≤ max_steps` the batched
decoding loop of `ConstructivePolicy.forward` terminates with every row done after at most `bound`
passes — so without hitting its safety cap — and never feeds an all-masked row to the softmax. -/
theorem cvrp_decode_loop_terminates (inst : Nat → Cvrp.Inst) (B bound : Nat)
    (hwf : ∀ r, r < B → Cvrp.WF (inst r)) (hb : ∀ r, r < B → 2 * (inst r).n + 1 ≤ bound)
    (π : Cvrp.Inst × Cvrp.State → Row) (sel : Nat → Nat → Row → Nat) (sA : Bool) (N maxSteps : Nat)
    (start : Option (Nat → Nat))
    (hstart : ∀ f, start = some f → ∀ r, r < B →
      (ofEnv Cvrp.env).mask (inst r, Cvrp.env.reset (inst r)) (f r) = true)
    (hsel : ∀ r t s, (∃ a, (ofEnv Cvrp.env).mask s a = true) →
      (ofEnv Cvrp.env).mask s (sel r t (π s)) = true)
    (hcap : bound ≤ maxSteps) :
    let s0 := fun r => (inst r, Cvrp.env.reset (inst r))
    allDone (ofEnv Cvrp.env) B (decode (ofEnv Cvrp.env) π sel sA B N maxSteps start s0).1 = true ∧
      (decode (ofEnv Cvrp.env) π sel sA B N maxSteps start s0).2 ≤ bound ∧
      loopSafe (ofEnv Cvrp.env) π sel sA B (maxSteps + 1) 0 (pre (ofEnv Cvrp.env) sA N start s0) :=
  loop_terminates (ofEnv Cvrp.env) π sel sA B N bound maxSteps start _
    (loopHyp_pre (cvrp_loopHyp inst B bound hwf hb) sA N start hstart) hsel hcap

/-- … in particular with the default safety cap `max_steps = 1_000_000` (extracted from the source):
any batch whose instances have at most `(max_steps − 1) / 2` customers. -/
theorem cvrp_decode_loop_terminates_default (inst : Nat → Cvrp.Inst) (B : Nat)
    (hwf : ∀ r, r < B → Cvrp.WF (inst r))
    (hn : ∀ r, r < B → 2 * (inst r).n + 1 ≤ Params.decodeMaxStepsDefault)
    (π : Cvrp.Inst × Cvrp.State → Row) (sel : Nat → Nat → Row → Nat) (sA : Bool) (N : Nat)
    (hsel : ∀ r t s, (∃ a, (ofEnv Cvrp.env).mask s a = true) →
      (ofEnv Cvrp.env).mask s (sel r t (π s)) = true) :
    let s0 := fun r => (inst r, Cvrp.env.reset (inst r))
    allDone (ofEnv Cvrp.env) B
        (decode (ofEnv Cvrp.env) π sel sA B N Params.decodeMaxStepsDefault none s0).1 = true ∧
      (decode (ofEnv Cvrp.env) π sel sA B N Params.decodeMaxStepsDefault none s0).2
        ≤ Params.decodeMaxStepsDefault :=
  let h := cvrp_decode_loop_terminates inst B Params.decodeMaxStepsDefault hwf hn π sel sA N
    Params.decodeMaxStepsDefault none (by intro f hf; cases hf) hsel (Nat.le_refl _)
  ⟨h.1, h.2.1⟩

/-! ### TSP (equal-length family) -/

theorem tsp_loopHyp (inst : Nat → Tsp.Inst) (B n : Nat) (hpos : 0 < n)
    (hn : ∀ r, r < B → (inst r).n = n) :
    LoopHyp (ofEnv Tsp.env) B n (fun r => (inst r, Tsp.env.reset (inst r))) := by
  have hp : ∀ r, r < B → 0 < (inst r).n := fun r hr => by rw [hn r hr]; exact hpos
  have key : ∀ r, r < B → ∀ as s, DRun (ofEnv Tsp.env) (inst r, Tsp.env.reset (inst r)) as s →
      ((ofEnv Tsp.env).done s = true ↔ as.length = n) ∧
        ((ofEnv Tsp.env).done s = false → ∃ a, (ofEnv Tsp.env).mask s a = true) := by
    intro r hr as s h
    obtain ⟨h1, h2⟩ := run_of_drun Tsp.env h
    have h1' : s.1 = inst r := h1
    constructor
    · have := Tsp.run_length (inst r) (hp r hr) h2
      simp only [ofEnv]
      rw [h1', this, hn r hr]
    · intro hd
      simp only [ofEnv] at hd
      rw [h1'] at hd
      obtain ⟨a, ha, hm⟩ := Tsp.mask_nonempty (inst r) (hp r hr) ⟨as, h2⟩ hd
      refine ⟨a, ?_⟩
      simp only [ofEnv, Bool.and_eq_true, decide_eq_true_eq]
      rw [h1']
      exact ⟨ha, hm⟩
  constructor
  · intro r hr as s h hl
    obtain ⟨_, h2⟩ := run_of_drun Tsp.env h
    have hle := Tsp.steps_le (inst r) h2
    rw [hn r hr] at hle
    exact ((key r hr as s h).1).mpr (by omega)
  · right
    exact ⟨n, key⟩

/-- **C02 for the decoding loop on TSP**: for every rectangular batch of TSP instances (`n ≥ 1` nodes
each), every policy and every selector emitting mask-admitted actions, with or without forced
(mask-admitted) start nodes: if `n ≤ max_steps` the batched decoding loop terminates with every row
done after at most `n` passes (the safety cap is never hit), and — although a finished TSP row has an
all-false mask — no pass ever feeds an all-masked row to the softmax (all rows finish together). -/
theorem tsp_decode_loop_terminates (inst : Nat → Tsp.Inst) (B n : Nat) (hpos : 0 < n)
    (hn : ∀ r, r < B → (inst r).n = n)
    (π : Tsp.Inst × Tsp.State → Row) (sel : Nat → Nat → Row → Nat) (sA : Bool) (N maxSteps : Nat)
    (start : Option (Nat → Nat))
    (hstart : ∀ f, start = some f → ∀ r, r < B →
      (ofEnv Tsp.env).mask (inst r, Tsp.env.reset (inst r)) (f r) = true)
    (hsel : ∀ r t s, (∃ a, (ofEnv Tsp.env).mask s a = true) →
      (ofEnv Tsp.env).mask s (sel r t (π s)) = true)
    (hcap : n ≤ maxSteps) :
    let s0 := fun r => (inst r, Tsp.env.reset (inst r))
    allDone (ofEnv Tsp.env) B (decode (ofEnv Tsp.env) π sel sA B N maxSteps start s0).1 = true ∧
      (decode (ofEnv Tsp.env) π sel sA B N maxSteps start s0).2 ≤ n ∧
      loopSafe (ofEnv Tsp.env) π sel sA B (maxSteps + 1) 0 (pre (ofEnv Tsp.env) sA N start s0) :=
  loop_terminates (ofEnv Tsp.env) π sel sA B N n maxSteps start _
    (loopHyp_pre (tsp_loopHyp inst B n hpos hn) sA N start hstart) hsel hcap

/-! ### non-vacuity -/

/-- a policy that gives `-inf` exactly to the masked actions (uniform otherwise) and the selector "first
finite entry": the selector hypothesis `hsel` of `loop_terminates` is satisfiable for every environment
whose masks are confined to `a < n s` -/
def maskRow (e : DEnv S) (n : S → Nat) (s : S) : Row :=
  (List.range (n s)).map (fun a => if e.mask s a then some 0 else none)

def firstFinite (row : Row) : Nat := row.findIdx (·.isSome)

theorem hsel_firstFinite (e : DEnv S) (n : S → Nat) (hn : ∀ s a, e.mask s a = true → a < n s) :
    ∀ (r t : Nat) (s : S), (∃ a, e.mask s a = true) →
      e.mask s ((fun (_ _ : Nat) row => firstFinite row) r t (maskRow e n s)) = true := by
  intro r t s ⟨a, ha⟩
  have hex : ∃ x ∈ maskRow e n s, x.isSome = true := by
    refine ⟨some 0, ?_, rfl⟩
    simp only [maskRow, List.mem_map, List.mem_range]
    exact ⟨a, hn s a ha, by simp [ha]⟩
  have hlt : firstFinite (maskRow e n s) < (maskRow e n s).length := List.findIdx_lt_length_of_exists hex
  have hsome := List.findIdx_getElem (w := hlt)
  simp only [maskRow, List.getElem_map, List.getElem_range] at hsome
  show e.mask s (firstFinite (maskRow e n s)) = true
  cases hm : e.mask s (firstFinite (maskRow e n s)) with
  | true => rfl
  | false =>
    simp only [firstFinite, maskRow] at hm
    rw [hm] at hsome
    simp at hsome


/-- the size hypothesis of `cvrp_decode_loop_terminates_default` holds for every instance with at most
499 999 customers, e.g. `n = 100` (this also pins the extracted default of `max_steps`) -/
example : 2 * 100 + 1 ≤ Params.decodeMaxStepsDefault := by decide
example : ∀ n, n ≤ 499999 → 2 * n + 1 ≤ Params.decodeMaxStepsDefault := by
  intro n h; simp only [Params.decodeMaxStepsDefault]; omega

/-- a well-formed CVRP instance and a greedy-on-the-mask selector satisfy the hypotheses -/
example : Cvrp.WF ⟨2, 8, fun _ => 4, fun _ _ => 1⟩ := by intro j _ _; simp

/-- all hypotheses of the CVRP corollary are jointly satisfiable: a batch of three copies of a
well-formed two-customer instance, the mask-respecting policy/selector above, the default cap -/
example :=
  cvrp_decode_loop_terminates_default (fun _ => ⟨2, 8, fun _ => 4, fun _ _ => 1⟩) 3
    (fun _ _ => by intro j _ _; simp) (fun _ _ => by decide)
    (maskRow (ofEnv Cvrp.env) (fun s => Cvrp.env.nAct s.1)) (fun _ _ row => firstFinite row) false 3
    (hsel_firstFinite (ofEnv Cvrp.env) (fun s => Cvrp.env.nAct s.1)
      (by intro s a h; simp only [ofEnv, Bool.and_eq_true, decide_eq_true_eq] at h; exact h.1))

/-- … and of the TSP corollary (three nodes, batch of two) -/
example :=
  tsp_decode_loop_terminates (fun _ => ⟨3, fun _ _ => 1⟩) 2 3 (by decide) (fun _ _ => rfl)
    (maskRow (ofEnv Tsp.env) (fun s => Tsp.env.nAct s.1)) (fun _ _ row => firstFinite row) false 3 10 none
    (by intro f hf; cases hf)
    (hsel_firstFinite (ofEnv Tsp.env) (fun s => Tsp.env.nAct s.1)
      (by intro s a h; simp only [ofEnv, Bool.and_eq_true, decide_eq_true_eq] at h; exact h.1))
    (by decide)

end Rl4co.Decode
