/-
C02 for SMTWTP (equal-length family): an unfinished reachable state always offers a job; an episode is
finished exactly when it has `n` steps (all rows of a rectangular batch finish together, the
all-False mask of a finished row is never fed to a policy); `done` is absorbing; step bound `n`.
-/
import Rl4co.Proofs.TspfamSmtwtp

namespace Rl4co.Smtwtp
open Rl4co.Tspfam

theorem mask_nonempty (i : Inst) (hpos : 0 < i.n) {s : State} (h : Reach env i s)
    (hd : env.done i s = false) : ∃ a, a < env.nAct i ∧ env.mask i s a = true :=
  availEnv.avail_of_not_done hpos h hd

theorem run_length (i : Inst) (hpos : 0 < i.n) {as : List Nat} {s : State}
    (h : Run env i (env.reset i) as s) : env.done i s = true ↔ as.length = i.n :=
  availEnv.run_length hpos h

theorem done_stable (i : Inst) (hpos : 0 < i.n) {s : State} (h : Reach env i s)
    (hd : env.done i s = true) (a : Nat) : env.done i (env.step i s a) = true :=
  availEnv.done_stable hpos h hd a

theorem mask_empty_of_done (i : Inst) (hpos : 0 < i.n) {s : State} (h : Reach env i s)
    (hd : env.done i s = true) (a : Nat) (ha : a < env.nAct i) : env.mask i s a = false :=
  availEnv.none_avail_of_done hpos h hd a ha

theorem steps_le (i : Inst) {as : List Nat} {s : State} (h : Run env i (env.reset i) as s) :
    as.length ≤ i.n :=
  availEnv.length_le h

example : Reach env ⟨3, fun _ => 1, fun _ => 1, fun _ => 1⟩
    (exec env ⟨3, fun _ => 1, fun _ => 1, fun _ => 1⟩ (env.reset ⟨3, fun _ => 1, fun _ => 1, fun _ => 1⟩) [2, 1]) :=
  ⟨[2, 1], (run_iff_admitted _ _ _ _ _).2 ⟨by decide, rfl⟩⟩

end Rl4co.Smtwtp
