/-
C02/C18 link for SVRP: `SVRPGenerator._generate` sorts the technician levels ascending and sets every
customer's required skill to `max(techs) · u` with a draw `u ∈ [0,1)`.  By the generator theorem
`Rl4co.Gen.svrp_skill_le_best` the skill is at most the best level, and the best level is the LAST
technician's; hence generated instances satisfy `WF` (the last technician covers everything), which is all
C01/C02 need: mask-confined episodes are feasible, finish within n + max(T−1,1) steps and never index
`techs` out of range inside a batch loop (for T ≥ 2).
-/
import Rl4co.Props.C02.Svrp
import Rl4co.Props.C18.Routing

namespace Rl4co.Svrp
open Rl4co.Gen (svrpSkillNum svrp_skill_le_best)

/-- instance `i` (levels and skills as numerators over the common denominator `q·q₂`) was produced by the
generator: technician levels `tnum k` over `q` (ascending, so the last is the maximum), skills
`max(techs) · p₂ⱼ` over `q·q₂` with draws `p₂ⱼ < q₂` -/
structure FromGenerator (i : Inst) (q2 : Nat) (tnum : Nat → Int) (p2 : Nat → Nat) : Prop where
  techs  : 1 ≤ i.T
  best   : 0 ≤ tnum (i.T - 1)
  level  : i.techs (i.T - 1) = tnum (i.T - 1) * q2
  draw   : ∀ j, 1 ≤ j → j ≤ i.n → p2 j < q2
  skill  : ∀ j, 1 ≤ j → j ≤ i.n → i.skills j = svrpSkillNum (tnum (i.T - 1)) (p2 j)

/-- **gen_wf_svrp**: generator post-condition (`svrp_skill_le_best`) ⇒ `WF`. -/
theorem gen_wf_svrp (i : Inst) (q2 : Nat) (tnum : Nat → Int) (p2 : Nat → Nat)
    (h : FromGenerator i q2 tnum p2) : WF i := by
  refine ⟨h.techs, fun j h1 h2 => ?_⟩
  rw [h.skill j h1 h2, h.level]
  exact (svrp_skill_le_best (tnum (i.T - 1)) (p2 j) q2 h.best (h.draw j h1 h2)).2

theorem gen_feasible_of_run (i : Inst) (q2 : Nat) (tnum : Nat → Int) (p2 : Nat → Nat)
    (h : FromGenerator i q2 tnum p2) {as : List Nat} {s : State}
    (hr : Run env i (env.reset i) as s) (hd : env.done i s = true) : Spec.Svrp.Feasible i as :=
  feasible_of_run i (gen_wf_svrp i q2 tnum p2 h) hr hd

theorem gen_steps_le (i : Inst) (q2 : Nat) (tnum : Nat → Int) (p2 : Nat → Nat)
    (h : FromGenerator i q2 tnum p2) {as : List Nat} {s : State}
    (hr : RunND env i (env.reset i) as s) : as.length ≤ i.n + max (i.T - 1) 1 :=
  steps_le i (gen_wf_svrp i q2 tnum p2 h) hr

theorem gen_tech_lt (i : Inst) (q2 : Nat) (tnum : Nat → Int) (p2 : Nat → Nat)
    (h : FromGenerator i q2 tnum p2) {as : List Nat} {s : State}
    (hr : Run env i (env.reset i) as s) (hl : as.length + 1 ≤ i.n + i.T) : s.tech < i.T :=
  tech_lt_of_run i (gen_wf_svrp i q2 tnum p2 h) hr hl

/-- Non-vacuity: two technicians (levels 2/1 and 5/1), q₂ = 4, draws 1 and 3: skills 5·1/4 and 5·3/4. -/
example : FromGenerator ⟨2, 2, fun k => if k = 0 then 8 else 20, fun j => if j = 1 then 5 else 15, fun _ => 1, fun _ _ => 0⟩
    4 (fun k => if k = 0 then 2 else 5) (fun j => if j = 1 then 1 else 3) := by
  refine ⟨by decide, by decide, by decide, ?_, ?_⟩
  all_goals intro j h1 h2
  all_goals have h2' : j ≤ 2 := h2
  all_goals have : j = 1 ∨ j = 2 := by omega
  all_goals rcases this with h | h <;> subst h <;> decide

end Rl4co.Svrp
