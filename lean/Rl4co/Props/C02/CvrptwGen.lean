/-
C02/C18 link for CVRPTW: an instance whose customer windows are the ones `CVRPTWGenerator._generate` builds
(`Rl4co.Gen.Cvrptw.window`, steps 4–7) from draws satisfying the generator's parameter condition `Cond`
(in particular `2·dist + 1 ≤ max_time`, zero service durations), with the depot window `[0, max_time]`,
satisfies the well-formedness `WF` that C01/C02 need.  Hence on generated instances every reachable state
offers an action, finished stays finished, and episodes end within 2n+1 steps — the generator's
post-condition `cvrptw_window` (C18) is exactly strong enough, although the precondition the env's own
checker asserts is not (`dead_end_example`).
-/
import Rl4co.Props.C02.Cvrptw
import Rl4co.Props.C18.Cvrptw

namespace Rl4co.Cvrptw
open Rl4co.Gen.Cvrptw (In Cond window WindowOk cvrptw_window)

/-- instance `i` (ticks) was produced by the generator: `g j` are the per-customer generator inputs -/
structure FromGenerator (i : Inst) (S : Nat) (T : Int) (g : Nat → In) : Prop where
  depotDist : i.base.D 0 0 = 0
  depotEnd  : i.twE 0 = T
  cond : ∀ j, 1 ≤ j → j ≤ i.base.n → Cond (g j)
  unit : ∀ j, 1 ≤ j → j ≤ i.base.n → (g j).S = S ∧ (g j).T = T
  dist : ∀ j, 1 ≤ j → j ≤ i.base.n → i.base.D 0 j = (g j).d ∧ i.base.D j 0 = (g j).d
  win  : ∀ j, 1 ≤ j → j ≤ i.base.n →
           i.twS j = (window (g j)).1 * S ∧ i.twE j = (window (g j)).2 * S ∧ i.dur j = (g j).dur

/-- **gen_wf_cvrptw**: generator post-conditions ⇒ `WF`. -/
theorem gen_wf_cvrptw (i : Inst) (S : Nat) (T : Int) (g : Nat → In) (hn : 1 ≤ i.base.n)
    (h : FromGenerator i S T g) : WF i := by
  have hT : 0 ≤ T := by
    have c := h.cond 1 (Nat.le_refl 1) hn
    have u := h.unit 1 (Nat.le_refl 1) hn
    have := c.room; have := c.hd
    have hS : (0 : Int) ≤ ((g 1).S : Int) := Int.natCast_nonneg _
    rw [u.2] at *; omega
  refine ⟨?_, ⟨by rw [h.depotDist, h.depotEnd]; exact hT, ?_⟩⟩
  · intro j h1 h2
    have w := cvrptw_window (g j) (h.cond j h1 h2)
    obtain ⟨uS, _⟩ := h.unit j h1 h2
    obtain ⟨d1, _⟩ := h.dist j h1 h2
    obtain ⟨_, wE, _⟩ := h.win j h1 h2
    rw [d1, wE, ← uS]; exact w.2.2.1
  · intro j h1 h2
    have w := cvrptw_window (g j) (h.cond j h1 h2)
    obtain ⟨uS, uT⟩ := h.unit j h1 h2
    obtain ⟨_, d2⟩ := h.dist j h1 h2
    obtain ⟨wS, wE, wD⟩ := h.win j h1 h2
    have hS : (0 : Int) ≤ (S : Int) := Int.natCast_nonneg _
    have hlt : (window (g j)).1 * (S : Int) ≤ (window (g j)).2 * (S : Int) :=
      Int.mul_le_mul_of_nonneg_right (Int.le_of_lt w.2.1) hS
    have hret := w.2.2.2
    rw [uS, uT] at hret
    rw [wS, wE, wD, d2, h.depotEnd]
    omega

/-- on generated instances every reachable state offers an action -/
theorem gen_mask_nonempty (i : Inst) (S : Nat) (T : Int) (g : Nat → In) (hn : 1 ≤ i.base.n)
    (h : FromGenerator i S T g) {s : State} (hr : Reach env i s) :
    ∃ a, a < env.nAct i ∧ env.mask i s a = true :=
  mask_nonempty i (gen_wf_cvrptw i S T g hn h) hr

/-- on generated instances a mask-confined episode is feasible (C01) -/
theorem gen_feasible_of_run (i : Inst) (S : Nat) (T : Int) (g : Nat → In) (hn : 1 ≤ i.base.n)
    (h : FromGenerator i S T g) (hcap : 0 ≤ i.base.cap) {as : List Nat} {s : State}
    (hr : Run env i (env.reset i) as s) (hd : env.done i s = true) : Spec.Cvrptw.Feasible i as :=
  feasible_of_run i hcap (gen_wf_cvrptw i S T g hn h).ret hr hd

/-- Non-vacuity: one customer at distance 212.133 (the farthest corner of the default box), default
`max_time = 480`, both draws 0: the repaired window [212, 213] of the C18 example. -/
def genIn : In := ⟨1000, 480000, 212133, 0, 0, 0, 8⟩
def genInst : Inst :=
  { base := ⟨1, 8, fun _ => 1, fun a b => if a = b then 0 else 212133⟩
    twS := fun j => if j = 0 then 0 else 212000, twE := fun j => if j = 0 then 480000 else 213000, dur := fun _ => 0 }

example : FromGenerator genInst 1000 480000 (fun _ => genIn) := by
  refine ⟨by decide, by decide, ?_, ?_, ?_, ?_⟩
  all_goals intro j h1 h2
  all_goals have h2' : j ≤ 1 := h2
  all_goals have : j = 1 := by omega
  all_goals subst this
  · exact ⟨by decide, by decide, by decide, by decide, by decide, rfl, by decide⟩
  · exact ⟨rfl, rfl⟩
  · exact ⟨by decide, by decide⟩
  · exact ⟨by decide, by decide, by decide⟩

end Rl4co.Cvrptw
