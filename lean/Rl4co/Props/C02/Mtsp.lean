/-
C02 for mTSP (`n ≥ 1` customers, `m ≥ 1` agents): (1) every reachable state — finished or not —
offers at least one action, so a finished row stays steppable (with the depot) while batch-mates run;
(2) `done` is absorbing; (3) every mask-confined episode is finished after at most
`n + (m − 1) ≤ n + m` steps.
-/
import Rl4co.Proofs.Mtsp

namespace Rl4co.Mtsp

/-- well-formed instance: at least one customer and one agent -/
def WF (i : Inst) : Prop := 1 ≤ i.n ∧ 1 ≤ i.m

/-- (1) The mask of a reachable state is never empty. -/
theorem mask_nonempty (i : Inst) (hwf : WF i) {s : State} (h : Reach env i s) :
    ∃ a, a < env.nAct i ∧ env.mask i s a = true := by
  have hi := inv_of_reach hwf.1 hwf.2 h
  cases hd : s.done with
  | true => exact ⟨0, by simp [env], hi.doneDep hd⟩
  | false =>
    obtain ⟨j, _, h2, hj⟩ := hi.someCust hd
    exact ⟨j, by simp only [env]; omega, hj⟩

/-- (2) A finished instance never becomes unfinished again. -/
theorem done_stable (i : Inst) (hwf : WF i) {s : State} (h : Reach env i s) (a : Nat)
    (ha : a < env.nAct i) (hm : env.mask i s a = true) (hd : env.done i s = true) :
    env.done i (env.step i s a) = true := by
  have hi := inv_of_reach hwf.1 hwf.2 h
  have h0 := mask_of_done hi hd ha hm
  subst h0
  exact done_step_of_done hi hd

/-- number of customers still to be visited -/
def unvisited (i : Inst) (s : State) : Nat := cnt i.n (fun k => s.avail (k + 1))

/-- termination measure: customers left + agents left -/
def mu (i : Inst) (s : State) : Nat := unvisited i s + (i.m - 1 - s.agent)

theorem unvisited_step_customer (i : Inst) (s : State) (a : Nat) (h0 : a ≠ 0) (ha : a < i.n + 1)
    (hv : s.avail a = true) : unvisited i (step i s a) + 1 = unvisited i s := by
  unfold unvisited
  have : (fun k => (step i s a).avail (k + 1)) = upd (fun k => s.avail (k + 1)) (a - 1) false := by
    funext k
    rw [step_avail_cust i s a (k + 1) (by omega)]
    simp only [upd_apply]
    by_cases hk : k + 1 = a
    · have : k = a - 1 := by omega
      rw [if_pos hk, if_pos this]
    · have : k ≠ a - 1 := by omega
      rw [if_neg hk, if_neg this]
  rw [this]
  apply cnt_upd_false (by omega)
  have : a - 1 + 1 = a := by omega
  simp [this, hv]

theorem unvisited_step_depot (i : Inst) (s : State) : unvisited i (step i s 0) = unvisited i s := by
  unfold unvisited
  apply cnt_congr
  intro j _
  rw [step_avail_cust i s 0 (j + 1) (by omega)]
  simp

/-- every admitted step from an unfinished state strictly decreases the measure -/
theorem mu_decreases (i : Inst) (s : State) (a : Nat) (hi : Inv i s)
    (hd : env.done i s = false) (ha : a < env.nAct i) (hm : env.mask i s a = true) :
    mu i (env.step i s a) < mu i s := by
  have hd' : s.done = false := hd
  have hm' : s.avail a = true := hm
  simp only [env] at ha ⊢
  by_cases h0 : a = 0
  · subst h0
    obtain ⟨_, hlt⟩ := hi.depot hd' hm'
    simp only [mu, unvisited_step_depot, step_agent, if_true]
    omega
  · have := unvisited_step_customer i s a h0 ha hm'
    simp only [mu, step_agent, h0, if_false]
    omega

/-- (3) Step bound: a mask-confined run through unfinished states has at most `n + (m − 1)` steps. -/
theorem steps_le (i : Inst) (hwf : WF i) {as : List Nat} {s : State}
    (h : RunND env i (env.reset i) as s) : as.length ≤ i.n + (i.m - 1) := by
  have := steps_le_of_measure (e := env) (i := i) (mu i) (Inv i)
    (fun s a hi ha hm => inv_step hi ha hm)
    (fun s a hi hd ha hm => mu_decreases i s a hi hd ha hm) h (inv_reset i hwf.1 hwf.2)
  have h0 : mu i (env.reset i) ≤ i.n + (i.m - 1) := by
    have hle := cnt_le i.n (fun k => (reset i).avail (k + 1))
    simp only [mu, unvisited, env]
    have : (reset i).agent = 0 := rfl
    rw [this]; omega
  omega

/-- the bound in the form quoted by the property (`n + m`) -/
theorem steps_le' (i : Inst) (hwf : WF i) {as : List Nat} {s : State}
    (h : RunND env i (env.reset i) as s) : as.length ≤ i.n + i.m := by
  have := steps_le i hwf h; omega

/-! ### step bound with the constants of the property text -/

/-- `n` customers and `m` agents: at most `n + m − 1` calls of `env.step` (every customer once, at most
`m − 1` returns), i.e. at most `num_loc + num_agents − 2` with `num_loc = n + 1` counting the depot. -/
theorem steps_le_text (i : Inst) (hwf : WF i) {as : List Nat} {s : State}
    (h : RunND env i (env.reset i) as s) : as.length ≤ (i.n + 1) + i.m - 2 := by
  have := steps_le i hwf h
  have := hwf.2
  omega

/-- Non-vacuity of `WF` and tightness of the bound: 2 customers, 2 agents, the three-step episode
`[1,0,2]` (= n + m − 1 steps). -/
example : WF ⟨2, 2, fun _ _ => 1⟩ := ⟨by decide, by decide⟩
example : RunND env ⟨2, 2, fun _ _ => 1⟩ (env.reset ⟨2, 2, fun _ _ => 1⟩) [1, 0, 2]
    (exec env ⟨2, 2, fun _ _ => 1⟩ (env.reset ⟨2, 2, fun _ _ => 1⟩) [1, 0, 2]) := by
  refine RunND.cons (by decide) (by decide) (by decide) ?_
  refine RunND.cons (by decide) (by decide) (by decide) ?_
  refine RunND.cons (by decide) (by decide) (by decide) ?_
  exact RunND.nil _

end Rl4co.Mtsp
