/-
C02 for FLP: (1) while the batch runs every row — finished or not — is offered an action; (2) a
finished row stays finished; (3) an episode takes exactly `to_choose` steps (bound = quota).

(1) in detail: the mask is `~chosen`, so it is non-empty as long as fewer than `n` locations were
selected (`mask_nonempty`).  All rows of a batch share `n` (one tensor) and the loop runs only while
some row is unfinished, i.e. (by `done_iff_quota`) while the number of steps is below that row's quota
≤ n; hence every row's mask is non-empty at every step the loop takes (`mask_nonempty_while_batch_runs`),
including rows that finished earlier.
-/
import Rl4co.Props.C08.Flp

namespace Rl4co.Flp

/-- (1a) fewer than `n` selections so far ⇒ some action is offered (any mask-confined run). -/
theorem mask_nonempty (i : Inst) {as : List Nat} {s : State} (h : Run env i (env.reset i) as s)
    (hlt : as.length < i.n) : ∃ a, a < env.nAct i ∧ env.mask i s a = true := by
  apply Sel.mask_nonempty view h
  show as.length < cnt i.n (fun _ => true)
  rw [cnt_true]; exact hlt

/-- (1b) as long as some batch-mate `i'` (same number of locations, well-formed) is unfinished after
the same number of steps, this row — finished or not — is offered an action. -/
theorem mask_nonempty_while_batch_runs (i i' : Inst) (hn : i'.n = i.n) (hwf' : WF i')
    {as as' : List Nat} {s s' : State} (h : Run env i (env.reset i) as s)
    (h' : Run env i' (env.reset i') as' s') (hlen : as.length = as'.length)
    (hrun : env.done i' s' = false) : ∃ a, a < env.nAct i ∧ env.mask i s a = true := by
  apply mask_nonempty i h
  have := (not_congr (done_iff_quota i' hwf' h')).mp (by simp [hrun])
  have h2 := hwf'.2
  rw [hn] at h2
  omega

/-- (2) `done` is absorbing along every mask-confined run (padding included). -/
theorem done_stable (i : Inst) {as : List Nat} {s : State} (h : Run env i (env.reset i) as s) (a : Nat)
    (hd : env.done i s = true) : env.done i (env.step i s a) = true :=
  Sel.done_stable view h a hd

/-- (3) step bound: an episode stepped only while unfinished has at most `quota` steps … -/
theorem steps_le (i : Inst) (hwf : WF i) {as : List Nat} {s : State}
    (h : RunND env i (env.reset i) as s) : (as.length : Int) ≤ i.quota :=
  Sel.steps_le view (i := i) hwf.1 h

/-- … and it cannot stop earlier: an unfinished state always has a next action (no dead end). -/
theorem progress (i : Inst) (hwf : WF i) {as : List Nat} {s : State}
    (h : Run env i (env.reset i) as s) (hd : env.done i s = false) :
    ∃ a, a < env.nAct i ∧ env.mask i s a = true := by
  apply mask_nonempty i h
  have := (not_congr (done_iff_quota i hwf h)).mp (by simp [hd])
  have := hwf.2
  omega

/-- Non-vacuity: quota = n = 2 (the tightest case: the mask empties exactly when the row is done). -/
example : WF ⟨2, 2, fun _ _ => 1, fun _ => 0⟩ := ⟨by decide, by decide⟩

end Rl4co.Flp
