/-
C02 for the multi-task VRP environment (all 16 variants, one statement over the feature valuation):
(1) every state — finished or not — offers at least one action, so a finished row stays steppable while
    batch-mates run and no all-False mask row is ever produced;
(2) `done` is absorbing;
(3) on a well-formed instance (`wf`: demands non-negative and at most one kind per customer, every
    customer servable on its own by a fresh vehicle — deadlines, capacity and distance limit may be met
    with equality) every mask-confined episode is finished after at most `2n+1` steps.
`wf` is what the generator guarantees (C18) and it is evaluated by the harness on every instance used.
Without it the environment does not dead-end but idles at the depot forever (an unservable customer).
-/
import Rl4co.Proofs.MtvrpWf

namespace Rl4co.Mtvrp

/-- (1) The mask is never empty, in any state whatsoever (finished or not, reachable or not). -/
theorem mask_nonempty (i : Inst) (s : State) : ∃ a, a < env.nAct i ∧ env.mask i s a = true := by
  by_cases h : (s.cur == 0 && anyCust i s) = true
  · simp only [Bool.and_eq_true, anyCust, List.any_eq_true, List.mem_range] at h
    obtain ⟨_, k, hk, hl⟩ := h
    exact ⟨k + 1, by simp [env]; omega, by simp [env, mask_def, hl]⟩
  · exact ⟨0, by simp [env], by simp only [env, mask_def, if_true]; cases hh : (s.cur == 0 && anyCust i s) <;> simp_all⟩

/-- (2) A finished instance never becomes unfinished again (whatever is stepped). -/
theorem done_stable (i : Inst) (s : State) (a : Nat) (hd : env.done i s = true) :
    env.done i (env.step i s a) = true := by
  have hall := all_visited_of_done i s hd
  have : cnt (i.n + 1) (upd s.vis a true) = i.n + 1 := by
    apply cnt_eq_n.mpr
    intro j hj
    simp only [upd_apply]; split
    · rfl
    · exact hall j hj
  simpa [env, done, step_def, Params.mtvrpDoneCmp, Cmp.evalNat] using this

/-- number of unvisited customers -/
def unvisited (i : Inst) (s : State) : Nat := cnt i.n (fun k => !s.vis (k + 1))

/-- termination measure: 2·#unvisited customers + [not at depot] + [depot not yet visited] -/
def mu (i : Inst) (s : State) : Nat :=
  2 * unvisited i s + (if s.cur ≠ 0 then 1 else 0) + (if s.vis 0 then 0 else 1)

theorem unvisited_step_customer (i : Inst) (s : State) (a : Nat) (h0 : a ≠ 0) (ha : a < i.n + 1)
    (hv : s.vis a = false) : unvisited i (step i s a) + 1 = unvisited i s := by
  unfold unvisited
  have : (fun k => !(step i s a).vis (k + 1)) = upd (fun k => !s.vis (k + 1)) (a - 1) false := by
    funext k
    simp only [step_def, upd_apply]
    by_cases hk : k + 1 = a
    · have : k = a - 1 := by omega
      rw [if_pos hk, if_pos this]; rfl
    · have : k ≠ a - 1 := by omega
      rw [if_neg hk, if_neg this]
  rw [this]
  apply cnt_upd_false (by omega)
  have : a - 1 + 1 = a := by omega
  simp [this, hv]

theorem unvisited_step_depot (i : Inst) (s : State) : unvisited i (step i s 0) = unvisited i s := by
  unfold unvisited
  apply cnt_congr
  intro j _
  simp [step_def]

/-- every admitted step from an unfinished state strictly decreases the measure -/
theorem mu_decreases (i : Inst) (hwf : wf i = true) (s : State) (a : Nat) (hinv : Fresh s)
    (hd : env.done i s = false) (ha : a < env.nAct i) (hm : env.mask i s a = true) :
    mu i (env.step i s a) < mu i s := by
  simp only [env] at ha hm hd ⊢
  by_cases h0 : a = 0
  · subst h0
    have hu := unvisited_step_depot i s
    simp only [mask_def, if_true, Bool.not_eq_true', Bool.and_eq_false_iff] at hm
    by_cases hc : s.cur = 0
    · -- at the depot with no customer offered: all customers are visited, so the depot is unvisited
      have hany : anyCust i s = false := by
        rcases hm with h | h
        · simp [hc] at h
        · exact h
      have hallv : ∀ k, k < i.n → s.vis (k + 1) = true := by
        intro k hk
        simp only [anyCust, List.any_eq_false, List.mem_range] at hany
        have := hany k hk
        by_cases hv : s.vis (k + 1) = true
        · exact hv
        · exfalso
          have := canVisit_of_fresh hwf hinv hc (j := k + 1) (by omega) (by omega) (by simpa using hv)
          simp_all
      have hv0 : s.vis 0 = false := by
        by_cases hv : s.vis 0 = true
        · exfalso
          have : cnt (i.n + 1) s.vis = i.n + 1 := by
            apply cnt_eq_n.mpr
            intro j hj
            cases j with
            | zero => exact hv
            | succ k => exact hallv k (by omega)
          simp [done, Params.mtvrpDoneCmp, Cmp.evalNat, this] at hd
        · simpa using hv
      simp only [mu, hu]
      simp [step_def, hc, hv0]
    · simp only [mu, hu]
      simp only [step_def, upd_same]
      simp [hc]
      split <;> omega
  · have hv := (adm_of_mask i s a h0 hm).vis
    have hu := unvisited_step_customer i s a h0 ha hv
    simp only [mu]
    have hv0 : (step i s a).vis 0 = s.vis 0 := by
      simp only [step_def, upd_apply]
      have : (0 : Nat) ≠ a := fun h => h0 h.symm
      simp [this]
    rw [hv0]
    have : (step i s a).cur = a := rfl
    rw [this]
    simp only [h0, ne_eq, not_false_eq_true, if_true]
    split <;> omega

/-- (3) Step bound: on a well-formed instance a mask-confined run through unfinished states has at most
`2n+1` steps — for every feature valuation. -/
theorem steps_le (i : Inst) (hwf : wf i = true) {as : List Nat} {s : State}
    (h : RunND env i (env.reset i) as s) : as.length ≤ 2 * i.n + 1 := by
  have := steps_le_of_measure (e := env) (i := i) (mu i) Fresh
    (fun s a _ _ _ => fresh_step i s a)
    (fun s a hi hd ha hm => mu_decreases i hwf s a hi hd ha hm) h (fresh_reset i)
  have h0 : mu i (env.reset i) ≤ 2 * i.n + 1 := by
    have hle := cnt_le i.n (fun k => !(reset i).vis (k + 1))
    show 2 * unvisited i (reset i) + (if (reset i).cur ≠ 0 then 1 else 0) +
      (if (reset i).vis 0 then 0 else 1) ≤ 2 * i.n + 1
    have h1 : (reset i).cur = 0 := rfl
    have h2 : (reset i).vis 0 = false := rfl
    rw [h1, h2]
    simp only [unvisited, ne_eq, not_true_eq_false, if_false, Bool.false_eq_true]
    omega
  omega

theorem runND_snoc {s s' : State} {i : Inst} {as : List Nat} {a : Nat} (h : RunND env i s as s')
    (hd : env.done i s' = false) (ha : a < env.nAct i) (hm : env.mask i s' a = true) :
    RunND env i s (as ++ [a]) (env.step i s' a) := by
  induction h with
  | nil s => exact RunND.cons hd ha hm (RunND.nil _)
  | cons h1 h2 h3 _ ih => exact RunND.cons h1 h2 h3 (ih hd hm)

/-- (3') progress: as long as the episode is not finished, an admitted action exists and every admitted
action decreases the measure, so the decoding loop reaches `done` without ever seeing an empty mask. -/
theorem progress (i : Inst) (hwf : wf i = true) {as : List Nat} {s : State}
    (h : RunND env i (env.reset i) as s) (hd : env.done i s = false) :
    ∃ a, a < env.nAct i ∧ env.mask i s a = true ∧ as.length + 1 ≤ 2 * i.n + 1 := by
  obtain ⟨a, ha, hm⟩ := mask_nonempty i s
  refine ⟨a, ha, hm, ?_⟩
  have hsn := runND_snoc h hd ha hm
  have := steps_le i hwf hsn
  simpa using this

/-- one customer whose direct arrival time EQUALS its deadline (travel time 256, deadline 256): well-formed,
and the episode `[1, 0]` is offered by the mask and finishes (before upstream commit 6a508fb the customer was
never offered and the environment idled at the depot forever) -/
def idleInst : Inst :=
  { n := 1, cap := 4, dL := fun j => if j = 0 then 0 else 1, dB := fun _ => 0, openR := false, limit := none,
    early := fun _ => 0, late := fun j => some (if j = 0 then 2048 else 256), service := fun _ => 0,
    D := fun a b => if a = b then 0 else 256, T := fun a b => if a = b then 0 else 256 }
example : wf idleInst = true := by decide
example : ∃ s, Run env idleInst (env.reset idleInst) [1, 0] s ∧ env.done idleInst s = true :=
  ⟨_, (run_iff_admitted _ _ _ _ _).2 ⟨by decide, rfl⟩, by decide⟩

/-- Non-vacuity of `wf` and of the bound: the three-step episode `[1, 2, 0]` on `exInst`
(closed routes, linehaul + backhaul, distance limit, time windows). -/
example : wf exInst = true := by decide
example : RunND env exInst (env.reset exInst) [1, 2, 0] (exec env exInst (env.reset exInst) [1, 2, 0]) := by
  refine RunND.cons (by decide) (by decide) (by decide) ?_
  refine RunND.cons (by decide) (by decide) (by decide) ?_
  refine RunND.cons (by decide) (by decide) (by decide) ?_
  exact RunND.nil _

end Rl4co.Mtvrp
