/-
C02 for PDP (equal-length family, both `force_start_at_depot` values): an unfinished reachable state
always offers a node (a pickup that is still open, or a delivery whose pickup has been made — never a
dead end); an episode is finished exactly after `n` (resp. `n + 1` with the forced depot start) steps,
so all rows of a rectangular batch finish together; `done` is absorbing; step bound.
-/
import Rl4co.Proofs.TspfamPdp

namespace Rl4co.Pdp
open Rl4co.Tspfam

/-- episode length: `n`, plus one for the forced depot start -/
def len (i : Inst) : Nat := if i.force then i.n + 1 else i.n

/-- non-degenerate instance: at least one pair, or the forced start (whose episode is `[0]`) -/
def WF (i : Inst) : Prop := 0 < len i

theorem todo_eq (i : Inst) : availEnv.todo i = len i := rfl

/-- (1) no dead end before the episode is finished -/
theorem mask_nonempty (i : Inst) (hwf : WF i) {s : State} (h : Reach env i s)
    (hd : env.done i s = false) : ∃ a, a < env.nAct i ∧ env.mask i s a = true := by
  obtain ⟨j, hj, hav⟩ := availEnv.avail_of_not_done hwf h hd
  obtain ⟨as, hr⟩ := h
  have hinv := availEnv.inv_of_run hr (availEnv.inv_reset i)
  simp only [availEnv, env] at hj hav
  rcases hinv with ⟨hf, hs⟩ | hm
  · exact ⟨0, by simp [env], by subst hs; simp [env, mask, reset, hf]⟩
  · have hj0 : j ≠ 0 := by intro h0; rw [h0, hm.av0] at hav; cases hav
    by_cases hjh : j ≤ i.h
    · exact ⟨j, hj, by simp [env, mask, hm.am j, hav, hm.tdp j hjh]⟩
    · -- a delivery `p + h`: either its pickup is still open (offered), or the delivery itself is
      have hp1 : 1 ≤ j - i.h := by omega
      have hp2 : j - i.h ≤ i.h := by simp only [Inst.n] at hj; omega
      have hjp : j - i.h + i.h = j := by omega
      by_cases hpav : s.avail (j - i.h) = true
      · exact ⟨j - i.h, by simp only [env, Inst.n]; omega,
          by simp [env, mask, hm.am (j - i.h), hpav, hm.tdp (j - i.h) hp2]⟩
      · have htd := hm.tdd (j - i.h) hp1 hp2
        rw [hjp] at htd
        have : s.avail (j - i.h) = false := by simpa using hpav
        exact ⟨j, hj, by simp [env, mask, hm.am j, hav, htd, this]⟩

/-- (2) finished ⇔ exactly `len` steps were taken -/
theorem run_length (i : Inst) (hwf : WF i) {as : List Nat} {s : State}
    (h : Run env i (env.reset i) as s) : env.done i s = true ↔ as.length = len i :=
  availEnv.run_length hwf h

/-- (3) a finished instance never becomes unfinished again, whatever node is stepped -/
theorem done_stable (i : Inst) (hwf : WF i) {s : State} (h : Reach env i s)
    (hd : env.done i s = true) (a : Nat) : env.done i (env.step i s a) = true :=
  availEnv.done_stable hwf h hd a

/-- (4) step bound -/
theorem steps_le (i : Inst) {as : List Nat} {s : State} (h : Run env i (env.reset i) as s) :
    as.length ≤ len i :=
  availEnv.length_le h

example : WF ⟨2, false, fun _ _ => 1⟩ := by simp [WF, len, Inst.n]
example : WF ⟨0, true, fun _ _ => 1⟩ := by simp [WF, len]
example : Reach env ⟨2, false, fun _ _ => 1⟩
    (exec env ⟨2, false, fun _ _ => 1⟩ (env.reset ⟨2, false, fun _ _ => 1⟩) [1, 3]) :=
  ⟨[1, 3], (run_iff_admitted _ _ _ _ _).2 ⟨by decide, rfl⟩⟩

end Rl4co.Pdp
