/-
C02 for CVRP: (1) every state — finished or not — offers at least one action, so a finished row stays
steppable while batch-mates run; (2) `done` is absorbing; (3) with demands within capacity, every
mask-confined episode is finished after at most 2n+1 steps.
-/
import Rl4co.Env.Cvrp

namespace Rl4co.Cvrp

/-- (1) The mask is never empty, in any state whatsoever. -/
theorem mask_nonempty (i : Inst) (s : State) : ∃ a, a < env.nAct i ∧ env.mask i s a = true := by
  by_cases h : (s.cur == 0 && anyLoc i s) = true
  · simp only [Bool.and_eq_true, anyLoc, List.any_eq_true, List.mem_range] at h
    obtain ⟨_, k, hk, hl⟩ := h
    exact ⟨k + 1, by simp [env]; omega, by simp [env, mask, hl]⟩
  · exact ⟨0, by simp [env], by simp only [env, mask, if_true]; cases hh : (s.cur == 0 && anyLoc i s) <;> simp_all⟩


/-- (2) A finished instance never becomes unfinished again (whatever is stepped). -/
theorem done_stable (i : Inst) (s : State) (a : Nat) (hd : env.done i s = true) :
    env.done i (env.step i s a) = true := by
  have h1 : cnt (i.n + 1) s.vis = i.n + 1 := by
    simpa [env, done, Params.cvrpDoneCmp, Cmp.evalNat] using hd
  have hall := cnt_eq_n.mp h1
  have : cnt (i.n + 1) (upd s.vis a true) = i.n + 1 := by
    apply cnt_eq_n.mpr
    intro j hj
    simp only [upd_apply]; split
    · rfl
    · exact hall j hj
  simpa [env, done, step, Params.cvrpDoneCmp, Cmp.evalNat] using this

/-- number of unvisited customers -/
def unvisited (i : Inst) (s : State) : Nat := cnt i.n (fun k => !s.vis (k + 1))

/-- termination measure: 2·#unvisited customers + [not at depot] + [depot not yet visited] -/
def mu (i : Inst) (s : State) : Nat :=
  2 * unvisited i s + (if s.cur ≠ 0 then 1 else 0) + (if s.vis 0 then 0 else 1)

/-- well-formed instance: every demand fits into an empty vehicle -/
def WF (i : Inst) : Prop := ∀ j, 1 ≤ j → j ≤ i.n → i.demand j ≤ i.cap

/-- invariant: at the depot the vehicle is empty -/
def AtDepotEmpty (s : State) : Prop := s.cur = 0 → s.used = 0

theorem inv_step (i : Inst) (s : State) (a : Nat) (_ : AtDepotEmpty s) : AtDepotEmpty (step i s a) := by
  intro h; simp only [step] at h ⊢; simp [h]

theorem unvisited_step_customer (i : Inst) (s : State) (a : Nat) (h0 : a ≠ 0) (ha : a < i.n + 1)
    (hv : s.vis a = false) : unvisited i (step i s a) + 1 = unvisited i s := by
  unfold unvisited
  have : (fun k => !(step i s a).vis (k + 1)) = upd (fun k => !s.vis (k + 1)) (a - 1) false := by
    funext k
    simp only [step, upd_apply]
    by_cases hk : k + 1 = a
    · have : k = a - 1 := by omega
      rw [if_pos hk, if_pos this]; rfl
    · have : k ≠ a - 1 := by omega
      rw [if_neg hk, if_neg this]
  rw [this]
  apply cnt_upd_false (by omega)
  have : a - 1 + 1 = a := by omega
  simp [this, hv]

theorem unvisited_step_depot (i : Inst) (s : State) : unvisited i (step i s 0) = unvisited i s := by
  unfold unvisited
  apply cnt_congr
  intro j _
  simp [step, upd_apply]

/-- every admitted step from an unfinished state strictly decreases the measure -/
theorem mu_decreases (i : Inst) (hwf : WF i) (s : State) (a : Nat) (hinv : AtDepotEmpty s)
    (hd : env.done i s = false) (ha : a < env.nAct i) (hm : env.mask i s a = true) :
    mu i (env.step i s a) < mu i s := by
  simp only [env] at ha hm hd ⊢
  by_cases h0 : a = 0
  · subst h0
    have hu := unvisited_step_depot i s
    simp only [mask, if_true, Bool.not_eq_true', Bool.and_eq_false_iff] at hm
    by_cases hc : s.cur = 0
    · -- at the depot with no customer offered: all customers are visited, so the depot is unvisited
      have hany : anyLoc i s = false := by
        rcases hm with h | h
        · simp [hc] at h
        · exact h
      have hallv : ∀ k, k < i.n → s.vis (k + 1) = true := by
        intro k hk
        simp only [anyLoc, List.any_eq_false, List.mem_range] at hany
        have := hany k hk
        simp only [locOk, Params.cvrpMaskCapCmp, Cmp.eval, Bool.and_eq_true, Bool.not_eq_true',
          decide_eq_false_iff_not, not_and, Bool.not_eq_false] at this
        by_cases hv : s.vis (k + 1) = true
        · exact hv
        · exfalso
          have h2 := this (by simpa using hv)
          have := hwf (k + 1) (by omega) (by omega)
          have := hinv hc
          omega
      have hv0 : s.vis 0 = false := by
        by_cases hv : s.vis 0 = true
        · exfalso
          have : cnt (i.n + 1) s.vis = i.n + 1 := by
            apply cnt_eq_n.mpr
            intro j hj
            cases j with
            | zero => exact hv
            | succ k => exact hallv k (by omega)
          simp [done, Params.cvrpDoneCmp, Cmp.evalNat, this] at hd
        · simpa using hv
      simp only [mu, hu]
      simp [step, hc, hv0]
    · simp only [mu, hu]
      simp only [step, upd_same]
      simp [hc]
      split <;> omega
  · have hm' := hm
    simp only [mask, h0, if_false, locOk, Bool.and_eq_true, Bool.not_eq_true'] at hm'
    have hu := unvisited_step_customer i s a h0 ha hm'.1
    simp only [mu]
    have hv0 : (step i s a).vis 0 = s.vis 0 := by
      simp only [step, upd_apply]
      have : (0 : Nat) ≠ a := fun h => h0 h.symm
      simp [this]
    rw [hv0]
    have : (step i s a).cur = a := rfl
    rw [this]
    simp only [h0, ne_eq, not_false_eq_true, if_true]
    split <;> omega

/-- (3) Step bound: a mask-confined run through unfinished states has at most `2n+1` steps. -/
theorem steps_le (i : Inst) (hwf : WF i) {as : List Nat} {s : State}
    (h : RunND env i (env.reset i) as s) : as.length ≤ 2 * i.n + 1 := by
  have := steps_le_of_measure (e := env) (i := i) (mu i) AtDepotEmpty
    (fun s a hi _ _ => inv_step i s a hi)
    (fun s a hi hd ha hm => mu_decreases i hwf s a hi hd ha hm) h
    (by intro _; rfl)
  have h0 : mu i (env.reset i) ≤ 2 * i.n + 1 := by
    simp only [mu, env, reset]
    have hle := cnt_le i.n (fun k => !(reset i).vis (k + 1))
    show 2 * unvisited i (reset i) + (if (reset i).cur ≠ 0 then 1 else 0) +
      (if (reset i).vis 0 then 0 else 1) ≤ 2 * i.n + 1
    have h1 : (reset i).cur = 0 := rfl
    have h2 : (reset i).vis 0 = false := rfl
    rw [h1, h2]
    simp only [unvisited, ne_eq, not_true_eq_false, if_false, Bool.false_eq_true]
    omega
  omega

/-- (3') hence an unfinished reachable state still has an admitted action and the episode makes
progress until it is finished: combination used by the decoding-loop argument. -/
theorem progress (i : Inst) (s : State) : ∃ a, a < env.nAct i ∧ env.mask i s a = true :=
  mask_nonempty i s

/-- Non-vacuity of `WF` and of the bound: two customers, the three-step episode `[1,2,0]`. -/
example : WF ⟨2, 8, fun _ => 4, fun _ _ => 1⟩ := by intro j _ _; simp
example : RunND env ⟨2, 8, fun _ => 4, fun _ _ => 1⟩ (env.reset ⟨2, 8, fun _ => 4, fun _ _ => 1⟩) [1, 2, 0]
    (exec env ⟨2, 8, fun _ => 4, fun _ _ => 1⟩ (env.reset ⟨2, 8, fun _ => 4, fun _ _ => 1⟩) [1, 2, 0]) := by
  refine RunND.cons (by decide) (by decide) (by decide) ?_
  refine RunND.cons (by decide) (by decide) (by decide) ?_
  refine RunND.cons (by decide) (by decide) (by decide) ?_
  exact RunND.nil _

end Rl4co.Cvrp
