/-
C02 for FFSP.  (1) `_move_to_next_machine` terminates: the model's loop has fuel `(maxWait+2)·M·S` and
the fuel is never exhausted — it always stops on a machine that is idle and has a job available.
(2) Every state of a row — unfinished, or finished while a batch-mate is still running — offers an
action; a finished row is offered exactly the wait action.  (3) `done` is absorbing.  (4) Every step
of an unfinished row strictly advances the clock `(time_idx, sub_time_idx)` lexicographically; with
`time_idx` never exceeds the total work `D` (longest durations, a 0 counted as 1) — for all durations
≥ 0 — hence at most `(D+1)·M·S` steps.

Scope (see the unit's notes): states up to and including the step at which the whole batch is
finished.  After that step the stored mask is stale (`_update_step_state` is skipped); it still
offers the job scheduled last, whose selection would un-finish the row — `stale_mask_after_all_done`.
-/
import Rl4co.Proofs.FfspWork
namespace Rl4co.Ffsp

/-- (1) **Termination of `_move_to_next_machine`** for every unfinished row satisfying the schedule
invariant: the loop ends, within its fuel, on an idle machine with an available job. -/
theorem move_terminates (i : Inst) (h : WF i) (s : State) (c : Core i s) (hd : s.done = false) :
    ready i (moveNext i s) = true := by
  unfold moveNext
  simp only [hd, Bool.false_eq_true, if_false]
  apply moveLoop_fuel_enough i h _ c.sub_lt
  rw [c.done_eq] at hd
  obtain ⟨j, hj, hne⟩ := not_allAtEnd hd
  have := c.loc_le j hj
  exact ⟨j, hj, by omega⟩

theorem mask_nonempty_live (i : Inst) (s : State) (l : Live i s) : ∃ a, a < i.J + 1 ∧ s.mask a = true := by
  cases hd : s.done with
  | true => exact ⟨i.J, by omega, mask_wait i s l.fresh hd⟩
  | false =>
    have hr := l.rdy hd
    simp only [ready, Bool.and_eq_true, List.any_eq_true, List.mem_range] at hr
    obtain ⟨_, j, hj, hjr⟩ := hr
    exact ⟨j, by omega, by rw [mask_job i s l.fresh hj]; exact hjr⟩

/-- (2) **No dead ends, finished rows included**: every state of a row whose batch is still running
offers at least one action. -/
theorem mask_nonempty (i : Inst) (h : WF i) {s : State} (hr : Reach envM i s) :
    ∃ a, a < envM.nAct i ∧ envM.mask i s a = true :=
  mask_nonempty_live i s (live_of_reach i h hr)

/-- (2') the instance stepped alone: every unfinished state offers an action. -/
theorem mask_nonempty_solo (i : Inst) (h : WF i) {as : List Nat} {s : State}
    (hr : RunND env i (env.reset i) as s) (hd : s.done = false) :
    ∃ a, a < env.nAct i ∧ env.mask i s a = true :=
  mask_nonempty_live i s ((solo_inv' i h (live_reset i h) rfl hr).2.1 hd)

/-- (2'') a finished row next to running batch-mates is offered exactly the wait action. -/
theorem finished_offers_wait_only (i : Inst) (h : WF i) {s : State} (hr : Reach envM i s)
    (hd : s.done = true) (a : Nat) : s.mask a = decide (a = i.J) :=
  mask_of_done i s (live_of_reach i h hr) hd a

/-- (3) **`done` is absorbing** under every admitted step, whatever the batch-mates do. -/
theorem done_stable (i : Inst) (h : WF i) {s : State} (hr : Reach envM i s) (hd : s.done = true)
    (a : Nat) (hm : s.mask a = true) (g : Bool) : (stepG i s a g).done = true :=
  done_stable_live i h s (live_of_reach i h hr) hd a hm g

/-- clock position `time_idx · (M·S) + sub_time_idx` -/
def pos (i : Inst) (s : State) : Nat := s.time * MT i + s.sub

/-- (4) **Lexicographic progress**: a step after which the row is still unfinished strictly advances
`(time_idx, sub_time_idx)`. -/
theorem clock_increases (i : Inst) (h : WF i) {s : State} (hr : Reach envM i s) (a : Nat)
    (ha : a < i.J + 1) (hm : s.mask a = true) (hd : (stepM i s a).done = false) :
    pos i s < pos i (stepM i s a) := by
  have l := live_of_reach i h hr
  have c1 := core_apply i h s l a ha hm
  have hd1 : (apply i s a).done = false := by
    have : (stepM i s a).done = (moveNext i (apply i s a)).done := rfl
    rw [this, moveNext_done i h _ c1] at hd; exact hd
  have hpos : pos i (stepM i s a) = pos i (moveNext i (apply i s a)) := rfl
  rw [hpos]
  unfold moveNext
  simp only [hd1, Bool.false_eq_true, if_false]
  obtain ⟨n, _, hn1, he⟩ := moveLoop_is_iter i (moveFuel i (apply i s a)) (apply i s a)
  have hf : moveFuel i (apply i s a) ≥ 1 := by
    unfold moveFuel
    have := MT_pos h
    exact Nat.mul_pos (by omega) this
  obtain ⟨c, h1, _, h3, _⟩ := iter_closed i (MT_pos h) (apply i s a) c1.sub_lt n
  rw [he]
  unfold pos
  rw [h3]
  have e1 : (apply i s a).time = s.time := rfl
  have e2 : (apply i s a).sub = s.sub := rfl
  rw [e1] at *; rw [e2] at h1
  rw [Nat.add_mul, Nat.mul_comm c (MT i)]
  have := hn1 hf
  omega


/-- (4b) **Time bound**: the clock of an unfinished row never exceeds the
total work `D = Σ_job Σ_stage max(1, longest duration of the job in that stage)` — zero durations included. -/
theorem time_le_work (i : Inst) (h : WF i) {s : State} (hr : Reach envM i s)
    (hd : s.done = false) : s.time ≤ totalWork i := by
  have := ((live_prog_of_reach i h hr).2 hd).pot.1
  unfold phi at this; omega

theorem pos_lt_bound (i : Inst) (h : WF i) {s : State} (hr : Reach envM i s)
    (hd : s.done = false) : pos i s < stepBound i := by
  have h1 := time_le_work i h hr hd
  have h2 := (live_of_reach i h hr).core.sub_lt
  unfold pos stepBound
  rw [Nat.succ_mul]
  have := Nat.mul_le_mul_right (MT i) h1
  omega

/-- (4b') **Iteration bound of `_move_to_next_machine`, from the instance data.**  The `while` body runs
`n ≥ 1` times in a step that leaves the row unfinished, each run advances the clock position by one, and
the position stays below `(D+1)·M·S`: so `n ≤ (D+1)·M·S − pos`, and over a whole episode the body runs
fewer than `(D+1)·M·S` times in total (`D`, `M`, `S` are instance data; no state-dependent fuel). -/
theorem move_iterations_le (i : Inst) (h : WF i) {s : State} (hr : Reach envM i s) (a : Nat)
    (ha : a < i.J + 1) (hm : s.mask a = true) (hd : (stepM i s a).done = false) :
    ∃ n, 1 ≤ n ∧ moveNext i (apply i s a) = iter i n (apply i s a) ∧
      pos i (stepM i s a) = pos i s + n ∧ pos i s + n < stepBound i := by
  have l := live_of_reach i h hr
  have c1 := core_apply i h s l a ha hm
  have hd1 : (apply i s a).done = false := by
    have : (stepM i s a).done = (moveNext i (apply i s a)).done := rfl
    rw [this, moveNext_done i h _ c1] at hd; exact hd
  have hre' : Reach envM i (stepM i s a) := by
    obtain ⟨bs, hb⟩ := hr; exact ⟨bs ++ [a], hb.snoc ha hm⟩
  have hlt := pos_lt_bound i h hre' hd
  have hmv : moveNext i (apply i s a) = moveLoop i (moveFuel i (apply i s a)) (apply i s a) := by
    simp [moveNext, hd1]
  obtain ⟨n, _, hn1, he⟩ := moveLoop_is_iter i (moveFuel i (apply i s a)) (apply i s a)
  have hf : moveFuel i (apply i s a) ≥ 1 := by
    unfold moveFuel; exact Nat.mul_pos (by omega) (MT_pos h)
  obtain ⟨c, h1, _, h3, _⟩ := iter_closed i (MT_pos h) (apply i s a) c1.sub_lt n
  have hpos : pos i (stepM i s a) = pos i s + n := by
    have e0 : pos i (stepM i s a) = pos i (moveNext i (apply i s a)) := rfl
    rw [e0, hmv, he]
    unfold pos
    rw [h3]
    have e1 : (apply i s a).time = s.time := rfl
    have e2 : (apply i s a).sub = s.sub := rfl
    rw [e1] at *; rw [e2] at h1
    rw [Nat.add_mul, Nat.mul_comm c (MT i)]
    omega
  exact ⟨n, hn1 hf, by rw [hmv, he], hpos, by omega⟩

/-- termination measure: remaining clock positions below the bound (0 once finished) -/
def mu (i : Inst) (s : State) : Nat := if s.done then 0 else stepBound i - pos i s

/-- (4c) **Step bound** (row of a batch, and hence any batch): an episode is finished after at most
`(D+1)·M·S` steps; the `J·S` scheduling steps are among them, the rest are waits. -/
theorem steps_le (i : Inst) (h : WF i) {as : List Nat} {s : State}
    (hr : RunND envM i (envM.reset i) as s) : as.length ≤ stepBound i := by
  have key := steps_le_of_measure (e := envM) (i := i) (mu i) (fun s => Reach envM i s)
    (fun s a ⟨bs, hb⟩ ha hm => ⟨bs ++ [a], hb.snoc ha hm⟩)
    (fun s a hre hd ha hm => by
      have hd0 : s.done = false := hd
      have hm0 : s.mask a = true := hm
      have hpl := pos_lt_bound i h hre hd0
      show mu i (stepM i s a) < mu i s
      unfold mu
      rw [hd0]
      cases hd' : (stepM i s a).done with
      | true => simp; omega
      | false =>
        have hre' : Reach envM i (stepM i s a) := by
          obtain ⟨bs, hb⟩ := hre; exact ⟨bs ++ [a], hb.snoc ha hm⟩
        have h1 := clock_increases i h hre a ha hm0 hd'
        have h2 := pos_lt_bound i h hre' hd'
        simp; omega)
    hr ⟨[], Run.nil _⟩
  have h0 : mu i (envM.reset i) ≤ stepBound i := by
    unfold mu; split
    · exact Nat.zero_le _
    · exact Nat.sub_le _ _
  omega

/-- a solo episode is, action for action, an episode of a row with running batch-mates (the two differ
only in the mask / reward fields of the terminal state) -/
theorem solo_to_mates (i : Inst) (h : WF i) : ∀ {as : List Nat} {s s' : State}, Live i s →
    RunND env i s as s' → ∃ s'', RunND envM i s as s'' := by
  intro as
  induction as with
  | nil => intro s s' _ hr; cases hr; exact ⟨s, RunND.nil _⟩
  | cons a as ih =>
    intro s s' l hr
    cases hr with
    | cons hd ha hm hrest =>
      have ha' : a < i.J + 1 := ha
      have hm' : s.mask a = true := hm
      cases hg : (apply i s a).done with
      | false =>
        have he : step i s a = stepM i s a := by simp [step, stepM, hg]
        have hrest' : RunND env i (stepM i s a) as s' := by rw [← he]; exact hrest
        obtain ⟨s'', hr''⟩ := ih (live_stepM i h s l a ha' hm') hrest'
        exact ⟨s'', RunND.cons hd ha hm hr''⟩
      | true =>
        have he : step i s a = stepG i s a true := by simp [step, hg]
        have hrest' : RunND env i (stepG i s a true) as s' := by rw [← he]; exact hrest
        have hdone : (stepG i s a true).done = true := by simp [stepG, finish, hg]
        cases hrest' with
        | nil => exact ⟨stepM i s a, RunND.cons hd ha hm (RunND.nil _)⟩
        | cons hd' _ _ _ =>
          have hd'' : (stepG i s a true).done = false := hd'
          rw [hdone] at hd''; cases hd''

/-- (4d) **Step bound, instance stepped alone.** -/
theorem steps_le_solo (i : Inst) (h : WF i) {as : List Nat} {s : State}
    (hr : RunND env i (env.reset i) as s) : as.length ≤ stepBound i := by
  obtain ⟨_, hr'⟩ := solo_to_mates i h (live_reset i h) hr
  exact steps_le i h hr'

/-- Scope remark made precise: after the step that finishes the whole batch the stored mask is stale —
it still offers the job scheduled last, and taking it would un-finish the row. -/
def one : Inst := ⟨1, 1, 1, fun _ _ => 1, fun p => p, true⟩
theorem stale_mask_after_all_done :
    (step one (reset one) 0).done = true ∧ (step one (reset one) 0).mask 0 = true ∧
    (apply one (step one (reset one) 0) 0).done = false := by decide

/-- Non-vacuity: `WF` holds for `one`, whose one-step episode finishes within the bound. -/
example : WF one := ⟨by decide, by decide, by decide, fun p hp => hp, fun j m _ _ => small_lt_unset (by simp [one])⟩
example : RunND envM one (envM.reset one) [0] (stepM one (reset one) 0) :=
  RunND.cons (by decide) (by decide) (by decide) (RunND.nil _)
example : (stepM one (reset one) 0).done = true ∧ (stepM one (reset one) 0).mask 1 = true := by decide

/-- Non-vacuity of the bound for zero durations: 2 jobs of duration 0 on one machine take two time units
(the clock wraps with no machine busy); `D = 2`, bound `(2+1)·1 = 3`. -/
def zero2 : Inst := ⟨1, 1, 2, fun _ _ => 0, fun p => p, true⟩
example : WF zero2 := ⟨by decide, by decide, by decide, fun p hp => hp, fun j m _ _ => small_lt_unset (by simp [zero2])⟩
example : stepBound zero2 = 3 := by decide
example : RunND envM zero2 (envM.reset zero2) [0, 1] (exec envM zero2 (envM.reset zero2) [0, 1]) :=
  RunND.cons (by decide) (by decide) (by decide) (RunND.cons (by decide) (by decide) (by decide) (RunND.nil _))
example : (exec envM zero2 (envM.reset zero2) [0]).time = 1 ∧
    (exec envM zero2 (envM.reset zero2) [0, 1]).done = true := by decide

end Rl4co.Ffsp
