/-
C02 for OP: (1) every state whatsoever offers the depot, so a finished row stays steppable while
batch-mates run and no row is ever all-masked; (2) `done` is absorbing along mask-admitted steps from
reachable states; (3) every mask-confined episode is finished after at most `max (n+1) 2` steps
(`n+1` as soon as there is a customer; the degenerate bound 2 covers "depot at the very first step",
which the code does not count as a return).
-/
import Rl4co.Env.Op
import Rl4co.Props.C01.Op

namespace Rl4co.Op
open Rl4co.Prize

/-- (1) The mask is never empty, in any state: the depot is forced open. -/
theorem mask_nonempty (i : Inst) (s : State) : ∃ a, a < env.nAct i ∧ env.mask i s a = true :=
  ⟨0, by simp [env], by simp [env, mask, Params.opDepotForcedOpen]⟩

/-- state invariant: a finished state has returned to the depot after at least one step; the depot
is marked visited only after at least one step. -/
structure Inv (s : State) : Prop where
  done_vis : s.done = true → s.vis 0 = true
  vis_pos  : s.vis 0 = true → 0 < s.i

theorem inv_reset (i : Inst) : Inv (env.reset i) := ⟨by simp [env, reset], by simp [env, reset]⟩

theorem inv_step (i : Inst) (s : State) (a : Nat) (_ : Inv s) : Inv (env.step i s a) := by
  refine ⟨?_, ?_⟩
  · intro h
    simp only [env, step, Bool.and_eq_true, beq_iff_eq] at h
    simp [env, step, h.1]
  · intro _; simp [env, step]

theorem inv_of_reach' (i : Inst) {s : State} (h : Reach env i s) : Inv s :=
  inv_of_reach (Inv := Inv) (inv_reset i) (fun s a hi _ _ => inv_step i s a hi) h

/-- in a state whose depot is marked visited, the mask offers exactly the depot -/
theorem mask_of_vis0 (i : Inst) (s : State) (hv : s.vis 0 = true) (a : Nat) :
    env.mask i s a = decide (a = 0) := by
  by_cases h0 : a = 0
  · subst h0; simp [env, mask, Params.opDepotForcedOpen]
  · simp [env, mask, h0, baseMask, hv]

/-- (2) A finished instance never becomes unfinished again. -/
theorem done_stable (i : Inst) (s : State) (a : Nat) (hr : Reach env i s)
    (hd : env.done i s = true) (hm : env.mask i s a = true) :
    env.done i (env.step i s a) = true := by
  have hinv := inv_of_reach' i hr
  have hv := hinv.done_vis hd
  have hi := hinv.vis_pos hv
  have ha : a = 0 := by
    have := mask_of_vis0 i s hv a
    rw [hm] at this
    simpa using this.symm
  subst ha
  simp [env, done, step, Params.opDoneCmp, Cmp.evalNat, hi]

/-- number of unvisited customers -/
def unvisited (i : Inst) (s : State) : Nat := cnt i.n (fun k => !s.vis (k + 1))

theorem unvisited_step_customer (i : Inst) (s : State) (a : Nat) (h0 : a ≠ 0) (ha : a < i.n + 1)
    (hv : s.vis a = false) : unvisited i (step i s a) + 1 = unvisited i s := by
  unfold unvisited
  have : (fun k => !(step i s a).vis (k + 1)) = upd (fun k => !s.vis (k + 1)) (a - 1) false := by
    funext k
    simp only [step, upd_apply]
    by_cases hk : k + 1 = a
    · have : k = a - 1 := by omega
      rw [if_pos hk, if_pos this]; rfl
    · have : k ≠ a - 1 := by omega
      rw [if_neg hk, if_neg this]
  rw [this]
  apply cnt_upd_false (by omega)
  have : a - 1 + 1 = a := by omega
  simp [this, hv]

/-- termination measure, with slack `c` for the depot-first episode -/
def mu (c : Nat) (i : Inst) (s : State) : Nat :=
  if s.done then 0 else if s.vis 0 then 1 else unvisited i s + c

/-- invariant for the sharp bound: before the first step nobody is visited -/
structure Inv2 (i : Inst) (s : State) : Prop extends Inv s where
  fresh : s.i = 0 → unvisited i s = i.n

theorem inv2_reset (i : Inst) : Inv2 i (env.reset i) := by
  refine ⟨inv_reset i, ?_⟩
  intro _
  have : cnt i.n (fun k => !(reset i).vis (k + 1)) = i.n := by
    apply cnt_eq_n.mpr; intro j _; simp [reset]
  simpa [env, unvisited] using this

theorem inv2_step (i : Inst) (s : State) (a : Nat) (h : Inv2 i s) : Inv2 i (env.step i s a) :=
  ⟨inv_step i s a h.toInv, by intro h0; simp [env, step] at h0⟩

/-- every admitted step from an unfinished state strictly decreases the measure
(`c = 2` always; `c = 1` as soon as there is a customer) -/
theorem mu_decreases (c : Nat) (i : Inst) (hc : c = 2 ∨ (c = 1 ∧ 1 ≤ i.n)) (s : State) (a : Nat)
    (hinv : Inv2 i s) (hd : env.done i s = false) (ha : a < env.nAct i)
    (hm : env.mask i s a = true) : mu c i (env.step i s a) < mu c i s := by
  simp only [env] at ha hm hd ⊢
  simp only [done] at hd
  by_cases h0 : a = 0
  · subst h0
    by_cases hi : s.i = 0
    · -- depot at the very first step: not a return
      have hv0 : s.vis 0 = false := by
        by_cases hv : s.vis 0 = true
        · have := hinv.vis_pos hv; omega
        · simpa using hv
      have hu := hinv.fresh hi
      simp only [mu, hd, hv0, step, hi, Params.opDoneCmp, Cmp.evalNat, upd_same]
      simp
      omega
    · have : (step i s 0).done = true := by
        simp [step, Params.opDoneCmp, Cmp.evalNat]; omega
      simp only [mu, this, hd, if_true]
      simp
      split <;> omega
  · obtain ⟨h1, h2, _⟩ := mask_customer h0 hm
    have hu := unvisited_step_customer i s a h0 ha h1
    have hd' : (step i s a).done = false := by simp [step, h0]
    have hv' : (step i s a).vis 0 = false := by
      simp only [step, upd_apply]
      have : (0 : Nat) ≠ a := fun h => h0 h.symm
      simp [this, h2]
    simp only [mu, hd, hd', hv', h2]
    simp
    omega

/-- (3) Step bound: a mask-confined run through unfinished states has at most `max (n+1) 2` steps. -/
theorem steps_le (i : Inst) {as : List Nat} {s : State}
    (h : RunND env i (env.reset i) as s) : as.length ≤ max (i.n + 1) 2 := by
  have key : ∀ c, (c = 2 ∨ (c = 1 ∧ 1 ≤ i.n)) → as.length ≤ i.n + c := by
    intro c hc
    have := steps_le_of_measure (e := env) (i := i) (mu c i) (Inv2 i)
      (fun s a hi _ _ => inv2_step i s a hi)
      (fun s a hi hd ha hm => mu_decreases c i hc s a hi hd ha hm) h (inv2_reset i)
    have h0 : mu c i (env.reset i) = i.n + c := by
      have := (inv2_reset i).fresh rfl
      simp only [env] at this
      simp [mu, env, reset]
      simpa [reset] using this
    omega
  by_cases hn : 1 ≤ i.n
  · have := key 1 (Or.inr ⟨rfl, hn⟩); omega
  · have := key 2 (Or.inl rfl); omega

/-- Non-vacuity of the bound: with one customer the two-step episode `[1, 0]` meets `n + 1`, and the
depot-first episode `[0, 0]` needs two steps as well. -/
example : RunND env exInst (env.reset exInst) [1, 0] (exec env exInst (env.reset exInst) [1, 0]) := by
  refine RunND.cons (by decide) (by decide) (by decide) ?_
  refine RunND.cons (by decide) (by decide) (by decide) ?_
  exact RunND.nil _
example : RunND env exInst (env.reset exInst) [0, 0] (exec env exInst (env.reset exInst) [0, 0]) := by
  refine RunND.cons (by decide) (by decide) (by decide) ?_
  refine RunND.cons (by decide) (by decide) (by decide) ?_
  exact RunND.nil _
example : env.done exInst (exec env exInst (env.reset exInst) [0, 0]) = true := by decide

end Rl4co.Op
