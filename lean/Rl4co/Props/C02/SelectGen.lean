/-
"Generated instances are solvable" for the selection family, as a chain of theorems:
generator post-condition ⇒ `WF` ⇒ no dead end + a complete feasible episode exists (C02 / C05),
together with the exact well-formedness condition of DPP / MDPP (`Dpp.no_dead_end_iff`): episodes are
dead-end free iff the instance has at least `max_decaps` allowed cells.  No Mathlib.
-/
import Rl4co.Env.SelectGen
import Rl4co.Props.C02.Flp
import Rl4co.Props.C02.Mcp
import Rl4co.Props.C02.Dpp
import Rl4co.Props.C05.SelectOpt
import Rl4co.Props.C05.Dpp
import Rl4co.Props.C18.Routing

namespace Rl4co

/-! ### FLP -/
namespace Flp

/-- generator post-condition ⇒ `WF`, under the parameter condition `1 ≤ to_choose ≤ num_loc`
(which `FLPGenerator.__init__` does not check) -/
theorem gen_wf (numLoc toChoose : Nat) (D : Nat → Nat → Int) (d0 : Nat → Int)
    (h1 : 1 ≤ toChoose) (h2 : toChoose ≤ numLoc) : WF (genInst numLoc toChoose D d0) :=
  ⟨by simp [genInst]; omega, by simp [genInst]; omega⟩

/-- the generator's defaults (extracted from the source) satisfy it -/
theorem gen_defaults_wf (D : Nat → Nat → Int) (d0 : Nat → Int) :
    WF (genInst Params.genFlpNumLoc Params.genFlpToChoose D d0) :=
  gen_wf _ _ D d0 (by decide) (by decide)

/-- **generated ⇒ solvable**: no dead end, and a complete episode attaining the optimum exists -/
theorem solvable (i : Inst) (hwf : WF i) :
    (∀ as s, Run env i (env.reset i) as s → env.done i s = false → ∃ a, a < env.nAct i ∧ env.mask i s a = true) ∧
    (∃ as s, RunND env i (env.reset i) as s ∧ env.done i s = true ∧ reward i s = Spec.Flp.optimum i) :=
  ⟨fun _ _ h hd => progress i hwf h hd, (best_reward_eq_optimum i hwf).1⟩

/-- the parameter condition is needed: `num_loc = 1`, `to_choose = 2` dead-ends after one step -/
example : let i := genInst 1 2 (fun _ _ => 0) (fun _ => 0)
    env.done i (exec env i (env.reset i) [0]) = false ∧ env.mask i (exec env i (env.reset i) [0]) 0 = false := by
  decide

end Flp

/-! ### MCP -/
namespace Mcp

theorem gen_wf (numItems numSets nChoose maxSize : Nat) (items : Nat → List Nat) (sizes : Nat → Nat)
    (w : Nat → Int) (h1 : 1 ≤ nChoose) (h2 : nChoose ≤ numSets) :
    WF (genInst numItems numSets nChoose maxSize items sizes w) :=
  ⟨by simp [genInst]; omega, by simp [genInst]; omega⟩

theorem gen_defaults_wf (maxSize : Nat) (items : Nat → List Nat) (sizes : Nat → Nat) (w : Nat → Int) :
    WF (genInst Params.genMcpNumItems Params.genMcpNumSets Params.genMcpNSetsToChoose maxSize items sizes w) :=
  gen_wf _ _ _ _ _ _ _ (by decide) (by decide)

/-- every generated membership entry is padding (`0`) or an item id in `1 … num_items`
(link to the generator model: `Gen.mcp_gen_total`), so the environment's scatter into an
`(n_items + 1)`-wide buffer stays in range -/
theorem gen_ids_in_range (numItems numSets nChoose maxSize : Nat) (items : Nat → List Nat)
    (sizes : Nat → Nat) (w : Nat → Int)
    (hitems : ∀ j, ∀ x ∈ items j, 1 ≤ x ∧ x ≤ numItems) (j k : Nat) :
    (genInst numItems numSets nChoose maxSize items sizes w).mem j k ≤ numItems := by
  show (Gen.mcpRow (items j) (sizes j)).getD k 0 ≤ numItems
  rw [List.getD_eq_getElem?_getD]
  cases hget : (Gen.mcpRow (items j) (sizes j))[k]? with
  | none => simp
  | some x =>
    simp only [Option.getD_some]
    have hmem : x ∈ Gen.mcpRow (items j) (sizes j) := List.mem_of_getElem? hget
    rcases (Gen.mcp_gen_total (items j) (sizes j)).2.2 _ hmem with h | h
    · omega
    · exact (hitems j _ (List.mem_of_mem_take h)).2

theorem solvable (i : Inst) (hwf : WF i) :
    (∀ as s, Run env i (env.reset i) as s → env.done i s = false → ∃ a, a < env.nAct i ∧ env.mask i s a = true) ∧
    (∃ as s, RunND env i (env.reset i) as s ∧ env.done i s = true ∧ reward i s = Spec.Mcp.optimum i) :=
  ⟨fun _ _ h hd => progress i hwf h hd, (best_reward_eq_optimum i hwf).1⟩

end Mcp

/-! ### DPP / MDPP -/
namespace Dpp

theorem clearCells_le (m : Nat → Bool) (cs : List Nat) (j : Nat) (h : clearCells m cs j = true) : m j = true := by
  induction cs generalizing m with
  | nil => exact h
  | cons c cs ih =>
    have := ih (upd m c false) h
    by_cases hj : j = c
    · subst hj; simp at this
    · simpa [upd, hj] using this

theorem clearCells_cleared (m : Nat → Bool) (cs : List Nat) (c : Nat) (hc : c ∈ cs) : clearCells m cs c = false := by
  induction cs generalizing m with
  | nil => cases hc
  | cons d cs ih =>
    rcases List.mem_cons.mp hc with h | h
    · subst h
      cases hx : clearCells (upd m c false) cs c
      · exact hx
      · have := clearCells_le _ _ _ hx; simp at this
    · exact ih (upd m d false) h

/-- clearing `|cs|` cells removes at most `|cs|` available cells -/
theorem clearCells_cnt (n : Nat) (m : Nat → Bool) (cs : List Nat) :
    cnt n m ≤ cnt n (clearCells m cs) + cs.length := by
  induction cs generalizing m with
  | nil => simp [clearCells]
  | cons c cs ih =>
    have h1 := ih (upd m c false)
    have h2 : cnt n m ≤ cnt n (upd m c false) + 1 := by
      by_cases hc : c < n ∧ m c = true
      · have := cnt_upd_false (n := n) (p := m) hc.1 hc.2; omega
      · have : cnt n (upd m c false) = cnt n m := by
          apply cnt_congr; intro j hj
          by_cases hjc : j = c
          · subst hjc
            have : m j = false := by
              cases hm : m j
              · rfl
              · exact absurd ⟨hj, hm⟩ hc
            simp [upd, this]
          · simp [upd, hjc]
        omega
    simp only [clearCells, List.length_cons]; omega

/-- **DPP generator post-condition ⇒ `WF`**: with `|keepouts| + 1 + max_decaps ≤ n` (the generator draws
fewer than `num_keepout_max` keep-outs) the instance is well-formed, and the probe is pre-masked. -/
theorem gen_wf (n quota probe : Nat) (keepouts : List Nat) (hq : 1 ≤ quota)
    (hroom : keepouts.length + 1 + quota ≤ n) : WF (genDpp n quota probe keepouts) := by
  refine ⟨by simp [genDpp]; omega, ?_, Or.inr ?_⟩
  · have h := clearCells_cnt n (fun _ => true) (probe :: keepouts)
    rw [cnt_true] at h
    have : cnt n (allowed0 (genDpp n quota probe keepouts)) = cnt n (clearCells (fun _ => true) (probe :: keepouts)) :=
      cnt_congr (fun j _ => by simp [allowed0, reset, genDpp])
    simp only [genDpp, List.length_cons] at h ⊢
    simp only [genDpp] at this
    rw [this]; omega
  · intro j hj
    have : j = probe := by simpa [genDpp] using hj
    subst this
    exact clearCells_cleared _ _ _ (by simp)

/-- **MDPP generator post-condition ⇒ `WF`** (`MDPPEnv` re-masks the probes itself) -/
theorem gen_wf_mdpp (n quota p0 : Nat) (probes keepouts : List Nat) (hq : 1 ≤ quota)
    (hroom : probes.length + keepouts.length + 1 + quota ≤ n) : WF (genMdpp n quota p0 probes keepouts) := by
  refine ⟨by simp [genMdpp]; omega, ?_, Or.inl rfl⟩
  have h := clearCells_cnt n (fun _ => true) (p0 :: (probes ++ keepouts))
  rw [cnt_true] at h
  have : cnt n (allowed0 (genMdpp n quota p0 probes keepouts)) =
      cnt n (clearCells (fun _ => true) (p0 :: (probes ++ keepouts))) := by
    apply cnt_congr; intro j _
    simp only [allowed0, reset, genMdpp, Params.mdppResetProbeNegated, if_true]
    cases hp : probes.contains j
    · simp
    · have hmem : j ∈ p0 :: (probes ++ keepouts) := by
        have : j ∈ probes := by simpa using hp
        simp [this]
      simp [clearCells_cleared _ _ _ hmem]
  simp only [genMdpp] at this ⊢
  rw [this]
  simp only [List.length_cons, List.length_append] at h
  omega

/-- the defaults of both generators on the shipped 10×10 grid leave room for `max_decaps`:
DPP clears ≤ 1 + (num_keepout_max − 1) cells, MDPP ≤ 1 + (num_probes_max − 1) + (num_keepout_max − 1) -/
theorem gen_defaults_wf :
    (Params.genDppNumKeepoutMax - 1) + 1 + Params.genDppMaxDecaps ≤ 100 ∧ 1 ≤ Params.genDppMaxDecaps ∧
    (Params.genMdppNumProbesMax - 1) + (Params.genMdppNumKeepoutMax - 1) + 1 + Params.genMdppMaxDecaps ≤ 100 ∧
    1 ≤ Params.genMdppMaxDecaps := by decide

/-- all allowed cells, in increasing order -/
def allowedCells (i : Inst) : List Nat := (List.range i.n).filter (allowed0 i)

theorem allowedCells_spec (i : Inst) :
    (allowedCells i).length = cnt i.n (allowed0 i) ∧ (allowedCells i).Nodup ∧
    ∀ a, a ∈ allowedCells i ↔ a < i.n ∧ allowed0 i a = true :=
  ⟨rfl, (List.nodup_range).filter _, fun a => by simp [allowedCells, List.mem_filter]⟩

/-- **exact well-formedness (DPP / MDPP)**: for a positive quota, every unfinished reachable state
offers an action **iff** the instance has at least `max_decaps` allowed cells.  (⇐ is `progress`;
⇒: otherwise placing a decap on every allowed cell is a mask-confined run that ends unfinished with an
empty mask.) -/
theorem no_dead_end_iff (i : Inst) (hq : 1 ≤ i.quota) :
    (∀ as s, Run env i (env.reset i) as s → env.done i s = false → ∃ a, a < env.nAct i ∧ env.mask i s a = true)
      ↔ i.quota ≤ cnt i.n (allowed0 i) := by
  constructor
  · intro h
    apply Classical.byContradiction
    intro hlt
    obtain ⟨hlen, hnd, hmem⟩ := allowedCells_spec i
    have hshort : ((allowedCells i).length : Int) ≤ i.quota := by rw [hlen]; omega
    obtain ⟨s, hr⟩ := Sel.runND_of_prefix view (i := i) hq (allowedCells i) hshort hnd
      (fun a ha => (hmem a).mp ha)
    have hnot : env.done i s = false := by
      have := (not_congr (done_iff_quota i hq hr.run)).mpr (by rw [hlen]; omega)
      simpa using this
    obtain ⟨a, ha, hm⟩ := h _ _ hr.run hnot
    rw [mask_eq_history i hr.run a] at hm
    simp only [Bool.and_eq_true, Bool.not_eq_true', decide_eq_false_iff_not] at hm
    exact hm.2 ((hmem a).mpr ⟨ha, hm.1⟩)
  · intro hc as s hr hd
    apply mask_nonempty i hr
    have := (not_congr (done_iff_quota i hq hr)).mp (by simp [hd])
    omega

/-- **generated ⇒ solvable (DPP / MDPP)**: under `WF` there is no dead end and a complete feasible
placement exists (the reward / optimum is not modelled) -/
theorem solvable (i : Inst) (hwf : WF i) :
    (∀ as s, Run env i (env.reset i) as s → env.done i s = false → ∃ a, a < env.nAct i ∧ env.mask i s a = true) ∧
    (∃ as s, RunND env i (env.reset i) as s ∧ env.done i s = true ∧ Spec.Dpp.Feasible i as) := by
  refine ⟨fun _ _ h hd => progress i hwf h hd, ?_⟩
  obtain ⟨hlen, hnd, hmem⟩ := allowedCells_spec i
  have hq := hwf.1
  have hc := hwf.2.1
  let as := (allowedCells i).take i.quota.toNat
  have hl : (as.length : Int) = i.quota := by
    simp only [as, List.length_take, hlen]; omega
  have hndas : as.Nodup := (List.take_sublist _ _).nodup hnd
  have hok : ∀ a ∈ as, a < env.nAct i ∧ view.allowed i a = true :=
    fun a ha => (hmem a).mp (List.mem_of_mem_take ha)
  obtain ⟨s, hr, hd⟩ := Sel.run_of_feasible view (i := i) hq as hl hndas hok
  exact ⟨as, s, hr, hd, feasible_of_run i hwf hr hd⟩

/-- Non-vacuity: a 3×3 grid, probe 4, keep-outs 0 and 8, two decaps -/
example : WF (genDpp 9 2 4 [0, 8]) := gen_wf 9 2 4 [0, 8] (by decide) (by decide)
example : (List.range 9).map (genDpp 9 2 4 [0, 8]).avail =
    [false, true, true, true, false, true, true, true, false] := by decide

end Dpp
end Rl4co
