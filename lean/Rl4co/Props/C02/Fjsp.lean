/-
C02 for FJSP / JSSP (one model, `jssp` and `mask_no_ops` are instance switches, so every theorem
covers both environments and both settings of `mask_no_ops`):
(1) every reachable state — finished or not — offers at least one action;
(2) `done` is absorbing (a finished row is not touched by a step);
(3) the fuel of the model's time-advance loop is never exhausted, i.e. the code's unbounded
    `while step_complete.any()` terminates and its `assert` on `available_time` never fires;
(4) an unfinished mask-confined run has at most 2·(number of real operations) steps; a finished one has
    exactly one scheduling step per operation plus its waits, at most one wait per operation (`steps_eq`).
-/
import Rl4co.Proofs.Fjsp

namespace Rl4co.Fjsp
open Rl4co.Spec.Fjsp (isReal opOf)

/-- (1) **no dead ends**, also for finished rows, for `mask_no_ops` on and off, FJSP and JSSP. -/
theorem mask_nonempty (i : Inst) (hwf : WF i) (s : State) (h : Reach env i s) :
    ∃ a, a < env.nAct i ∧ env.mask i s a = true := by
  obtain ⟨hinv, hsc⟩ := inv2_of_reach hwf h
  simp only [stepComplete, Bool.and_eq_false_iff, Bool.not_eq_false'] at hsc
  rcases hsc with hsc | hsc
  · exact anyUpTo_iff.mp hsc
  · refine ⟨0, ?_, ?_⟩
    · simp only [env, nAct]; split <;> omega
    · simp only [env, mask, if_true, noOpMask_eq]
      split <;> simp [hsc]

/-- a finished row is offered exactly the wait action -/
theorem mask_of_done (i : Inst) (hwf : WF i) (s : State) (h : Reach env i s) (hd : s.done = true)
    (a : Nat) (ha : a < env.nAct i) : env.mask i s a = decide (a = 0) := by
  obtain ⟨hinv, _⟩ := inv2_of_reach hwf h
  have hall : ∀ j, j < i.J → s.jobDone j = true := by
    have := hinv.doneIff; rw [hd] at this
    exact allUpTo_iff.mp this.symm
  by_cases ha0 : a = 0
  · subst ha0
    simp only [env, mask, if_true, noOpMask_eq]
    split <;> simp [hd]
  · simp only [env, mask, ha0, if_false, decide_false]
    simp only [env, nAct] at ha
    cases hjs : i.jssp with
    | true =>
      simp only [hjs, if_true] at ha ⊢
      apply anyUpTo_eq_false.mpr
      intro m _
      simp [avail_eq, hall (a - 1) (by omega)]
    | false =>
      simp only [hjs, Bool.false_eq_true, if_false] at ha ⊢
      have hM : 0 < i.M := by
        cases hM : i.M with
        | zero => rw [hM] at ha; simp at ha; omega
        | succ k => omega
      have hj : (a - 1) / i.M < i.J := by
        apply Nat.div_lt_of_lt_mul; rw [Nat.mul_comm]; omega
      simp [avail_eq, hall _ hj]

/-- (2) **finished stays finished**: a step on a finished row changes nothing at all. -/
theorem step_of_done (i : Inst) (s : State) (a : Nat) (hd : env.done i s = true) :
    env.step i s a = s := by
  simp only [env] at hd
  simp [env, step_eq, hd]

theorem done_stable (i : Inst) (s : State) (a : Nat) (hd : env.done i s = true) :
    env.done i (env.step i s a) = true := by
  rw [step_of_done i s a hd]; exact hd

/-- (3) restated from `Proofs/Fjsp.lean`: after every admitted step the loop has come to rest with
fuel to spare, and no assertion of the code has fired. -/
theorem loop_terminates (i : Inst) (hwf : WF i) (s : State) (h : Reach env i s) :
    stepComplete i s = false ∧ s.err = false :=
  ⟨(inv2_of_reach hwf h).2, (inv2_of_reach hwf h).1.errF⟩

/-! ### (4) the step bound -/

/-- number of real operations of the instance -/
def nReal (i : Inst) : Nat := cnt i.N (isReal i)

/-- real operations not scheduled yet -/
def unsched (i : Inst) (s : State) : Nat := cnt i.N (fun o => isReal i o && !s.sched o)

/-- termination measure: 2·#unscheduled operations + #machines busy beyond the current time -/
def mu (i : Inst) (s : State) : Nat := 2 * unsched i s + cntBusy i s

theorem unsched_congr {i : Inst} {s s' : State} (h : s'.sched = s.sched) : unsched i s' = unsched i s := by
  unfold unsched; rw [h]

theorem mu_autoTransit_le {i : Inst} (hwf : WF i) {s : State} (hinv : Inv i s) :
    mu i (autoTransit i (fuel i) s) ≤ mu i s := by
  obtain ⟨_, _, h3, h4⟩ := autoTransit_spec hwf (fuel i) s hinv (cntBusy_le_fuel i s)
  unfold mu; rw [unsched_congr h4]; omega

theorem mu_transit_lt {i : Inst} {s : State} {t' : Int} (h : nextTime i.M s.busy s.time = some t') :
    mu i (transit i s) < mu i s := by
  have h1 := cntBusy_transit_lt (i := i) h
  have h2 : unsched i (transit i s) = unsched i s := by
    apply unsched_congr; rw [transit, release_sched, advance_some h]
  unfold mu; omega

theorem mu_makeStepAt {i : Inst} (hwf : WF i) {s : State} (hinv : Inv i s) {j m : Nat}
    (h : Sel i s j m) : mu i (makeStepAt s j (s.nextOp j) m) + 1 = mu i s := by
  obtain ⟨hns, hpe, hpos, hoN⟩ := sel_facts hwf hinv h
  have hr := hinv.nextRng j h.hj
  have hreal : isReal i (s.nextOp j) = true :=
    anyUpTo_iff.mpr ⟨j, h.hj, by simp [opOf, hr.1, hr.2]⟩
  have h1 : unsched i (makeStepAt s j (s.nextOp j) m) + 1 = unsched i s := by
    unfold unsched
    have : (fun o => isReal i o && !(makeStepAt s j (s.nextOp j) m).sched o) =
        upd (fun o => isReal i o && !s.sched o) (s.nextOp j) false := by
      funext o
      simp only [makeStepAt, upd_apply]
      by_cases ho : o = s.nextOp j <;> simp [ho]
    rw [this]
    exact cnt_upd_false hoN (by simp [hreal, hns])
  have h2 : cntBusy i (makeStepAt s j (s.nextOp j) m) = cntBusy i s + 1 := by
    unfold cntBusy
    have : (fun m' => decide ((makeStepAt s j (s.nextOp j) m).time < (makeStepAt s j (s.nextOp j) m).busy m')) =
        upd (fun m' => decide (s.time < s.busy m')) m true := by
      funext m'
      simp only [makeStepAt, upd_apply]
      by_cases hm : m' = m
      · simp [hm]; omega
      · simp [hm]
    rw [this]
    apply cnt_upd_true h.hm
    have := h.idle
    simp; omega
  unfold mu; omega

/-- every admitted step from an unfinished state strictly decreases the measure -/
theorem mu_decreases {i : Inst} (hwf : WF i) {s : State} (h : Inv2 i s) (hd : s.done = false) {a : Nat}
    (ha : a < nAct i) (hm : mask i s a = true) : mu i (step i s a) < mu i s := by
  obtain ⟨hinv, _⟩ := h
  rw [step_eq]
  simp only [hd, Bool.false_eq_true, if_false]
  by_cases ha0 : a = 0
  · subst ha0
    simp only [if_true]
    obtain ⟨_, m, hmM, hb⟩ := wait_busy hinv hd hm
    obtain ⟨t', ht'⟩ := nextTime_isSome hmM hb
    have h1 := mu_autoTransit_le hwf (inv_transit hwf hinv ht')
    have h2 := mu_transit_lt (i := i) ht'
    omega
  · simp only [ha0, if_false]
    obtain ⟨hsel, ho⟩ := sel_of_mask hwf hinv ha0 ha hm
    have hinv' : Inv i (makeStep i s (a - 1)) := by
      unfold makeStep; simp only [ho]; exact inv_makeStepAt hwf hinv hsel
    have h1 := mu_autoTransit_le hwf hinv'
    have h2 : mu i (makeStep i s (a - 1)) + 1 = mu i s := by
      unfold makeStep; simp only [ho]; exact mu_makeStepAt hwf hinv hsel
    omega

theorem mu_reset (i : Inst) : mu i (reset i) = 2 * nReal i := by
  unfold mu unsched cntBusy nReal
  have h1 : cnt i.M (fun m => decide ((reset i).time < (reset i).busy m)) = 0 :=
    cnt_eq_zero.mpr (fun m _ => by simp [reset])
  have h2 : (fun o => isReal i o && !(reset i).sched o) = isReal i := by
    funext o; simp [reset]
  rw [h1, h2]; omega

/-- (4) **step bound**: a mask-confined run that is stepped only while unfinished (as the decoding
loop does) has at most `2 · #operations` steps: one per operation plus at most one wait per operation. -/
theorem steps_le (i : Inst) (hwf : WF i) (as : List Nat) (s : State)
    (h : RunND env i (env.reset i) as s) : as.length ≤ 2 * nReal i := by
  have := steps_le_of_measure (e := env) (i := i) (mu i) (Inv2 i)
    (fun s a hi ha hm => inv2_step hwf hi ha hm)
    (fun s a hi hd ha hm => mu_decreases hwf hi hd ha hm) h (inv2_reset hwf)
  have h0 : mu i (env.reset i) = 2 * nReal i := mu_reset i
  omega

/-- number of scheduling (non-wait) actions of an action list -/
def nSched (as : List Nat) : Nat := (as.filter (fun a => a != 0)).length

theorem unsched_step {i : Inst} (hwf : WF i) {s : State} (h : Inv2 i s) (hd : s.done = false) {a : Nat}
    (ha : a < nAct i) (hm : mask i s a = true) :
    unsched i (step i s a) + (if a = 0 then 0 else 1) = unsched i s := by
  obtain ⟨hinv, _⟩ := h
  rw [step_eq]
  simp only [hd, Bool.false_eq_true, if_false]
  by_cases ha0 : a = 0
  · subst ha0
    simp only [if_true]
    obtain ⟨_, m, hmM, hb⟩ := wait_busy hinv hd hm
    obtain ⟨t', ht'⟩ := nextTime_isSome hmM hb
    obtain ⟨_, _, _, h4⟩ := autoTransit_spec hwf (fuel i) _ (inv_transit hwf hinv ht') (cntBusy_le_fuel i _)
    rw [unsched_congr h4]
    have : (transit i s).sched = s.sched := by rw [transit, release_sched, advance_some ht']
    rw [unsched_congr this]; omega
  · simp only [ha0, if_false]
    obtain ⟨hsel, ho⟩ := sel_of_mask hwf hinv ha0 ha hm
    have hms : makeStep i s (a - 1) = makeStepAt s (translate i s (a - 1)).1 (s.nextOp (translate i s (a - 1)).1)
        (translate i s (a - 1)).2.2 := by unfold makeStep; simp only [ho]
    have hinv' : Inv i (makeStep i s (a - 1)) := by rw [hms]; exact inv_makeStepAt hwf hinv hsel
    obtain ⟨_, _, _, h4⟩ := autoTransit_spec hwf (fuel i) _ hinv' (cntBusy_le_fuel i _)
    rw [unsched_congr h4, hms]
    -- `_make_step` schedules exactly one more real operation
    obtain ⟨hns, _, _, hoN⟩ := sel_facts hwf hinv hsel
    have hr := hinv.nextRng _ hsel.hj
    have hreal : isReal i (s.nextOp (translate i s (a - 1)).1) = true :=
      anyUpTo_iff.mpr ⟨_, hsel.hj, by simp [opOf, hr.1, hr.2]⟩
    unfold unsched
    have : (fun o => isReal i o && !(makeStepAt s (translate i s (a - 1)).1 (s.nextOp (translate i s (a - 1)).1)
        (translate i s (a - 1)).2.2).sched o) =
        upd (fun o => isReal i o && !s.sched o) (s.nextOp (translate i s (a - 1)).1) false := by
      funext o
      simp only [makeStepAt, upd_apply]
      by_cases ho' : o = s.nextOp (translate i s (a - 1)).1 <;> simp [ho']
    rw [this]
    exact cnt_upd_false hoN (by simp [hreal, hns])

theorem nSched_run {i : Inst} (hwf : WF i) {s s' : State} {as : List Nat} (h : RunND env i s as s')
    (h2 : Inv2 i s) : nSched as + unsched i s' = unsched i s := by
  induction h with
  | nil s => simp [nSched]
  | @cons s s' a as hnd ha hm _ ih =>
    simp only [env] at hnd ha hm
    have h1 := ih (inv2_step hwf h2 ha hm)
    have h3 := unsched_step hwf h2 hnd ha hm
    simp only [env] at h1
    by_cases ha0 : a = 0
    · subst ha0; simp [nSched] at h1 h3 ⊢; omega
    · have : nSched (a :: as) = nSched as + 1 := by simp [nSched, ha0]
      simp only [ha0, if_false] at h3
      omega

/-- (4') **exactly one step per operation plus one per wait**: in a finished run (stepped only while
unfinished) the scheduling actions are exactly as many as the instance has operations, and the waits
at most as many. -/
theorem steps_eq (i : Inst) (hwf : WF i) (as : List Nat) (s : State)
    (h : RunND env i (env.reset i) as s) (hd : s.done = true) :
    nSched as = nReal i ∧ as.length - nSched as ≤ nReal i := by
  have h1 := nSched_run hwf h (inv2_reset hwf)
  have hinv := (inv2_of_reach hwf ⟨as, h.run⟩).1
  have h0 : unsched i s = 0 := by
    apply cnt_eq_zero.mpr
    intro o ho
    cases hr : isReal i o with
    | false => simp
    | true =>
      obtain ⟨j, hj, hop⟩ := anyUpTo_iff.mp hr
      simp only [opOf, Bool.and_eq_true, decide_eq_true_eq] at hop
      simp [all_sched_of_done hinv hd j hj o hop.1 hop.2]
  have h2 : unsched i (env.reset i) = nReal i := by
    unfold unsched nReal
    have : (fun o => isReal i o && !(env.reset i).sched o) = isReal i := by funext o; simp [env, reset]
    rw [this]
  have h3 := steps_le i hwf as s h
  constructor
  · omega
  · omega

/-! ### non-vacuity: a concrete well-formed instance and a complete mask-confined run on it -/

/-- schedule job 0 on machine 0, job 1 on machine 1, wait, again, wait: finished after 6 steps -/
example : admitted env exFjsp (env.reset exFjsp) [1, 4, 0, 1, 4, 0] = true ∧
    env.done exFjsp (exec env exFjsp (env.reset exFjsp) [1, 4, 0, 1, 4, 0]) = true ∧
    [1, 4, 0, 1, 4, 0].length ≤ 2 * nReal exFjsp ∧ nSched [1, 4, 0, 1, 4, 0] = nReal exFjsp := by decide

end Rl4co.Fjsp

namespace Rl4co.Jssp
open Rl4co.Fjsp

/-- the JSSP environment is the same model with the `jssp` switch on -/
theorem mask_nonempty (i : Inst) (_ : i.jssp = true) (hwf : WF i) (s : State) (h : Reach env i s) :
    ∃ a, a < env.nAct i ∧ env.mask i s a = true := Fjsp.mask_nonempty i hwf s h
theorem done_stable (i : Inst) (_ : i.jssp = true) (s : State) (a : Nat) (hd : env.done i s = true) :
    env.done i (env.step i s a) = true := Fjsp.done_stable i s a hd
theorem steps_le (i : Inst) (_ : i.jssp = true) (hwf : WF i) (as : List Nat) (s : State)
    (h : RunND env i (env.reset i) as s) : as.length ≤ 2 * nReal i := Fjsp.steps_le i hwf as s h

example : admitted env exJssp (env.reset exJssp) [1, 2, 1, 2] = true ∧
    env.done exJssp (exec env exJssp (env.reset exJssp) [1, 2, 1, 2]) = true := by decide

end Rl4co.Jssp
