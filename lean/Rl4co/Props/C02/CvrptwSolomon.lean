/-
CVRPTW, the Solomon loader (`CVRPTWEnv.extract_from_solomon`, modelled by `ofSolomon`).
* `never_done_of_oversized`: a customer whose demand exceeds the capacity of the reset state is never offered,
  so no mask-confined run ever finishes.  With `ofSolomon raw genCap` this is what happens on an env left at
  its default `vehicle_capacity = 1.0` (raw demands, capacity attribute never read): known finding
  `cvrptw-solomon-capacity-ignored-C02` (`solomon_default_never_done`).
* `ofSolomon_wf`: when the env's generator carries the instance's capacity and the raw data satisfy the
  Solomon conventions (demands within capacity, customers reachable, return in time), the loaded instance is
  well-formed, so C01 / C02 apply to it — with POSITIVE service times.
-/
import Rl4co.Props.C02.Cvrptw
import Rl4co.Props.C04.Cvrp

namespace Rl4co.Cvrptw

theorem never_done_of_oversized (i : Inst) (hd : ∀ j, 0 ≤ i.base.demand j) (j : Nat) (h1 : 1 ≤ j) (h2 : j ≤ i.base.n)
    (hbig : i.base.cap < i.base.demand j) {as : List Nat} {s : State} (h : Run env i (env.reset i) as s) :
    env.done i s = false := by
  have hinv : s.base.vis j = false ∧ 0 ≤ s.base.used :=
    inv_of_run (Inv := fun s _ => s.base.vis j = false ∧ 0 ≤ s.base.used)
      ⟨rfl, Int.le_refl 0⟩
      (fun s _ a hi ha hm => by
        obtain ⟨hv, hu⟩ := hi
        have hm' : (Cvrp.mask i.base s.base a && canReach i s a) = true := hm
        rw [Bool.and_eq_true] at hm'
        have hcm := hm'.1
        have hne : a ≠ j := by
          intro e
          subst e
          have h0 : a ≠ 0 := by omega
          simp only [Cvrp.mask, h0, if_false, Cvrp.locOk, Params.cvrpMaskCapCmp, Cmp.eval, Bool.and_eq_true,
            Bool.not_eq_true', decide_eq_false_iff_not] at hcm
          omega
        refine ⟨?_, ?_⟩
        · show (Cvrp.step i.base s.base a).vis j = false
          simp only [Cvrp.step, upd_apply]
          have : j ≠ a := fun e => hne e.symm
          simp [this, hv]
        · show 0 ≤ (Cvrp.step i.base s.base a).used
          simp only [Cvrp.step]
          split
          · have := hd (min (a - 1) (i.base.n - 1) + 1); omega
          · exact Int.le_refl 0) h
  by_cases hdn : env.done i s = true
  · have := Cvrp.all_visited_of_done i.base s.base hdn j (by omega)
    rw [hinv.1] at this; exact absurd this (by simp)
  · simpa using hdn

/-- `extract_from_solomon` on an env whose generator capacity is below some raw demand: no episode finishes -/
theorem solomon_default_never_done (raw : Solomon) (genCap : Int) (hd : ∀ j, 0 ≤ raw.demand j)
    (j : Nat) (h1 : 1 ≤ j) (h2 : j ≤ raw.n) (hbig : genCap < raw.demand j) {as : List Nat} {s : State}
    (h : Run env (ofSolomon raw genCap) (env.reset (ofSolomon raw genCap)) as s) :
    env.done (ofSolomon raw genCap) s = false :=
  never_done_of_oversized (ofSolomon raw genCap) hd j h1 h2 hbig h

/-- Solomon conventions on the raw data -/
structure SolomonOK (raw : Solomon) : Prop where
  demand : ∀ j, 1 ≤ j → j ≤ raw.n → raw.demand j ≤ raw.capacity
  depot  : raw.D 0 0 ≤ raw.twE 0
  reach  : ∀ j, 1 ≤ j → j ≤ raw.n → raw.D 0 j ≤ raw.twE j
  ret    : ∀ j, 1 ≤ j → j ≤ raw.n → max (raw.twS j) (raw.twE j) + raw.service j + raw.D j 0 ≤ raw.twE 0

/-- with the generator carrying the instance's capacity the loaded instance is well-formed -/
theorem ofSolomon_wf (raw : Solomon) (h : SolomonOK raw) :
    WF (ofSolomon raw raw.capacity) ∧ Cvrp.WF (ofSolomon raw raw.capacity).base :=
  ⟨⟨h.reach, ⟨h.depot, h.ret⟩⟩, h.demand⟩

/-- Non-vacuity: the witness of the known finding (demands 10, 20, 10 against capacity 1) and its repaired use. -/
def solRaw : Solomon :=
  { n := 3, capacity := 40, demand := fun j => if j = 2 then 20 else 10, twS := fun j => if j = 2 then 5 else 0,
    twE := fun j => if j = 0 then 120 else if j = 1 then 50 else if j = 2 then 60 else 90, service := fun j => if j = 0 then 0 else 10,
    D := fun a b => if a = b then 0 else if a = 0 ∨ b = 0 then 5 else 5 }

example : SolomonOK solRaw := by
  refine ⟨?_, by decide, ?_, ?_⟩ <;> intro j h1 h2 <;>
    (have h2' : j ≤ 3 := h2
     have : j = 1 ∨ j = 2 ∨ j = 3 := by omega
     rcases this with h | h | h <;> subst h <;> decide)

example : (1 : Int) < solRaw.demand 1 := by decide

end Rl4co.Cvrptw
