/-
C02 for DPP / MDPP (equal-length family: `max_decaps` is one number per environment, so all rows of a
batch finish at the same step and a finished row is never stepped): (1) an unfinished reachable
state offers an action provided the instance has at least `max_decaps` allowed cells (`WF`);
(2) a finished row stays finished; (3) an episode takes exactly `max_decaps` steps.
-/
import Rl4co.Props.C08.Dpp

namespace Rl4co.Dpp

/-- (1a) fewer selections than allowed cells ⇒ some action is offered. -/
theorem mask_nonempty (i : Inst) {as : List Nat} {s : State} (h : Run env i (env.reset i) as s)
    (hlt : as.length < cnt i.n (allowed0 i)) : ∃ a, a < env.nAct i ∧ env.mask i s a = true :=
  Sel.mask_nonempty view h hlt

/-- (1b) no dead end: an unfinished reachable state of a well-formed instance offers an action. -/
theorem progress (i : Inst) (hwf : WF i) {as : List Nat} {s : State}
    (h : Run env i (env.reset i) as s) (hd : env.done i s = false) :
    ∃ a, a < env.nAct i ∧ env.mask i s a = true := by
  apply mask_nonempty i h
  have := (not_congr (done_iff_quota i hwf.1 h)).mp (by simp [hd])
  have := hwf.2.1
  omega

/-- (2) `done` is absorbing. -/
theorem done_stable (i : Inst) {as : List Nat} {s : State} (h : Run env i (env.reset i) as s) (a : Nat)
    (hd : env.done i s = true) : env.done i (env.step i s a) = true :=
  Sel.done_stable view h a hd

/-- (3) step bound = quota, and (with `done_iff_quota`) every complete episode has exactly that length:
`run_length`. -/
theorem steps_le (i : Inst) (hq : 1 ≤ i.quota) {as : List Nat} {s : State}
    (h : RunND env i (env.reset i) as s) : (as.length : Int) ≤ i.quota :=
  Sel.steps_le view (i := i) hq h

theorem run_length (i : Inst) (hq : 1 ≤ i.quota) {as : List Nat} {s : State}
    (h : RunND env i (env.reset i) as s) : env.done i s = true ↔ (as.length : Int) = i.quota := by
  have h1 := done_iff_quota i hq h.run
  have h2 := steps_le i hq h
  rw [h1]; omega

/-- The hypothesis of (1b) is needed: with fewer allowed cells than `max_decaps` the episode dead-ends
(1 allowed cell, quota 2: after one placement the state is unfinished with an empty mask). -/
example : let i : Inst := ⟨2, 2, fun j => j = 0, fun j => j = 1, false⟩
    env.done i (exec env i (env.reset i) [0]) = false ∧
    ∀ a, a < 2 → env.mask i (exec env i (env.reset i) [0]) a = false := by
  refine ⟨by decide, ?_⟩
  intro a ha
  have : a = 0 ∨ a = 1 := by omega
  rcases this with h | h <;> subst h <;> decide

/-- Non-vacuity of `WF` in the tightest case: exactly `max_decaps` allowed cells. -/
example : WF ⟨3, 2, fun j => j = 0 || j = 2, fun j => j = 1, true⟩ :=
  ⟨by decide, by decide, Or.inl rfl⟩

end Rl4co.Dpp
