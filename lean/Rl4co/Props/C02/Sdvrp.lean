/-
C02 for SDVRP.  (1) every state offers an action; (2) `done` is absorbing along reachable states;
(3) with capacity > 0 and demands ≥ 0 every mask-confined run through unfinished states has at most
2·(n + ⌊Σ demand / capacity⌋) + 1 steps: two per customer plus one, and one more pair per full vehicle
load (a visit that fills the vehicle without completing the customer, and the return it forces).
The bound is proved with the integer potential
  φ = 2·#{customers with remaining demand} + 2·⌊(Σ remaining + load)/capacity⌋ + τ + ε,
τ = 0 at the depot, −1 at a customer with a full vehicle, +1 otherwise; ε = 1 only in the reset state of
an all-zero instance; every admitted step from an unfinished state decreases φ by at least 1.
-/
import Rl4co.Env.Sdvrp
import Rl4co.Props.C01.Sdvrp

namespace Rl4co.Sdvrp

/-- (1) The mask is never empty, in any state whatsoever. -/
theorem mask_nonempty (i : Inst) (s : State) : ∃ a, a < env.nAct i ∧ env.mask i s a = true := by
  by_cases h : (s.cur == 0 && anyLoc i s) = true
  · simp only [Bool.and_eq_true, anyLoc, List.any_eq_true, List.mem_range] at h
    obtain ⟨_, k, hk, hl⟩ := h
    exact ⟨k + 1, by simp [env]; omega, by simp [env, mask, hl]⟩
  · refine ⟨0, by simp [env], ?_⟩
    simp only [env, mask, if_true]
    cases hh : (s.cur == 0 && anyLoc i s)
    · rfl
    · exact absurd hh h

/-- well-formedness for termination: positive capacity, non-negative demands -/
structure WFpos (i : Inst) : Prop where
  cap    : 0 < i.cap
  demand : ∀ j, 0 ≤ i.demand j

theorem WFpos.wf {i : Inst} (h : WFpos i) : WF i := ⟨by have := h.cap; omega, h.demand⟩

/-- invariant preserved by every step: bookkeeping + empty vehicle at the depot -/
structure CInv (i : Inst) (s : State) : Prop where
  e : EInv i s
  depotEmpty : s.cur = 0 → s.used = 0

theorem cinv_reset (i : Inst) (hw : WF i) : CInv i (env.reset i) := ⟨einv_reset i hw, fun _ => rfl⟩

theorem cinv_step (i : Inst) (s : State) (a : Nat) (h : CInv i s) : CInv i (env.step i s a) :=
  ⟨einv_step i s a h.e, fun hc => by
    have : a = 0 := hc
    subst this; simp [step_used]⟩

theorem cinv_of_reach (i : Inst) (hw : WF i) {s : State} (h : Reach env i s) : CInv i s :=
  inv_of_reach (Inv := CInv i) (cinv_reset i hw) (fun s a hi _ _ => cinv_step i s a hi) h

theorem anyRem_eq_false_of (n : Nat) (rem : Nat → Int) (h : ∀ j, j ≤ n → rem j ≤ 0) : anyRem n rem = false := by
  simp only [anyRem, List.any_eq_false, List.mem_range, Params.sdvrpDoneCmp, Cmp.eval, decide_eq_true_eq]
  intro j hj
  have := h j (by omega)
  omega

/-- (2) A finished reachable instance never becomes unfinished again (whatever is stepped). -/
theorem done_stable (i : Inst) (hw : WF i) {s : State} (hr : Reach env i s) (a : Nat)
    (hd : env.done i s = true) : env.done i (env.step i s a) = true := by
  have hi := (cinv_of_reach i hw hr).e
  have hz : ∀ j, j ≤ i.n → s.rem j ≤ 0 := hi.flag hd
  have hu := hi.usedC
  simp only [env, done, step, Bool.not_eq_true']
  apply anyRem_eq_false_of
  intro j hj
  simp only [upd_apply]
  split
  · rename_i hja
    subst hja
    have h1 := hz j hj
    have h2 : 0 ≤ s.rem j := by
      by_cases h0 : j = 0
      · subst h0; rw [hi.rem0]; exact Int.le_refl 0
      · exact hi.remNN j (by omega)
    simp only [delivered_eq]; omega
  · exact hz j hj

/-- Σ_{j=1..n} f j -/
def sumTo : Nat → (Nat → Int) → Int
  | 0, _ => 0
  | n + 1, f => sumTo n f + f (n + 1)

theorem sumTo_congr {n : Nat} {f g : Nat → Int} (h : ∀ j, 1 ≤ j → j ≤ n → f j = g j) : sumTo n f = sumTo n g := by
  induction n with
  | zero => rfl
  | succ n ih =>
    simp only [sumTo]
    rw [ih (fun j h1 h2 => h j h1 (by omega)), h (n + 1) (by omega) (by omega)]

theorem sumTo_nonneg {n : Nat} {f : Nat → Int} (h : ∀ j, 1 ≤ j → 0 ≤ f j) : 0 ≤ sumTo n f := by
  induction n with
  | zero => exact Int.le_refl 0
  | succ n ih => simp only [sumTo]; have := h (n + 1) (by omega); omega

theorem sumTo_upd {n : Nat} {f : Nat → Int} {a : Nat} (h1 : 1 ≤ a) (h2 : a ≤ n) (v : Int) :
    sumTo n (upd f a v) = sumTo n f - f a + v := by
  induction n with
  | zero => omega
  | succ n ih =>
    simp only [sumTo]
    by_cases h : a = n + 1
    · subst h
      have : sumTo n (upd f (n + 1) v) = sumTo n f :=
        sumTo_congr (fun j _ hj => upd_other _ _ _ _ (by omega))
      rw [this, upd_same]; omega
    · have := ih (by omega)
      have hne : n + 1 ≠ a := fun e => h e.symm
      rw [this, upd_other _ _ _ _ hne]; omega

/-- number of customers with remaining demand -/
def K (i : Inst) (s : State) : Nat := cnt i.n (fun k => decide (0 < s.rem (k + 1)))
/-- total remaining demand -/
def R (i : Inst) (s : State) : Int := sumTo i.n s.rem

def tau (i : Inst) (s : State) : Int := if s.cur = 0 then 0 else if s.used = i.cap then -1 else 1
def eps (i : Inst) (s : State) : Int := if K i s = 0 ∧ s.done = false then 1 else 0

/-- the potential -/
def phi (i : Inst) (s : State) : Int :=
  2 * (K i s : Int) + 2 * ((R i s + s.used) / i.cap) + tau i s + eps i s

theorem K_eq_zero_iff (i : Inst) (s : State) : K i s = 0 ↔ ∀ j, 1 ≤ j → j ≤ i.n → s.rem j ≤ 0 := by
  unfold K
  rw [cnt_eq_zero]
  constructor
  · intro h j h1 h2
    have := h (j - 1) (by omega)
    rw [Nat.sub_add_cancel h1] at this
    simp only [decide_eq_false_iff_not] at this
    omega
  · intro h k hk
    have := h (k + 1) (by omega) (by omega)
    simp only [decide_eq_false_iff_not]
    omega

/-- after any step of an invariant state the flag agrees with the counter, so ε vanishes -/
theorem eps_step (i : Inst) (s : State) (a : Nat) (hi : CInv i s) : eps i (env.step i s a) = 0 := by
  have hi' := (cinv_step i s a hi).e
  unfold eps
  split
  · rename_i h
    obtain ⟨hk, hd⟩ := h
    exfalso
    have hz := (K_eq_zero_iff i _).1 hk
    have : anyRem i.n (env.step i s a).rem = false := by
      apply anyRem_eq_false_of
      intro j hj
      by_cases h0 : j = 0
      · subst h0; rw [hi'.rem0]; exact Int.le_refl 0
      · exact hz j (by omega) hj
    have hdone : (env.step i s a).done = !(anyRem i.n (env.step i s a).rem) := rfl
    rw [hdone, this] at hd
    exact absurd hd (by simp)
  · rfl

theorem eps_nonneg (i : Inst) (s : State) : 0 ≤ eps i s := by unfold eps; split <;> omega

theorem K_step_same (i : Inst) (s : State) (a : Nat)
    (h : ∀ j, 1 ≤ j → j ≤ i.n → (0 < (env.step i s a).rem j ↔ 0 < s.rem j)) :
    K i (env.step i s a) = K i s := by
  unfold K
  apply cnt_congr
  intro k hk
  have := h (k + 1) (by omega) (by omega)
  by_cases hp : 0 < s.rem (k + 1)
  · simp [hp, this.2 hp]
  · have : ¬ 0 < (env.step i s a).rem (k + 1) := fun hq => hp (this.1 hq)
    simp [hp, this]

theorem K_step_complete (i : Inst) (s : State) (a : Nat) (h0 : a ≠ 0) (ha : a ≤ i.n)
    (hpos : 0 < s.rem a) (hz : (env.step i s a).rem a = 0) : K i (env.step i s a) + 1 = K i s := by
  unfold K
  have : (fun k => decide (0 < (env.step i s a).rem (k + 1))) =
      upd (fun k => decide (0 < s.rem (k + 1))) (a - 1) false := by
    funext k
    simp only [upd_apply]
    by_cases hk : k + 1 = a
    · have hk' : k = a - 1 := by omega
      rw [if_pos hk']
      rw [hk, hz]; simp
    · have hk' : k ≠ a - 1 := by omega
      rw [if_neg hk']
      have : (env.step i s a).rem (k + 1) = s.rem (k + 1) := by
        simp only [env, step, upd_apply, hk, if_false]
      rw [this]
  rw [this]
  apply cnt_upd_false (by omega)
  have : a - 1 + 1 = a := by omega
  simp [this, hpos]

theorem ediv_add_cap (x c : Int) (hc : 0 < c) : (x + c) / c = x / c + 1 := by
  have := Int.add_mul_ediv_right x 1 (c := c) (by omega)
  simpa using this

/-- every admitted step from an unfinished state decreases the potential -/
theorem phi_decreases (i : Inst) (hw : WFpos i) (s : State) (a : Nat) (hi : CInv i s)
    (hd : env.done i s = false) (ha : a < env.nAct i) (hm : env.mask i s a = true) :
    phi i (env.step i s a) + 1 ≤ phi i s := by
  have hcap := hw.cap
  have he := hi.e
  have hu0 := he.used0
  have huc := he.usedC
  have heps' := eps_step i s a hi
  have heps := eps_nonneg i s
  simp only [env] at ha
  by_cases h0 : a = 0
  · subst h0
    have hdel : delivered i s 0 = 0 := by simp only [delivered_eq, he.rem0]; omega
    have hrem : ∀ j, (env.step i s 0).rem j = s.rem j := by
      intro j
      simp only [env, step, upd_apply, hdel]
      split
      · rename_i h; subst h; omega
      · rfl
    have hK : K i (env.step i s 0) = K i s := K_step_same i s 0 (fun j _ _ => by rw [hrem j])
    have hR : R i (env.step i s 0) = R i s := sumTo_congr (fun j _ _ => hrem j)
    have hused : (env.step i s 0).used = 0 := by simp [step_used]
    have htau' : tau i (env.step i s 0) = 0 := by simp [tau, env, step]
    have hRnn : 0 ≤ R i s := sumTo_nonneg he.remNN
    by_cases hc : s.cur = 0
    · -- depot → depot: nothing is servable, so nothing remains; only the reset state is unfinished here
      have hus := hi.depotEmpty hc
      have hmm : env.mask i s 0 = true := hm
      simp only [env, mask, if_true, Bool.not_eq_true', Bool.and_eq_false_iff, beq_eq_false_iff_ne] at hmm
      have hany : anyLoc i s = false := by
        rcases hmm with h | h
        · exact absurd hc h
        · exact h
      have hK0 : K i s = 0 := by
        apply (K_eq_zero_iff i s).2
        intro j h1 h2
        simp only [anyLoc, List.any_eq_false, List.mem_range] at hany
        have := hany (j - 1) (by omega)
        rw [Nat.sub_add_cancel h1] at this
        simp only [locOk, Params.sdvrpMaskRemCmp, Params.sdvrpMaskCapCmp, Cmp.eval] at this
        have h' : (decide (s.rem j = 0) || decide (s.used ≥ i.cap)) = true := by
          cases hb : (decide (s.rem j = 0) || decide (s.used ≥ i.cap))
          · rw [hb] at this; exact absurd this (by simp)
          · rfl
        simp only [Bool.or_eq_true, decide_eq_true_eq] at h'
        rcases h' with h | h
        · omega
        · omega
      have hdd : s.done = false := hd
      have : eps i s = 1 := by simp [eps, hK0, hdd]
      have htau : tau i s = 0 := by simp [tau, hc]
      simp only [phi, hK, hR, hused, htau', heps', this, htau, hus]
      omega
    · have htau : tau i s = if s.used = i.cap then -1 else 1 := by simp [tau, hc]
      by_cases hfull : s.used = i.cap
      · have hG : (R i s + s.used) / i.cap = R i s / i.cap + 1 := by rw [hfull]; exact ediv_add_cap _ _ hcap
        simp only [phi, hK, hR, hused, htau', heps', htau, hfull, if_true, Int.add_zero]
        rw [hfull] at hG
        omega
      · have hG : R i s / i.cap ≤ (R i s + s.used) / i.cap := Int.ediv_le_ediv hcap (by omega)
        simp only [phi, hK, hR, hused, htau', heps', htau, hfull, if_false, Int.add_zero]
        omega
  · -- customer visit
    have hmm : env.mask i s a = true := hm
    simp only [env, mask, h0, if_false, locOk, Params.sdvrpMaskRemCmp, Params.sdvrpMaskCapCmp, Cmp.eval,
      Bool.not_eq_true', Bool.or_eq_false_iff, decide_eq_false_iff_not] at hmm
    have hra := he.remNN a (by omega)
    have hpos : 0 < s.rem a := by omega
    have hlt : s.used < i.cap := by omega
    have hcur' : (env.step i s a).cur = a := rfl
    have hused' : (env.step i s a).used = s.used + delivered i s a := by simp [step_used, h0]
    have hrema : (env.step i s a).rem a = s.rem a - delivered i s a := by simp [env, step]
    have hother : ∀ j, j ≠ a → (env.step i s a).rem j = s.rem j := by
      intro j hj; simp [env, step, hj]
    have hR : R i (env.step i s a) = R i s - delivered i s a := by
      have : (env.step i s a).rem = upd s.rem a (s.rem a - delivered i s a) := rfl
      simp only [R, this]
      rw [sumTo_upd (by omega) (by omega)]; omega
    have hsum : R i (env.step i s a) + (env.step i s a).used = R i s + s.used := by rw [hR, hused']; omega
    have htau_ge : 0 ≤ tau i s := by
      unfold tau
      split
      · omega
      · split
        · omega
        · omega
    by_cases hcomp : s.rem a ≤ i.cap - s.used
    · have hdel : delivered i s a = s.rem a := by simp only [delivered_eq]; omega
      have hz : (env.step i s a).rem a = 0 := by rw [hrema, hdel]; omega
      have hK := K_step_complete i s a h0 (by omega) hpos hz
      have htau' : tau i (env.step i s a) ≤ 1 := by
        unfold tau; rw [hcur']; simp only [h0, if_false]; split <;> omega
      simp only [phi, hsum, heps']
      omega
    · have hdel : delivered i s a = i.cap - s.used := by simp only [delivered_eq]; omega
      have hK : K i (env.step i s a) = K i s := by
        apply K_step_same
        intro j _ _
        by_cases hja : j = a
        · subst hja; rw [hrema, hdel]; constructor <;> intro _ <;> omega
        · rw [hother j hja]
      have htau' : tau i (env.step i s a) = -1 := by
        unfold tau; rw [hcur', hused', hdel]; simp only [h0, if_false]
        have : s.used + (i.cap - s.used) = i.cap := by omega
        simp [this]
      simp only [phi, hsum, heps', hK, htau']
      omega

theorem phi_nonneg (i : Inst) (hw : WFpos i) (s : State) (hi : CInv i s) : 0 ≤ phi i s := by
  have hcap := hw.cap
  have hRnn : 0 ≤ R i s := sumTo_nonneg hi.e.remNN
  have hu0 := hi.e.used0
  have hG : 0 ≤ (R i s + s.used) / i.cap := Int.ediv_nonneg (by omega) (by omega)
  have heps := eps_nonneg i s
  unfold phi tau
  split
  · omega
  · split
    · rename_i hfull
      have : (R i s + s.used) / i.cap = R i s / i.cap + 1 := by rw [hfull]; exact ediv_add_cap _ _ hcap
      have h2 : 0 ≤ R i s / i.cap := Int.ediv_nonneg hRnn (by omega)
      omega
    · omega

theorem length_le_phi (i : Inst) (hw : WFpos i) {s s' : State} {as : List Nat} (h : RunND env i s as s')
    (hi : CInv i s) : (as.length : Int) + phi i s' ≤ phi i s := by
  induction h with
  | nil s => simp
  | cons hd ha hm _ ih =>
    have := ih (cinv_step i _ _ hi)
    have := phi_decreases i hw _ _ hi hd ha hm
    simp only [List.length_cons]
    omega

/-- (3) Step bound: two steps per customer plus one, and one more pair per full vehicle load. -/
theorem steps_le (i : Inst) (hw : WFpos i) {as : List Nat} {s : State}
    (h : RunND env i (env.reset i) as s) :
    (as.length : Int) ≤ 2 * ((i.n : Int) + sumTo i.n i.demand / i.cap) + 1 := by
  have hi0 := cinv_reset i hw.wf
  have h1 := length_le_phi i hw h hi0
  have hiS : CInv i s := by
    have : Reach env i s := ⟨as, h.run⟩
    exact cinv_of_reach i hw.wf this
  have h2 := phi_nonneg i hw s hiS
  have hR : R i (env.reset i) = sumTo i.n i.demand := by
    apply sumTo_congr
    intro j hj _
    have : j ≠ 0 := by omega
    simp [env, reset, this]
  have hK : K i (env.reset i) ≤ i.n := cnt_le _ _
  have hphi : phi i (env.reset i) ≤ 2 * ((i.n : Int) + sumTo i.n i.demand / i.cap) + 1 := by
    have hu : (env.reset i).used = 0 := rfl
    have ht : tau i (env.reset i) = 0 := by simp [tau, env, reset]
    simp only [phi, hR, hu, ht, Int.add_zero]
    unfold eps
    split
    · rename_i hk; rw [hk.1]; simp; omega
    · omega
  omega

/-- Non-vacuity of the bound: the example of C01 (demand 12 > capacity 8: one full load), an episode of
4 steps ≤ 2·(2 + ⌊16/8⌋) + 1. -/
example : WFpos exInst := ⟨by decide, by intro j; simp only [exInst]; split <;> omega⟩
example : RunND env exInst (env.reset exInst) [1, 2, 0, 2] (exec env exInst (env.reset exInst) [1, 2, 0, 2]) := by
  refine RunND.cons (by decide) (by decide) (by decide) ?_
  refine RunND.cons (by decide) (by decide) (by decide) ?_
  refine RunND.cons (by decide) (by decide) (by decide) ?_
  refine RunND.cons (by decide) (by decide) (by decide) ?_
  exact RunND.nil _

end Rl4co.Sdvrp
