/-
C02 for CVRPTW: under the well-formedness `WF` (every customer reachable from the depot at time 0; from
every customer the depot is reached in time even after the latest admissible service start; null trip
in time) (1) every reachable state — finished or not — offers an action; (2) `done` is absorbing;
(3) with demands within capacity every mask-confined episode finishes within 2n+1 steps (inherited
from CVRP through the projection).  `dead_end_example` shows that the precondition the code itself
asserts (`tw_start + dist + duration ≤ depot deadline`, window START) does not suffice: a solvable
instance satisfying it has a mask-admitted prefix ending in a state with an empty mask.
-/
import Rl4co.Env.Cvrptw
import Rl4co.Props.C01.Cvrptw
import Rl4co.Props.C02.Cvrp

namespace Rl4co.Cvrptw

structure WF (i : Inst) : Prop where
  reach : ∀ j, 1 ≤ j → j ≤ i.base.n → i.base.D 0 j ≤ i.twE j
  ret   : RetOK i

/-- invariant: at the depot the clock is 0; at a customer the depot can still be reached in time -/
def Inv (i : Inst) (s : State) : Prop :=
  (s.base.cur = 0 → s.time = 0) ∧
  (s.base.cur ≠ 0 → s.time + i.base.D s.base.cur 0 ≤ i.twE 0) ∧ CacheOk i s

theorem inv_reset (i : Inst) : Inv i (env.reset i) :=
  ⟨fun _ => rfl, fun h => absurd rfl h, cache_refresh i _ _⟩

theorem inv_step (i : Inst) (hw : WF i) (s : State) (a : Nat) (hi : Inv i s) (ha : a < env.nAct i)
    (hm : env.mask i s a = true) : Inv i (env.step i s a) := by
  have hm' : (Cvrp.mask i.base s.base a && canReach i s a) = true := hm
  rw [Bool.and_eq_true] at hm'
  have h2 := hm'.2
  simp only [canReach, Params.cvrptwMaskTwCmp, Cmp.eval, decide_eq_true_eq] at h2
  have hcur : (env.step i s a).base.cur = a := rfl
  have ht : (env.step i s a).time =
      (if a ≠ 0 then max (s.time + i.base.D s.base.cur a) (i.twS a) + i.dur a else 0) := by
    rw [step_time, hi.2.2 a]
  refine ⟨fun h => ?_, fun h => ?_, cache_refresh i _ _⟩
  · rw [hcur] at h; rw [ht]; simp [h]
  · rw [hcur] at h ⊢
    rw [ht]
    simp only [ne_eq, h, not_false_eq_true, if_true]
    have : a ≤ i.base.n := by simp only [env] at ha; omega
    have := hw.ret.ret a (by omega) this
    omega

theorem inv_of_reach' (i : Inst) (hw : WF i) {s : State} (h : Reach env i s) : Inv i s :=
  inv_of_reach (Inv := Inv i) (inv_reset i) (fun s a hi ha hm => inv_step i hw s a hi ha hm) h

/-- (1) every reachable state offers an action -/
theorem mask_nonempty (i : Inst) (hw : WF i) {s : State} (h : Reach env i s) :
    ∃ a, a < env.nAct i ∧ env.mask i s a = true := by
  have hi := inv_of_reach' i hw h
  by_cases hc : s.base.cur = 0
  · by_cases hany : Cvrp.anyLoc i.base s.base = true
    · simp only [Cvrp.anyLoc, List.any_eq_true, List.mem_range] at hany
      obtain ⟨k, hk, hl⟩ := hany
      refine ⟨k + 1, by simp [env]; omega, ?_⟩
      have hr := hw.reach (k + 1) (by omega) (by omega)
      have ht := hi.1 hc
      simp [env, mask, Cvrp.mask, hl, canReach, Params.cvrptwMaskTwCmp, Cmp.eval, hc, ht, hr]
    · have hany' : Cvrp.anyLoc i.base s.base = false := by simpa using hany
      refine ⟨0, by simp [env], ?_⟩
      have ht := hi.1 hc
      have := hw.ret.depot
      simp [env, mask, Cvrp.mask, hany', canReach, Params.cvrptwMaskTwCmp, Cmp.eval, hc, ht, this]
  · refine ⟨0, by simp [env], ?_⟩
    have := hi.2.1 hc
    simp [env, mask, Cvrp.mask, hc, canReach, Params.cvrptwMaskTwCmp, Cmp.eval, this]

/-- (2) a finished instance never becomes unfinished again -/
theorem done_stable (i : Inst) (s : State) (a : Nat) (hd : env.done i s = true) :
    env.done i (env.step i s a) = true :=
  Cvrp.done_stable i.base s.base a hd

theorem runND_base (i : Inst) {s s' : State} {as : List Nat} (h : RunND env i s as s') :
    RunND Cvrp.env i.base s.base as s'.base := by
  induction h with
  | nil s => exact RunND.nil _
  | @cons s s' a as hd ha hm _ ih =>
    have hm' : (Cvrp.mask i.base s.base a && canReach i s a) = true := hm
    rw [Bool.and_eq_true] at hm'
    exact RunND.cons hd ha hm'.1 ih

/-- (3) step bound 2n+1 -/
theorem steps_le (i : Inst) (hwf : Cvrp.WF i.base) {as : List Nat} {s : State}
    (h : RunND env i (env.reset i) as s) : as.length ≤ 2 * i.base.n + 1 :=
  Cvrp.steps_le i.base hwf (runND_base i h)

/-- the precondition asserted by the code's checker (window *start*) -/
def CodePrecond (i : Inst) : Prop :=
  ∀ j, j ≤ i.base.n → i.twS j + i.base.D 0 j + i.dur j ≤ i.twE 0

/-- two customers at distance 1 on either side of the depot (2 apart), all windows [0,10] except the
depot's [0,3], no service time -/
def deadInst : Inst :=
  { base := ⟨2, 8, fun _ => 1, fun a b => if a = b then 0 else if a = 0 ∨ b = 0 then 1 else 2⟩
    twS := fun _ => 0, twE := fun j => if j = 0 then 3 else 10, dur := fun _ => 0 }

/-- The code's own precondition does not exclude dead ends: `deadInst` satisfies it and is solvable
(`[1,0,2,0]` is feasible), yet after the admitted prefix `[1,2]` no action is offered. -/
theorem dead_end_example :
    CodePrecond deadInst ∧ Spec.Cvrptw.Feasible deadInst [1, 0, 2, 0] ∧
    ∃ s, Run env deadInst (env.reset deadInst) [1, 2] s ∧ env.done deadInst s = false ∧
      ∀ a, a < env.nAct deadInst → env.mask deadInst s a = false := by
  refine ⟨?_, (Spec.Cvrptw.feasible_iff _ _).1 (by decide), _,
    (run_iff_admitted _ _ _ _ _).2 ⟨by decide, rfl⟩, by decide, ?_⟩
  · intro j hj
    have hj' : j ≤ 2 := hj
    have : j = 0 ∨ j = 1 ∨ j = 2 := by omega
    rcases this with h | h | h <;> subst h <;> decide
  · intro a ha
    have ha' : a < 3 := ha
    have : a = 0 ∨ a = 1 ∨ a = 2 := by omega
    rcases this with h | h | h <;> subst h <;> decide

/-- Non-vacuity of `WF`: the instance of the C01 example (deadlines met with equality). -/
example : WF exInst := by
  refine ⟨?_, ?_, ?_⟩
  · intro j h1 h2
    have h2' : j ≤ 2 := h2
    have : j = 1 ∨ j = 2 := by omega
    rcases this with h | h <;> subst h <;> decide
  · decide
  · intro j h1 h2
    have h2' : j ≤ 2 := h2
    have : j = 1 ∨ j = 2 := by omega
    rcases this with h | h <;> subst h <;> decide

end Rl4co.Cvrptw
