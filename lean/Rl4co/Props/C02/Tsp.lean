/-
C02 for TSP (equal-length family): (1) an unfinished reachable state always offers a node;
(2) an episode is finished exactly when it has `n` steps, so all rows of a rectangular batch finish at
the same step and the all-False mask of a finished row is never fed to a policy; (3) `done` is
absorbing whatever is stepped; (4) no mask-confined run is longer than `n`.
-/
import Rl4co.Proofs.TspfamTsp

namespace Rl4co.Tsp
open Rl4co.Tspfam

/-- (1) no dead end before the episode is finished -/
theorem mask_nonempty (i : Inst) (hpos : 0 < i.n) {s : State} (h : Reach env i s)
    (hd : env.done i s = false) : ∃ a, a < env.nAct i ∧ env.mask i s a = true :=
  availEnv.avail_of_not_done hpos h hd

/-- (2) finished ⇔ exactly `n` steps were taken -/
theorem run_length (i : Inst) (hpos : 0 < i.n) {as : List Nat} {s : State}
    (h : Run env i (env.reset i) as s) : env.done i s = true ↔ as.length = i.n :=
  availEnv.run_length hpos h

/-- (2') for EVERY batch shape `bs` (flat `[B]`, multi-dimensional `[B1, B2]`, …) the mask width allocated by
`_reset` (`resetWidth`, the extracted size expression applied to the shape `bs ++ [n, 2]` of `locs`) is the
number of cities, and an episode is finished exactly after that many steps -/
theorem run_length_any_batch_shape (bs : List Nat) (i : Inst) (hpos : 0 < i.n) {as : List Nat} {s : State}
    (h : Run env i (env.reset i) as s) :
    resetWidth bs i = env.nAct i ∧ (env.done i s = true ↔ as.length = resetWidth bs i) := by
  rw [resetWidth_eq]; exact ⟨rfl, run_length i hpos h⟩

/-- (3) a finished instance never becomes unfinished again, whatever node is stepped -/
theorem done_stable (i : Inst) (hpos : 0 < i.n) {s : State} (h : Reach env i s)
    (hd : env.done i s = true) (a : Nat) : env.done i (env.step i s a) = true :=
  availEnv.done_stable hpos h hd a

/-- in a finished state the mask is empty: a finished row can not be stepped through the mask -/
theorem mask_empty_of_done (i : Inst) (hpos : 0 < i.n) {s : State} (h : Reach env i s)
    (hd : env.done i s = true) (a : Nat) (ha : a < env.nAct i) : env.mask i s a = false :=
  availEnv.none_avail_of_done hpos h hd a ha

/-- (4) step bound: `n` -/
theorem steps_le (i : Inst) {as : List Nat} {s : State} (h : Run env i (env.reset i) as s) :
    as.length ≤ i.n :=
  availEnv.length_le h

example : (0 : Nat) < (⟨3, fun _ _ => 1⟩ : Inst).n := by decide
example : Reach env ⟨3, fun _ _ => 1⟩ (exec env ⟨3, fun _ _ => 1⟩ (env.reset ⟨3, fun _ _ => 1⟩) [2, 0]) :=
  ⟨[2, 0], (run_iff_admitted _ _ _ _ _).2 ⟨by decide, rfl⟩⟩

end Rl4co.Tsp
