/-
C02 for SVRP.  (1) every state of the model offers an action (the model's technician table is total;
the real code raises when the index reaches T, see `tech_lt_of_run`); (2) `done` is absorbing;
(3) under `WF` (the last technician covers every customer) a mask-confined run through unfinished
states has at most n + max(T−1, 1) steps — n customer visits plus one depot visit per technician sent
home before the last one (one for a single technician); this is ≤ 2n+1 whenever T ≤ n+2, but NOT in
general (technicians that cannot serve anything are skipped one depot step each);
(4) `tech_lt_of_run`: along ANY mask-confined run from reset (padding included) of length ≤ n+T−1 — the
longest an unfinished batch-mate can take when T ≥ 2 — the technician index stays < T, i.e. inside a
`while not done.all()` loop the real code never indexes `techs` out of range.  With T = 1 it does, at
the very step that finishes the episode (`single_technician_overflow`, known finding).
-/
import Rl4co.Env.Svrp
import Rl4co.Props.C01.Svrp

namespace Rl4co.Svrp

/-- (1) The mask is never empty, in any state whatsoever. -/
theorem mask_nonempty (i : Inst) (s : State) : ∃ a, a < env.nAct i ∧ env.mask i s a = true := by
  by_cases h : ((s.cur == 0 || s.tech == i.T - 1) && anyLoc i s) = true
  · simp only [Bool.and_eq_true, anyLoc, List.any_eq_true, List.mem_range] at h
    obtain ⟨_, k, hk, hl⟩ := h
    exact ⟨k + 1, by simp [env]; omega, by simp [env, mask_eq, maskRef, hl]⟩
  · refine ⟨0, by simp [env], ?_⟩
    simp only [env, mask_eq, maskRef, if_true]
    cases hh : ((s.cur == 0 || s.tech == i.T - 1) && anyLoc i s)
    · rfl
    · exact absurd hh h

/-- (2) A finished instance never becomes unfinished again (whatever is stepped). -/
theorem done_stable (i : Inst) (s : State) (a : Nat) (hd : env.done i s = true) :
    env.done i (env.step i s a) = true := by
  have hall := all_visited_of_done i s hd
  have : cnt (i.n + 1) (upd s.vis a true) = i.n + 1 := by
    apply cnt_eq_n.mpr
    intro j hj
    simp only [upd_apply]; split
    · rfl
    · exact hall j hj
  simpa [env, done, step, Params.svrpDoneCmp, Cmp.evalNat] using this

/-- number of unvisited customers -/
def unvisited (i : Inst) (s : State) : Nat := cnt i.n (fun k => !s.vis (k + 1))

theorem unvisited_step_customer (i : Inst) (s : State) (a : Nat) (h0 : a ≠ 0) (ha : a < i.n + 1)
    (hv : s.vis a = false) : unvisited i (step i s a) + 1 = unvisited i s := by
  unfold unvisited
  have : (fun k => !(step i s a).vis (k + 1)) = upd (fun k => !s.vis (k + 1)) (a - 1) false := by
    funext k
    simp only [step_eq, stepRef, upd_apply]
    by_cases hk : k + 1 = a
    · have : k = a - 1 := by omega
      rw [if_pos hk, if_pos this]; rfl
    · have : k ≠ a - 1 := by omega
      rw [if_neg hk, if_neg this]
  rw [this]
  apply cnt_upd_false (by omega)
  have : a - 1 + 1 = a := by omega
  simp [this, hv]

theorem unvisited_step_depot (i : Inst) (s : State) : unvisited i (step i s 0) = unvisited i s := by
  unfold unvisited
  apply cnt_congr
  intro j _
  simp [step_eq, stepRef]

theorem unvisited_zero_iff (i : Inst) (s : State) : unvisited i s = 0 ↔ AllVis i s := by
  unfold unvisited
  rw [cnt_eq_zero]
  constructor
  · intro h j h1 h2
    have := h (j - 1) (by omega)
    rw [Nat.sub_add_cancel h1] at this
    simpa using this
  · intro h k hk
    simp [h (k + 1) (by omega) (by omega)]

/-- bookkeeping along any mask-confined run: steps = depot visits + newly visited customers -/
theorem steps_account (i : Inst) {s s' : State} {as : List Nat} (h : Run env i s as s') :
    s'.tech + unvisited i s = s.tech + unvisited i s' + as.length := by
  induction h with
  | nil s => simp
  | @cons s s' a as ha hm _ ih =>
    simp only [env] at ha hm ih
    by_cases h0 : a = 0
    · subst h0
      have hu := unvisited_step_depot i s
      have ht : (step i s 0).tech = s.tech + 1 := by simp [step_eq, stepRef]
      simp only [List.length_cons]
      omega
    · have hc := mask_customer h0 hm
      have hu := unvisited_step_customer i s a h0 ha hc.1
      have ht : (step i s a).tech = s.tech := by simp [step_eq, stepRef, h0]
      simp only [List.length_cons]
      omega

/-- invariant preserved by every admitted step: the depot is marked visited once a technician returned -/
def DepotSeen (s : State) : Prop := 1 ≤ s.tech → s.vis 0 = true

theorem depotSeen_step (i : Inst) (s : State) (a : Nat) (h : DepotSeen s) : DepotSeen (step i s a) := by
  intro ht
  by_cases h0 : a = 0
  · subst h0; simp [step_eq, stepRef]
  · simp only [step_eq, stepRef, h0, if_false, Nat.add_zero] at ht
    have := h ht
    simp only [step_eq, stepRef, upd_apply]
    split <;> simp [this]

theorem done_of_allVis (i : Inst) (s : State) (hall : AllVis i s) (h0 : s.vis 0 = true) :
    env.done i s = true := by
  have : cnt (i.n + 1) s.vis = i.n + 1 := by
    apply cnt_eq_n.mpr
    intro j hj
    cases j with
    | zero => exact h0
    | succ k => exact hall (k + 1) (by omega) (by omega)
  simp [env, done, Params.svrpDoneCmp, Cmp.evalNat, this]

/-- invariants of runs through unfinished states (preserved by steps taken from unfinished states) -/
structure NDInv (i : Inst) (s : State) : Prop where
  techOk : TechOk i s
  seen   : DepotSeen s
  bound  : s.tech ≤ max (i.T - 1) 1

theorem ndInv_step (i : Inst) (hw : WF i) (s : State) (a : Nat) (hi : NDInv i s)
    (hd : env.done i s = false) (ha : a < env.nAct i) (hm : env.mask i s a = true) :
    NDInv i (env.step i s a) := by
  refine ⟨techOk_step i hw s a hi.techOk hm, depotSeen_step i s a hi.seen, ?_⟩
  simp only [env] at hm hd ⊢
  by_cases h0 : a = 0
  · subst h0
    have ht : (step i s 0).tech = s.tech + 1 := by simp [step_eq, stepRef]
    rw [ht]
    -- an unfinished state with all customers visited has not seen the depot, hence tech = 0
    by_cases hlt : s.tech + 1 ≤ i.T - 1
    · omega
    · have hT := hw.tech
      rcases hi.techOk with h1 | hall
      · -- tech = T-1: the depot is only admitted when nothing is servable, i.e. all customers visited
        have htl : s.tech = i.T - 1 := by omega
        simp only [mask_eq, maskRef, if_true, Bool.not_eq_true', Bool.and_eq_false_iff, Bool.or_eq_false_iff,
          beq_eq_false_iff_ne, ne_eq] at hm
        have hany : anyLoc i s = false := by
          rcases hm with h | h
          · exact absurd htl h.2
          · exact h
        have hall : AllVis i s := by
          intro j h1 h2
          have hl := anyLoc_false hany j h1 h2
          have hs := hw.last j h1 h2
          simp only [locOk, Params.svrpMaskSkillCmp, Cmp.eval, htl, Bool.and_eq_false_iff,
            Bool.not_eq_false', decide_eq_false_iff_not] at hl
          rcases hl with h | h
          · exact h
          · exact absurd hs h
        have hv0 : s.vis 0 = false := by
          by_cases hv : s.vis 0 = true
          · have := done_of_allVis i s hall hv
            simp only [env] at this
            rw [this] at hd; exact absurd hd (by simp)
          · simpa using hv
        have : s.tech = 0 := by
          by_cases h : 1 ≤ s.tech
          · have := hi.seen h; rw [hv0] at this; exact absurd this (by simp)
          · omega
        omega
      · have hv0 : s.vis 0 = false := by
          by_cases hv : s.vis 0 = true
          · have := done_of_allVis i s hall hv
            simp only [env] at this
            rw [this] at hd; exact absurd hd (by simp)
          · simpa using hv
        have : s.tech = 0 := by
          by_cases h : 1 ≤ s.tech
          · have := hi.seen h; rw [hv0] at this; exact absurd this (by simp)
          · omega
        omega
  · have ht : (step i s a).tech = s.tech := by simp [step_eq, stepRef, h0]
    rw [ht]; exact hi.bound

theorem ndInv_of_runND (i : Inst) (hw : WF i) {s s' : State} {as : List Nat} (h : RunND env i s as s')
    (h0 : NDInv i s) : NDInv i s' := by
  induction h with
  | nil s => exact h0
  | cons hd ha hm _ ih => exact ih (ndInv_step i hw _ _ h0 hd ha hm)

theorem ndInv_reset (i : Inst) (hw : WF i) : NDInv i (env.reset i) :=
  ⟨Or.inl (by simp only [env, reset]; exact hw.tech), fun h => by simp [env, reset] at h,
    by simp [env, reset]⟩

/-- (3) Step bound: n customer visits + max(T−1, 1) depot visits. -/
theorem steps_le (i : Inst) (hw : WF i) {as : List Nat} {s : State}
    (h : RunND env i (env.reset i) as s) : as.length ≤ i.n + max (i.T - 1) 1 := by
  have hb := (ndInv_of_runND i hw h (ndInv_reset i hw)).bound
  have hacc := steps_account i h.run
  have hu : unvisited i (env.reset i) ≤ i.n := cnt_le _ _
  have ht : (env.reset i).tech = 0 := rfl
  omega

/-- (3') the property's generic bound 2n+1 holds whenever there are at most n+2 technicians -/
theorem steps_le_two_n_plus_one (i : Inst) (hw : WF i) (hT : i.T ≤ i.n + 2) {as : List Nat} {s : State}
    (h : RunND env i (env.reset i) as s) (hn : 1 ≤ i.n) : as.length ≤ 2 * i.n + 1 := by
  have := steps_le i hw h
  omega

/-- (4) no technician-index overflow inside a batch loop: any mask-confined run from reset (padding
steps included) of at most n + T − 1 steps keeps `current_tech < T`. -/
theorem tech_lt_of_run (i : Inst) (hw : WF i) {as : List Nat} {s : State}
    (h : Run env i (env.reset i) as s) (hl : as.length + 1 ≤ i.n + i.T) : s.tech < i.T := by
  have hto : TechOk i s :=
    inv_of_run (Inv := fun s _ => TechOk i s) (Or.inl (by simp only [env, reset]; exact hw.tech))
      (fun s _ a hi _ hm => techOk_step i hw s a hi hm) h
  rcases hto with hlt | hall
  · exact hlt
  · have hacc := steps_account i h
    have hu0 := (unvisited_zero_iff i s).2 hall
    have hu : unvisited i (env.reset i) ≤ i.n := cnt_le _ _
    have ht : (env.reset i).tech = 0 := rfl
    have hT := hw.tech
    -- all customers visited: every customer step visited a new one, so tech = length − n
    have hun : unvisited i (env.reset i) = i.n := by
      unfold unvisited
      have : cnt i.n (fun k => !(env.reset i).vis (k + 1)) = i.n := by
        apply cnt_eq_n.mpr; intro j _; rfl
      exact this
    omega

/-- With a single technician the index overflows at the step that finishes the episode: instance with
one customer, episode `[1, 0]`. -/
theorem single_technician_overflow :
    ∃ i : Inst, WF i ∧ ∃ s, Run env i (env.reset i) [1, 0] s ∧ env.done i s = true ∧
      techOverflow i s = true ∧
      (∀ as' s', Run env i (env.reset i) as' s' → env.done i s' = true → techOverflow i s' = true) := by
  refine ⟨⟨1, 1, fun _ => 5, fun _ => 3, fun _ => 1, fun _ _ => 0⟩, ⟨by decide, fun _ _ _ => by show (3 : Int) ≤ 5; decide⟩, _,
    (run_iff_admitted _ _ _ _ _).2 ⟨by decide, rfl⟩, by decide, by decide, ?_⟩
  intro as' s' hr hd
  -- done requires the depot visited, which requires a depot step, which increments tech to ≥ 1 = T
  have hinv : (s'.vis 0 = true → 1 ≤ s'.tech) :=
    inv_of_run (Inv := fun s _ => s.vis 0 = true → 1 ≤ s.tech) (by simp [env, reset])
      (fun s _ a hi _ _ => by
        intro hv
        by_cases h0 : a = 0
        · subst h0; simp [env, step_eq, stepRef]
        · have : s.vis 0 = true := by
            simp only [env, step_eq, stepRef, upd_apply] at hv
            have : (0 : Nat) ≠ a := fun h => h0 h.symm
            simpa [this] using hv
          have := hi this
          simp only [env, step_eq, stepRef, h0, if_false]; omega) hr
  have hv0 := all_visited_of_done _ s' hd 0 (by decide)
  have := hinv hv0
  simp only [techOverflow, decide_eq_true_eq]
  exact this

/-- Non-vacuity of the bound: the example of C01, an episode of n + T − 1 = 3 steps. -/
example : RunND env exInst (env.reset exInst) [1, 0, 2] (exec env exInst (env.reset exInst) [1, 0, 2]) := by
  refine RunND.cons (by decide) (by decide) (by decide) ?_
  refine RunND.cons (by decide) (by decide) (by decide) ?_
  refine RunND.cons (by decide) (by decide) (by decide) ?_
  exact RunND.nil _

end Rl4co.Svrp
