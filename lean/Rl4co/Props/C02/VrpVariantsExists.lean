/-
Existence of finished mask-confined episodes (hence of feasible solutions) for the CVRP variants: a step
bound for runs through unfinished states plus "an unfinished reachable state offers an action" yields a
finished run (`exists_complete_of_bound`, generic).  Instantiated: every well-formed CVRPTW / SDVRP / SVRP
instance has a finished mask-confined episode (the model-level content of "every generated instance is
solvable", with the `gen_wf_*` links) and therefore — by C01 — a solution that is feasible by the independent
Spec: the Specs are not vacuous on well-formed instances.
-/
import Rl4co.Props.C02.Cvrptw
import Rl4co.Props.C02.Sdvrp
import Rl4co.Props.C02.Svrp

namespace Rl4co

theorem RunND.snoc {I S : Type} {e : Env I S} {i : I} {s s' : S} {as : List Nat} {a : Nat}
    (h : RunND e i s as s') (hd : e.done i s' = false) (ha : a < e.nAct i) (hm : e.mask i s' a = true) :
    RunND e i s (as ++ [a]) (e.step i s' a) := by
  induction h with
  | nil s => exact RunND.cons hd ha hm (RunND.nil _)
  | cons h0 h1 h2 _ ih => exact RunND.cons h0 h1 h2 (ih hd hm)

/-- bounded runs + no dead ends ⇒ a finished run exists -/
theorem exists_complete_of_bound {I S : Type} (e : Env I S) (i : I) (Bd : Nat)
    (hb : ∀ as s, RunND e i (e.reset i) as s → as.length ≤ Bd)
    (hne : ∀ as s, RunND e i (e.reset i) as s → e.done i s = false → ∃ a, a < e.nAct i ∧ e.mask i s a = true) :
    ∃ as s, RunND e i (e.reset i) as s ∧ e.done i s = true := by
  have key : ∀ f as s, RunND e i (e.reset i) as s → as.length + f = Bd + 1 →
      ∃ as' s', RunND e i (e.reset i) as' s' ∧ e.done i s' = true := by
    intro f
    induction f with
    | zero => intro as s h hl; have := hb as s h; omega
    | succ f ih =>
      intro as s h hl
      by_cases hd : e.done i s = true
      · exact ⟨as, s, h, hd⟩
      · have hd' : e.done i s = false := by simpa using hd
        obtain ⟨a, ha, hm⟩ := hne as s h hd'
        exact ih (as ++ [a]) _ (h.snoc hd' ha hm) (by simp; omega)
  exact key (Bd + 1) [] _ (RunND.nil _) (by simp)

namespace Cvrptw

/-- every well-formed CVRPTW instance has a finished mask-confined episode -/
theorem exists_complete_run (i : Inst) (hw : WF i) (hd : Cvrp.WF i.base) :
    ∃ as s, RunND env i (env.reset i) as s ∧ env.done i s = true :=
  exists_complete_of_bound env i (2 * i.base.n + 1) (fun _ _ h => steps_le i hd h)
    (fun as _ h _ => mask_nonempty i hw ⟨as, h.run⟩)

/-- … hence a solution that is feasible by the independent Spec (the Spec is satisfiable on WF instances) -/
theorem feasible_exists (i : Inst) (hw : WF i) (hd : Cvrp.WF i.base) (hcap : 0 ≤ i.base.cap) :
    ∃ as, Spec.Cvrptw.Feasible i as := by
  obtain ⟨as, s, hr, hdn⟩ := exists_complete_run i hw hd
  exact ⟨as, feasible_of_run i hcap hw.ret hr.run hdn⟩

end Cvrptw

namespace Sdvrp

theorem exists_complete_run (i : Inst) (hw : WFpos i) :
    ∃ as s, RunND env i (env.reset i) as s ∧ env.done i s = true :=
  exists_complete_of_bound env i (2 * ((i.n : Int) + sumTo i.n i.demand / i.cap) + 1).toNat
    (fun as _ h => by have := steps_le i hw h; omega)
    (fun _ s _ _ => mask_nonempty i s)

theorem feasible_exists (i : Inst) (hw : WFpos i) : ∃ as, Spec.Sdvrp.Feasible i as := by
  obtain ⟨as, s, hr, hdn⟩ := exists_complete_run i hw
  exact ⟨as, feasible_of_run i hw.wf hr.run hdn⟩

end Sdvrp

namespace Svrp

theorem exists_complete_run (i : Inst) (hw : WF i) :
    ∃ as s, RunND env i (env.reset i) as s ∧ env.done i s = true :=
  exists_complete_of_bound env i (i.n + max (i.T - 1) 1) (fun _ _ h => steps_le i hw h)
    (fun _ s _ _ => mask_nonempty i s)

theorem feasible_exists (i : Inst) (hw : WF i) : ∃ as, Spec.Svrp.Feasible i as := by
  obtain ⟨as, s, hr, hdn⟩ := exists_complete_run i hw
  exact ⟨as, feasible_of_run i hw hr.run hdn⟩

/-- the property text's generic bound "two steps per customer plus one" does NOT hold for SVRP when there are
more than n+2 technicians: one customer, four technicians of which only the last qualifies — the only
mask-confined episode is `[0, 0, 0, 1]`, four steps > 2·1 + 1. -/
def manyTechs : Inst := ⟨1, 4, fun k => if k = 3 then 5 else 1, fun _ => 5, fun _ => 1, fun _ _ => 0⟩

theorem two_n_plus_one_fails :
    ∃ (i : Inst) (as : List Nat) (s : State), WF i ∧ RunND env i (env.reset i) as s ∧ env.done i s = true ∧
      2 * i.n + 1 < as.length := by
  refine ⟨manyTechs, [0, 0, 0, 1], exec env manyTechs (env.reset manyTechs) [0, 0, 0, 1],
    ⟨by decide, fun j h1 h2 => by
      have h2' : j ≤ 1 := h2
      have : j = 1 := by omega
      subst this; decide⟩, ?_, by decide, by decide⟩
  refine RunND.cons (by decide) (by decide) (by decide) ?_
  refine RunND.cons (by decide) (by decide) (by decide) ?_
  refine RunND.cons (by decide) (by decide) (by decide) ?_
  refine RunND.cons (by decide) (by decide) (by decide) ?_
  exact RunND.nil _

end Svrp
end Rl4co
