/-
C02 for FJSP / JSSP, part 2 — the time-advance loop counted over a whole episode, and the Spec sanity
lemmas of the family.

* `transits_le`: over any mask-confined episode the TOTAL number of executions of
  `_transit_to_next_time` (wait actions plus iterations of `while step_complete.any()`) is at most the
  number of operations — every execution moves the clock past the completion of at least one
  operation.  With `steps_eq` this is the property text's "one step per operation plus one per wait",
  including the hidden loop: `#steps = #operations + #waits`, `#waits + #loop iterations ≤ #operations`.
* Spec sanity (`Spec.Fjsp.ValidSchedule`): a valid schedule exists for every well-formed instance; its
  makespan is determined by the schedule, positive, and at least the chosen duration of every
  operation; validity is invariant under delaying the whole schedule; the jobs' completion order
  inside a job is strict.
-/
import Rl4co.Props.C05.FjspOptimum

namespace Rl4co.Fjsp
open Rl4co.Spec.Fjsp (isReal opOf Sched ValidSchedule)

/-! ### counting the executions of `_transit_to_next_time` -/

/-- iterations of `while step_complete.any()` for one row -/
def autoCount (i : Inst) : Nat → State → Nat
  | 0, _ => 0
  | f + 1, s => if stepComplete i s then 1 + autoCount i f (transit i s) else 0

/-- executions of `_transit_to_next_time` caused by one step of a row -/
def transitsOfStep (i : Inst) (s : State) (a : Nat) : Nat :=
  if s.done then 0
  else if a = 0 then 1 + autoCount i (fuel i) (transit i s)
  else autoCount i (fuel i) (makeStep i s (a - 1))

/-- … summed over an episode -/
def transitsOfRun (i : Inst) : State → List Nat → Nat
  | _, [] => 0
  | s, a :: as => transitsOfStep i s a + transitsOfRun i (step i s a) as

theorem autoCount_le {i : Inst} (hwf : WF i) (f : Nat) :
    ∀ s, Inv i s → cntBusy i s < f → cntBusy i (autoTransit i f s) + autoCount i f s ≤ cntBusy i s := by
  induction f with
  | zero => intro s _ h; omega
  | succ f ih =>
    intro s hinv hlt
    simp only [autoTransit, autoCount]
    cases hsc : stepComplete i s with
    | false => simp
    | true =>
      simp only [if_true]
      obtain ⟨m, hm, hb⟩ := exists_busy_of_stepComplete hwf hinv hsc
      obtain ⟨t', ht'⟩ := nextTime_isSome hm hb
      have hdec := cntBusy_transit_lt (i := i) ht'
      have := ih _ (inv_transit hwf hinv ht') (by omega)
      omega

/-- the potential "operations still to be scheduled + machines still busy" pays for every transit -/
theorem transits_step {i : Inst} (hwf : WF i) {s : State} (h2 : Inv2 i s) {a : Nat} (ha : a < nAct i)
    (hm : mask i s a = true) :
    (unsched i (step i s a) + cntBusy i (step i s a)) + transitsOfStep i s a ≤ unsched i s + cntBusy i s := by
  obtain ⟨hinv, _⟩ := h2
  rw [step_eq]
  unfold transitsOfStep
  cases hd : s.done with
  | true => simp
  | false =>
    simp only [Bool.false_eq_true, if_false]
    by_cases ha0 : a = 0
    · subst ha0
      simp only [if_true]
      obtain ⟨_, m, hmM, hb⟩ := wait_busy hinv hd hm
      obtain ⟨t', ht'⟩ := nextTime_isSome hmM hb
      have hinv' := inv_transit hwf hinv ht'
      have h1 := autoCount_le hwf (fuel i) _ hinv' (cntBusy_le_fuel i _)
      have h2' := cntBusy_transit_lt (i := i) ht'
      obtain ⟨_, _, _, h4⟩ := autoTransit_spec hwf (fuel i) _ hinv' (cntBusy_le_fuel i _)
      have h5 : (transit i s).sched = s.sched := by rw [transit, release_sched, advance_some ht']
      rw [unsched_congr h4, unsched_congr h5]
      omega
    · simp only [ha0, if_false]
      obtain ⟨hsel, ho⟩ := sel_of_mask hwf hinv ha0 ha hm
      have hms : makeStep i s (a - 1) = makeStepAt s (translate i s (a - 1)).1 (s.nextOp (translate i s (a - 1)).1)
          (translate i s (a - 1)).2.2 := by unfold makeStep; simp only [ho]
      have hinv' : Inv i (makeStep i s (a - 1)) := by rw [hms]; exact inv_makeStepAt hwf hinv hsel
      have h1 := autoCount_le hwf (fuel i) _ hinv' (cntBusy_le_fuel i _)
      obtain ⟨_, _, _, h4⟩ := autoTransit_spec hwf (fuel i) _ hinv' (cntBusy_le_fuel i _)
      rw [unsched_congr h4]
      have h6 := mu_makeStepAt hwf hinv hsel
      -- `_make_step`: one operation less to schedule, one machine more busy
      have h7 : unsched i (makeStep i s (a - 1)) + 1 = unsched i s := by
        have := unsched_step hwf ⟨hinv, by assumption⟩ hd ha hm
        rw [step_eq] at this
        simp only [hd, Bool.false_eq_true, if_false, ha0] at this
        rw [unsched_congr h4] at this
        exact this
      rw [← hms] at h6
      unfold mu at h6
      omega

theorem transits_run {i : Inst} (hwf : WF i) {s s' : State} {as : List Nat} (h : Run env i s as s') (h2 : Inv2 i s) :
    (unsched i s' + cntBusy i s') + transitsOfRun i s as ≤ unsched i s + cntBusy i s := by
  induction h with
  | nil s => simp [transitsOfRun]
  | @cons s s' a as ha hm _ ih =>
    simp only [env] at ha hm
    have h1 := ih (inv2_step hwf h2 ha hm)
    have h3 := transits_step hwf h2 ha hm
    simp only [env] at h1
    simp only [transitsOfRun]
    omega

/-- **C02, the hidden loop counted**: over every mask-confined episode (any length, any padding) the total
number of executions of `_transit_to_next_time` — explicit waits and iterations of the
`while step_complete.any()` loop together — is at most the number of operations. -/
theorem transits_le (i : Inst) (hwf : WF i) (as : List Nat) (s : State) (h : Run env i (env.reset i) as s) :
    transitsOfRun i (reset i) as ≤ nReal i := by
  have h1 := transits_run hwf h (inv2_reset hwf)
  have h2 : unsched i (env.reset i) = nReal i := by
    unfold unsched nReal
    have : (fun o => isReal i o && !(env.reset i).sched o) = isReal i := by funext o; simp [env, reset]
    rw [this]
  have h3 : cntBusy i (env.reset i) = 0 := by
    unfold cntBusy
    exact cnt_eq_zero.mpr (fun m _ => by simp [env, reset])
  simp only [env] at h1 h2 h3
  omega

example : transitsOfRun exFjsp (reset exFjsp) [1, 4, 0, 1, 4, 0] = 2 ∧ nReal exFjsp = 4 ∧
    transitsOfRun exJssp (reset exJssp) [1, 2, 1, 2] = 3 := by decide

/-! ### Spec sanity: `ValidSchedule` is neither vacuous nor over-constrained -/

/-- a valid schedule exists for every well-formed instance (built by any mask-following policy) -/
theorem valid_schedule_exists (i : Inst) (hwf : WF i) : ∃ σ mk, ValidSchedule i σ mk := by
  obtain ⟨r, as, s, hrun, hd, he⟩ := exists_finished_run i hwf
  exact ⟨schedOf s, - reward i s, schedule_valid i hwf as s hrun hd⟩

/-- the makespan is a function of the schedule -/
theorem makespan_unique {i : Inst} {σ : Sched} {mk mk' : Int} (h : ValidSchedule i σ mk) (h' : ValidSchedule i σ mk') :
    mk = mk' := by
  obtain ⟨o, ho, hr, he⟩ := h.mkAttained
  obtain ⟨o', ho', hr', he'⟩ := h'.mkAttained
  have := h.mkUpper o' ho' hr'
  have := h'.mkUpper o ho hr
  omega

/-- … equal to `Spec.makespan`, positive, and at least the duration of every operation on its machine -/
theorem makespan_ge_duration {i : Inst} {σ : Sched} {mk : Int} (h : ValidSchedule i σ mk) {o m : Nat} (ho : o < i.N)
    (hr : isReal i o = true) (hm : m < i.M) (ha : σ.assign m o = true) : 0 < i.proc m o ∧ i.proc m o ≤ mk := by
  obtain ⟨_, h0, hall⟩ := h.once o ho hr
  obtain ⟨hp, hf⟩ := hall m hm ha
  have := h.mkUpper o ho hr
  exact ⟨hp, by omega⟩

theorem makespan_pos {i : Inst} {σ : Sched} {mk : Int} (h : ValidSchedule i σ mk) : 0 < mk := by
  obtain ⟨o, ho, hr, _⟩ := h.mkAttained
  obtain ⟨m, hm, ha, _, hp, _, _⟩ := sigma_machine h ho hr
  have := (makespan_ge_duration h ho hr hm ha).2
  omega

theorem makespan_eq_spec {i : Inst} (hwf : WF i) {σ : Sched} {mk : Int} (h : ValidSchedule i σ mk) :
    mk = Spec.Fjsp.makespan i σ := by
  obtain ⟨hup, o, ho, hr, he⟩ := makespan_spec hwf σ
  obtain ⟨o', ho', hr', he'⟩ := h.mkAttained
  have := h.mkUpper o ho hr
  have := hup o' ho' hr'
  omega

/-- delaying the whole schedule by `c ≥ 0` keeps it valid and adds `c` to the makespan (the problem has no
absolute deadlines) -/
theorem valid_shift {i : Inst} {σ : Sched} {mk : Int} (h : ValidSchedule i σ mk) (c : Int) (hc : 0 ≤ c) :
    ValidSchedule i ⟨fun o => σ.start o + c, fun o => σ.finish o + c, σ.assign⟩ (mk + c) := by
  refine ⟨?_, ?_, ?_, ?_, ?_⟩
  · intro o ho hr
    obtain ⟨h1, h2, h3⟩ := h.once o ho hr
    refine ⟨h1, by simp only; omega, fun m hm ha => ?_⟩
    obtain ⟨hp, hf⟩ := h3 m hm ha
    exact ⟨hp, by simp only; omega⟩
  · intro j hj o ho h1 h2
    have := h.order j hj o ho h1 h2
    simp only; omega
  · intro m hm o1 ho1 o2 ho2 hr1 hr2 hne ha1 ha2
    have := h.machine m hm o1 ho1 o2 ho2 hr1 hr2 hne ha1 ha2
    simp only; omega
  · intro o ho hr
    have := h.mkUpper o ho hr
    simp only; omega
  · obtain ⟨o, ho, hr, he⟩ := h.mkAttained
    exact ⟨o, ho, hr, by simp only; omega⟩

/-- operations of a job complete in strictly increasing order, so a job's last operation completes at
least (number of its operations) time units after 0 -/
theorem job_finish_strict {i : Inst} {σ : Sched} {mk : Int} (h : ValidSchedule i σ mk) {j : Nat} (hj : j < i.J)
    (hN : i.endOp j < i.N) :
    ∀ k, i.startOp j + k ≤ i.endOp j → (k : Int) + 1 ≤ σ.finish (i.startOp j + k) := by
  intro k
  induction k with
  | zero =>
    intro hk
    have hr := real_of_job hj (Nat.le_refl _) (show i.startOp j ≤ i.endOp j by omega)
    obtain ⟨m, _, _, _, hp, hf, h0⟩ := sigma_machine h (show i.startOp j < i.N by omega) hr
    simp only [Nat.add_zero]; omega
  | succ k ih =>
    intro hk
    have h1 := ih (by omega)
    have hord := h.order j hj (i.startOp j + k) (by omega) (by omega) (by omega)
    have hr := real_of_job hj (show i.startOp j ≤ i.startOp j + (k + 1) by omega) hk
    obtain ⟨m, _, _, _, hp, hf, h0⟩ := sigma_machine h (show i.startOp j + (k + 1) < i.N by omega) hr
    have e : i.startOp j + k + 1 = i.startOp j + (k + 1) := by omega
    rw [e] at hord
    push_cast
    omega

/-- the oracle rejects the obvious corruptions of a valid schedule (`valid` is not vacuous): on `exFjsp`,
the schedule of the finished run is accepted, and it is rejected once an operation is moved onto a busy
machine interval, started before its job predecessor completes, shortened, or the makespan misreported -/
example :
    let s := exec env exFjsp (env.reset exFjsp) [1, 4, 0, 1, 4, 0]
    let σ := schedOf s
    Spec.Fjsp.valid exFjsp σ 6 = true ∧
    Spec.Fjsp.valid exFjsp σ 7 = false ∧
    Spec.Fjsp.valid exFjsp ⟨σ.start, σ.finish, fun m o => if o = 2 then m == 0 else σ.assign m o⟩ 6 = false ∧
    Spec.Fjsp.valid exFjsp ⟨fun o => if o = 1 then 2 else σ.start o, fun o => if o = 1 then 5 else σ.finish o, σ.assign⟩ 6 = false ∧
    Spec.Fjsp.valid exFjsp ⟨σ.start, fun o => if o = 3 then 5 else σ.finish o, σ.assign⟩ 6 = false := by decide

end Rl4co.Fjsp
