/-
C02 for MDCPDP (row stepped on its own, well-formed hand-supplied instance — one capacity entry per
depot, capacity of depot 0 at least 1): (1) every reachable state offers an action — finished states
keep node 0 open; (2) `done` is absorbing; (3) every mask-confined episode is finished after at most
`N + K − 1` steps (every node once, plus one return for every vehicle but the last); (4) it is finished
EXACTLY when it has `N + K − 1` steps (`done_iff_length`), so all rows of a batch finish at the same
step (`equal_length`) and the bundled decoding loops never pad an MDCPDP row.
-/
import Rl4co.Proofs.Mdcpdp

namespace Rl4co.Mdcpdp

/-- (1) The mask of a reachable state is never empty. -/
theorem mask_nonempty_of_inv (i : Inst) (hwf : WF i) {s : State} (hi : Inv i s) :
    ∃ a, a < i.N ∧ s.mask a = true := by
  have hev := hwf.even
  have hk := hwf.kpos
  have hpd : i.pd = i.h + i.K := rfl
  have hK0 : 0 < i.K := by omega
  rcases hi.phase with ⟨hmk, _⟩ | ⟨b, hmk, hav0, hb⟩
  · exact ⟨0, by omega, by rw [hmk]; simp⟩
  · cases hd : s.done with
    | true => exact ⟨0, by omega, by rw [hmk]; simp [maskOf, hK0, hd]⟩
    | false =>
      have hcge : 0 ≤ s.carry := by rw [hi.carryEq]; omega
      cases b with
      | true =>
        -- just returned: an unvisited depot is offered
        obtain ⟨hc, hany⟩ := hb rfl
        obtain ⟨j, hj, hjav⟩ := anyIn_eq_true.mp (hany hd)
        have hj0 : j ≠ 0 := by intro h; subst h; rw [hav0] at hjav; cases hjav
        refine ⟨j, by omega, ?_⟩
        rw [hmk]
        simp [maskOf, hj, hj0, hjav, hi.tdLow j (by omega), hany hd, hc]
      | false =>
        by_cases hcpos : 0 < s.carry
        · -- something is on board: its delivery is offered
          have : 0 < onb i s.avail := by have := hi.carryEq; omega
          obtain ⟨k, hk1, hk2⟩ := cnt_pos.mp this
          simp only [Bool.and_eq_true, Bool.not_eq_true'] at hk2
          refine ⟨i.K + i.h + k, by omega, ?_⟩
          have htd := hi.tdDel (i.K + k) (by omega) (by omega)
          have e : i.K + k + i.h = i.K + i.h + k := by omega
          rw [e, hk2.1] at htd
          rw [hmk]
          have h1 : ¬ (i.K + i.h + k < i.K) := by omega
          have h2 : ¬ (i.K + i.h + k < i.pd) := by omega
          simp [maskOf, h1, h2, hk2.2, htd]
        · have hc0 : s.carry = 0 := by omega
          by_cases hpick : ∃ k, k < i.h ∧ s.avail (i.K + k) = true
          · -- an unvisited pickup fits (capacity of depot 0 is at least 1)
            obtain ⟨k, hk1, hk2⟩ := hpick
            refine ⟨i.K + k, by omega, ?_⟩
            rw [hmk]
            have h1 : ¬ (i.K + k < i.K) := by omega
            have h2 : i.K + k < i.pd := by omega
            have hcap := hwf.cap0
            have h3 : ¬ (i.cap 0 ≤ s.carry) := by omega
            simp [maskOf, h1, hk2, hi.tdLow (i.K + k) (by omega), h3]
          · -- all customers are served: the vehicle may return, since some depot is still unvisited
            have hnop : ∀ k, k < i.h → s.avail (i.K + k) = false := by
              intro k hk1
              cases hh : s.avail (i.K + k) with
              | false => rfl
              | true => exact absurd ⟨k, hk1, hh⟩ hpick
            have hnod : ∀ k, k < i.h → s.avail (i.K + i.h + k) = false := by
              intro k hk1
              cases hh : s.avail (i.K + i.h + k) with
              | false => rfl
              | true =>
                have : 0 < onb i s.avail := cnt_pos.mpr ⟨k, hk1, by simp [hnop k hk1, hh]⟩
                have := hi.carryEq; omega
            have hany : anyIn i.N s.avail = true := by
              have := hi.doneEq; rw [hd] at this; simpa using this.symm
            obtain ⟨j, hj, hjav⟩ := anyIn_eq_true.mp hany
            have hjK : j < i.K := by
              apply Classical.byContradiction; intro hnk
              by_cases hjp : j < i.K + i.h
              · have := hnop (j - i.K) (by omega)
                have e : i.K + (j - i.K) = j := by omega
                rw [e, hjav] at this; cases this
              · have := hnod (j - i.K - i.h) (by omega)
                have e : i.K + i.h + (j - i.K - i.h) = j := by omega
                rw [e, hjav] at this; cases this
            have hanyK : anyIn i.K s.avail = true := anyIn_eq_true.mpr ⟨j, hjK, hjav⟩
            refine ⟨0, by omega, ?_⟩
            rw [hmk]
            simp [maskOf, hK0, hanyK, hc0]

theorem mask_nonempty (i : Inst) (hwf : WF i) {s : State} (h : Reach env i s) :
    ∃ a, a < env.nAct i ∧ env.mask i s a = true :=
  mask_nonempty_of_inv i hwf (inv_of_reach hwf h)

/-- (2) A finished instance never becomes unfinished again (whatever is stepped). -/
theorem done_stable (i : Inst) (hwf : WF i) {s : State} (h : Reach env i s) (a : Nat)
    (hd : env.done i s = true) : env.done i (env.step i s a) = true := by
  have hall := avail_of_done (inv_of_reach hwf h) hd
  show (step i s a).done = true
  rw [step_done]
  have : anyIn i.N (upd s.avail a false) = false := by
    apply anyIn_eq_false.mpr
    intro j hj
    simp only [upd_apply]; split
    · rfl
    · exact hall j hj
  simp [this]

/-- "the vehicle has just returned": neither node 0 nor any customer is offered -/
def isHome (i : Inst) (s : State) : Bool :=
  !(s.mask 0) && !(anyIn (i.N - i.K) (fun k => s.mask (i.K + k)))

/-- termination measure: unvisited nodes + unvisited depots − [just returned] -/
def mu (i : Inst) (s : State) : Nat :=
  cnt i.N s.avail + cnt i.K s.avail - (if isHome i s then 1 else 0)

theorem cnt_step_avail (n : Nat) (av : Nat → Bool) (a : Nat) (ha : a < n) (h : av a = true) :
    cnt n (upd av a false) + 1 = cnt n av := cnt_upd_false ha h

theorem cnt_step_other (n : Nat) (av : Nat → Bool) (a : Nat) (ha : n ≤ a) :
    cnt n (upd av a false) = cnt n av :=
  cnt_congr (fun j hj => upd_other _ _ _ _ (by omega))

theorem cnt_le_of_le (n m : Nat) (f : Nat → Bool) (h : n ≤ m) : cnt n f ≤ cnt m f := by
  induction m with
  | zero => have : n = 0 := by omega
            subst this; exact Nat.le_refl _
  | succ m ih =>
    by_cases hn : n = m + 1
    · subst hn; exact Nat.le_refl _
    · have := ih (by omega); rw [cnt_succ]; omega

/-- every admitted step from an unfinished state strictly decreases the measure -/
theorem mu_decreases (i : Inst) (hwf : WF i) (s : State) (a : Nat) (hi : Inv i s)
    (hd : env.done i s = false) (ha : a < env.nAct i) (hm : env.mask i s a = true) :
    mu i (env.step i s a) < mu i s := by
  have hev := hwf.even
  have hk := hwf.kpos
  have hd' : s.done = false := hd
  have hm' : s.mask a = true := hm
  have ha' : a < i.N := ha
  have hKN : i.K ≤ i.N := by omega
  show mu i (step i s a) < mu i s
  -- in the "just returned" situation some depot is unvisited
  have hhome : isHome i s = true → 1 ≤ cnt i.K s.avail := by
    intro hh
    obtain ⟨b, hb1, hb2⟩ := mask_nonempty_of_inv i hwf hi
    simp only [isHome, Bool.and_eq_true, Bool.not_eq_true'] at hh
    have hbK : b < i.K := by
      apply Classical.byContradiction; intro hnk
      have := anyIn_eq_false.mp hh.2 (b - i.K) (by omega)
      have e : i.K + (b - i.K) = b := by omega
      simp only [e] at this
      rw [hb2] at this; cases this
    have hb0 : b ≠ 0 := by intro h; subst h; rw [hh.1] at hb2; cases hb2
    exact cnt_pos.mpr ⟨b, hbK, mask_depot_ne hwf hi hbK hb0 hb2⟩
  by_cases hav : s.avail a = true
  · -- a node is visited for the first time
    have h1 := cnt_step_avail i.N s.avail a ha' hav
    have h2 : cnt i.K (upd s.avail a false) ≤ cnt i.K s.avail := by
      by_cases haK : a < i.K
      · have := cnt_step_avail i.K s.avail a haK hav; omega
      · rw [cnt_step_other i.K s.avail a (by omega)]; omega
    have h3 : cnt i.K s.avail ≤ cnt i.N s.avail := cnt_le_of_le _ _ _ hKN
    simp only [mu, step_avail]
    by_cases hh : isHome i s = true
    · -- from home only depots are offered: both counters drop
      have hge := hhome hh
      have haK : a < i.K := by
        simp only [isHome, Bool.and_eq_true, Bool.not_eq_true'] at hh
        apply Classical.byContradiction; intro hnk
        have := anyIn_eq_false.mp hh.2 (a - i.K) (by omega)
        have e : i.K + (a - i.K) = a := by omega
        simp only [e] at this
        rw [hm'] at this; cases this
      have h4 := cnt_step_avail i.K s.avail a haK hav
      rw [hh]; simp only [if_true]
      split <;> omega
    · have hh' : isHome i s = false := by simpa using hh
      rw [hh']; simp only [Bool.false_eq_true, if_false]
      split <;> omega
  · -- a visited node is entered again: this is the return to node 0
    have hav' : s.avail a = false := by simpa using hav
    have haK : a < i.K := by
      apply Classical.byContradiction; intro hnk
      have := (mask_customer hwf hi (by omega : i.K ≤ a) hm').1
      rw [hav'] at this; cases this
    have hb : backFlag i s a = true := by simp [backFlag_eq, haK, hav']
    have ha0 := back_is_zero hwf hi hm' hb
    subst ha0
    have hnh : isHome i s = false := by simp [isHome, hm']
    have hsame : upd s.avail 0 false = s.avail := by
      funext j; simp only [upd_apply]; split
      · subst_vars; exact hav'.symm
      · rfl
    -- afterwards nothing but unvisited depots is offered
    have hnd : (step i s 0).done = false := by
      rw [step_done, hsame, ← hi.doneEq]; exact hd'
    have hh' : isHome i (step i s 0) = true := by
      have hdep : (step i s 0).depot = 0 := (inv_step hwf hi ha' hm').dep0
      simp only [isHome, Bool.and_eq_true, Bool.not_eq_true']
      refine ⟨?_, ?_⟩
      · rw [step_mask, hdep, hnd]
        simp [maskOf, (by omega : 0 < i.K), hb]
      · apply anyIn_eq_false.mpr
        intro k _
        rw [step_mask]
        have : ¬ (i.K + k < i.K) := by omega
        simp [maskOf, this, hb]
    have hge : 1 ≤ cnt i.K (step i s 0).avail := by
      obtain ⟨b, hb1, hb2⟩ := mask_nonempty_of_inv i hwf (inv_step hwf hi ha' hm')
      simp only [isHome, Bool.and_eq_true, Bool.not_eq_true'] at hh'
      have hbK : b < i.K := by
        apply Classical.byContradiction; intro hnk
        have := anyIn_eq_false.mp hh'.2 (b - i.K) (by omega)
        have e : i.K + (b - i.K) = b := by omega
        simp only [e] at this
        rw [hb2] at this; cases this
      have hb0 : b ≠ 0 := by intro h; subst h; rw [hh'.1] at hb2; cases hb2
      exact cnt_pos.mpr ⟨b, hbK, mask_depot_ne hwf (inv_step hwf hi ha' hm') hbK hb0 hb2⟩
    simp only [mu, hh', hnh, if_true, Bool.false_eq_true, if_false]
    simp only [step_avail, hsame] at hge ⊢
    omega

/-- (3) Step bound. -/
theorem steps_le (i : Inst) (hwf : WF i) {as : List Nat} {s : State}
    (h : RunND env i (env.reset i) as s) : as.length ≤ i.N + i.K - 1 := by
  have hev := hwf.even
  have hk := hwf.kpos
  cases h with
  | nil _ => simp
  | @cons _ _ a as hd ha hm hrest =>
    -- the first step visits node 0, which is a node and a depot
    have hm' : (reset i).mask a = true := hm
    have ha0 : a = 0 := by simpa [reset] using hm'
    subst ha0
    have hi1 := inv_step hwf (inv_reset i hwf) (by omega : 0 < i.N) hm'
    have := steps_le_of_measure (e := env) (i := i) (mu i) (Inv i)
      (fun s a hi ha hm => inv_step hwf hi ha hm)
      (fun s a hi hd ha hm => mu_decreases i hwf s a hi hd ha hm) hrest hi1
    have hmu : mu i (env.step i (env.reset i) 0) ≤ i.N + i.K - 2 := by
      show mu i (step i (reset i) 0) ≤ _
      have h1 := cnt_step_avail i.N (reset i).avail 0 (by omega) rfl
      have h2 := cnt_step_avail i.K (reset i).avail 0 (by omega) rfl
      have h3 := cnt_le i.N (reset i).avail
      have h4 := cnt_le i.K (reset i).avail
      simp only [mu, step_avail]
      split <;> omega
    simp only [List.length_cons]
    omega

/-- Non-vacuity: a well-formed instance with 2 depots and one order, and the run `[0,2,3,0,1]` of
exactly `N + K − 1 = 5` steps. -/
def exInst : Inst :=
  { N := 4, K := 2, split0 := 3, KG := 2, cap := fun _ => 1, D := fun _ _ => 1, openMode := false,
    wNum := 0, wDen := 1 }
example : WF exInst := ⟨by decide, by decide, by decide, by decide, by decide, by decide⟩
example : RunND env exInst (env.reset exInst) [0, 2, 3, 0, 1]
    (exec env exInst (env.reset exInst) [0, 2, 3, 0, 1]) := by
  refine RunND.cons (by decide) (by decide) (by decide) ?_
  refine RunND.cons (by decide) (by decide) (by decide) ?_
  refine RunND.cons (by decide) (by decide) (by decide) ?_
  refine RunND.cons (by decide) (by decide) (by decide) ?_
  refine RunND.cons (by decide) (by decide) (by decide) ?_
  exact RunND.nil _
example : env.done exInst (exec env exInst (env.reset exInst) [0, 2, 3, 0, 1]) = true := by decide

/-! ### equal length -/

/-- after a step that is not a return, the row is not in the "just returned" situation -/
theorem isHome_step_of_not_back (i : Inst) (hwf : WF i) {s : State} (hi : Inv i s) {a : Nat}
    (ha : a < i.N) (hm : s.mask a = true) (hb : backFlag i s a = false) :
    isHome i (step i s a) = false := by
  have hk := hwf.kpos
  have hev := hwf.even
  have hi' := inv_step hwf hi ha hm
  obtain ⟨b, hb1, hb2⟩ := mask_nonempty_of_inv i hwf hi'
  have hdep : (step i s a).depot = 0 := hi'.dep0
  cases hh : isHome i (step i s a) with
  | false => rfl
  | true =>
    exfalso
    simp only [isHome, Bool.and_eq_true, Bool.not_eq_true'] at hh
    by_cases hbK : b < i.K
    · by_cases hb0 : b = 0
      · subst hb0; rw [hh.1] at hb2; cases hb2
      · rw [step_mask, hdep] at hb2
        simp [maskOf, hbK, hb0, hb] at hb2
    · have := anyIn_eq_false.mp hh.2 (b - i.K) (by omega)
      have e : i.K + (b - i.K) = b := by omega
      simp only [e] at this
      rw [hb2] at this; cases this

/-- a depot other than node 0 is only offered in the "just returned" situation -/
theorem home_of_depot_mask (i : Inst) (hwf : WF i) {s : State} (hi : Inv i s) (hd : s.done = false)
    {j : Nat} (hj : j < i.K) (hj0 : j ≠ 0) (hm : s.mask j = true) : isHome i s = true := by
  have hk := hwf.kpos
  rcases hi.phase with ⟨hmk, _⟩ | ⟨b, hmk, _, _⟩
  · rw [hmk] at hm; simp [hj0] at hm
  · have hb : b = true := by
      rw [hmk] at hm
      simp only [maskOf, capFlagOf_eq, carryFlagOf_eq, lastDepotOf_eq, hj, if_true, hj0, if_false, Bool.and_eq_true] at hm
      exact hm.1.1.2
    subst hb
    simp only [isHome, Bool.and_eq_true, Bool.not_eq_true']
    refine ⟨?_, ?_⟩
    · rw [hmk]; simp [maskOf, (by omega : 0 < i.K), hd]
    · apply anyIn_eq_false.mpr
      intro k _
      rw [hmk]
      have : ¬ (i.K + k < i.K) := by omega
      simp [maskOf, this]

/-- after the first step, every admitted step from an unfinished state lowers the measure by exactly 1 -/
theorem mu_step_eq (i : Inst) (hwf : WF i) (s : State) (a : Nat) (hi : Inv i s) (h0 : s.avail 0 = false)
    (hd : s.done = false) (ha : a < i.N) (hm : s.mask a = true) :
    mu i (step i s a) + 1 = mu i s := by
  have hev := hwf.even
  have hk := hwf.kpos
  have hKN : i.K ≤ i.N := by omega
  have hlt := mu_decreases i hwf s a hi hd ha hm
  have hlt' : mu i (step i s a) < mu i s := hlt
  by_cases hav : s.avail a = true
  · have hb : backFlag i s a = false := by simp [backFlag_eq, hav]
    have hnh' := isHome_step_of_not_back i hwf hi ha hm hb
    have h1 := cnt_step_avail i.N s.avail a ha hav
    have ha0 : a ≠ 0 := by intro h; subst h; rw [h0] at hav; cases hav
    by_cases hh : isHome i s = true
    · have haK : a < i.K := by
        simp only [isHome, Bool.and_eq_true, Bool.not_eq_true'] at hh
        apply Classical.byContradiction; intro hnk
        have := anyIn_eq_false.mp hh.2 (a - i.K) (by omega)
        have e : i.K + (a - i.K) = a := by omega
        simp only [e] at this
        rw [hm] at this; cases this
      have h4 := cnt_step_avail i.K s.avail a haK hav
      simp only [mu, step_avail, hnh', hh, if_true, Bool.false_eq_true, if_false] at hlt' ⊢
      omega
    · have hh' : isHome i s = false := by simpa using hh
      have haK : ¬ a < i.K := by
        intro haK
        have := home_of_depot_mask i hwf hi hd haK ha0 hm
        rw [hh'] at this; cases this
      have h4 := cnt_step_other i.K s.avail a (by omega)
      simp only [mu, step_avail, hnh', hh', Bool.false_eq_true, if_false, h4] at hlt' ⊢
      omega
  · have hav' : s.avail a = false := by simpa using hav
    have haK : a < i.K := by
      apply Classical.byContradiction; intro hnk
      have := (mask_customer hwf hi (by omega : i.K ≤ a) hm).1
      rw [hav'] at this; cases this
    have hb : backFlag i s a = true := by simp [backFlag_eq, haK, hav']
    have ha0 := back_is_zero hwf hi hm hb
    subst ha0
    have hnh : isHome i s = false := by simp [isHome, hm]
    have hsame : upd s.avail 0 false = s.avail := by
      funext j; simp only [upd_apply]; split
      · subst_vars; exact hav'.symm
      · rfl
    have hle : mu i (step i s 0) ≤ cnt i.N s.avail + cnt i.K s.avail := by
      simp only [mu, step_avail, hsame]; omega
    simp only [mu, hnh, Bool.false_eq_true, if_false] at hlt' ⊢
    simp only [mu, step_avail, hsame] at hlt' hle ⊢
    split at hlt' <;> split <;> omega

theorem len_mu_of_run (i : Inst) (hwf : WF i) {s s' : State} {as : List Nat}
    (h : RunND env i s as s') (hi : Inv i s) (h0 : s.avail 0 = false) :
    as.length + mu i s' = mu i s := by
  induction h with
  | nil s => simp
  | @cons s s' a as hd ha hm _ ih =>
    have ha' : a < i.N := ha
    have hm' : s.mask a = true := hm
    have hi' := inv_step hwf hi ha' hm'
    have h0' : (step i s a).avail 0 = false := by
      rw [step_avail, upd_apply]; split
      · rfl
      · exact h0
    have := ih hi' h0'
    have e := mu_step_eq i hwf s a hi h0 hd ha' hm'
    have e2 : env.step i s a = step i s a := rfl
    rw [e2] at this
    simp only [List.length_cons]; omega

theorem inv_of_run_nd (i : Inst) (hwf : WF i) {s s' : State} {as : List Nat}
    (h : RunND env i s as s') (hi : Inv i s) : Inv i s' := by
  induction h with
  | nil s => exact hi
  | cons _ ha hm _ ih => exact ih (inv_step hwf hi ha hm)

theorem mu_eq_zero_iff (i : Inst) (hwf : WF i) {s : State} (hi : Inv i s) :
    mu i s = 0 ↔ s.done = true := by
  have hev := hwf.even
  have hk := hwf.kpos
  constructor
  · intro h
    cases hd : s.done with
    | true => rfl
    | false =>
      exfalso
      have hany : anyIn i.N s.avail = true := by
        have := hi.doneEq; rw [hd] at this; simpa using this.symm
      obtain ⟨j, hj, hjav⟩ := anyIn_eq_true.mp hany
      have hN : 1 ≤ cnt i.N s.avail := cnt_pos.mpr ⟨j, hj, hjav⟩
      have hKle : cnt i.K s.avail ≤ cnt i.N s.avail := cnt_le_of_le _ _ _ (by omega)
      by_cases hh : isHome i s = true
      · -- just returned and unfinished: an unvisited depot is offered
        obtain ⟨b, hb1, hb2⟩ := mask_nonempty_of_inv i hwf hi
        simp only [isHome, Bool.and_eq_true, Bool.not_eq_true'] at hh
        have hbK : b < i.K := by
          apply Classical.byContradiction; intro hnk
          have := anyIn_eq_false.mp hh.2 (b - i.K) (by omega)
          have e : i.K + (b - i.K) = b := by omega
          simp only [e] at this
          rw [hb2] at this; cases this
        have hb0 : b ≠ 0 := by intro hh0; subst hh0; rw [hh.1] at hb2; cases hb2
        have : 1 ≤ cnt i.K s.avail := cnt_pos.mpr ⟨b, hbK, mask_depot_ne hwf hi hbK hb0 hb2⟩
        have hh2 : isHome i s = true := by simp [isHome, hh.1, hh.2]
        simp only [mu, hh2, if_true] at h
        omega
      · have hh' : isHome i s = false := by simpa using hh
        simp only [mu, hh', Bool.false_eq_true, if_false] at h
        omega
  · intro hd
    have hall := avail_of_done hi hd
    have h1 : cnt i.N s.avail = 0 := cnt_eq_zero.mpr hall
    have h2 : cnt i.K s.avail = 0 := cnt_eq_zero.mpr (fun j hj => hall j (by omega))
    simp [mu, h1, h2]

/-- **Equal length.**  A mask-confined run that never steps a finished state is finished exactly when
it has `N + K − 1` steps: every node once plus one return for every vehicle but the last. -/
theorem done_iff_length (i : Inst) (hwf : WF i) {as : List Nat} {s : State}
    (h : RunND env i (env.reset i) as s) : env.done i s = true ↔ as.length = i.N + i.K - 1 := by
  have hev := hwf.even
  have hk := hwf.kpos
  cases h with
  | nil _ =>
    simp only [List.length_nil]
    constructor
    · intro h; simp [env, reset] at h
    · intro h; omega
  | @cons _ _ a as hd ha hm hrest =>
    have hm' : (reset i).mask a = true := hm
    have ha0 : a = 0 := by simpa [reset] using hm'
    subst ha0
    have hi1 := inv_step hwf (inv_reset i hwf) (by omega : 0 < i.N) hm'
    have h0 : (step i (reset i) 0).avail 0 = false := by simp [step_avail]
    have e2 : env.step i (env.reset i) 0 = step i (reset i) 0 := rfl
    rw [e2] at hrest
    have hlen := len_mu_of_run i hwf hrest hi1 h0
    have his := inv_of_run_nd i hwf hrest hi1
    have hmu1 : mu i (step i (reset i) 0) = i.N + i.K - 2 := by
      have hb : backFlag i (reset i) 0 = false := by simp [backFlag_eq, reset]
      have hnh := isHome_step_of_not_back i hwf (inv_reset i hwf) (by omega : 0 < i.N) hm' hb
      have h1 := cnt_step_avail i.N (reset i).avail 0 (by omega) rfl
      have h2 := cnt_step_avail i.K (reset i).avail 0 (by omega) rfl
      have h3 : cnt i.N (reset i).avail = i.N := cnt_eq_n.mpr (fun _ _ => rfl)
      have h4 : cnt i.K (reset i).avail = i.K := cnt_eq_n.mpr (fun _ _ => rfl)
      simp only [mu, step_avail, hnh, Bool.false_eq_true, if_false]
      omega
    have hz := mu_eq_zero_iff i hwf his
    show s.done = true ↔ _
    rw [← hz]
    simp only [List.length_cons]
    omega

/-- all rows of a batch with the same numbers of nodes and depots finish at the same step -/
theorem equal_length (i j : Inst) (hi : WF i) (hj : WF j) (hN : i.N = j.N) (hK : i.K = j.K)
    {as bs : List Nat} {s t : State} (h1 : RunND env i (env.reset i) as s) (h2 : RunND env j (env.reset j) bs t)
    (hd1 : env.done i s = true) (hd2 : env.done j t = true) : as.length = bs.length := by
  rw [(done_iff_length i hi h1).mp hd1, (done_iff_length j hj h2).mp hd2, hN, hK]

/-- Non-vacuity of `done_iff_length`: the run `[0,2,3,0,1]` of `exInst` above has exactly `N + K − 1 = 5` steps. -/
example : [0, 2, 3, 0, 1].length = exInst.N + exInst.K - 1 := by decide

end Rl4co.Mdcpdp
