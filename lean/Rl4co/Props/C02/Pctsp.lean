/-
C02 for PCTSP / SPCTSP: (1) every reachable state — finished or not — offers at least one action
(the depot once the prize rule allows it, an unvisited customer otherwise), so a finished row stays
steppable while batch-mates run; (2) `done` is absorbing along mask-admitted steps from reachable
states; (3) every mask-confined episode is finished after at most `max (n+1) 2` steps.
-/
import Rl4co.Env.Pctsp
import Rl4co.Props.C01.Pctsp

namespace Rl4co.Pctsp
open Rl4co.Prize

/-- (1) No reachable state is a dead end. -/
theorem mask_nonempty (i : Inst) (s : State) (hr : Reach env i s) :
    ∃ a, a < env.nAct i ∧ env.mask i s a = true := by
  have hinv := inv_of_reach' i hr
  by_cases h0 : env.mask i s 0 = true
  · exact ⟨0, by simp [env], h0⟩
  · -- the depot is closed: too little prize and some customer unvisited; the depot is unvisited
    have hclosed : ¬ (i.req ≤ s.tot ∨ visitedCustomers i s = i.n) := by
      intro h
      apply h0
      simp only [env, mask, if_true, maskReq_eq, Params.pctspMaskPrizeCmp, Params.pctspMaskCountCmp, Cmp.eval,
        Cmp.evalNat, Bool.not_eq_true', Bool.and_eq_false_iff, decide_eq_false_iff_not]
      rcases h with h | h
      · left; omega
      · right; omega
    have hv0 : s.vis 0 = false := by
      by_cases hv : s.vis 0 = true
      · exact absurd (hinv.vis_ok hv) hclosed
      · simpa using hv
    have hex : ∃ k, k < i.n ∧ s.vis (k + 1) = false := by
      apply Classical.byContradiction
      intro hne
      apply hclosed
      right
      apply cnt_eq_n.mpr
      intro k hk
      by_cases hv : s.vis (k + 1) = true
      · exact hv
      · exact absurd ⟨k, hk, by simpa using hv⟩ hne
    obtain ⟨k, hk, hvk⟩ := hex
    exact ⟨k + 1, by simp [env]; omega, by simp [env, mask, hvk, hv0]⟩

/-- in a state whose depot is marked visited, customers are masked -/
theorem mask_of_vis0 (i : Inst) (s : State) (hv : s.vis 0 = true) (a : Nat) (h0 : a ≠ 0) :
    env.mask i s a = false := by
  simp [env, mask, h0, hv]

/-- (2) A finished instance never becomes unfinished again. -/
theorem done_stable (i : Inst) (s : State) (a : Nat) (hr : Reach env i s)
    (hd : env.done i s = true) (hm : env.mask i s a = true) :
    env.done i (env.step i s a) = true := by
  have hinv := inv_of_reach' i hr
  have hv := hinv.done_vis hd
  have hi := hinv.vis_pos hv
  have ha : a = 0 := by
    by_cases h0 : a = 0
    · exact h0
    · rw [mask_of_vis0 i s hv a h0] at hm; exact absurd hm (by simp)
  subst ha
  simp [env, done, step, Params.pctspDoneCmp, Cmp.evalNat, hi]

/-- number of unvisited customers -/
def unvisited (i : Inst) (s : State) : Nat := cnt i.n (fun k => !s.vis (k + 1))

theorem unvisited_step_customer (i : Inst) (s : State) (a : Nat) (h0 : a ≠ 0) (ha : a < i.n + 1)
    (hv : s.vis a = false) : unvisited i (step i s a) + 1 = unvisited i s := by
  unfold unvisited
  have : (fun k => !(step i s a).vis (k + 1)) = upd (fun k => !s.vis (k + 1)) (a - 1) false := by
    funext k
    simp only [step, upd_apply]
    by_cases hk : k + 1 = a
    · have : k = a - 1 := by omega
      rw [if_pos hk, if_pos this]; rfl
    · have : k ≠ a - 1 := by omega
      rw [if_neg hk, if_neg this]
  rw [this]
  apply cnt_upd_false (by omega)
  have : a - 1 + 1 = a := by omega
  simp [this, hv]

/-- termination measure, with slack `c` for the depot-first episode (possible only without customers
or with a non-positive requirement) -/
def mu (c : Nat) (i : Inst) (s : State) : Nat :=
  if s.done then 0 else if s.vis 0 then 1 else unvisited i s + c

/-- invariant for the sharp bound: before the first step nobody is visited -/
structure Inv2 (i : Inst) (s : State) : Prop extends Inv i s where
  fresh : s.i = 0 → unvisited i s = i.n

theorem inv2_reset (i : Inst) : Inv2 i (env.reset i) := by
  refine ⟨inv_reset i, ?_⟩
  intro _
  have : cnt i.n (fun k => !(reset i).vis (k + 1)) = i.n := by
    apply cnt_eq_n.mpr; intro j _; simp [reset]
  simpa [env, unvisited] using this

theorem inv2_step (i : Inst) (s : State) (a : Nat) (h : Inv2 i s) (hm : env.mask i s a = true) :
    Inv2 i (env.step i s a) :=
  ⟨inv_step i s a h.toInv hm, by intro h0; simp [env, step] at h0⟩

/-- every admitted step from an unfinished state strictly decreases the measure -/
theorem mu_decreases (c : Nat) (i : Inst) (hc : c = 2 ∨ (c = 1 ∧ 1 ≤ i.n)) (s : State) (a : Nat)
    (hinv : Inv2 i s) (hd : env.done i s = false) (ha : a < env.nAct i)
    (hm : env.mask i s a = true) : mu c i (env.step i s a) < mu c i s := by
  simp only [env] at ha hm hd ⊢
  simp only [done] at hd
  by_cases h0 : a = 0
  · subst h0
    by_cases hi : s.i = 0
    · have hv0 : s.vis 0 = false := by
        by_cases hv : s.vis 0 = true
        · have := hinv.vis_pos hv; omega
        · simpa using hv
      have hu := hinv.fresh hi
      simp only [mu, hd, hv0, step, hi, Params.pctspDoneCmp, Cmp.evalNat, upd_same]
      simp
      omega
    · have : (step i s 0).done = true := by
        simp [step, Params.pctspDoneCmp, Cmp.evalNat]; omega
      simp only [mu, this, hd, if_true]
      simp
      split <;> omega
  · obtain ⟨h1, h2⟩ := mask_customer h0 hm
    have hu := unvisited_step_customer i s a h0 ha h1
    have hd' : (step i s a).done = false := by simp [step, h0]
    have hv' : (step i s a).vis 0 = false := by
      simp only [step, upd_apply]
      have : (0 : Nat) ≠ a := fun h => h0 h.symm
      simp [this, h2]
    simp only [mu, hd, hd', hv', h2]
    simp
    omega

/-- (3) Step bound: a mask-confined run through unfinished states has at most `max (n+1) 2` steps. -/
theorem steps_le (i : Inst) {as : List Nat} {s : State}
    (h : RunND env i (env.reset i) as s) : as.length ≤ max (i.n + 1) 2 := by
  have key : ∀ c, (c = 2 ∨ (c = 1 ∧ 1 ≤ i.n)) → as.length ≤ i.n + c := by
    intro c hc
    have := steps_le_of_measure (e := env) (i := i) (mu c i) (Inv2 i)
      (fun s a hi _ hm => inv2_step i s a hi hm)
      (fun s a hi hd ha hm => mu_decreases c i hc s a hi hd ha hm) h (inv2_reset i)
    have h0 : mu c i (env.reset i) = i.n + c := by
      have := (inv2_reset i).fresh rfl
      simp only [env] at this
      simp [mu, env, reset]
      simpa [reset] using this
    omega
  by_cases hn : 1 ≤ i.n
  · have := key 1 (Or.inr ⟨rfl, hn⟩); omega
  · have := key 2 (Or.inl rfl); omega

/-- Non-vacuity: a run through unfinished states that needs all customers (`n + 1 = 4` steps). -/
example : RunND env { exInst with req := 100 } (env.reset exInst) [3, 1, 2, 0]
    (exec env { exInst with req := 100 } (env.reset exInst) [3, 1, 2, 0]) := by
  refine RunND.cons (by decide) (by decide) (by decide) ?_
  refine RunND.cons (by decide) (by decide) (by decide) ?_
  refine RunND.cons (by decide) (by decide) (by decide) ?_
  refine RunND.cons (by decide) (by decide) (by decide) ?_
  exact RunND.nil _

end Rl4co.Pctsp
