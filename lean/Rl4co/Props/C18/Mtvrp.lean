/-
C18, MTVRP generator: time windows (`generate_time_windows`) in exact rational arithmetic, the distance-limit
assertion, demands (exactly one of linehaul / backhaul per customer, integers in range, never above the vehicle
capacity) and the feature removals.  The preset table is in `Tables.lean` (`preset_consistent`, `preset_complete`).
-/
import Rl4co.Gen.Mtvrp
import Rl4co.Props.C18.Tables
import Rl4co.Props.C18.Routing
import Mathlib.Tactic.Linarith
import Mathlib.Tactic.FieldSimp
import Mathlib.Tactic.Ring
import Mathlib.Algebra.Order.Field.Rat
namespace Rl4co.Gen.Mtvrp
open Rl4co.Gen

theorem vehicleCapacity_ge (n : Nat) : 30 ≤ vehicleCapacity n := by
  unfold vehicleCapacity; split_ifs <;> omega

/-- draws in [0,1), constants `0 ≤ a ≤ b ≤ c`, `0 < b`, a customer away from the depot, positive speed, and room for
the round trip: `2·d/v ≤ max_time − b − c` -/
structure TwCond (i : TwIn) : Prop where
  ha : 0 ≤ i.a
  hab : i.a ≤ i.b
  hb : 0 < i.b
  hbc : i.b ≤ i.c
  hd : 0 < i.d
  hv : 0 < i.v
  hus : 0 ≤ i.us ∧ i.us < 1
  hul : 0 ≤ i.ul ∧ i.ul < 1
  hut : 0 ≤ i.ut ∧ i.ut < 1
  room : 2 * (i.d / i.v) ≤ i.T - i.b - i.c

theorem service_range (i : TwIn) (c : TwCond i) : i.a ≤ service i ∧ service i ≤ i.b := by
  unfold service
  have h1 : 0 ≤ (i.b - i.a) * i.us := mul_nonneg (by linarith [c.hab]) c.hus.1
  have h2 : (i.b - i.a) * i.us ≤ (i.b - i.a) * 1 := mul_le_mul_of_nonneg_left c.hus.2.le (by linarith [c.hab])
  constructor <;> linarith

theorem twLength_range (i : TwIn) (c : TwCond i) : i.b ≤ twLength i ∧ twLength i ≤ i.c := by
  unfold twLength
  have h1 : 0 ≤ (i.c - i.b) * i.ul := mul_nonneg (by linarith [c.hbc]) c.hul.1
  have h2 : (i.c - i.b) * i.ul ≤ (i.c - i.b) * 1 := mul_le_mul_of_nonneg_left c.hul.2.le (by linarith [c.hbc])
  constructor <;> linarith

/-- the closed form of `tw_start`: travel time plus a fraction `u` of the slack that remains after service, window
length and the round trip -/
theorem twStart_eq (i : TwIn) (c : TwCond i) :
    twStart i = i.d / i.v + (i.T - service i - twLength i - 2 * (i.d / i.v)) * i.ut := by
  unfold twStart hMax
  have hd := c.hd.ne'
  have hv := c.hv.ne'
  field_simp
  ring

/-- **mtvrp_window**: every generated customer window is ordered, cannot start before the direct arrival from the
depot (so it is reachable), and serving at the very end of the window still leaves time to return:
`d/v ≤ start < end`, `end + service + d/v ≤ max_time` -/
theorem mtvrp_window (i : TwIn) (c : TwCond i) :
    i.d / i.v ≤ twStart i ∧ twStart i < twEnd i ∧ i.d / i.v ≤ twEnd i ∧ twEnd i + service i + i.d / i.v ≤ i.T := by
  obtain ⟨s1, s2⟩ := service_range i c
  obtain ⟨l1, l2⟩ := twLength_range i c
  have hslack : 0 ≤ i.T - service i - twLength i - 2 * (i.d / i.v) := by linarith [c.room]
  have h1 : 0 ≤ (i.T - service i - twLength i - 2 * (i.d / i.v)) * i.ut := mul_nonneg hslack c.hut.1
  have h2 : (i.T - service i - twLength i - 2 * (i.d / i.v)) * i.ut ≤ (i.T - service i - twLength i - 2 * (i.d / i.v)) * 1 :=
    mul_le_mul_of_nonneg_left c.hut.2.le hslack
  have hb := c.hb
  rw [twEnd, twStart_eq i c]
  refine ⟨by linarith, by linarith, by linarith, by linarith⟩

/-- `generate_distance_limit`: when the assertion passes, every customer can be served by an out-and-back trip -/
theorem distance_limit_ok (limit : Rat) (ds : List Rat) (h : distanceLimitOk limit ds = true) : ∀ d ∈ ds, 2 * d < limit := by
  intro d hd
  unfold distanceLimitOk at h
  have := List.all_eq_true.mp h d hd
  have := of_decide_eq_true this
  linarith

/-- the box argument: coordinates in `[lo, hi]²` give `d² ≤ 2(hi−lo)²`; with `8(hi−lo)² < limit²` the
assertion cannot fail, and with `8(hi−lo)² ≤ v²(T − b − c)²` the room condition of `TwCond` holds -/
theorem room_of_box (d v L R : Rat) (_hd : 0 ≤ d) (hv : 0 < v) (hR : 0 ≤ R) (h1 : d * d ≤ 2 * (L * L))
    (h2 : 8 * (L * L) ≤ (v * R) * (v * R)) : 2 * (d / v) ≤ R := by
  rw [mul_div_assoc', div_le_iff₀ hv]
  nlinarith [mul_nonneg hv.le hR]

theorem limit_of_box (d L limit : Rat) (_hd : 0 ≤ d) (hl : 0 ≤ limit) (h1 : d * d ≤ 2 * (L * L))
    (h2 : 8 * (L * L) < limit * limit) : d * 2 < limit := by
  nlinarith

/-! ### demands -/

/-- every customer has exactly one of linehaul / backhaul demand, an integer in the documented range -/

theorem demands_kind (minD maxD minB maxB : Int) (ratio : Frac) (pl pb pr q : Nat)
    (h1 : 1 ≤ minD) (h2 : minD ≤ maxD) (h3 : 1 ≤ minB) (h4 : minB ≤ maxB) (hl : pl < q) (hb : pb < q) :
    let r := demands minD maxD minB maxB ratio pl pb pr q
    (r.1 = 0 ∧ minB ≤ r.2 ∧ r.2 ≤ maxB) ∨ (r.2 = 0 ∧ minD ≤ r.1 ∧ r.1 ≤ maxD) := by
  intro r
  have hL := affInt_range (minD - 1) (maxD - 1) 1 pl q (by omega) (by omega) hl
  have hB := affInt_range (minB - 1) (maxB - 1) 1 pb q (by omega) (by omega) hb
  simp only [r, demands]
  split_ifs
  · right; exact ⟨rfl, by omega, by omega⟩
  · left; exact ⟨rfl, by omega, by omega⟩

/-- removing the backhaul feature (`_default_backhaul`) turns every customer into a linehaul customer with the
same integer demand -/
theorem defaultBackhaul_kind (lb : Int × Int) (h : (lb.1 = 0 ∧ 1 ≤ lb.2) ∨ (lb.2 = 0 ∧ 1 ≤ lb.1)) :
    (defaultBackhaul true lb).2 = 0 ∧ 1 ≤ (defaultBackhaul true lb).1 ∧ (defaultBackhaul true lb).1 = lb.1 + lb.2 := by
  simp only [defaultBackhaul, if_true]
  rcases h with ⟨a, b⟩ | ⟨a, b⟩ <;> simp [a] <;> omega

/-- scaled demands never exceed the vehicle: `demand ≤ 10 ≤ 30 ≤ get_vehicle_capacity(n)` for every `n` -/
theorem demand_le_vehicle (n : Nat) (d : Int) (hd : d ≤ 30) : d ≤ (vehicleCapacity n : Int) := by
  have := vehicleCapacity_ge n; omega


/-- **preset ⇒ features**: for a named preset the instance's features after `subsample_problems` are exactly those
spelled by the preset's name (`[o]vrp[b][l][tw]`), for all 16 names of the regenerated table -/
theorem named_preset_features (o tw l b : Bool) :
    (Params.genMtvrpPresets.lookup (variantName ⟨o, tw, l, b⟩)).map (fun row => applyKeep (keepNamed row))
      = some { openRoute := o, twFinite := tw, limitFinite := l, backhaulAllowed := b } := by
  have := preset_complete o tw l b
  cases h : Params.genMtvrpPresets.lookup (variantName ⟨o, tw, l, b⟩) with
  | none => simp [h] at this
  | some row => simp only [h, Option.map_some, Option.some.injEq] at this ⊢; simp [applyKeep, this]

/-- non-vacuity of `TwCond` with the extracted constants (a = 0.15, b = 0.18, c = 0.2, max_time = 4.6), the farthest
corner (d = √2 ≈ 1.4142) and draws 1/2 -/
example : TwCond ⟨3/20, 9/50, 1/5, 23/5, 14142/10000, 1, 1/2, 1/2, 1/2⟩ := by
  constructor <;> norm_num

end Rl4co.Gen.Mtvrp
