/-
C18, CVRPTW time windows (steps 1–8 of `CVRPTWGenerator._generate`): for all draws, under the parameter condition
`2·dist + 1 ≤ max_time` (implied for the default `max_loc`, `max_time` by `Tables.cvrptw_defaults_room` and
`room_of_box`) and zero service durations, each customer window is ordered, reachable from the depot and leaves time
to return; the generator's final assertion cannot fire.  Real arithmetic (`.int()` of float32 products is outside).
-/
import Rl4co.Gen.Cvrptw
import Rl4co.Props.C18.Tables
import Mathlib.Tactic.Linarith
import Mathlib.Tactic.Ring
namespace Rl4co.Gen.Cvrptw
open Rl4co.Gen

/-- parameter / draw conditions: positive tick scale, draws in [0,1), non-negative distance, zero service
durations (as the generator has them), and `2·dist + 1 ≤ max_time` (time units) -/
structure Cond (i : In) : Prop where
  hS : 0 < i.S
  hq : 0 < i.q
  hp1 : i.p1 < i.q
  hp2 : i.p2 < i.q
  hd : 0 ≤ i.d
  hdur : i.dur = 0
  room : 2 * i.d + i.S ≤ i.T

theorem scaled_bounds (i : In) (c : Cond i) (p : Nat) (hp : p < i.q) :
    i.d / (i.S : Int) ≤ scaled i p ∧ scaled i p ≤ upper i / (i.S : Int) := by
  have hS : (0:Int) < (i.S : Int) := by exact_mod_cast c.hS
  have hq : (0:Int) < (i.q : Int) := by exact_mod_cast c.hq
  have hSq : (0:Int) < (i.S : Int) * (i.q : Int) := Int.mul_pos hS hq
  have hup : upper i - i.d ≥ 0 := by have := c.room; have := c.hdur; unfold upper; omega
  have hp' : (p : Int) ≤ (i.q : Int) := by exact_mod_cast hp.le
  have hN0 : i.d * i.q ≤ i.d * i.q + (upper i - i.d) * p := by
    have : 0 ≤ (upper i - i.d) * (p:Int) := Int.mul_nonneg hup (Int.natCast_nonneg p)
    omega
  have hN1 : i.d * i.q + (upper i - i.d) * p ≤ upper i * i.q := by
    have : (upper i - i.d) * (p:Int) ≤ (upper i - i.d) * (i.q : Int) := Int.mul_le_mul_of_nonneg_left hp' hup
    nlinarith
  have hnn : 0 ≤ i.d * i.q + (upper i - i.d) * p := le_trans (Int.mul_nonneg c.hd hq.le) hN0
  unfold scaled truncDiv
  rw [Int.tdiv_eq_ediv_of_nonneg hnn]
  push_cast
  constructor
  · have := Int.ediv_le_ediv hSq hN0
    rwa [Int.mul_ediv_mul_of_pos_left _ _ hq] at this
  · have := Int.ediv_le_ediv hSq hN1
    rwa [Int.mul_ediv_mul_of_pos_left _ _ hq] at this

/-- **cvrptw_window**: for every pair of draws, the window built by steps 4–7 is ordered, starts no earlier
than 0, ends no earlier than the direct arrival from the depot, and leaves time to return:
`0 ≤ lo < hi`, `dist ≤ hi`, `hi + dur + dist ≤ max_time`; the generator's final assertion never fires. -/
theorem cvrptw_window (i : In) (c : Cond i) : WindowOk i (window i) := by
  have hS : (0:Int) < (i.S : Int) := by exact_mod_cast c.hS
  obtain ⟨a1, a2⟩ := scaled_bounds i c i.p1 c.hp1
  obtain ⟨b1, b2⟩ := scaled_bounds i c i.p2 c.hp2
  have hdur := c.hdur
  -- A = ⌊d/S⌋, U = ⌊upper/S⌋, A + 1 ≤ U
  have hA0 : 0 ≤ i.d / (i.S : Int) := Int.ediv_nonneg c.hd hS.le
  have hAle : i.d / (i.S : Int) * i.S ≤ i.d := Int.ediv_mul_le _ (by omega)
  have hAlt : i.d < (i.d / (i.S : Int) + 1) * i.S := Int.lt_ediv_add_one_mul_self _ hS
  have hUle : upper i / (i.S : Int) * i.S ≤ upper i := Int.ediv_mul_le _ (by omega)
  have hAU : i.d / (i.S : Int) + 1 ≤ upper i / (i.S : Int) := by
    have h1 : i.d + i.S ≤ upper i := by have := c.room; unfold upper; omega
    have h2 := Int.ediv_le_ediv hS h1
    rwa [Int.add_ediv_of_dvd_right (dvd_refl _), Int.ediv_self (by omega)] at h2
  have hdist : distInt i = i.d / (i.S : Int) := by
    unfold distInt truncDiv; exact Int.tdiv_eq_ediv_of_nonneg c.hd
  have hceil : ∀ x : Int, ceilUnits (x * i.S + i.dur) i.S = x := by
    intro x; unfold ceilUnits; rw [hdur]
    have : -(x * (i.S:Int) + 0) = (-x) * (i.S : Int) := by rw [Int.add_zero, Int.neg_mul]
    rw [this, Int.mul_ediv_cancel _ (by omega)]; omega
  -- integer facts about the window
  have key : i.d / (i.S : Int) ≤ (window i).1 ∧ (window i).1 < (window i).2 ∧
      i.d / (i.S : Int) + 1 ≤ (window i).2 ∧ (window i).2 ≤ upper i / (i.S : Int) := by
    have hrep : Params.genCvrptwRepair = (-1, 1) := by decide   -- obligation on the extracted repair offsets
    unfold window
    simp only [hdist, upperFloor, hceil, hrep]
    generalize scaled i i.p1 = a at *
    generalize scaled i i.p2 = b at *
    generalize i.d / (i.S : Int) = A at *
    generalize upper i / (i.S : Int) = U at *
    simp only [Int.min_def, Int.max_def]
    split_ifs <;> simp only [] <;> omega
  obtain ⟨k1, k2, k3, k4⟩ := key
  refine ⟨by omega, k2, ?_, ?_⟩
  · have : (i.d / (i.S : Int) + 1) * i.S ≤ (window i).2 * i.S := Int.mul_le_mul_of_nonneg_right k3 hS.le
    omega
  · have : (window i).2 * i.S ≤ upper i / (i.S : Int) * i.S := Int.mul_le_mul_of_nonneg_right k4 hS.le
    unfold upper at *; omega

theorem cvrptw_assert (i : In) (c : Cond i) : assertOk i = true := by
  have := (cvrptw_window i c).2.1; simpa [assertOk] using this

/-- coordinates in `[0, max_loc]²` give `dist² ≤ 2·max_loc²`; with `8·max_loc² ≤ (max_time − 1)²` (checked on the
extracted defaults in `Tables.lean`) the room condition follows -/
theorem room_of_box (d L T S : Int) (hd : 0 ≤ d) (_hL : 0 ≤ L) (hTS : S ≤ T) (h1 : d * d ≤ 2 * (L * L))
    (h2 : 8 * (L * L) ≤ (T - S) * (T - S)) : 2 * d + S ≤ T := by
  nlinarith

/-- non-vacuity (default parameters, farthest corner ≈ 212.13, both draws 0 → the repaired window [212, 213]) -/
example : Cond ⟨1000, 480000, 212133, 0, 0, 0, 8⟩ := ⟨by decide, by decide, by decide, by decide, by decide, rfl, by decide⟩
example : window ⟨1000, 480000, 212133, 0, 0, 0, 8⟩ = (212, 213) := by decide
/-- the room condition is needed: `max_loc = 300`, `max_time = 480`, a customer at distance 400 gets a window
that ends before it can be reached -/
example : ¬ WindowOk ⟨1, 480, 400, 0, 1, 3, 4⟩ (window ⟨1, 480, 400, 0, 1, 3, 4⟩) := by decide

/-- box argument in ticks: coordinates in a square of side `L` time units (`S` ticks each) and `8L² ≤ (T−1)²` give
the room condition `2·dist + 1 ≤ max_time` -/
theorem room_of_box_ticks (S d L T : Int) (hS : 0 < S) (hd : 0 ≤ d) (hL : 0 ≤ L) (hT : 1 ≤ T)
    (hLT : 8 * (L * L) ≤ (T - 1) * (T - 1)) (hbox : d * d ≤ 2 * (L * S * (L * S))) : 2 * d + S ≤ T * S := by
  apply room_of_box d (L * S) (T * S) S hd (Int.mul_nonneg hL hS.le) (by nlinarith) hbox
  have : (T * S - S) * (T * S - S) = (T - 1) * (T - 1) * (S * S) := by ring
  rw [this]
  have hSS : 0 ≤ S * S := Int.mul_nonneg hS.le hS.le
  nlinarith [Int.mul_le_mul_of_nonneg_right hLT hSS]

/-- **the extracted defaults** (`max_loc − min_loc = 150`, `max_time = 480`, whole numbers) satisfy the room
condition for every customer inside the box; an edit of either default that breaks it fails here -/
theorem default_room (S d : Int) (hS : 0 < S) (hd : 0 ≤ d)
    (hbox : d * d ≤ 2 * ((Params.genCvrptwMaxLoc.1 - Params.genCvrptwMinLoc.1) * S *
                         ((Params.genCvrptwMaxLoc.1 - Params.genCvrptwMinLoc.1) * S))) :
    2 * d + S ≤ Params.genCvrptwMaxTime.1 * S :=
  room_of_box_ticks S d _ _ hS hd (by decide) (by decide) (by decide) hbox

theorem defaults_integral :
    Params.genCvrptwMaxLoc.2 = 1 ∧ Params.genCvrptwMinLoc.2 = 1 ∧ Params.genCvrptwMaxTime.2 = 1 := by decide

end Rl4co.Gen.Cvrptw
